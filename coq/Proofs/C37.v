(** C37 proofs: the Bisector never repeats a question, terminates, reports only genuine first
    bad commits, and is exact for a single culprit. *)
From Verif Require Import Base.Prelude Base.DagI Model.C37.
From Coq Require Import Lia Arith.
Local Open Scope nat_scope.

Lemma pos_desc_in g x : In x (pos_desc g) <-> x < length g.
Proof. unfold pos_desc. rewrite <- in_rev, in_seq. lia. Qed.

Lemma pos_desc_nodup g : NoDup (pos_desc g).
Proof. unfold pos_desc. apply NoDup_rev, seq_NoDup. Qed.

Lemma canon_in g l x : In x (canon g l) <-> In x l /\ x < length g.
Proof. unfold canon. rewrite filter_In, pos_desc_in, memn_spec. tauto. Qed.

Lemma nth_mid_in (l : list nat) : l <> [] -> In (nth (length l / 2) l 0) l.
Proof.
  intros H. apply nth_In. destruct l as [|x t]; [congruence|].
  apply Nat.div_lt; simpl; lia.
Qed.

Lemma filter_len_le {A} (f : A -> bool) l : length (filter f l) <= length l.
Proof. induction l as [|x l IH]; simpl; [lia|]. destruct (f x); simpl; lia. Qed.

Section Bisect.
  Variable g : graph.
  Hypothesis W : wf g.
  Variable R : list nat.
  Notation t := (ancsets g).
  Notation n := (length g).

  Definition marked (st : bstate) (x : nat) : Prop :=
    In x (st_good st) \/ In x (st_bad st) \/ In x (st_skipped st).

  Lemma is_candidate_spec st x :
    is_candidate t R st x = true <->
    In x R /\ (exists r, In r (roots_of g (st_bad st)) /\ anc g x r) /\
    ~ (exists y, In y (st_good st) /\ anc g x y) /\ ~ In x (st_bad st) /\ ~ In x (st_skipped st).
  Proof.
    unfold is_candidate, cand_with. rewrite !andb_true_iff, !negb_true_iff, memn_spec, !memn_false.
    fold (roots_of g (st_bad st)). fold (heads_of g (st_good st)).
    fold (anc_any g (roots_of g (st_bad st)) x). fold (anc_any g (heads_of g (st_good st)) x).
    rewrite anc_any_spec by assumption.
    assert (E : anc_any g (heads_of g (st_good st)) x = false <->
                ~ (exists y, In y (st_good st) /\ anc g x y)).
    { rewrite <- Bool.not_true_iff_false, anc_any_spec by assumption. split; intros H C; apply H.
      - destruct C as (y & Hy & Ha). destruct (below_head g _ y W Hy) as (h & Hh & Hyh).
        exists h. split; [assumption|]. eapply anc_trans; eassumption.
      - destruct C as (h & Hh & Ha). apply heads_of_spec in Hh; [|assumption].
        exists h. split; [apply Hh|assumption]. }
    rewrite E. tauto.
  Qed.

  Lemma candidate_unmarked st x : is_candidate t R st x = true -> In x R /\ ~ marked st x.
  Proof.
    intros H. apply is_candidate_spec in H. destruct H as (HR & _ & Hg & Hb & Hs).
    split; [assumption|]. intros [M|[M|M]]; [|contradiction|contradiction].
    apply Hg. exists x. split; [assumption|constructor].
  Qed.

  Lemma candidates_in st x : In x (candidates g t R st) <-> x < n /\ is_candidate t R st x = true.
  Proof.
    change (candidates g t R st) with (filter (is_candidate t R st) (pos_desc g)).
    now rewrite filter_In, pos_desc_in.
  Qed.

  Lemma next_commit_in st x : next_commit g t R st = Some x -> In x (candidates g t R st).
  Proof.
    unfold next_commit. destruct (candidates g t R st) as [|c l] eqn:E; [discriminate|].
    intros H. injection H as <-. apply (nth_mid_in (c :: l)). discriminate.
  Qed.

  Lemma next_commit_none st : next_commit g t R st = None -> candidates g t R st = [].
  Proof. unfold next_commit. destruct (candidates g t R st); [reflexivity|discriminate]. Qed.

  Lemma marked_mark st x e y : marked (mark st x e) y <-> marked st y \/ y = x.
  Proof. unfold marked. destruct e; simpl; intuition. Qed.

  (** * never the same commit twice *)
  Lemma run_trace oracle : forall fuel st trace tr res,
    run g t R fuel oracle st trace = Some (tr, res) ->
    NoDup trace -> (forall x, In x trace -> marked st x) ->
    NoDup tr /\ forall x, In x tr -> In x trace \/ (In x R /\ ~ marked st x).
  Proof.
    induction fuel as [|fuel IH]; intros st trace tr res E ND M; [discriminate|].
    simpl in E. destruct (next_commit g t R st) as [x|] eqn:Ex.
    - apply next_commit_in, candidates_in in Ex. destruct Ex as [_ Ex].
      apply candidate_unmarked in Ex. destruct Ex as [HR Hm].
      apply IH in E.
      + destruct E as [ND' E]. split; [assumption|]. intros y Hy.
        destruct (E y Hy) as [[<-|H]|[H1 H2]].
        * right. now split.
        * now left.
        * right. split; [assumption|]. intros C. apply H2. apply marked_mark. now left.
      + constructor; [|assumption]. intros C. apply Hm. now apply M.
      + intros y [<-|Hy]; apply marked_mark; [now right|left; now apply M].
    - destruct (finish g t st) as [r|]; [|discriminate]. injection E as <- <-.
      split; [now apply NoDup_rev|]. intros x Hx. left. now apply in_rev.
  Qed.

  Lemma bisect_no_repeat oracle tr res :
    bisect g t R oracle = Some (tr, res) ->
    NoDup tr /\ forall x, In x tr -> In x R /\ ~ In x (heads_of g (canon g R)).
  Proof.
    unfold bisect. intros E. apply run_trace in E; [|constructor|intros x []].
    destruct E as [ND E]. split; [assumption|]. intros x Hx.
    destruct (E x Hx) as [[]|[H1 H2]]. split; [assumption|]. intros C. apply H2.
    right. left. exact C.
  Qed.

  (** * termination *)
  Definition markedb (st : bstate) (x : nat) : bool :=
    memn x (st_good st) || memn x (st_bad st) || memn x (st_skipped st).
  Definition unmarked (st : bstate) : list nat :=
    filter (fun x => memn x R && negb (markedb st x)) (pos_desc g).

  Lemma markedb_spec st x : markedb st x = true <-> marked st x.
  Proof. unfold markedb, marked. rewrite !orb_true_iff, !memn_spec. tauto. Qed.

  Lemma filter_remove_length (f f' : nat -> bool) l x :
    NoDup l -> In x l -> f x = true -> f' x = false -> (forall y, y <> x -> f' y = f y) ->
    S (length (filter f' l)) = length (filter f l).
  Proof.
    induction l as [|y l IH]; intros ND Hx Fx F'x E; [contradiction|].
    inversion ND as [|? ? Hn ND']; subst. simpl. destruct Hx as [->|Hx].
    - rewrite Fx, F'x. simpl. f_equal. f_equal. apply filter_ext_in.
      intros z Hz. apply E. intros ->. contradiction.
    - rewrite (E y) by (intros ->; contradiction).
      destruct (f y); simpl; [f_equal|]; now apply IH.
  Qed.

  Lemma unmarked_mark st x e :
    In x (candidates g t R st) -> S (length (unmarked (mark st x e))) = length (unmarked st).
  Proof.
    intros Hx. apply candidates_in in Hx. destruct Hx as [Lx Hx].
    apply candidate_unmarked in Hx. destruct Hx as [HR Hm].
    unfold unmarked. apply filter_remove_length with (x := x).
    - apply pos_desc_nodup.
    - now apply pos_desc_in.
    - apply andb_true_iff. split; [now apply memn_spec|]. apply negb_true_iff.
      destruct (markedb st x) eqn:E; [|reflexivity]. apply markedb_spec in E. contradiction.
    - apply andb_false_iff. right. apply negb_false_iff, markedb_spec, marked_mark. now right.
    - intros y Ny. f_equal. f_equal.
      destruct (markedb (mark st x e) y) eqn:E1; destruct (markedb st y) eqn:E2; try reflexivity.
      + apply markedb_spec, marked_mark in E1. destruct E1 as [E1|E1]; [|contradiction].
        apply markedb_spec in E1. congruence.
      + apply markedb_spec in E2.
        assert (X : marked (mark st x e) y) by (apply marked_mark; now left).
        apply markedb_spec in X. congruence.
  Qed.

  (** the possibly-bad walk: its fuel is the exact number of iterations *)
  Section PossiblyBad.
    Variable skipped : list nat.
    Notation tbl := (paths_tbl g skipped).
    Definition pcount (x : nat) : nat := nth x tbl 0.
    Definition skipped_parents (c : nat) : list nat :=
      filter (fun p => memn p skipped) (parents g c).

    Lemma paths_tbl_prefix : forall (h : graph) ps,
      fold_left (fun tb ps => tb ++ [paths_of skipped tb ps]) (h ++ [ps]) [] =
      let tb := fold_left (fun tb ps => tb ++ [paths_of skipped tb ps]) h [] in
      tb ++ [paths_of skipped tb ps].
    Proof. intros h ps. now rewrite fold_left_app. Qed.

    Lemma list_sum_filter_if (f : nat -> nat) (b : nat -> bool) l :
      list_sum (map (fun p => if b p then f p else 0) l) = list_sum (map f (filter b l)).
    Proof.
      induction l as [|y l IH]; simpl; [reflexivity|]. destruct (b y); simpl; now rewrite IH.
    Qed.

    Lemma pcount_spec : forall x, x < n ->
      pcount x = S (list_sum (map pcount (skipped_parents x))).
    Proof.
      unfold pcount, paths_tbl, skipped_parents. revert W.
      induction g as [|ps h IH] using rev_ind; intros Wg x Lx; [simpl in Lx; lia|].
      apply wf_snoc in Wg. destruct Wg as [Wh Hps].
      rewrite paths_tbl_prefix. cbv zeta.
      set (tb := fold_left (fun tb ps => tb ++ [paths_of skipped tb ps]) h []) in *.
      assert (Ltb : length tb = length h).
      { unfold tb. clear. induction h as [|q h IH] using rev_ind; [reflexivity|].
        rewrite fold_left_app. simpl. rewrite !app_length, IH. reflexivity. }
      rewrite app_length in Lx. simpl in Lx.
      destruct (Nat.eq_dec x (length h)) as [->|N].
      - rewrite app_nth2 by lia. rewrite Ltb, Nat.sub_diag. simpl nth at 1.
        rewrite parents_app_new. unfold paths_of. f_equal.
        rewrite list_sum_filter_if. f_equal. apply map_ext_in. intros p Hp.
        apply filter_In in Hp. destruct Hp as [Hp _]. apply Hps in Hp.
        rewrite app_nth1 by lia. reflexivity.
      - assert (Lx' : x < length h) by lia.
        rewrite app_nth1 by lia. rewrite parents_app_old by assumption.
        rewrite (IH Wh x Lx'). f_equal. f_equal. apply map_ext_in. intros p Hp.
        apply filter_In in Hp. destruct Hp as [Hp _]. apply Wh in Hp.
        rewrite app_nth1 by lia. reflexivity.
    Qed.

    Lemma possibly_bad_total : forall fuel todo acc,
      (forall x, In x todo -> x < n) -> list_sum (map pcount todo) < fuel ->
      exists l, possibly_bad_loop g fuel skipped todo acc = Some l.
    Proof.
      induction fuel as [|fuel IH]; intros todo acc B F; [lia|].
      simpl. destruct todo as [|c rest]; [now eexists|].
      apply IH.
      - intros x Hx. apply in_app_or in Hx. destruct Hx as [Hx|Hx]; [apply B; now right|].
        apply filter_In in Hx. destruct Hx as [Hx _]. apply W in Hx.
        specialize (B c (or_introl eq_refl)). lia.
      - rewrite map_app, list_sum_app. simpl in F.
        rewrite (pcount_spec c (B c (or_introl eq_refl))) in F.
        fold (skipped_parents c). lia.
    Qed.

    (** everything the walk lists is skipped; every skipped parent of a queued commit is
        listed *)
    Lemma possibly_bad_sound : forall fuel todo acc l,
      possibly_bad_loop g fuel skipped todo acc = Some l ->
      (forall x, In x acc -> In x l) /\
      (forall c p, In c todo -> In p (parents g c) -> In p skipped -> In p l) /\
      (forall x, In x l -> In x acc \/ In x skipped).
    Proof.
      induction fuel as [|fuel IH]; intros todo acc l E; [discriminate|].
      simpl in E. destruct todo as [|c rest].
      - injection E as <-. split; [intros x Hx; now apply in_rev in Hx|].
        split; [intros c p []|]. intros x Hx. left. now apply in_rev.
      - apply IH in E. destruct E as (E1 & E2 & E3). split; [|split].
        + intros x Hx. apply E1. apply in_or_app. now right.
        + intros c' p [<-|Hc] Hp Hs.
          * apply E1. apply in_or_app. left. apply in_rev. rewrite rev_involutive.
            apply filter_In. split; [assumption|now apply memn_spec].
          * eapply E2; [|eassumption|assumption]. apply in_or_app. now left.
        + intros x Hx. destruct (E3 x Hx) as [H|H]; [|now right].
          apply in_app_or in H. destruct H as [H|H]; [|now left].
          apply in_rev, filter_In in H. right. now apply memn_spec.
    Qed.
  End PossiblyBad.

  Lemma finish_total st : exists r, finish g t st = Some r.
  Proof.
    unfold finish. destruct (canon g (roots_of_t t (st_bad st))) as [|b bs] eqn:E; [now eexists|].
    destruct (possibly_bad_total (st_skipped st)
                (possibly_bad_fuel g (st_skipped st) (b :: bs)) (b :: bs) []) as (l & El).
    - intros x Hx. rewrite <- E in Hx. now apply canon_in in Hx.
    - unfold possibly_bad_fuel. fold (pcount (st_skipped st)). lia.
    - rewrite El. destruct l; now eexists.
  Qed.

  Lemma run_total oracle : forall fuel st trace,
    length (unmarked st) < fuel -> exists r, run g t R fuel oracle st trace = Some r.
  Proof.
    induction fuel as [|fuel IH]; intros st trace F; [lia|].
    simpl. destruct (next_commit g t R st) as [x|] eqn:Ex.
    - apply IH. apply next_commit_in in Ex.
      pose proof (unmarked_mark st x (oracle x) Ex). lia.
    - destruct (finish_total st) as (r & ->). now eexists.
  Qed.

  Lemma bisect_total oracle : exists r, bisect g t R oracle = Some r.
  Proof.
    apply run_total. unfold run_fuel, unmarked.
    pose proof (filter_len_le (fun x => memn x R && negb (markedb (init_state g t R) x)) (pos_desc g)).
    unfold pos_desc in *. rewrite rev_length, seq_length in H. lia.
  Qed.

  (** * the candidate set shrinks with every answer *)
  Lemma cand_shrink st x e y : In x (candidates g t R st) ->
    is_candidate t R (mark st x e) y = true -> is_candidate t R st y = true /\ y <> x.
  Proof.
    intros Hx Hy. apply candidates_in in Hx. destruct Hx as [Lx Hx].
    apply is_candidate_spec in Hx. destruct Hx as (HxR & (r0 & Hr0 & Hxr0) & Hxg & Hxb & Hxs).
    apply is_candidate_spec in Hy. destruct Hy as (HyR & (r' & Hr' & Hyr') & Hyg & Hyb & Hys).
    destruct e; simpl in *.
    - split.
      + apply is_candidate_spec. repeat split; try assumption; [now exists r'|].
        intros (z & Hz & Hyz). apply Hyg. exists z. split; [now right|assumption].
      + intros ->. apply Hyg. exists x. split; [now left|constructor].
    - split; [|intros ->; apply Hyb; now left].
      apply is_candidate_spec. split; [assumption|]. split.
      + apply roots_of_spec in Hr'; [|assumption]. destruct Hr' as [[<-|Hin] Hmin].
        * exists r0. split; [assumption|]. eapply anc_trans; eassumption.
        * exists r'. split; [|assumption]. apply roots_of_spec; [assumption|]. split; [assumption|].
          intros z Hz Hzr. apply Hmin; [now right|assumption].
      + split; [assumption|]. split; [|assumption]. intros C. apply Hyb. now right.
    - split; [|intros ->; apply Hys; now left].
      apply is_candidate_spec. repeat split; try assumption; [now exists r'|].
      intros C. apply Hys. now right.
  Qed.

  Lemma filter_strict_length (f f' : nat -> bool) l x :
    (forall y, f' y = true -> f y = true) -> In x l -> f x = true -> f' x = false ->
    length (filter f' l) < length (filter f l).
  Proof.
    intros Sub. induction l as [|y l IH]; intros Hx Fx F'x; [contradiction|]. simpl.
    assert (Le : length (filter f' l) <= length (filter f l)).
    { clear - Sub. induction l as [|z l IH]; simpl; [lia|].
      destruct (f' z) eqn:E; [rewrite (Sub z E); simpl; lia|]. destruct (f z); simpl; lia. }
    destruct Hx as [->|Hx].
    - rewrite Fx, F'x. simpl. lia.
    - specialize (IH Hx Fx F'x). destruct (f' y) eqn:E; [rewrite (Sub y E); simpl; lia|].
      destruct (f y); simpl; lia.
  Qed.

  Lemma candidates_decrease st x e : next_commit g t R st = Some x ->
    length (candidates g t R (mark st x e)) < length (candidates g t R st).
  Proof.
    intros Ex. apply next_commit_in in Ex. pose proof Ex as Hx. apply candidates_in in Hx.
    destruct Hx as [Lx Hx].
    change (candidates g t R (mark st x e)) with (filter (is_candidate t R (mark st x e)) (pos_desc g)).
    change (candidates g t R st) with (filter (is_candidate t R st) (pos_desc g)).
    apply filter_strict_length with (x := x).
    - intros y Hy. now apply (cand_shrink st x e y Ex).
    - now apply pos_desc_in.
    - assumption.
    - destruct (is_candidate t R (mark st x e) x) eqn:E; [|reflexivity].
      destruct (cand_shrink st x e x Ex E) as [_ N]. congruence.
  Qed.

  (** hence at most as many questions as there were candidates at the start *)
  Lemma run_evals oracle : forall fuel st trace tr res,
    run g t R fuel oracle st trace = Some (tr, res) ->
    length tr <= length trace + length (candidates g t R st).
  Proof.
    induction fuel as [|fuel IH]; intros st trace tr res E; [discriminate|].
    simpl in E. destruct (next_commit g t R st) as [x|] eqn:Ex.
    - apply IH in E. pose proof (candidates_decrease st x (oracle x) Ex). simpl in E. lia.
    - destruct (finish g t st) as [r|]; [|discriminate]. injection E as <- <-.
      rewrite rev_length. lia.
  Qed.

  (** * soundness and exactness against a truth that is consistent with history *)
  Section Truth.
    Variables isbad skipb : nat -> bool.
    Definition oracle (x : nat) : evaluation :=
      if skipb x then Skip else if isbad x then Bad else Good.
    Hypothesis monotone : forall x y, In x R -> In y R -> isbad x = true -> anc g x y -> isbad y = true.
    Hypothesis heads_bad : forall h, In h (heads_of g (canon g R)) -> isbad h = true.

    Record sinv (st : bstate) : Prop := {
      si_bad : forall x, In x (st_bad st) -> In x R /\ isbad x = true /\ x < n;
      si_good : forall x, In x (st_good st) -> In x R /\ isbad x = false;
      si_skip : forall x, In x (st_skipped st) -> skipb x = true;
    }.

    Lemma sinv_init : sinv (init_state g t R).
    Proof.
      constructor; simpl; try (intros x []). intros x Hx. fold (heads_of g (canon g R)) in Hx.
      pose proof (heads_bad x Hx) as Hb. apply heads_of_spec in Hx; [|assumption].
      destruct Hx as [Hx _]. apply canon_in in Hx. tauto.
    Qed.

    Lemma sinv_mark st x : sinv st -> In x (candidates g t R st) -> sinv (mark st x (oracle x)).
    Proof.
      intros I Hx. apply candidates_in in Hx. destruct Hx as [Lx Hx].
      apply candidate_unmarked in Hx. destruct Hx as [HR _].
      unfold oracle. destruct (skipb x) eqn:Es; [|destruct (isbad x) eqn:Eb]; constructor; simpl;
        try apply (si_bad _ I); try apply (si_good _ I); try apply (si_skip _ I).
      - intros y [<-|Hy]; [assumption|now apply (si_skip _ I)].
      - intros y [<-|Hy]; [tauto|now apply (si_bad _ I)].
      - intros y [<-|Hy]; [tauto|now apply (si_good _ I)].
    Qed.

    Lemma run_final : forall fuel st trace tr res,
      run g t R fuel oracle st trace = Some (tr, res) -> sinv st ->
      exists st', sinv st' /\ candidates g t R st' = [] /\ finish g t st' = Some res /\
                  (forall x, In x (st_bad st) -> In x (st_bad st')).
    Proof.
      induction fuel as [|fuel IH]; intros st trace tr res E I; [discriminate|].
      simpl in E. destruct (next_commit g t R st) as [x|] eqn:Ex.
      - apply next_commit_in in Ex. apply IH in E; [|now apply sinv_mark].
        destruct E as (st' & I' & C' & F' & B'). exists st'.
        split; [assumption|]. split; [assumption|]. split; [assumption|].
        intros y Hy. apply B'. destruct (oracle x); simpl; auto.
      - apply next_commit_none in Ex. destruct (finish g t st) as [r|] eqn:F; [|discriminate].
        injection E as <- <-. exists st. split; [assumption|]. split; [assumption|]. split; auto.
    Qed.

    Lemma not_candidate_cases st p :
      is_candidate t R st p = false -> In p R ->
      (exists r, In r (roots_of g (st_bad st)) /\ anc g p r) ->
      (exists y, In y (st_good st) /\ anc g p y) \/ In p (st_bad st) \/ In p (st_skipped st).
    Proof.
      intros E HR Hr.
      destruct (anc_any g (heads_of g (st_good st)) p) eqn:Eg.
      - left. apply anc_any_spec in Eg; [|assumption]. destruct Eg as (h & Hh & Ha).
        apply heads_of_spec in Hh; [|assumption]. exists h. split; [apply Hh|assumption].
      - destruct (memn p (st_bad st)) eqn:Eb; [right; left; now apply memn_spec|].
        destruct (memn p (st_skipped st)) eqn:Es; [right; right; now apply memn_spec|].
        exfalso. unfold is_candidate, cand_with in E.
        fold (roots_of g (st_bad st)) in E. fold (heads_of g (st_good st)) in E.
        fold (anc_any g (roots_of g (st_bad st)) p) in E.
        fold (anc_any g (heads_of g (st_good st)) p) in E.
        rewrite Eg, Eb, Es in E. apply (proj2 (memn_spec p R)) in HR. rewrite HR in E.
        apply (proj2 (anc_any_spec g _ p W)) in Hr. rewrite Hr in E. discriminate.
    Qed.

    Lemma candidates_nil_not st p : candidates g t R st = [] -> p < n -> is_candidate t R st p = false.
    Proof.
      intros E L. destruct (is_candidate t R st p) eqn:C; [exfalso|reflexivity].
      assert (X : In p (candidates g t R st)) by (apply candidates_in; now split).
      rewrite E in X. contradiction.
    Qed.

    Definition reported_of (r : result) : list nat := reported r.

    Lemma finish_cases st res : finish g t st = Some res ->
      let br := canon g (roots_of g (st_bad st)) in
      (br = [] /\ res = Indeterminate) \/
      (br <> [] /\ exists pb fuel, possibly_bad_loop g fuel (st_skipped st) br [] = Some pb /\
         ((pb = [] /\ res = Found br) \/ (pb <> [] /\ res = FoundDespiteSkips br pb))).
    Proof.
      unfold finish. fold (roots_of g (st_bad st)).
      destruct (canon g (roots_of g (st_bad st))) as [|b bs] eqn:E.
      - intros H. injection H as <-. now left.
      - intros H. right. split; [discriminate|].
        destruct (possibly_bad_loop g _ (st_skipped st) (b :: bs) []) as [pb|] eqn:El; [|discriminate].
        exists pb. eexists. split; [exact El|]. destruct pb as [|q pb].
        + injection H as <-. now left.
        + injection H as <-. right. split; [discriminate|reflexivity].
    Qed.

    (** every reported commit is bad, in the range, and each parent inside the range is good
        or was skipped and is listed as possibly bad *)
    Lemma final_sound st res : sinv st -> candidates g t R st = [] -> finish g t st = Some res ->
      forall r, In r (reported res) ->
        In r R /\ isbad r = true /\
        forall p, In p (parents g r) -> In p R ->
          isbad p = false \/ (skipb p = true /\ In p (possibly res)).
    Proof.
      intros I C F r Hr. apply finish_cases in F. cbv zeta in F.
      destruct F as [[_ ->]|(Hne & pb & fuel & El & Hres)]; [destruct Hr|].
      assert (Hr' : In r (canon g (roots_of g (st_bad st)))).
      { destruct Hres as [[_ ->]|[_ ->]]; exact Hr. }
      pose proof Hr' as Hr2. apply canon_in in Hr2. destruct Hr2 as [Hroot Lr].
      pose proof Hroot as Hroot'. apply roots_of_spec in Hroot'; [|assumption].
      destruct Hroot' as [Hb Hmin]. destruct (si_bad _ I r Hb) as (HR & Hbad & _).
      split; [assumption|]. split; [assumption|]. intros p Hp HpR.
      assert (Lp : p < r) by now apply W in Hp.
      destruct (not_candidate_cases st p) as [(y & Hy & Ha)|[Hpb|Hps]].
      - apply candidates_nil_not; [assumption|lia].
      - assumption.
      - exists r. split; [assumption|now apply anc_parent].
      - left. destruct (isbad p) eqn:Ep; [exfalso|reflexivity].
        destruct (si_good _ I y Hy) as [HyR Hyg].
        rewrite (monotone p y HpR HyR Ep Ha) in Hyg. discriminate.
      - exfalso. assert (p = r) by (apply Hmin; [assumption|now apply anc_parent]). lia.
      - right. split; [now apply (si_skip _ I)|].
        apply possibly_bad_sound in El. destruct El as (_ & E2 & _).
        assert (In p pb) by (eapply E2; eassumption).
        destruct Hres as [[-> _]|[_ ->]]; [contradiction|assumption].
    Qed.

    Definition first_bad_p (x : nat) : Prop :=
      In x R /\ x < n /\ isbad x = true /\
      forall y, In y R -> y < n -> isbad y = true -> anc g y x -> y = x.

    Lemma final_first_bad st : sinv st -> candidates g t R st = [] -> st_skipped st = [] ->
      forall r, In r (roots_of g (st_bad st)) -> first_bad_p r.
    Proof.
      intros I C S r Hroot. pose proof Hroot as Hroot'.
      apply roots_of_spec in Hroot'; [|assumption]. destruct Hroot' as [Hb Hmin].
      destruct (si_bad _ I r Hb) as (HR & Hbad & Lr). repeat split; try assumption.
      intros y HyR Ly Hyb Ha.
      destruct (Nat.eq_dec y r) as [E|N]; [assumption|exfalso].
      destruct (not_candidate_cases st y) as [(z & Hz & Hyz)|[Hyb'|Hys]].
      - now apply candidates_nil_not.
      - assumption.
      - now exists r.
      - destruct (si_good _ I z Hz) as [HzR Hzg].
        rewrite (monotone y z HyR HzR Hyb Hyz) in Hzg. discriminate.
      - apply N. now apply Hmin.
      - rewrite S in Hys. contradiction.
    Qed.

    Lemma finish_noskip st res : st_skipped st = [] -> finish g t st = Some res ->
      res = match canon g (roots_of g (st_bad st)) with [] => Indeterminate | l => Found l end.
    Proof.
      intros S F. apply finish_cases in F. cbv zeta in F.
      destruct F as [[-> ->]|(Hne & pb & fuel & El & Hres)]; [reflexivity|].
      apply possibly_bad_sound in El. destruct El as (_ & _ & E3). rewrite S in E3.
      destruct Hres as [[_ ->]|[Hpb _]].
      - destruct (canon g (roots_of g (st_bad st))); [congruence|reflexivity].
      - destruct pb as [|q pb]; [congruence|]. destruct (E3 q (or_introl eq_refl)) as [[]|[]].
    Qed.

    Theorem bisect_sound tr res : bisect g t R oracle = Some (tr, res) ->
      forall r, In r (reported res) ->
        In r R /\ isbad r = true /\
        forall p, In p (parents g r) -> In p R ->
          isbad p = false \/ (skipb p = true /\ In p (possibly res)).
    Proof.
      intros E. apply run_final in E; [|apply sinv_init].
      destruct E as (st' & I' & C' & F' & _). now apply (final_sound st').
    Qed.

    Hypothesis no_skips : forall x, skipb x = false.

    Lemma noskip_state st : sinv st -> st_skipped st = [].
    Proof.
      intros I. destruct (st_skipped st) as [|x l] eqn:E; [reflexivity|].
      pose proof (si_skip _ I x) as H. rewrite E in H. specialize (H (or_introl eq_refl)).
      rewrite no_skips in H. discriminate.
    Qed.

    Theorem bisect_reports_first_bad tr res : bisect g t R oracle = Some (tr, res) ->
      (res = Indeterminate \/ exists l, res = Found l) /\
      forall r, In r (reported res) -> first_bad_p r.
    Proof.
      intros E. apply run_final in E; [|apply sinv_init].
      destruct E as (st' & I' & C' & F' & _). pose proof (noskip_state st' I') as S.
      apply (finish_noskip st' res S) in F'. subst res.
      destruct (canon g (roots_of g (st_bad st'))) as [|b l] eqn:Ec.
      - split; [now left|intros r []].
      - split; [right; now eexists|]. intros r Hr.
        change (In r (b :: l)) in Hr. rewrite <- Ec in Hr.
        apply canon_in in Hr. destruct Hr as [Hr _]. now apply (final_first_bad st').
    Qed.

    Lemma nodup_singleton (l : list nat) c : NoDup l -> (forall x, In x l <-> x = c) -> l = [c].
    Proof.
      intros ND H. destruct l as [|x l]; [exfalso; now apply (H c)|].
      assert (x = c) by (apply H; now left). subst x. f_equal.
      destruct l as [|y l]; [reflexivity|exfalso].
      assert (y = c) by (apply H; right; now left). subst y.
      inversion ND as [|? ? Hn _]. apply Hn. now left.
    Qed.

    Theorem bisect_single_culprit tr res c : bisect g t R oracle = Some (tr, res) ->
      first_bad_p c -> (forall c', first_bad_p c' -> c' = c) -> res = Found [c].
    Proof.
      intros E Hc Hu. apply run_final in E; [|apply sinv_init].
      destruct E as (st' & I' & C' & F' & B'). pose proof (noskip_state st' I') as S.
      apply (finish_noskip st' res S) in F'. subst res.
      assert (Hroots : forall r, In r (roots_of g (st_bad st')) -> r = c).
      { intros r Hr. apply Hu. now apply (final_first_bad st'). }
      destruct Hc as (HcR & Lc & _).
      assert (HcC : In c (canon g R)) by (apply canon_in; now split).
      destruct (below_head g _ c W HcC) as (h & Hh & _).
      assert (Hhb : In h (st_bad st')) by (apply B'; exact Hh).
      destruct (above_root g _ h W Hhb) as (r & Hr & _).
      assert (r = c) by now apply Hroots. subst r.
      assert (Ec : canon g (roots_of g (st_bad st')) = [c]).
      { apply nodup_singleton.
        - unfold canon. apply NoDup_filter, pos_desc_nodup.
        - intros x. rewrite canon_in. split.
          + intros [Hx _]. now apply Hroots.
          + intros ->. split; assumption. }
      now rewrite Ec.
    Qed.
  End Truth.

  (** * linear ranges: halving *)
  Section Linear.
    Hypothesis lin : forall x y, In x R -> In y R -> x < n -> y < n -> (anc g x y <-> x <= y).
    Variable orc : nat -> evaluation.
    Hypothesis orc_noskip : forall x, orc x <> Skip.

    Record linv (st : bstate) : Prop := {
      li_bad : forall x, In x (st_bad st) -> In x R /\ x < n;
      li_good : forall x, In x (st_good st) -> In x R /\ x < n;
    }.

    Lemma linv_mark st x : linv st -> In x (candidates g t R st) -> linv (mark st x (orc x)).
    Proof.
      intros I Hx. apply candidates_in in Hx. destruct Hx as [Lx Hx].
      apply candidate_unmarked in Hx. destruct Hx as [HR _].
      destruct (orc x) eqn:E; constructor; simpl; try apply (li_bad _ I); try apply (li_good _ I).
      - intros y [<-|Hy]; [tauto|now apply (li_good _ I)].
      - intros y [<-|Hy]; [tauto|now apply (li_bad _ I)].
    Qed.

    Lemma cand_after_bad st x y : linv st -> In x (candidates g t R st) -> y < n ->
      is_candidate t R (mark st x Bad) y = is_candidate t R st y && (y <? x).
    Proof.
      intros I Hx Ly. apply candidates_in in Hx. destruct Hx as [Lx Hx].
      apply is_candidate_spec in Hx. destruct Hx as (HxR & (r0 & Hr0 & Hxr0) & Hxg & Hxb & Hxs).
      pose proof Hr0 as Hr0'. apply roots_of_spec in Hr0'; [|assumption].
      destruct Hr0' as [Hr0b Hr0min]. destruct (li_bad _ I r0 Hr0b) as [Hr0R Lr0].
      apply Bool.eq_iff_eq_true. rewrite andb_true_iff, Nat.ltb_lt, !is_candidate_spec. simpl.
      split.
      - intros (HyR & (r' & Hr' & Hyr') & Hyg & Hyb & Hys).
        apply roots_of_spec in Hr'; [|assumption]. destruct Hr' as [Hr'in Hr'min].
        assert (Hr'R : In r' R /\ r' < n).
        { destruct Hr'in as [<-|H]; [now split|now apply (li_bad _ I)]. }
        assert (Lr'x : r' <= x).
        { destruct (Nat.le_gt_cases r' x) as [L|L]; [assumption|exfalso].
          assert (x = r'); [|lia]. apply Hr'min; [now left|]. apply lin; try tauto. lia. }
        assert (Lyr' : y <= r') by now apply (anc_le _ _ _ W).
        split; [|assert (y <> x) by (intros ->; apply Hyb; now left); lia].
        split; [assumption|]. split.
        + destruct Hr'in as [<-|Hin].
          * exists r0. split; [assumption|]. eapply anc_trans; eassumption.
          * exists r'. split; [|assumption]. apply roots_of_spec; [assumption|].
            split; [assumption|]. intros z Hz Hzr'. apply Hr'min; [now right|assumption].
        + split; [assumption|]. split; [|assumption]. intros C. apply Hyb. now right.
      - intros [(HyR & Hyr & Hyg & Hyb & Hys) Lyx].
        split; [assumption|]. split.
        + destruct (above_root g (x :: st_bad st) x W (or_introl eq_refl)) as (r' & Hr' & Hr'x).
          assert (r' = x); [|subst r'; exists x; split; [assumption|]; apply lin; try assumption; lia].
          pose proof Hr' as Hr''. apply roots_of_spec in Hr''; [|assumption].
          destruct Hr'' as [[E|Hin] _]; [now symmetry|exfalso].
          destruct (li_bad _ I r' Hin) as [Hr'R Lr'].
          assert (r' <= x) by now apply (anc_le _ _ _ W).
          assert (x <= r0) by now apply (anc_le _ _ _ W).
          assert (r0 <= r').
          { destruct (Nat.le_gt_cases r0 r') as [L|L]; [assumption|exfalso].
            assert (r' = r0); [|lia]. apply Hr0min; [assumption|]. apply lin; try assumption. lia. }
          assert (r' = x) by lia. subst r'. contradiction.
        + split; [assumption|]. split; [|assumption]. intros [<-|C]; [lia|contradiction].
    Qed.

    Lemma cand_after_good st x y : linv st -> In x (candidates g t R st) -> y < n ->
      is_candidate t R (mark st x Good) y = is_candidate t R st y && (x <? y).
    Proof.
      intros I Hx Ly. apply candidates_in in Hx. destruct Hx as [Lx Hx].
      apply is_candidate_spec in Hx. destruct Hx as (HxR & _).
      apply Bool.eq_iff_eq_true. rewrite andb_true_iff, Nat.ltb_lt, !is_candidate_spec. simpl.
      split.
      - intros (HyR & Hyr & Hyg & Hyb & Hys). split.
        + repeat split; try assumption. intros (z & Hz & Hyz). apply Hyg. exists z. split; [now right|assumption].
        + destruct (Nat.le_gt_cases y x) as [L|L]; [exfalso|assumption].
          apply Hyg. exists x. split; [now left|]. now apply lin.
      - intros [(HyR & Hyr & Hyg & Hyb & Hys) Lxy]. repeat split; try assumption.
        intros (z & [<-|Hz] & Hyz).
        + apply (anc_le _ _ _ W) in Hyz. lia.
        + apply Hyg. now exists z.
    Qed.

    Lemma filter_filter (f h : nat -> bool) l :
      filter f (filter h l) = filter (fun x => h x && f x) l.
    Proof.
      induction l as [|y l IH]; simpl; [reflexivity|]. destruct (h y); simpl; [|assumption].
      destruct (f y); simpl; now rewrite IH.
    Qed.

    Lemma candidates_after st x e (f : nat -> bool) : 
      (forall y, y < n -> is_candidate t R (mark st x e) y = is_candidate t R st y && f y) ->
      candidates g t R (mark st x e) = filter f (candidates g t R st).
    Proof.
      intros H.
      change (candidates g t R (mark st x e)) with (filter (is_candidate t R (mark st x e)) (pos_desc g)).
      change (candidates g t R st) with (filter (is_candidate t R st) (pos_desc g)).
      rewrite filter_filter. apply filter_ext_in.
      intros y Hy. apply H. now apply pos_desc_in.
    Qed.

    Fixpoint sdesc (l : list nat) : Prop :=
      match l with [] => True | x :: r => (forall y, In y r -> y < x) /\ sdesc r end.

    Lemma sdesc_filter (f : nat -> bool) l : sdesc l -> sdesc (filter f l).
    Proof.
      induction l as [|x r IH]; simpl; [trivial|]. intros [B D]. destruct (f x); simpl.
      - split; [|now apply IH]. intros y Hy. apply filter_In in Hy. now apply B.
      - now apply IH.
    Qed.

    Lemma sdesc_pos_desc : sdesc (pos_desc g).
    Proof.
      unfold pos_desc. generalize n as m. induction m as [|m IH]; [exact I|].
      rewrite seq_S, rev_app_distr. simpl. split; [|assumption].
      intros y Hy. apply in_rev, in_seq in Hy. lia.
    Qed.

    Lemma filter_all_false (f : nat -> bool) l : (forall y, In y l -> f y = false) -> filter f l = [].
    Proof.
      induction l as [|y l IH]; simpl; intros H; [reflexivity|].
      rewrite (H y (or_introl eq_refl)). apply IH. intros z Hz. apply H. now right.
    Qed.

    Lemma filter_all_true (f : nat -> bool) l : (forall y, In y l -> f y = true) -> filter f l = l.
    Proof.
      induction l as [|y l IH]; simpl; intros H; [reflexivity|].
      rewrite (H y (or_introl eq_refl)). f_equal. apply IH. intros z Hz. apply H. now right.
    Qed.

    Lemma sdesc_below_len l : sdesc l -> forall i, i < length l ->
      length (filter (fun y => y <? nth i l 0) l) = length l - S i.
    Proof.
      induction l as [|x r IH]; intros D i Li; [simpl in Li; lia|].
      destruct D as [B D]. destruct i as [|i].
      - simpl. rewrite Nat.ltb_irrefl. rewrite filter_all_true; [lia|].
        intros y Hy. apply Nat.ltb_lt. now apply B.
      - simpl in Li. simpl nth. cbn [filter].
        assert (nth i r 0 < x) by (apply B, nth_In; lia).
        destruct (Nat.ltb_spec x (nth i r 0)); [lia|]. rewrite IH by (assumption || lia).
        simpl. lia.
    Qed.

    Lemma sdesc_above_len l : sdesc l -> forall i, i < length l ->
      length (filter (fun y => nth i l 0 <? y) l) = i.
    Proof.
      induction l as [|x r IH]; intros D i Li; [simpl in Li; lia|].
      destruct D as [B D]. destruct i as [|i].
      - simpl. rewrite Nat.ltb_irrefl. rewrite filter_all_false; [reflexivity|].
        intros y Hy. apply Nat.ltb_ge. apply B in Hy. lia.
      - simpl in Li. simpl nth. cbn [filter].
        assert (nth i r 0 < x) by (apply B, nth_In; lia).
        destruct (Nat.ltb_spec (nth i r 0) x); [|lia]. simpl. f_equal. apply IH; [assumption|lia].
    Qed.

    Lemma candidates_sdesc st : sdesc (candidates g t R st).
    Proof.
      change (candidates g t R st) with (filter (is_candidate t R st) (pos_desc g)).
      apply sdesc_filter, sdesc_pos_desc.
    Qed.

    Lemma next_commit_some st x : next_commit g t R st = Some x ->
      x = nth (length (candidates g t R st) / 2) (candidates g t R st) 0 /\
      candidates g t R st <> [].
    Proof.
      unfold next_commit. destruct (candidates g t R st) eqn:E; [discriminate|].
      intros H. split; [congruence|discriminate].
    Qed.

    Lemma halving st x : linv st -> next_commit g t R st = Some x ->
      2 * length (candidates g t R (mark st x (orc x))) <= length (candidates g t R st).
    Proof.
      intros I Ex. pose proof (next_commit_in _ _ Ex) as Hx.
      destruct (next_commit_some _ _ Ex) as [Ex' Hne].
      pose proof (candidates_sdesc st) as D.
      assert (Lpos : 0 < length (candidates g t R st)).
      { destruct (candidates g t R st); [congruence|simpl; lia]. }
      assert (Li : length (candidates g t R st) / 2 < length (candidates g t R st))
        by (apply Nat.div_lt; lia).
      pose proof (Nat.div_mod (length (candidates g t R st)) 2 ltac:(lia)) as DM.
      pose proof (Nat.mod_upper_bound (length (candidates g t R st)) 2 ltac:(lia)) as MB.
      destruct (orc x) eqn:Eo.
      - rewrite (candidates_after st x Good (fun y => x <? y))
          by (intros y Ly; now apply cand_after_good).
        rewrite Ex'. rewrite sdesc_above_len by assumption. lia.
      - rewrite (candidates_after st x Bad (fun y => y <? x))
          by (intros y Ly; now apply cand_after_bad).
        rewrite Ex'. rewrite sdesc_below_len by assumption. lia.
      - now apply orc_noskip in Eo.
    Qed.

    Lemma run_log : forall fuel st trace tr res k,
      run g t R fuel orc st trace = Some (tr, res) -> linv st ->
      length (candidates g t R st) < 2 ^ k -> length tr <= length trace + k.
    Proof.
      induction fuel as [|fuel IH]; intros st trace tr res k E I Hk; [discriminate|].
      simpl in E. destruct (next_commit g t R st) as [x|] eqn:Ex.
      - pose proof (halving st x I Ex) as Hh. pose proof (next_commit_in _ _ Ex) as Hx.
        destruct k as [|k].
        + simpl in Hk. destruct (candidates g t R st); [contradiction|simpl in Hk; lia].
        + apply (IH _ _ _ _ k) in E.
          * simpl in E. lia.
          * now apply linv_mark.
          * simpl in Hk. lia.
      - destruct (finish g t st) as [r|]; [|discriminate]. injection E as <- <-.
        rewrite rev_length. lia.
    Qed.

    Lemma filter_len_mono (f h : nat -> bool) l :
      (forall x, f x = true -> h x = true) -> length (filter f l) <= length (filter h l).
    Proof.
      intros H. induction l as [|y l IH]; simpl; [lia|].
      destruct (f y) eqn:E; [rewrite (H y E); simpl; lia|]. destruct (h y); simpl; lia.
    Qed.

    Theorem bisect_log2 tr res : bisect g t R orc = Some (tr, res) ->
      length tr <= Nat.log2_up (S (length (canon g R))).
    Proof.
      intros E. unfold bisect in E.
      assert (I : linv (init_state g t R)).
      { constructor; simpl; [|intros x []]. intros x Hx. fold (heads_of g (canon g R)) in Hx.
        apply heads_of_spec in Hx; [|assumption]. destruct Hx as [Hx _]. now apply canon_in in Hx. }
      apply (run_log _ _ _ _ _ (Nat.log2_up (S (length (canon g R))))) in E; [simpl in E; lia|assumption|].
      assert (L : length (candidates g t R (init_state g t R)) <= length (canon g R)).
      { change (candidates g t R (init_state g t R))
          with (filter (is_candidate t R (init_state g t R)) (pos_desc g)).
        unfold canon. apply filter_len_mono. intros x Hx.
        unfold is_candidate, cand_with in Hx. rewrite !andb_true_iff in Hx. tauto. }
      destruct (length (canon g R)) as [|m] eqn:Em.
      - simpl. lia.
      - pose proof (Nat.log2_up_spec (S (S m)) ltac:(lia)) as [_ H]. lia.
    Qed.
  End Linear.

  (** a range whose elements form a chain is linear in the above sense *)
  Lemma chain_anc (l : list nat) : sdesc l -> chain_b g l = true ->
    forall x y, In x l -> In y l -> x <= y -> anc g x y.
  Proof.
    induction l as [|a l IH]; intros D C x y Hx Hy L; [contradiction|].
    destruct D as [B D]. destruct l as [|b l'].
    - destruct Hx as [<-|[]]. destruct Hy as [<-|[]]. constructor.
    - cbn [chain_b] in C. apply andb_true_iff in C. destruct C as [Cp C].
      assert (Pa : parents g a = [b]).
      { clear - Cp. revert Cp. generalize (parents g a) as ps. intros ps.
        destruct ps as [|p [|q ps]]; simpl; try discriminate.
        - rewrite andb_true_r. intros E. apply Nat.eqb_eq in E. now subst.
        - rewrite andb_false_r. discriminate. }
      assert (Hb : forall z, In z (b :: l') -> anc g z a).
      { intros z Hz. eapply anc_trans; [apply (IH D C z b Hz (or_introl eq_refl))|].
        - destruct Hz as [<-|Hz]; [lia|]. destruct D as [Bb _]. apply Bb in Hz. lia.
        - apply anc_parent. rewrite Pa. now left. }
      destruct Hy as [<-|Hy].
      + destruct Hx as [<-|Hx]; [constructor|now apply Hb].
      + destruct Hx as [<-|Hx]; [apply B in Hy; lia|]. now apply IH.
  Qed.

  Lemma chain_lin : chain_b g (canon g R) = true ->
    forall x y, In x R -> In y R -> x < n -> y < n -> (anc g x y <-> x <= y).
  Proof.
    intros C x y Hx Hy Lx Ly. split; [now apply anc_le|]. intros L.
    apply (chain_anc (canon g R)); try assumption.
    - unfold canon. apply sdesc_filter, sdesc_pos_desc.
    - apply canon_in. now split.
    - apply canon_in. now split.
  Qed.
End Bisect.

(** * meaning of the checker *)
Section CheckerSpec.
  Variable g : graph.
  Hypothesis W : wf g.
  Variable R bad skip : list nat.
  Notation t := (ancsets g).
  Notation isbad := (fun x => memn x bad).
  Notation skipb := (fun x => memn x skip).

  Lemma oracle_of_eq : oracle_of bad skip = oracle isbad skipb.
  Proof. reflexivity. Qed.

  Lemma bad_in_R_in x : In x (bad_in_R g R bad) <-> In x R /\ x < length g /\ In x bad.
  Proof. unfold bad_in_R, Rc. rewrite filter_In, canon_in, memn_spec. tauto. Qed.

  Lemma first_bad_in x : In x (first_bad g t R bad) <-> first_bad_p g R isbad x.
  Proof.
    unfold first_bad, first_bad_p. fold (roots_of g (bad_in_R g R bad)).
    rewrite roots_of_spec by assumption. rewrite bad_in_R_in. split.
    - intros [(H1 & H2 & H3) Hm]. repeat split; try assumption; [now apply memn_spec|].
      intros y Hy Ly Hb Ha. apply Hm; [|assumption]. apply bad_in_R_in. apply memn_spec in Hb. tauto.
    - intros (H1 & H2 & H3 & Hm). apply memn_spec in H3. split; [tauto|].
      intros y Hy Ha. apply bad_in_R_in in Hy. destruct Hy as (Hy1 & Hy2 & Hy3).
      apply Hm; try assumption. now apply memn_spec.
  Qed.

  Lemma precond_b_spec : precond_b g t R bad = true ->
    (forall x y, In x R -> In y R -> x < length g -> y < length g ->
                 isbad x = true -> anc g x y -> isbad y = true) /\
    (forall h, In h (heads_of g (canon g R)) -> isbad h = true).
  Proof.
    unfold precond_b, monotone_b, heads_bad_b. rewrite andb_true_iff, !forallb_forall.
    intros [M H]. split.
    - intros x y Hx Hy Lx Ly Hb Ha. apply memn_spec in Hb.
      assert (Hxb : In x (bad_in_R g R bad)) by (apply bad_in_R_in; tauto).
      specialize (M x Hxb). rewrite forallb_forall in M.
      assert (Hyc : In y (Rc g R)) by (apply canon_in; tauto).
      specialize (M y Hyc). apply orb_true_iff in M. destruct M as [M|M]; [|assumption].
      apply negb_true_iff in M. apply (proj2 (ancb_t_spec g W x y)) in Ha. congruence.
    - intros h Hh. now apply H.
  Qed.

  Lemma nodup_b_spec l : nodup_b l = true -> NoDup l.
  Proof.
    induction l as [|x l IH]; simpl; [constructor|]. rewrite andb_true_iff, negb_true_iff.
    intros [H1 H2]. constructor; [now apply memn_false|now apply IH].
  Qed.

  Lemma trace_ok_spec trace : trace_ok g t R trace = true ->
    NoDup trace /\ forall x, In x trace -> In x R /\ ~ In x (heads_of g (canon g R)).
  Proof.
    unfold trace_ok. rewrite andb_true_iff, forallb_forall. intros [H1 H2].
    split; [now apply nodup_b_spec|]. intros x Hx. specialize (H2 x Hx).
    rewrite andb_true_iff, negb_true_iff, memn_spec, memn_false in H2. exact H2.
  Qed.

  Lemma sound_b_spec r : sound_b g R bad skip r = true ->
    forall x, In x (reported r) ->
      In x bad /\ In x R /\
      forall p, In p (parents g x) -> In p R ->
        ~ In p bad \/ (In p skip /\ In p (possibly r)).
  Proof.
    unfold sound_b. rewrite forallb_forall. intros H x Hx. specialize (H x Hx).
    rewrite !andb_true_iff, !memn_spec, forallb_forall in H. destruct H as [[H1 H2] H3].
    split; [assumption|]. split; [assumption|]. intros p Hp HpR. specialize (H3 p Hp).
    rewrite !orb_true_iff, !negb_true_iff, andb_true_iff, !memn_false, !memn_spec in H3. tauto.
  Qed.

  Lemma lnat_eqb_eq l1 l2 : list_eqb Nat.eqb l1 l2 = true <-> l1 = l2.
  Proof.
    revert l2. induction l1 as [|x l IH]; intros [|y l2]; simpl;
      try (split; [discriminate|discriminate]); [tauto|].
    rewrite andb_true_iff, Nat.eqb_eq, IH. split; [intros [-> ->]; reflexivity|].
    intros E. inversion E. tauto.
  Qed.

  Lemma exact_b_spec r : exact_b g t R bad r = true ->
    r = Found (first_bad g t R bad) \/ (r = Indeterminate /\ canon g R = []).
  Proof.
    unfold exact_b. destruct r as [b|b p|]; [|discriminate|].
    - intros E. apply lnat_eqb_eq in E. subst. now left.
    - unfold Rc. destruct (canon g R); [intros _; now right|discriminate].
  Qed.

  (** What an accepting verdict on one recorded run says. *)
  Definition run_holds (trace : list nat) (r : result) : Prop :=
    (NoDup trace /\ forall x, In x trace -> In x R /\ ~ In x (heads_of g (canon g R))) /\
    (precond_b g t R bad = true ->
      (forall x, In x (reported r) ->
         In x bad /\ In x R /\
         forall p, In p (parents g x) -> In p R -> ~ In p bad \/ (In p skip /\ In p (possibly r))) /\
      (skip = [] ->
         (r = Found (first_bad g t R bad) \/ (r = Indeterminate /\ canon g R = [])) /\
         (chain_b g (canon g R) = true -> length trace <= Nat.log2_up (S (length (canon g R)))))).

  Lemma run_ok_sound trace r : run_ok g t R bad skip trace r = true -> run_holds trace r.
  Proof.
    unfold run_ok, run_holds. rewrite andb_true_iff. intros [T H].
    split; [now apply trace_ok_spec|]. intros P. rewrite P in H. simpl in H.
    apply andb_true_iff in H. destruct H as [S E]. split; [now apply sound_b_spec|].
    intros ->. apply andb_true_iff in E. destruct E as [E L]. split; [now apply exact_b_spec|].
    intros C. unfold log2_ok, Rc in L. rewrite C in L. simpl in L. now apply Nat.leb_le.
  Qed.
End CheckerSpec.

(** * statements as pinned in Props/C37.v *)
Lemma linear_log2_thm (g : graph) (W : wf g) (R : list nat) :
  forall (ev : nat -> evaluation) tr res,
  chain_b g (canon g R) = true -> (forall x, ev x <> Skip) ->
  bisect g (ancsets g) R ev = Some (tr, res) ->
  length tr <= Nat.log2_up (S (length (canon g R))).
Proof.
  intros ev tr res C NS E.
  exact (bisect_log2 g W R (chain_lin g W R C) ev NS tr res E).
Qed.

Lemma checker_sound_thm (g : graph) (R : list nat) : forall bad skip trace r,
  run_ok g (ancsets g) R bad skip trace r = true -> run_holds g R bad skip trace r.
Proof. intros bad skip trace r. apply run_ok_sound. Qed.

Lemma terminates_thm (g : graph) (W : wf g) (R : list nat) : forall (ev : nat -> evaluation),
  (exists r, bisect g (ancsets g) R ev = Some r) /\
  (forall st x e, next_commit g (ancsets g) R st = Some x ->
     length (candidates g (ancsets g) R (mark st x e)) < length (candidates g (ancsets g) R st)) /\
  (forall tr res, bisect g (ancsets g) R ev = Some (tr, res) ->
     length tr <= length (candidates g (ancsets g) R (init_state g (ancsets g) R))).
Proof.
  intros ev. split; [apply (bisect_total g W R)|]. split.
  - intros st x e. apply (candidates_decrease g W R).
  - intros tr res E. apply (run_evals g W R) in E. simpl in E. lia.
Qed.
