(** C01, part 7: the multiset-of-changes law checked by [C01.okb] follows from the mapping
    and write-back conjuncts; and the model's own outputs satisfy the whole checker. *)
From Verif Require Import Base.Prelude Model.Merge Model.C01 Proofs.MergeDen Proofs.C01
  Proofs.C01Simp Proofs.C01Update Proofs.C01Deep Proofs.C01Checker.
From Coq Require Import Lia Arith Permutation.

Definition code (sgn : bool) (x y : N) : N := ((if sgn then 0 else 1) + 2 * (x + 65536 * y))%N.

(** The change event (if any) at position [i]. *)
Definition ev (l1 l2 : list N) (i : nat) : list N :=
  match nth_error l1 i, nth_error l2 i with
  | Some a, Some b => if N.eqb a b then [] else [code (Nat.even i) a b]
  | _, _ => []
  end.

Lemma flat_map_map {A B C} (f : A -> B) (g : B -> list C) l :
  flat_map g (map f l) = flat_map (fun x => g (f x)) l.
Proof. induction l as [|x t IH]; cbn; [reflexivity|now rewrite IH]. Qed.

Lemma flat_map_ext' {A B} (f g : A -> list B) l :
  (forall x, In x l -> f x = g x) -> flat_map f l = flat_map g l.
Proof.
  induction l as [|x t IH]; intros H; cbn; [reflexivity|].
  rewrite (H x (or_introl eq_refl)), IH; [reflexivity|]. intros y Hy. apply H. now right.
Qed.

Lemma flat_map_nil {A B} (f : A -> list B) l : (forall x, In x l -> f x = []) -> flat_map f l = [].
Proof.
  induction l as [|x t IH]; intros H; cbn; [reflexivity|].
  rewrite (H x (or_introl eq_refl)), IH; [reflexivity|]. intros y Hy. apply H. now right.
Qed.

(** [changes] as a position-wise collection of events. *)
Lemma changes_s_ev : forall l1 l2 k,
  length l1 = length l2 ->
  changes_s (Nat.even k) l1 l2 = flat_map (fun i => ev (repeat 0%N k ++ l1) (repeat 0%N k ++ l2) (k + i))
                                   (seq 0 (length l1)).
Proof.
  induction l1 as [|x t1 IH]; intros l2 k Hlen; [reflexivity|].
  destruct l2 as [|y t2]; [discriminate|]. cbn [length] in Hlen. injection Hlen as Hlen.
  cbn [changes_s length seq flat_map]. rewrite <- seq_shift, flat_map_map.
  assert (E0 : ev (repeat 0%N k ++ x :: t1) (repeat 0%N k ++ y :: t2) (k + 0)
               = if N.eqb x y then [] else [code (Nat.even k) x y]).
  { unfold ev. rewrite Nat.add_0_r, !nth_error_app2 by (rewrite repeat_length; lia).
    rewrite repeat_length, Nat.sub_diag. reflexivity. }
  assert (ES : forall i, ev (repeat 0%N k ++ x :: t1) (repeat 0%N k ++ y :: t2) (k + S i)
                         = ev (repeat 0%N (S k) ++ t1) (repeat 0%N (S k) ++ t2) (S k + i)).
  { intros i. unfold ev. rewrite !nth_error_app2 by (rewrite repeat_length; lia).
    rewrite !repeat_length. replace (k + S i - k) with (S i) by lia.
    replace (S k + i - S k) with i by lia. cbn [nth_error].
    replace (S k + i) with (k + S i) by lia. reflexivity. }
  rewrite E0. rewrite (flat_map_ext' _ (fun i => ev (repeat 0%N (S k) ++ t1) (repeat 0%N (S k) ++ t2) (S k + i)))
    by (intros i _; apply ES).
  specialize (IH t2 (S k) Hlen). rewrite Nat.even_succ, <- Nat.negb_even in IH.
  destruct (N.eqb x y); cbn [app]; rewrite <- IH; reflexivity.
Qed.

Lemma changes_ev l1 l2 :
  length l1 = length l2 -> changes l1 l2 = flat_map (ev l1 l2) (seq 0 (length l1)).
Proof. intros H. exact (changes_s_ev l1 l2 0 H). Qed.

Lemma count_app x (l1 l2 : list N) :
  count N.eqb x (l1 ++ l2) = (count N.eqb x l1 + count N.eqb x l2)%Z.
Proof. induction l1 as [|y t IH]; cbn [app count]; [lia|]. rewrite IH. lia. Qed.

Lemma count_perm_N x (l1 l2 : list N) :
  Permutation l1 l2 -> count N.eqb x l1 = count N.eqb x l2.
Proof. induction 1; cbn [count]; lia. Qed.

Lemma perm_flat_map {A B} (f : A -> list B) l1 l2 :
  Permutation l1 l2 -> Permutation (flat_map f l1) (flat_map f l2).
Proof.
  induction 1; cbn [flat_map].
  - constructor.
  - now apply Permutation_app_head.
  - rewrite !app_assoc. apply Permutation_app_tail, Permutation_app_comm.
  - eapply Permutation_trans; eauto.
Qed.

Lemma nodup_app_intro {A} (l1 l2 : list A) :
  NoDup l1 -> NoDup l2 -> (forall x, In x l1 -> ~ In x l2) -> NoDup (l1 ++ l2).
Proof.
  induction l1 as [|x t IH]; intros H1 H2 H; [exact H2|]. inversion H1 as [|? ? Hn Hd]; subst.
  cbn [app]. constructor.
  - intros C. apply in_app_or in C as [C|C]; [contradiction|]. exact (H x (or_introl eq_refl) C).
  - apply IH; auto. intros y Hy. apply H. now right.
Qed.

(** A duplicate-free list of indices below [n] splits [0..n) into itself and the rest. *)
Lemma nodup_split (mp : list nat) n :
  NoDup mp -> (forall i, In i mp -> i < n) ->
  exists rest, Permutation (seq 0 n) (mp ++ rest) /\ forall i, In i rest -> ~ In i mp.
Proof.
  intros Hnd Hlt.
  exists (filter (fun i => negb (existsb (Nat.eqb i) mp)) (seq 0 n)).
  assert (Hf : forall i, In i (filter (fun i => negb (existsb (Nat.eqb i) mp)) (seq 0 n))
                        <-> i < n /\ ~ In i mp).
  { intros i. rewrite filter_In, in_seq, Bool.negb_true_iff. split.
    - intros [A B]. split; [lia|]. intros C.
      assert (existsb (Nat.eqb i) mp = true); [|congruence].
      apply existsb_exists. exists i. split; [exact C|apply Nat.eqb_refl].
    - intros [A B]. split; [lia|]. destruct (existsb (Nat.eqb i) mp) eqn:E; [|reflexivity].
      apply existsb_exists in E as (j & Hj & Ej). apply Nat.eqb_eq in Ej. subst. contradiction. }
  split.
  - apply NoDup_Permutation.
    + apply seq_NoDup.
    + apply nodup_app_intro; auto.
      * apply NoDup_filter, seq_NoDup.
      * intros i Hi Hi'. apply Hf in Hi' as [_ C]. contradiction.
    + intros i. rewrite in_app_iff, Hf, in_seq. split.
      * intros [_ L]. destruct (in_dec Nat.eq_dec i mp); [now left|right; split; [lia|assumption]].
      * intros [H|[H _]]; [split; [lia|now apply Hlt]|split; lia].
  - intros i Hi. now apply Hf in Hi.
Qed.

Lemma seq_nth_map (mp : list nat) : mp = map (fun j => nth j mp 0) (seq 0 (length mp)).
Proof.
  induction mp as [|x t IH]; [reflexivity|]. cbn [length seq map nth].
  f_equal. rewrite <- seq_shift, map_map. exact IH.
Qed.

Section Law.
  Notation mapping_ok := (mapping_ok (T := N)).
  Notation lands := (lands (T := N)).

  (** The multiset-of-changes law is a consequence of the mapping and write-back laws. *)
  Theorem changes_law (m s : list N) (mp : list nat) (e u : list N) :
    mapping_ok m s mp -> lands m mp e u ->
    forall x, count N.eqb x (changes m u) = count N.eqb x (changes s e).
  Proof.
    intros (Lmp & Hnd & Hmap) (Lu & Le & Hout & Hin) x.
    assert (Hlt : forall i, In i mp -> i < length m).
    { intros i Hi. apply In_nth_error in Hi as [j Hj]. now destruct (Hmap j i Hj). }
    destruct (nodup_split mp (length m) Hnd Hlt) as (rest & P & Hrest).
    rewrite (changes_ev m u (eq_sym Lu)), (changes_ev s e) by congruence.
    rewrite (count_perm_N x _ _ (perm_flat_map (ev m u) _ _ P)), flat_map_app, count_app.
    rewrite (flat_map_nil (ev m u) rest).
    2:{ intros i Hi. unfold ev. rewrite (Hout i (Hrest i Hi)).
        destruct (nth_error m i) as [a|]; [now rewrite N.eqb_refl|reflexivity]. }
    cbn [count]. rewrite Z.add_0_r. f_equal.
    rewrite (seq_nth_map mp) at 1. rewrite flat_map_map, <- Lmp.
    apply flat_map_ext'. intros j Hj. apply in_seq in Hj.
    assert (Ej : nth_error mp j = Some (nth j mp 0)) by (apply nth_error_nth'; lia).
    destruct (Hmap j _ Ej) as (_ & Hpar & Hval). unfold ev.
    rewrite (Hin j _ Ej), <- Hval, Hpar. reflexivity.
  Qed.
End Law.

(** The case made of the model's own outputs passes the whole checker. *)
Definition model_case (m : list N) (nested : list (list N)) (n3 : list (list (list N)))
  (e : list N) : C01.case :=
  mk_case m (simplify N.eqb m) (simplify N.eqb (simplify N.eqb m))
    (map N.of_nat (simplified_mapping N.eqb m)) nested (flatten nested)
    n3 (flat_deep 2 n3) e (update_from_simplified N.eqb m e).

Lemma map_to_of_nat l : map N.to_nat (map N.of_nat l) = l.
Proof. rewrite map_map. rewrite <- (map_id l) at 2. apply map_ext. intros. apply Nat2N.id. Qed.

Theorem model_case_ok m nested n3 e :
  Nat.odd (length m) = true ->
  Nat.odd (length nested) = true -> Forall (fun x => Nat.odd (length x) = true) nested ->
  wf_deep 3 n3 ->
  length e = length (simplify N.eqb m) ->
  C01_ok (model_case m nested n3 e).
Proof.
  intros Hm Hn Hni H3 He.
  pose proof (simplified_mapping_sound N.eqb N_eqb_spec' m Hm) as (Snd & Slen & Smap).
  pose proof (update_lands_guarded N.eqb N_eqb_spec' m e Hm He) as (U1 & U2 & U3).
  assert (MO : mapping_ok (T := N) m (simplify N.eqb m) (simplified_mapping N.eqb m)).
  { split; [exact Slen|split; [exact Snd|]]. intros j i Hj.
    destruct (Smap j i Hj) as (A & B & C). auto. }
  assert (LA : lands (T := N) m (simplified_mapping N.eqb m) e (update_from_simplified N.eqb m e)).
  { split; [exact U1|split; [congruence|split; [exact U2|exact U3]]]. }
  unfold model_case. constructor; cbn [c_m c_simplified c_resimplified c_mapping c_nested c_flat
    c_nested3 c_flat3 c_edit c_updated]; rewrite ?map_to_of_nat.
  - intros v. symmetry. apply (simplify_den N.eqb N_eqb_spec').
  - destruct (simplify_arity N.eqb N_eqb_spec' m) as [E _].
    rewrite <- Nat.negb_even, E, Nat.negb_even. exact Hm.
  - intros v. now apply (simplified_disjoint N.eqb N_eqb_spec').
  - now apply (simplify_idem N.eqb N_eqb_spec').
  - exact MO.
  - intros v. now apply (flatten_den N.eqb).
  - intros v. now apply (flat_deep_den N.eqb 2).
  - exact LA.
  - now apply changes_law with (mp := simplified_mapping N.eqb m).
Qed.
