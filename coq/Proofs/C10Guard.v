(** C10: after the reference updates of rebase_descendants no bookmark adds and no workspace sits
    on a commit that still has a rewrite record. Counting argument over merge_ref_targets. *)
From Verif Require Import Base.Prelude Base.DagV Model.Merge Model.RepoV Model.C10 Model.C11
  Proofs.MergeDen Proofs.C01 Proofs.C01Simp Proofs.C02
  Proofs.C10 Proofs.C11 Proofs.C11Loop Proofs.C11Refs Proofs.C11View Proofs.C11Follow Proofs.C11Order Proofs.C10Rebase.
From Coq Require Import Lia Arith ZArith.

(** * Counting terms *)
Definition onat_dec (a b : option nat) : {a = b} + {a <> b}.
Proof. decide equality. apply Nat.eq_dec. Defined.
Definition cnt (v : option nat) (l : list (option nat)) : nat := count_occ onat_dec l v.

Lemma cnt_cons v x l : cnt v (x :: l) = (if onat_dec x v then 1 else 0) + cnt v l.
Proof. unfold cnt. cbn [count_occ]. destruct (onat_dec x v); lia. Qed.
Lemma cnt_app v l1 l2 : cnt v (l1 ++ l2) = cnt v l1 + cnt v l2.
Proof. unfold cnt. apply count_occ_app. Qed.
Lemma cnt_pos_In v l : 0 < cnt v l <-> In v l.
Proof. unfold cnt. symmetry. apply count_occ_In. Qed.
Lemma cnt_zero v l : ~ In v l -> cnt v l = 0.
Proof. unfold cnt. apply count_occ_not_In. Qed.

Lemma oeqb_dec x v : oeqb x v = if onat_dec x v then true else false.
Proof.
  destruct (onat_dec x v) as [E|N].
  - now apply oeqb_spec.
  - destruct (oeqb x v) eqn:E; [|reflexivity]. apply oeqb_spec in E. contradiction.
Qed.

Local Open Scope Z_scope.
Lemma den_cnt (l : list (option nat)) v :
  den_s oeqb true l v = Z.of_nat (cnt v (evens l)) - Z.of_nat (cnt v (odds l)) /\
  den_s oeqb false l v = Z.of_nat (cnt v (odds l)) - Z.of_nat (cnt v (evens l)).
Proof.
  induction l as [|x t [IHa IHb]]; [split; reflexivity|].
  rewrite evens_cons, odds_cons. cbn [den_s negb]. rewrite cnt_cons, IHa, IHb, oeqb_dec.
  destruct (onat_dec x v); split; lia.
Qed.

Lemma den_cnt' l v : den oeqb l v = Z.of_nat (cnt v (evens l)) - Z.of_nat (cnt v (odds l)).
Proof. apply den_cnt. Qed.

Lemma cnt_simplify (m : list (option nat)) v : Nat.odd (length m) = true ->
  Z.of_nat (cnt v (evens (simplify oeqb m))) = Z.max 0 (den oeqb m v).
Proof.
  intros O. rewrite <- (simplify_den oeqb oeqb_spec m v). rewrite den_cnt'.
  set (s := simplify oeqb m).
  destruct (Nat.eq_dec (cnt v (evens s)) 0) as [E|N].
  - rewrite E. lia.
  - assert (Hin : In v (evens s)) by (apply cnt_pos_In; lia).
    pose proof (simplified_disjoint oeqb oeqb_spec m v O Hin) as D.
    rewrite (cnt_zero v (odds s) D). lia.
Qed.
Local Close Scope Z_scope.

(** * Vec::swap_remove on the adds *)
Lemma nth_error_evens_odds {A} (l : list A) :
  (forall j, nth_error (evens l) j = nth_error l (2 * j)) /\
  (forall j, nth_error (odds l) j = nth_error l (2 * j + 1)).
Proof.
  induction l as [|x t [IHe IHo]]; [split; intros [|j]; reflexivity|].
  rewrite evens_cons, odds_cons. split; intros j.
  - destruct j as [|j]; [reflexivity|]. cbn [nth_error]. rewrite IHo.
    replace (2 * S j) with (S (2 * j + 1)) by lia. reflexivity.
  - rewrite IHe. replace (2 * j + 1) with (S (2 * j)) by lia. reflexivity.
Qed.
Lemma nth_error_evens {A} (l : list A) j : nth_error (evens l) j = nth_error l (2 * j).
Proof. apply nth_error_evens_odds. Qed.

Lemma length_evens_odds2 {A} (l : list A) :
  length (evens l) = (length l + 1) / 2 /\ length (odds l) = length l / 2.
Proof.
  induction l as [|x t [IHe IHo]]; [split; reflexivity|].
  rewrite evens_cons, odds_cons. cbn [length]. rewrite IHo, IHe. split.
  - replace (S (length t) + 1) with (length t + 1 * 2) by lia. rewrite Nat.div_add by lia. lia.
  - f_equal. lia.
Qed.
Lemma length_evens {A} (l : list A) : length (evens l) = (length l + 1) / 2.
Proof. apply length_evens_odds2. Qed.

Lemma nth_error_ext {A} (l1 l2 : list A) : (forall j, nth_error l1 j = nth_error l2 j) -> l1 = l2.
Proof.
  revert l2. induction l1 as [|a t IH]; intros [|b u] H.
  - reflexivity.
  - specialize (H 0). discriminate.
  - specialize (H 0). discriminate.
  - pose proof (H 0) as H0. cbn in H0. injection H0 as ->. f_equal. apply IH. intros j. apply (H (S j)).
Qed.

Lemma merge_swap_remove_evens_eq {A} ri ai (l : list A) :
  Nat.odd (length l) = true -> 3 <= length l -> ai < length (evens l) ->
  evens (merge_swap_remove ri ai l) = vec_swap_remove ai (evens l).
Proof.
  intros O L3 La. apply nth_error_ext. intros j.
  assert (NE : evens l <> []) by (intros E; rewrite E in La; cbn in La; lia).
  destruct (vsr_facts ai (evens l) NE) as [_ F]. rewrite F. clear F.
  rewrite nth_error_evens. unfold merge_swap_remove.
  assert (N1 : l <> []) by (intros ->; cbn in L3; lia).
  destruct (vsr_facts (ai * 2) l N1) as [L1 F1].
  set (l1 := vec_swap_remove (ai * 2) l) in *.
  assert (N2 : l1 <> []) by (intros E; rewrite E in L1; cbn in L1; lia).
  destruct (vsr_facts (ri * 2 + 1) l1 N2) as [L2 F2]. rewrite F2, L1.
  pose proof (length_evens l) as LE.
  assert (Hodd : exists n, length l = 2 * n + 1).
  { apply Nat.odd_spec in O. destruct O as [n Hn]. exists n. lia. }
  destruct Hodd as [n Hn]. rewrite Hn in *.
  replace ((2 * n + 1 + 1) / 2) with (n + 1) in LE by (replace (2 * n + 1 + 1) with ((n + 1) * 2) by lia; now rewrite Nat.div_mul).
  rewrite LE.
  destruct (Nat.ltb_spec (2 * j) (2 * n + 1 - 1 - 1)) as [B1|B1];
    destruct (Nat.ltb_spec j (n + 1 - 1)) as [B2|B2]; try lia; [|reflexivity].
  destruct (Nat.eqb_spec (2 * j) (ri * 2 + 1)) as [E0|_]; [lia|].
  rewrite F1. destruct (Nat.ltb_spec (2 * j) (2 * n + 1 - 1)) as [_|B3]; [|lia].
  destruct (Nat.eqb_spec (2 * j) (ai * 2)) as [E1|E1]; destruct (Nat.eqb_spec j ai) as [E2|E2]; try lia.
  - rewrite nth_error_evens. f_equal. lia.
  - now rewrite nth_error_evens.
Qed.

Lemma cnt_vsr v i (l : list (option nat)) : cnt v (vec_swap_remove i l) <= cnt v l.
Proof.
  destruct l as [|a t] eqn:E; [reflexivity|]. rewrite <- E.
  assert (N : l <> []) by (rewrite E; discriminate).
  destruct (exists_last N) as [l' [x ->]].
  unfold vec_swap_remove. rewrite rev_app_distr. cbn [rev app]. rewrite removelast_last.
  rewrite cnt_app. destruct (i =? length l'); [lia|].
  assert (G : forall (u : list (option nat)) i, cnt v (set_nth i x u) <= cnt v u + cnt v [x]).
  { clear. induction u as [|b u IH]; intros i; [destruct i; cbn [set_nth]; lia|].
    destruct i as [|i]; cbn [set_nth]; rewrite !cnt_cons.
    - unfold cnt. cbn [count_occ]. destruct (onat_dec x v); destruct (onat_dec b v); lia.
    - specialize (IH i). rewrite cnt_cons in IH. destruct (onat_dec b v); lia. }
  apply G.
Qed.

(** * The non-trivial loop only drops adds *)
Lemma pair_choice_index g i1 a1 i2 a2 ai aid : pair_choice g i1 a1 i2 a2 = Some (ai, aid) -> ai = i1 \/ ai = i2.
Proof.
  unfold pair_choice. destruct a1 as [id1|]; [|discriminate]. destruct a2 as [id2|]; [|discriminate].
  destruct (id1 =? id2); [intros H; injection H as <- _; now left|].
  destruct (ancb g id1 id2); [intros H; injection H as <- _; now left|].
  destruct (ancb g id2 id1); [intros H; injection H as <- _; now right|discriminate].
Qed.

Lemma find_pair_inner_index g rem i1 a1 rest : forall i2 ri ai,
  find_pair_inner g rem i1 a1 rest i2 = Some (ri, ai) -> ai = i1 \/ (i2 <= ai < i2 + length rest).
Proof.
  induction rest as [|a2 t IH]; intros i2 ri ai H; cbn [find_pair_inner] in H; [discriminate|].
  destruct (pair_choice g i1 a1 i2 a2) as [[ai0 aid]|] eqn:P.
  - destruct (find_index _ rem 0) as [ri0|].
    + injection H as <- <-. destruct (pair_choice_index _ _ _ _ _ _ _ P) as [E|E]; subst ai0; [now left|right; cbn [length]; lia].
    + destruct (IH _ _ _ H) as [A|A]; [now left|right; cbn [length]; lia].
  - destruct (IH _ _ _ H) as [A|A]; [now left|right; cbn [length]; lia].
Qed.

Lemma find_pair_outer_index g rem adds_l : forall i1 ri ai,
  find_pair_outer g rem adds_l i1 = Some (ri, ai) -> i1 <= ai < i1 + length adds_l.
Proof.
  induction adds_l as [|a1 t IH]; intros i1 ri ai H; cbn [find_pair_outer] in H; [discriminate|].
  destruct (find_pair_inner g rem i1 a1 t (S i1)) as [[ri0 ai0]|] eqn:E.
  - injection H as <- <-. destruct (find_pair_inner_index _ _ _ _ _ _ _ _ E) as [A|A]; cbn [length]; lia.
  - specialize (IH _ _ _ H). cbn [length]. lia.
Qed.

Lemma non_trivial_loop_cnt g v fuel : forall m, Nat.odd (length m) = true ->
  cnt v (evens (non_trivial_loop fuel g m)) <= cnt v (evens m).
Proof.
  induction fuel as [|f IH]; intros m O; cbn [non_trivial_loop]; [lia|].
  destruct (find_pair_to_remove g m) as [[ri ai]|] eqn:E; [|lia].
  assert (L3 : 3 <= length m).
  { apply find_pair_has_remove in E. pose proof (length_evens_odds m).
    destruct (odds m) eqn:Eo; [congruence|]. cbn [length] in H.
    destruct m as [|a [|b [|c t]]]; cbn in *; try lia; discriminate. }
  assert (La : ai < length (evens m)).
  { unfold find_pair_to_remove in E. apply find_pair_outer_index in E. lia. }
  assert (O' : Nat.odd (length (merge_swap_remove ri ai m)) = true).
  { rewrite merge_swap_remove_length by assumption.
    replace (length m) with (S (S (length m - 2))) in O by lia.
    now rewrite Nat.odd_succ_succ in O. }
  specialize (IH _ O'). rewrite (merge_swap_remove_evens_eq ri ai m O L3 La) in IH.
  pose proof (cnt_vsr v ai (evens m)). lia.
Qed.

(** * One bookmark update: the number of occurrences of a key among the adds never grows, and drops
    when the key is the rewritten commit *)
Lemma cnt_merge g (left other : target) old K :
  Nat.odd (length left) = true -> Nat.odd (length other) = true ->
  cnt (Some K) (evens other) = 0 ->
  cnt (Some K) (evens (merge_ref_targets g left [Some old] other))
    <= cnt (Some K) (evens left) - (if old =? K then 1 else 0).
Proof.
  intros OL OR CO. unfold merge_ref_targets.
  match goal with |- context [match ?X with Some _ => _ | None => _ end] => destruct X as [t|] eqn:E1 end.
  - cbn [trivial_merge] in E1.
    destruct (target_eqb left other && true) eqn:E; [|destruct (target_eqb left [Some old]) eqn:E2].
    + injection E1 as <-. rewrite andb_true_r in E. apply target_eqb_spec in E. subst other. lia.
    + injection E1 as <-. lia.
    + destruct (target_eqb other [Some old]) eqn:E3; [|discriminate]. injection E1 as <-.
      apply target_eqb_spec in E3. subst other. rewrite evens_cons, cnt_cons in CO.
      destruct (onat_dec (Some old) (Some K)) as [Eq|Ne]; [discriminate|].
      destruct (Nat.eqb_spec old K) as [->|_]; [congruence|lia].
  - set (fl := flatten [left; [Some old]; other]).
    assert (Efl : fl = left ++ [Some old] ++ other).
    { unfold fl, flatten, flatten_rest, neg_inner, rotate_left1. cbn [app swap_pairs]. now rewrite app_nil_r. }
    assert (Ofl : Nat.odd (length fl) = true).
    { rewrite Efl, !app_length. cbn [length]. rewrite Nat.add_succ_r, Nat.odd_succ.
      rewrite Nat.even_add. apply odd_even_length in OL. apply odd_even_length in OR.
      change (0 + length other) with (length other). now rewrite OL, OR. }
    assert (Dfl : (den oeqb fl (Some K) <= Z.of_nat (cnt (Some K) (evens left)) - (if Nat.eqb old K then 1 else 0))%Z).
    { rewrite den_cnt', Efl.
      destruct (evens_odds_app left ([Some old] ++ other)) as [Ee Eo]. rewrite Ee, Eo.
      apply odd_even_length in OL. rewrite OL. cbn [app]. rewrite evens_cons, odds_cons.
      rewrite !cnt_app, cnt_cons, CO.
      destruct (onat_dec (Some old) (Some K)) as [Eq|Ne].
      - injection Eq as ->. rewrite Nat.eqb_refl. lia.
      - destruct (Nat.eqb_spec old K) as [->|_]; [congruence|lia]. }
    set (m := simplify oeqb fl).
    assert (Om : Nat.odd (length m) = true).
    { destruct (simplify_arity oeqb oeqb_spec fl) as [A _]. apply odd_even_length. unfold m. rewrite A.
      now apply odd_even_length. }
    assert (Cm : cnt (Some K) (evens m) <= cnt (Some K) (evens left) - (if old =? K then 1 else 0)).
    { pose proof (cnt_simplify fl (Some K) Ofl) as Cs. fold m in Cs. destruct (old =? K); lia. }
    match goal with |- context [match ?X with Some _ => _ | None => _ end] =>
      change X with (trivial_merge oeqb true m); destruct (trivial_merge oeqb true m) as [v|] eqn:E2 end.
    + cbn [evens odds]. unfold cnt at 1. cbn [count_occ]. destruct (onat_dec v (Some K)) as [->|_]; [|lia].
      apply (trivial_merge_spec oeqb oeqb_spec true m (Some K) Om) in E2. destruct E2 as [P _].
      apply den_pos_in_evens in P. apply cnt_pos_In in P. lia.
    + change (simplify oeqb (flatten [left; [Some old]; other])) with m.
      pose proof (non_trivial_loop_cnt g (Some K) (length m) m Om). lia.
Qed.

(** * Sorted association lists keyed by [N] *)
Fixpoint nsorted (l : list N) : Prop :=
  match l with [] => True | x :: t => (forall y, In y t -> (x < y)%N) /\ nsorted t end.

Section NSorted.
  Context {V : Type}.
  Lemma naset_keys k (v : V) l k' :
    In k' (map fst (aset N.eqb N.ltb k v l)) <-> k' = k \/ In k' (map fst l).
  Proof.
    induction l as [|[k2 v2] t IH]; cbn [aset map fst In]; [intuition|].
    destruct (N.eqb k k2) eqn:E.
    - apply N.eqb_eq in E. subst. cbn [map fst In]. intuition.
    - destruct (N.ltb k k2); cbn [map fst In]; [intuition|]. rewrite IH. intuition.
  Qed.
  Lemma naset_sorted k (v : V) l : nsorted (map fst l) -> nsorted (map fst (aset N.eqb N.ltb k v l)).
  Proof.
    induction l as [|[k2 v2] t IH]; cbn [aset map fst]; intros S; [split; [intros y []|exact I]|].
    destruct S as [S1 S2]. destruct (N.eqb k k2) eqn:E.
    - apply N.eqb_eq in E. subst. cbn [map fst]. split; assumption.
    - apply N.eqb_neq in E. destruct (N.ltb k k2) eqn:L; cbn [map fst].
      + apply N.ltb_lt in L. split; [|split; assumption].
        intros y [Ey|Hy]; [subst y; assumption|]. specialize (S1 y Hy). lia.
      + apply N.ltb_ge in L. split; [|now apply IH].
        intros y Hy. apply naset_keys in Hy. destruct Hy as [->|Hy]; [lia|now apply S1].
  Qed.
  Lemma nadel_keys k (l : list (N * V)) k' : In k' (map fst (adel N.eqb k l)) -> In k' (map fst l).
  Proof.
    induction l as [|[k2 v2] t IH]; cbn [adel map fst In]; [auto|].
    destruct (N.eqb k k2); cbn [map fst In]; intuition.
  Qed.
  Lemma nadel_sorted k (l : list (N * V)) : nsorted (map fst l) -> nsorted (map fst (adel N.eqb k l)).
  Proof.
    induction l as [|[k2 v2] t IH]; cbn [adel map fst]; intros S; [exact I|].
    destruct S as [S1 S2]. destruct (N.eqb k k2); [now apply IH|]. cbn [map fst]. split; [|now apply IH].
    intros y Hy. apply nadel_keys in Hy. now apply S1.
  Qed.
  Lemma nsorted_get k v (l : list (N * V)) : nsorted (map fst l) -> In (k, v) l -> aget N.eqb k l = Some v.
  Proof.
    induction l as [|[k2 v2] t IH]; cbn [map fst aget]; intros S H; [contradiction|].
    destruct S as [S1 S2]. destruct H as [H|H].
    - injection H as -> ->. now rewrite N.eqb_refl.
    - destruct (N.eqb k k2) eqn:E; [|auto]. apply N.eqb_eq in E. subst k2. exfalso.
      assert (In k (map fst t)) by (apply in_map_iff; exists (k, v); auto).
      specialize (S1 k H0). lia.
  Qed.
End NSorted.

Definition names_sorted (st : state) : Prop :=
  nsorted (map fst (v_bms (s_v st))) /\ nsorted (map fst (v_wcs (s_v st))).

(** * update_local_bookmarks leaves no bookmark on a commit of the mapping's domain *)
Lemma somes_cnt K l : count_occ Nat.eq_dec (somes l) K = cnt (Some K) l.
Proof.
  induction l as [|ox t IH]; [reflexivity|]. destruct ox as [x|]; cbn [somes].
  - rewrite cnt_cons. cbn [count_occ]. rewrite IH.
    destruct (Nat.eq_dec x K) as [E1|E1]; destruct (onat_dec (Some x) (Some K)) as [E|E]; try lia; congruence.
  - rewrite cnt_cons. destruct (onat_dec None (Some K)); [discriminate|]. exact IH.
Qed.

Definition item_is (name : N) (K : nat) (it : N * nat * list nat) : bool :=
  N.eqb (fst (fst it)) name && Nat.eqb (snd (fst it)) K.
Definition remaining name K (l : list (N * nat * list nat)) : nat := length (filter (item_is name K) l).

Section BookmarkClear.
  Variable mapping : list (nat * list nat).
  Hypothesis Mvals : forall k nids z, aget Nat.eqb k mapping = Some nids -> In z nids -> aget Nat.eqb z mapping = None.
  Variable del : bool.

  Lemma ulb_count name K l : forall st st',
    aget Nat.eqb K mapping <> None ->
    bms_odd st ->
    (forall nm old nids, In (nm, old, nids) l -> aget Nat.eqb old mapping = Some nids) ->
    cnt (Some K) (evens (bm_get (s_v st) name)) <= remaining name K l ->
    fold_left (ulb_step del) l (Ok st) = Ok st' ->
    cnt (Some K) (evens (bm_get (s_v st') name)) = 0 /\ bms_odd st'.
  Proof.
    induction l as [|[[nm old] nids] t IH]; intros st st' HK Os HM Hc H; cbn [fold_left] in H.
    - apply Ok_inj in H. subst st'. cbn in Hc. split; [lia|assumption].
    - destruct (HM nm old nids (or_introl eq_refl)) as [].
      pose proof (HM nm old nids (or_introl eq_refl)) as Hold.
      unfold ulb_step at 2 in H. cbn [bind] in H.
      assert (Step : forall other, Nat.odd (length other) = true -> cnt (Some K) (evens other) = 0 ->
                let a := merge_local_bookmark st nm [Some old] other in
                cnt (Some K) (evens (bm_get (s_v a) name)) <= remaining name K t /\ bms_odd a).
      { intros other Oo Co. cbv zeta. unfold merge_local_bookmark. split.
        - unfold remaining in *. cbn [filter] in Hc. unfold item_is at 1 in Hc. cbn [fst snd] in Hc.
          destruct (N.eqb_spec nm name) as [->|Nn].
          + rewrite bm_get_set_same.
            pose proof (cnt_merge (pg (s_g st)) (bm_get (s_v st) name) other old K (bm_get_odd st name Os) Oo Co) as Cm.
            cbn [andb] in Hc. destruct (old =? K); cbn [length] in Hc; lia.
          + rewrite bm_get_set_other by congruence. cbn [andb] in Hc. exact Hc.
        - apply bms_odd_set; [assumption|].
          apply (merge_ref_targets_facts (pg (s_g st)) (bm_get (s_v st) nm) other old); [now apply bm_get_odd|assumption]. }
      destruct (del && is_abandoned (pm_get (s_pm st) old)).
      + destruct (Step absent_target eq_refl eq_refl) as [A B].
        eapply IH; [exact HK|exact B|intros; eapply HM; right; eassumption|exact A|exact H].
      + destruct nids as [|n ns]; [exfalso; eapply (fold_res_stuck (ulb_step del) t Panic); [| | | |exact H]; try reflexivity; discriminate|].
        destruct (intersperse_facts (map Some (n :: ns)) (Some old)) as [IE IO]; [discriminate|].
        assert (Co : cnt (Some K) (evens (intersperse (map Some (n :: ns)) (Some old))) = 0).
        { rewrite IE. apply cnt_zero. intros Hin. apply in_map_iff in Hin. destruct Hin as [z [Ez Hz]].
          injection Ez as ->. apply HK. eapply Mvals; eassumption. }
        destruct (Step _ IO Co) as [A B].
        eapply IH; [exact HK|exact B|intros; eapply HM; right; eassumption|exact A|exact H].
  Qed.

  Theorem update_local_bookmarks_clear st st' :
    bms_odd st ->
    update_local_bookmarks st mapping del = Ok st' ->
    forall name K, aget Nat.eqb K mapping <> None -> ~ In K (added_ids (bm_get (s_v st') name)).
  Proof.
    intros Os H name K HK. unfold update_local_bookmarks in H.
    change (fold_left _ ?l (Ok st) = Ok st') with (fold_left (ulb_step del) l (Ok st) = Ok st') in H.
    match type of H with fold_left _ ?l _ = _ => set (changed := l) in * end.
    assert (HM : forall nm old nids, In (nm, old, nids) changed -> aget Nat.eqb old mapping = Some nids).
    { intros nm old nids Hin. unfold changed in Hin. apply in_flat_map in Hin.
      destruct Hin as [[nm' t] [_ Hin]]. apply in_flat_map in Hin. destruct Hin as [id [_ Hin]].
      destruct (aget Nat.eqb id mapping) as [ns|] eqn:E; [|contradiction].
      destruct Hin as [Hin|[]]. injection Hin as _ <- <-. assumption. }
    assert (Hc : cnt (Some K) (evens (bm_get (s_v st) name)) <= remaining name K changed).
    { unfold bm_get. destruct (aget N.eqb name (v_bms (s_v st))) as [t|] eqn:Eg; [|cbn; lia].
      apply (aget_In N.eqb Neqb_spec) in Eg.
      destruct (aget Nat.eqb K mapping) as [nK|] eqn:EK; [|congruence].
      unfold remaining, changed. clear -Eg EK.
      induction (v_bms (s_v st)) as [|[nm t'] l IH]; [contradiction|].
      cbn [flat_map]. rewrite filter_app, app_length. destruct Eg as [Eg|Eg].
      - injection Eg as -> ->. cbn [fst snd].
        assert (G : forall ids, count_occ Nat.eq_dec ids K <=
                   length (filter (item_is name K)
                     (flat_map (fun id => match aget Nat.eqb id mapping with Some nids => [(name, id, nids)] | None => [] end) ids))).
        { induction ids as [|i ids IHi]; [cbn; lia|]. cbn [flat_map count_occ].
          rewrite filter_app, app_length. destruct (Nat.eq_dec i K) as [->|Ni].
          - rewrite EK. cbn [filter]. unfold item_is at 1. cbn [fst snd]. rewrite N.eqb_refl, Nat.eqb_refl. cbn [andb length]. lia.
          - lia. }
        specialize (G (added_ids t)). unfold added_ids in G at 1. rewrite somes_cnt in G. lia.
      - specialize (IH Eg). lia. }
    destruct (ulb_count name K changed st st' HK Os HM Hc H) as [Z _].
    unfold added_ids. intros Hin. apply somes_In in Hin. apply cnt_pos_In in Hin. lia.
  Qed.
End BookmarkClear.

(** * The resolved mapping has an entry for every key *)
Lemma resolve_mapping_complete pm pred m k :
  resolve_rewrite_mapping pm pred = Ok m -> In k (pm_keys pm) -> pm_filtered pm pred k <> None ->
  aget Nat.eqb k m <> None.
Proof.
  unfold resolve_rewrite_mapping.
  set (D := fun id => match pm_filtered pm pred id with Some r => new_parent_ids r | None => [] end).
  destruct (topo_order_forward _ _ _ _) as [ids| | |] eqn:E; cbn [bind]; try discriminate.
  destruct (topo_stateless_acyclic D _ _ _ E) as [_ [A _]].
  intros H Hk HF. specialize (A k Hk).
  set (P := fun (l : list nat) (m0 : list (nat * list nat)) =>
              forall k0, (In k0 l /\ pm_filtered pm pred k0 <> None) -> aget Nat.eqb k0 m0 <> None).
  assert (G : forall l m0 m1, (forall k0, aget Nat.eqb k0 m0 <> None -> True) ->
            fold_left (fun (acc : res (list (nat * list nat))) old =>
              do m' <- acc;
              match pm_filtered pm pred old with
              | None => Ok m'
              | Some r =>
                  let lookup id := match aget Nat.eqb id m' with Some ids => ids | None => [id] end in
                  let new_ids := match new_parent_ids r with [id] => lookup id | ids0 => dedup (flat_map lookup ids0) [] end in
                  match rewritten_ids_with pm pred [old] with
                  | Ok ids' => if list_nat_eqb new_ids ids' then Ok (aset Nat.eqb Nat.ltb old new_ids m') else Panic
                  | Err => Err | Panic => Panic | Fuel => Fuel
                  end
              end) l (Ok m0) = Ok m1 ->
            (forall k0, aget Nat.eqb k0 m0 <> None -> aget Nat.eqb k0 m1 <> None) /\
            (forall k0, In k0 l -> pm_filtered pm pred k0 <> None -> aget Nat.eqb k0 m1 <> None)).
  { induction l as [|x t IHl]; intros m0 m1 _ Hf; cbn [fold_left] in Hf.
    - apply Ok_inj in Hf. subst. split; [auto|intros k0 []].
    - cbn [bind] in Hf. destruct (pm_filtered pm pred x) as [r|] eqn:Fx.
      + destruct (rewritten_ids_with pm pred [x]) as [ids'| | |];
          try (exfalso; eapply (fold_res_stuck _ t); [| | | |exact Hf]; try reflexivity; discriminate).
        match type of Hf with fold_left _ _ (if ?c then _ else _) = _ => destruct c end;
          [|exfalso; eapply (fold_res_stuck _ t Panic); [| | | |exact Hf]; try reflexivity; discriminate].
        destruct (IHl _ _ (fun _ _ => I) Hf) as [P1 P2]. split.
        * intros k0 Hk0. apply P1. destruct (Nat.eq_dec k0 x) as [->|N]; [rewrite aget_aset_same; discriminate|].
          now rewrite aget_aset_other.
        * intros k0 [<-|Hin] Hk0; [apply P1; rewrite aget_aset_same; discriminate|now apply P2].
      + destruct (IHl _ _ (fun _ _ => I) Hf) as [P1 P2]. split; [exact P1|].
        intros k0 [<-|Hin] Hk0; [congruence|now apply P2]. }
  destruct (G ids [] m (fun _ _ => I) H) as [_ P2]. now apply P2.
Qed.

(** * Names stay sorted *)
Lemma nsorted_NoDup l : nsorted l -> NoDup l.
Proof.
  induction l as [|x t IH]; intros S; constructor.
  - destruct S as [S1 _]. intros H. specialize (S1 x H). lia.
  - apply IH. apply S.
Qed.

Lemma edit_wcs s ws c s' : edit s ws c = Some s' ->
  v_wcs (s_v s') = aset N.eqb N.ltb ws c (v_wcs (s_v s)).
Proof.
  unfold edit. destruct (c =? 0); [discriminate|]. intros H.
  assert (E : forall (a b : state), Some a = Some b -> a = b) by (intros a b E0; congruence).
  apply E in H. subst s'. cbn [set_view s_v v_wcs].
  destruct (add_heads_fields (maybe_abandon_wc_commit s ws) [c]) as [_ [_ [_ W]]].
  now rewrite W, maybe_abandon_wcs.
Qed.

Lemma names_sorted_set_bookmark s name t : names_sorted s -> names_sorted (set_local_bookmark_target s name t).
Proof.
  intros [A B]. unfold names_sorted, set_local_bookmark_target. cbn [set_view s_v v_bms v_wcs].
  destruct (fold_add_head_fields (added_ids t) (s_v s)) as [Eb [Ew _]]. rewrite Eb, Ew. split; [|assumption].
  destruct (is_absent t); [now apply nadel_sorted|now apply naset_sorted].
Qed.

Lemma names_sorted_edit s ws c s' : names_sorted s -> edit s ws c = Some s' -> names_sorted s'.
Proof.
  intros [A B] H. unfold names_sorted. rewrite (edit_bms _ _ _ _ H), (edit_wcs _ _ _ _ H).
  split; [assumption|now apply naset_sorted].
Qed.

Lemma names_sorted_update_local_bookmarks st mapping del st' :
  names_sorted st -> update_local_bookmarks st mapping del = Ok st' -> names_sorted st'.
Proof.
  intros S H. unfold update_local_bookmarks in H.
  refine (fold_res_inv (fun (s1 : state) (ch : N * nat * list nat) => _) names_sorted _ _ st st' S H).
  intros a [[name old] nids] a' Sa _ Hf. cbv beta iota in Hf.
  destruct (del && is_abandoned (pm_get (s_pm a) old)).
  - apply Ok_inj in Hf. subst a'. now apply names_sorted_set_bookmark.
  - destruct nids; [discriminate|]. apply Ok_inj in Hf. subst a'. now apply names_sorted_set_bookmark.
Qed.

Lemma names_sorted_update_wc_commits st mapping st' :
  names_sorted st -> update_wc_commits st mapping = Ok st' -> names_sorted st'.
Proof.
  intros S H. rewrite update_wc_commits_eq in H.
  match type of H with (do r <- fold_left _ ?l _; _) = _ => set (changed := l) in * end.
  destruct (fold_left uwc_step changed (Ok (st, []))) as [[sf rec]| | |] eqn:F; cbn [bind] in H; try discriminate.
  apply Ok_inj in H. cbn [fst] in H. subst st'.
  unfold uwc_step in F.
  refine (fold_res_inv (fun (sr : state * list (nat * nat)) (ch : N * nat * list nat) => _)
            (fun sr => names_sorted (fst sr)) changed _ (st, []) (sf, rec) S F).
  intros [a recr] [[ws oldc] nids] a' Sa _ Hf. cbn [fst snd] in *. cbv beta iota in Hf.
  match type of Hf with (do sw <- ?X; _) = _ => destruct X as [[[s2 rec2] new_wc]| | |] eqn:EX end;
    cbn [bind] in Hf; try discriminate.
  assert (S2 : names_sorted s2).
  { destruct (negb (is_abandoned (pm_get (s_pm a) oldc))).
    - destruct nids; [discriminate|]. apply Ok_inj in EX. now injection EX as <- _ _.
    - destruct (aget Nat.eqb oldc recr).
      + apply Ok_inj in EX. now injection EX as <- _ _.
      + destruct nids as [|n ns]; [discriminate|].
        destruct (write_commit_view a (fresh_commit (s_g a) (n :: ns) 0 true) None) as [Eb [Ew _]].
        destruct (write_commit a (fresh_commit (s_g a) (n :: ns) 0 true) None) as [sw nw] eqn:EW.
        apply Ok_inj in EX. injection EX as <- _ _. cbn [fst] in *. unfold names_sorted. now rewrite Eb, Ew. }
  destruct (edit s2 ws new_wc) as [s3|] eqn:EE; [|discriminate]. apply Ok_inj in Hf. subst a'. cbn [fst].
  eapply names_sorted_edit; eassumption.
Qed.

(** * After the reference updates no reference sits on a commit with a rewrite record *)
Theorem refs_clear_after ord s o sB :
  J s -> bms_odd s -> names_sorted s ->
  rebase_before_heads ord s o = Ok sB -> refs_clear sB /\ names_sorted sB.
Proof.
  intros Js Os Ns H. unfold rebase_before_heads in H.
  destruct (rebase_loop_with ord s o) as [s1| | |] eqn:EL; cbn [bind] in H; try discriminate.
  destruct (resolve_rewrite_mapping (s_pm s1) (fun _ => true)) as [mapping| | |] eqn:EM; cbn [bind] in H; try discriminate.
  destruct (update_local_bookmarks s1 mapping (o_delete_abandoned o)) as [sA| | |] eqn:EA; cbn [bind] in H; try discriminate.
  rename H into EB.
  pose proof (J_rebase_loop ord s o s1 Js EL) as J1.
  assert (L1 : v_bms (s_v s1) = v_bms (s_v s) /\ v_wcs (s_v s1) = v_wcs (s_v s)).
  { unfold rebase_loop_with in EL. destruct (ord _ _ _) as [order| | |]; cbn [bind] in EL; try discriminate.
    split; [eapply rebase_fold_bms|eapply rebase_fold_wcs]; eassumption. }
  destruct L1 as [B1 W1].
  assert (O1 : bms_odd s1) by (unfold bms_odd; rewrite B1; exact Os).
  assert (N1 : names_sorted s1) by (unfold names_sorted; rewrite B1, W1; exact Ns).
  pose proof (names_sorted_update_local_bookmarks _ _ _ _ N1 EA) as NA.
  pose proof (names_sorted_update_wc_commits _ _ _ NA EB) as NB.
  split; [|exact NB].
  destruct (update_local_bookmarks_fields _ _ _ _ EA) as [WA [PA GA]].
  (* facts about the mapping *)
  assert (Mdom : forall k nids, aget Nat.eqb k mapping = Some nids -> pm_get (s_pm s1) k <> None).
  { intros k nids Hk. destruct (resolve_mapping_spec _ _ _ EM k nids Hk) as [Kk _].
    unfold pm_filtered in Kk. destruct (pm_get (s_pm s1) k); [discriminate|congruence]. }
  assert (Mcomp : forall k, pm_get (s_pm s1) k <> None -> aget Nat.eqb k mapping <> None).
  { intros k Hk. apply (resolve_mapping_complete _ _ _ k EM).
    - apply In_pm_keys_get. destruct (pm_get (s_pm s1) k); [eauto|congruence].
    - unfold pm_filtered. destruct (pm_get (s_pm s1) k); [discriminate|congruence]. }
  assert (Mvals : forall k nids z, aget Nat.eqb k mapping = Some nids -> In z nids -> aget Nat.eqb z mapping = None).
  { intros k nids z Hk Hz. destruct (resolve_mapping_spec _ _ _ EM k nids Hk) as [_ R].
    destruct (rewritten_ids_with_result _ _ _ _ R) as [_ F]. destruct (F z Hz) as [Fz _].
    destruct (aget Nat.eqb z mapping) as [nz|] eqn:Ez; [|reflexivity]. exfalso.
    apply (Mdom z nz Ez). unfold pm_filtered in Fz. destruct (pm_get (s_pm s1) z); [discriminate|reflexivity]. }
  assert (Krange : forall k, pm_get (s_pm s1) k <> None -> k < length (s_g s1)).
  { intros k Hk. destruct (pm_get (s_pm s1) k) as [r|] eqn:G; [|congruence]. apply pm_get_In in G.
    destruct (j_pm _ J1 k r G) as [A _]. exact A. }
  (* the working-copy fold *)
  rewrite update_wc_commits_eq in EB.
  set (F := fun p : N * nat => match aget Nat.eqb (snd p) mapping with
                                | Some nids => [(fst p, snd p, nids)]
                                | None => []
                                end) in *.
  destruct (fold_left uwc_step (flat_map F (v_wcs (s_v sA))) (Ok (sA, []))) as [[sf rec]| | |] eqn:EF;
    cbn [bind] in EB; try discriminate.
  apply Ok_inj in EB. cbn [fst] in EB. subst sB.
  destruct NA as [NAb NAw].
  assert (NDw : NoDup (map fst (v_wcs (s_v sA)))) by now apply nsorted_NoDup.
  assert (HMl : forall ws k nids, In (ws, k, nids) (flat_map F (v_wcs (s_v sA))) ->
                  aget Nat.eqb k mapping = Some nids /\ In (ws, k) (v_wcs (s_v sA))).
  { intros ws k nids Hin. apply in_flat_map in Hin. destruct Hin as [[w c] [Hin1 Hin2]]. unfold F in Hin2.
    cbn [fst snd] in Hin2. destruct (aget Nat.eqb c mapping) eqn:E; [|contradiction].
    destruct Hin2 as [Hin2|[]]. injection Hin2 as <- <- <-. auto. }
  assert (NDl : NoDup (map (fun x : N * nat * list nat => fst (fst x)) (flat_map F (v_wcs (s_v sA))))).
  { clear -NDw. induction (v_wcs (s_v sA)) as [|[a b] l IH]; [constructor|].
    cbn [map fst] in NDw. inversion NDw as [|? ? Hn Hd]; subst. cbn [flat_map]. unfold F at 1. cbn [fst snd].
    destruct (aget Nat.eqb b mapping); [|now apply IH]. cbn [app map fst]. constructor; [|now apply IH].
    intros Hin. apply in_map_iff in Hin. destruct Hin as [[[w k] n] [E Hin]]. cbn [fst] in E. subst w.
    apply in_flat_map in Hin. destruct Hin as [[w c] [Hin1 Hin2]]. unfold F in Hin2. cbn [fst snd] in Hin2.
    destruct (aget Nat.eqb c mapping); [|contradiction]. destruct Hin2 as [Hin2|[]]. injection Hin2 as -> _ _.
    apply Hn. apply in_map_iff. exists (a, c). auto. }
  assert (HP : forall ws k nids, In (ws, k, nids) (flat_map F (v_wcs (s_v sA))) -> wc_get (s_v sA) ws = Some k).
  { intros ws k nids Hin. unfold wc_get. apply nsorted_get; [assumption|]. apply (HMl _ _ _ Hin). }
  destruct (uwc_fold mapping (length (s_g sA)) _ sA [] sf rec (fun a b c Hi => proj1 (HMl a b c Hi)) NDl
              (fun k c Hc => ltac:(discriminate)) (le_n _) HP EF) as [HR [L [Oo [Wn [_ [PM Fo]]]]]].
  (* keys do not grow *)
  assert (Kf : forall c, pm_get (s_pm sf) c <> None -> pm_get (s_pm s1) c <> None).
  { intros c Hc. destruct (PM c) as [Q|[w [n Q]]].
    - rewrite Q, PA in Hc. exact Hc.
    - apply (Mdom c n). apply (HMl _ _ _ Q). }
  assert (Bf : v_bms (s_v sf) = v_bms (s_v sA)).
  { assert (EBB : update_wc_commits sA mapping = Ok sf).
    { rewrite update_wc_commits_eq. fold F. rewrite EF. reflexivity. }
    now apply update_wc_commits_bms in EBB. }
  split.
  - intros name t c Hb Hc. rewrite Bf in Hb.
    destruct (pm_get (s_pm sf) c) eqn:Gc; [|reflexivity]. exfalso.
    assert (K1 : pm_get (s_pm s1) c <> None) by (apply Kf; congruence).
    assert (Et : bm_get (s_v sA) name = t).
    { unfold bm_get. now rewrite (nsorted_get name t _ NAb Hb). }
    apply (update_local_bookmarks_clear mapping Mvals _ s1 sA O1 EA name c (Mcomp c K1)).
    now rewrite Et.
  - intros ws c Hw.
    destruct NB as [_ NBw].
    assert (Gw : wc_get (s_v sf) ws = Some c) by (unfold wc_get; now apply nsorted_get).
    destruct (pm_get (s_pm sf) c) eqn:Gc; [|reflexivity]. exfalso.
    assert (K1 : pm_get (s_pm s1) c <> None) by (apply Kf; congruence).
    assert (Kdom : aget Nat.eqb c mapping <> None) by now apply Mcomp.
    destruct (in_dec N.eq_dec ws (map (fun x : N * nat * list nat => fst (fst x)) (flat_map F (v_wcs (s_v sA))))) as [I|I].
    + apply in_map_iff in I. destruct I as [[[w k] n] [E I]]. cbn [fst] in E. subst w.
      destruct (Fo ws k n I) as [c' [A B]]. rewrite Gw in A. injection A as <-.
      destruct (is_abandoned (pm_get (s_pm sA) k)).
      * destruct (HR k c B) as [[Lc _] _]. apply Krange in K1. rewrite GA in Lc. lia.
      * destruct (HMl _ _ _ I) as [Mk _]. destruct n as [|z zs]; cbn [hd] in B.
        -- destruct (resolve_mapping_spec _ _ _ EM k [] Mk) as [_ R].
           destruct (rewritten_ids_with_result _ _ _ _ R) as [NE _]. congruence.
        -- subst c. apply Kdom. eapply Mvals; [exact Mk|now left].
    + rewrite (Wn ws I) in Gw. unfold wc_get in Gw. apply (aget_In N.eqb Neqb_spec) in Gw.
      apply I. apply in_map_iff.
      destruct (aget Nat.eqb c mapping) as [nc|] eqn:Ec; [|congruence].
      exists (ws, c, nc). split; [reflexivity|]. apply in_flat_map. exists (ws, c). split; [assumption|].
      unfold F. cbn [fst snd]. rewrite Ec. now left.
Qed.

(** * All operations, no guard on descendant rebasing *)
Definition op_okb2 (s : state) (o : op) : bool :=
  match o with
  | OSetBookmark _ t => basic_op_okb s o && Nat.odd (length t)
  | ORebase _ => true
  | _ => basic_op_okb s o || record_op_okb s o
  end.

Lemma names_same s s' : v_bms (s_v s') = v_bms (s_v s) -> v_wcs (s_v s') = v_wcs (s_v s) ->
  names_sorted s -> names_sorted s'.
Proof. unfold names_sorted. intros -> ->. auto. Qed.

Lemma step_names_basic s o s' : basic_op_okb s o = true -> names_sorted s -> step s o = Ok s' -> names_sorted s'.
Proof.
  intros G Ns H. destruct o; cbn [basic_op_okb] in G; try discriminate; cbn [step] in H.
  - destruct ps; [discriminate|]. apply Ok_inj in H. subst s'.
    apply (names_same s); [apply write_commit_view|apply write_commit_view|assumption].
  - apply Ok_inj in H. subst s'. apply (names_same s); [apply add_heads_fields|apply add_heads_fields|assumption].
  - apply Ok_inj in H. subst s'. now apply names_sorted_set_bookmark.
  - destruct (edit s ws c) eqn:E; [|discriminate]. apply Ok_inj in H. subst s'. eapply names_sorted_edit; eassumption.
  - unfold check_out in H.
    destruct (write_commit_view s (fresh_commit (s_g s) [c] 0 true) None) as [Eb [Ew _]].
    destruct (write_commit s (fresh_commit (s_g s) [c] 0 true) None) as [s1 n] eqn:EW. cbn [fst] in *.
    destruct (edit s1 ws n) eqn:E; [|discriminate]. apply Ok_inj in H. subst s'.
    eapply names_sorted_edit; [|eassumption]. now apply (names_same s).
  - apply Ok_inj in H. subst s'. unfold remove_workspace, names_sorted. cbn [set_view s_v v_bms v_wcs].
    rewrite maybe_abandon_bms, maybe_abandon_wcs. destruct Ns as [A B]. split; [assumption|now apply nadel_sorted].
  - destruct (s_pm s); [|discriminate]. apply Ok_inj in H. subst s'.
    apply (names_same s); [apply normalize_fields|apply normalize_fields|assumption].
Qed.

Lemma step_names_record s o s' : record_op_okb s o = true -> names_sorted s -> step s o = Ok s' -> names_sorted s'.
Proof.
  intros G Ns H. destruct o; cbn [record_op_okb] in G; try discriminate; cbn [step] in H.
  - destruct (old =? 0); [discriminate|].
    destruct (match ps with Some l => l | None => c_parents (getc (s_g s) old) end); [discriminate|].
    apply Ok_inj in H. subst s'. apply (names_same s); [apply write_commit_view|apply write_commit_view|assumption].
  - destruct (old =? 0); [discriminate|]. apply Ok_inj in H. now subst s'.
  - destruct (old =? 0); [discriminate|]. apply Ok_inj in H. now subst s'.
  - destruct (old =? 0); [discriminate|]. apply Ok_inj in H. now subst s'.
  - destruct (old =? 0); [discriminate|]. apply Ok_inj in H. now subst s'.
Qed.

Inductive reach_all2 : state -> Prop :=
| ra2_init : reach_all2 init_state
| ra2_step s o s' : reach_all2 s -> op_okb2 s o = true -> step s o = Ok s' -> reach_all2 s'.

Theorem reach_all2_inv s : reach_all2 s -> J s /\ bms_odd s /\ names_sorted s.
Proof.
  induction 1 as [|s o s' _ [Js [Os Ns]] G H].
  - split; [apply J_init|]. split; [intros name t []|]. split; exact I.
  - destruct o; cbn [op_okb2] in G.
    all: try (apply orb_true_iff in G; destruct G as [G|G];
              [split; [eapply J_step_basic; eassumption|]; split;
               [pose proof (step_bms_basic _ _ _ G H) as B; cbn beta iota in B; unfold bms_odd; rewrite B; exact Os
               |eapply step_names_basic; eassumption]
              |split; [eapply J_step_record; eassumption|]; split;
               [unfold bms_odd; rewrite (step_bms_record _ _ _ G H); exact Os
               |eapply step_names_record; eassumption]]).
    + apply andb_true_iff in G. destruct G as [G Od]. split; [eapply J_step_basic; eassumption|].
      split; [|eapply step_names_basic; eassumption].
      cbn [step] in H. apply Ok_inj in H. subst s'. now apply bms_odd_set.
    + cbn [step] in H. change (rebase_descendants s o) with (rebase_descendants_with order_commits_for_rebase s o) in H.
      destruct (J_rebase_descendants order_commits_for_rebase s o s' Js Os) as [A [B _]]; [|exact H|].
      * intros sB EB. apply (refs_clear_after _ _ _ _ Js Os Ns EB).
      * split; [assumption|]. split; [assumption|].
        rewrite rebase_descendants_split in H.
        destruct (rebase_before_heads order_commits_for_rebase s o) as [sB| | |] eqn:EB; cbn [bind] in H; try discriminate.
        apply Ok_inj in H. subst s'. destruct (refs_clear_after _ _ _ _ Js Os Ns EB) as [_ NB].
        unfold names_sorted. cbn [set_pm s_v]. now rewrite update_heads_bms, update_heads_wcs.
Qed.

Theorem commit_inv_all2 s s' :
  reach_all2 s -> step s OCommit = Ok s' -> Inv (pg (s_g s')) (s_v s').
Proof.
  intros R H. destruct (reach_all2_inv s R) as [Js _]. cbn [step] in H.
  destruct (s_pm s); [|discriminate]. apply Ok_inj in H. subst s'. now apply commit_Inv.
Qed.
