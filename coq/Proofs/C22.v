(** C22 — proofs about the changed-path index model (Model/C22.v). *)
From Verif Require Import Base.Prelude Model.C22.
From Coq Require Import Lia Arith.
Import ListNotations.
Local Open Scope nat_scope.

(* ------------------------------------------------------------------ predicates *)

Lemma existsb_filter {A} (f g : A -> bool) l :
  existsb f (filter g l) = existsb (fun x => f x && g x) l.
Proof.
  induction l as [|a t IH]; cbn; auto. destruct (g a); cbn; rewrite IH.
  - now rewrite andb_true_r.
  - now rewrite andb_false_r.
Qed.

(** If the stored set is the commit's changed paths, evaluating [files(m)] through the index
    and through the tree diff agree, for every matcher. *)
Lemma pred_equiv np m c : pred_index m (changed_paths np c) = pred_diff np m c.
Proof. unfold pred_index, pred_diff, changed_paths. apply existsb_filter. Qed.

(* ------------------------------------------------------------------ list slices *)

Lemma nth_error_skipn {A} lo : forall (l : list A) i, nth_error (skipn lo l) i = nth_error l (lo + i).
Proof. induction lo; intros [|a l] i; cbn; auto. destruct i; auto. Qed.

Lemma nth_error_firstn {A} k : forall (l : list A) i, i < k -> nth_error (firstn k l) i = nth_error l i.
Proof.
  induction k; intros l i H; [lia|]. destruct l, i; cbn; auto. apply IHk. lia.
Qed.

Lemma nth_error_firstn_ge {A} k : forall (l : list A) i, k <= i -> nth_error (firstn k l) i = None.
Proof.
  intros l i H. apply nth_error_None. rewrite firstn_length. lia.
Qed.

Lemma slice_nth {A} lo hi (l : list A) i : i < hi - lo ->
  nth_error (slice lo hi l) i = nth_error l (lo + i).
Proof. intros H. unfold slice. rewrite nth_error_firstn by assumption. apply nth_error_skipn. Qed.

Lemma slice_length {A} lo hi (l : list A) : hi <= length l ->
  length (slice lo hi l) = hi - lo.
Proof. intros H. unfold slice. rewrite firstn_length, skipn_length. lia. Qed.

Lemma nth_error_map' {A B} (f : A -> B) l i :
  nth_error (map f l) i = option_map f (nth_error l i).
Proof. revert i. induction l; intros [|i]; cbn; auto. Qed.

Lemma nth_error_app_l {A} (a b : list A) i : i < length a -> nth_error (a ++ b) i = nth_error a i.
Proof. intros H. now apply nth_error_app1. Qed.
Lemma nth_error_app_r {A} (a b : list A) i : length a <= i ->
  nth_error (a ++ b) i = nth_error b (i - length a).
Proof. intros H. now apply nth_error_app2. Qed.

(* ------------------------------------------------------------------ the invariant *)

Section Inv.
  Variable np : nat.

  (** every stored set is the changed-path set of the commit at that position, and the
      indexed range lies inside the commit index *)
  Definition exact (cs : list commit) (ix : cpindex) : Prop :=
    (forall pos paths, cp_lookup ix pos = Some paths ->
       exists c, nth_error cs pos = Some c /\ paths = changed_paths np c) /\
    (forall s es, ix = Some (s, es) -> s + length es <= length cs).

  Lemma exact_null cs : exact cs None.
  Proof. split; [intros pos paths H; discriminate|intros s es H; discriminate]. Qed.

  Lemma cp_lookup_some s es pos paths :
    cp_lookup (Some (s, es)) pos = Some paths <-> s <= pos /\ nth_error es (pos - s) = Some paths.
  Proof.
    cbn. destruct (Nat.leb_spec s pos); split; try tauto; try discriminate.
    intros [H1 _]. lia.
  Qed.

  (** The indexed positions are exactly a contiguous range. *)
  Lemma cp_lookup_range s es pos :
    cp_lookup (Some (s, es)) pos <> None <-> s <= pos < s + length es.
  Proof.
    cbn. destruct (Nat.leb_spec s pos).
    - rewrite nth_error_Some. lia.
    - split; [congruence|lia].
  Qed.

  Lemma add_commit_exact cs ix c : exact cs ix -> exact (cs ++ [c]) (add_commit np (length cs) ix c).
  Proof.
    intros [Hl Hw]. destruct ix as [[s es]|]; cbn [add_commit]; [|apply exact_null].
    specialize (Hw s es eq_refl).
    destruct (Nat.eqb_spec (s + length es) (length cs)) as [E|E].
    - split.
      + intros pos paths H. apply cp_lookup_some in H. destruct H as [Hs Hn].
        destruct (Nat.lt_ge_cases (pos - s) (length es)) as [Hlt|Hge].
        * rewrite nth_error_app_l in Hn by assumption.
          destruct (Hl pos paths (proj2 (cp_lookup_some s es pos paths) (conj Hs Hn))) as [c0 [Hc0 Hp]].
          exists c0. split; auto. rewrite nth_error_app_l; auto.
          apply nth_error_Some. congruence.
        * rewrite nth_error_app_r in Hn by assumption.
          destruct (pos - s - length es) as [|k] eqn:Ek; cbn in Hn; [|destruct k; discriminate].
          inversion Hn; subst. exists c. split; auto.
          rewrite nth_error_app_r by lia. replace (pos - length cs) with 0 by lia. reflexivity.
      + intros s' es' H. inversion H; subst. rewrite !app_length. cbn. lia.
    - split.
      + intros pos paths H. destruct (Hl pos paths H) as [c0 [Hc0 Hp]]. exists c0. split; auto.
        rewrite nth_error_app_l; auto. apply nth_error_Some. congruence.
      + intros s' es' H. inversion H; subst. rewrite app_length. cbn. lia.
  Qed.

  Lemma cps_nth cs lo hi i : i < hi - lo ->
    nth_error (map (changed_paths np) (slice lo hi cs)) i =
    option_map (changed_paths np) (nth_error cs (lo + i)).
  Proof. intros H. rewrite nth_error_map'. now rewrite slice_nth. Qed.

  Lemma cps_length cs lo hi : hi <= length cs ->
    length (map (changed_paths np) (slice lo hi cs)) = hi - lo.
  Proof. intros H. rewrite map_length. now apply slice_length. Qed.

  (** Range computed by [build_changed_path_index_at_operation]. *)
  Definition build_post_end (n post_start : nat) (maxc : N) : nat :=
    N.to_nat (N.min (N.min (N.of_nat post_start + maxc) U32MAX) (N.of_nat n)).
  Definition build_pre_start (n pos post_start : nat) (maxc : N) : nat :=
    N.to_nat (N.of_nat pos -
              (maxc - (N.min (N.min (N.of_nat post_start + maxc) U32MAX) (N.of_nat n)
                       - N.of_nat post_start))).

  Lemma build_exact cs ix maxc : (N.of_nat (length cs) <= U32MAX)%N ->
    exact cs ix -> exact cs (build np cs ix maxc).
  Proof.
    intros Hsmall [Hl Hw]. destruct ix as [[s es]|]; cbn [build].
    - specialize (Hw s es eq_refl).
      set (n := length cs) in *.
      set (post_start := s + length es).
      set (pe := build_post_end n post_start maxc).
      set (ps := build_pre_start n s post_start maxc).
      change (N.to_nat (N.min (N.min (N.of_nat post_start + maxc) U32MAX) (N.of_nat n))) with pe.
      change (N.to_nat (N.of_nat s -
                (maxc - (N.min (N.min (N.of_nat post_start + maxc) U32MAX) (N.of_nat n)
                         - N.of_nat post_start)))) with ps.
      assert (Hpe : post_start <= pe <= n).
      { unfold pe, build_post_end, post_start. unfold U32MAX in *. lia. }
      assert (Hps : ps <= s) by (unfold ps, build_pre_start; lia).
      assert (L1 : length (map (changed_paths np) (slice ps s cs)) = s - ps)
        by (apply cps_length; lia).
      assert (L3 : length (map (changed_paths np) (slice post_start pe cs)) = pe - post_start)
        by (apply cps_length; lia).
      split.
      + intros pos paths H. apply cp_lookup_some in H. destruct H as [Hs Hn].
        destruct (Nat.lt_ge_cases (pos - ps) (s - ps)) as [H1|H1].
        * (* pre range *)
          rewrite nth_error_app_l in Hn by lia. rewrite cps_nth in Hn by assumption.
          replace (ps + (pos - ps)) with pos in Hn by lia.
          destruct (nth_error cs pos) as [c0|]; [|discriminate]. inversion Hn. eauto.
        * rewrite nth_error_app_r in Hn by lia. rewrite L1 in Hn.
          destruct (Nat.lt_ge_cases (pos - ps - (s - ps)) (length es)) as [H2|H2].
          -- (* previously indexed *)
             rewrite nth_error_app_l in Hn by assumption.
             apply (Hl pos paths). apply cp_lookup_some. split; [lia|].
             replace (pos - s) with (pos - ps - (s - ps)) by lia. exact Hn.
          -- (* post range *)
             rewrite nth_error_app_r in Hn by assumption.
             assert (Hi : pos - ps - (s - ps) - length es < pe - post_start).
             { rewrite <- L3. apply nth_error_Some. congruence. }
             rewrite cps_nth in Hn by assumption.
             replace (post_start + (pos - ps - (s - ps) - length es)) with pos in Hn
               by (unfold post_start in *; lia).
             destruct (nth_error cs pos) as [c0|]; [|discriminate]. inversion Hn. eauto.
      + intros s' es' H. inversion H; subst. rewrite !app_length, L1, L3.
        unfold post_start in *. lia.
    - set (n := length cs) in *. set (ps := N.to_nat (N.of_nat n - maxc)).
      assert (Hps : ps <= n) by (unfold ps; lia).
      assert (L1 : length (map (changed_paths np) (slice ps n cs)) = n - ps)
        by (apply cps_length; lia).
      split.
      + intros pos paths H. apply cp_lookup_some in H. destruct H as [Hs Hn].
        assert (Hi : pos - ps < n - ps).
        { rewrite <- L1. apply nth_error_Some. congruence. }
        rewrite cps_nth in Hn by assumption. replace (ps + (pos - ps)) with pos in Hn by lia.
        destruct (nth_error cs pos) as [c0|]; [|discriminate]. inversion Hn. eauto.
      + intros s' es' H. inversion H; subst. rewrite L1. lia.
  Qed.

  (** With [max_commits >= number of commits] the whole history gets indexed. *)
  Lemma build_all cs ix maxc : (N.of_nat (length cs) <= U32MAX)%N ->
    (N.of_nat (length cs) <= maxc)%N -> exact cs ix ->
    exists es, build np cs ix maxc = Some (0, es) /\ length es = length cs.
  Proof.
    intros Hsmall Hmax [Hl Hw]. destruct ix as [[s es]|]; cbn [build].
    - specialize (Hw s es eq_refl).
      set (n := length cs) in *. set (post_start := s + length es).
      set (pe := build_post_end n post_start maxc).
      set (ps := build_pre_start n s post_start maxc).
      change (N.to_nat (N.min (N.min (N.of_nat post_start + maxc) U32MAX) (N.of_nat n))) with pe.
      change (N.to_nat (N.of_nat s -
                (maxc - (N.min (N.min (N.of_nat post_start + maxc) U32MAX) (N.of_nat n)
                         - N.of_nat post_start)))) with ps.
      assert (Hpe : pe = n) by (unfold pe, build_post_end, post_start, U32MAX in *; lia).
      assert (Hps : ps = 0) by (unfold ps, build_pre_start, post_start, U32MAX in *; lia).
      rewrite Hps, Hpe. eexists. split; [reflexivity|].
      rewrite !app_length, !cps_length by (unfold post_start; lia). unfold post_start. lia.
    - set (n := length cs) in *.
      replace (N.to_nat (N.of_nat n - maxc)) with 0 by lia.
      eexists. split; [reflexivity|]. rewrite cps_length by lia. lia.
  Qed.

  Lemma run_step_exact st s : (N.of_nat (length (fst st)) < U32MAX)%N ->
    exact (fst st) (snd st) -> exact (fst (run_step np st s)) (snd (run_step np st s)).
  Proof.
    destruct st as [cs ix]. cbn [fst snd]. intros Hsmall He. destruct s; cbn [run_step fst snd].
    - now apply add_commit_exact.
    - apply build_exact; auto. lia.
  Qed.

  Lemma run_step_length st s :
    length (fst (run_step np st s)) <= S (length (fst st)).
  Proof. destruct st as [cs ix]. destruct s; cbn; [rewrite app_length; cbn; lia|lia]. Qed.

  Lemma fold_run_exact steps : forall st,
    (N.of_nat (length (fst st) + length steps) < U32MAX)%N ->
    exact (fst st) (snd st) ->
    exact (fst (fold_left (run_step np) steps st)) (snd (fold_left (run_step np) steps st)).
  Proof.
    induction steps as [|s t IH]; intros st Hsmall He; cbn [fold_left]; auto.
    apply IH.
    - assert (Hl := run_step_length st s). cbn [length] in Hsmall. lia.
    - apply run_step_exact; auto. cbn [length] in Hsmall. lia.
  Qed.

  (** After any history of commits and (re)builds, every stored set is exact. *)
  Theorem run_exact steps : (N.of_nat (length steps) < U32MAX)%N ->
    exact (fst (run np steps)) (snd (run np steps)).
  Proof. intros H. unfold run. apply fold_run_exact; [exact H|apply exact_null]. Qed.

  (** Hence [files(m)] gives the same answer with the index as without it, for every
      matcher and every commit. *)
  Theorem files_equiv cs ix m pos c : exact cs ix -> nth_error cs pos = Some c ->
    files_pred np m ix pos c = pred_diff np m c.
  Proof.
    intros [Hl _] Hc. unfold files_pred. destruct (cp_lookup ix pos) as [paths|] eqn:E; auto.
    destruct (Hl pos paths E) as [c0 [Hc0 ->]]. assert (c0 = c) by congruence. subst.
    apply pred_equiv.
  Qed.
End Inv.

(* ------------------------------------------------------------------ concurrent operations *)

Section Fork.
  Variable np : nat.

  Lemma while_some_nth {A} (l : list (option A)) : forall j x,
    nth_error (while_some l) j = Some x -> nth_error l j = Some (Some x).
  Proof.
    induction l as [|[a|] t IH]; intros [|j] x H; cbn in *; try discriminate; auto.
    inversion H. reflexivity.
  Qed.
  Lemma while_some_length {A} (l : list (option A)) : length (while_some l) <= length l.
  Proof. induction l as [|[a|] t IH]; cbn; lia. Qed.

  Lemma exact_extend cs ix X : exact np cs ix -> exact np (cs ++ X) ix.
  Proof.
    intros [Hl Hw]. split.
    - intros pos paths H. destruct (Hl pos paths H) as [c [Hc Hp]]. exists c. split; auto.
      rewrite nth_error_app_l; auto. apply nth_error_Some. congruence.
    - intros s es H. specialize (Hw s es H). rewrite app_length. lia.
  Qed.

  Lemma merge_in_exact cs0 A B ix1 ix2 :
    exact np (cs0 ++ A) ix1 -> exact np (cs0 ++ B) ix2 ->
    exact np ((cs0 ++ A) ++ B)
          (merge_in (length (cs0 ++ A)) ix1 (length cs0) ix2 (length B)).
  Proof.
    intros H1 H2. destruct ix1 as [[s es]|]; cbn [merge_in]; [|apply exact_null].
    destruct (Nat.eqb_spec (s + length es) (length (cs0 ++ A))) as [E|E];
      [|now apply exact_extend].
    destruct H1 as [Hl1 Hw1]. destruct H2 as [Hl2 _].
    set (W := while_some (map (fun j => cp_lookup ix2 (length cs0 + j)) (seq 0 (length B)))).
    assert (HW : length W <= length B).
    { unfold W. etransitivity; [apply while_some_length|]. now rewrite map_length, seq_length. }
    split.
    - intros pos paths H. apply cp_lookup_some in H. destruct H as [Hs Hn].
      destruct (Nat.lt_ge_cases (pos - s) (length es)) as [Hlt|Hge].
      + rewrite nth_error_app_l in Hn by assumption.
        destruct (Hl1 pos paths (proj2 (cp_lookup_some s es pos paths) (conj Hs Hn))) as [c [Hc Hp]].
        exists c. split; auto. rewrite nth_error_app_l; auto. apply nth_error_Some. congruence.
      + rewrite nth_error_app_r in Hn by assumption. fold W in Hn.
        set (j := pos - s - length es) in *.
        apply while_some_nth in Hn. rewrite nth_error_map' in Hn.
        destruct (nth_error (seq 0 (length B)) j) as [j'|] eqn:Ej; [|discriminate].
        cbn in Hn. inversion Hn as [Hlk]; clear Hn.
        assert (Hj : j' = j /\ j < length B).
        { assert (Hlt : j < length (seq 0 (length B))) by (apply nth_error_Some; congruence).
          rewrite seq_length in Hlt. split; auto.
          apply nth_error_nth with (d := 0) in Ej. rewrite seq_nth in Ej by assumption. lia. }
        destruct Hj as [-> Hj].
        destruct (Hl2 _ _ Hlk) as [c [Hc Hp]]. exists c. split; auto.
        rewrite nth_error_app_r in Hc by lia. replace (length cs0 + j - length cs0) with j in Hc by lia.
        rewrite nth_error_app_r by lia. replace (pos - length (cs0 ++ A)) with j by (unfold j; lia).
        exact Hc.
    - intros s' es' H. inversion H; subst. fold W. rewrite !app_length in *. lia.
  Qed.

  Lemma fold_run_prefix steps : forall st,
    exists X, fst (fold_left (run_step np) steps st) = fst st ++ X /\ length X <= length steps.
  Proof.
    induction steps as [|s t IH]; intros [cs ix]; cbn [fold_left].
    - exists []. cbn. rewrite app_nil_r. auto.
    - destruct s; cbn [run_step].
      + destruct (IH (cs ++ [c], add_commit np (length cs) ix c)) as [X [HX HL]].
        exists (c :: X). cbn [fst] in *. rewrite HX, <- app_assoc. cbn. split; auto. lia.
      + destruct (IH (cs, build np cs ix maxc)) as [X [HX HL]]. exists X. cbn [fst] in *.
        split; auto. cbn. lia.
  Qed.

  Definition tsize (t : tstep) : nat :=
    match t with TOne _ => 1 | TFork a b => length a + length b end.
  Definition tsizes (l : list tstep) : nat := fold_right (fun t acc => tsize t + acc) 0 l.

  Lemma run_tstep_exact st t : (N.of_nat (length (fst st) + tsize t) < U32MAX)%N ->
    exact np (fst st) (snd st) ->
    exact np (fst (run_tstep np st t)) (snd (run_tstep np st t)) /\
    length (fst (run_tstep np st t)) <= length (fst st) + tsize t.
  Proof.
    intros Hsmall He. destruct t as [s|a b]; cbn [run_tstep tsize] in *.
    - split; [apply run_step_exact; auto; lia|]. assert (Hl := run_step_length np st s). lia.
    - destruct (fold_run_prefix a st) as [A [HA HLA]]. destruct (fold_run_prefix b st) as [B [HB HLB]].
      assert (E1 := fold_run_exact np a st ltac:(lia) He).
      assert (E2 := fold_run_exact np b st ltac:(lia) He).
      destruct (fold_left (run_step np) a st) as [cs1 ix1].
      destruct (fold_left (run_step np) b st) as [cs2 ix2].
      cbn [fst snd] in *. subst cs1 cs2.
      assert (Hsk : skipn (length (fst st)) (fst st ++ B) = B).
      { rewrite skipn_app, skipn_all, Nat.sub_diag. reflexivity. }
      rewrite Hsk. split.
      + now apply merge_in_exact.
      + rewrite !app_length. lia.
  Qed.

  Theorem run_t_exact steps : (N.of_nat (tsizes steps) < U32MAX)%N ->
    exact np (fst (run_t np steps)) (snd (run_t np steps)).
  Proof.
    unfold run_t. intros H.
    assert (Hgen : forall l st, (N.of_nat (length (fst st) + tsizes l) < U32MAX)%N ->
              exact np (fst st) (snd st) ->
              exact np (fst (fold_left (run_tstep np) l st)) (snd (fold_left (run_tstep np) l st))).
    { induction l as [|t l IH]; intros st Hs He; cbn [fold_left]; auto.
      cbn [tsizes fold_right] in Hs. fold (tsizes l) in Hs.
      destruct (run_tstep_exact st t ltac:(lia) He) as [He' Hl']. apply IH; auto. lia. }
    apply Hgen; [exact H|apply exact_null].
  Qed.
End Fork.
