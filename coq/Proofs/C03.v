(** C03: the meaning of the boolean checkers of Model/C03.v. *)
From Coq Require Import Lia Arith Sorted.
From Verif Require Import Base.Prelude Model.Diff Model.C03
     Proofs.DiffBase Proofs.DiffA Proofs.DiffA2 Proofs.DiffA3 Proofs.DiffA4 Proofs.DiffThm.

Lemma side_concat_same x i hs : C03.side_concat x i hs = DiffA.side_concat x i hs.
Proof. induction hs; cbn; congruence. Qed.

Lemma in_combine_seq (inputs : list bytes) i x : forall k,
  In (i, x) (combine (seq k (length inputs)) inputs) ->
  k <= i < k + length inputs /\ x = nth (i - k) inputs [].
Proof.
  induction inputs as [|y l IH]; intros k H; cbn in H; [destruct H|].
  destruct H as [H|H].
  - injection H as -> ->. split; [cbn; lia|]. now rewrite Nat.sub_diag.
  - destruct (IH _ H) as (P1 & P2). split; [cbn; lia|].
    replace (i - k) with (S (i - S k)) by lia. exact P2.
Qed.

Lemma partition_okb_spec inputs hs : partition_okb inputs hs = true <-> Partition inputs hs.
Proof.
  unfold partition_okb, Partition. rewrite Bool.andb_true_iff, !forallb_forall. split.
  - intros (A & B). split.
    + intros h Hh. apply Nat.eqb_eq. now apply A.
    + intros i Hi. specialize (B (i, nth i inputs [])). cbn [fst snd] in B.
      rewrite <- side_concat_same. apply bytes_eqb_spec. apply B.
      clear - Hi. replace i with (0 + i) at 1 by lia. generalize 0 as k.
      revert i Hi. induction inputs as [|x l IH]; intros i Hi k; cbn in Hi; [lia|].
      cbn [length seq combine]. destruct i as [|i]; cbn [nth].
      * left. f_equal. lia.
      * right. replace (k + S i) with (S k + i) by lia. apply IH. lia.
  - intros (A & B). split.
    + intros h Hh. apply Nat.eqb_eq. now apply A.
    + intros (i, x) Hin. cbn [fst snd].
      assert (Hi : i < length inputs /\ x = nth i inputs []).
      { destruct (in_combine_seq inputs i x 0 Hin) as (Q1 & Q2). rewrite Nat.sub_0_r in Q2. split; [lia|assumption]. }
      destruct Hi as (Hi & ->). apply bytes_eqb_spec. rewrite side_concat_same. now apply B.
Qed.

Lemma nonempty_okb_spec inputs hs : nonempty_okb inputs hs = true <-> NoEmptyHunk inputs hs.
Proof.
  unfold nonempty_okb, NoEmptyHunk. rewrite forallb_forall. split; intros H h Hh; specialize (H h Hh).
  - apply existsb_exists in H. destruct H as (x & Hx & Hn). exists x. split; [assumption|].
    destruct x; [discriminate|discriminate].
  - destruct H as (x & Hx & Hn). apply existsb_exists. exists x. split; [assumption|].
    destruct x; [congruence|reflexivity].
Qed.

Lemma alternate_okb_spec hs : alternate_okb hs = true <-> alternate hs.
Proof.
  induction hs as [|h1 t IH]; [cbn; tauto|]. destruct t as [|h2 t']; [cbn; tauto|].
  change (alternate_okb (h1 :: h2 :: t')) with
      (negb (Bool.eqb (fst h1) (fst h2)) && alternate_okb (h2 :: t')).
  change (alternate (h1 :: h2 :: t')) with (fst h1 <> fst h2 /\ alternate (h2 :: t')).
  rewrite Bool.andb_true_iff, IH, Bool.negb_true_iff. split; intros (A & B); split; auto.
  - intros E. rewrite E, Bool.eqb_reflx in A. discriminate.
  - destruct (Bool.eqb (fst h1) (fst h2)) eqn:E; [|reflexivity]. apply Bool.eqb_prop in E. contradiction.
Qed.

Lemma matching_okb_spec c inputs hs : matching_okb c inputs hs = true <-> MatchingEq c inputs hs.
Proof.
  unfold matching_okb, MatchingEq. rewrite forallb_forall. split.
  - intros H h Hh Hk x y Hx Hy. specialize (H h Hh). rewrite Hk in H. cbn [negb orb] in H.
    destruct (contents inputs (snd h)) as [|x0 t]; [destruct Hx|].
    rewrite forallb_forall in H.
    assert (Q : forall z, In z (x0 :: t) -> norm c z = norm c x0).
    { intros z [->|Hz]; [reflexivity|]. apply bytes_eqb_spec. now apply H. }
    now rewrite (Q x Hx), (Q y Hy).
  - intros H h Hh. destruct (fst h) eqn:Hk; [|reflexivity]. cbn [negb orb].
    destruct (contents inputs (snd h)) as [|x0 t] eqn:E; [reflexivity|].
    apply forallb_forall. intros y Hy. apply bytes_eqb_spec. apply (H h Hh Hk); rewrite E; cbn; auto.
Qed.

Lemma cmp_eqb_spec (a b : comparator) :
  match a, b with CmpExact, CmpExact | CmpWsAll, CmpWsAll | CmpWsAmount, CmpWsAmount => true | _, _ => false end = true
  <-> a = b.
Proof. destruct a, b; split; congruence. Qed.

Lemma uniform_cmp_spec s c : uniform_cmp s = Some c <-> s <> [] /\ Forall (fun tc => snd tc = c) s.
Proof.
  destruct s as [|[t c0] rest]; cbn [uniform_cmp].
  - split; [discriminate|intros ([] & _); reflexivity].
  - destruct (forallb _ rest) eqn:E.
    + rewrite forallb_forall in E. split.
      * intros H. injection H as ->. split; [discriminate|]. constructor; [reflexivity|].
        apply Forall_forall. intros tc Htc. apply cmp_eqb_spec. now apply E.
      * intros (_ & H). inversion H; subst. reflexivity.
    + split; [discriminate|]. intros (_ & H). inversion H as [|? ? H1 H2]; subst. cbn [snd] in *.
      assert (forallb (fun tc : tokenizer * comparator =>
                match snd tc, snd (t, c0) with
                | CmpExact, CmpExact | CmpWsAll, CmpWsAll | CmpWsAmount, CmpWsAmount => true
                | _, _ => false end) rest = true) as Q.
      { apply forallb_forall. intros tc Htc. apply cmp_eqb_spec. rewrite Forall_forall in H2. now apply H2. }
      cbn [snd] in Q. congruence.
Qed.

Lemma hunks_okb_spec s inputs hs : hunks_okb s inputs hs = true <-> Hunks_ok s inputs hs.
Proof.
  unfold hunks_okb, Hunks_ok.
  rewrite !Bool.andb_true_iff, partition_okb_spec, nonempty_okb_spec, alternate_okb_spec.
  destruct (uniform_cmp s) as [c|] eqn:E.
  - apply uniform_cmp_spec in E. destruct E as (E1 & E2). rewrite matching_okb_spec. split.
    + intros (((A & B) & C) & D). split; [exact A|]. split; [exact B|]. split; [exact C|].
      intros c' _ Hc'. assert (c' = c); [|now subst].
      destruct s as [|tc s']; [congruence|]. inversion Hc'; inversion E2; congruence.
    + intros (A & B & C & D). split; [|now apply D]. split; [|exact C]. split; assumption.
  - split.
    + intros (((A & B) & C) & _). split; [exact A|]. split; [exact B|]. split; [exact C|].
      intros c Hs Hc. assert (uniform_cmp s = Some c) by (apply uniform_cmp_spec; auto). congruence.
    + intros (A & B & C & _). split; [|reflexivity]. split; [|exact C]. split; assumption.
Qed.

Definition Matchings_ok (s : steps) (inputs : list bytes) (ms : list (list (nat * nat))) : Prop :=
  match first_step_words s inputs with
  | [] => True
  | bw :: ows =>
      length ms = length ows
      /\ forall k ow m, nth_error ows k = Some ow -> nth_error ms k = Some m ->
                        valid_matching (length bw) (length ow) m /\ eq_matching bw ow m
  end.

Lemma eq_matchingb_spec (lw rw : list bytes) m :
  valid_matching (length lw) (length rw) m ->
  (eq_matchingb bytes_eqb lw rw m = true <-> eq_matching lw rw m).
Proof.
  intros (R & _). unfold eq_matchingb, eq_matching. rewrite forallb_forall, Forall_forall.
  rewrite Forall_forall in R. split; intros H p Hp; specialize (H p Hp); specialize (R p Hp);
    destruct R as (R1 & R2).
  - destruct (nth_error lw (fst p)) as [a|] eqn:Ea; [|discriminate].
    destruct (nth_error rw (snd p)) as [b|] eqn:Eb; [|discriminate].
    apply bytes_eqb_spec in H. subst b.
    apply (nth_error_nth _ _ (@nil N)) in Ea, Eb. unfold bytes in *. congruence.
  - destruct (nth_error lw (fst p)) as [a|] eqn:Ea; [|apply nth_error_None in Ea; lia].
    destruct (nth_error rw (snd p)) as [b|] eqn:Eb; [|apply nth_error_None in Eb; lia].
    apply bytes_eqb_spec. apply (nth_error_nth _ _ (@nil N)) in Ea, Eb. unfold bytes in *. congruence.
Qed.

Lemma matching_validb_spec (lw rw : list bytes) m :
  matching_validb bytes_eqb lw rw m = true
  <-> valid_matching (length lw) (length rw) m /\ eq_matching lw rw m.
Proof.
  unfold matching_validb. rewrite Bool.andb_true_iff, valid_matchingb_spec. split.
  - intros (A & B). split; [assumption|]. now apply eq_matchingb_spec.
  - intros (A & B). split; [assumption|]. now apply eq_matchingb_spec.
Qed.

Lemma forallb_combine_nth {A B} (f : A * B -> bool) la lb :
  length lb = length la ->
  (forallb f (combine la lb) = true <->
   forall k a b, nth_error la k = Some a -> nth_error lb k = Some b -> f (a, b) = true).
Proof.
  revert lb; induction la as [|x la IH]; intros [|y lb] L; cbn in L; try discriminate.
  - cbn. split; [intros _ [|k] ? ? H; discriminate H|reflexivity].
  - cbn [combine forallb]. rewrite Bool.andb_true_iff, IH by lia. split.
    + intros (A1 & A2) [|k] a b Ha Hb; cbn in Ha, Hb; [congruence|eauto].
    + intros H. split; [apply (H 0); reflexivity|]. intros k a b Ha Hb. apply (H (S k)); assumption.
Qed.

Lemma matchings_okb_spec s inputs (ms : list (list (nat * nat))) :
  match first_step_words s inputs with
  | [] => true
  | bw :: ows =>
      (length ms =? length ows)
      && forallb (fun wm => matching_validb bytes_eqb bw (fst wm) (snd wm)) (combine ows ms)
  end = true <-> Matchings_ok s inputs ms.
Proof.
  unfold Matchings_ok. destruct (first_step_words s inputs) as [|bw ows]; [tauto|].
  rewrite Bool.andb_true_iff, Nat.eqb_eq. split.
  - intros (L & F). split; [assumption|]. rewrite forallb_combine_nth in F by assumption.
    intros k ow m Ho Hm. apply matching_validb_spec. apply (F k ow m Ho Hm).
  - intros (L & F). split; [assumption|]. apply forallb_combine_nth; [assumption|].
    intros k ow m Ho Hm. apply matching_validb_spec. apply (F k ow m Ho Hm).
Qed.

(** The meaning of [C03.okb] on a full-diff case. *)
Lemma okb_diff_spec inputs cfg ih im same panicked :
  okb (DiffCase inputs cfg ih im same panicked) = true <->
  panicked = false /\ same = true
  /\ Hunks_ok (steps_of cfg) inputs (hunks_of ih)
  /\ Matchings_ok (steps_of cfg) inputs (map nat_pairs im).
Proof.
  cbn [okb]. rewrite !Bool.andb_true_iff, Bool.negb_true_iff, hunks_okb_spec.
  rewrite <- matchings_okb_spec.
  assert (E : match first_step_words (steps_of cfg) inputs with
              | [] => true
              | bw :: ows =>
                  (length im =? length ows)
                  && forallb (fun wm => matching_validb bytes_eqb bw (fst wm) (nat_pairs (snd wm)))
                             (combine ows im)
              end =
              match first_step_words (steps_of cfg) inputs with
              | [] => true
              | bw :: ows =>
                  (length (map nat_pairs im) =? length ows)
                  && forallb (fun wm => matching_validb bytes_eqb bw (fst wm) (snd wm))
                             (combine ows (map nat_pairs im))
              end).
  { destruct (first_step_words (steps_of cfg) inputs) as [|bw ows]; [reflexivity|].
    rewrite map_length. f_equal. clear. revert im. induction ows as [|o ows IH]; intros [|m im]; cbn; auto.
    now rewrite IH. }
  rewrite E. tauto.
Qed.

(** The model's own output passes the checker (for every valid, token-equal matching). *)
Lemma model_passes_checker M :
  (forall a b, valid_matching (length a) (length b) (M a b)) ->
  (forall a b, eq_matching a b (M a b)) ->
  forall s inputs, inputs <> [] -> s <> [] ->
  hunks_okb s inputs (hunks (run_steps M s inputs)) = true.
Proof. intros V E s inputs Hi Hs. apply hunks_okb_spec. now apply hunks_ok_thm. Qed.

(** * Meaning of [C03.okb] on the bare matching and LCS cases *)
Lemma matching_validb_gen_spec {T} (eqb : T -> T -> bool) (lw rw : list T) m :
  matching_validb eqb lw rw m = true <->
  valid_matching (length lw) (length rw) m
  /\ Forall (fun p => exists a b, nth_error lw (fst p) = Some a /\ nth_error rw (snd p) = Some b
                                  /\ eqb a b = true) m.
Proof.
  unfold matching_validb, eq_matchingb. rewrite Bool.andb_true_iff, valid_matchingb_spec, forallb_forall, Forall_forall.
  split; intros (A & B); (split; [exact A|]); intros p Hp; specialize (B p Hp).
  - destruct (nth_error lw (fst p)) as [a|]; [|discriminate]. destruct (nth_error rw (snd p)) as [b|]; [|discriminate].
    eauto.
  - destruct B as (a & b & -> & -> & E). exact E.
Qed.

Lemma okb_match_spec l r im same panicked :
  okb (MatchCase l r im same panicked) = true <->
  panicked = false /\ same = true
  /\ valid_matching (length l) (length r) (nat_pairs im)
  /\ Forall (fun p => exists a, nth_error l (fst p) = Some a /\ nth_error r (snd p) = Some a) (nat_pairs im).
Proof.
  cbn [okb]. rewrite !Bool.andb_true_iff, Bool.negb_true_iff, matching_validb_gen_spec. split.
  - intros ((A & B) & C & D). split; [exact A|]. split; [exact B|]. split; [exact C|].
    eapply Forall_impl; [|exact D].
    intros p (a & b & Ha & Hb & E). apply N.eqb_eq in E. subst b. eauto.
  - intros (A & B & C & D). split; [split; assumption|]. split; [exact C|].
    eapply Forall_impl; [|exact D].
    intros p (a & Ha & Hb). exists a, a. split; [exact Ha|]. split; [exact Hb|]. apply N.eqb_refl.
Qed.

Lemma okb_lcs_spec input res panicked :
  okb (LcsCase input res panicked) = true <->
  panicked = false
  /\ StronglySorted lt2 (nat_pairs res)
  /\ (forall q, In q (nat_pairs res) -> nth_error (map N.to_nat input) (snd q) = Some (fst q))
  /\ (input <> [] -> res <> []).
Proof.
  cbn [okb]. unfold lcs_validb.
  rewrite !Bool.andb_true_iff, Bool.negb_true_iff, incrb_sorted, forallb_forall, Bool.orb_true_iff, Bool.negb_true_iff.
  split.
  - intros ((A & B & C) & D). repeat split; auto.
    + intros q Hq. specialize (C q Hq). destruct (nth_error (map N.to_nat input) (snd q)) as [l|]; [|discriminate].
      apply Nat.eqb_eq in C. now subst.
    + intros Hi. destruct D as [D|D]; [destruct input; [congruence|discriminate]|]. destruct res; [discriminate|discriminate].
  - intros (A & B & C & D). repeat split; auto.
    + intros q Hq. rewrite (C q Hq). apply Nat.eqb_refl.
    + destruct input as [|x t]; [now left|right]. destruct res; [exfalso; apply D; [discriminate|reflexivity]|reflexivity].
Qed.

(** * The memoised matching used by the correspondence check is [M_hist] *)
Lemma words_eqb_spec (a b : list bytes) : words_eqb a b = true <-> a = b.
Proof.
  unfold words_eqb. revert b; induction a as [|x a IH]; intros [|y b]; cbn; try (split; congruence).
  rewrite Bool.andb_true_iff, bytes_eqb_spec, IH. split; [intros (-> & ->); reflexivity|intros E; injection E; auto].
Qed.

Lemma M_memo_correct table :
  (forall e, In e table -> snd e = M_hist (fst (fst e)) (snd (fst e))) ->
  forall a b, M_memo table a b = M_hist a b.
Proof.
  intros H a b. unfold M_memo.
  destruct (find _ table) as [e|] eqn:F; [|reflexivity].
  apply find_some in F. destruct F as (Hin & E). apply Bool.andb_true_iff in E.
  destruct E as (E1 & E2). apply words_eqb_spec in E1, E2. rewrite (H e Hin). now subst.
Qed.

Lemma memo_table_ok bw ows :
  forall e, In e (map (fun om => (bw, fst om, snd om)) (combine ows (map (M_hist bw) ows))) ->
            snd e = M_hist (fst (fst e)) (snd (fst e)).
Proof.
  intros e He. apply in_map_iff in He. destruct He as ((o & m) & <- & Hin). cbn [fst snd].
  clear - Hin. revert Hin. induction ows as [|x t IH]; cbn; [tauto|].
  intros [H|H]; [injection H as <- <-; reflexivity|now apply IH].
Qed.
