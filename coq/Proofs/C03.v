(** C03: the hunk-level statements, for every valid matching function (Layer A), and the
    meaning of the boolean checker [C03.hunks_okb]. *)
From Coq Require Import Lia Arith Sorted.
From Verif Require Import Base.Prelude Model.Diff Model.C03
     Proofs.DiffBase Proofs.DiffA Proofs.DiffA2 Proofs.DiffA3 Proofs.DiffA4.

(** What the property says about a list of hunks for given inputs. *)
Definition Partition (inputs : list bytes) (hs : list hunk) : Prop :=
  (forall h, In h hs -> length (snd h) = length inputs)
  /\ forall i, i < length inputs -> DiffA.side_concat (nth i inputs []) i hs = nth i inputs [].
Definition NoEmptyHunk (inputs : list bytes) (hs : list hunk) : Prop :=
  forall h, In h hs -> exists x, In x (contents inputs (snd h)) /\ x <> [].
Definition MatchingEq (c : comparator) (inputs : list bytes) (hs : list hunk) : Prop :=
  forall h, In h hs -> fst h = true ->
  forall x y, In x (contents inputs (snd h)) -> In y (contents inputs (snd h)) -> norm c x = norm c y.

Lemma side_concat_same x i hs : C03.side_concat x i hs = DiffA.side_concat x i hs.
Proof. induction hs; cbn; congruence. Qed.

Lemma bytes_eqb_spec (a b : bytes) : bytes_eqb a b = true <-> a = b.
Proof.
  unfold bytes_eqb. revert b; induction a as [|x a IH]; intros [|y b]; cbn; try (split; congruence).
  rewrite Bool.andb_true_iff, N.eqb_eq, IH. split; [intros (-> & ->); reflexivity|intros E; injection E; auto].
Qed.

Lemma in_combine_seq (inputs : list bytes) i x : forall k,
  In (i, x) (combine (seq k (length inputs)) inputs) ->
  k <= i < k + length inputs /\ x = nth (i - k) inputs [].
Proof.
  induction inputs as [|y l IH]; intros k H; cbn in H; [destruct H|].
  destruct H as [H|H].
  - injection H as -> ->. split; [cbn; lia|]. now rewrite Nat.sub_diag.
  - destruct (IH _ H) as (P1 & P2). split; [cbn; lia|].
    replace (i - k) with (S (i - S k)) by lia. exact P2.
Qed.

Lemma partition_okb_spec inputs hs : partition_okb inputs hs = true <-> Partition inputs hs.
Proof.
  unfold partition_okb, Partition. rewrite Bool.andb_true_iff, !forallb_forall. split.
  - intros (A & B). split.
    + intros h Hh. apply Nat.eqb_eq. now apply A.
    + intros i Hi. specialize (B (i, nth i inputs [])). cbn [fst snd] in B.
      rewrite <- side_concat_same. apply bytes_eqb_spec. apply B.
      clear - Hi. replace i with (0 + i) at 1 by lia. generalize 0 as k.
      revert i Hi. induction inputs as [|x l IH]; intros i Hi k; cbn in Hi; [lia|].
      cbn [length seq combine]. destruct i as [|i]; cbn [nth].
      * left. f_equal. lia.
      * right. replace (k + S i) with (S k + i) by lia. apply IH. lia.
  - intros (A & B). split.
    + intros h Hh. apply Nat.eqb_eq. now apply A.
    + intros (i, x) Hin. cbn [fst snd].
      assert (Hi : i < length inputs /\ x = nth i inputs []).
      { destruct (in_combine_seq inputs i x 0 Hin) as (Q1 & Q2). rewrite Nat.sub_0_r in Q2. split; [lia|assumption]. }
      destruct Hi as (Hi & ->). apply bytes_eqb_spec. rewrite side_concat_same. now apply B.
Qed.

Lemma all_emptyb_false_iff r : all_emptyb r = false <-> exists rg, In rg r /\ fst rg <> snd rg.
Proof.
  unfold all_emptyb. induction r as [|p r IH]; cbn [forallb].
  - split; [discriminate|intros (rg & [] & _)].
  - rewrite Bool.andb_false_iff, Nat.eqb_neq, IH. split.
    + intros [H|(rg & A & B)]; [exists p; split; [now left|assumption]|exists rg; split; [now right|assumption]].
    + intros (rg & [->|A] & B); [now left|right; eauto].
Qed.

Lemma nonempty_okb_spec inputs hs : nonempty_okb inputs hs = true <-> NoEmptyHunk inputs hs.
Proof.
  unfold nonempty_okb, NoEmptyHunk. rewrite forallb_forall. split; intros H h Hh; specialize (H h Hh).
  - apply existsb_exists in H. destruct H as (x & Hx & Hn). exists x. split; [assumption|].
    destruct x; [discriminate|discriminate].
  - destruct H as (x & Hx & Hn). apply existsb_exists. exists x. split; [assumption|].
    destruct x; [congruence|reflexivity].
Qed.

Lemma alternate_okb_spec hs : alternate_okb hs = true <-> alternate hs.
Proof.
  induction hs as [|h1 t IH]; [cbn; tauto|]. destruct t as [|h2 t']; [cbn; tauto|].
  change (alternate_okb (h1 :: h2 :: t')) with
      (negb (Bool.eqb (fst h1) (fst h2)) && alternate_okb (h2 :: t')).
  change (alternate (h1 :: h2 :: t')) with (fst h1 <> fst h2 /\ alternate (h2 :: t')).
  rewrite Bool.andb_true_iff, IH, Bool.negb_true_iff. split; intros (A & B); split; auto.
  - intros E. rewrite E, Bool.eqb_reflx in A. discriminate.
  - destruct (Bool.eqb (fst h1) (fst h2)) eqn:E; [|reflexivity]. apply Bool.eqb_prop in E. contradiction.
Qed.

Lemma matching_okb_spec c inputs hs : matching_okb c inputs hs = true <-> MatchingEq c inputs hs.
Proof.
  unfold matching_okb, MatchingEq. rewrite forallb_forall. split.
  - intros H h Hh Hk x y Hx Hy. specialize (H h Hh). rewrite Hk in H. cbn [negb orb] in H.
    destruct (contents inputs (snd h)) as [|x0 t]; [destruct Hx|].
    rewrite forallb_forall in H.
    assert (Q : forall z, In z (x0 :: t) -> norm c z = norm c x0).
    { intros z [->|Hz]; [reflexivity|]. apply bytes_eqb_spec. now apply H. }
    now rewrite (Q x Hx), (Q y Hy).
  - intros H h Hh. destruct (fst h) eqn:Hk; [|reflexivity]. cbn [negb orb].
    destruct (contents inputs (snd h)) as [|x0 t] eqn:E; [reflexivity|].
    apply forallb_forall. intros y Hy. apply bytes_eqb_spec. apply (H h Hh Hk); rewrite E; cbn; auto.
Qed.

Lemma cmp_eqb_spec (a b : comparator) :
  match a, b with CmpExact, CmpExact | CmpWsAll, CmpWsAll | CmpWsAmount, CmpWsAmount => true | _, _ => false end = true
  <-> a = b.
Proof. destruct a, b; split; congruence. Qed.

Lemma uniform_cmp_spec s c : uniform_cmp s = Some c <-> s <> [] /\ Forall (fun tc => snd tc = c) s.
Proof.
  destruct s as [|[t c0] rest]; cbn [uniform_cmp].
  - split; [discriminate|intros ([] & _); reflexivity].
  - destruct (forallb _ rest) eqn:E.
    + rewrite forallb_forall in E. split.
      * intros H. injection H as ->. split; [discriminate|]. constructor; [reflexivity|].
        apply Forall_forall. intros tc Htc. apply cmp_eqb_spec. now apply E.
      * intros (_ & H). inversion H; subst. reflexivity.
    + split; [discriminate|]. intros (_ & H). inversion H as [|? ? H1 H2]; subst. cbn [snd] in *.
      assert (forallb (fun tc : tokenizer * comparator =>
                match snd tc, snd (t, c0) with
                | CmpExact, CmpExact | CmpWsAll, CmpWsAll | CmpWsAmount, CmpWsAmount => true
                | _, _ => false end) rest = true) as Q.
      { apply forallb_forall. intros tc Htc. apply cmp_eqb_spec. rewrite Forall_forall in H2. now apply H2. }
      cbn [snd] in Q. congruence.
Qed.

(** The meaning of the checker run on the implementation's hunks. *)
Definition Hunks_ok (s : steps) (inputs : list bytes) (hs : list hunk) : Prop :=
  Partition inputs hs /\ NoEmptyHunk inputs hs /\ alternate hs
  /\ forall c, s <> [] -> Forall (fun tc => snd tc = c) s -> MatchingEq c inputs hs.

Lemma hunks_okb_spec s inputs hs : hunks_okb s inputs hs = true <-> Hunks_ok s inputs hs.
Proof.
  unfold hunks_okb, Hunks_ok.
  rewrite !Bool.andb_true_iff, partition_okb_spec, nonempty_okb_spec, alternate_okb_spec.
  destruct (uniform_cmp s) as [c|] eqn:E.
  - apply uniform_cmp_spec in E. destruct E as (E1 & E2). rewrite matching_okb_spec. split.
    + intros (((A & B) & C) & D). split; [exact A|]. split; [exact B|]. split; [exact C|].
      intros c' _ Hc'. assert (c' = c); [|now subst].
      destruct s as [|tc s']; [congruence|]. inversion Hc'; inversion E2; congruence.
    + intros (A & B & C & D). split; [|now apply D]. split; [|exact C]. split; assumption.
  - split.
    + intros (((A & B) & C) & _). split; [exact A|]. split; [exact B|]. split; [exact C|].
      intros c Hs Hc. assert (uniform_cmp s = Some c) by (apply uniform_cmp_spec; auto). congruence.
    + intros (A & B & C & _). split; [|reflexivity]. split; [|exact C]. split; assumption.
Qed.

(** * The theorems on the model, for every valid matching function *)
Section LayerA.
  Variable M : list bytes -> list bytes -> list (nat * nat).
  Hypothesis M_valid : forall a b, valid_matching (length a) (length b) (M a b).

  Definition model_hunks (s : steps) (inputs : list bytes) : list hunk := hunks (run_steps M s inputs).

  Lemma good_lengths inputs l : good inputs l -> Forall (fun r => length r = length inputs) l.
  Proof.
    intros (S & _). apply span_lengths in S. eapply Forall_impl; [|exact S]. cbn.
    intros r ->. unfold zeros_of. apply map_length.
  Qed.

  Lemma hunks_from_lengths n : forall l prev,
    length prev = n -> Forall (fun r => length r = n) l ->
    forall h, In h (hunks_from prev l) -> length (snd h) = n.
  Proof.
    induction l as [|cur t IH]; intros prev Hp Hl h Hh; cbn [hunks_from] in Hh; [destruct Hh|].
    inversion Hl; subst. destruct Hh as [<-|Hh].
    - cbn [snd]. rewrite between_length; congruence.
    - apply in_app_or in Hh. destruct Hh as [Hh|Hh].
      + destruct (all_emptyb cur); [destruct Hh|]. destruct Hh as [<-|[]]. cbn [snd]. congruence.
      + eapply IH; eauto.
  Qed.

  Lemma hunks_lengths n l : Forall (fun r => length r = n) l ->
    forall h, In h (hunks l) -> length (snd h) = n.
  Proof.
    destruct l as [|u0 rest]; intros Hl h Hh; [destruct Hh|]. inversion Hl; subst.
    cbn [hunks] in Hh. apply in_app_or in Hh. destruct Hh as [Hh|Hh].
    - destruct (all_emptyb u0); [destruct Hh|]. destruct Hh as [<-|[]]. cbn [snd]. congruence.
    - eapply hunks_from_lengths; eauto.
  Qed.

  Theorem partition_thm s inputs :
    inputs <> [] -> s <> [] -> Partition inputs (model_hunks s inputs).
  Proof.
    intros Hi Hs. pose proof (run_steps_good M M_valid s inputs Hi Hs) as Hg. split.
    - apply hunks_lengths. now apply good_lengths.
    - intros i Hlt. apply side_concat_hunks; [|assumption]. apply Hg.
  Qed.

  Theorem no_empty_hunk_thm s inputs :
    inputs <> [] -> s <> [] -> NoEmptyHunk inputs (model_hunks s inputs).
  Proof.
    intros Hi Hs. pose proof (run_steps_good M M_valid s inputs Hi Hs) as Hg.
    pose proof (good_lengths _ _ Hg) as HL. destruct Hg as (S & N & _).
    unfold model_hunks. intros h Hh.
    assert (Q : Forall (fun h => all_emptyb (snd h) = false) (hunks (run_steps M s inputs))).
    { apply hunks_nonempty. destruct (run_steps M s inputs) as [|u0 rest]; [exact I|].
      destruct S as (_ & C & _). auto. }
    pose proof (hunks_bounded _ _ _ S) as Bd.
    rewrite Forall_forall in Q, Bd. destruct (Bd h Hh) as (W & B).
    apply contents_nonempty; auto. eapply hunks_lengths; eauto.
  Qed.

  Theorem alternate_thm s inputs :
    inputs <> [] -> s <> [] -> alternate (model_hunks s inputs).
  Proof.
    intros Hi Hs. destruct (run_steps_good M M_valid s inputs Hi Hs) as (_ & _ & Mo).
    now apply hunks_alternate.
  Qed.

  Hypothesis M_eq : forall a b, eq_matching a b (M a b).

  Lemma hunks_from_matching (Q : region -> Prop) : forall l prev,
    Forall Q l -> forall h, In h (hunks_from prev l) -> fst h = true -> Q (snd h).
  Proof.
    induction l as [|cur t IH]; intros prev Hl h Hh Hk; cbn [hunks_from] in Hh; [destruct Hh|].
    inversion Hl; subst. destruct Hh as [<-|Hh]; [discriminate|].
    apply in_app_or in Hh. destruct Hh as [Hh|Hh].
    - destruct (all_emptyb cur); [destruct Hh|]. destruct Hh as [<-|[]]. assumption.
    - eapply IH; eauto.
  Qed.

  Theorem matching_eq_thm c s inputs :
    inputs <> [] -> s <> [] -> Forall (fun tc => snd tc = c) s ->
    MatchingEq c inputs (model_hunks s inputs).
  Proof.
    intros Hi Hs Hc. pose proof (run_steps_P M M_valid M_eq c s inputs Hi Hc) as HP.
    unfold model_hunks. intros h Hh Hk.
    assert (R : req c inputs (snd h)).
    { destruct (run_steps M s inputs) as [|u0 rest]; [destruct Hh|]. inversion HP; subst.
      cbn [hunks] in Hh. apply in_app_or in Hh. destruct Hh as [Hh|Hh].
      - destruct (all_emptyb u0); [destruct Hh|]. destruct Hh as [<-|[]]. apply H1.
      - apply (hunks_from_matching (req c inputs) rest u0); auto.
        eapply Forall_impl; [|exact H2]. intros r (_ & _ & R). exact R. }
    unfold req in R. intros x y Hx Hy. destruct (contents inputs (snd h)) as [|x0 t]; [destruct Hx|].
    rewrite Forall_forall in R.
    assert (Q : forall z, In z (x0 :: t) -> norm c z = norm c x0).
    { intros z [->|Hz]; [reflexivity|now apply R]. }
    now rewrite (Q x Hx), (Q y Hy).
  Qed.

  Theorem hunks_ok_thm s inputs :
    inputs <> [] -> s <> [] -> Hunks_ok s inputs (model_hunks s inputs).
  Proof.
    intros Hi Hs. repeat split.
    - apply partition_thm; auto.
    - apply partition_thm; auto.
    - apply no_empty_hunk_thm; auto.
    - apply alternate_thm; auto.
    - intros c _ Hc. apply matching_eq_thm; auto.
  Qed.
End LayerA.

(** * Restatements used by Props/C03.v *)
Lemma side_concat_contents inputs i hs :
  (forall h, In h hs -> length (snd h) = length inputs) -> i < length inputs ->
  DiffA.side_concat (nth i inputs []) i hs
  = concat (map (fun h => nth i (contents inputs (snd h)) []) hs).
Proof.
  intros HL Hi. induction hs as [|h t IH]; [reflexivity|].
  cbn [DiffA.side_concat map concat]. rewrite IH by (intros; apply HL; now right). f_equal.
  unfold contents. symmetry. apply (map2_nth (fun (x : bytes) (rg : nat * nat) => slice x (fst rg) (snd rg)) inputs (snd h) i [] (0, 0) []); [assumption|].
  rewrite HL; [assumption|now left].
Qed.

Lemma alternate_nth hs :
  alternate hs <->
  forall i h1 h2, nth_error hs i = Some h1 -> nth_error hs (S i) = Some h2 -> fst h1 <> fst h2.
Proof.
  induction hs as [|a t IH]; [split; [intros _ [|i] ? ? H; discriminate H|intros _; exact I]|].
  destruct t as [|b t'].
  - split; [|intros _; exact I]. intros _ [|[|i]] h1 h2 H1 H2; discriminate H2.
  - change (alternate (a :: b :: t')) with (fst a <> fst b /\ alternate (b :: t')). rewrite IH. split.
    + intros (A & B) [|i] h1 h2 H1 H2.
      * cbn in H1, H2. congruence.
      * apply (B i); assumption.
    + intros H. split; [apply (H 0); reflexivity|]. intros i h1 h2 H1 H2. apply (H (S i)); assumption.
Qed.

Definition Matchings_ok (s : steps) (inputs : list bytes) (ms : list (list (nat * nat))) : Prop :=
  match first_step_words s inputs with
  | [] => True
  | bw :: ows =>
      length ms = length ows
      /\ forall k ow m, nth_error ows k = Some ow -> nth_error ms k = Some m ->
                        valid_matching (length bw) (length ow) m /\ eq_matching bw ow m
  end.

Lemma eq_matchingb_spec (lw rw : list bytes) m :
  valid_matching (length lw) (length rw) m ->
  (eq_matchingb bytes_eqb lw rw m = true <-> eq_matching lw rw m).
Proof.
  intros (R & _). unfold eq_matchingb, eq_matching. rewrite forallb_forall, Forall_forall.
  rewrite Forall_forall in R. split; intros H p Hp; specialize (H p Hp); specialize (R p Hp);
    destruct R as (R1 & R2).
  - destruct (nth_error lw (fst p)) as [a|] eqn:Ea; [|discriminate].
    destruct (nth_error rw (snd p)) as [b|] eqn:Eb; [|discriminate].
    apply bytes_eqb_spec in H. subst b.
    apply (nth_error_nth _ _ (@nil N)) in Ea, Eb. unfold bytes in *. congruence.
  - destruct (nth_error lw (fst p)) as [a|] eqn:Ea; [|apply nth_error_None in Ea; lia].
    destruct (nth_error rw (snd p)) as [b|] eqn:Eb; [|apply nth_error_None in Eb; lia].
    apply bytes_eqb_spec. apply (nth_error_nth _ _ (@nil N)) in Ea, Eb. unfold bytes in *. congruence.
Qed.

Lemma matching_validb_spec (lw rw : list bytes) m :
  matching_validb bytes_eqb lw rw m = true
  <-> valid_matching (length lw) (length rw) m /\ eq_matching lw rw m.
Proof.
  unfold matching_validb. rewrite Bool.andb_true_iff, valid_matchingb_spec. split.
  - intros (A & B). split; [assumption|]. now apply eq_matchingb_spec.
  - intros (A & B). split; [assumption|]. now apply eq_matchingb_spec.
Qed.

Lemma forallb_combine_nth {A B} (f : A * B -> bool) la lb :
  length lb = length la ->
  (forallb f (combine la lb) = true <->
   forall k a b, nth_error la k = Some a -> nth_error lb k = Some b -> f (a, b) = true).
Proof.
  revert lb; induction la as [|x la IH]; intros [|y lb] L; cbn in L; try discriminate.
  - cbn. split; [intros _ [|k] ? ? H; discriminate H|reflexivity].
  - cbn [combine forallb]. rewrite Bool.andb_true_iff, IH by lia. split.
    + intros (A1 & A2) [|k] a b Ha Hb; cbn in Ha, Hb; [congruence|eauto].
    + intros H. split; [apply (H 0); reflexivity|]. intros k a b Ha Hb. apply (H (S k)); assumption.
Qed.

Lemma matchings_okb_spec s inputs (ms : list (list (nat * nat))) :
  match first_step_words s inputs with
  | [] => true
  | bw :: ows =>
      (length ms =? length ows)
      && forallb (fun wm => matching_validb bytes_eqb bw (fst wm) (snd wm)) (combine ows ms)
  end = true <-> Matchings_ok s inputs ms.
Proof.
  unfold Matchings_ok. destruct (first_step_words s inputs) as [|bw ows]; [tauto|].
  rewrite Bool.andb_true_iff, Nat.eqb_eq. split.
  - intros (L & F). split; [assumption|]. rewrite forallb_combine_nth in F by assumption.
    intros k ow m Ho Hm. apply matching_validb_spec. apply (F k ow m Ho Hm).
  - intros (L & F). split; [assumption|]. apply forallb_combine_nth; [assumption|].
    intros k ow m Ho Hm. apply matching_validb_spec. apply (F k ow m Ho Hm).
Qed.

(** The meaning of [C03.okb] on a full-diff case. *)
Lemma okb_diff_spec inputs cfg ih im same panicked :
  okb (DiffCase inputs cfg ih im same panicked) = true <->
  panicked = false /\ same = true
  /\ Hunks_ok (steps_of cfg) inputs (hunks_of ih)
  /\ Matchings_ok (steps_of cfg) inputs (map nat_pairs im).
Proof.
  cbn [okb]. rewrite !Bool.andb_true_iff, Bool.negb_true_iff, hunks_okb_spec.
  rewrite <- matchings_okb_spec.
  assert (E : match first_step_words (steps_of cfg) inputs with
              | [] => true
              | bw :: ows =>
                  (length im =? length ows)
                  && forallb (fun wm => matching_validb bytes_eqb bw (fst wm) (nat_pairs (snd wm)))
                             (combine ows im)
              end =
              match first_step_words (steps_of cfg) inputs with
              | [] => true
              | bw :: ows =>
                  (length (map nat_pairs im) =? length ows)
                  && forallb (fun wm => matching_validb bytes_eqb bw (fst wm) (snd wm))
                             (combine ows (map nat_pairs im))
              end).
  { destruct (first_step_words (steps_of cfg) inputs) as [|bw ows]; [reflexivity|].
    rewrite map_length. f_equal. clear. revert im. induction ows as [|o ows IH]; intros [|m im]; cbn; auto.
    now rewrite IH. }
  rewrite E. tauto.
Qed.

(** The model's own output passes the checker (for every valid, token-equal matching). *)
Lemma model_passes_checker M :
  (forall a b, valid_matching (length a) (length b) (M a b)) ->
  (forall a b, eq_matching a b (M a b)) ->
  forall s inputs, inputs <> [] -> s <> [] ->
  hunks_okb s inputs (hunks (run_steps M s inputs)) = true.
Proof. intros V E s inputs Hi Hs. apply hunks_okb_spec. now apply hunks_ok_thm. Qed.
