(** C11: the rebase loop. Replacement chains, the to-visit set, the loop invariant. *)
From Verif Require Import Base.Prelude Base.DagV Model.Merge Model.RepoV Model.C11 Proofs.C10 Proofs.C11.
From Coq Require Import Lia Arith.

(** * Association-list facts *)
Lemma aget_aset_same {V} k (v : V) l : aget Nat.eqb k (aset Nat.eqb Nat.ltb k v l) = Some v.
Proof.
  induction l as [|[k' v'] t IH]; cbn [aset aget]; [now rewrite Nat.eqb_refl|].
  destruct (k =? k') eqn:E; cbn [aget]; [now rewrite Nat.eqb_refl|].
  destruct (k <? k'); cbn [aget]; [now rewrite Nat.eqb_refl|]. now rewrite E.
Qed.

Lemma aget_aset_other {V} k k2 (v : V) l : k2 <> k ->
  aget Nat.eqb k2 (aset Nat.eqb Nat.ltb k v l) = aget Nat.eqb k2 l.
Proof.
  intros N. induction l as [|[k' v'] t IH]; cbn [aset aget].
  - apply Nat.eqb_neq in N. now rewrite N.
  - destruct (k =? k') eqn:E.
    + apply Nat.eqb_eq in E. subst k'. cbn [aget]. apply Nat.eqb_neq in N. now rewrite N.
    + destruct (k <? k'); cbn [aget].
      * apply Nat.eqb_neq in N. now rewrite N.
      * destruct (k2 =? k'); [reflexivity|assumption].
Qed.

Lemma pm_get_set_same k r pm : pm_get (pm_set k r pm) k = Some r.
Proof. apply aget_aset_same. Qed.
Lemma pm_get_set_other k k2 r pm : k2 <> k -> pm_get (pm_set k r pm) k2 = pm_get pm k2.
Proof. apply aget_aset_other. Qed.

Lemma pm_get_In pm k r : pm_get pm k = Some r -> In (k, r) pm.
Proof. apply (aget_In Nat.eqb Nateqb_spec). Qed.

Lemma In_pm_keys_get pm k : In k (pm_keys pm) <-> exists r, pm_get pm k = Some r.
Proof.
  unfold pm_keys, pm_get. induction pm as [|[k' r'] t IH]; cbn [map fst In aget].
  - split; [intros []|intros [r H]; discriminate].
  - destruct (k =? k') eqn:E.
    + apply Nat.eqb_eq in E. subst. split; [eauto|auto].
    + apply Nat.eqb_neq in E. rewrite IH. split; [intros [C|H]; [congruence|assumption]|auto].
Qed.

(** * Replacement chains: what rewritten_ids_with follows *)
Definition pm_nd (pm : list (nat * rewrite)) (k : nat) : option rewrite := pm_filtered pm not_divergent k.

Inductive Chain (pm : list (nat * rewrite)) : nat -> nat -> Prop :=
| Ch_end a : pm_nd pm a = None -> Chain pm a a
| Ch_step a r c b : pm_nd pm a = Some r -> In c (new_parent_ids r) -> Chain pm c b -> Chain pm a b.

Lemma rw_ids_chain pm fuel : forall tv vis ni l,
  rw_ids fuel pm not_divergent tv vis ni = Ok l ->
  forall q, In q l -> In q ni \/ exists p, In p tv /\ Chain pm p q.
Proof.
  induction fuel as [|f IH]; intros tv vis ni l H q Hq; [discriminate|].
  cbn [rw_ids] in H. destruct tv as [|id rest].
  - destruct ni; [discriminate|]. injection H as <-. left. now apply in_rev.
  - destruct (memn id vis).
    + destruct (IH _ _ _ _ H q Hq) as [A|[p [Hp C]]]; [now left|right].
      exists p. split; [now right|assumption].
    + destruct (pm_filtered pm not_divergent id) as [r|] eqn:F.
      * destruct (new_parent_ids r) as [|a reps] eqn:R; [discriminate|].
        destruct (IH _ _ _ _ H q Hq) as [A|[p [Hp C]]]; [now left|right].
        apply in_app_or in Hp. destruct Hp as [Hp|Hp].
        -- exists id. split; [now left|]. eapply Ch_step; [exact F|rewrite R; exact Hp|exact C].
        -- exists p. split; [now right|assumption].
      * destruct (IH _ _ _ _ H q Hq) as [A|[p [Hp C]]].
        -- destruct A as [<-|A]; [|now left]. right. exists id. split; [now left|now constructor].
        -- right. exists p. split; [now right|assumption].
Qed.

Lemma new_parents_chain pm old_ids l q :
  new_parents pm old_ids = Ok l -> In q l -> exists p, In p old_ids /\ Chain pm p q.
Proof.
  unfold new_parents, rewritten_ids_with. destruct old_ids as [|a t]; [discriminate|].
  intros H Hq. destruct (rw_ids_chain _ _ _ _ _ _ H q Hq) as [[]|A]. exact A.
Qed.

Lemma Chain_end_nd pm a b : Chain pm a b -> pm_nd pm b = None.
Proof. induction 1; assumption. Qed.

(** If some given id has a non-divergent record, the result differs from the input. *)
Lemma new_parents_changed pm old_ids l p :
  new_parents pm old_ids = Ok l -> In p old_ids -> pm_nd pm p <> None -> l <> old_ids.
Proof.
  intros H Hp N E. subst l.
  destruct (rewritten_ids_with_result pm not_divergent old_ids old_ids H) as [_ R].
  destruct (R p Hp) as [A _]. apply N. exact A.
Qed.

(** * Reachability through the replacement records (any kind), and the worklist closure *)
Inductive Reach (pm : list (nat * rewrite)) : nat -> nat -> Prop :=
| R_one a r c : pm_get pm a = Some r -> In c (new_parent_ids r) -> Reach pm a c
| R_step a r c b : pm_get pm a = Some r -> In c (new_parent_ids r) -> Reach pm c b -> Reach pm a b.

Lemma Reach_snoc pm a b r c : Reach pm a b -> pm_get pm b = Some r -> In c (new_parent_ids r) -> Reach pm a c.
Proof.
  induction 1 as [a r0 c0 G0 H0|a r0 c0 b G0 H0 _ IH]; intros G Hc.
  - eapply R_step; [exact G0|exact H0|]. eapply R_one; eassumption.
  - eapply R_step; [exact G0|exact H0|]. now apply IH.
Qed.

Definition targets_of (pm : list (nat * rewrite)) (id : nat) : list nat :=
  match pm_get pm id with Some r => new_parent_ids r | None => [] end.

Lemma clos_inv pm fuel : forall stack seen pushed seen' pushed' p,
  clos fuel pm stack seen pushed = Some (seen', pushed') ->
  (forall s t, In s seen -> In t (targets_of pm s) -> In t pushed) ->
  (forall t, In t pushed -> In t seen \/ In t stack) ->
  (In p seen \/ In p stack) ->
  (forall s t, In s seen' -> In t (targets_of pm s) -> In t pushed') /\
  (forall t, In t pushed' -> In t seen') /\ In p seen'.
Proof.
  induction fuel as [|f IH]; intros stack seen pushed seen' pushed' p H A B C; [discriminate|].
  cbn [clos] in H. destruct stack as [|id rest].
  - injection H as <- <-. split; [assumption|]. split.
    + intros t Ht. destruct (B t Ht) as [|[]]; assumption.
    + destruct C as [|[]]; assumption.
  - destruct (memn id seen) eqn:E.
    + apply memn_In in E. apply (IH _ _ _ _ _ p H); [assumption| |].
      * intros t Ht. destruct (B t Ht) as [|[<-|]]; auto.
      * destruct C as [|[<-|]]; auto.
    + fold (targets_of pm id) in H. apply (IH _ _ _ _ _ p H).
      * intros s t [<-|Hs] Ht; [apply in_or_app; now left|apply in_or_app; right; eauto].
      * intros t Ht. apply in_app_or in Ht. destruct Ht as [Ht|Ht].
        -- right. apply in_or_app. now left.
        -- destruct (B t Ht) as [|[<-|]]; [left; now right|left; now left|right; apply in_or_app; now right].
      * destruct C as [|[<-|]]; [left; now right|left; now left|right; apply in_or_app; now right].
Qed.

Theorem repl_closure_complete pm p cl q : repl_closure pm p = Some cl -> Reach pm p q -> In q cl.
Proof.
  unfold repl_closure. destruct (clos (repl_fuel pm) pm [p] [] []) as [[seen pushed]|] eqn:E; [|discriminate].
  intros H. injection H as <-.
  destruct (clos_inv pm _ _ _ _ _ _ p E) as [A [B C]].
  - intros s t [].
  - intros t [].
  - right. now left.
  - assert (G : forall a b, Reach pm a b -> In a seen -> In b pushed).
    { induction 1 as [a r c Ga Hc|a r c b Ga Hc _ IH]; intros Ha.
      - apply (A a c Ha). unfold targets_of. now rewrite Ga.
      - apply IH. apply B. apply (A a c Ha). unfold targets_of. now rewrite Ga. }
    intros R. now apply (G p q).
Qed.

(** * Descendants *)
Lemma desc_marks_spec roots rest : forall pre marked,
  wf_dag (pre ++ rest) ->
  (forall x, In x marked <-> x < length pre /\ exists r, In r roots /\ anc (pre ++ rest) r x) ->
  forall x, In x (desc_marks (pre ++ rest) roots (length pre) rest marked) <->
            x < length (pre ++ rest) /\ exists r, In r roots /\ anc (pre ++ rest) r x.
Proof.
  induction rest as [|ps t IH]; intros pre marked W HM x; cbn [desc_marks].
  - rewrite HM. now rewrite app_nil_r.
  - assert (E : pre ++ ps :: t = (pre ++ [ps]) ++ t) by now rewrite <- app_assoc.
    assert (L : length (pre ++ [ps]) = S (length pre)) by (rewrite app_length; cbn; lia).
    rewrite <- L. rewrite E in *. apply IH; [assumption|].
    assert (P : parents ((pre ++ [ps]) ++ t) (length pre) = ps).
    { unfold parents. rewrite app_nth1 by lia. rewrite app_nth2 by lia. now rewrite Nat.sub_diag. }
    clear x. intros x.
    set (g := (pre ++ [ps]) ++ t) in *.
    set (cond := memn (length pre) roots || existsb (fun p => memn p marked) ps).
    assert (C : cond = true <-> exists r, In r roots /\ anc g r (length pre)).
    { unfold cond. rewrite orb_true_iff, memn_In, existsb_exists. split.
      - intros [K|[p [Hp Hm]]].
        + exists (length pre). split; [assumption|constructor].
        + apply memn_In in Hm. apply HM in Hm. destruct Hm as [_ [r [Hr Ha]]].
          exists r. split; [assumption|]. eapply anc_step; [rewrite P; eassumption|assumption].
      - intros [r [Hr Ha]]. apply anc_inv in Ha. destruct Ha as [->|[p [Hp Ha]]]; [now left|right].
        rewrite P in Hp. exists p. split; [assumption|]. apply memn_In. apply HM.
        split; [apply (W (length pre) p); now rewrite P|]. eauto. }
    destruct cond eqn:EC.
    + cbn [In]. rewrite HM, L. split.
      * intros [<-|[A B]]; [split; [lia|now apply C]|split; [lia|assumption]].
      * intros [A B]. destruct (Nat.eq_dec x (length pre)) as [->|N]; [now left|right].
        split; [lia|assumption].
    + rewrite HM, L. split.
      * intros [A B]. split; [lia|assumption].
      * intros [A B]. split; [|assumption].
        destruct (Nat.eq_dec x (length pre)) as [->|N]; [|lia].
        apply C in B. discriminate.
Qed.

Theorem descendants_of_spec g roots x : wf_dag g ->
  (In x (descendants_of g roots) <-> x < length g /\ exists r, In r roots /\ anc g r x).
Proof.
  intros W. unfold descendants_of. apply (desc_marks_spec roots g [] []); [assumption|].
  intros y. cbn. split; [intros []|intros [L _]; lia].
Qed.

(** The to-visit set. *)
Definition scope (s : state) (imm : list nat) : list nat :=
  ancs (pg (s_g s)) (v_heads (s_v s) ++ pm_keys (s_pm s) ++ imm).

Lemma to_visit_spec s imm x : wf_dag (pg (s_g s)) ->
  (In x (find_descendants_for_rebase s imm) <->
   x < length (s_g s) /\ (exists k, In k (pm_keys (s_pm s)) /\ anc (pg (s_g s)) k x) /\
   In x (scope s imm) /\ ~ In x imm /\ ~ In x (pm_keys (s_pm s))).
Proof.
  intros W. unfold find_descendants_for_rebase, scope. rewrite filter_In, in_seq.
  rewrite !andb_true_iff, !negb_true_iff, !memn_false, !memn_In.
  rewrite (descendants_of_spec _ _ x W), pg_length.
  split.
  - intros [A [[[[B1 B2] C] D] E]]. repeat split; auto.
  - intros [A [B [C [D E]]]]. repeat split; auto; lia.
Qed.

(** * The loop of transform_commits *)
Lemma getc_app_old G c i : i < length G -> getc (G ++ [c]) i = getc G i.
Proof. intros L. unfold getc. now apply app_nth1. Qed.
Lemma getc_app_new G c : getc (G ++ [c]) (length G) = c.
Proof. unfold getc. rewrite app_nth2 by lia. now rewrite Nat.sub_diag. Qed.

Lemma write_commit_fields s c src :
  s_g (fst (write_commit s c src)) = s_g s ++ [c] /\
  s_pm (fst (write_commit s c src)) =
    match src with Some old => pm_set old (Rewritten (length (s_g s))) (s_pm s) | None => s_pm s end.
Proof.
  unfold write_commit.
  destruct (add_heads_fields (mk_state (s_g s ++ [c]) (s_v s) (s_pm s)) [length (s_g s)]) as [A [B _]].
  destruct src; cbn [fst set_pm s_g s_pm]; rewrite ?A, ?B; auto.
Qed.

Lemma add_heads_single_heads s n h :
  In h (v_heads (s_v (add_heads s [n]))) -> h = n \/ In h (v_heads (s_v s)).
Proof.
  unfold add_heads. destruct (_ && _); cbn [set_view s_v view_replace_heads view_add_head set_heads v_heads]; intros H.
  - apply fold_remn_In in H. destruct H as [H _]. now apply ins_In in H.
  - now apply ins_In in H.
Qed.

Lemma write_commit_view s c src :
  v_bms (s_v (fst (write_commit s c src))) = v_bms (s_v s) /\
  v_wcs (s_v (fst (write_commit s c src))) = v_wcs (s_v s) /\
  forall h, In h (v_heads (s_v (fst (write_commit s c src)))) -> h = length (s_g s) \/ In h (v_heads (s_v s)).
Proof.
  unfold write_commit.
  set (s' := mk_state (s_g s ++ [c]) (s_v s) (s_pm s)).
  destruct (add_heads_fields s' [length (s_g s)]) as [_ [_ [A B]]].
  assert (C : forall h, In h (v_heads (s_v (add_heads s' [length (s_g s)]))) -> h = length (s_g s) \/ In h (v_heads (s_v s))).
  { intros h Hh. apply add_heads_single_heads in Hh. exact Hh. }
  destruct src; cbn [fst set_pm s_v]; auto.
Qed.

Section Loop.
  Variable s0 : state.
  Variable o : rebase_opts.
  Hypothesis J0 : J s0.
  Let G0 := s_g s0.
  Let n0 := length G0.
  Let pm0 := s_pm s0.
  Let imm := o_imm o.
  Let T := find_descendants_for_rebase s0 imm.
  Let Scope := scope s0 imm.

  (** replacement targets are in scope (the domain asks for visible) *)
  Hypothesis dom_targets : forall k r t, In (k, r) pm0 -> In t (new_parent_ids r) -> In t Scope.

  Lemma T_facts x : In x T ->
    x < n0 /\ In x Scope /\ ~ In x imm /\ pm_get pm0 x = None /\
    exists k, In k (pm_keys pm0) /\ anc (pg G0) k x.
  Proof.
    intros H. apply to_visit_spec in H; [|apply (j_wf _ J0)].
    destruct H as [A [B [C [D E]]]]. repeat split; auto.
    destruct (pm_get pm0 x) as [r|] eqn:G; [|reflexivity].
    exfalso. apply E. apply In_pm_keys_get. eauto.
  Qed.

  Lemma Scope_anc a b : In b Scope -> anc (pg G0) a b -> In a Scope.
  Proof.
    unfold Scope, scope. intros H Ha. pose proof (j_wf _ J0) as W.
    apply ancs_spec in H; [|assumption]. apply ancs_spec; [assumption|].
    destruct H as [h [Hh Hb]]. exists h. split; [assumption|]. eapply anc_trans; eassumption.
  Qed.

  Definition Settled (done : list nat) (st : state) (z : nat) : Prop :=
    z < length (s_g st) /\ pm_nd (s_pm st) z = None /\ (In z T -> In z done) /\ (z < n0 -> In z Scope).

  Record LI (done : list nat) (st : state) : Prop := mkLI {
    li_J : J st;
    li_len : n0 <= length (s_g st);
    li_old : forall i, i < n0 -> getc (s_g st) i = getc G0 i;
    li_pm_other : forall k, ~ In k done -> pm_get (s_pm st) k = pm_get pm0 k;
    li_pm_done : forall k r, In k done -> pm_get (s_pm st) k = Some r ->
                   not_divergent r = true /\ forall z, In z (new_parent_ids r) -> Settled done st z;
    li_parents : forall y, (In y done /\ pm_get (s_pm st) y = None) \/ (n0 <= y < length (s_g st)) ->
                   forall q, In q (c_parents (getc (s_g st) y)) -> Settled done st q;
    li_done_T : forall k, In k done -> In k T;
    li_heads : forall h, In h (v_heads (s_v st)) -> h < n0 -> In h Scope;
    li_bms : v_bms (s_v st) = v_bms (s_v s0);
    li_wcs : v_wcs (s_v st) = v_wcs (s_v s0);
    li_ident : forall y, n0 <= y < length (s_g st) ->
      exists x, c_preds (getc (s_g st) y) = [x] /\ In x T /\
                c_change (getc (s_g st) y) = c_change (getc G0 x) /\
                c_desc (getc (s_g st) y) = c_desc (getc G0 x);
    li_pred : forall y x, n0 <= y < length (s_g st) -> c_preds (getc (s_g st) y) = [x] ->
      In x done /\ pm_get (s_pm st) x = Some (Rewritten y);
  }.

  Lemma LI_init : LI [] s0.
  Proof.
    constructor; auto.
    - intros k r [].
    - intros y [[[] _]|H]; fold G0 n0 in H; lia.
    - intros k [].
    - intros h Hh _. unfold Scope, scope. apply ancs_spec; [apply (j_wf _ J0)|].
      exists h. split; [apply in_or_app; now left|constructor].
    - intros y Hy. fold G0 n0 in Hy. lia.
    - intros y x Hy. fold G0 n0 in Hy. lia.
  Qed.

  Lemma pm_nd_set_other pm k r z : z <> k -> pm_nd (pm_set k r pm) z = pm_nd pm z.
  Proof. intros N. unfold pm_nd, pm_filtered. now rewrite pm_get_set_other. Qed.

  (** Settledness is stable when [x] (a commit still to be rebased) is processed. *)
  Lemma Settled_step done st st' x z :
    Settled done st z -> In x T -> ~ In x done ->
    length (s_g st) <= length (s_g st') ->
    (forall k, k <> x -> pm_nd (s_pm st') k = pm_nd (s_pm st) k) ->
    Settled (done ++ [x]) st' z.
  Proof.
    intros [A [B [C D]]] HxT Hxd L P.
    assert (z <> x) by (intros ->; auto).
    split; [lia|]. split; [rewrite P; auto|]. split; [|assumption].
    intros Hz. apply in_or_app. left. auto.
  Qed.

  (** Where the new parents of a commit to be rebased come from: following the replacement
      chain, either a processed commit is met (its record points at settled commits), or the whole
      chain consists of original records, and then its end was processed before by the
      (transitive) dependency. *)
  Lemma chain_settled done st x : LI done st -> In x T ->
    (forall p, In p (c_parents (getc G0 x)) -> In p T -> In p done) ->
    (forall p q, In p (c_parents (getc G0 x)) -> Reach pm0 p q -> In q T -> In q done) ->
    forall p, In p (c_parents (getc G0 x)) ->
    forall a q, Chain (s_pm st) a q -> (a = p \/ Reach pm0 p a) ->
      a < length (s_g st) -> (a < n0 -> In a Scope) -> Settled done st q.
  Proof.
    intros HLI HxT D1 D2 p Hp a q Hc. induction Hc as [a Hend|a r c b Hr Hc1 Hrest IH]; intros Ra La Sa.
    - split; [assumption|]. split; [assumption|]. split; [|assumption].
      intros Ht. destruct Ra as [->|Ra]; [now apply D1|eapply D2; eassumption].
    - destruct (in_dec Nat.eq_dec a done) as [Hd|Hd].
      + unfold pm_nd, pm_filtered in Hr. destruct (pm_get (s_pm st) a) as [r'|] eqn:G; [|discriminate].
        destruct (not_divergent r'); [|discriminate]. injection Hr as ->.
        destruct (li_pm_done _ _ HLI a r Hd G) as [_ S]. specialize (S c Hc1).
        inversion Hrest as [a' Hend|a' r2 c2 b' Hr2 _ _]; subst; [assumption|].
        destruct S as [_ [S _]]. congruence.
      + assert (G0a : pm_get pm0 a = Some r).
        { rewrite <- (li_pm_other _ _ HLI a Hd). unfold pm_nd, pm_filtered in Hr.
          destruct (pm_get (s_pm st) a) as [r'|]; [|discriminate].
          destruct (not_divergent r'); [|discriminate]. congruence. }
        apply IH.
        * right. destruct Ra as [->|Ra]; [eapply R_one; eassumption|eapply Reach_snoc; eassumption].
        * assert (In (a, r) (s_pm st)).
          { apply pm_get_In. rewrite (li_pm_other _ _ HLI a Hd). exact G0a. }
          destruct (j_pm _ (li_J _ _ HLI) a r H) as [_ R]. now apply R.
        * intros _. eapply dom_targets; [apply pm_get_In; exact G0a|exact Hc1].
  Qed.

  Lemma step_np_settled done st x np :
    LI done st -> In x T -> ~ In x done ->
    (forall p, In p (c_parents (getc G0 x)) -> In p T -> In p done) ->
    (forall p q, In p (c_parents (getc G0 x)) -> Reach pm0 p q -> In q T -> In q done) ->
    new_parents (s_pm st) (c_parents (getc G0 x)) = Ok np ->
    forall q, In q np -> Settled done st q.
  Proof.
    intros HLI HxT Hxd D1 D2 Hnp q Hq.
    destruct (T_facts x HxT) as [Lx [Sx _]].
    destruct (new_parents_chain _ _ _ _ Hnp Hq) as [p [Hp Hc]].
    pose proof (j_wf _ J0) as W0.
    assert (Lp : p < n0).
    { assert (p < x); [|lia]. apply (W0 x p). unfold G0 in Hp. now rewrite parents_pg. }
    assert (Sp : In p Scope).
    { apply (Scope_anc p x Sx). apply anc_parent. unfold G0 in Hp. now rewrite parents_pg. }
    apply (chain_settled done st x HLI HxT D1 D2 p Hp p q Hc); [now left| |auto].
    pose proof (li_len _ _ HLI). lia.
  Qed.

  Lemma simplify_filter_nonempty g np : wf_dag g -> np <> [] ->
    filter (fun p => memn p (heads_of g np)) np <> [].
  Proof.
    intros W N. destruct np as [|a t]; [congruence|].
    destruct (heads_of_cover g (a :: t) a W (or_introl eq_refl)) as [h [Hh _]].
    intros E. assert (In h (filter (fun p => memn p (heads_of g (a :: t))) (a :: t))).
    { apply filter_In. split; [|now apply memn_In].
      apply heads_of_spec in Hh; [|assumption]. apply Hh. }
    rewrite E in H. contradiction.
  Qed.

  Lemma LI_step done st x st' :
    LI done st -> In x T -> ~ In x done ->
    (forall p, In p (c_parents (getc G0 x)) -> In p T -> In p done) ->
    (forall p q, In p (c_parents (getc G0 x)) -> Reach pm0 p q -> In q T -> In q done) ->
    rebase_one st o x = Ok st' -> LI (done ++ [x]) st'.
  Proof.
    intros HLI HxT Hxd D1 D2 H.
    destruct (T_facts x HxT) as [Lx [Sx [_ [Gx _]]]].
    pose proof (li_J _ _ HLI) as Jst.
    pose proof (li_len _ _ HLI) as Ln.
    unfold rebase_one in H. rewrite (li_old _ _ HLI x Lx) in H. fold G0 in H.
    set (c := getc G0 x) in *.
    destruct (new_parents (s_pm st) (c_parents c)) as [np| | |] eqn:Hnp; cbn [bind] in H; try discriminate.
    pose proof (step_np_settled done st x np HLI HxT Hxd D1 D2 Hnp) as Snp.
    destruct (rewritten_ids_with_result _ _ _ _ Hnp) as [NE _].
    assert (Pst : forall k : nat, pm_get (s_pm st) x = None) by (intros _; now rewrite (li_pm_other _ _ HLI x Hxd)).
    destruct (list_nat_eqb np (c_parents c)) eqn:Eq.
    - (* parents unchanged *)
      apply Ok_inj in H. subst st'. apply list_nat_eqb_eq in Eq.
      assert (St : forall z, Settled done st z -> Settled (done ++ [x]) st z).
      { intros z Hz. eapply Settled_step; eauto. }
      constructor; auto; try apply HLI.
      + intros k Hk. apply (li_pm_other _ _ HLI). intros Hd. apply Hk. apply in_or_app. now left.
      + intros k r Hk Gk. apply in_app_or in Hk. destruct Hk as [Hk|[<-|[]]].
        * destruct (li_pm_done _ _ HLI k r Hk Gk) as [A B]. split; auto.
        * rewrite (Pst 0) in Gk. discriminate.
      + intros y [[Hy Gy]|Hy] q Hq.
        * apply in_app_or in Hy. destruct Hy as [Hy|[<-|[]]].
          -- apply St. eapply (li_parents _ _ HLI); eauto.
          -- apply St. apply Snp. rewrite Eq. rewrite (li_old _ _ HLI x Lx) in Hq. exact Hq.
        * apply St. eapply (li_parents _ _ HLI); eauto.
      + intros k Hk. apply in_app_or in Hk. destruct Hk as [Hk|[<-|[]]]; [now apply (li_done_T _ _ HLI)|assumption].
      + intros y x' Hy Hp. destruct (li_pred _ _ HLI y x' Hy Hp) as [A B]. split; [apply in_or_app; now left|assumption].
    - set (np' := if o_simplify o then filter (fun p => memn p (heads_of (pg (s_g st)) np)) np else np) in *.
      assert (Sub : forall q, In q np' -> In q np).
      { unfold np'. destruct (o_simplify o); [|auto]. intros q Hq. apply filter_In in Hq. apply Hq. }
      assert (NE' : np' <> []).
      { unfold np'. destruct (o_simplify o); [|assumption].
        apply simplify_filter_nonempty; [apply (j_wf _ Jst)|assumption]. }
      assert (Rnp : forall q, In q np' -> q < length (s_g st)).
      { intros q Hq. apply Sub in Hq. apply Snp in Hq. apply Hq. }
      set (orc := match aget Nat.eqb x (o_oracle o) with Some k => k | None => 0%N end) in *.
      set (ab := match np' with [_] => negb (N.eqb (o_empty o) 0) && N.eqb orc 1 | _ => false end) in *.
      destruct ab eqn:Eab.
      + (* abandoned by the emptiness policy *)
        apply Ok_inj in H. subst st'.
        assert (St : forall z, Settled done st z -> Settled (done ++ [x]) (set_pm st (pm_set x (Abandoned np') (s_pm st))) z).
        { intros z Hz. eapply Settled_step; eauto. intros k Hk. cbn [set_pm s_pm]. now apply pm_nd_set_other. }
        constructor; cbn [set_pm s_g s_pm].
        * apply J_pm_set; [assumption|lia|assumption].
        * assumption.
        * apply (li_old _ _ HLI).
        * intros k Hk. rewrite pm_get_set_other; [|intros ->; apply Hk; apply in_or_app; right; now left].
          apply (li_pm_other _ _ HLI). intros Hd. apply Hk. apply in_or_app. now left.
        * intros k r Hk Gk. apply in_app_or in Hk. destruct Hk as [Hk|[<-|[]]].
          -- assert (k <> x) by (intros ->; auto). rewrite pm_get_set_other in Gk by assumption.
             destruct (li_pm_done _ _ HLI k r Hk Gk) as [A B]. split; auto.
          -- rewrite pm_get_set_same in Gk. injection Gk as <-. split; [reflexivity|].
             cbn [new_parent_ids]. intros z Hz. apply St. apply Snp. now apply Sub.
        * intros y [[Hy Gy]|Hy] q Hq.
          -- apply in_app_or in Hy. destruct Hy as [Hy|[<-|[]]].
             ++ assert (y <> x) by (intros ->; auto). rewrite pm_get_set_other in Gy by assumption.
                apply St. eapply (li_parents _ _ HLI); eauto.
             ++ rewrite pm_get_set_same in Gy. discriminate.
          -- apply St. eapply (li_parents _ _ HLI); eauto.
        * intros k Hk. apply in_app_or in Hk. destruct Hk as [Hk|[<-|[]]]; [now apply (li_done_T _ _ HLI)|assumption].
        * apply (li_heads _ _ HLI).
        * apply (li_bms _ _ HLI).
        * apply (li_wcs _ _ HLI).
        * apply (li_ident _ _ HLI).
        * intros y x' Hy Hp. destruct (li_pred _ _ HLI y x' Hy Hp) as [A B]. split; [apply in_or_app; now left|].
          rewrite pm_get_set_other; [assumption|intros ->; contradiction].
      + (* rebased copy *)
        apply Ok_inj in H. subst st'.
        set (c' := mk_commit np' (c_change c) (c_desc c) (if N.eqb orc 2 then negb (c_empty c) else c_empty c) [x]) in *.
        destruct (J_write_commit st c' (Some x) Jst) as [Jw [_ [Lw _]]]; [exact NE'|exact Rnp|intros o' E; injection E as <-; lia|].
        destruct (write_commit_fields st c' (Some x)) as [Gw Pw].
        set (st' := fst (write_commit st c' (Some x))) in *.
        assert (St : forall z, Settled done st z -> Settled (done ++ [x]) st' z).
        { intros z Hz. eapply Settled_step; eauto; [lia|]. intros k Hk. rewrite Pw. now apply pm_nd_set_other. }
        assert (Snew : Settled (done ++ [x]) st' (length (s_g st))).
        { split; [lia|]. split; [|split].
          - rewrite Pw. rewrite pm_nd_set_other by lia.
            unfold pm_nd, pm_filtered. destruct (pm_get (s_pm st) (length (s_g st))) as [r|] eqn:G; [|reflexivity].
            apply pm_get_In in G. destruct (j_pm _ Jst _ _ G) as [A _]. lia.
          - intros Ht. destruct (T_facts _ Ht) as [A _]. lia.
          - intros A. lia. }
        constructor.
        * exact Jw.
        * lia.
        * intros i Hi. rewrite Gw, getc_app_old by lia. now apply (li_old _ _ HLI).
        * intros k Hk. rewrite Pw. rewrite pm_get_set_other; [|intros ->; apply Hk; apply in_or_app; right; now left].
          apply (li_pm_other _ _ HLI). intros Hd. apply Hk. apply in_or_app. now left.
        * intros k r Hk Gk. rewrite Pw in Gk. apply in_app_or in Hk. destruct Hk as [Hk|[<-|[]]].
          -- assert (k <> x) by (intros ->; auto). rewrite pm_get_set_other in Gk by assumption.
             destruct (li_pm_done _ _ HLI k r Hk Gk) as [A B]. split; auto.
          -- rewrite pm_get_set_same in Gk. injection Gk as <-. split; [reflexivity|].
             cbn [new_parent_ids]. intros z [<-|[]]. exact Snew.
        * intros y [[Hy Gy]|Hy] q Hq.
          -- rewrite Pw in Gy. apply in_app_or in Hy. destruct Hy as [Hy|[<-|[]]].
             ++ assert (y <> x) by (intros ->; auto). rewrite pm_get_set_other in Gy by assumption.
                destruct (T_facts y (li_done_T _ _ HLI y Hy)) as [Ly _].
                rewrite Gw, getc_app_old in Hq by lia.
                apply St. eapply (li_parents _ _ HLI); eauto.
             ++ rewrite pm_get_set_same in Gy. discriminate.
          -- rewrite Lw in Hy. destruct (Nat.eq_dec y (length (s_g st))) as [->|Ny].
             ++ rewrite Gw, getc_app_new in Hq. cbn [c' c_parents] in Hq.
                apply St. apply Snp. now apply Sub.
             ++ rewrite Gw, getc_app_old in Hq by lia.
                apply St. eapply (li_parents _ _ HLI); [right; split; [apply Hy|lia]|exact Hq].
        * intros k Hk. apply in_app_or in Hk. destruct Hk as [Hk|[<-|[]]]; [now apply (li_done_T _ _ HLI)|assumption].
        * destruct (write_commit_view st c' (Some x)) as [_ [_ Hh]]. fold st' in Hh.
          intros h Hin Lh. destruct (Hh h Hin) as [->|Hold]; [lia|]. now apply (li_heads _ _ HLI).
        * destruct (write_commit_view st c' (Some x)) as [Hb _]. fold st' in Hb. rewrite Hb. apply (li_bms _ _ HLI).
        * destruct (write_commit_view st c' (Some x)) as [_ [Hw _]]. fold st' in Hw. rewrite Hw. apply (li_wcs _ _ HLI).
        * intros y Hy. rewrite Lw in Hy. rewrite Gw. destruct (Nat.eq_dec y (length (s_g st))) as [->|Ny].
          -- rewrite getc_app_new. exists x. cbn [c' c_preds c_change c_desc]. auto.
          -- rewrite getc_app_old by lia. apply (li_ident _ _ HLI). lia.
        * intros y x' Hy Hp. rewrite Lw in Hy. rewrite Gw in Hp. rewrite Pw.
          destruct (Nat.eq_dec y (length (s_g st))) as [->|Ny].
          -- rewrite getc_app_new in Hp. cbn [c' c_preds] in Hp. injection Hp as <-.
             split; [apply in_or_app; right; now left|apply pm_get_set_same].
          -- rewrite getc_app_old in Hp by lia. destruct (li_pred _ _ HLI y x' ltac:(lia) Hp) as [A B].
             split; [apply in_or_app; now left|]. rewrite pm_get_set_other; [assumption|intros ->; contradiction].
  Qed.

  (** ** Orders that respect the dependencies the implementation computes: a parent that is to
      be rebased, and every to-be-rebased commit reached from a parent by following the
      replacement records, come first. *)
  Fixpoint valid_from (done order : list nat) : Prop :=
    match order with
    | [] => True
    | x :: t =>
        In x T /\ ~ In x done /\
        (forall p, In p (c_parents (getc G0 x)) -> In p T -> In p done) /\
        (forall p q, In p (c_parents (getc G0 x)) -> Reach pm0 p q -> In q T -> In q done) /\
        valid_from (done ++ [x]) t
    end.

  Lemma fold_res_stuck {A B} (f : res A -> B -> res A) (l : list B) (r : res A) :
    (forall b, f Err b = Err) -> (forall b, f Panic b = Panic) -> (forall b, f Fuel b = Fuel) ->
    (forall a, r <> Ok a) -> forall a, fold_left f l r <> Ok a.
  Proof.
    intros E P F. revert r. induction l as [|b t IH]; intros r N a; cbn [fold_left]; [apply N|].
    apply IH. intros a'. destruct r; [exfalso; eapply N; reflexivity|rewrite E|rewrite P|rewrite F]; discriminate.
  Qed.

  Lemma LI_fold order : forall done st s1,
    LI done st -> valid_from done order ->
    fold_left (fun (acc : res state) x => do s <- acc; rebase_one s o x) order (Ok st) = Ok s1 ->
    LI (done ++ order) s1.
  Proof.
    induction order as [|x t IH]; intros done st s1 HLI V H; cbn [fold_left] in H.
    - apply Ok_inj in H. subst. now rewrite app_nil_r.
    - destruct V as [V1 [V2 [V3 [V4 V5]]]]. cbn [bind] in H.
      destruct (rebase_one st o x) as [st'| | |] eqn:E.
      + replace (done ++ x :: t) with ((done ++ [x]) ++ t) by (rewrite <- app_assoc; reflexivity).
        eapply IH; [|exact V5|exact H]. eapply LI_step; eauto.
      + exfalso. eapply (fold_res_stuck _ t Err); [| | | |exact H]; try reflexivity; discriminate.
      + exfalso. eapply (fold_res_stuck _ t Panic); [| | | |exact H]; try reflexivity; discriminate.
      + exfalso. eapply (fold_res_stuck _ t Fuel); [| | | |exact H]; try reflexivity; discriminate.
  Qed.

  (** ** Cleanliness of a final graph [G] with final records [pm] *)
  Lemma Tainted_anc g keys sh y : Tainted g keys sh y -> exists k, In k keys /\ anc g k y.
  Proof.
    induction 1 as [k Hk _|x p _ _ Hp _ [k [Hk Ha]]].
    - exists k. split; [assumption|constructor].
    - exists k. split; [assumption|]. eapply anc_step; eassumption.
  Qed.

  Lemma anc_prefix g1 g a b : wf_dag g1 ->
    (forall i, i < length g -> parents g1 i = parents g i) -> b < length g ->
    (anc g1 a b <-> anc g a b).
  Proof.
    intros W P L. split; intros H.
    - induction H as [x|a p d Hp _ IH]; [constructor|].
      assert (p < d) by now apply W. rewrite P in Hp by assumption.
      eapply anc_step; [eassumption|]. apply IH. lia.
    - induction H as [x|a p d Hp Ha IH]; [constructor|].
      rewrite <- P in Hp by assumption. assert (p < d) by now apply W.
      eapply anc_step; [eassumption|]. apply IH. lia.
  Qed.

  Lemma nd_keys_spec pm k : In k (nd_keys pm) -> pm_get pm k <> None.
  Proof.
    unfold nd_keys. intros H. apply in_map_iff in H. destruct H as [[k' r] [E H]]. cbn in E. subst k'.
    apply filter_In in H. destruct H as [H _].
    induction pm as [|[k2 r2] t IH]; [contradiction|]. unfold pm_get in *. cbn [aget].
    destruct (k =? k2) eqn:E; [discriminate|]. destruct H as [H|H]; [|auto].
    injection H as -> ->. rewrite Nat.eqb_refl in E. discriminate.
  Qed.

  Lemma nd_keys_nd pm k : pm_nd pm k = None -> (forall r r', In (k, r) pm -> In (k, r') pm -> r = r') ->
    ~ In k (nd_keys pm).
  Proof.
    intros H U Hk. unfold nd_keys in Hk. apply in_map_iff in Hk. destruct Hk as [[k' r] [E Hk]].
    cbn in E. subst k'. apply filter_In in Hk. destruct Hk as [Hin Hnd]. cbn [snd] in Hnd.
    unfold pm_nd, pm_filtered in H. destruct (pm_get pm k) as [r'|] eqn:G.
    - apply pm_get_In in G. rewrite (U r r' Hin G) in Hnd. rewrite Hnd in H. discriminate.
    - clear -Hin G. unfold pm_get in G. induction pm as [|[k2 r2] t IH]; [contradiction|].
      cbn [aget] in G. destruct (k =? k2) eqn:E; [discriminate|]. destruct Hin as [Hin|Hin]; [|auto].
      injection Hin as -> ->. rewrite Nat.eqb_refl in E. discriminate.
  Qed.

  Section Clean.
    Variable G : graph.
    Variable pm : list (nat * rewrite).
    Let g := pg G.
    Let sh := ancs g (imm ++ div_keys pm).
    Hypothesis W : wf_dag g.
    Hypothesis Len : n0 <= length G.
    Hypothesis Old : forall i, i < n0 -> getc G i = getc G0 i.
    Hypothesis Uniq : forall k r r', In (k, r) pm -> In (k, r') pm -> r = r'.
    Hypothesis Pm_other : forall k, ~ In k T -> pm_get pm k = pm_get pm0 k.
    Hypothesis Pm_T : forall k r, In k T -> pm_get pm k = Some r -> not_divergent r = true.
    Hypothesis Par : forall y, (In y T /\ pm_get pm y = None) \/ (n0 <= y < length G) ->
      forall q, In q (c_parents (getc G y)) -> pm_nd pm q = None /\ (q < n0 -> In q Scope).

    Lemma old_parents i : i < n0 -> parents g i = parents (pg G0) i.
    Proof. intros L. unfold g. now rewrite !parents_pg, Old. Qed.

    Lemma div_key_shielded k r : pm_get pm k = Some r -> is_divergent r = true -> k < length G -> In k sh.
    Proof.
      intros Gk D L. unfold sh. apply ancs_spec; [assumption|]. exists k. split; [|constructor].
      apply in_or_app. right. unfold div_keys. apply in_map_iff. exists (k, r). split; [reflexivity|].
      apply filter_In. split; [now apply pm_get_In|assumption].
    Qed.

    Theorem clean_all : forall y, y < length G -> (y < n0 -> In y Scope) -> pm_nd pm y = None ->
      ~ In y sh -> ~ Tainted g (nd_keys pm) sh y.
    Proof.
      intros y. induction y as [y IH] using lt_wf_ind. intros Ly Sy Ny Hs Ht.
      inversion Ht as [k Hk _|x p _ _ Hp Hpt]; subst.
      - apply (nd_keys_nd pm y Ny (Uniq y) Hk).
      - assert (Lp : p < y) by now apply W.
        (* the tainted parent would have to be a rewritten/abandoned commit or unshielded-tainted *)
        assert (Cp : pm_nd pm p = None /\ (p < n0 -> In p Scope) -> False).
        { intros [Np Sp]. inversion Hpt as [k Hk _|x q _ Hsq _ _]; subst.
          - apply (nd_keys_nd pm p Np (Uniq p) Hk).
          - apply (IH p); auto. lia. }
        unfold g in Hp. rewrite parents_pg in Hp.
        destruct (Nat.lt_ge_cases y n0) as [Lo|Lo].
        + (* an old commit *)
          assert (Gy : pm_get pm y = None).
          { destruct (pm_get pm y) as [r|] eqn:Gy; [|reflexivity]. exfalso.
            unfold pm_nd, pm_filtered in Ny. rewrite Gy in Ny.
            destruct (not_divergent r) eqn:D; [discriminate|].
            apply Hs. eapply div_key_shielded; [exact Gy| |assumption].
            unfold not_divergent in D. now apply negb_false_iff in D. }
          destruct (in_dec Nat.eq_dec y T) as [HT|HT].
          * apply Cp. apply (Par y); [left; split; assumption|assumption].
          * (* not to be rebased: then it does not descend from a rewritten commit at all *)
            destruct (Tainted_anc _ _ _ _ Ht) as [k [Hk Ha]].
            apply HT. apply to_visit_spec; [apply (j_wf _ J0)|]. fold G0 n0 pm0 imm Scope.
            assert (Ha0 : anc (pg G0) k y).
            { apply (anc_prefix g (pg G0) k y W); [|rewrite pg_length; exact Lo|exact Ha].
              intros i Hi. rewrite pg_length in Hi. now apply old_parents. }
            split; [exact Lo|]. split; [|split; [now apply Sy|split]].
            -- (* k is an original key or descends from one *)
               pose proof (nd_keys_spec pm k Hk) as Gk.
               destruct (in_dec Nat.eq_dec k T) as [KT|KT].
               ++ destruct (T_facts k KT) as [_ [_ [_ [_ [k0 [Hk0 Hak]]]]]].
                  exists k0. split; [assumption|]. eapply anc_trans; eassumption.
               ++ exists k. split; [|assumption]. apply In_pm_keys_get.
                  rewrite (Pm_other k KT) in Gk. destruct (pm_get pm0 k) as [r|]; [eauto|congruence].
            -- intros Hi. apply Hs. unfold sh. apply ancs_spec; [assumption|].
               exists y. split; [apply in_or_app; now left|constructor].
            -- intros Hk0. apply In_pm_keys_get in Hk0. destruct Hk0 as [r Hr].
               rewrite <- (Pm_other y HT) in Hr. congruence.
        + apply Cp. apply (Par y); [right; split; assumption|assumption].
    Qed.
  End Clean.

  (** ** The rebase loop leaves every commit without a rewrite record clean *)
  Theorem loop_clean order s1 :
    valid_from [] order -> (forall x, In x T -> In x order) ->
    rebase_fold o order s0 = Ok s1 ->
    LI order s1 /\
    forall y, y < length (s_g s1) -> (y < n0 -> In y Scope) -> pm_nd (s_pm s1) y = None ->
      let sh := ancs (pg (s_g s1)) (imm ++ div_keys (s_pm s1)) in
      ~ In y sh -> ~ Tainted (pg (s_g s1)) (nd_keys (s_pm s1)) sh y.
  Proof.
    intros V Tall H. unfold rebase_fold in H.
    pose proof (LI_fold order [] s0 s1 LI_init V H) as HLI. cbn [app] in HLI.
    split; [exact HLI|].
    intros y Ly Sy Ny sh.
    assert (W1 : wf_dag (pg (s_g s1))) by apply (j_wf _ (li_J _ _ HLI)).
    assert (U1 : forall k r r', In (k, r) (s_pm s1) -> In (k, r') (s_pm s1) -> r = r').
    { intros k r r'. apply sorted_keys_unique. apply (j_pm_sorted _ (li_J _ _ HLI)). }
    assert (PO : forall k, ~ In k T -> pm_get (s_pm s1) k = pm_get pm0 k).
    { intros k Hk. apply (li_pm_other _ _ HLI). intros Ho. apply Hk. now apply (li_done_T _ _ HLI). }
    assert (PT : forall k r, In k T -> pm_get (s_pm s1) k = Some r -> not_divergent r = true).
    { intros k r Hk Gk. apply (li_pm_done _ _ HLI k r); auto. }
    assert (PA : forall y', (In y' T /\ pm_get (s_pm s1) y' = None) \/ (n0 <= y' < length (s_g s1)) ->
               forall q, In q (c_parents (getc (s_g s1) y')) -> pm_nd (s_pm s1) q = None /\ (q < n0 -> In q Scope)).
    { intros y' Hy q Hq.
      assert (S : Settled order s1 q).
      { eapply (li_parents _ _ HLI); [|exact Hq]. destruct Hy as [[A B]|A]; [left; auto|right; exact A]. }
      destruct S as [_ [A [_ B]]]. auto. }
    exact (clean_all (s_g s1) (s_pm s1) W1 (li_len _ _ HLI) (li_old _ _ HLI) U1 PO PA y Ly Sy Ny).
  Qed.
End Loop.

(** The boolean order check means [valid_from]. *)
Lemma valid_fromb_spec s0 o order : forall done,
  valid_fromb (s_g s0) (s_pm s0) (find_descendants_for_rebase s0 (o_imm o)) done order = true ->
  valid_from s0 o done order.
Proof.
  induction order as [|x t IH]; intros done H; cbn [valid_fromb valid_from] in *; [exact I|].
  rewrite !andb_true_iff in H. destruct H as [[[H1 H2] H3] H4].
  apply memn_In in H1. apply negb_true_iff, memn_false in H2. rewrite forallb_forall in H3.
  split; [assumption|]. split; [assumption|]. split; [|split; [|now apply IH]].
  - intros p Hp HpT. specialize (H3 p Hp). apply andb_true_iff in H3. destruct H3 as [H3 _].
    apply orb_true_iff in H3. destruct H3 as [H3|H3]; [|now apply memn_In].
    apply negb_true_iff, memn_false in H3. contradiction.
  - intros p q Hp HR HqT. specialize (H3 p Hp). apply andb_true_iff in H3. destruct H3 as [_ H3].
    destruct (repl_closure (s_pm s0) p) as [cl|] eqn:E; [|discriminate].
    rewrite forallb_forall in H3. specialize (H3 q (repl_closure_complete _ _ _ _ E HR)).
    apply orb_true_iff in H3. destruct H3 as [H3|H3]; [|now apply memn_In].
    apply negb_true_iff, memn_false in H3. contradiction.
Qed.
