(** C38 — proofs, part 3 (after the repair of /repo, fix 26901e2): on a closed stream every
    unresolved origin points outside the searched range — the early exit of
    [process_commits] never leaves a commit of the domain pending, because an omitted parent
    is counted once in [num_unresolved_roots] however many commits reach it. *)
From Verif Require Import Base.Prelude Base.DagR Model.C38 Proofs.C38.
From Coq Require Import Lia Arith.
Import ListNotations.
Local Open Scope nat_scope.

(* ------------------------------------------------------------------ association lists *)

Definition keys {A} (l : list (nat * A)) : list nat := map fst l.

Lemma lookup_In {A} k (v : A) l : lookup k l = Some v -> In (k, v) l.
Proof.
  induction l as [|[k' v'] t IH]; cbn; [discriminate|].
  destruct (Nat.eqb_spec k k'); intros H.
  - inversion H; subst. now left.
  - right. auto.
Qed.

Lemma lookup_none_keys {A} k (l : list (nat * A)) : lookup k l = None <-> ~ In k (keys l).
Proof.
  induction l as [|[k' v'] t IH]; cbn; [tauto|].
  destruct (Nat.eqb_spec k k').
  - split; [discriminate|]. intros H. exfalso. apply H. left. auto.
  - rewrite IH. split; intros H; [intros [E|E]; [congruence|tauto]|tauto].
Qed.

Lemma lookup_some_keys {A} k (l : list (nat * A)) : In k (keys l) -> exists v, lookup k l = Some v.
Proof.
  intros H. destruct (lookup k l) eqn:E; eauto. apply lookup_none_keys in E. contradiction.
Qed.

Lemma keys_remove_key {A} k (l : list (nat * A)) k' :
  In k' (keys (remove_key k l)) <-> k' <> k /\ In k' (keys l).
Proof.
  induction l as [|[k0 v] t IH]; cbn; [tauto|].
  destruct (Nat.eqb_spec k k0).
  - subst. rewrite IH. split; [tauto|]. intros [H1 [H2|H2]]; [congruence|tauto].
  - cbn. rewrite IH. split.
    + intros [H|H]; [subst; split; auto|tauto].
    + intros [H1 [H2|H2]]; auto.
Qed.

Lemma NoDup_remove_key {A} k (l : list (nat * A)) : NoDup (keys l) -> NoDup (keys (remove_key k l)).
Proof.
  induction l as [|[k0 v] t IH]; cbn; auto. intros H. inversion H; subst.
  destruct (Nat.eqb_spec k k0); auto. cbn. constructor; auto.
  intros Hin. apply keys_remove_key in Hin. tauto.
Qed.

Lemma NoDup_set_key {A} k (v : A) l : NoDup (keys l) -> NoDup (keys (set_key k v l)).
Proof.
  intros H. unfold set_key. cbn. constructor; [|now apply NoDup_remove_key].
  intros Hin. apply keys_remove_key in Hin. tauto.
Qed.

Lemma remove_key_absent {A} k (l : list (nat * A)) : ~ In k (keys l) -> remove_key k l = l.
Proof.
  induction l as [|[k0 v] t IH]; cbn; auto. intros H.
  destruct (Nat.eqb_spec k k0); [exfalso; apply H; left; auto|]. f_equal. apply IH. tauto.
Qed.

Lemma filter_length_le' {A} (f : A -> bool) l : length (filter f l) <= length l.
Proof. induction l as [|a t IH]; cbn; auto. destruct (f a); cbn; lia. Qed.

Section Strict.
  Variable matching : nat -> nat -> list range3.
  Variable nodes : list node.

  (** [p] is the target of a missing edge: a commit outside the searched range. *)
  Definition is_mt (p : nat) : bool :=
    existsb (fun nd => existsb (fun e => is_missing e && Nat.eqb (fst e) p) (snd nd)) nodes.

  Lemma is_mt_intro nd e : In nd nodes -> In e (snd nd) -> is_missing e = true ->
    is_mt (fst e) = true.
  Proof.
    intros Hnd He Hm. unfold is_mt. apply existsb_exists. exists nd. split; auto.
    apply existsb_exists. exists e. split; auto. rewrite Hm, Nat.eqb_refl. reflexivity.
  Qed.
  Lemma is_mt_elim p : is_mt p = true ->
    exists nd e, In nd nodes /\ In e (snd nd) /\ is_missing e = true /\ fst e = p.
  Proof.
    unfold is_mt. rewrite existsb_exists. intros [nd [Hnd H]]. apply existsb_exists in H.
    destruct H as [e [He H]]. apply andb_true_iff in H. destruct H as [Hm Hp].
    apply Nat.eqb_eq in Hp. exists nd, e. auto.
  Qed.

  (** Validity of the stream beyond [inputs_ok] (all decidable, see Model.C38.stream_okb). *)
  Hypothesis H_mt_not_node : forall nd, In nd nodes -> is_mt (fst nd) = false.
  Hypothesis H_closed : forall pre nd post, nodes = pre ++ nd :: post ->
    forall e, In e (snd nd) -> is_missing e = false -> In (fst e) (map fst post).

  Lemma nonmissing_not_mt pre nd post e : nodes = pre ++ nd :: post -> In e (snd nd) ->
    is_missing e = false -> is_mt (fst e) = false.
  Proof.
    intros Hn He Hm. assert (Hin := H_closed pre nd post Hn e He Hm).
    apply in_map_iff in Hin. destruct Hin as [nd' [Hf Hnd']]. rewrite <- Hf.
    apply H_mt_not_node. rewrite Hn. apply in_or_app. right. right. exact Hnd'.
  Qed.

  (** a settled line: resolved, or left in an omitted parent (where it is still recorded, so
      that a later, wider [compute] call can pick it up) *)
  Definition final (st : state) (o : origin) (s : nat) : Prop :=
    o_ok o = true \/
    (is_mt (o_commit o) = true /\
     exists m x, lookup (o_commit o) (st_srcs st) = Some m /\ In (x, s) m).

  Lemma final_step st st' o s : final st o s ->
    (forall q m x, is_mt q = true -> lookup q (st_srcs st) = Some m -> In (x, s) m ->
       exists m', lookup q (st_srcs st') = Some m' /\ In (x, s) m') ->
    final st' o s.
  Proof.
    intros [H|[Hm [m [x [Hl Hx]]]]] Hk; [now left|]. right. split; auto.
    destruct (Hk _ _ _ Hm Hl Hx) as [m' [Hl' Hx']]. eauto.
  Qed.

  Definition count_mt (l : list (nat * lmap)) : nat :=
    length (filter (fun kv => is_mt (fst kv)) l).

  Lemma count_mt_le l : count_mt l <= length l.
  Proof. unfold count_mt. apply filter_length_le'. Qed.

  Lemma count_mt_all l : count_mt l = length l -> forall k, In k (keys l) -> is_mt k = true.
  Proof.
    unfold count_mt, keys. induction l as [|[k0 v] t IH]; cbn; [intros _ ? []|].
    destruct (is_mt k0) eqn:E; cbn.
    - intros H k [<-|Hk]; auto; apply IH; auto.
    - intros H. assert (Hl := filter_length_le' (fun kv : nat * lmap => is_mt (fst kv)) t). lia.
  Qed.

  Lemma count_mt_remove_key k l : is_mt k = false -> count_mt (remove_key k l) = count_mt l.
  Proof.
    intros Hk. unfold count_mt. induction l as [|[k0 v] t IH]; cbn; auto.
    destruct (Nat.eqb_spec k k0).
    - subst. cbn. rewrite Hk. exact IH.
    - cbn. destruct (is_mt k0); cbn; now rewrite IH.
  Qed.

  (** lines pending in the detached current map or in a source of a commit of the domain *)
  Definition pend (st : state) (extra : lmap) (s : nat) : Prop :=
    (exists x, In (x, s) extra) \/
    exists c m x, lookup c (st_srcs st) = Some m /\ is_mt c = false /\ In (x, s) m.

  Record K (post : list node) (st : state) (extra : lmap) : Prop := {
    Kf : forall s o, nth_error (st_olm st) s = Some o -> final st o s \/ pend st extra s;
    Kk : forall c m, lookup c (st_srcs st) = Some m ->
           m <> [] /\ (is_mt c = true \/ In c (map fst post));
    Kn : NoDup (keys (st_srcs st));
    Ku : st_unres st <= count_mt (st_srcs st);
    Kb : (forall x s, In (x, s) extra -> s < length (st_olm st)) /\
         (forall c m x s, lookup c (st_srcs st) = Some m -> In (x, s) m -> s < length (st_olm st));
  }.

  (* ---------------------------------------------------------------- set_origins, forward *)

  Lemma nth_error_set_nth_eq {A} k (v : A) : forall l, k < length l ->
    nth_error (set_nth k v l) k = Some v.
  Proof. induction k; intros [|a l] H; cbn in *; try lia; auto. apply IHk. lia. Qed.
  Lemma nth_error_set_nth_neq {A} k (v : A) : forall l s, s <> k ->
    nth_error (set_nth k v l) s = nth_error l s.
  Proof.
    induction k; intros [|a l] s H; cbn; auto.
    - destruct s; [congruence|reflexivity].
    - destruct s; auto. cbn. apply IHk. lia.
  Qed.

  (** an index listed in the updates ends up with one of the listed values *)
  Lemma set_origins_hit upd : forall o s, s < length o -> In s (map fst upd) ->
    exists u, In (s, u) upd /\ nth_error (set_origins o upd) s = Some u.
  Proof.
    induction upd as [|[k u] t IH]; intros o s Hs Hin; cbn in *; [tauto|].
    destruct (in_dec Nat.eq_dec s (map fst t)) as [Ht|Ht].
    - destruct (IH (set_nth k u o) s) as [u' [Hu' Hn]]; [now rewrite set_nth_length|exact Ht|].
      exists u'. auto.
    - destruct Hin as [->|Hin]; [|contradiction].
      exists u. split; auto.
      assert (Hkeep : forall upd' o', ~ In s (map fst upd') ->
                nth_error (set_origins o' upd') s = nth_error o' s).
      { induction upd' as [|[k' u'] t' IH']; intros o' Hni; cbn [set_origins]; auto.
        cbn [map fst In] in Hni.
        rewrite IH' by (intros F; apply Hni; right; exact F).
        apply nth_error_set_nth_neq. intros F. apply Hni. left. congruence. }
      rewrite Hkeep by exact Ht. now apply nth_error_set_nth_eq.
  Qed.

  (* ---------------------------------------------------------------- line bookkeeping *)

  Definition lines (m : lmap) : list nat := map snd m.

  Lemma take_below_lines bound l a b : take_below bound l = (a, b) -> l = a ++ b.
  Proof. intros H. exact (proj1 (take_below_spec bound l a b H)). Qed.

  (** [split_lines] only moves lines around: none is lost, none is invented. *)
  Lemma split_lines_lines rs : forall cur nc np rest nc' np',
    split_lines rs cur nc np = (rest, nc', np') ->
    forall s, In s (lines rest ++ lines nc' ++ lines np') <-> In s (lines cur ++ lines nc ++ lines np).
  Proof.
    induction rs as [|r t IH]; intros cur nc np rest nc' np' H s; cbn [split_lines] in H.
    - inversion H; subst. reflexivity.
    - destruct (take_below (r_cs r) cur) as [below rest0] eqn:E1.
      destruct (take_below (r_cs r + r_cnt r) rest0) as [inside rest1] eqn:E2.
      apply take_below_lines in E1. apply take_below_lines in E2. subst cur rest0.
      rewrite (IH _ _ _ _ _ _ H s). unfold lines. rewrite !map_app, map_map. cbn [snd].
      rewrite !in_app_iff. tauto.
  Qed.

  Lemma in_lines m s : In s (lines m) <-> exists x, In (x, s) m.
  Proof.
    unfold lines. rewrite in_map_iff. split.
    - intros [[x s'] [<- H]]. exists x. exact H.
    - intros [x H]. exists (x, s). auto.
  Qed.

  Lemma count_mt_set_key k v l :
    count_mt (set_key k v l) = (if is_mt k then 1 else 0) + count_mt (remove_key k l).
  Proof. unfold count_mt, set_key. cbn. destruct (is_mt k); reflexivity. Qed.

  Lemma count_mt_present k l : NoDup (keys l) -> In k (keys l) -> is_mt k = true ->
    count_mt l = 1 + count_mt (remove_key k l).
  Proof.
    unfold count_mt. induction l as [|[k0 v] t IH]; cbn [keys map fst]; intros Hn Hin Hm; [destruct Hin|].
    inversion Hn as [|? ? Hni Hn']; subst. cbn [remove_key filter fst].
    destruct (Nat.eqb_spec k k0) as [->|Hne].
    - rewrite Hm. cbn [length]. rewrite (remove_key_absent k0 t Hni). reflexivity.
    - destruct Hin as [E|Hin]; [congruence|]. cbn [filter fst].
      destruct (is_mt k0); cbn [length]; rewrite (IH Hn' Hin Hm); lia.
  Qed.

  (* ---------------------------------------------------------------- one edge *)

  Lemma process_edge_K pre nd post e st curmap st' curmap' :
    nodes = pre ++ nd :: post -> In e (snd nd) ->
    K post st curmap ->
    process_edge matching false (fst nd) (st, curmap) e = (st', curmap') ->
    K post st' curmap'.
  Proof.
    intros Hn He HK H.
    assert (Hnd : In nd nodes) by (rewrite Hn; apply in_or_app; right; now left).
    destruct HK as [Kf0 Kk0 Kn0 Ku0 [Kb1 Kb2]].
    set (c := fst nd) in *. set (p := fst e) in *.
    unfold process_edge in H. fold p in H.
    destruct (split_lines (matching c p) curmap [] []) as [[rest newcur] newpar] eqn:Es.
    assert (Hlines := split_lines_lines _ _ _ _ _ _ _ Es).
    set (pmap := match lookup p (st_srcs st) with Some m => m | None => [] end) in *.
    set (pmap' := match pmap with [] => newpar | _ => merge_maps pmap newpar end) in *.
    assert (Hpm' : forall y, In y pmap' <-> In y pmap \/ In y newpar).
    { intros y. unfold pmap'. destruct pmap as [|a t] eqn:Ep; [cbn; tauto|]. apply merge_maps_In. }
    assert (Hcur' : forall s, In s (lines (newcur ++ rest)) \/ In s (lines newpar) <-> In s (lines curmap)).
    { intros s. specialize (Hlines s). unfold lines in *. cbn [map] in Hlines.
      rewrite !map_app, !in_app_iff in *. cbn [In] in Hlines. tauto. }
    assert (Hpmap_lookup : forall m, lookup p (st_srcs st) = Some m -> m = pmap).
    { intros m Hl. unfold pmap. now rewrite Hl. }
    assert (Hpmap_in : forall y, In y pmap -> exists m, lookup p (st_srcs st) = Some m /\ In y m).
    { intros y Hy. unfold pmap in Hy. destruct (lookup p (st_srcs st)) as [m|]; [eauto|destruct Hy]. }
    assert (Hpmap_key : pmap <> [] -> In p (keys (st_srcs st))).
    { intros Hne. destruct pmap as [|y ?] eqn:Ep; [congruence|].
      destruct (Hpmap_in y (or_introl eq_refl)) as [m [Hl _]].
      destruct (in_dec Nat.eq_dec p (keys (st_srcs st))) as [Hi|Hi]; auto.
      apply lookup_none_keys in Hi. congruence. }
    assert (Hpmap_nokey : pmap = [] -> ~ In p (keys (st_srcs st))).
    { intros Hpm Hk. destruct (lookup_some_keys _ _ Hk) as [m Hl].
      destruct (Kk0 p m Hl) as [Hne _]. apply Hne. rewrite (Hpmap_lookup m Hl). exact Hpm. }
    destruct pmap' as [|a t] eqn:Epm'.
    - (* nothing for the parent *)
      inversion H; subst st' curmap'; clear H.
      assert (Hnp : newpar = [] /\ pmap = []).
      { split.
        - destruct newpar as [|y ?]; auto. exfalso. destruct (proj2 (Hpm' y)); auto. right. now left.
        - destruct pmap as [|y ?]; auto. exfalso. destruct (proj2 (Hpm' y)); auto. left. now left. }
      destruct Hnp as [Hnp Hpm].
      rewrite (remove_key_absent p _ (Hpmap_nokey Hpm)).
      assert (Hsame : forall s, In s (lines (newcur ++ rest)) <-> In s (lines curmap)).
      { intros s. rewrite <- Hcur'. rewrite Hnp. cbn. tauto. }
      constructor; cbn [st_olm st_srcs st_unres]; auto.
      + intros s o Ho. destruct (Kf0 s o Ho) as [Hf|[Hx|Hx]].
        * left. exact Hf.
        * right. left. apply in_lines. apply Hsame. apply in_lines. exact Hx.
        * right. right. exact Hx.
      + split; auto. intros x s Hin. assert (Hs : In s (lines curmap)) by (apply Hsame; apply in_lines; eauto).
        apply in_lines in Hs. destruct Hs as [x0 Hx0]. eapply Kb1; eauto.
    - remember (a :: t) as pm eqn:Epm. cbv beta iota in H.
      assert (Hpmne : pm <> []) by (rewrite Epm; discriminate).
      assert (Hlen_upd : forall upd, length (set_origins (st_olm st) upd) = length (st_olm st))
        by (intros; apply set_origins_length).
      assert (Hpm_bound : forall x s, In (x, s) pm -> s < length (st_olm st)).
      { intros x s Hin. apply Hpm' in Hin. destruct Hin as [Hin|Hin].
        - destruct (Hpmap_in _ Hin) as [m [El Hm]]. eapply Kb2; eauto.
        - assert (Hs : In s (lines curmap)) by (apply Hcur'; right; apply in_lines; eauto).
          apply in_lines in Hs. destruct Hs as [x0 Hx0]. eapply Kb1; eauto. }
      assert (Hcur_bound : forall x s, In (x, s) (newcur ++ rest) -> s < length (st_olm st)).
      { intros x s Hin. assert (Hs : In s (lines curmap)) by (apply Hcur'; left; apply in_lines; eauto).
        apply in_lines in Hs. destruct Hs as [x0 Hx0]. eapply Kb1; eauto. }
      assert (Hsrcs'_lookup : forall c0 m, lookup c0 (set_key p pm (st_srcs st)) = Some m ->
                (c0 = p /\ m = pm) \/ (c0 <> p /\ lookup c0 (st_srcs st) = Some m)).
      { intros c0 m Hl. destruct (Nat.eq_dec c0 p) as [->|Hne].
        - rewrite lookup_set_key_eq in Hl. inversion Hl. auto.
        - rewrite lookup_set_key_neq in Hl by assumption. auto. }
      destruct (is_missing e) eqn:Em; inversion H; subst st' curmap'; clear H.
      + (* missing edge: the parent's lines become unresolved *)
        assert (Hmtp : is_mt p = true) by (apply (is_mt_intro nd e); auto).
        constructor; cbn [st_olm st_srcs st_unres].
        * intros s o Ho'. assert (Ho := Ho'). apply set_origins_spec in Ho.
          set (st2 := mk_state
                        (set_origins (st_olm st)
                           (map (fun ps : nat * nat => (snd ps, mk_origin false p (fst ps))) pm))
                        (set_key p pm (st_srcs st)) (match pmap with [] => S (st_unres st) | _ => st_unres st end)).
          assert (Hupd_final : forall u, In (s, u) (map (fun ps : nat * nat => (snd ps, mk_origin false p (fst ps))) pm) ->
                    final st2 u s).
          { intros u Hu. apply in_map_iff in Hu. destruct Hu as [[x0 s0] [Heq Hin0]].
            cbn [fst snd] in Heq. injection Heq as Hs0 Hu'. subst s0 u.
            right. cbn [o_commit]. split; [exact Hmtp|]. exists pm, x0. unfold st2. cbn [st_srcs].
            split; [apply lookup_set_key_eq|exact Hin0]. }
          assert (Hkeep : forall q m x, is_mt q = true -> lookup q (st_srcs st) = Some m -> In (x, s) m ->
                    exists m', lookup q (st_srcs st2) = Some m' /\ In (x, s) m').
          { intros q m x Hq Hl Hx. unfold st2. cbn [st_srcs]. destruct (Nat.eq_dec q p) as [->|Hne].
            - exists pm. split; [apply lookup_set_key_eq|]. apply Hpm'. left.
              rewrite <- (Hpmap_lookup m Hl). exact Hx.
            - exists m. split; auto. now rewrite lookup_set_key_neq. }
          destruct Ho as [[u [Hu ->]]|Ho]; [left; now apply Hupd_final|].
          destruct (Kf0 s o Ho) as [Hf|[[x Hx]|[c0 [m [x [Hl [Hm0 Hx]]]]]]].
          -- left. exact (final_step st st2 o s Hf Hkeep).
          -- assert (Hs : In s (lines (newcur ++ rest)) \/ In s (lines newpar))
               by (apply Hcur'; apply in_lines; eauto).
             destruct Hs as [Hs|Hs]; [right; left; apply in_lines; exact Hs|].
             (* the line moved to the omitted parent: it was just overwritten *)
             apply in_lines in Hs. destruct Hs as [x1 Hx1].
             assert (Hin_pm : In (x1, s) pm) by (apply Hpm'; right; exact Hx1).
             assert (Hidx : In s (map fst (map (fun ps : nat * nat => (snd ps, mk_origin false p (fst ps))) pm))).
             { rewrite map_map. cbn [fst]. apply in_map_iff. exists (x1, s). auto. }
             destruct (set_origins_hit _ (st_olm st) s (Hpm_bound _ _ Hin_pm) Hidx) as [u [Hu Hn']].
             left. assert (o = u) by congruence. subst. now apply Hupd_final.
          -- right. right. exists c0, m, x. split; [|auto]. cbn [st_srcs].
             rewrite lookup_set_key_neq; auto. intros ->. congruence.
        * intros c0 m Hl. destruct (Hsrcs'_lookup c0 m Hl) as [[-> ->]|[Hne Hl0]].
          { split; auto. }
          apply (Kk0 c0 m Hl0).
        * now apply NoDup_set_key.
        * (* the omitted parent is counted when it becomes pending, and only then *)
          rewrite count_mt_set_key, Hmtp. destruct pmap as [|y yt] eqn:Ep.
          -- rewrite (remove_key_absent p _ (Hpmap_nokey eq_refl)). lia.
          -- assert (Hk : In p (keys (st_srcs st))) by (apply Hpmap_key; discriminate).
             rewrite (count_mt_present p _ Kn0 Hk Hmtp) in Ku0. exact Ku0.
        * rewrite Hlen_upd. split; [exact Hcur_bound|].
          intros c0 m x s Hl Hin. destruct (Hsrcs'_lookup c0 m Hl) as [[-> ->]|[Hne Hl0]].
          { eapply Hpm_bound; eauto. }
          eapply Kb2; eauto.
      + (* edge to a commit of the searched graph *)
        assert (Hmtp : is_mt p = false) by (apply (nonmissing_not_mt pre nd post e); auto).
        constructor; cbn [st_olm st_srcs st_unres].
        * intros s o Ho. destruct (Kf0 s o Ho) as [Hf|[[x Hx]|[c0 [m [x [Hl [Hm0 Hx]]]]]]].
          -- left. apply (final_step st _ o s Hf). intros q m x Hq Hl Hx. cbn [st_srcs].
             exists m. split; auto. rewrite lookup_set_key_neq; auto. intros ->. congruence.
          -- assert (Hs : In s (lines (newcur ++ rest)) \/ In s (lines newpar))
               by (apply Hcur'; apply in_lines; eauto).
             destruct Hs as [Hs|Hs]; [right; left; apply in_lines; exact Hs|].
             apply in_lines in Hs. destruct Hs as [x1 Hx1].
             right. right. exists p, pm, x1. cbn [st_srcs]. split; [apply lookup_set_key_eq|]. split; auto.
             apply Hpm'. right. exact Hx1.
          -- right. right. destruct (Nat.eq_dec c0 p) as [->|Hne].
             ++ exists p, pm, x. cbn [st_srcs]. split; [apply lookup_set_key_eq|]. split; auto.
                apply Hpm'. left. rewrite <- (Hpmap_lookup m Hl). exact Hx.
             ++ exists c0, m, x. cbn [st_srcs]. split; [|auto]. now rewrite lookup_set_key_neq.
        * intros c0 m Hl. destruct (Hsrcs'_lookup c0 m Hl) as [[-> ->]|[Hne Hl0]].
          { split; auto. right. apply (H_closed pre nd post Hn e He Em). }
          apply (Kk0 c0 m Hl0).
        * now apply NoDup_set_key.
        * rewrite count_mt_set_key, Hmtp. cbn [Nat.add]. now rewrite count_mt_remove_key.
        * split; [exact Hcur_bound|].
          intros c0 m x s Hl Hin. destruct (Hsrcs'_lookup c0 m Hl) as [[-> ->]|[Hne Hl0]].
          { eapply Hpm_bound; eauto. }
          eapply Kb2; eauto.
  Qed.

  Lemma fold_edges_K pre nd post : nodes = pre ++ nd :: post ->
    forall todo st curmap st' curmap', (forall e, In e todo -> In e (snd nd)) ->
    K post st curmap ->
    fold_left (process_edge matching false (fst nd)) todo (st, curmap) = (st', curmap') ->
    K post st' curmap'.
  Proof.
    intros Hn. induction todo as [|e t IH]; intros st curmap st' curmap' Hsub HK H.
    - cbn in H. inversion H; subst. exact HK.
    - cbn [fold_left] in H.
      destruct (process_edge matching false (fst nd) (st, curmap) e) as [st1 cm1] eqn:E1.
      assert (HK1 := process_edge_K pre nd post e st curmap st1 cm1 Hn (Hsub e (or_introl eq_refl)) HK E1).
      apply (IH st1 cm1); auto. intros e0 He0. apply Hsub. now right.
  Qed.

  Lemma no_pend_all_mt st s :
    (forall c, In c (keys (st_srcs st)) -> is_mt c = true) -> ~ pend st [] s.
  Proof.
    intros Hall [[x []]|[c [m [x [Hl [Hm _]]]]]].
    assert (Hk : In c (keys (st_srcs st))).
    { destruct (in_dec Nat.eq_dec c (keys (st_srcs st))) as [Hi|Hi]; auto.
      apply lookup_none_keys in Hi. congruence. }
    rewrite (Hall c Hk) in Hm. discriminate.
  Qed.

  Lemma process_commit_K pre nd post st : nodes = pre ++ nd :: post ->
    K (nd :: post) st [] -> K post (process_commit matching false st nd) [].
  Proof.
    intros Hn HK.
    assert (Hnd : In nd nodes) by (rewrite Hn; apply in_or_app; right; now left).
    assert (Hcmt : is_mt (fst nd) = false) by now apply H_mt_not_node.
    unfold process_commit.
    destruct (lookup (fst nd) (st_srcs st)) as [curmap|] eqn:El.
    - destruct HK as [Kf0 Kk0 Kn0 Ku0 [Kb1 Kb2]].
      set (st0 := mk_state (st_olm st) (remove_key (fst nd) (st_srcs st)) (st_unres st)).
      assert (HK0 : K post st0 curmap).
      { unfold st0. constructor; cbn [st_olm st_srcs st_unres].
        - intros s o Ho. destruct (Kf0 s o Ho) as [Hf|[[x []]|[c0 [m [x [Hl [Hm Hx]]]]]]].
          { left. apply (final_step st _ o s Hf). intros q m x Hq Hl Hx. cbn [st_srcs].
            exists m. split; auto. rewrite lookup_remove_key_neq; auto. intros ->. congruence. }
          right. destruct (Nat.eq_dec c0 (fst nd)) as [->|Hne].
          + left. exists x. assert (m = curmap) by congruence. now subst.
          + right. exists c0, m, x. cbn [st_srcs]. rewrite lookup_remove_key_neq; auto.
        - intros c0 m Hl. destruct (Nat.eq_dec c0 (fst nd)) as [->|Hne].
          + now rewrite lookup_remove_key_eq in Hl.
          + rewrite lookup_remove_key_neq in Hl by assumption.
            destruct (Kk0 c0 m Hl) as [Hne' [Hm|Hin]]; split; auto.
            cbn in Hin. destruct Hin as [E|Hin]; [congruence|auto].
        - now apply NoDup_remove_key.
        - now rewrite count_mt_remove_key.
        - split.
          + intros x s Hin. eapply Kb2; eauto.
          + intros c0 m x s Hl Hin. destruct (Nat.eq_dec c0 (fst nd)) as [->|Hne].
            * now rewrite lookup_remove_key_eq in Hl.
            * rewrite lookup_remove_key_neq in Hl by assumption. eapply Kb2; eauto. }
      destruct (fold_left (process_edge matching false (fst nd)) (snd nd) (st0, curmap)) as [st1 rest] eqn:Ef.
      assert (HK1 := fold_edges_K pre nd post Hn (snd nd) st0 curmap st1 rest (fun e He => He) HK0 Ef).
      destruct HK1 as [Kf1 Kk1 Kn1 Ku1 [Kb11 Kb12]].
      constructor; cbn [st_olm st_srcs st_unres].
      + intros s o Ho'. assert (Ho := Ho'). apply set_origins_spec in Ho.
        destruct Ho as [[u [Hu ->]]|Ho].
        { left. apply in_map_iff in Hu. destruct Hu as [[x0 s0] [Heq _]]. inversion Heq. left. reflexivity. }
        destruct (Kf1 s o Ho) as [Hf|[[x Hx]|Hx]].
        * left. apply (final_step st1 _ o s Hf). intros q m x Hq Hl Hx. cbn [st_srcs]. eauto.
        * (* the line stayed with the current commit: it has just been resolved *)
          assert (Hidx : In s (map fst (map (fun cs : nat * nat => (snd cs, mk_origin true (fst nd) (fst cs))) rest))).
          { rewrite map_map. cbn [fst]. apply in_map_iff. exists (x, s). auto. }
          destruct (set_origins_hit _ (st_olm st1) s (Kb11 _ _ Hx) Hidx) as [u [Hu Hn']].
          left. assert (o = u) by congruence. subst.
          apply in_map_iff in Hu. destruct Hu as [[x0 s0] [Heq _]]. inversion Heq. left. reflexivity.
        * right. right. exact Hx.
      + exact Kk1.
      + exact Kn1.
      + exact Ku1.
      + rewrite set_origins_length. split; [intros ? ? []|exact Kb12].
    - destruct HK as [Kf0 Kk0 Kn0 Ku0 Kb0]. constructor; auto.
      intros c0 m Hl. destruct (Kk0 c0 m Hl) as [Hne [Hm|Hin]]; split; auto.
      cbn in Hin. destruct Hin as [E|Hin]; [congruence|auto].
  Qed.

  (** what a finished [compute] call leaves behind *)
  Definition done_ok (st : state) : Prop :=
    (forall s o, nth_error (st_olm st) s = Some o -> final st o s) /\
    (forall c, In c (keys (st_srcs st)) -> is_mt c = true) /\
    NoDup (keys (st_srcs st)) /\
    (forall c m, lookup c (st_srcs st) = Some m -> m <> []) /\
    (forall c m x s, lookup c (st_srcs st) = Some m -> In (x, s) m -> s < length (st_olm st)).

  Lemma K_all_mt_done post st :
    K post st [] -> (forall c, In c (keys (st_srcs st)) -> is_mt c = true) -> done_ok st.
  Proof.
    intros HK Hall. destruct HK as [Kf0 Kk0 Kn0 Ku0 [Kb1 Kb2]]. repeat split; auto.
    - intros s o Ho. destruct (Kf0 s o Ho) as [Hf|Hp]; auto. exfalso.
      now apply (no_pend_all_mt st s).
    - intros c m Hl. apply (Kk0 c m Hl).
  Qed.

  Lemma process_nodes_K : forall post pre st, nodes = pre ++ post -> K post st [] ->
    done_ok (process_nodes matching false st post).
  Proof.
    induction post as [|nd t IH]; intros pre st Hn HK; cbn [process_nodes].
    - apply (K_all_mt_done [] st HK). intros c Hc.
      destruct (lookup_some_keys _ _ Hc) as [m Hl].
      destruct (Kk _ _ _ HK c m Hl) as [_ [Hm|[]]]. exact Hm.
    - assert (HK1 := process_commit_K pre nd t st Hn HK).
      set (st1 := process_commit matching false st nd) in *.
      destruct (Nat.eqb_spec (length (st_srcs st1)) (st_unres st1)) as [E|E].
      + apply (K_all_mt_done t st1 HK1).
        apply count_mt_all. assert (H1 := Ku _ _ _ HK1). assert (H2 := count_mt_le (st_srcs st1)). lia.
      + refine (IH (pre ++ [nd]) st1 _ HK1). rewrite <- app_assoc. exact Hn.
  Qed.

  (** what one [compute] call may start from: every unresolved line is still recorded in the
      source of the commit it was left in *)
  Definition ready (st : state) : Prop :=
    NoDup (keys (st_srcs st)) /\
    (forall c m, lookup c (st_srcs st) = Some m -> m <> []) /\
    (forall c m x s, lookup c (st_srcs st) = Some m -> In (x, s) m -> s < length (st_olm st)) /\
    (forall s o, nth_error (st_olm st) s = Some o ->
       o_ok o = true \/ exists m x, lookup (o_commit o) (st_srcs st) = Some m /\ In (x, s) m).

  (** One [compute] call on a closed stream that contains every pending commit: afterwards
      every unresolved origin and every pending commit is the target of a missing edge of
      this call — a commit outside the range this call searched. *)
  Theorem run_phase_strict st : ready st ->
    (forall c, In c (keys (st_srcs st)) -> In c (map fst nodes)) ->
    done_ok (run_phase matching false st nodes).
  Proof.
    intros [Rn [Rk [Rb Rf]]] Hkeys. unfold run_phase.
    apply (process_nodes_K nodes [] _ eq_refl).
    assert (Hnode_mt : forall c, In c (map fst nodes) -> is_mt c = false).
    { intros c Hc. apply in_map_iff in Hc. destruct Hc as [nd [<- Hnd]]. now apply H_mt_not_node. }
    assert (Hkey_of : forall c m, lookup c (st_srcs st) = Some m -> In c (keys (st_srcs st))).
    { intros c m Hl. destruct (in_dec Nat.eq_dec c (keys (st_srcs st))) as [Hi|Hi]; auto.
      apply lookup_none_keys in Hi. congruence. }
    constructor; cbn [st_olm st_srcs st_unres].
    - intros s o Ho. destruct (Rf s o Ho) as [Hok|[m [x [Hl Hx]]]]; [left; now left|].
      right. right. exists (o_commit o), m, x. split; auto. split; auto.
      apply Hnode_mt, Hkeys. eapply Hkey_of; eauto.
    - intros c m Hl. split; [eapply Rk; eauto|]. right. apply Hkeys. eapply Hkey_of; eauto.
    - exact Rn.
    - lia.
    - split; [intros ? ? []|exact Rb].
  Qed.

  Lemma done_ready st : done_ok st -> ready st.
  Proof.
    intros [Hf [_ [Hn [Hk Hb]]]]. repeat split; auto.
    intros s o Ho. destruct (Hf s o Ho) as [Hok|[_ H]]; auto.
  Qed.

  Lemma done_strict st : done_ok st ->
    forall s o, nth_error (st_olm st) s = Some o -> o_ok o = true \/ is_mt (o_commit o) = true.
  Proof. intros [Hf _] s o Ho. destruct (Hf s o Ho) as [Hok|[Hm _]]; auto. Qed.
End Strict.

Lemma init_ready start nlines : 0 < nlines -> ready (init_state start nlines).
Proof.
  intros Hpos. unfold init_state, ready. cbn [st_olm st_srcs].
  set (diag := map (fun i => (i, i)) (seq 0 nlines)).
  assert (Hdiag : forall x s0, In (x, s0) diag <-> x = s0 /\ s0 < nlines).
  { intros x s0. unfold diag. rewrite in_map_iff. split.
    - intros [i [Heq Hi]]. inversion Heq; subst. apply in_seq in Hi. split; auto. lia.
    - intros [-> Hs0]. exists s0. split; auto. apply in_seq. lia. }
  split; [cbn; constructor; [intros []|constructor]|]. split; [|split].
  - intros c m Hl. cbn [lookup] in Hl. destruct (Nat.eqb_spec c start); [|discriminate].
    inversion Hl; subst c m. intros Hd. assert (Hin : In (0, 0) diag) by (apply Hdiag; split; auto).
    rewrite Hd in Hin. destruct Hin.
  - intros c m x s0 Hl Hin. cbn [lookup] in Hl. destruct (Nat.eqb_spec c start); [|discriminate].
    inversion Hl; subst c m. apply Hdiag in Hin. rewrite map_length, seq_length. lia.
  - intros s o Ho. right. apply nth_error_map_inv in Ho.
    destruct Ho as [i [Hi ->]]. apply nth_error_seq_inv in Hi. destruct Hi as [-> Hs0].
    cbn [o_commit Nat.add]. exists diag, s. cbn [lookup]. rewrite Nat.eqb_refl. split; auto.
    apply Hdiag. auto.
Qed.
