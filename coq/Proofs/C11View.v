(** C11: after the loop — update_local_bookmarks, update_wc_commits, update_heads — and the
    no-orphans theorem for the view written by rebase_descendants. *)
From Verif Require Import Base.Prelude Base.DagV Model.Merge Model.RepoV Model.C11
  Proofs.C10 Proofs.C11 Proofs.C11Loop Proofs.C11Refs.
From Coq Require Import Lia Arith.

(** * Small facts *)
Lemma somes_In l c : In c (somes l) <-> In (Some c) l.
Proof.
  induction l as [|[x|] t IH]; cbn [somes In]; [tauto| |].
  - rewrite IH. split; [intros [->|H]; auto|intros [E|H]; [injection E; auto|auto]].
  - rewrite IH. split; [auto|intros [E|H]; [discriminate|auto]].
Qed.
Lemma added_ids_In t c : In c (added_ids t) <-> In (Some c) (evens t).
Proof. apply somes_In. Qed.

Lemma intersperse_facts {A} (l : list A) sep : l <> [] ->
  evens (intersperse l sep) = l /\ Nat.odd (length (intersperse l sep)) = true.
Proof.
  induction l as [|x t IH]; intros N; [congruence|].
  destruct t as [|y u]; [split; reflexivity|].
  destruct IH as [IA IB]; [discriminate|].
  change (intersperse (x :: y :: u) sep) with (x :: sep :: intersperse (y :: u) sep).
  split.
  - rewrite evens_cons, odds_cons. now rewrite IA.
  - cbn [length]. now rewrite Nat.odd_succ_succ.
Qed.

(** Folds in the [res] monad preserve invariants. *)
Lemma fold_res_inv {A B} (f : A -> B -> res A) (P : A -> Prop) (l : list B) :
  (forall a b a', P a -> In b l -> f a b = Ok a' -> P a') ->
  forall a a', P a -> fold_left (fun acc b => do x <- acc; f x b) l (Ok a) = Ok a' -> P a'.
Proof.
  induction l as [|b t IH]; intros Hf a a' Pa H; cbn [fold_left] in H.
  - apply Ok_inj in H. now subst.
  - cbn [bind] in H. destruct (f a b) as [a1| | |] eqn:E.
    + apply (IH (fun a0 b0 a0' Pa0 Hb => Hf a0 b0 a0' Pa0 (or_intror Hb)) a1 a'); [|exact H].
      eapply Hf; [exact Pa|now left|exact E].
    + exfalso. eapply (fold_res_stuck _ t Err); [| | | |exact H]; try reflexivity; discriminate.
    + exfalso. eapply (fold_res_stuck _ t Panic); [| | | |exact H]; try reflexivity; discriminate.
    + exfalso. eapply (fold_res_stuck _ t Fuel); [| | | |exact H]; try reflexivity; discriminate.
Qed.

(** * resolve_rewrite_mapping returns, for every key, what rewritten_ids_with computes *)
Lemma resolve_mapping_spec pm pred m :
  resolve_rewrite_mapping pm pred = Ok m ->
  forall k nids, aget Nat.eqb k m = Some nids ->
    pm_filtered pm pred k <> None /\ rewritten_ids_with pm pred [k] = Ok nids.
Proof.
  unfold resolve_rewrite_mapping.
  destruct (topo_order_forward _ _ _ _) as [ids| | |]; cbn [bind]; try discriminate.
  set (P := fun m : list (nat * list nat) => forall k nids, aget Nat.eqb k m = Some nids ->
              pm_filtered pm pred k <> None /\ rewritten_ids_with pm pred [k] = Ok nids).
  intros H. change (P m).
  refine (fold_res_inv (fun (m0 : list (nat * list nat)) old => _) P ids _ [] m _ H).
  - intros a old a' Pa _ Hf. cbv beta in Hf.
    destruct (pm_filtered pm pred old) as [r|] eqn:F; [|apply Ok_inj in Hf; now subst].
    destruct (rewritten_ids_with pm pred [old]) as [ids'| | |] eqn:R; try discriminate.
    match type of Hf with (if list_nat_eqb ?l _ then _ else _) = _ => set (new_ids := l) in *; destruct (list_nat_eqb new_ids ids') eqn:C end; [|discriminate].
    apply Ok_inj in Hf. subst a'. apply list_nat_eqb_eq in C.
    intros k nids Hk. destruct (Nat.eq_dec k old) as [->|N].
    + rewrite aget_aset_same in Hk. injection Hk as <-. split; [congruence|]. now rewrite C.
    + rewrite aget_aset_other in Hk by assumption. now apply Pa.
  - intros k nids Hk. discriminate.
Qed.

Lemma pm_get_of_In pm k r : sorted (pm_keys pm) -> In (k, r) pm -> pm_get pm k = Some r.
Proof.
  intros S Hin. destruct (pm_get pm k) as [r'|] eqn:G.
  - f_equal. apply pm_get_In in G. unfold pm_keys in S. exact (sorted_keys_unique pm k r' r S G Hin).
  - exfalso. clear -Hin G. unfold pm_get in G. induction pm as [|[a b] t IH]; [contradiction|].
    cbn [aget] in G. destruct (k =? a) eqn:E; [discriminate|]. destruct Hin as [Hin|Hin]; [|auto].
    injection Hin as -> ->. rewrite Nat.eqb_refl in E. discriminate.
Qed.

Lemma edit_graph s ws c s' : edit s ws c = Some s' -> s_g s' = s_g s.
Proof.
  unfold edit. destruct (c =? 0); [discriminate|]. intros H.
  assert (E : forall (a b : state), Some a = Some b -> a = b) by (intros a b E0; congruence).
  apply E in H. subst s'. cbn [set_view s_g].
  destruct (add_heads_fields (maybe_abandon_wc_commit s ws) [c]) as [G _].
  rewrite G. apply maybe_abandon_graph.
Qed.

Section View.
  Variable s0 : state.
  Variable o : rebase_opts.
  Hypothesis J0 : J s0.
  Let n0 := length (s_g s0).
  Let imm := o_imm o.
  Let T := find_descendants_for_rebase s0 imm.
  Let Scope := scope s0 imm.
  Hypothesis dom_targets : forall k r t, In (k, r) (s_pm s0) -> In t (new_parent_ids r) -> In t Scope.
  Hypothesis bms_odd : forall name t, In (name, t) (v_bms (s_v s0)) -> Nat.odd (length t) = true.

  Variable order : list nat.
  Variable s1 : state.
  Hypothesis HLI : LI s0 o order s1.
  Hypothesis Tall : forall x, In x T -> In x order.
  Let pm1 := s_pm s1.
  Let n1 := length (s_g s1).

  Definition Free (q : nat) : Prop := pm_get pm1 q = None /\ (q < n0 -> In q Scope).

  Lemma Scope_old a b : In b Scope -> anc (pg (s_g s0)) a b -> In a Scope.
  Proof.
    unfold Scope, scope. intros H Ha. pose proof (j_wf _ J0) as W.
    apply ancs_spec in H; [|assumption]. apply ancs_spec; [assumption|].
    destruct H as [h [Hh Hb]]. exists h. split; [assumption|]. eapply anc_trans; eassumption.
  Qed.

  Lemma bm_in_scope name t c : In (name, t) (v_bms (s_v s0)) -> In c (added_ids t) -> In c Scope.
  Proof.
    intros Hb Hc. destruct (j_bms _ J0 name t c Hb Hc) as [_ [h [Hh Ha]]].
    unfold Scope, scope. apply ancs_spec; [apply (j_wf _ J0)|].
    exists h. split; [apply in_or_app; now left|assumption].
  Qed.
  Lemma wc_in_scope ws c : In (ws, c) (v_wcs (s_v s0)) -> In c Scope.
  Proof.
    intros Hw. destruct (j_wcs _ J0 ws c Hw) as [_ [h [Hh Ha]]].
    unfold Scope, scope. apply ancs_spec; [apply (j_wf _ J0)|].
    exists h. split; [apply in_or_app; now left|assumption].
  Qed.

  (** Every fully resolved replacement is free. *)
  Lemma mapping_free mapping k nids :
    resolve_rewrite_mapping pm1 (fun _ => true) = Ok mapping ->
    aget Nat.eqb k mapping = Some nids ->
    nids <> [] /\ forall z, In z nids -> z < n1 /\ Free z.
  Proof.
    intros HM Hk. destruct (resolve_mapping_spec _ _ _ HM k nids Hk) as [Kk R].
    destruct (rewritten_ids_with_result _ _ _ _ R) as [NE F]. split; [assumption|].
    intros z Hz. destruct (F z Hz) as [Fz Src].
    assert (Gz : pm_get pm1 z = None).
    { unfold pm_filtered in Fz. destruct (pm_get pm1 z); [discriminate|reflexivity]. }
    destruct Src as [[<-|[]]|[k' [r [Hin Ht]]]].
    - exfalso. apply Kk. unfold pm_filtered. now rewrite Gz.
    - pose proof (li_J _ _ _ _ HLI) as J1.
      destruct (j_pm _ J1 k' r Hin) as [_ Rg]. split; [now apply Rg|]. split; [assumption|].
      intros Lz. pose proof (pm_get_of_In _ _ _ (j_pm_sorted _ J1) Hin) as G'.
      destruct (in_dec Nat.eq_dec k' order) as [Ho|Ho].
      + destruct (li_pm_done _ _ _ _ HLI k' r Ho G') as [_ S]. destruct (S z Ht) as [_ [_ [_ Sc]]]. auto.
      + eapply dom_targets; [|exact Ht]. apply pm_get_In.
        rewrite <- (li_pm_other _ _ _ _ HLI k' Ho). exact G'.
  Qed.

  (** ** Invariant of the reference updates *)
  Record PI (st : state) : Prop := mkPI {
    pi_J : J st;
    pi_len : n1 <= length (s_g st);
    pi_old : forall i, i < n1 -> getc (s_g st) i = getc (s_g s1) i;
    pi_new : forall y, n1 <= y < length (s_g st) ->
               forall q, In q (c_parents (getc (s_g st) y)) -> Free q;
    pi_keys : forall k, pm_get pm1 k <> None -> pm_get (s_pm st) k <> None;
    pi_heads : forall h, In h (v_heads (s_v st)) -> h < n0 -> h = 0 \/ In h Scope;
    pi_bms : forall name t, In (name, t) (v_bms (s_v st)) ->
               Nat.odd (length t) = true /\ forall c, In c (added_ids t) -> c < n0 -> In c Scope;
    pi_wcs : forall ws c, In (ws, c) (v_wcs (s_v st)) -> c < n0 -> In c Scope;
    pi_ident : forall y, n1 <= y < length (s_g st) ->
      let c := getc (s_g st) y in
      c_preds c = [] /\ c_change c = N.of_nat y /\ c_desc c = 0%N /\ c_empty c = true;
  }.

  Lemma PI_init : PI s1.
  Proof.
    constructor.
    - apply (li_J _ _ _ _ HLI).
    - unfold n1. lia.
    - auto.
    - intros y Hy. unfold n1 in Hy. lia.
    - auto.
    - intros h Hh L. right. now apply (li_heads _ _ _ _ HLI).
    - intros name t Hb. rewrite (li_bms _ _ _ _ HLI) in Hb. split; [eapply bms_odd; eassumption|].
      intros c Hc _. eapply bm_in_scope; eassumption.
    - intros ws c Hw _. rewrite (li_wcs _ _ _ _ HLI) in Hw. eapply wc_in_scope; eassumption.
    - intros y Hy. unfold n1 in Hy. lia.
  Qed.

  Lemma PI_set_bookmark st name t : PI st -> Nat.odd (length t) = true ->
    (forall c, In c (added_ids t) -> c < length (s_g st) /\ (c < n0 -> In c Scope)) ->
    PI (set_local_bookmark_target st name t).
  Proof.
    intros P O R.
    assert (Jn : J (set_local_bookmark_target st name t)).
    { apply J_set_local_bookmark_target; [apply (pi_J _ P)|]. intros c Hc. now apply R. }
    unfold set_local_bookmark_target in *.
    destruct (fold_add_head_fields (added_ids t) (s_v st)) as [A [B C]].
    set (v1 := fold_left view_add_head (added_ids t) (s_v st)) in *.
    constructor; cbn [set_view s_g s_v s_pm v_heads v_bms v_wcs]; try apply P; auto.
    - intros h Hh L. apply C in Hh. destruct Hh as [Hh|Hh]; [right; now apply R|now apply (pi_heads _ P)].
    - intros name' t' Hb. destruct (is_absent t).
      + apply (adel_In N.eqb) in Hb. rewrite A in Hb. now apply (pi_bms _ P name').
      + apply (aset_In N.eqb N.ltb) in Hb. destruct Hb as [E|Hb].
        * injection E as -> ->. split; [assumption|]. intros c Hc. now apply R.
        * rewrite A in Hb. now apply (pi_bms _ P name').
    - intros ws c Hw. rewrite B in Hw. now apply (pi_wcs _ P ws).
  Qed.

  Lemma bm_get_facts st name : PI st ->
    Nat.odd (length (bm_get (s_v st) name)) = true /\
    forall c, In c (added_ids (bm_get (s_v st) name)) -> c < length (s_g st) /\ (c < n0 -> In c Scope).
  Proof.
    intros P. unfold bm_get. destruct (aget N.eqb name (v_bms (s_v st))) as [t|] eqn:E.
    - apply (aget_In N.eqb Neqb_spec) in E. destruct (pi_bms _ P name t E) as [A B].
      split; [assumption|]. intros c Hc. split; [|now apply B].
      now apply (j_bms _ (pi_J _ P) name t c E Hc).
    - split; [reflexivity|]. intros c [].
  Qed.

  Lemma PI_merge_bookmark st name old other : PI st -> Nat.odd (length other) = true ->
    (forall c, In c (added_ids other) -> c < length (s_g st) /\ (c < n0 -> In c Scope)) ->
    PI (merge_local_bookmark st name [Some old] other).
  Proof.
    intros P O R. unfold merge_local_bookmark.
    destruct (bm_get_facts st name P) as [OS RS].
    destruct (merge_ref_targets_facts (pg (s_g st)) (bm_get (s_v st) name) other old OS O) as [OT AT].
    apply PI_set_bookmark; [assumption|assumption|].
    intros c Hc. apply added_ids_In in Hc. destruct (AT _ Hc) as [H|H]; apply added_ids_In in H; auto.
  Qed.

  Lemma PI_update_local_bookmarks st mapping del st' :
    resolve_rewrite_mapping pm1 (fun _ => true) = Ok mapping ->
    PI st -> update_local_bookmarks st mapping del = Ok st' -> PI st'.
  Proof.
    intros HM P H. unfold update_local_bookmarks in H.
    match type of H with fold_left _ ?l _ = _ => set (changed := l) in * end.
    assert (Hch : forall name oldc nids, In (name, oldc, nids) changed -> aget Nat.eqb oldc mapping = Some nids).
    { intros name oldc nids Hin. unfold changed in Hin. apply in_flat_map in Hin.
      destruct Hin as [[nm t] [_ Hin]]. apply in_flat_map in Hin. destruct Hin as [id [_ Hin]].
      destruct (aget Nat.eqb id mapping) as [ns|] eqn:E; [|contradiction].
      destruct Hin as [Hin|[]]. injection Hin as <- <- <-. assumption. }
    refine (fold_res_inv (fun (s1' : state) (ch : N * nat * list nat) => _) PI changed _ st st' P H).
    intros a [[name oldc] nids] a' Pa Hin Hf. cbv beta iota in Hf.
    destruct (mapping_free mapping oldc nids HM (Hch _ _ _ Hin)) as [NE FR].
    assert (Rn : forall z, In z nids -> z < length (s_g a) /\ (z < n0 -> In z Scope)).
    { intros z Hz. destruct (FR z Hz) as [A [_ B]]. pose proof (pi_len _ Pa). split; [lia|assumption]. }
    destruct (o_delete_abandoned o && is_abandoned (pm_get (s_pm a) oldc)) eqn:D.
    - revert Hf. unfold bind. destruct (del && is_abandoned (pm_get (s_pm a) oldc)).
      + intros Hf. apply Ok_inj in Hf. subst a'. apply PI_merge_bookmark; [assumption|reflexivity|intros c []].
      + destruct nids as [|n ns]; [discriminate|]. intros Hf. apply Ok_inj in Hf. subst a'.
        destruct (intersperse_facts (map Some (n :: ns)) (Some oldc)) as [IE IO]; [discriminate|].
        apply PI_merge_bookmark; [assumption|assumption|].
        intros c Hc. apply added_ids_In in Hc. rewrite IE in Hc. apply in_map_iff in Hc.
        destruct Hc as [z [E Hz]]. injection E as ->. now apply Rn.
    - revert Hf. destruct (del && is_abandoned (pm_get (s_pm a) oldc)).
      + intros Hf. apply Ok_inj in Hf. subst a'. apply PI_merge_bookmark; [assumption|reflexivity|intros c []].
      + destruct nids as [|n ns]; [discriminate|]. intros Hf. apply Ok_inj in Hf. subst a'.
        destruct (intersperse_facts (map Some (n :: ns)) (Some oldc)) as [IE IO]; [discriminate|].
        apply PI_merge_bookmark; [assumption|assumption|].
        intros c Hc. apply added_ids_In in Hc. rewrite IE in Hc. apply in_map_iff in Hc.
        destruct Hc as [z [E Hz]]. injection E as ->. now apply Rn.
  Qed.

  (** ** update_wc_commits *)
  Lemma PI_write_fresh st nids : PI st -> nids <> [] ->
    (forall z, In z nids -> z < length (s_g st) /\ Free z) ->
    PI (fst (write_commit st (fresh_commit (s_g st) nids 0 true) None)) /\
    snd (write_commit st (fresh_commit (s_g st) nids 0 true) None) = length (s_g st) /\
    length (s_g (fst (write_commit st (fresh_commit (s_g st) nids 0 true) None))) = S (length (s_g st)).
  Proof.
    intros P NE R.
    set (c := fresh_commit (s_g st) nids 0 true).
    destruct (J_write_commit st c None (pi_J _ P)) as [Jw [E1 [Lw _]]];
      [exact NE|intros p Hp; now apply R|discriminate|].
    destruct (write_commit_fields st c None) as [Gw Pw].
    destruct (write_commit_view st c None) as [Bw [Ww Hw]].
    split; [|split; assumption].
    pose proof (pi_len _ P) as Ln.
    constructor.
    - exact Jw.
    - lia.
    - intros i Hi. rewrite Gw, getc_app_old by lia. now apply (pi_old _ P).
    - intros y Hy q Hq. rewrite Lw in Hy. destruct (Nat.eq_dec y (length (s_g st))) as [->|Ny].
      + rewrite Gw, getc_app_new in Hq. cbn [c fresh_commit c_parents] in Hq. now apply R.
      + rewrite Gw, getc_app_old in Hq by lia. eapply (pi_new _ P); [|exact Hq]. lia.
    - rewrite Pw. apply (pi_keys _ P).
    - intros h Hh L. destruct (Hw h Hh) as [->|Hold]; [|now apply (pi_heads _ P)].
      pose proof (li_len _ _ _ _ HLI). fold n0 in H. unfold n1 in Ln. lia.
    - rewrite Bw. apply (pi_bms _ P).
    - rewrite Ww. apply (pi_wcs _ P).
    - intros y Hy. rewrite Lw in Hy. rewrite Gw. destruct (Nat.eq_dec y (length (s_g st))) as [->|Ny].
      + rewrite getc_app_new. cbn [c fresh_commit c_preds c_change c_desc c_empty]. auto.
      + rewrite getc_app_old by lia. apply (pi_ident _ P). lia.
  Qed.

  Lemma PI_normalize st : PI st -> PI (normalize st).
  Proof.
    intros P. destruct (J_normalize st (pi_J _ P)) as [Jn _].
    destruct (normalize_fields st) as [G [Pm [B Wc]]].
    constructor; rewrite ?G, ?Pm, ?B, ?Wc; try apply P; auto.
    intros h Hh L. unfold normalize in Hh. rewrite normalize_view_eq in Hh.
    destruct (v_norm (s_v st)); [now apply (pi_heads _ P)|].
    cbn [set_view s_v set_heads v_heads] in Hh. unfold norm_heads in Hh.
    destruct (v_heads (s_v st)) as [|a [|b t]] eqn:E.
    - destruct Hh as [<-|[]]. now left.
    - apply (pi_heads _ P); [rewrite E; exact Hh|assumption].
    - apply heads_of_spec in Hh; [|apply (j_wf _ (pi_J _ P))]. destruct Hh as [Hh _].
      apply remn_In in Hh. destruct Hh as [_ Hh]. apply (pi_heads _ P); [rewrite E; exact Hh|assumption].
  Qed.

  Lemma PI_maybe_abandon st ws : PI st -> PI (maybe_abandon_wc_commit st ws).
  Proof.
    intros P. pose proof (J_maybe_abandon st ws (pi_J _ P)) as Jm.
    unfold maybe_abandon_wc_commit in *.
    destruct (wc_get (s_v st) ws) as [w|]; [|assumption].
    pose proof (PI_normalize st P) as Pn.
    destruct (_ && _ && _) eqn:C; [|assumption].
    constructor; cbn [set_pm s_g s_v s_pm]; try apply Pn; auto.
    intros k Hk. destruct (Nat.eq_dec k w) as [->|N].
    - rewrite pm_get_set_same. discriminate.
    - rewrite pm_get_set_other by assumption. now apply (pi_keys _ Pn).
  Qed.

  Lemma PI_edit st ws c st' : PI st -> c < length (s_g st) -> (c < n0 -> In c Scope) ->
    edit st ws c = Some st' -> PI st'.
  Proof.
    intros P L Sc H.
    assert (Je : J st') by (eapply J_edit; [apply (pi_J _ P)|exact L|exact H]).
    unfold edit in H. destruct (c =? 0); [discriminate|].
    assert (E' : forall (a b : state), Some a = Some b -> a = b) by (intros a b E0; congruence).
    apply E' in H. clear E'. subst st'.
    pose proof (PI_maybe_abandon st ws P) as Pm.
    set (s1' := maybe_abandon_wc_commit st ws) in *.
    destruct (add_heads_fields s1' [c]) as [G [Pmm [B Wc]]].
    pose proof (add_heads_single_heads s1' c) as Hheads.
    set (s2' := add_heads s1' [c]) in *.
    fold s1' in Je. fold s2' in Je.
    constructor; cbn [set_view s_g s_v s_pm v_heads v_bms v_wcs].
    - exact Je.
    - rewrite G. apply (pi_len _ Pm).
    - rewrite G. apply (pi_old _ Pm).
    - rewrite G. apply (pi_new _ Pm).
    - rewrite Pmm. apply (pi_keys _ Pm).
    - intros h Hh Lh. apply Hheads in Hh. destruct Hh as [->|Hh]; [right; auto|now apply (pi_heads _ Pm)].
    - rewrite B. apply (pi_bms _ Pm).
    - intros ws' c' Hw Lc. apply (aset_In N.eqb N.ltb) in Hw. destruct Hw as [E|Hw].
      + injection E as -> ->. auto.
      + rewrite Wc in Hw. now apply (pi_wcs _ Pm ws').
    - rewrite G. apply (pi_ident _ Pm).
  Qed.

  Lemma PI_update_wc_commits st mapping st' :
    resolve_rewrite_mapping pm1 (fun _ => true) = Ok mapping ->
    PI st -> update_wc_commits st mapping = Ok st' -> PI st'.
  Proof.
    intros HM P H. unfold update_wc_commits in H.
    match type of H with (do r <- fold_left _ ?l _; _) = _ => set (changed := l) in * end.
    assert (Hch : forall ws oldc nids, In (ws, oldc, nids) changed -> aget Nat.eqb oldc mapping = Some nids).
    { intros ws oldc nids Hin. unfold changed in Hin. apply in_flat_map in Hin.
      destruct Hin as [[w c] [_ Hin]]. cbn [fst snd] in Hin.
      destruct (aget Nat.eqb c mapping) as [ns|] eqn:E; [|contradiction].
      destruct Hin as [Hin|[]]. injection Hin as <- <- <-. assumption. }
    destruct (fold_left _ changed (Ok (st, []))) as [[sf rec]| | |] eqn:F; cbn [bind] in H; try discriminate.
    apply Ok_inj in H. cbn [fst] in H. subst st'.
    set (Q := fun sr : state * list (nat * nat) =>
                PI (fst sr) /\ forall k c, aget Nat.eqb k (snd sr) = Some c ->
                                 c < length (s_g (fst sr)) /\ n0 <= c).
    assert (HQ : Q (sf, rec)).
    { refine (fold_res_inv (fun (sr : state * list (nat * nat)) (ch : N * nat * list nat) => _) Q changed _ (st, []) (sf, rec) _ F).
      - intros [a recr] [[ws oldc] nids] a' [Pa Ra] Hin Hf. cbn [fst snd] in *. cbv beta iota in Hf.
        destruct (mapping_free mapping oldc nids HM (Hch _ _ _ Hin)) as [NE FR].
        pose proof (pi_len _ Pa) as Ln.
        assert (Rn : forall z, In z nids -> z < length (s_g a) /\ Free z).
        { intros z Hz. destruct (FR z Hz) as [A B]. split; [lia|assumption]. }
        match type of Hf with (do sw <- ?X; _) = _ => destruct X as [[[s2 rec2] new_wc]| | |] eqn:EX end;
          cbn [bind] in Hf; try discriminate.
        assert (Hs2 : Q (s2, rec2) /\ new_wc < length (s_g s2) /\ (new_wc < n0 -> In new_wc Scope)).
        { destruct (negb (is_abandoned (pm_get (s_pm a) oldc))).
          - destruct nids as [|n ns]; [discriminate|]. apply Ok_inj in EX. injection EX as <- <- <-.
            destruct (Rn n (or_introl eq_refl)) as [A [_ B]]. split; [split; assumption|split; assumption].
          - destruct (aget Nat.eqb oldc recr) as [cc|] eqn:ER.
            + apply Ok_inj in EX. injection EX as <- <- <-. destruct (Ra _ _ ER) as [A B].
              split; [split; assumption|split; [assumption|lia]].
            + destruct nids as [|n ns] eqn:En; [discriminate|]. rewrite <- En in *.
              destruct (PI_write_fresh a nids Pa NE Rn) as [Pw [Ew Lw]].
              destruct (write_commit a (fresh_commit (s_g a) nids 0 true) None) as [sw nw] eqn:EW.
              cbn [fst snd] in *. subst nids. apply Ok_inj in EX. injection EX as <- <- <-.
              pose proof (li_len _ _ _ _ HLI) as L0. fold n0 in L0. unfold n1 in Ln.
              split; [split; [assumption|]|split; [lia|lia]].
              intros k c Hk. cbn [fst snd] in Hk |- *. destruct (Nat.eq_dec k oldc) as [->|Nk].
              * rewrite aget_aset_same in Hk. injection Hk as <-. split; lia.
              * rewrite aget_aset_other in Hk by assumption. destruct (Ra _ _ Hk). split; lia. }
        destruct Hs2 as [[P2 R2] [L2 S2]].
        destruct (edit s2 ws new_wc) as [s3|] eqn:EE; [|discriminate]. apply Ok_inj in Hf. subst a'.
        cbn [fst snd]. split.
        + eapply PI_edit; eassumption.
        + intros k c Hk. cbn [fst snd] in *. destruct (R2 _ _ Hk) as [A B]. split; [|assumption].
          rewrite (edit_graph _ _ _ _ EE). exact A.
      - split; [exact P|]. intros k c Hk. discriminate. }
    apply HQ.
  Qed.

  (** ** update_heads and the final view *)
  Hypothesis root_not_key : pm_get (s_pm s0) 0 = None.

  Lemma old_in_G st i : PI st -> i < n0 -> getc (s_g st) i = getc (s_g s0) i.
  Proof.
    intros P L. pose proof (li_len _ _ _ _ HLI) as L0. fold n0 in L0.
    rewrite (pi_old _ P) by (unfold n1; lia). now apply (li_old _ _ _ _ HLI).
  Qed.

  Lemma parent_scope st y p : PI st -> y < length (s_g st) ->
    (y < n0 -> y = 0 \/ In y Scope) -> In p (c_parents (getc (s_g st) y)) -> p < n0 -> In p Scope.
  Proof.
    intros P Ly Sy Hp Lp.
    destruct (Nat.lt_ge_cases y n0) as [Lo|Lo].
    - rewrite (old_in_G st y P Lo) in Hp. destruct (Sy Lo) as [->|Sc].
      + exfalso. rewrite <- parents_pg in Hp. apply (j_wf _ J0) in Hp. lia.
      + apply (Scope_old p y Sc). apply anc_parent. now rewrite parents_pg.
    - destruct (Nat.lt_ge_cases y n1) as [L1|L1].
      + rewrite (pi_old _ P y L1) in Hp.
        assert (S : Settled s0 o order s1 p).
        { eapply (li_parents _ _ _ _ HLI); [right; split; [exact Lo|exact L1]|exact Hp]. }
        destruct S as [_ [_ [_ S]]]. now apply S.
      + destruct (pi_new _ P y (conj L1 Ly) p Hp) as [_ S]. now apply S.
  Qed.

  Lemma covered_scope st x : PI st -> covered (pg (s_g st)) (v_heads (s_v st)) x ->
    x < n0 -> x = 0 \/ In x Scope.
  Proof.
    intros P [h [Hh Ha]].
    assert (G : forall a y, anc (pg (s_g st)) a y -> y < length (s_g st) ->
                  (y < n0 -> y = 0 \/ In y Scope) -> a < n0 -> a = 0 \/ In a Scope).
    { clear x h Hh Ha. intros a y Hxy. induction Hxy as [z|a p d Hp _ IH]; intros Ly Sy Lx; [auto|].
      rewrite parents_pg in Hp.
      assert (p < d) by (apply (j_wf _ (pi_J _ P)); now rewrite parents_pg).
      apply IH; [lia| |assumption].
      intros Lp. right. eapply parent_scope; eassumption. }
    apply (G x h Ha); [now apply (j_heads _ (pi_J _ P))|now apply (pi_heads _ P)].
  Qed.

  Lemma update_heads_graph st : s_g (update_heads st) = s_g st.
  Proof.
    unfold update_heads.
    match goal with |- s_g (normalize ?X) = _ => destruct (normalize_fields X) as [G _]; rewrite G end.
    reflexivity.
  Qed.

  Lemma update_heads_heads st h : PI st -> In h (v_heads (s_v (update_heads st))) ->
    h < length (s_g st) /\ pm_get pm1 h = None /\ (h < n0 -> h = 0 \/ In h Scope).
  Proof.
    intros P Hh. pose proof (pi_J _ P) as Jst.
    assert (Z : pm_get pm1 0 = None).
    { unfold pm1. rewrite (li_pm_other _ _ _ _ HLI 0); [assumption|].
      intros Ho. apply (li_done_T _ _ _ _ HLI) in Ho.
      apply to_visit_spec in Ho; [|apply (j_wf _ J0)]. destruct Ho as [_ [[k [Hk Ha]] _]].
      assert (k = 0) by (pose proof (anc_le _ _ _ (j_wf _ J0) Ha); lia). subst k.
      apply In_pm_keys_get in Hk. destruct Hk as [r Hr]. congruence. }
    unfold update_heads in Hh.
    set (g := pg (s_g st)) in *. set (keys := pm_keys (s_pm st)) in *.
    set (vis := ancs g (v_heads (s_v st))) in *.
    set (old := filter (fun k => memn k vis) keys) in *.
    set (to_add := filter (fun p => negb (memn p old)) (flat_map (parents g) old)) in *.
    set (hs := fold_left (fun hs k => remn k hs) keys (v_heads (s_v st))) in *.
    set (hs' := fold_left (fun hs p => ins p hs) to_add hs) in *.
    assert (Hin : h = 0 \/ In h hs').
    { unfold normalize in Hh. rewrite normalize_view_eq in Hh.
      cbn [set_view s_v s_g set_heads v_norm v_heads] in Hh. unfold norm_heads in Hh.
      destruct hs' as [|a [|b t]] eqn:E.
      - destruct Hh as [<-|[]]. now left.
      - right. exact Hh.
      - right. apply heads_of_spec in Hh; [|apply (j_wf _ Jst)]. destruct Hh as [Hh _].
        apply remn_In in Hh. apply Hh. }
    pose proof (j_ne _ Jst) as NE.
    destruct Hin as [->|Hin]; [split; [lia|split; [exact Z|now left]]|].
    unfold hs' in Hin. apply fold_ins_In in Hin. destruct Hin as [Hin|Hin].
    - unfold hs in Hin. apply fold_remn_In in Hin. destruct Hin as [Hhd Hnk].
      split; [now apply (j_heads _ Jst)|]. split; [|now apply (pi_heads _ P)].
      destruct (pm_get pm1 h) eqn:G1; [|reflexivity]. exfalso. apply Hnk. apply In_pm_keys_get.
      destruct (pm_get (s_pm st) h) as [r'|] eqn:G2; [eauto|]. exfalso. apply (pi_keys _ P h); [congruence|assumption].
    - unfold to_add in Hin. apply filter_In in Hin. destruct Hin as [Hin Hno].
      apply in_flat_map in Hin. destruct Hin as [k [Hk Hp]].
      unfold old in Hk. apply filter_In in Hk. destruct Hk as [Hkk Hkv].
      apply memn_In in Hkv. apply negb_true_iff, memn_false in Hno.
      assert (Lk : k < length (s_g st)).
      { unfold keys in Hkk. apply In_pm_keys_get in Hkk. destruct Hkk as [r Hr]. apply pm_get_In in Hr.
        destruct (j_pm _ Jst k r Hr) as [A _]. exact A. }
      assert (Lh : h < k) by now apply (j_wf _ Jst).
      assert (Hv : In h vis).
      { unfold vis in *. apply covered_ancs in Hkv; [|apply (j_wf _ Jst)]. apply covered_ancs; [apply (j_wf _ Jst)|].
        destruct Hkv as [hd [Hhd Ha]]. exists hd. split; [assumption|].
        apply (anc_trans _ h k hd); [apply anc_parent; exact Hp|exact Ha]. }
      split; [lia|]. split.
      + destruct (pm_get pm1 h) eqn:G1; [|reflexivity]. exfalso. apply Hno. unfold old. apply filter_In.
        split; [|now apply memn_In]. unfold keys. apply In_pm_keys_get.
        destruct (pm_get (s_pm st) h) as [r'|] eqn:G2; [eauto|]. exfalso. apply (pi_keys _ P h); [congruence|assumption].
      + intros L. apply (covered_scope st h P); [|assumption].
        unfold vis in Hv. apply covered_ancs in Hv; [assumption|apply (j_wf _ Jst)].
  Qed.

  (** Taint travels upwards along unshielded commits. *)
  Lemma taint_up g keys S x h : wf_dag g ->
    let sh := ancs g S in
    anc g x h -> Tainted g keys sh x -> ~ In x sh -> h < length g -> Tainted g keys sh h \/ In h sh.
  Proof.
    intros W sh Ha. induction Ha as [z|a p d Hp Ha IH]; intros Ht Hs L; [now left|].
    assert (p < d) by now apply W.
    destruct (IH Ht Hs) as [Tp|Sp]; [lia| |].
    - destruct (in_dec Nat.eq_dec d sh) as [I|I]; [now right|left].
      eapply T_child; eassumption.
    - exfalso. apply Hs. unfold sh in *. apply ancs_spec in Sp; [|assumption]. apply ancs_spec; [assumption|].
      destruct Sp as [s [Hs' Hps]]. exists s. split; [assumption|]. eapply anc_trans; eassumption.
  Qed.

  Theorem view_clean st : PI st ->
    let G := s_g st in
    let sh := ancs (pg G) (imm ++ div_keys pm1) in
    forall x, covered (pg G) (v_heads (s_v (update_heads st))) x -> ~ In x sh ->
      ~ Tainted (pg G) (nd_keys pm1) sh x.
  Proof.
    intros P G sh x [h [Hh Ha]] Hs Ht.
    destruct (update_heads_heads st h P Hh) as [Lh [Gh Sh]].
    pose proof (pi_J _ P) as Jst. pose proof (j_wf _ Jst) as W.
    assert (Lh' : h < length (pg G)) by (unfold G; now rewrite pg_length).
    destruct (taint_up (pg G) (nd_keys pm1) (imm ++ div_keys pm1) x h W Ha Ht Hs Lh') as [Th|Sh'].
    2:{ apply Hs. unfold sh in *. apply ancs_spec in Sh'; [|assumption]. apply ancs_spec; [assumption|].
        destruct Sh' as [s [Hs' Hps]]. exists s. split; [assumption|]. eapply anc_trans; eassumption. }
    assert (Hsh : ~ In h sh).
    { intros I. apply Hs. unfold sh in *. apply ancs_spec in I; [|assumption]. apply ancs_spec; [assumption|].
      destruct I as [s [Hs' Hps]]. exists s. split; [assumption|]. eapply anc_trans; eassumption. }
    pose proof (li_len _ _ _ _ HLI) as L0. fold n0 in L0. pose proof (pi_len _ P) as L1.
    pose proof (li_J _ _ _ _ HLI) as J1.
    assert (U1 : forall k r r', In (k, r) pm1 -> In (k, r') pm1 -> r = r').
    { intros k r r'. apply sorted_keys_unique. apply (j_pm_sorted _ J1). }
    assert (PO : forall k, ~ In k T -> pm_get pm1 k = pm_get (s_pm s0) k).
    { intros k Hk. apply (li_pm_other _ _ _ _ HLI). intros Ho. apply Hk. now apply (li_done_T _ _ _ _ HLI). }
    assert (PA : forall y', (In y' T /\ pm_get pm1 y' = None) \/ (n0 <= y' < length G) ->
               forall q, In q (c_parents (getc G y')) -> pm_nd pm1 q = None /\ (q < n0 -> In q Scope)).
    { intros y' Hy q Hq.
      assert (Cases : (In y' T /\ pm_get pm1 y' = None) \/ (n0 <= y' < n1) \/ (n1 <= y' < length G)).
      { destruct Hy as [Hy|Hy]; [now left|right]. destruct (Nat.lt_ge_cases y' n1); [left|right]; lia. }
      destruct Cases as [[A B]|[A|A]].
      - assert (Ly : y' < n0).
        { apply to_visit_spec in A; [|apply (j_wf _ J0)]. apply A. }
        unfold G in Hq. rewrite (pi_old _ P y') in Hq by (unfold n1; lia).
        assert (S : Settled s0 o order s1 q).
        { apply (li_parents _ _ _ _ HLI y'); [left; split; [apply Tall; exact A|exact B]|exact Hq]. }
        destruct S as [_ [S1 [_ S2]]]. auto.
      - unfold G in Hq. rewrite (pi_old _ P y') in Hq by lia.
        assert (S : Settled s0 o order s1 q).
        { apply (li_parents _ _ _ _ HLI y'); [right; exact A|exact Hq]. }
        destruct S as [_ [S1 [_ S2]]]. auto.
      - destruct (pi_new _ P y' A q Hq) as [F1 F2]. split; [|assumption].
        unfold pm_nd, pm_filtered. now rewrite F1. }
    assert (Nh : pm_nd pm1 h = None) by (unfold pm_nd, pm_filtered; now rewrite Gh).
    destruct (Nat.eq_dec h 0) as [->|Nz].
    - (* the root commit is never tainted *)
      inversion Th as [k Hk _|y p _ _ Hp _]; subst.
      + apply (nd_keys_nd pm1 0 Nh (U1 0) Hk).
      + apply W in Hp. lia.
    - assert (Sc : h < n0 -> In h Scope) by (intros L; destruct (Sh L); [congruence|assumption]).
      refine (clean_all s0 o J0 G pm1 W _ _ U1 PO PA h Lh Sc Nh Hsh Th).
      + unfold G. lia.
      + intros i Hi. unfold G. now apply old_in_G.
  Qed.
End View.

(** * The view written by rebase_descendants has no orphans *)
Theorem no_orphans_model s0 o ord s' :
  J s0 ->
  (forall k r t, In (k, r) (s_pm s0) -> In t (new_parent_ids r) -> In t (scope s0 (o_imm o))) ->
  (forall name t, In (name, t) (v_bms (s_v s0)) -> Nat.odd (length t) = true) ->
  pm_get (s_pm s0) 0 = None ->
  (forall order, ord (s_g s0) (s_pm s0) (find_descendants_for_rebase s0 (o_imm o)) = Ok order ->
     valid_from s0 o [] order /\ forall x, In x (find_descendants_for_rebase s0 (o_imm o)) -> In x order) ->
  rebase_descendants_with ord s0 o = Ok s' ->
  exists s1, rebase_loop_with ord s0 o = Ok s1 /\
    let sh := ancs (pg (s_g s')) (o_imm o ++ div_keys (s_pm s1)) in
    forall x, covered (pg (s_g s')) (v_heads (s_v s')) x -> ~ In x sh ->
      ~ Tainted (pg (s_g s')) (nd_keys (s_pm s1)) sh x.
Proof.
  intros J0 Dom Odd Root Hord H.
  unfold rebase_descendants_with in H.
  destruct (rebase_loop_with ord s0 o) as [s1| | |] eqn:EL; cbn [bind] in H; try discriminate.
  exists s1. split; [reflexivity|].
  unfold rebase_loop_with in EL.
  destruct (ord (s_g s0) (s_pm s0) (find_descendants_for_rebase s0 (o_imm o))) as [order| | |] eqn:EO;
    cbn [bind] in EL; try discriminate.
  destruct (Hord order eq_refl) as [V Tall].
  destruct (loop_clean s0 o J0 Dom order s1 V Tall EL) as [HLI _].
  destruct (update_rewritten_references s1 (o_delete_abandoned o)) as [s2| | |] eqn:EU; cbn [bind] in H; try discriminate.
  apply Ok_inj in H. subst s'. cbn [set_pm s_g s_v].
  unfold update_rewritten_references in EU.
  destruct (resolve_rewrite_mapping (s_pm s1) (fun _ => true)) as [mapping| | |] eqn:EM; cbn [bind] in EU; try discriminate.
  destruct (update_local_bookmarks s1 mapping (o_delete_abandoned o)) as [sA| | |] eqn:EA; cbn [bind] in EU; try discriminate.
  destruct (update_wc_commits sA mapping) as [sB| | |] eqn:EB; cbn [bind] in EU; try discriminate.
  apply Ok_inj in EU. subst s2.
  assert (P1 : PI s0 o s1 s1) by (eapply PI_init; eassumption).
  assert (PA : PI s0 o s1 sA) by (eapply PI_update_local_bookmarks; eassumption).
  assert (PB : PI s0 o s1 sB) by (eapply PI_update_wc_commits; eassumption).
  rewrite update_heads_graph.
  eapply view_clean; eassumption.
Qed.

(** * Identity: what rebase_descendants adds to the graph *)
Theorem identity_model s0 o ord s' :
  J s0 ->
  (forall k r t, In (k, r) (s_pm s0) -> In t (new_parent_ids r) -> In t (scope s0 (o_imm o))) ->
  (forall name t, In (name, t) (v_bms (s_v s0)) -> Nat.odd (length t) = true) ->
  (forall order, ord (s_g s0) (s_pm s0) (find_descendants_for_rebase s0 (o_imm o)) = Ok order ->
     valid_from s0 o [] order /\ forall x, In x (find_descendants_for_rebase s0 (o_imm o)) -> In x order) ->
  rebase_descendants_with ord s0 o = Ok s' ->
  length (s_g s0) <= length (s_g s') /\
  (forall i, i < length (s_g s0) -> getc (s_g s') i = getc (s_g s0) i) /\
  forall y, length (s_g s0) <= y < length (s_g s') ->
    let c := getc (s_g s') y in
    (exists x, c_preds c = [x] /\ In x (find_descendants_for_rebase s0 (o_imm o)) /\
               c_change c = c_change (getc (s_g s0) x) /\ c_desc c = c_desc (getc (s_g s0) x))
    \/ (c_preds c = [] /\ c_change c = N.of_nat y /\ c_desc c = 0%N /\ c_empty c = true).
Proof.
  intros J0 Dom Odd Hord H.
  unfold rebase_descendants_with in H.
  destruct (rebase_loop_with ord s0 o) as [s1| | |] eqn:EL; cbn [bind] in H; try discriminate.
  unfold rebase_loop_with in EL.
  destruct (ord (s_g s0) (s_pm s0) (find_descendants_for_rebase s0 (o_imm o))) as [order| | |] eqn:EO;
    cbn [bind] in EL; try discriminate.
  destruct (Hord order eq_refl) as [V Tall].
  destruct (loop_clean s0 o J0 Dom order s1 V Tall EL) as [HLI _].
  destruct (update_rewritten_references s1 (o_delete_abandoned o)) as [s2| | |] eqn:EU; cbn [bind] in H; try discriminate.
  apply Ok_inj in H. subst s'. cbn [set_pm s_g s_v].
  unfold update_rewritten_references in EU.
  destruct (resolve_rewrite_mapping (s_pm s1) (fun _ => true)) as [mapping| | |] eqn:EM; cbn [bind] in EU; try discriminate.
  destruct (update_local_bookmarks s1 mapping (o_delete_abandoned o)) as [sA| | |] eqn:EA; cbn [bind] in EU; try discriminate.
  destruct (update_wc_commits sA mapping) as [sB| | |] eqn:EB; cbn [bind] in EU; try discriminate.
  apply Ok_inj in EU. subst s2.
  assert (P1 : PI s0 o s1 s1) by (eapply PI_init; eassumption).
  assert (PA : PI s0 o s1 sA) by (eapply PI_update_local_bookmarks; eassumption).
  assert (PB : PI s0 o s1 sB) by (eapply PI_update_wc_commits; eassumption).
  rewrite update_heads_graph.
  pose proof (li_len _ _ _ _ HLI) as L0. pose proof (pi_len _ _ _ _ PB) as L1.
  split; [lia|]. split.
  - intros i Hi. rewrite (pi_old _ _ _ _ PB) by lia. now apply (li_old _ _ _ _ HLI).
  - intros y Hy. cbv zeta. destruct (Nat.lt_ge_cases y (length (s_g s1))) as [Ly|Ly].
    + left. rewrite (pi_old _ _ _ _ PB) by assumption. apply (li_ident _ _ _ _ HLI). lia.
    + right. apply (pi_ident _ _ _ _ PB). lia.
Qed.
