(** C11: after the loop — update_local_bookmarks, update_wc_commits, update_heads — and the
    no-orphans theorem for the view written by rebase_descendants. *)
From Verif Require Import Base.Prelude Base.DagV Model.Merge Model.RepoV Model.C11
  Proofs.C10 Proofs.C11 Proofs.C11Loop Proofs.C11Refs.
From Coq Require Import Lia Arith.

(** * Small facts *)
Lemma somes_In l c : In c (somes l) <-> In (Some c) l.
Proof.
  induction l as [|[x|] t IH]; cbn [somes In]; [tauto| |].
  - rewrite IH. split; [intros [->|H]; auto|intros [E|H]; [injection E; auto|auto]].
  - rewrite IH. split; [auto|intros [E|H]; [discriminate|auto]].
Qed.
Lemma added_ids_In t c : In c (added_ids t) <-> In (Some c) (evens t).
Proof. apply somes_In. Qed.

Lemma intersperse_facts {A} (l : list A) sep : l <> [] ->
  evens (intersperse l sep) = l /\ Nat.odd (length (intersperse l sep)) = true.
Proof.
  induction l as [|x t IH]; intros N; [congruence|].
  destruct t as [|y u]; [split; reflexivity|].
  destruct IH as [IA IB]; [discriminate|].
  change (intersperse (x :: y :: u) sep) with (x :: sep :: intersperse (y :: u) sep).
  split.
  - rewrite evens_cons, odds_cons. now rewrite IA.
  - cbn [length]. now rewrite Nat.odd_succ_succ.
Qed.

(** Folds in the [res] monad preserve invariants. *)
Lemma fold_res_inv {A B} (f : A -> B -> res A) (P : A -> Prop) (l : list B) :
  (forall a b a', P a -> In b l -> f a b = Ok a' -> P a') ->
  forall a a', P a -> fold_left (fun acc b => do x <- acc; f x b) l (Ok a) = Ok a' -> P a'.
Proof.
  induction l as [|b t IH]; intros Hf a a' Pa H; cbn [fold_left] in H.
  - apply Ok_inj in H. now subst.
  - cbn [bind] in H. destruct (f a b) as [a1| | |] eqn:E.
    + apply (IH (fun a0 b0 a0' Pa0 Hb => Hf a0 b0 a0' Pa0 (or_intror Hb)) a1 a'); [|exact H].
      eapply Hf; [exact Pa|now left|exact E].
    + exfalso. eapply (fold_res_stuck _ t Err); [| | | |exact H]; try reflexivity; discriminate.
    + exfalso. eapply (fold_res_stuck _ t Panic); [| | | |exact H]; try reflexivity; discriminate.
    + exfalso. eapply (fold_res_stuck _ t Fuel); [| | | |exact H]; try reflexivity; discriminate.
Qed.

(** * resolve_rewrite_mapping returns, for every key, what rewritten_ids_with computes *)
Lemma resolve_mapping_spec pm pred m :
  resolve_rewrite_mapping pm pred = Ok m ->
  forall k nids, aget Nat.eqb k m = Some nids ->
    pm_filtered pm pred k <> None /\ rewritten_ids_with pm pred [k] = Ok nids.
Proof.
  unfold resolve_rewrite_mapping.
  destruct (topo_order_forward _ _ _ _) as [ids| | |]; cbn [bind]; try discriminate.
  set (P := fun m : list (nat * list nat) => forall k nids, aget Nat.eqb k m = Some nids ->
              pm_filtered pm pred k <> None /\ rewritten_ids_with pm pred [k] = Ok nids).
  intros H. change (P m).
  refine (fold_res_inv (fun (m0 : list (nat * list nat)) old => _) P ids _ [] m _ H).
  - intros a old a' Pa _ Hf. cbv beta in Hf.
    destruct (pm_filtered pm pred old) as [r|] eqn:F; [|apply Ok_inj in Hf; now subst].
    destruct (rewritten_ids_with pm pred [old]) as [ids'| | |] eqn:R; try discriminate.
    match type of Hf with (if list_nat_eqb ?l _ then _ else _) = _ => set (new_ids := l) in *; destruct (list_nat_eqb new_ids ids') eqn:C end; [|discriminate].
    apply Ok_inj in Hf. subst a'. apply list_nat_eqb_eq in C.
    intros k nids Hk. destruct (Nat.eq_dec k old) as [->|N].
    + rewrite aget_aset_same in Hk. injection Hk as <-. split; [congruence|]. now rewrite C.
    + rewrite aget_aset_other in Hk by assumption. now apply Pa.
  - intros k nids Hk. discriminate.
Qed.

Lemma pm_get_of_In pm k r : sorted (pm_keys pm) -> In (k, r) pm -> pm_get pm k = Some r.
Proof.
  intros S Hin. destruct (pm_get pm k) as [r'|] eqn:G.
  - f_equal. apply pm_get_In in G. unfold pm_keys in S. exact (sorted_keys_unique pm k r' r S G Hin).
  - exfalso. clear -Hin G. unfold pm_get in G. induction pm as [|[a b] t IH]; [contradiction|].
    cbn [aget] in G. destruct (k =? a) eqn:E; [discriminate|]. destruct Hin as [Hin|Hin]; [|auto].
    injection Hin as -> ->. rewrite Nat.eqb_refl in E. discriminate.
Qed.

Section View.
  Variable s0 : state.
  Variable o : rebase_opts.
  Hypothesis J0 : J s0.
  Let n0 := length (s_g s0).
  Let imm := o_imm o.
  Let T := find_descendants_for_rebase s0 imm.
  Let Scope := scope s0 imm.
  Hypothesis dom_targets : forall k r t, In (k, r) (s_pm s0) -> In t (new_parent_ids r) -> In t Scope.
  Hypothesis bms_odd : forall name t, In (name, t) (v_bms (s_v s0)) -> Nat.odd (length t) = true.

  Variable order : list nat.
  Variable s1 : state.
  Hypothesis HLI : LI s0 o order s1.
  Hypothesis Tall : forall x, In x T -> In x order.
  Let pm1 := s_pm s1.
  Let n1 := length (s_g s1).

  Definition Free (q : nat) : Prop := pm_get pm1 q = None /\ (q < n0 -> In q Scope).

  Lemma Scope_old a b : In b Scope -> anc (pg (s_g s0)) a b -> In a Scope.
  Proof.
    unfold Scope, scope. intros H Ha. pose proof (j_wf _ J0) as W.
    apply ancs_spec in H; [|assumption]. apply ancs_spec; [assumption|].
    destruct H as [h [Hh Hb]]. exists h. split; [assumption|]. eapply anc_trans; eassumption.
  Qed.

  Lemma bm_in_scope name t c : In (name, t) (v_bms (s_v s0)) -> In c (added_ids t) -> In c Scope.
  Proof.
    intros Hb Hc. destruct (j_bms _ J0 name t c Hb Hc) as [_ [h [Hh Ha]]].
    unfold Scope, scope. apply ancs_spec; [apply (j_wf _ J0)|].
    exists h. split; [apply in_or_app; now left|assumption].
  Qed.
  Lemma wc_in_scope ws c : In (ws, c) (v_wcs (s_v s0)) -> In c Scope.
  Proof.
    intros Hw. destruct (j_wcs _ J0 ws c Hw) as [_ [h [Hh Ha]]].
    unfold Scope, scope. apply ancs_spec; [apply (j_wf _ J0)|].
    exists h. split; [apply in_or_app; now left|assumption].
  Qed.

  (** Every fully resolved replacement is free. *)
  Lemma mapping_free mapping k nids :
    resolve_rewrite_mapping pm1 (fun _ => true) = Ok mapping ->
    aget Nat.eqb k mapping = Some nids ->
    nids <> [] /\ forall z, In z nids -> z < n1 /\ Free z.
  Proof.
    intros HM Hk. destruct (resolve_mapping_spec _ _ _ HM k nids Hk) as [Kk R].
    destruct (rewritten_ids_with_result _ _ _ _ R) as [NE F]. split; [assumption|].
    intros z Hz. destruct (F z Hz) as [Fz Src].
    assert (Gz : pm_get pm1 z = None).
    { unfold pm_filtered in Fz. destruct (pm_get pm1 z); [discriminate|reflexivity]. }
    destruct Src as [[<-|[]]|[k' [r [Hin Ht]]]].
    - exfalso. apply Kk. unfold pm_filtered. now rewrite Gz.
    - pose proof (li_J _ _ _ _ HLI) as J1.
      destruct (j_pm _ J1 k' r Hin) as [_ Rg]. split; [now apply Rg|]. split; [assumption|].
      intros Lz. pose proof (pm_get_of_In _ _ _ (j_pm_sorted _ J1) Hin) as G'.
      destruct (in_dec Nat.eq_dec k' order) as [Ho|Ho].
      + destruct (li_pm_done _ _ _ _ HLI k' r Ho G') as [_ S]. destruct (S z Ht) as [_ [_ [_ Sc]]]. auto.
      + eapply dom_targets; [|exact Ht]. apply pm_get_In.
        rewrite <- (li_pm_other _ _ _ _ HLI k' Ho). exact G'.
  Qed.

  (** ** Invariant of the reference updates *)
  Record PI (st : state) : Prop := mkPI {
    pi_J : J st;
    pi_len : n1 <= length (s_g st);
    pi_old : forall i, i < n1 -> getc (s_g st) i = getc (s_g s1) i;
    pi_new : forall y, n1 <= y < length (s_g st) ->
               forall q, In q (c_parents (getc (s_g st) y)) -> Free q;
    pi_keys : forall k, pm_get pm1 k <> None -> pm_get (s_pm st) k <> None;
    pi_heads : forall h, In h (v_heads (s_v st)) -> h < n0 -> h = 0 \/ In h Scope;
    pi_bms : forall name t, In (name, t) (v_bms (s_v st)) ->
               Nat.odd (length t) = true /\ forall c, In c (added_ids t) -> c < n0 -> In c Scope;
    pi_wcs : forall ws c, In (ws, c) (v_wcs (s_v st)) -> c < n0 -> In c Scope;
  }.

  Lemma PI_init : PI s1.
  Proof.
    constructor.
    - apply (li_J _ _ _ _ HLI).
    - unfold n1. lia.
    - auto.
    - intros y Hy. unfold n1 in Hy. lia.
    - auto.
    - intros h Hh L. right. now apply (li_heads _ _ _ _ HLI).
    - intros name t Hb. rewrite (li_bms _ _ _ _ HLI) in Hb. split; [eapply bms_odd; eassumption|].
      intros c Hc _. eapply bm_in_scope; eassumption.
    - intros ws c Hw _. rewrite (li_wcs _ _ _ _ HLI) in Hw. eapply wc_in_scope; eassumption.
  Qed.

  Lemma PI_set_bookmark st name t : PI st -> Nat.odd (length t) = true ->
    (forall c, In c (added_ids t) -> c < length (s_g st) /\ (c < n0 -> In c Scope)) ->
    PI (set_local_bookmark_target st name t).
  Proof.
    intros P O R.
    assert (Jn : J (set_local_bookmark_target st name t)).
    { apply J_set_local_bookmark_target; [apply (pi_J _ P)|]. intros c Hc. now apply R. }
    unfold set_local_bookmark_target in *.
    destruct (fold_add_head_fields (added_ids t) (s_v st)) as [A [B C]].
    set (v1 := fold_left view_add_head (added_ids t) (s_v st)) in *.
    constructor; cbn [set_view s_g s_v s_pm v_heads v_bms v_wcs]; try apply P; auto.
    - intros h Hh L. apply C in Hh. destruct Hh as [Hh|Hh]; [right; now apply R|now apply (pi_heads _ P)].
    - intros name' t' Hb. destruct (is_absent t).
      + apply (adel_In N.eqb) in Hb. rewrite A in Hb. now apply (pi_bms _ P name').
      + apply (aset_In N.eqb N.ltb) in Hb. destruct Hb as [E|Hb].
        * injection E as -> ->. split; [assumption|]. intros c Hc. now apply R.
        * rewrite A in Hb. now apply (pi_bms _ P name').
    - intros ws c Hw. rewrite B in Hw. now apply (pi_wcs _ P ws).
  Qed.

  Lemma bm_get_facts st name : PI st ->
    Nat.odd (length (bm_get (s_v st) name)) = true /\
    forall c, In c (added_ids (bm_get (s_v st) name)) -> c < length (s_g st) /\ (c < n0 -> In c Scope).
  Proof.
    intros P. unfold bm_get. destruct (aget N.eqb name (v_bms (s_v st))) as [t|] eqn:E.
    - apply (aget_In N.eqb Neqb_spec) in E. destruct (pi_bms _ P name t E) as [A B].
      split; [assumption|]. intros c Hc. split; [|now apply B].
      now apply (j_bms _ (pi_J _ P) name t c E Hc).
    - split; [reflexivity|]. intros c [].
  Qed.

  Lemma PI_merge_bookmark st name old other : PI st -> Nat.odd (length other) = true ->
    (forall c, In c (added_ids other) -> c < length (s_g st) /\ (c < n0 -> In c Scope)) ->
    PI (merge_local_bookmark st name [Some old] other).
  Proof.
    intros P O R. unfold merge_local_bookmark.
    destruct (bm_get_facts st name P) as [OS RS].
    destruct (merge_ref_targets_facts (pg (s_g st)) (bm_get (s_v st) name) other old OS O) as [OT AT].
    apply PI_set_bookmark; [assumption|assumption|].
    intros c Hc. apply added_ids_In in Hc. destruct (AT _ Hc) as [H|H]; apply added_ids_In in H; auto.
  Qed.

  Lemma PI_update_local_bookmarks st mapping del st' :
    resolve_rewrite_mapping pm1 (fun _ => true) = Ok mapping ->
    PI st -> update_local_bookmarks st mapping del = Ok st' -> PI st'.
  Proof.
    intros HM P H. unfold update_local_bookmarks in H.
    match type of H with fold_left _ ?l _ = _ => set (changed := l) in * end.
    assert (Hch : forall name oldc nids, In (name, oldc, nids) changed -> aget Nat.eqb oldc mapping = Some nids).
    { intros name oldc nids Hin. unfold changed in Hin. apply in_flat_map in Hin.
      destruct Hin as [[nm t] [_ Hin]]. apply in_flat_map in Hin. destruct Hin as [id [_ Hin]].
      destruct (aget Nat.eqb id mapping) as [ns|] eqn:E; [|contradiction].
      destruct Hin as [Hin|[]]. injection Hin as <- <- <-. assumption. }
    refine (fold_res_inv (fun (s1' : state) (ch : N * nat * list nat) => _) PI changed _ st st' P H).
    intros a [[name oldc] nids] a' Pa Hin Hf. cbv beta iota in Hf.
    destruct (mapping_free mapping oldc nids HM (Hch _ _ _ Hin)) as [NE FR].
    assert (Rn : forall z, In z nids -> z < length (s_g a) /\ (z < n0 -> In z Scope)).
    { intros z Hz. destruct (FR z Hz) as [A [_ B]]. pose proof (pi_len _ Pa). split; [lia|assumption]. }
    destruct (o_delete_abandoned o && is_abandoned (pm_get (s_pm a) oldc)) eqn:D.
    - revert Hf. unfold bind. destruct (del && is_abandoned (pm_get (s_pm a) oldc)).
      + intros Hf. apply Ok_inj in Hf. subst a'. apply PI_merge_bookmark; [assumption|reflexivity|intros c []].
      + destruct nids as [|n ns]; [discriminate|]. intros Hf. apply Ok_inj in Hf. subst a'.
        destruct (intersperse_facts (map Some (n :: ns)) (Some oldc)) as [IE IO]; [discriminate|].
        apply PI_merge_bookmark; [assumption|assumption|].
        intros c Hc. apply added_ids_In in Hc. rewrite IE in Hc. apply in_map_iff in Hc.
        destruct Hc as [z [E Hz]]. injection E as ->. now apply Rn.
    - revert Hf. destruct (del && is_abandoned (pm_get (s_pm a) oldc)).
      + intros Hf. apply Ok_inj in Hf. subst a'. apply PI_merge_bookmark; [assumption|reflexivity|intros c []].
      + destruct nids as [|n ns]; [discriminate|]. intros Hf. apply Ok_inj in Hf. subst a'.
        destruct (intersperse_facts (map Some (n :: ns)) (Some oldc)) as [IE IO]; [discriminate|].
        apply PI_merge_bookmark; [assumption|assumption|].
        intros c Hc. apply added_ids_In in Hc. rewrite IE in Hc. apply in_map_iff in Hc.
        destruct Hc as [z [E Hz]]. injection E as ->. now apply Rn.
  Qed.
End View.
