(** C27: sequences of sparse-pattern changes (induction over [set_sparse_clean]). *)
From Verif Require Import Base.Prelude Base.FsC Base.WcC Base.C24Chk Base.C25Chk Base.C27Chk Base.WcNames Model.C27.
From Verif Require Import Proofs.FsC Proofs.WcCore Proofs.C24Step Proofs.C24Diff Proofs.C24Main Proofs.C25Main Proofs.C27Main.
Local Open Scope list_scope.

Lemma last_cons_default {A} (ps : list A) : forall a d, last (a :: ps) d = last ps a.
Proof.
  induction ps as [|b ps IH]; intros a d; [reflexivity|].
  change (last (a :: b :: ps) d) with (last (b :: ps) d). rewrite (IH b d), (IH b a). reflexivity.
Qed.

Section Seq.
  Variable rn : list name.

  Theorem set_sparse_seq_clean : forall ps w u f,
    tok rn (wc_tree w) -> nodup_paths (keys (wc_tree w)) = true -> flat_ok (wc_tree w) ->
    uokp rn u (keys (wc_tree w)) ->
    models (restrict (matches (wc_sparse w)) (wc_tree w)) u f ->
    let '(rs, f', w') := set_sparse_seq rn f w ps in
    Forall (fun r => exists st, r = ROk st) rs /\ length rs = length ps
    /\ models (restrict (matches (last ps (wc_sparse w))) (wc_tree w)) u f'
    /\ wc_tree w' = wc_tree w /\ wc_sparse w' = last ps (wc_sparse w).
  Proof.
    induction ps as [|p ps IH]; intros w u f Ht Hn Hf Hu Hm.
    - cbn [set_sparse_seq last length]. repeat split; [constructor|exact Hm].
    - cbn [set_sparse_seq].
      pose proof (set_sparse_clean rn w p u f Ht Hn Hf Hu Hm) as Hc.
      destruct (set_sparse rn f w p) as [o w1].
      destruct Hc as (Hr & Hm1 & Ht1 & Hs1).
      specialize (IH w1 u (o_fs o)). rewrite Ht1, Hs1 in IH.
      specialize (IH Ht Hn Hf Hu Hm1).
      destruct (set_sparse_seq rn (o_fs o) w1 ps) as [[rs f'] w'].
      destruct IH as (Hall & Hlen & Hm' & Ht' & Hs').
      rewrite last_cons_default.
      repeat split.
      + constructor; [eexists; exact Hr|exact Hall].
      + cbn [length]. rewrite Hlen. reflexivity.
      + exact Hm'.
      + exact Ht'.
      + exact Hs'.
  Qed.
  (** Path independence: two sequences of pattern changes that end with the same patterns leave
      the same disk (at every path), the same tree and the same recorded patterns - in
      particular the same as setting the final patterns directly. *)
  Theorem set_sparse_path_independent : forall ps1 ps2 w u f,
    tok rn (wc_tree w) -> nodup_paths (keys (wc_tree w)) = true -> flat_ok (wc_tree w) ->
    uokp rn u (keys (wc_tree w)) ->
    models (restrict (matches (wc_sparse w)) (wc_tree w)) u f ->
    last ps1 (wc_sparse w) = last ps2 (wc_sparse w) ->
    let r1 := set_sparse_seq rn f w ps1 in
    let r2 := set_sparse_seq rn f w ps2 in
    (forall q, lookup (snd (fst r1)) q = lookup (snd (fst r2)) q)
    /\ wc_tree (snd r1) = wc_tree (snd r2) /\ wc_sparse (snd r1) = wc_sparse (snd r2).
  Proof.
    intros ps1 ps2 w u f Ht Hn Hf Hu Hm Hl r1 r2.
    pose proof (set_sparse_seq_clean ps1 w u f Ht Hn Hf Hu Hm) as H1.
    pose proof (set_sparse_seq_clean ps2 w u f Ht Hn Hf Hu Hm) as H2.
    fold r1 in H1. fold r2 in H2.
    destruct r1 as [[rs1 f1] w1]. destruct r2 as [[rs2 f2] w2].
    destruct H1 as (_ & _ & Hm1 & Ht1 & Hs1). destruct H2 as (_ & _ & Hm2 & Ht2 & Hs2).
    cbn [fst snd]. rewrite Hl in Hm1, Hs1. repeat split.
    - intros q. rewrite (Hm1 q), (Hm2 q). reflexivity.
    - congruence.
    - congruence.
  Qed.
End Seq.
