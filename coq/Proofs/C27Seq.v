(** C27: sequences of sparse-pattern changes (induction over [set_sparse_clean]). *)
From Verif Require Import Base.Prelude Base.FsC Base.WcC Base.C24Chk Base.C25Chk Base.C27Chk Base.WcNames Model.C27.
From Verif Require Import Proofs.FsC Proofs.WcCore Proofs.C24Step Proofs.C24Diff Proofs.C24Main Proofs.C25Main Proofs.C27Main.
Local Open Scope list_scope.

Lemma last_cons_default {A} (ps : list A) : forall a d, last (a :: ps) d = last ps a.
Proof.
  induction ps as [|b ps IH]; intros a d; [reflexivity|].
  change (last (a :: b :: ps) d) with (last (b :: ps) d). rewrite (IH b d), (IH b a). reflexivity.
Qed.

Section Seq.
  Variable rn : list name.

  Theorem set_sparse_seq_clean : forall ps w u f,
    tok rn (wc_tree w) -> nodup_paths (keys (wc_tree w)) = true -> flat_ok (wc_tree w) ->
    uokp rn u (keys (wc_tree w)) ->
    models (restrict (matches (wc_sparse w)) (wc_tree w)) u f ->
    let '(rs, f', w') := set_sparse_seq rn f w ps in
    Forall (fun r => exists st, r = ROk st) rs /\ length rs = length ps
    /\ models (restrict (matches (last ps (wc_sparse w))) (wc_tree w)) u f'
    /\ wc_tree w' = wc_tree w /\ wc_sparse w' = last ps (wc_sparse w).
  Proof.
    induction ps as [|p ps IH]; intros w u f Ht Hn Hf Hu Hm.
    - cbn [set_sparse_seq last length]. repeat split; [constructor|exact Hm].
    - cbn [set_sparse_seq].
      pose proof (set_sparse_clean rn w p u f Ht Hn Hf Hu Hm) as Hc.
      destruct (set_sparse rn f w p) as [o w1].
      destruct Hc as (Hr & Hm1 & Ht1 & Hs1).
      specialize (IH w1 u (o_fs o)). rewrite Ht1, Hs1 in IH.
      specialize (IH Ht Hn Hf Hu Hm1).
      destruct (set_sparse_seq rn (o_fs o) w1 ps) as [[rs f'] w'].
      destruct IH as (Hall & Hlen & Hm' & Ht' & Hs').
      rewrite last_cons_default.
      repeat split.
      + constructor; [eexists; exact Hr|exact Hall].
      + cbn [length]. rewrite Hlen. reflexivity.
      + exact Hm'.
      + exact Ht'.
      + exact Hs'.
  Qed.
  (** Path independence: two sequences of pattern changes that end with the same patterns leave
      the same disk (at every path), the same tree and the same recorded patterns - in
      particular the same as setting the final patterns directly. *)
  Theorem set_sparse_path_independent : forall ps1 ps2 w u f,
    tok rn (wc_tree w) -> nodup_paths (keys (wc_tree w)) = true -> flat_ok (wc_tree w) ->
    uokp rn u (keys (wc_tree w)) ->
    models (restrict (matches (wc_sparse w)) (wc_tree w)) u f ->
    last ps1 (wc_sparse w) = last ps2 (wc_sparse w) ->
    let r1 := set_sparse_seq rn f w ps1 in
    let r2 := set_sparse_seq rn f w ps2 in
    (forall q, lookup (snd (fst r1)) q = lookup (snd (fst r2)) q)
    /\ wc_tree (snd r1) = wc_tree (snd r2) /\ wc_sparse (snd r1) = wc_sparse (snd r2).
  Proof.
    intros ps1 ps2 w u f Ht Hn Hf Hu Hm Hl r1 r2.
    pose proof (set_sparse_seq_clean ps1 w u f Ht Hn Hf Hu Hm) as H1.
    pose proof (set_sparse_seq_clean ps2 w u f Ht Hn Hf Hu Hm) as H2.
    fold r1 in H1. fold r2 in H2.
    destruct r1 as [[rs1 f1] w1]. destruct r2 as [[rs2 f2] w2].
    destruct H1 as (_ & _ & Hm1 & Ht1 & Hs1). destruct H2 as (_ & _ & Hm2 & Ht2 & Hs2).
    cbn [fst snd]. rewrite Hl in Hm1, Hs1. repeat split.
    - intros q. rewrite (Hm1 q), (Hm2 q). reflexivity.
    - congruence.
    - congruence.
  Qed.
  (** Pattern changes interleaved with checkouts, any sequence: every call succeeds, the tree is
      the one checked out last, the patterns are the ones set last, and the disk is exactly that
      tree inside those patterns plus the untracked entries. *)
  Definition good_tree (t : tree) : Prop :=
    tok rn t /\ nodup_paths (keys t) = true /\ flat_ok t.

  Theorem run_ops_clean : forall ops w u f,
    (forall t, In t (wc_tree w :: trees_of ops) -> good_tree t) ->
    uokp rn u (flat_map keys (wc_tree w :: trees_of ops)) ->
    models (restrict (matches (wc_sparse w)) (wc_tree w)) u f ->
    let '(rs, f', w') := run_ops rn f w ops in
    Forall (fun r => exists st, r = ROk st /\ n_skipped st = 0%N) rs /\ length rs = length ops
    /\ wc_tree w' = final_tree ops (wc_tree w) /\ wc_sparse w' = final_sparse ops (wc_sparse w)
    /\ models (restrict (matches (wc_sparse w')) (wc_tree w')) u f'.
  Proof.
    induction ops as [|op ops IH]; intros w u f Hg Hu Hm.
    - cbn [run_ops final_tree final_sparse length]. repeat split; [constructor|exact Hm].
    - cbn [run_ops].
      destruct (Hg (wc_tree w) (or_introl eq_refl)) as (Ht & Hn & Hf).
      destruct op as [t|ps].
      + (* checkout *)
        destruct (Hg t) as (Ht2 & Hn2 & Hf2); [right; left; reflexivity|].
        assert (Hu1 : uokp rn u (keys (restrict (matches (wc_sparse w)) (wc_tree w))
                                 ++ keys (restrict (matches (wc_sparse w)) t))).
        { apply (uokp_incl rn u _ _ Hu). intros p Hp. cbn [trees_of flat_map].
          apply in_app_or in Hp. destruct Hp as [Hp|Hp]; apply keys_restrict_sub in Hp.
          - apply in_or_app. left. exact Hp.
          - apply in_or_app. right. apply in_or_app. left. exact Hp. }
        pose proof (check_out_clean rn w t u f (tok_restrict rn _ _ Ht) (tok_restrict rn _ _ Ht2)
                      Hf Hu1 Hm) as Hc.
        cbv zeta in Hc.
        destruct (check_out rn f w t) as [o w1].
        destruct Hc as ((st & Hr & Hsk) & Hm1 & Ht1 & Hs1).
        specialize (IH w1 u (o_fs o)). rewrite Ht1, Hs1 in IH.
        assert (Hg1 : forall t', In t' (t :: trees_of ops) -> good_tree t').
        { intros t' Hin. apply Hg. right. exact Hin. }
        assert (Hu2 : uokp rn u (flat_map keys (t :: trees_of ops))).
        { apply (uokp_incl rn u _ _ Hu). intros p Hp. cbn [trees_of flat_map].
          apply in_or_app. right. exact Hp. }
        specialize (IH Hg1 Hu2 Hm1).
        destruct (run_ops rn (o_fs o) w1 ops) as [[rs f'] w'].
        destruct IH as (Hall & Hlen & Hft & Hfs & Hmm).
        cbn [final_tree final_sparse length]. repeat split.
        * constructor; [exists st; split; assumption|exact Hall].
        * rewrite Hlen. reflexivity.
        * exact Hft.
        * exact Hfs.
        * exact Hmm.
      + (* set_sparse_patterns *)
        assert (Hu1 : uokp rn u (keys (wc_tree w))).
        { apply (uokp_incl rn u _ _ Hu). intros p Hp. cbn [flat_map].
          apply in_or_app. left. exact Hp. }
        pose proof (set_sparse_clean rn w ps u f Ht Hn Hf Hu1 Hm) as Hc.
        destruct (set_sparse rn f w ps) as [o w1].
        destruct Hc as (Hr & Hm1 & Ht1 & Hs1).
        specialize (IH w1 u (o_fs o)). rewrite Ht1, Hs1 in IH.
        cbn [trees_of] in Hg, Hu. specialize (IH Hg Hu Hm1).
        destruct (run_ops rn (o_fs o) w1 ops) as [[rs f'] w'].
        destruct IH as (Hall & Hlen & Hft & Hfs & Hmm).
        cbn [final_tree final_sparse length]. repeat split.
        * constructor; [eexists; split; [exact Hr|reflexivity]|exact Hall].
        * rewrite Hlen. reflexivity.
        * exact Hft.
        * exact Hfs.
        * exact Hmm.
  Qed.
End Seq.
