(** Layer B: the fuel [S (length left)] of [collect_unchanged_words] suffices - any larger
    fuel gives the same result, i.e. the recursion of the implementation terminates within it
    (each recursive call works on a strictly shorter left token list). *)
From Coq Require Import Lia Arith Sorted Permutation.
From Verif Require Import Base.Prelude Model.Diff
     Proofs.DiffBase Proofs.DiffA2 Proofs.DiffB1 Proofs.DiffB2 Proofs.DiffB3 Proofs.DiffB5.

Section Fuel.
  Context {T : Type} (eqb : T -> T -> bool).
  Hypothesis eqb_spec : forall x y, eqb x y = true <-> x = y.
  Variable order : list (T * list nat) -> list (T * list nat).
  Hypothesis order_perm : forall h, Permutation (order h) h.
  Variable max_occ : nat.

  Lemma slice_length_bound {A} (l : list A) s e : length (slice l s e) <= e - s.
  Proof. unfold slice. rewrite firstn_length. lia. Qed.
  Lemma slice_length_bound2 {A} (l : list A) s e : length (slice l s e) <= length l - s.
  Proof. unfold slice. rewrite firstn_length, skipn_length. lia. Qed.

  Theorem cuw_fuel : forall f1 f2 left right loff roff,
    length left < f1 -> length left < f2 ->
    cuw eqb order max_occ f1 left right loff roff = cuw eqb order max_occ f2 left right loff roff.
  Proof.
    induction f1 as [|f1 IH]; intros f2 left right loff roff H1 H2; [lia|].
    destruct f2 as [|f2]; [lia|]. cbn [cuw].
    destruct (is_nil left || is_nil right) eqn:En; [reflexivity|].
    assert (Hpos : 0 < length left) by (destruct left; [discriminate En|cbn; lia]).
    destruct (lcs_positions_spec eqb eqb_spec order order_perm max_occ left right) as (Ls & Le). cbv zeta in Ls, Le.
    set (lcs := lcs_positions eqb order max_occ left right) in *.
    set (go1 := fix go (prevl prevr : nat) (lcs : list (nat * nat)) : list (nat * nat) :=
                  match lcs with
                  | [] => cuw eqb order max_occ f1 (slice left prevl (length left)) (slice right prevr (length right))
                              (loff + prevl) (roff + prevr)
                  | (lp, rp) :: t =>
                      cuw eqb order max_occ f1 (slice left prevl lp) (slice right prevr rp)
                          (loff + prevl) (roff + prevr)
                      ++ (loff + lp, roff + rp) :: go (S lp) (S rp) t
                  end).
    set (go2 := fix go (prevl prevr : nat) (lcs : list (nat * nat)) : list (nat * nat) :=
                  match lcs with
                  | [] => cuw eqb order max_occ f2 (slice left prevl (length left)) (slice right prevr (length right))
                              (loff + prevl) (roff + prevr)
                  | (lp, rp) :: t =>
                      cuw eqb order max_occ f2 (slice left prevl lp) (slice right prevr rp)
                          (loff + prevl) (roff + prevr)
                      ++ (loff + lp, roff + rp) :: go (S lp) (S rp) t
                  end).
    assert (G : forall l p q, Forall (fun x => fst x < length left) l -> (l = [] -> 0 < p) ->
                              go1 p q l = go2 p q l).
    { induction l as [|[lp rp] t IHl]; intros p q Hb Hz; cbn [go1 go2].
      - specialize (Hz eq_refl). apply IH.
        + pose proof (slice_length_bound2 left p (length left)). lia.
        + pose proof (slice_length_bound2 left p (length left)). lia.
      - inversion Hb as [|? ? Hb1 Hb']; subst. cbn [fst] in Hb1. f_equal.
        + apply IH.
          * pose proof (slice_length_bound left p lp). lia.
          * pose proof (slice_length_bound left p lp). lia.
        + f_equal. apply IHl; [assumption|lia]. }
    assert (InRange : Forall (fun x => fst x < length left) lcs).
    { eapply Forall_impl; [|exact Le]. intros x (k & A & _). apply nth_error_Some. congruence. }
    destruct lcs as [|q0 t] eqn:El; [reflexivity|]. rewrite <- El in *.
    rewrite (G lcs 0 0 InRange) by (rewrite El; discriminate). reflexivity.
  Qed.

  (** The result of [collect_unchanged_words] is the one reached with any larger fuel. *)
  Theorem collect_unchanged_words_fuel left right fuel :
    length left < fuel ->
    collect_unchanged_words eqb order max_occ left right = cuw eqb order max_occ fuel left right 0 0.
  Proof. intros H. unfold collect_unchanged_words. apply cuw_fuel; lia. Qed.
End Fuel.
