(** Merge::simplify cancels everything that can be cancelled: in its result no add equals a
    remove. Consequence: a conflict whose net counts are those of a single value simplifies
    to exactly that value, whatever its arity. (Invariant of the literal index-vector loop
    of Model/Merge.v: the adds left of the cursor have no equal remove.) *)
From Verif Require Import Base.Prelude Model.Merge Proofs.MergeDen Proofs.C01 Proofs.C02.
From Coq Require Import Lia Arith.
Local Open Scope Z_scope.

Section Disjoint.
  Context {T : Type} (eqb : T -> T -> bool).
  Hypothesis eqb_spec : forall x y, eqb x y = true <-> x = y.

  (** * positions *)
  Lemma nth_error_firstn_lt' {A} (l : list A) : forall n j, (j < n)%nat -> nth_error (firstn n l) j = nth_error l j.
  Proof.
    induction l as [|x t IH]; intros n j H; [now rewrite firstn_nil|].
    destruct n; [lia|]. destruct j; [reflexivity|]. cbn [firstn nth_error]. apply IH. lia.
  Qed.

  Lemma nth_error_skipn' {A} (l : list A) : forall n j, nth_error (skipn n l) j = nth_error l (n + j).
  Proof.
    induction l as [|x t IH]; intros n j; [rewrite skipn_nil; destruct j; destruct (n + _)%nat; reflexivity|].
    destruct n; [reflexivity|]. cbn [skipn Nat.add nth_error]. apply IH.
  Qed.

  Lemma nth_error_remove2 {A} (l : list A) r j :
    nth_error (remove2 r l) j = if (j <? r)%nat then nth_error l j else nth_error l (j + 2).
  Proof.
    unfold remove2. destruct (Nat.ltb_spec j r) as [H|H].
    - destruct (Nat.le_gt_cases (length l) j) as [Hl|Hl].
      + rewrite (proj2 (nth_error_None l j)) by assumption. apply nth_error_None.
        rewrite app_length, firstn_length, skipn_length. lia.
      + rewrite nth_error_app1 by (rewrite firstn_length; lia). apply nth_error_firstn_lt'. lia.
    - destruct (Nat.le_gt_cases (length l) r) as [Hl|Hl].
      + rewrite firstn_all2 by assumption. rewrite skipn_all2 by lia. rewrite app_nil_r.
        rewrite (proj2 (nth_error_None l j)), (proj2 (nth_error_None l (j + 2))) by lia. reflexivity.
      + rewrite nth_error_app2 by (rewrite firstn_length; lia).
        rewrite firstn_length, Nat.min_l by lia. rewrite nth_error_skipn'. f_equal. lia.
  Qed.

  Lemma find_remove_none l : forall pos b a,
    find_remove eqb pos b l a = None ->
    forall k y, nth_error l k = Some y -> (if Nat.even k then b else negb b) = true ->
                eqb (snd y) a = false.
  Proof.
    induction l as [|[i x] t IH]; intros pos b a H k y Hk Hp; [destruct k; discriminate|].
    cbn [find_remove] in H. destruct (b && eqb x a)%bool eqn:E; [discriminate|].
    destruct k as [|k].
    - cbn in Hk. injection Hk as <-. cbn [snd]. cbn in Hp. subst b. exact E.
    - cbn [nth_error] in Hk. apply (IH _ _ _ H k y Hk).
      rewrite Nat.even_succ, <- Nat.negb_even in Hp. destruct (Nat.even k), b; cbn in *; congruence.
  Qed.

  (** * the invariant *)
  Definition vals (l : list (nat * T)) : list T := map snd l.

  (** Adds (even positions) below [ai] differ from every remove (odd position). *)
  Definition inv (l : list (nat * T)) (ai : nat) : Prop :=
    forall j k x y, Nat.even j = true -> (j < ai)%nat -> Nat.odd k = true ->
                    nth_error l j = Some x -> nth_error l k = Some y -> snd x <> snd y.

  Lemma odd_even_false k : Nat.odd k = true -> Nat.even k = false.
  Proof. intros H. rewrite <- Nat.negb_odd, H. reflexivity. Qed.

  Lemma even_lt_even j a : Nat.even j = true -> Nat.even a = true -> (j < a)%nat -> (j + 2 <= a)%nat.
  Proof.
    intros Hj Ha Hlt. destruct (Nat.eq_dec (S j) a) as [<-|]; [|lia].
    rewrite Nat.even_succ, <- Nat.negb_even, Hj in Ha. discriminate.
  Qed.

  Lemma odd_pos_next (l : list (nat * T)) r :
    Nat.odd (length l) = true -> Nat.odd r = true -> (r < length l)%nat -> (S r < length l)%nat.
  Proof.
    intros Hl Hr Hlt. destruct (Nat.eq_dec (S r) (length l)) as [E|]; [|lia].
    rewrite <- E, Nat.odd_succ, <- Nat.negb_odd, Hr in Hl. discriminate.
  Qed.

  Lemma simp_step_inv l ai l' ai' :
    Nat.even ai = true -> Nat.odd (length l) = true ->
    simp_step eqb l ai = (l', ai') -> inv l ai -> inv l' ai'.
  Proof.
    intros Hev Hodd H Hinv. unfold simp_step in H.
    destruct (nth_error l ai) as [[i a]|] eqn:Ha.
    2:{ injection H as <- <-. intros j k x y Hj Hlt Hk Hx Hy.
        assert (j < length l)%nat by (apply nth_error_Some; congruence).
        assert (length l <= ai)%nat by (now apply nth_error_None).
        apply (Hinv j k x y); auto; lia. }
    assert (Hadv : forall j, Nat.even j = true -> (j < ai + 2)%nat -> (j < ai)%nat \/ j = ai).
    { intros j Hj Hlt. destruct (Nat.lt_ge_cases j ai) as [|Hge]; [now left|right].
      destruct (Nat.eq_dec j ai); [assumption|exfalso].
      assert (j = S ai) by lia. subst j. rewrite Nat.even_succ, <- Nat.negb_even, Hev in Hj. discriminate. }
    destruct (find_remove eqb 0 false l a) as [r|] eqn:Hf.
    - pose proof Hf as Hf'. apply find_remove_spec in Hf' as (_ & j0 & x0 & Hr & Hx0 & Hp).
      rewrite Nat.sub_0_r in Hr, Hp.
      assert (Hrodd : Nat.odd r = true) by (rewrite <- Nat.negb_even, Hp; reflexivity).
      assert (Hrl : (r < length l)%nat) by (apply nth_error_Some; congruence).
      pose proof (odd_pos_next l r Hodd Hrodd Hrl) as Hsr.
      destruct (nth_error l (S r)) as [y0|] eqn:Hy0; [|apply nth_error_None in Hy0; lia].
      injection H as <- <-.
      intros j k x y Hj Hlt Hk Hx Hy.
      rewrite nth_error_remove2 in Hx, Hy.
      (* the remove at k comes from a remove of l *)
      assert (Hrem : exists k', Nat.odd k' = true /\ nth_error l k' = Some y).
      { destruct (k <? r)%nat.
        - exists k. split; [assumption|]. rewrite nth_error_set_nth in Hy.
          destruct (Nat.eqb_spec ai k) as [<-|]; [|assumption].
          rewrite (odd_even_false _ Hk) in Hev. discriminate.
        - exists (k + 2)%nat. split; [now rewrite Nat.odd_add, Hk|].
          rewrite nth_error_set_nth in Hy.
          destruct (Nat.eqb_spec ai (k + 2)) as [E|]; [|assumption].
          assert (Nat.odd (k + 2) = true) by (now rewrite Nat.odd_add, Hk).
          rewrite <- E, <- Nat.negb_even, Hev in H. discriminate. }
      destruct Hrem as (k' & Hk' & Hyk').
      (* the add at j comes from an add of l left of the cursor *)
      assert (Hadd : exists j', Nat.even j' = true /\ (j' < ai)%nat /\ nth_error l j' = Some x).
      { destruct (Nat.ltb_spec j r) as [Hjr|Hjr].
        - exists j. repeat split; auto. rewrite nth_error_set_nth in Hx.
          destruct (Nat.eqb_spec ai j); [lia|assumption].
        - rewrite nth_error_set_nth in Hx.
          assert (Hj2 : Nat.even (j + 2) = true) by (now rewrite Nat.even_add, Hj).
          assert (Hle : (j + 2 <= ai)%nat) by (now apply even_lt_even).
          destruct (Nat.eqb_spec ai (j + 2)) as [E|Hne].
          + (* the element moved under the cursor position: it is l[r+1] *)
            rewrite <- E, Ha in Hx. injection Hx as <-.
            exists (S r). repeat split.
            * now rewrite Nat.even_succ.
            * assert (r <> j) by (intros ->; rewrite (odd_even_false _ Hrodd) in Hj; discriminate). lia.
            * assumption.
          + exists (j + 2)%nat. repeat split; auto. lia. }
      destruct Hadd as (j' & Hj' & Hlt' & Hxj').
      apply (Hinv j' k' x y); auto.
    - injection H as <- <-. intros j k x y Hj Hlt Hk Hx Hy.
      destruct (Hadv j Hj Hlt) as [Hl| ->]; [apply (Hinv j k x y); auto|].
      rewrite Ha in Hx. injection Hx as <-. cbn [snd].
      assert (E : eqb (snd y) a = false).
      { apply (find_remove_none l 0 false a Hf k y Hy). rewrite (odd_even_false _ Hk). reflexivity. }
      intros ->. rewrite (eqb_refl eqb eqb_spec) in E. discriminate.
  Qed.

  Lemma inv_weaken l a a' : inv l a -> (a' <= a)%nat -> inv l a'.
  Proof. intros H Hle j k x y Hj Hlt. apply H; auto; lia. Qed.

  Lemma simp_loop_inv fuel : forall l ai,
    Nat.even ai = true -> Nat.odd (length l) = true -> inv l ai ->
    (2 * length l <= ai + 2 * fuel)%nat ->
    inv (simp_loop eqb fuel l ai) (length (simp_loop eqb fuel l ai)).
  Proof.
    induction fuel as [|f IH]; intros l ai Hev Hodd Hinv Hm.
    - cbn [simp_loop]. apply (inv_weaken l ai); [assumption|lia].
    - cbn [simp_loop]. destruct (Nat.ltb_spec ai (length l)) as [Hlt|Hge].
      + destruct (simp_step eqb l ai) as [l' ai'] eqn:E.
        pose proof (simp_step_inv l ai l' ai' Hev Hodd E Hinv) as Hinv'.
        destruct (simp_step_den eqb eqb_spec l ai l' ai' Hev E) as (_ & Hev' & [[-> ->]|(Hl & -> & H2)]).
        * apply IH; auto. lia.
        * apply IH; auto; [|lia].
          rewrite Hl. destruct (length l) as [|[|n]]; [discriminate|lia|].
          replace (S (S n) - 2)%nat with n by lia.
          now rewrite Nat.odd_succ, Nat.even_succ in Hodd.
      + apply (inv_weaken l ai); [assumption|lia].
  Qed.

  Lemma length_enumerate {A} (l : list A) i : length (enumerate_from i l) = length l.
  Proof. rewrite <- (map_length snd), map_snd_enumerate. reflexivity. Qed.

  (** C01_simplified_disjoint: in a simplified conflict no add equals a remove. *)
  Theorem simplify_disjoint (m : list T) : Nat.odd (length m) = true ->
    forall j k a r, Nat.even j = true -> Nat.odd k = true ->
      nth_error (simplify eqb m) j = Some a -> nth_error (simplify eqb m) k = Some r -> a <> r.
  Proof.
    intros Hodd j k a r Hj Hk Ha Hr. unfold simplify, simplified_pairs in *.
    set (p := simp_loop eqb (S (length m)) (enumerate_from 0 m) 0) in *.
    assert (Hinv : inv p (length p)).
    { apply simp_loop_inv; [reflexivity|now rewrite length_enumerate| |rewrite length_enumerate; lia].
      intros ? ? ? ? _ H. lia. }
    rewrite nth_error_map in Ha, Hr.
    destruct (nth_error p j) as [x|] eqn:Ex; [|discriminate].
    destruct (nth_error p k) as [y|] eqn:Ey; [|discriminate].
    injection Ha as <-. injection Hr as <-.
    apply (Hinv j k x y); auto. apply nth_error_Some. congruence.
  Qed.

  (** * net counts of a conflict without a matching add *)
  Lemma den_s_no_add (l : list T) r : forall s,
    (forall j x, nth_error l j = Some x -> (if Nat.even j then s else negb s) = true -> x <> r) ->
    (den_s eqb s l r <= 0)
    /\ ((exists k, nth_error l k = Some r /\ (if Nat.even k then s else negb s) = false) ->
        den_s eqb s l r < 0).
  Proof.
    induction l as [|x t IH]; intros s H.
    - cbn [den_s]. split; [lia|]. intros (k & Hk & _). destruct k; discriminate.
    - rewrite den_s_cons. destruct (IH (negb s)) as [A B].
      { intros j y Hy Hs. apply (H (S j) y Hy). rewrite Nat.even_succ, <- Nat.negb_even.
        destruct (Nat.even j), s; cbn in *; congruence. }
      destruct s; cbn [sg negb] in *.
      + assert (x <> r) by (apply (H 0%nat x); reflexivity).
        rewrite (ind_diff eqb eqb_spec) by assumption. split; [lia|].
        intros (k & Hk & Hs). destruct k as [|k]; [discriminate|].
        assert (den_s eqb false t r < 0); [|lia]. apply B. exists k. split; [assumption|].
        rewrite Nat.even_succ, <- Nat.negb_even in Hs. destruct (Nat.even k); cbn in *; congruence.
      + assert (0 <= ind eqb x r <= 1) by (unfold ind; destruct (eqb x r); lia).
        split; [lia|]. intros (k & Hk & Hs). destruct k as [|k].
        * cbn in Hk. injection Hk as ->. rewrite (ind_same eqb eqb_spec). lia.
        * assert (den_s eqb true t r < 0); [|lia]. apply B. exists k. split; [assumption|].
          rewrite Nat.even_succ, <- Nat.negb_even in Hs. destruct (Nat.even k); cbn in *; congruence.
  Qed.

  (** A conflict whose net counts are those of the single value [v] simplifies to [v]. *)
  Theorem simplify_delta (m : list T) v : Nat.odd (length m) = true ->
    den eqb m v = 1 -> (forall w, w <> v -> den eqb m w = 0) -> simplify eqb m = [v].
  Proof.
    intros Hodd Hv Hz.
    pose proof (simplify_disjoint m Hodd) as Hd.
    pose proof (simplify_den eqb eqb_spec m) as Hden.
    destruct (simplify_arity eqb eqb_spec m) as [Hpar _].
    destruct (simplify eqb m) as [|a [|r t]] eqn:E.
    - cbn [length] in Hpar. rewrite <- (Nat.negb_odd (length m)), Hodd in Hpar. discriminate.
    - f_equal. destruct (eq_dec eqb eqb_spec a v) as [|Hne]; [assumption|exfalso].
      specialize (Hden a). rewrite (Hz a Hne) in Hden. unfold den in Hden. cbn [den_s] in Hden.
      rewrite (eqb_refl eqb eqb_spec) in Hden. lia.
    - exfalso.
      assert (Hneg : den eqb (a :: r :: t) r < 0).
      { apply (den_s_no_add (a :: r :: t) r true).
        - intros j x Hx Hs. destruct (Nat.even j) eqn:Ej; [|discriminate].
          apply (Hd j 1%nat x r); auto.
        - exists 1%nat. split; reflexivity. }
      rewrite Hden in Hneg.
      destruct (eq_dec eqb eqb_spec r v) as [->|Hne]; [lia|]. rewrite (Hz r Hne) in Hneg. lia.
  Qed.
End Disjoint.
