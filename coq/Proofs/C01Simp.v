(** C01, part 2: the loop of [get_simplified_mapping] (lib/src/merge.rs:360-391) on the
    literal index-vector model [simp_step]/[simp_loop] of Model/Merge.v.
    Invariant, termination by the cursor test, disjointness of the result,
    idempotence, and soundness of the index mapping. *)
From Verif Require Import Base.Prelude Model.Merge Proofs.MergeDen Proofs.C01.
From Coq Require Import Lia Arith.

(** * Arithmetic of the position map of one cancelling step.
    After [swap(r+1, ai); drain(r..r+2)] position [p] of the new vector holds what
    position [sigma r ai p] of the old vector held. *)
Definition sigma (r ai p : nat) : nat :=
  let p' := if p <? r then p else p + 2 in
  if Nat.eqb ai p' then S r else p'.

Lemma even_plus2 p : Nat.even (p + 2) = Nat.even p.
Proof. replace (p + 2) with (S (S p)) by lia. apply Nat.even_succ_succ. Qed.

Lemma even_true_ex n : Nat.even n = true -> exists k, n = 2 * k.
Proof. intros H. apply Nat.even_spec in H. exact H. Qed.

Lemma even_false_ex n : Nat.even n = false -> exists k, n = 2 * k + 1.
Proof.
  intros H. assert (O : Nat.odd n = true) by (now rewrite <- Nat.negb_even, H).
  apply Nat.odd_spec in O. exact O.
Qed.

Lemma sigma_even r ai p :
  Nat.even ai = true -> Nat.even r = false -> Nat.even (sigma r ai p) = Nat.even p.
Proof.
  intros Ha Hr. unfold sigma.
  assert (HS : Nat.even (S r) = true) by (now rewrite Nat.even_succ, <- Nat.negb_even, Hr).
  destruct (p <? r).
  - destruct (Nat.eqb ai p) eqn:E; [|reflexivity]. apply Nat.eqb_eq in E. subst. now rewrite HS, Ha.
  - destruct (Nat.eqb ai (p + 2)) eqn:E; [|apply even_plus2].
    apply Nat.eqb_eq in E. rewrite HS, <- (even_plus2 p), <- E. now rewrite Ha.
Qed.

Lemma sigma_inj r ai p q :
  Nat.even ai = true -> Nat.even r = false -> sigma r ai p = sigma r ai q -> p = q.
Proof.
  intros Ha Hr. apply even_true_ex in Ha as [a ->]. apply even_false_ex in Hr as [b ->].
  unfold sigma.
  destruct (p <? 2 * b + 1) eqn:Lp; destruct (q <? 2 * b + 1) eqn:Lq;
    [apply Nat.ltb_lt in Lp|apply Nat.ltb_lt in Lp|apply Nat.ltb_ge in Lp|apply Nat.ltb_ge in Lp];
    [apply Nat.ltb_lt in Lq|apply Nat.ltb_ge in Lq|apply Nat.ltb_lt in Lq|apply Nat.ltb_ge in Lq];
    repeat match goal with
           | |- context [Nat.eqb ?x ?y] =>
               let E := fresh "E" in destruct (Nat.eqb x y) eqn:E;
               [apply Nat.eqb_eq in E|apply Nat.eqb_neq in E]
           end; lia.
Qed.

Lemma sigma_lt r ai p :
  Nat.even ai = true -> Nat.even r = false -> Nat.even p = true -> p < ai ->
  sigma r ai p < ai.
Proof.
  intros Ha Hr Hp Hlt. apply even_true_ex in Ha as [a ->]. apply even_false_ex in Hr as [b ->].
  apply even_true_ex in Hp as [c ->]. unfold sigma.
  destruct (2 * c <? 2 * b + 1) eqn:Lp; [apply Nat.ltb_lt in Lp|apply Nat.ltb_ge in Lp];
    match goal with
    | |- context [Nat.eqb ?x ?y] =>
        let E := fresh "E" in destruct (Nat.eqb x y) eqn:E;
        [apply Nat.eqb_eq in E|apply Nat.eqb_neq in E]
    end; lia.
Qed.

(** * List facts *)
Lemma nth_error_skipn' {A} n : forall (l : list A) p, nth_error (skipn n l) p = nth_error l (n + p).
Proof.
  induction n as [|n IH]; intros l p; [reflexivity|].
  destruct l as [|h t]; [now destruct p|]. cbn [skipn Nat.add nth_error]. apply IH.
Qed.

Lemma nth_error_remove2 {A} (l : list A) : forall r p,
  r <= length l ->
  nth_error (remove2 r l) p = if p <? r then nth_error l p else nth_error l (p + 2).
Proof.
  induction l as [|h t IH]; intros r p H.
  - assert (r = 0) by (cbn in H; lia). subst. unfold remove2. cbn.
    destruct p; reflexivity.
  - destruct r as [|r].
    + unfold remove2. cbn [firstn app Nat.add]. rewrite nth_error_skipn'.
      replace (2 + p) with (p + 2) by lia. reflexivity.
    + rewrite remove2_cons. destruct p as [|p]; [reflexivity|].
      cbn [nth_error Nat.add]. rewrite IH by (cbn in H; lia). reflexivity.
Qed.

Lemma nth_error_enumerate {A} (l : list A) : forall s p,
  nth_error (enumerate_from s l) p = option_map (fun x => (s + p, x)) (nth_error l p).
Proof.
  induction l as [|h t IH]; intros s p; [now destruct p|].
  destruct p as [|p]; cbn [enumerate_from nth_error option_map].
  - now rewrite Nat.add_0_r.
  - rewrite IH. now rewrite Nat.add_succ_r.
Qed.

Lemma length_enumerate {A} (l : list A) s : length (enumerate_from s l) = length l.
Proof. revert s; induction l; intros s; cbn; auto. Qed.

Section C01Simp.
  Context {T : Type} (eqb : T -> T -> bool).
  Hypothesis eqb_spec : forall x y, eqb x y = true <-> x = y.

  (** [evens]/[odds] in terms of positions. *)
  Lemma in_evens_odds (l : list T) :
    (forall v, In v (evens l) <-> exists j, Nat.even j = true /\ nth_error l j = Some v)
    /\ (forall v, In v (odds l) <-> exists j, Nat.even j = false /\ nth_error l j = Some v).
  Proof.
    induction l as [|x t [IHe IHo]].
    - split; intros v; cbn; (split; [tauto|intros (j & _ & H); now destruct j]).
    - split; intros v; cbn [evens odds].
      + split.
        * intros [->|H]; [exists 0; auto|]. apply IHo in H as (j & Hj & Hn).
          exists (S j). split; [|exact Hn]. now rewrite Nat.even_succ, <- Nat.negb_even, Hj.
        * intros (j & Hj & Hn). destruct j as [|j]; [left; cbn in Hn; congruence|right].
          apply IHo. exists j. split; [|exact Hn].
          rewrite Nat.even_succ, <- Nat.negb_even in Hj. now destruct (Nat.even j).
      + split.
        * intros H. apply IHe in H as (j & Hj & Hn). exists (S j). split; [|exact Hn].
          now rewrite Nat.even_succ, <- Nat.negb_even, Hj.
        * intros (j & Hj & Hn). destruct j as [|j]; [discriminate|]. apply IHe. exists j.
          split; [|exact Hn]. rewrite Nat.even_succ, <- Nat.negb_even in Hj.
          now destruct (Nat.even j).
  Qed.

  (** [find_remove] returning nothing: no remove position holds the add's value. *)
  Lemma find_remove_none l : forall pos b a,
    find_remove eqb pos b l a = None ->
    forall k i x, nth_error l k = Some (i, x) -> Nat.even k = b -> eqb x a = false.
  Proof.
    induction l as [|[i0 x0] t IH]; intros pos b a H k i x Hn Hk; [now destruct k|].
    cbn [find_remove] in H. destruct (b && eqb x0 a)%bool eqn:E; [discriminate|].
    destruct k as [|k].
    - cbn in Hn, Hk. injection Hn as <- <-. subst b. exact E.
    - cbn [nth_error] in Hn. apply (IH _ _ _ H k i x Hn).
      rewrite Nat.even_succ, <- Nat.negb_even in Hk. destruct b, (Nat.even k); auto; discriminate.
  Qed.

  (** One iteration of the loop, on a vector of odd length with the cursor inside. *)
  Lemma simp_step_cases l ai l' ai' :
    Nat.odd (length l) = true -> ai < length l -> simp_step eqb l ai = (l', ai') ->
    exists i a, nth_error l ai = Some (i, a) /\
      ((find_remove eqb 0 false l a = None /\ l' = l /\ ai' = ai + 2) \/
       (exists r y, Nat.even r = false /\ nth_error l (S r) = Some y /\
                    (exists j x, nth_error l r = Some (j, x) /\ eqb x a = true) /\
                    l' = remove2 r (set_nth ai y l) /\ ai' = ai)).
  Proof.
    intros Hodd Hlt H. unfold simp_step in H.
    destruct (nth_error l ai) as [[i a]|] eqn:Ha.
    2:{ apply nth_error_None in Ha. lia. }
    exists i, a. split; [reflexivity|].
    destruct (find_remove eqb 0 false l a) as [r|] eqn:Hf.
    2:{ injection H as <- <-. left. auto. }
    apply (find_remove_spec eqb) in Hf as (_ & j & x & Hr & Hx & Hp).
    rewrite Nat.sub_0_r in Hr, Hp.
    assert (Hrl : r < length l) by (apply nth_error_Some; congruence).
    assert (HSr : S r < length l).
    { rewrite <- Nat.negb_even in Hodd. apply Bool.negb_true_iff in Hodd.
      apply even_false_ex in Hodd as [c Hc]. apply even_false_ex in Hp as [d Hd]. lia. }
    destruct (nth_error l (S r)) as [y|] eqn:Hy.
    2:{ apply nth_error_None in Hy. lia. }
    injection H as <- <-. right. exists r, y. repeat split; auto. exists j, x. auto.
  Qed.

  (** Position-wise description of the vector after a cancelling step. *)
  Lemma step_nth (l : list (nat * T)) ai r y p :
    ai < length l -> nth_error l (S r) = Some y ->
    nth_error (remove2 r (set_nth ai y l)) p = nth_error l (sigma r ai p).
  Proof.
    intros Hlt Hy.
    assert (HSr : S r < length l) by (apply nth_error_Some; congruence).
    rewrite nth_error_remove2 by (rewrite length_set_nth; lia).
    unfold sigma. destruct (p <? r); rewrite nth_error_set_nth;
      match goal with
      | |- context [Nat.eqb ?x ?y] =>
          let E := fresh "E" in destruct (Nat.eqb x y) eqn:E; [apply Nat.eqb_eq in E|reflexivity]
      end; rewrite <- E;
      (destruct (nth_error l ai) eqn:Ha; [now rewrite Hy|apply nth_error_None in Ha; lia]).
  Qed.

  (** * The loop invariant.  [m] is the original term vector. *)
  Record Inv (m : list T) (l : list (nat * T)) (ai : nat) : Prop := {
    inv_even : Nat.even ai = true;
    inv_odd : Nat.odd (length l) = true;
    (** adds left of the cursor have no equal remove in the current vector *)
    inv_clean : forall j k pj pk, j < ai -> Nat.even j = true -> Nat.even k = false ->
      nth_error l j = Some pj -> nth_error l k = Some pk -> eqb (snd pk) (snd pj) = false;
    (** every entry is (original index, value at that index), parity preserved *)
    inv_elem : forall p i x, nth_error l p = Some (i, x) ->
      nth_error m i = Some x /\ Nat.even i = Nat.even p;
    (** original indices are pairwise distinct *)
    inv_inj : forall p q x y, nth_error l p = Some x -> nth_error l q = Some y ->
      fst x = fst y -> p = q;
  }.

  Lemma Inv_init m : Nat.odd (length m) = true -> Inv m (enumerate_from 0 m) 0.
  Proof.
    intros Hodd. constructor.
    - reflexivity.
    - now rewrite length_enumerate.
    - intros; lia.
    - intros p i x H. rewrite nth_error_enumerate in H. cbn [Nat.add] in H.
      destruct (nth_error m p) eqn:E; [|discriminate]. cbn in H. injection H as <- <-. auto.
    - intros p q x y Hp Hq Hxy. rewrite nth_error_enumerate in Hp, Hq. cbn [Nat.add] in Hp, Hq.
      destruct (nth_error m p); [|discriminate]. destruct (nth_error m q); [|discriminate].
      cbn in Hp, Hq. injection Hp as <-. injection Hq as <-. exact Hxy.
  Qed.

  Lemma Inv_step m l ai l' ai' :
    Inv m l ai -> ai < length l -> simp_step eqb l ai = (l', ai') -> Inv m l' ai'.
  Proof.
    intros [Hev Hodd Hclean Helem Hinj] Hlt Hstep.
    destruct (simp_step_cases l ai l' ai' Hodd Hlt Hstep) as (i & a & Ha & [(Hf & -> & ->)|Hc]).
    - (* no equal remove: the cursor advances *)
      constructor; auto.
      + now rewrite even_plus2.
      + intros j k pj pk Hj Hje Hke Hnj Hnk.
        destruct (Nat.lt_ge_cases j ai) as [L|G]; [eauto|].
        assert (j = ai).
        { apply even_true_ex in Hje as [c Hc]. apply even_true_ex in Hev as [d Hd]. lia. }
        subst j. rewrite Ha in Hnj. injection Hnj as <-. destruct pk as [ik xk]. cbn [snd].
        eapply find_remove_none; eauto.
    - (* a pair is cancelled *)
      destruct Hc as (r & y & Hre & Hy & (jr & xr & Hr & Hx) & -> & ->).
      assert (Hnth : forall p, nth_error (remove2 r (set_nth ai y l)) p = nth_error l (sigma r ai p))
        by (intros p; now apply step_nth).
      constructor.
      + exact Hev.
      + assert (HSr : S r < length l) by (apply nth_error_Some; congruence).
        rewrite length_remove2 by (rewrite length_set_nth; lia). rewrite length_set_nth.
        rewrite <- Nat.negb_even in Hodd |- *. apply Bool.negb_true_iff in Hodd.
        apply even_false_ex in Hodd as [c Hc]. rewrite Hc.
        replace (2 * c + 1 - 2) with (S (2 * (c - 1))) by lia.
        rewrite Nat.even_succ, <- Nat.negb_even.
        replace (Nat.even (2 * (c - 1))) with true; [reflexivity|].
        symmetry. apply Nat.even_spec. now exists (c - 1).
      + intros j k pj pk Hj Hje Hke Hnj Hnk. rewrite Hnth in Hnj, Hnk.
        apply (Hclean (sigma r ai j) (sigma r ai k)); auto.
        * now apply sigma_lt.
        * now rewrite sigma_even.
        * now rewrite sigma_even.
      + intros p i0 x0 Hn. rewrite Hnth in Hn. apply Helem in Hn as [A B].
        split; [exact A|]. now rewrite B, sigma_even.
      + intros p q x0 y0 Hp Hq Hxy. rewrite Hnth in Hp, Hq.
        apply (sigma_inj r ai); auto. eapply Hinj; eauto.
  Qed.

  (** The loop keeps the invariant; with enough fuel it ends because the cursor has left
      the vector (never because the fuel ran out). Each iteration either advances the
      cursor by 2 or shortens the vector by 2, so [length l - ai] iterations suffice. *)
  Lemma simp_loop_inv m fuel : forall l ai,
    Inv m l ai ->
    exists af, Inv m (simp_loop eqb fuel l ai) af /\
               (length l < fuel + ai -> length (simp_loop eqb fuel l ai) <= af).
  Proof.
    induction fuel as [|f IH]; intros l ai HI.
    - exists ai. cbn [simp_loop]. split; [exact HI|lia].
    - cbn [simp_loop]. destruct (Nat.ltb ai (length l)) eqn:L.
      + apply Nat.ltb_lt in L. destruct (simp_step eqb l ai) as [l' ai'] eqn:E.
        pose proof (Inv_step m l ai l' ai' HI L E) as HI'.
        destruct (IH l' ai' HI') as (af & A & B). exists af. split; [exact A|].
        intros Hfuel. apply B.
        destruct (simp_step_den eqb eqb_spec _ _ _ _ (inv_even _ _ _ HI) E)
          as (_ & _ & [[-> ->]|(Hl & -> & H2)]); lia.
      + apply Nat.ltb_ge in L. exists ai. split; [exact HI|lia].
  Qed.

  Lemma simplified_pairs_inv m :
    Nat.odd (length m) = true ->
    exists af, Inv m (simplified_pairs eqb m) af /\ length (simplified_pairs eqb m) <= af.
  Proof.
    intros Hodd. unfold simplified_pairs.
    destruct (simp_loop_inv m (S (length m)) _ 0 (Inv_init m Hodd)) as (af & A & B).
    exists af. split; [exact A|]. apply B. rewrite length_enumerate. lia.
  Qed.

  (** The fuel [S (length m)] is never exhausted: running with any larger fuel gives the
      same vector. *)
  Lemma simp_loop_fuel_mono fuel : forall l ai extra,
    Nat.even ai = true -> length l < fuel + ai ->
    simp_loop eqb (fuel + extra) l ai = simp_loop eqb fuel l ai.
  Proof.
    induction fuel as [|f IH]; intros l ai extra Hev Hfuel.
    - cbn [Nat.add]. destruct extra; cbn [simp_loop]; [reflexivity|].
      replace (Nat.ltb ai (length l)) with false; [reflexivity|].
      symmetry. apply Nat.ltb_ge. lia.
    - cbn [Nat.add simp_loop]. destruct (Nat.ltb ai (length l)); [|reflexivity].
      destruct (simp_step eqb l ai) as [l' ai'] eqn:E.
      destruct (simp_step_den eqb eqb_spec _ _ _ _ Hev E) as (_ & Hev' & Hcase).
      apply IH; [exact Hev'|]. destruct Hcase as [[-> ->]|(Hl & -> & H2)]; lia.
  Qed.

  Lemma simplify_fuel_enough m extra :
    simp_loop eqb (S (length m) + extra) (enumerate_from 0 m) 0 = simplified_pairs eqb m.
  Proof.
    unfold simplified_pairs. apply simp_loop_fuel_mono; [reflexivity|].
    rewrite length_enumerate. lia.
  Qed.

  (** * (a) disjointness *)
  Lemma simplified_clean m :
    Nat.odd (length m) = true ->
    forall j k pj pk, Nat.even j = true -> Nat.even k = false ->
      nth_error (simplified_pairs eqb m) j = Some pj ->
      nth_error (simplified_pairs eqb m) k = Some pk -> eqb (snd pk) (snd pj) = false.
  Proof.
    intros Hodd j k pj pk Hj Hk Hnj Hnk.
    destruct (simplified_pairs_inv m Hodd) as (af & HI & Hlen).
    apply (inv_clean _ _ _ HI j k); auto.
    assert (j < length (simplified_pairs eqb m)) by (apply nth_error_Some; congruence). lia.
  Qed.

  Lemma simplified_disjoint m v :
    Nat.odd (length m) = true ->
    In v (adds (simplify eqb m)) -> ~ In v (removes (simplify eqb m)).
  Proof.
    intros Hodd Ha Hr. unfold adds, removes in *.
    apply (proj1 (in_evens_odds _)) in Ha as (j & Hj & Hnj).
    apply (proj2 (in_evens_odds _)) in Hr as (k & Hk & Hnk).
    unfold simplify in Hnj, Hnk. rewrite nth_error_map in Hnj, Hnk.
    destruct (nth_error (simplified_pairs eqb m) j) as [pj|] eqn:Ej; [|discriminate].
    destruct (nth_error (simplified_pairs eqb m) k) as [pk|] eqn:Ek; [|discriminate].
    cbn in Hnj, Hnk. injection Hnj as Hvj. injection Hnk as Hvk.
    pose proof (simplified_clean m Hodd j k pj pk Hj Hk Ej Ek) as C.
    rewrite Hvj, Hvk in C. assert (eqb v v = true) by now apply eqb_spec. congruence.
  Qed.

  (** * (b) idempotence: on a vector without equal add/remove the loop changes nothing *)
  Lemma simp_loop_clean fuel : forall l ai,
    Nat.even ai = true ->
    (forall j k pj pk, Nat.even j = true -> Nat.even k = false -> nth_error l j = Some pj ->
       nth_error l k = Some pk -> eqb (snd pk) (snd pj) = false) ->
    simp_loop eqb fuel l ai = l.
  Proof.
    induction fuel as [|f IH]; intros l ai Hev Hc; [reflexivity|].
    cbn [simp_loop]. destruct (Nat.ltb ai (length l)); [|reflexivity].
    assert (E : simp_step eqb l ai = (l, ai + 2)).
    { unfold simp_step. destruct (nth_error l ai) as [[i a]|] eqn:Ha; [|reflexivity].
      destruct (find_remove eqb 0 false l a) as [r|] eqn:Hf; [|reflexivity].
      apply (find_remove_spec eqb) in Hf as (_ & j & x & Hr & Hx & Hp).
      rewrite Nat.sub_0_r in Hr, Hp.
      pose proof (Hc ai r (i, a) (j, x) Hev Hp Ha Hr) as C. cbn in C. congruence. }
    rewrite E. apply IH; [now rewrite even_plus2|exact Hc].
  Qed.

  Lemma simplify_idem m :
    Nat.odd (length m) = true -> simplify eqb (simplify eqb m) = simplify eqb m.
  Proof.
    intros Hodd. unfold simplify at 1. unfold simplified_pairs.
    rewrite simp_loop_clean; [apply map_snd_enumerate|reflexivity|].
    intros j k pj pk Hj Hk Hnj Hnk. rewrite nth_error_enumerate in Hnj, Hnk.
    destruct (nth_error (simplify eqb m) j) as [vj|] eqn:Ej; [|discriminate].
    destruct (nth_error (simplify eqb m) k) as [vk|] eqn:Ek; [|discriminate].
    cbn in Hnj, Hnk. injection Hnj as <-. injection Hnk as <-. cbn [snd].
    unfold simplify in Ej, Ek. rewrite nth_error_map in Ej, Ek.
    destruct (nth_error (simplified_pairs eqb m) j) as [qj|] eqn:Fj; [|discriminate].
    destruct (nth_error (simplified_pairs eqb m) k) as [qk|] eqn:Fk; [|discriminate].
    cbn in Ej, Ek. injection Ej as <-. injection Ek as <-.
    exact (simplified_clean m Hodd j k qj qk Hj Hk Fj Fk).
  Qed.

  (** * (c) the mapping *)
  Lemma simplified_mapping_sound m :
    Nat.odd (length m) = true ->
    NoDup (simplified_mapping eqb m)
    /\ length (simplified_mapping eqb m) = length (simplify eqb m)
    /\ forall j i, nth_error (simplified_mapping eqb m) j = Some i ->
         i < length m /\ Nat.even i = Nat.even j
         /\ nth_error (simplify eqb m) j = nth_error m i.
  Proof.
    intros Hodd. destruct (simplified_pairs_inv m Hodd) as (af & HI & _).
    unfold simplified_mapping, simplify. split; [|split].
    - apply NoDup_nth_error. intros p q Hp Hpq. rewrite map_length in Hp.
      rewrite !nth_error_map in Hpq.
      destruct (nth_error (simplified_pairs eqb m) p) as [x|] eqn:Ep.
      2:{ apply nth_error_None in Ep. lia. }
      destruct (nth_error (simplified_pairs eqb m) q) as [y|] eqn:Eq; [|discriminate].
      cbn in Hpq. injection Hpq as Hxy. exact (inv_inj _ _ _ HI p q x y Ep Eq Hxy).
    - now rewrite !map_length.
    - intros j i Hj. rewrite nth_error_map in Hj |- *.
      destruct (nth_error (simplified_pairs eqb m) j) as [[i0 x]|] eqn:Ej; [|discriminate].
      cbn in Hj. injection Hj as ->.
      destruct (inv_elem _ _ _ HI j i x Ej) as [A B]. split; [|split; [exact B|]].
      + apply nth_error_Some. congruence.
      + cbn. now rewrite A.
  Qed.

  Lemma simplified_pairs_elem m p :
    Nat.odd (length m) = true -> In p (simplified_pairs eqb m) -> nth_error m (fst p) = Some (snd p).
  Proof.
    intros Hodd Hin. destruct (simplified_pairs_inv m Hodd) as (af & HI & _).
    apply In_nth_error in Hin as [n Hn]. destruct p as [i x].
    exact (proj1 (inv_elem _ _ _ HI n i x Hn)).
  Qed.

  (** [simplify] is [apply_simplified_mapping] of the mapping (merge.rs:395-405). *)
  Lemma simplify_apply_mapping m d :
    Nat.odd (length m) = true ->
    simplify eqb m = map (fun i => nth i m d) (simplified_mapping eqb m).
  Proof.
    intros Hodd. unfold simplify, simplified_mapping. rewrite map_map.
    apply map_ext_in. intros p Hin. pose proof (simplified_pairs_elem m p Hodd Hin) as E.
    symmetry. now apply nth_error_nth.
  Qed.
End C01Simp.
