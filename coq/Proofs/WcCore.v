(** Lemmas about the checkout model (Base/WcC.v) over arbitrary disks: every helper keeps
    the disk well-formed, issues only safe primitive calls, changes only what the diff
    entry allows, and never anything at or below a reserved name. *)
From Verif Require Import Base.Prelude Base.FsC Base.WcC Proofs.FsC.
From Coq Require Import Lia.
Local Open Scope string_scope.
Local Open Scope list_scope.

Definition all_safe (w : world) : Prop := Forall (fun ev => ev_safe ev = true) (w_tr w).

(** The invariant carried through every step. *)
Definition good (w : world) : Prop := wf_fs (w_fs w) /\ all_safe w.

Lemma all_safe_cons : forall w w' o p s,
  last_safe w w' o p s -> all_safe w -> s = true -> all_safe w'.
Proof.
  unfold last_safe, all_safe. intros w w' o p s H Hs ->. rewrite H. constructor; auto.
Qed.


Definition res_world {A} (r : res A) : world :=
  match r with Done _ w => w | Fail _ w => w end.

Definition not_escape {A} (r : res A) : Prop :=
  match r with Fail EEscape _ => False | _ => True end.

Ltac splits :=
  cbn [res_world] in *;
  repeat match goal with
         | H : good _ |- _ => destruct H
         | |- _ /\ _ => split
         | |- good _ => split
         end.

Section WithReserved.
Variable rn : list name.
Local Notation is_reserved := (FsC.is_reserved rn).
Local Notation has_reserved := (WcC.has_reserved rn).
Local Notation reject_identity := (WcC.reject_identity rn).
Local Notation reject_reserved_path := (WcC.reject_reserved_path rn).
Local Notation cpd_loop := (WcC.cpd_loop rn).
Local Notation create_parent_dirs := (WcC.create_parent_dirs rn).
Local Notation remove_old_file := (WcC.remove_old_file rn).
Local Notation can_create_new_file := (WcC.can_create_new_file rn).
Local Notation entry_tail := (WcC.entry_tail rn).
Local Notation process_entry := (WcC.process_entry rn).
Local Notation process_all := (WcC.process_all rn).
Local Notation run_update := (WcC.run_update rn).

Lemma mem_In : forall (n : name) l, mem String.eqb n l = true <-> In n l.
Proof.
  intros n l. unfold mem. rewrite existsb_exists. split.
  - intros [x [H1 H2]]. apply String.eqb_eq in H2. now subst.
  - intros H. exists n. split; [exact H | apply String.eqb_refl].
Qed.

Lemma has_reserved_app : forall p q, has_reserved (p ++ q) = has_reserved p || has_reserved q.
Proof. intros. unfold WcC.has_reserved. apply existsb_app. Qed.

Lemma has_reserved_snoc : forall p x, has_reserved (p ++ [x]) = has_reserved p || is_reserved x.
Proof. intros. rewrite has_reserved_app. cbn. now rewrite Bool.orb_false_r. Qed.

Lemma has_reserved_prefix : forall p q, is_prefix p q = true -> has_reserved p = true -> has_reserved q = true.
Proof.
  intros p q H Hp. apply is_prefix_spec in H as [r ->]. rewrite has_reserved_app, Hp. reflexivity.
Qed.

Lemma last_snoc : forall (p : path) x, last (p ++ [x]) "" = x.
Proof. intros. apply last_last. Qed.

(** ** The reserved-name checks *)

Lemma reject_identity_loop_spec : forall names w p rr w',
  reject_identity_loop w p names = (rr, w') ->
  p <> [] -> all_dirs (w_fs w) (parent p) = true -> all_safe w ->
  w_fs w' = w_fs w /\ all_safe w' /\
  ((rr = RRreserved /\ lookup (w_fs w) p <> None /\ In (last p "") names)
   \/ (rr = RRok /\ (lookup (w_fs w) p = None \/ ~ In (last p "") names))).
Proof.
  induction names as [|n names IH]; intros w p rr w' H Hp Hd Hs; cbn in H.
  - inversion H; subst. splits; auto.
  - destruct (p_lstat w (parent p ++ [n])) as [m w1] eqn:E.
    apply p_lstat_spec in E as [Htr [Hfs Hm]]. rewrite safe_snoc, Hd in *.
    assert (Hs1 : all_safe w1) by (eapply all_safe_cons; eauto).
    destruct Hm as [[_ Hm]|[_ Hm]]; [discriminate|].
    destruct (lookup (w_fs w) (parent p ++ [n])) as [e|] eqn:El; subst m.
    + destruct (path_eqb (parent p ++ [n]) p) eqn:Eq.
      * inversion H; subst. apply path_eqb_spec in Eq. splits; auto.
        left. split; [reflexivity|]. split; [rewrite <- Eq; congruence|].
        left. rewrite <- Eq. now rewrite last_snoc.
      * apply IH in H; auto; [|now rewrite Hfs].
        destruct H as [H1 [H2 H3]]. rewrite Hfs in *. splits; auto.
        destruct H3 as [[-> [A B]]|[-> H3]]; [left; splits; auto; now right|right].
        split; auto. destruct H3 as [H3|H3]; [now left|right]. intros [Hn|Hin]; [|contradiction].
        apply path_eqb_neq in Eq. apply Eq. rewrite Hn. symmetry. now apply parent_last.
    + apply IH in H; auto; [|now rewrite Hfs].
      destruct H as [H1 [H2 H3]]. rewrite Hfs in *. splits; auto.
      destruct H3 as [[-> [A B]]|[-> H3]]; [left; splits; auto; now right|right].
      split; auto. destruct H3 as [H3|H3]; [now left|].
      destruct (lookup (w_fs w) p) eqn:Ep; [|now left]. right. intros [Hn|Hin]; [|contradiction].
      rewrite Hn, <- parent_last in El by assumption. congruence.
Qed.

Lemma reject_identity_spec : forall w p rr w',
  reject_identity w p = (rr, w') ->
  p <> [] -> all_dirs (w_fs w) (parent p) = true -> all_safe w ->
  w_fs w' = w_fs w /\ all_safe w' /\
  ((rr = RRreserved /\ lookup (w_fs w) p <> None /\ is_reserved (last p "") = true)
   \/ (rr = RRok /\ (lookup (w_fs w) p = None \/ is_reserved (last p "") = false))).
Proof.
  unfold WcC.reject_identity, FsC.is_reserved. intros w p rr w' H Hp Hd Hs.
  apply reject_identity_loop_spec in H; auto. destruct H as [H1 [H2 H3]]. splits; auto.
  destruct H3 as [[-> [A B]]|[-> H3]].
  - left. splits; auto. now apply mem_In.
  - right. split; auto. destruct H3 as [H3|H3]; [now left|right].
    destruct (mem String.eqb (last p "") rn) eqn:E; [|reflexivity].
    apply mem_In in E. contradiction.
Qed.

Lemma reject_reserved_path_spec : forall w p rr w',
  reject_reserved_path w p = (rr, w') ->
  p <> [] -> all_dirs (w_fs w) (parent p) = true -> all_safe w ->
  w_fs w' = w_fs w /\ all_safe w' /\
  ((rr = RRreserved /\ lookup (w_fs w) p <> None /\ is_reserved (last p "") = true)
   \/ (rr = RRok /\ (lookup (w_fs w) p = None \/ is_reserved (last p "") = false))).
Proof.
  unfold reject_reserved_path. intros w p rr w' H Hp Hd Hs.
  destruct (p_lstat w p) as [m w1] eqn:E. apply p_lstat_spec in E as [Htr [Hfs Hm]].
  assert (Hsafe : safe (w_fs w) p = true).
  { destruct (snoc_cases p) as [->|[q [x ->]]]; [congruence|]. rewrite safe_snoc. now rewrite parent_snoc in Hd. }
  rewrite Hsafe in *. assert (Hs1 : all_safe w1) by (eapply all_safe_cons; eauto).
  destruct Hm as [[_ Hm]|[_ Hm]]; [discriminate|].
  destruct (lookup (w_fs w) p) as [e|] eqn:El; subst m.
  - apply reject_identity_spec in H; auto; [|now rewrite Hfs].
    rewrite Hfs, El in H. exact H.
  - inversion H; subst. splits; auto.
Qed.

(** ** create_parent_dirs *)

(** What the loop may change: directories created on the way, never at a reserved name. *)
Definition made_dirs (f f' : fs) (dir full : path) : Prop :=
  forall q, lookup f' q = lookup f q
            \/ (lookup f q = None /\ lookup f' q = Some EDir
                /\ is_strict_prefix dir q = true /\ is_prefix q full = true).

Lemma made_dirs_refl : forall f dir full, made_dirs f f dir full.
Proof. intros f dir full q. now left. Qed.

Lemma is_strict_prefix_snoc_r : forall p x, is_strict_prefix p (p ++ [x]) = true.
Proof. intros. apply is_strict_prefix_spec. now exists x, []. Qed.

Lemma is_strict_prefix_trans_l : forall p q r,
  is_strict_prefix p q = true -> is_prefix q r = true -> is_strict_prefix p r = true.
Proof.
  intros p q r H1 H2. apply is_strict_prefix_spec in H1 as [x [a ->]].
  apply is_prefix_spec in H2 as [b ->]. apply is_strict_prefix_spec.
  exists x, (a ++ b). now rewrite <- app_assoc.
Qed.

Lemma is_strict_prefix_trans_r : forall p q r,
  is_prefix p q = true -> is_strict_prefix q r = true -> is_strict_prefix p r = true.
Proof.
  intros p q r H1 H2. apply is_prefix_spec in H1 as [a ->].
  apply is_strict_prefix_spec in H2 as [x [b ->]]. apply is_strict_prefix_spec.
  destruct a as [|y a]; [exists x, b; now rewrite app_nil_r|].
  exists y, (a ++ x :: b). now rewrite <- app_assoc.
Qed.

Lemma made_dirs_step : forall f f1 f2 dir c full,
  lookup f (dir ++ [c]) = None -> upd f f1 (dir ++ [c]) (Some EDir) ->
  is_prefix (dir ++ [c]) full = true ->
  made_dirs f1 f2 (dir ++ [c]) full -> made_dirs f f2 dir full.
Proof.
  intros f f1 f2 dir c full Hn Hu Hp H q. destruct (H q) as [Hq|[A [B [C D]]]].
  - destruct (path_dec q (dir ++ [c])) as [->|Hne].
    + right. rewrite Hq, (upd_same _ _ _ _ Hu). splits; auto using is_strict_prefix_snoc_r.
    + left. rewrite Hq. eapply upd_other; eauto.
  - right. assert (q <> dir ++ [c]).
    { intros ->. rewrite is_strict_prefix_irrefl in C. discriminate. }
    rewrite (upd_other _ _ _ _ _ Hu H0) in A. splits; auto.
    eapply is_strict_prefix_trans_r; [|exact C]. apply is_prefix_app.
Qed.

Lemma made_dirs_weaken : forall f f' dir c full,
  made_dirs f f' (dir ++ [c]) full -> made_dirs f f' dir full.
Proof.
  intros f f' dir c full H q. destruct (H q) as [Hq|[A [B [C D]]]]; [now left|right].
  splits; auto. eapply is_strict_prefix_trans_r; [|exact C]. apply is_prefix_app.
Qed.

Lemma app_cons_assoc : forall (dir : path) c rest, dir ++ c :: rest = (dir ++ [c]) ++ rest.
Proof. intros. now rewrite <- app_assoc. Qed.

Lemma snoc_neq_self : forall (p : path) x, p ++ [x] <> p.
Proof.
  intros p x H. apply (f_equal (@length _)) in H. rewrite !app_length in H. cbn in H. lia.
Qed.

Lemma wf_ext : forall f f', (forall q, lookup f' q = lookup f q) -> wf_fs f -> wf_fs f'.
Proof.
  intros f f' H Hwf q e Hq. rewrite H in Hq. apply Hwf in Hq as [A B]. split; auto.
  rewrite <- B. apply all_dirs_ext. auto.
Qed.

Lemma set_remove_same : forall f p e q, lookup f p = None ->
  lookup (fs_remove (fs_set f p e) p) q = lookup f q.
Proof.
  intros f p e q H. rewrite lookup_remove. destruct (path_eqb p q) eqn:E.
  - apply path_eqb_spec in E. now subst.
  - now rewrite lookup_set, E.
Qed.

Lemma cpd_loop_spec : forall parents w dir r,
  cpd_loop w dir parents = r -> good w -> all_dirs (w_fs w) dir = true ->
  has_reserved dir = false ->
  good (res_world r) /\ not_escape r /\
  made_dirs (w_fs w) (w_fs (res_world r)) dir (dir ++ parents) /\
  (forall q, has_reserved q = true -> lookup (w_fs (res_world r)) q = lookup (w_fs w) q) /\
  match r with
  | Done (Some d) w' => d = dir ++ parents /\ all_dirs (w_fs w') d = true
                        /\ has_reserved parents = false /\ forallb valid_name parents = true
  | Done None w' => exists q, is_strict_prefix dir q = true /\ is_prefix q (dir ++ parents) = true
                              /\ is_leaf (lookup (w_fs w') q) = true
  | Fail EInvalid _ => forallb valid_name parents = false
  | Fail EReserved _ => has_reserved parents = true
  | Fail _ _ => False
  end.
Proof.
  induction parents as [|c rest IH]; intros w dir r H [Hwf Hs] Hd Hnr.
  - cbn in H. subst r. cbn. rewrite app_nil_r. splits; auto using made_dirs_refl.
  - cbn in H. destruct (valid_name c) eqn:Hv; cbn in H.
    2:{ subst r. cbn. rewrite Hv. splits; auto using made_dirs_refl. }
    assert (Hrsv : is_reserved c = true -> has_reserved (c :: rest) = true).
    { intros Hx. unfold WcC.has_reserved. cbn. now rewrite Hx. }
    destruct (p_create_dir w (dir ++ [c])) as [r1 w1] eqn:E1.
    apply p_create_dir_spec in E1 as [Htr1 Hc]. rewrite safe_snoc, Hd in *.
    assert (Hs1 : all_safe w1) by (eapply all_safe_cons; eauto).
    assert (Hne : dir ++ [c] <> []) by (destruct dir; discriminate).
    assert (Hpre : is_prefix (dir ++ [c]) (dir ++ c :: rest) = true).
    { apply is_prefix_spec. exists rest. apply app_cons_assoc. }
    destruct Hc as [[-> [_ [Hnone Hfs1]]]|[[-> [_ [Hsome Hfs1]]]|[_ [? _]]]]; [| |discriminate].
    + (* new directory *)
      assert (Hu1 : upd (w_fs w) (w_fs w1) (dir ++ [c]) (Some EDir)) by (rewrite Hfs1; apply upd_set).
      assert (Hwf1 : wf_fs (w_fs w1)).
      { eapply wf_upd_some; eauto; [now rewrite parent_snoc | congruence]. }
      assert (Hd1 : all_dirs (w_fs w1) dir = true).
      { erewrite upd_all_dirs; eauto. rewrite <- (parent_snoc dir c) at 2. now apply not_prefix_of_parent. }
      destruct (reject_reserved_path w1 (dir ++ [c])) as [rr w2] eqn:E2.
      apply reject_reserved_path_spec in E2; auto; [|now rewrite parent_snoc].
      destruct E2 as [Hfs2 [Hs2 Hrr]]. rewrite (upd_same _ _ _ _ Hu1), last_snoc in Hrr.
      destruct Hrr as [[-> [_ Hres]]|[-> [Hrr|Hres]]]; [| discriminate |].
      * (* reserved: the new directory is removed again *)
        assert (Hnc : has_child (w_fs w2) (dir ++ [c]) = false).
        { rewrite Hfs2. apply has_child_false. intros x. rewrite (upd_other _ _ _ _ _ Hu1).
          - apply (proj1 (has_child_false _ _) (wf_missing_no_child _ _ Hwf Hne Hnone)).
          - apply snoc_neq_self. }
        rewrite p_remove_dir_empty in H; auto;
          [| now rewrite Hfs2, safe_snoc | rewrite Hfs2; apply (upd_same _ _ _ _ Hu1)].
        subst r. cbn [res_world w_fs w_tr].
        assert (Hsame : forall q, lookup (fs_remove (w_fs w2) (dir ++ [c])) q = lookup (w_fs w) q).
        { intros q. rewrite Hfs2, Hfs1. now apply set_remove_same. }
        splits; cbn [res_world w_fs w_tr not_escape]; auto.
        -- eapply wf_ext; eauto.
        -- unfold all_safe. cbn. constructor; auto.
        -- intros q. left. apply Hsame.
      * (* not reserved: continue below *)
        assert (Hg2 : good w2) by (split; [now rewrite Hfs2 | auto]).
        assert (Hd2 : all_dirs (w_fs w2) (dir ++ [c]) = true).
        { rewrite Hfs2. apply all_dirs_step; auto. apply (upd_same _ _ _ _ Hu1). }
        assert (Hnr2 : has_reserved (dir ++ [c]) = false) by now rewrite has_reserved_snoc, Hnr, Hres.
        destruct (IH w2 (dir ++ [c]) r H Hg2 Hd2 Hnr2) as [[Hgw Hgs] [Hne' [Hmd [Hrs Hpost]]]].
        rewrite <- app_cons_assoc in *. rewrite Hfs2 in *. splits; auto.
        -- eapply made_dirs_step; eauto.
        -- intros q Hq. rewrite Hrs by auto. apply (upd_other _ _ _ _ _ Hu1). congruence.
        -- destruct r as [[d|] w'|]; auto.
           ++ destruct Hpost as [A [B [C D]]]. splits; auto; cbn; [|now rewrite Hv].
              unfold WcC.has_reserved in *. cbn. now rewrite Hres.
           ++ destruct Hpost as [q [A [B C]]]. exists q. splits; auto.
              eapply is_strict_prefix_trans_r; [|exact A]. apply is_prefix_app.
           ++ destruct e; try contradiction.
                { unfold WcC.has_reserved in *. cbn [existsb]. rewrite Hpost. apply Bool.orb_true_r. }
                { cbn [forallb]. rewrite Hv, Hpost. reflexivity. }
    + (* something is there already *)
      destruct (p_lstat_q w1 (dir ++ [c])) as [m w2] eqn:E2.
      apply p_lstat_q_spec in E2 as [Htr2 [Hfs2 Hm]]. rewrite Hfs1, safe_snoc, Hd in *.
      assert (Hs2 : all_safe w2) by (eapply all_safe_cons; eauto).
      destruct Hm as [[_ Hm]|[_ Hm]]; [discriminate|].
      destruct (lookup (w_fs w) (dir ++ [c])) as [e|] eqn:El; [|congruence]. subst m.
      destruct (reject_reserved_path w2 (dir ++ [c])) as [rr w3] eqn:E3.
      apply reject_reserved_path_spec in E3; auto; [|now rewrite Hfs2, parent_snoc].
      destruct E3 as [Hfs3 [Hs3 Hrr]]. rewrite Hfs2, El, last_snoc in Hrr. rewrite Hfs2 in Hfs3.
      destruct Hrr as [[-> [_ Hres]]|[-> [Hrr|Hres]]]; [| discriminate |].
      * subst r. cbn. rewrite ?Hfs3. splits; rewrite ?Hfs3; auto using made_dirs_refl.
      * assert (Hnr2 : has_reserved (dir ++ [c]) = false) by now rewrite has_reserved_snoc, Hnr, Hres.
        destruct e as [c0 x0|t0|].
        -- subst r. cbn. rewrite ?Hfs3. splits; rewrite ?Hfs3; auto using made_dirs_refl.
           exists (dir ++ [c]). rewrite El. splits; auto using is_strict_prefix_snoc_r.
        -- subst r. cbn. rewrite ?Hfs3. splits; rewrite ?Hfs3; auto using made_dirs_refl.
           exists (dir ++ [c]). rewrite El. splits; auto using is_strict_prefix_snoc_r.
        -- assert (Hg3 : good w3) by (split; [now rewrite Hfs3 | auto]).
           assert (Hd3 : all_dirs (w_fs w3) (dir ++ [c]) = true).
           { rewrite Hfs3. apply all_dirs_step; auto. }
           destruct (IH w3 (dir ++ [c]) r H Hg3 Hd3 Hnr2) as [[Hgw Hgs] [Hne' [Hmd [Hrs Hpost]]]].
           rewrite <- app_cons_assoc in *. rewrite Hfs3 in *. splits; auto.
           ++ eapply made_dirs_weaken; eauto.
           ++ destruct r as [[d|] w'|]; auto.
              ** destruct Hpost as [A [B [C D]]]. splits; auto; cbn; [|now rewrite Hv].
                 unfold WcC.has_reserved in *. cbn. now rewrite Hres.
              ** destruct Hpost as [q [A [B C]]]. exists q. splits; auto.
                 eapply is_strict_prefix_trans_r; [|exact A]. apply is_prefix_app.
              ** destruct e; try contradiction.
                { unfold WcC.has_reserved in *. cbn [existsb]. rewrite Hpost. apply Bool.orb_true_r. }
                { cbn [forallb]. rewrite Hv, Hpost. reflexivity. }
Qed.


Lemma removelast_last_app : forall (rel : path), rel <> [] -> removelast rel ++ [last rel ""] = rel.
Proof. intros. symmetry. now apply app_removelast_last. Qed.

Lemma forallb_snoc : forall (f : name -> bool) l x, forallb f (l ++ [x]) = forallb f l && f x.
Proof. intros. rewrite forallb_app. cbn. now rewrite Bool.andb_true_r. Qed.

Lemma create_parent_dirs_spec : forall w base rel r,
  create_parent_dirs w base rel = r -> rel <> [] -> good w -> all_dirs (w_fs w) base = true ->
  has_reserved base = false ->
  good (res_world r) /\ not_escape r /\
  made_dirs (w_fs w) (w_fs (res_world r)) base (base ++ removelast rel) /\
  (forall q, has_reserved q = true -> lookup (w_fs (res_world r)) q = lookup (w_fs w) q) /\
  match r with
  | Done (Some dp) w' => dp = base ++ rel /\ all_dirs (w_fs w') (parent dp) = true
                         /\ has_reserved (removelast rel) = false /\ forallb valid_name rel = true
  | Done None w' => exists q, is_strict_prefix base q = true
                              /\ is_prefix q (base ++ removelast rel) = true
                              /\ is_leaf (lookup (w_fs w') q) = true
  | Fail EInvalid _ => forallb valid_name rel = false
  | Fail EReserved _ => has_reserved (removelast rel) = true
  | Fail _ _ => False
  end.
Proof.
  unfold WcC.create_parent_dirs. intros w base rel r H Hrel Hg Hd Hnr.
  destruct (cpd_loop w base (removelast rel)) as [[d|] w1|er w1] eqn:E;
    apply cpd_loop_spec in E; auto; destruct E as [Hg1 [Hne [Hmd [Hrs Hpost]]]].
  - destruct Hpost as [-> [A [B C]]]. destruct (valid_name (last rel "")) eqn:Hv; subst r; cbn.
    + splits; auto.
      * now rewrite <- app_assoc, removelast_last_app.
      * now rewrite parent_snoc.
      * rewrite <- (removelast_last_app rel Hrel), forallb_snoc, C, Hv. reflexivity.
    + splits; auto.
      rewrite <- (removelast_last_app rel Hrel), forallb_snoc, C, Hv. reflexivity.
  - subst r. cbn. splits; auto.
  - subst r. cbn. splits; auto. destruct er; auto.
    rewrite <- (removelast_last_app rel Hrel), forallb_snoc, Hpost. reflexivity.
Qed.

(** ** remove_old_file, can_create_new_file, write_file, write_symlink *)

Lemma safe_of_parent : forall f p, p <> [] -> all_dirs f (parent p) = true -> safe f p = true.
Proof.
  intros f p Hp Hd. destruct (snoc_cases p) as [->|[q [x ->]]]; [congruence|].
  rewrite safe_snoc. now rewrite parent_snoc in Hd.
Qed.

Lemma upd_parent_dirs : forall f f' p v,
  upd f f' p v -> p <> [] -> all_dirs f' (parent p) = all_dirs f (parent p).
Proof. intros. eapply upd_all_dirs; eauto. now apply not_prefix_of_parent. Qed.

Lemma remove_old_file_spec : forall w p r,
  remove_old_file w p = r -> p <> [] -> good w -> all_dirs (w_fs w) (parent p) = true ->
  good (res_world r) /\ not_escape r /\
  match r with
  | Done true w' => is_leaf (lookup (w_fs w) p) = true /\ is_reserved (last p "") = false
                    /\ upd (w_fs w) (w_fs w') p None
  | Done false w' => w_fs w' = w_fs w /\ (lookup (w_fs w) p = None \/
                       (lookup (w_fs w) p = Some EDir /\ is_reserved (last p "") = false))
  | Fail EReserved w' => w_fs w' = w_fs w /\ lookup (w_fs w) p <> None
                         /\ is_reserved (last p "") = true
  | Fail _ _ => False
  end.
Proof.
  unfold WcC.remove_old_file. intros w p r H Hp [Hwf Hs] Hd.
  destruct (reject_reserved_path w p) as [rr w1] eqn:E1.
  apply reject_reserved_path_spec in E1; auto. destruct E1 as [Hfs1 [Hs1 Hrr]].
  assert (Hsafe : safe (w_fs w) p = true) by now apply safe_of_parent.
  destruct Hrr as [[-> [A B]]|[-> Hrr]].
  - subst r. cbn. splits; rewrite ?Hfs1; auto.
  - destruct (p_remove_file w1 p) as [r2 w2] eqn:E2.
    apply p_remove_file_spec in E2 as [Htr2 Hc]. rewrite Hfs1, Hsafe in *.
    assert (Hs2 : all_safe w2) by (eapply all_safe_cons; eauto).
    destruct Hc as [[-> [_ [Hleaf Hfs2]]]|[[-> [_ [Hnone Hfs2]]]|[[-> [_ [Hdir Hfs2]]]|[_ [? _]]]]];
      [| | |discriminate].
    + subst r. cbn.
      assert (Hu : upd (w_fs w) (w_fs w2) p None) by (rewrite Hfs2; apply upd_remove).
      splits; auto.
      * eapply wf_upd_none; eauto. left. intros E. rewrite E in Hleaf. discriminate.
      * destruct Hrr as [Hrr|Hrr]; [rewrite Hrr in Hleaf; discriminate | exact Hrr].
    + subst r. cbn. splits; rewrite ?Hfs2; auto.
    + destruct (p_lstat_q w2 p) as [m w3] eqn:E3.
      apply p_lstat_q_spec in E3 as [Htr3 [Hfs3 Hm]]. rewrite Hfs2, Hsafe in *.
      assert (Hs3 : all_safe w3) by (eapply all_safe_cons; eauto).
      destruct Hm as [[_ Hm]|[_ Hm]]; [discriminate|]. rewrite Hdir in Hm. subst m r. cbn.
      splits; rewrite ?Hfs3; auto. right. split; auto.
      destruct Hrr as [Hrr|Hrr]; [congruence | exact Hrr].
Qed.

Lemma can_create_new_file_spec : forall w p r,
  can_create_new_file w p = r -> p <> [] -> good w -> all_dirs (w_fs w) (parent p) = true ->
  good (res_world r) /\ not_escape r /\
  (forall q, lookup (w_fs (res_world r)) q = lookup (w_fs w) q) /\
  match r with
  | Done true _ => lookup (w_fs w) p = None /\ is_reserved (last p "") = false
  | Done false _ => lookup (w_fs w) p <> None /\ is_reserved (last p "") = false
  | Fail EReserved _ => is_reserved (last p "") = true
  | Fail _ _ => False
  end.
Proof.
  unfold WcC.can_create_new_file. intros w p r H Hp [Hwf Hs] Hd.
  assert (Hsafe : safe (w_fs w) p = true) by now apply safe_of_parent.
  destruct (p_create_new w p) as [r1 w1] eqn:E1.
  apply p_create_new_spec in E1 as [Htr1 Hc]. rewrite Hsafe in *.
  assert (Hs1 : all_safe w1) by (eapply all_safe_cons; eauto).
  destruct Hc as [[-> [_ [Hnone Hfs1]]]|[[-> [_ [Hsome Hfs1]]]|[_ [? _]]]]; [| |discriminate].
  - (* the temporary file was created *)
    assert (Hu1 : upd (w_fs w) (w_fs w1) p (Some (EFile "" false))) by (rewrite Hfs1; apply upd_set).
    assert (Hwf1 : wf_fs (w_fs w1)) by (eapply wf_upd_some; eauto; congruence).
    assert (Hd1 : all_dirs (w_fs w1) (parent p) = true) by (erewrite upd_parent_dirs; eauto).
    assert (Hsafe1 : safe (w_fs w1) p = true) by now apply safe_of_parent.
    destruct (reject_identity w1 p) as [rr w2] eqn:E2.
    apply reject_identity_spec in E2; auto. destruct E2 as [Hfs2 [Hs2 Hrr]].
    rewrite (upd_same _ _ _ _ Hu1) in Hrr.
    assert (Hrm : forall w3 r3, p_remove_file w2 p = (r3, w3) ->
              r3 = POk /\ all_safe w3 /\ wf_fs (w_fs w3) /\ forall q, lookup (w_fs w3) q = lookup (w_fs w) q).
    { intros w3 r3 E3. apply p_remove_file_spec in E3 as [Htr3 Hc3]. rewrite Hfs2, Hsafe1 in *.
      assert (Hs3 : all_safe w3) by (eapply all_safe_cons; eauto).
      rewrite (upd_same _ _ _ _ Hu1) in Hc3.
      destruct Hc3 as [[-> [_ [_ Hfs3]]]|[[_ [_ [? _]]]|[[_ [_ [? _]]]|[_ [? _]]]]]; try discriminate.
      assert (Hsame : forall q, lookup (w_fs w3) q = lookup (w_fs w) q).
      { intros q. rewrite Hfs3, Hfs1. now apply set_remove_same. }
      splits; auto. eapply wf_ext; eauto. }
    destruct Hrr as [[-> [_ Hres]]|[-> [Hrr|Hres]]]; [| discriminate |].
    + destruct (p_remove_file w2 p) as [r3 w3] eqn:E3. destruct (Hrm _ _ eq_refl) as [-> [A [B C]]].
      subst r. cbn. splits; auto.
    + destruct (p_remove_file w2 p) as [r3 w3] eqn:E3. destruct (Hrm _ _ eq_refl) as [-> [A [B C]]].
      subst r. cbn. splits; auto.
  - (* something exists *)
    destruct (reject_reserved_path w1 p) as [rr w2] eqn:E2.
    apply reject_reserved_path_spec in E2; auto; try now rewrite Hfs1.
    destruct E2 as [Hfs2 [Hs2 Hrr]]. rewrite Hfs1 in *.
    destruct Hrr as [[-> [_ Hres]]|[-> [Hrr|Hres]]]; [| congruence |].
    + subst r. cbn. splits; rewrite ?Hfs2; auto.
    + subst r. cbn. splits; rewrite ?Hfs2; auto.
Qed.

Lemma write_file_spec : forall w p c x r,
  write_file w p c x = r -> p <> [] -> good w -> all_dirs (w_fs w) (parent p) = true ->
  good (res_world r) /\ not_escape r /\
  match r with
  | Done _ w' => lookup (w_fs w) p = None /\ upd (w_fs w) (w_fs w') p (Some (EFile c x))
  | Fail _ w' => w_fs w' = w_fs w /\ lookup (w_fs w) p <> None
  end.
Proof.
  unfold write_file. intros w p c x r H Hp [Hwf Hs] Hd.
  assert (Hsafe : safe (w_fs w) p = true) by now apply safe_of_parent.
  destruct (p_create_new w p) as [r1 w1] eqn:E1.
  apply p_create_new_spec in E1 as [Htr1 Hc]. rewrite Hsafe in *.
  assert (Hs1 : all_safe w1) by (eapply all_safe_cons; eauto).
  destruct Hc as [[-> [_ [Hnone Hfs1]]]|[[-> [_ [Hsome Hfs1]]]|[_ [? _]]]]; [| |discriminate].
  - assert (Hu1 : upd (w_fs w) (w_fs w1) p (Some (EFile "" false))) by (rewrite Hfs1; apply upd_set).
    assert (Hwf1 : wf_fs (w_fs w1)) by (eapply wf_upd_some; eauto; congruence).
    assert (Hd1 : all_dirs (w_fs w1) (parent p) = true) by (erewrite upd_parent_dirs; eauto).
    assert (Hsafe1 : safe (w_fs w1) p = true) by now apply safe_of_parent.
    destruct (p_write w1 p c x) as [r2 w2] eqn:E2.
    apply p_write_spec in E2 as [Htr2 Hc2]. rewrite Hsafe1 in *.
    assert (Hs2 : all_safe w2) by (eapply all_safe_cons; eauto).
    destruct Hc2 as [[-> [_ [_ Hfs2]]]|[Hr2 [_ [_ Hno]]]].
    + subst r. cbn.
      assert (Hu : upd (w_fs w) (w_fs w2) p (Some (EFile c x))).
      { intros q. rewrite Hfs2, lookup_set. destruct (path_eqb p q) eqn:Eq; [reflexivity|].
        rewrite Hu1, Eq. reflexivity. }
      splits; auto. apply (wf_upd_some (w_fs w) (w_fs w2) p (EFile c x)); auto; congruence.
    + exfalso. eapply Hno; auto. apply (upd_same _ _ _ _ Hu1).
  - subst r. cbn. splits; rewrite ?Hfs1; auto.
Qed.

Lemma write_symlink_spec : forall w p t r,
  write_symlink w p t = r -> p <> [] -> good w -> all_dirs (w_fs w) (parent p) = true ->
  good (res_world r) /\ not_escape r /\
  match r with
  | Done _ w' => lookup (w_fs w) p = None /\ upd (w_fs w) (w_fs w') p (Some (ESym t))
  | Fail _ w' => w_fs w' = w_fs w /\ lookup (w_fs w) p <> None
  end.
Proof.
  unfold write_symlink. intros w p t r H Hp [Hwf Hs] Hd.
  assert (Hsafe : safe (w_fs w) p = true) by now apply safe_of_parent.
  destruct (p_symlink w p t) as [r1 w1] eqn:E1.
  apply p_symlink_spec in E1 as [Htr1 Hc]. rewrite Hsafe in *.
  assert (Hs1 : all_safe w1) by (eapply all_safe_cons; eauto).
  destruct Hc as [[-> [_ [Hnone Hfs1]]]|[[-> [_ [Hsome Hfs1]]]|[_ [? _]]]]; [| |discriminate].
  - assert (Hu1 : upd (w_fs w) (w_fs w1) p (Some (ESym t))) by (rewrite Hfs1; apply upd_set).
    assert (Hwf1 : wf_fs (w_fs w1)) by (apply (wf_upd_some (w_fs w) (w_fs w1) p (ESym t)); auto; congruence).
    assert (Hd1 : all_dirs (w_fs w1) (parent p) = true) by (erewrite upd_parent_dirs; eauto).
    assert (Hsafe1 : safe (w_fs w1) p = true) by now apply safe_of_parent.
    destruct (p_lstat w1 p) as [m w2] eqn:E2.
    apply p_lstat_spec in E2 as [Htr2 [Hfs2 Hm]]. rewrite Hsafe1 in *.
    assert (Hs2 : all_safe w2) by (eapply all_safe_cons; eauto).
    destruct Hm as [[_ Hm]|[_ Hm]]; [discriminate|]. rewrite (upd_same _ _ _ _ Hu1) in Hm. subst m r.
    cbn. splits; rewrite ?Hfs2; auto.
  - subst r. cbn. splits; rewrite ?Hfs1; auto.
Qed.

(** ** The parent-directory pruning loop *)

Definition pruned (f f' : fs) (d : path) : Prop :=
  forall q, lookup f' q = lookup f q
            \/ (lookup f q = Some EDir /\ lookup f' q = None /\ is_prefix q d = true /\ q <> []).

Lemma is_prefix_snoc_false : forall (a p : path) c,
  is_prefix a (p ++ [c]) = false -> is_prefix a p = false.
Proof.
  intros a p c H. destruct (is_prefix a p) eqn:E; [|reflexivity].
  rewrite (is_prefix_trans a p (p ++ [c]) E (is_prefix_app _ _)) in H. discriminate.
Qed.

Lemma prune_rev_spec : forall rp w r,
  prune_rev w rp = r -> good w -> all_dirs (w_fs w) (rev rp) = true ->
  (exists x, lookup (w_fs w) [x] <> None /\ is_prefix [x] (rev rp) = false) ->
  good (res_world r) /\ (exists u w', r = Done u w') /\ pruned (w_fs w) (w_fs (res_world r)) (rev rp).
Proof.
  induction rp as [|c rp IH]; intros w r H [Hwf Hs] Hd [x [Hx Hnp]].
  - cbn in H. assert (Hc : has_child (w_fs w) [] = true).
    { apply has_child_spec. destruct (lookup (w_fs w) [x]) eqn:E; [|congruence]. exists x, e. exact E. }
    unfold p_remove_dir in H. rewrite Hc in H. cbn in H. subst r. cbn. splits; eauto.
    + unfold all_safe. cbn. constructor; auto.
    + intros q. now left.
  - cbn [prune_rev] in H. cbn [rev] in *. destruct (p_remove_dir w (rev rp ++ [c])) as [r1 w1] eqn:E1.
    assert (Hne : rev rp ++ [c] <> []) by (destruct (rev rp); discriminate).
    apply p_remove_dir_spec in E1 as [Htr1 [_ Hc]]. specialize (Htr1 Hne).
    assert (Hsafe : safe (w_fs w) (rev rp ++ [c]) = true).
    { rewrite safe_snoc. eapply all_dirs_prefix; eauto. apply is_prefix_app. }
    rewrite Hsafe in *. assert (Hs1 : all_safe w1) by (eapply all_safe_cons; eauto).
    destruct Hc as [[-> [_ [_ [Hdir [Hnc Hfs1]]]]]|[Hr1 [Hfs1 Hun]]].
    + assert (Hu : upd (w_fs w) (w_fs w1) (rev rp ++ [c]) None) by (rewrite Hfs1; apply upd_remove).
      assert (Hg1 : good w1) by (split; auto; eapply wf_upd_none; eauto).
      assert (Hd1 : all_dirs (w_fs w1) (rev rp) = true).
      { rewrite <- (parent_snoc (rev rp) c). erewrite upd_parent_dirs; eauto.
        rewrite parent_snoc. eapply all_dirs_prefix; eauto. apply is_prefix_app. }
      assert (Hx1 : exists x, lookup (w_fs w1) [x] <> None /\ is_prefix [x] (rev rp) = false).
      { exists x. split; [|now apply is_prefix_snoc_false in Hnp].
        rewrite (upd_other _ _ _ _ _ Hu); auto. intros E. rewrite E, is_prefix_refl in Hnp. discriminate. }
      destruct (IH w1 r H Hg1 Hd1 Hx1) as [Hg [Hdone Hpr]]. splits; auto.
      intros q. destruct (Hpr q) as [Hq|[A [B [C D]]]].
      * destruct (path_dec q (rev rp ++ [c])) as [->|Hq'].
        -- right. rewrite Hq, (upd_same _ _ _ _ Hu). splits; auto using is_prefix_refl.
        -- left. rewrite Hq. eapply upd_other; eauto.
      * right. assert (Hqne : q <> rev rp ++ [c]).
        { intros ->. apply is_prefix_spec in C as [t C]. apply (f_equal (@length _)) in C.
          rewrite !app_length in C. cbn in C. lia. }
        rewrite (upd_other _ _ _ _ _ Hu Hqne) in A. splits; auto.
        eapply is_prefix_trans; [exact C | apply is_prefix_app].
    + assert (r1 <> PUnsafe).
      { intros ->. destruct Hun as [Hun _]. specialize (Hun eq_refl).
        destruct (path_eqb (rev rp ++ [c]) []) eqn:En; [apply path_eqb_spec in En; congruence|]. discriminate. }
      assert (Hr : r = Done tt w1) by (destruct r1; congruence). rewrite Hr. cbn.
      splits; eauto; rewrite ?Hfs1; auto. intros q. now left.
Qed.

(** ** One diff entry *)

(** What processing the entry (path [p], tracked before = [t], removed = [rm]) may change:
    create things where nothing was, at the path or above it; replace or remove the
    file or link at the path if the old tree tracked it; remove directories above the path
    if the entry is a removal. *)
Definition stepok (p : path) (t rm : bool) (f f' : fs) : Prop :=
  forall q, lookup f' q = lookup f q
            \/ (lookup f q = None /\ is_prefix q p = true)
            \/ (is_leaf (lookup f q) = true /\ q = p /\ t = true)
            \/ (lookup f q = Some EDir /\ is_strict_prefix q p = true /\ rm = true).

Lemma stepok_refl : forall p t rm f, stepok p t rm f f.
Proof. intros p t rm f q. now left. Qed.

Lemma stepok_ext : forall p t rm f f', (forall q, lookup f' q = lookup f q) -> stepok p t rm f f'.
Proof. intros p t rm f f' H q. left. apply H. Qed.

Lemma stepok_trans : forall p t rm f f1 f2,
  stepok p t rm f f1 -> stepok p t rm f1 f2 -> stepok p t rm f f2.
Proof.
  intros p t rm f f1 f2 H1 H2 q. specialize (H1 q). specialize (H2 q).
  destruct H2 as [E2|H2].
  - rewrite E2. exact H1.
  - destruct H1 as [E1|H1]; [rewrite E1 in H2; now right | now right].
Qed.

Lemma made_dirs_stepok : forall f f' base full p t rm,
  made_dirs f f' base full -> is_prefix full p = true -> stepok p t rm f f'.
Proof.
  intros f f' base full p t rm H Hp q. destruct (H q) as [Hq|[A [B [C D]]]]; [now left|].
  right; left. split; auto. eapply is_prefix_trans; eauto.
Qed.

Lemma pruned_stepok : forall f f' d p t,
  pruned f f' d -> is_strict_prefix d p = true -> stepok p t true f f'.
Proof.
  intros f f' d p t H Hp q. destruct (H q) as [Hq|[A [B [C D]]]]; [now left|].
  right; right; right. splits; auto. eapply is_strict_prefix_trans_r; eauto.
Qed.

Definition pr_state (r : pr) : st := match r with PDone s => s | PFail _ s => s end.
Definition pr_not_escape (r : pr) : Prop := match r with PFail EEscape _ => False | _ => True end.

(** The workspace root holds something with a reserved name ([.jj]); it is never touched,
    so the root is never empty. *)
Definition anchor (f : fs) : Prop := exists x, is_reserved x = true /\ lookup f [x] <> None.

Definition tracked (e : dentry) : bool := is_some (d_before e).
Definition removal (e : dentry) : bool := negb (is_some (d_after e)).

Lemma upd_keeps_dirs : forall f f' p v d,
  upd f f' p v -> p <> [] -> lookup f p <> Some EDir -> all_dirs f d = true -> all_dirs f' d = true.
Proof.
  intros f f' p v d Hu Hp Hnd Hd. rewrite (upd_all_dirs f f' p v d); auto.
  destruct (is_prefix p d) eqn:E; [|reflexivity]. exfalso.
  assert (is_dir f p = true) by (eapply all_dirs_spec; eauto). apply is_dir_lookup in H; auto.
Qed.

Lemma has_reserved_parent : forall p, p <> [] ->
  has_reserved p = has_reserved (parent p) || is_reserved (last p "").
Proof. intros p H. rewrite (parent_last p H) at 1. apply has_reserved_snoc. Qed.

Lemma anchor_not_prefix : forall x d, is_reserved x = true -> has_reserved d = false -> is_prefix [x] d = false.
Proof.
  intros x d Hx Hd. destruct (is_prefix [x] d) eqn:E; [|reflexivity].
  assert (has_reserved d = true).
  { eapply has_reserved_prefix; eauto. unfold WcC.has_reserved. cbn. now rewrite Hx. }
  congruence.
Qed.

Lemma entry_tail_spec : forall s e r,
  entry_tail s e (d_path e) = r -> d_path e <> [] ->
  good (s_w s) -> all_dirs (w_fs (s_w s)) (parent (d_path e)) = true ->
  has_reserved (parent (d_path e)) = false -> anchor (w_fs (s_w s)) ->
  all_dirs (w_fs (s_w s)) (s_prev s) = true -> has_reserved (s_prev s) = false ->
  good (s_w (pr_state r)) /\ pr_not_escape r /\
  stepok (d_path e) (tracked e) (removal e) (w_fs (s_w s)) (w_fs (s_w (pr_state r))) /\
  (forall q, has_reserved q = true -> lookup (w_fs (s_w (pr_state r))) q = lookup (w_fs (s_w s)) q) /\
  match r with
  | PDone s' => all_dirs (w_fs (s_w s')) (s_prev s') = true /\ has_reserved (s_prev s') = false
  | PFail _ _ => True
  end.
Proof.
  intros s e r H Hp Hg Hd Hnr Hanc Hprev Hprevr. unfold WcC.entry_tail in H.
  set (p := d_path e) in *. set (f := w_fs (s_w s)) in *.
  (* first stage: remove the old file *)
  assert (Hstage1 : exists r1, r1 = match d_before e with
                                   | Some _ => remove_old_file (s_w s) p
                                   | None => Done false (s_w s) end) by eauto.
  destruct Hstage1 as [r1 Hr1]. rewrite <- Hr1 in H.
  assert (H1 : good (res_world r1) /\ not_escape r1 /\
               match r1 with
               | Done true w' => is_leaf (lookup f p) = true /\ is_reserved (last p "") = false
                                 /\ upd f (w_fs w') p None /\ tracked e = true
               | Done false w' => w_fs w' = f
               | Fail _ w' => w_fs w' = f
               end).
  { unfold tracked. destruct (d_before e) as [v|].
    - symmetry in Hr1. apply remove_old_file_spec in Hr1; auto. destruct Hr1 as [A [B C]].
      splits; auto. destruct r1 as [[|] w'|[| | |] w']; cbn; intuition.
    - subst r1. cbn. splits; auto. }
  destruct H1 as [Hg1 [Hne1 Hpost1]].
  destruct r1 as [deleted w1|er w1].
  2:{ subst r. cbn in *. splits; rewrite ?Hpost1; auto using stepok_refl; try (destruct er; auto). }
  cbn [res_world] in Hg1.
  (* the state after the first stage *)
  assert (Hstep1 : stepok p (tracked e) (removal e) f (w_fs w1)).
  { destruct deleted.
    - destruct Hpost1 as [A [B [C D]]]. intros q. destruct (path_dec q p) as [->|Hq].
      + right; right; left. auto.
      + left. eapply upd_other; eauto.
    - rewrite Hpost1. apply stepok_refl. }
  assert (Hres1 : forall q, has_reserved q = true -> lookup (w_fs w1) q = lookup f q).
  { destruct deleted; [|now rewrite Hpost1]. destruct Hpost1 as [A [B [C D]]].
    intros q Hq. eapply upd_other; eauto. intros ->. rewrite has_reserved_parent in Hq by auto.
    fold p in Hq. rewrite Hnr, B in Hq. discriminate. }
  assert (Hd1 : all_dirs (w_fs w1) (parent p) = true).
  { destruct deleted; [|now rewrite Hpost1]. destruct Hpost1 as [A [B [C D]]].
    erewrite upd_parent_dirs; eauto. }
  assert (Hprev1 : all_dirs (w_fs w1) (s_prev s) = true).
  { destruct deleted; [|now rewrite Hpost1]. destruct Hpost1 as [A [B [C D]]].
    apply (upd_keeps_dirs f (w_fs w1) p None); auto. intros E. rewrite E in A. discriminate. }
  assert (Hanc1 : anchor (w_fs w1)).
  { destruct Hanc as [x [Hx1 Hx2]]. exists x. split; auto. rewrite Hres1; auto.
    unfold WcC.has_reserved. cbn. now rewrite Hx1. }
  (* second stage: may a new file be created? *)
  assert (Hstage2 : exists r2, r2 = if deleted then Done true w1 else can_create_new_file w1 p) by eauto.
  destruct Hstage2 as [r2 Hr2]. rewrite <- Hr2 in H.
  assert (H2 : good (res_world r2) /\ not_escape r2 /\
               (forall q, lookup (w_fs (res_world r2)) q = lookup (w_fs w1) q) /\
               match r2 with
               | Done true _ => lookup (w_fs w1) p = None /\ is_reserved (last p "") = false
               | _ => True
               end).
  { destruct deleted.
    - subst r2. cbn. destruct Hpost1 as [A [B [C D]]]. splits; auto. apply (upd_same _ _ _ _ C).
    - symmetry in Hr2. apply can_create_new_file_spec in Hr2; auto.
      destruct Hr2 as [A [B [C D]]]. splits; auto. destruct r2 as [[|] w'|er w']; auto. }
  destruct H2 as [Hg2 [Hne2 [Hsame2 Hpost2]]].
  assert (Hstep2 : stepok p (tracked e) (removal e) f (w_fs (res_world r2))).
  { eapply stepok_trans; [exact Hstep1|]. now apply stepok_ext. }
  assert (Hres2 : forall q, has_reserved q = true -> lookup (w_fs (res_world r2)) q = lookup f q).
  { intros q Hq. rewrite Hsame2. auto. }
  destruct r2 as [[|] w2|er w2]; cbn [res_world] in *.
  3:{ subst r. cbn. splits; auto; try (destruct er; auto). }
  2:{ (* skipped *)
      subst r. cbn. splits; auto.
      - rewrite <- Hprev1. apply all_dirs_ext. auto. }
  (* third stage *)
  destruct Hpost2 as [Hnone2 Hnres].
  assert (Hnone2' : lookup (w_fs w2) p = None) by now rewrite Hsame2.
  assert (Hd2 : all_dirs (w_fs w2) (parent p) = true).
  { rewrite <- Hd1. apply all_dirs_ext. auto. }
  assert (Hprev2 : all_dirs (w_fs w2) (s_prev s) = true).
  { rewrite <- Hprev1. apply all_dirs_ext. auto. }
  assert (Hnrp : has_reserved p = false) by (rewrite has_reserved_parent by auto; fold p; now rewrite Hnr, Hnres).
  assert (Hfin : forall w3 v, upd (w_fs w2) (w_fs w3) p (Some v) ->
            stepok p (tracked e) (removal e) f (w_fs w3)
            /\ (forall q, has_reserved q = true -> lookup (w_fs w3) q = lookup f q)
            /\ all_dirs (w_fs w3) (s_prev s) = true).
  { intros w3 v Hu. splits.
    - eapply stepok_trans; [exact Hstep2|]. intros q. destruct (path_dec q p) as [->|Hq].
      + right; left. split; auto using is_prefix_refl.
      + left. eapply upd_other; eauto.
    - intros q Hq. rewrite (upd_other _ _ _ _ _ Hu); auto. congruence.
    - eapply upd_keeps_dirs; eauto. congruence. }
  unfold removal. destruct (d_after e) as [[c x|t]|] eqn:Ea; cbn [is_some negb].
  - destruct (write_file w2 p c x) as [u w3|er w3] eqn:E3;
      apply write_file_spec in E3; auto; destruct E3 as [Hg3 [Hne3 Hpost3]].
    + destruct Hpost3 as [_ Hu]. destruct (Hfin _ _ Hu) as [A [B C]].
      subst r. cbn. unfold removal in A. rewrite Ea in A. splits; auto.
    + destruct Hpost3 as [Hfs3 _]. subst r. cbn. unfold removal in Hstep2. rewrite Ea in Hstep2.
      splits; rewrite ?Hfs3; auto; try (destruct er; auto).
  - destruct (write_symlink w2 p t) as [u w3|er w3] eqn:E3;
      apply write_symlink_spec in E3; auto; destruct E3 as [Hg3 [Hne3 Hpost3]].
    + destruct Hpost3 as [_ Hu]. destruct (Hfin _ _ Hu) as [A [B C]].
      subst r. cbn. unfold removal in A. rewrite Ea in A. splits; auto.
    + destruct Hpost3 as [Hfs3 _]. subst r. cbn. unfold removal in Hstep2. rewrite Ea in Hstep2.
      splits; rewrite ?Hfs3; auto; try (destruct er; auto).
  - (* removal: prune the parents *)
    assert (Hanc2 : exists x, lookup (w_fs w2) [x] <> None /\ is_prefix [x] (rev (rev (parent p))) = false).
    { destruct Hanc1 as [x [Hx1 Hx2]]. exists x. rewrite rev_involutive. split.
      - now rewrite Hsame2.
      - now apply anchor_not_prefix. }
    destruct (prune_rev w2 (rev (parent p))) as [u w3|er w3] eqn:E3;
      apply prune_rev_spec in E3; auto; try (now rewrite rev_involutive);
      destruct E3 as [Hg3 [[u' [w' Hdone]] Hpr]]; [|discriminate].
    rewrite rev_involutive in Hpr. cbn [res_world] in *.
    subst r. cbn. unfold removal in Hstep2. rewrite Ea in Hstep2. cbn in Hstep2. splits; auto.
    + eapply stepok_trans; [exact Hstep2|]. eapply pruned_stepok; eauto.
      now apply parent_is_strict_prefix.
    + intros q Hq. destruct (Hpr q) as [Hq'|[A [B [C D]]]]; [rewrite Hq'; auto|].
      exfalso. assert (has_reserved (parent p) = true) by (eapply has_reserved_prefix; eauto). congruence.
Qed.

Lemma common_prefix_spec : forall p q c adj,
  common_prefix p q = (c, adj) -> p = c ++ adj /\ is_prefix c q = true.
Proof.
  induction p as [|x p IH]; intros q c adj H.
  - cbn in H. inversion H; subst. split; reflexivity.
  - destruct q as [|y q]; cbn in H; [inversion H; subst; split; reflexivity|].
    destruct (String.eqb x y) eqn:E.
    + destruct (common_prefix p q) as [c' r'] eqn:E'. inversion H; subst.
      destruct (IH _ _ _ E') as [-> A]. split; [reflexivity|]. cbn. rewrite E. exact A.
    + inversion H; subst. split; reflexivity.
Qed.

Lemma has_reserved_prefix_false : forall p q,
  is_prefix p q = true -> has_reserved q = false -> has_reserved p = false.
Proof.
  intros p q H Hq. destruct (has_reserved p) eqn:E; [|reflexivity].
  rewrite (has_reserved_prefix p q H E) in Hq. discriminate.
Qed.

Lemma made_dirs_keeps_dirs : forall f f' base full d,
  made_dirs f f' base full -> all_dirs f d = true -> all_dirs f' d = true.
Proof.
  intros f f' base full d H Hd. apply all_dirs_spec. intros q Hq.
  assert (Hq' : is_dir f q = true) by (eapply all_dirs_spec; eauto).
  destruct q as [|a q]; [reflexivity|]. apply is_dir_lookup in Hq'; [|discriminate].
  apply is_dir_lookup; [discriminate|].
  destruct (H (a :: q)) as [E|[A _]]; congruence.
Qed.

Lemma parent_app : forall (c adj : path), adj <> [] -> parent (c ++ adj) = c ++ removelast adj.
Proof. intros. unfold parent. now apply removelast_app. Qed.

Definition sinv (s : st) : Prop :=
  good (s_w s) /\ anchor (w_fs (s_w s)) /\ all_dirs (w_fs (s_w s)) (s_prev s) = true
  /\ has_reserved (s_prev s) = false.

Lemma anchor_keep : forall f f',
  (forall q, has_reserved q = true -> lookup f' q = lookup f q) -> anchor f -> anchor f'.
Proof.
  intros f f' H [x [A B]]. exists x. split; auto. rewrite H; auto.
  unfold WcC.has_reserved. cbn. now rewrite A.
Qed.

Lemma process_entry_spec : forall s e r,
  process_entry s e = r -> d_path e <> [] -> sinv s ->
  good (s_w (pr_state r)) /\ pr_not_escape r /\
  stepok (d_path e) (tracked e) (removal e) (w_fs (s_w s)) (w_fs (s_w (pr_state r))) /\
  (forall q, has_reserved q = true -> lookup (w_fs (s_w (pr_state r))) q = lookup (w_fs (s_w s)) q) /\
  match r with PDone s' => sinv s' | PFail _ _ => True end.
Proof.
  intros s e r H Hp [Hg [Hanc [Hprev Hprevr]]]. unfold WcC.process_entry in H.
  cbn [s_prev s_w s_changed s_deleted s_stats] in H.
  destruct (common_prefix (d_path e) (s_prev s)) as [c adj] eqn:Ec.
  apply common_prefix_spec in Ec as [Hpath Hc].
  assert (Hdc : all_dirs (w_fs (s_w s)) c = true) by (eapply all_dirs_prefix; eauto).
  assert (Hrc : has_reserved c = false) by (eapply has_reserved_prefix_false; eauto).
  destruct adj as [|a adj'].
  - (* the path lies on the cached chain of directories *)
    rewrite app_nil_r in Hpath. subst c.
    destruct (forallb valid_name (d_path e)).
    + set (s1 := mkSt (s_w s) (s_prev s) (s_changed s) (s_deleted s) (bump (s_stats s) e)) in *.
      apply (entry_tail_spec s1 e r) in H; auto.
      * destruct H as [A [B [C [D E]]]]. splits; auto.
        destruct r as [s'|]; auto. destruct E as [E1 E2]. unfold sinv. splits; auto.
        eapply anchor_keep; eauto.
      * cbn. eapply all_dirs_prefix; eauto. apply is_strict_prefix_prefix. now apply parent_is_strict_prefix.
      * eapply has_reserved_prefix_false; eauto. apply is_strict_prefix_prefix. now apply parent_is_strict_prefix.
    + subst r. cbn. splits; auto using stepok_refl.
  - set (adj := a :: adj') in *. assert (Hadj : adj <> []) by discriminate.
    destruct (forallb valid_name c); cbn [negb] in H.
    2:{ subst r. cbn. splits; auto using stepok_refl. }
    cbn [s_w] in H.
    destruct (create_parent_dirs (s_w s) c adj) as [[dp|] w1|er w1] eqn:E1;
      apply create_parent_dirs_spec in E1; auto; destruct E1 as [Hg1 [Hne1 [Hmd [Hrs Hpost]]]];
      cbn [res_world] in *.
    + destruct Hpost as [Hdp [Hd1 [Hr1 Hv1]]]. rewrite <- Hpath in Hdp. subst dp.
      set (s1 := mkSt w1 (parent (d_path e)) (s_changed s) (s_deleted s) (bump (s_stats s) e)) in *.
      assert (Hpar : parent (d_path e) = c ++ removelast adj) by (rewrite Hpath; now apply parent_app).
      assert (Hrp : has_reserved (parent (d_path e)) = false).
      { rewrite Hpar, has_reserved_app, Hrc, Hr1. reflexivity. }
      apply (entry_tail_spec s1 e r) in H; auto.
      * destruct H as [A [B [C [D E]]]]. cbn [s1 s_w] in *. splits; auto.
        -- eapply stepok_trans; [|exact C]. eapply made_dirs_stepok; eauto.
           rewrite <- Hpar. apply is_strict_prefix_prefix. now apply parent_is_strict_prefix.
        -- intros q Hq. rewrite D; auto.
        -- destruct r as [s'|]; auto. destruct E as [E1 E2]. unfold sinv. splits; auto.
           eapply anchor_keep; [|exact Hanc]. intros q Hq. rewrite D; auto.
      * cbn. eapply anchor_keep; eauto.
    + subst r. cbn. splits; auto.
      * eapply made_dirs_stepok; eauto. rewrite Hpath, <- parent_app by auto.
        apply is_strict_prefix_prefix. apply parent_is_strict_prefix. rewrite <- Hpath. exact Hp.
      * unfold sinv. cbn. splits; auto.
        -- eapply anchor_keep; eauto.
        -- eapply made_dirs_keeps_dirs; eauto.
    + subst r. cbn. splits; auto.
      eapply made_dirs_stepok; eauto. rewrite Hpath, <- parent_app by auto.
      apply is_strict_prefix_prefix. apply parent_is_strict_prefix. rewrite <- Hpath. exact Hp.
Qed.

(** ** The whole diff *)

(** What the disk may look like after processing the entries [d] from the disk [f0]. *)
Definition rel (d : list dentry) (f0 f : fs) : Prop :=
  forall q, lookup f q = lookup f0 q
    \/ (lookup f0 q = None /\ exists e, In e d /\ is_prefix q (d_path e) = true)
    \/ (is_leaf (lookup f0 q) = true /\ exists e, In e d /\ q = d_path e /\ tracked e = true)
    \/ (lookup f0 q = Some EDir
        /\ exists e, In e d /\ is_strict_prefix q (d_path e) = true /\ removal e = true).

Lemma rel_of_stepok : forall e rest f f1,
  stepok (d_path e) (tracked e) (removal e) f f1 -> rel (e :: rest) f f1.
Proof.
  intros e rest f f1 H q. destruct (H q) as [A|[[A B]|[[A [B C]]|[A [B C]]]]].
  - now left.
  - right; left. split; auto. exists e. split; [now left | auto].
  - right; right; left. split; auto. exists e. split; [now left | auto].
  - right; right; right. split; auto. exists e. split; [now left | auto].
Qed.

Lemma rel_cons : forall e rest f f1 f2,
  stepok (d_path e) (tracked e) (removal e) f f1 -> rel rest f1 f2 -> rel (e :: rest) f f2.
Proof.
  intros e rest f f1 f2 H1 H2 q.
  destruct (H1 q) as [A|Hne].
  - (* nothing happened at q in the first step *)
    destruct (H2 q) as [B|[[B [e' [C D]]]|[[B [e' [C D]]]|[B [e' [C D]]]]]]; rewrite A in B.
    + now left.
    + right; left. split; auto. exists e'. split; [now right | auto].
    + right; right; left. split; auto. exists e'. split; [now right | auto].
    + right; right; right. split; auto. exists e'. split; [now right | auto].
  - destruct Hne as [[A B]|[[A [B C]]|[A [B C]]]].
    + right; left. split; auto. exists e. split; [now left | auto].
    + right; right; left. split; auto. exists e. split; [now left | auto].
    + right; right; right. split; auto. exists e. split; [now left | auto].
Qed.

Lemma process_all_spec : forall d s r,
  process_all s d = r -> (forall e, In e d -> d_path e <> []) -> sinv s ->
  good (s_w (pr_state r)) /\ pr_not_escape r /\
  rel d (w_fs (s_w s)) (w_fs (s_w (pr_state r))) /\
  (forall q, has_reserved q = true -> lookup (w_fs (s_w (pr_state r))) q = lookup (w_fs (s_w s)) q).
Proof.
  induction d as [|e rest IH]; intros s r H Hne Hinv.
  - cbn in H. subst r. cbn. destruct Hinv as [Hg _]. splits; auto. intros q. now left.
  - cbn in H. destruct (process_entry s e) as [s1|er s1] eqn:E;
      apply process_entry_spec in E; auto; try (apply Hne; now left);
      destruct E as [A [B [C [D F]]]]; cbn [pr_state] in *.
    + apply IH in H; auto; [|intros e' He'; apply Hne; now right].
      destruct H as [A' [B' [C' D']]]. splits; auto.
      * eapply rel_cons; eauto.
      * intros q Hq. rewrite D'; auto.
    + subst r. cbn. splits; auto. now apply rel_of_stepok.
Qed.

End WithReserved.
