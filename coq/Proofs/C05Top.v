(** C05, part 4: [parse_conflict] inverts [materialize_conflict_hunks]. *)
From Coq Require Import Lia.
From Verif Require Import Base.Prelude Gen.Tables Model.Merge Model.Conflicts.
From Verif Require Import Proofs.C05Lines Proofs.C05Hunk Proofs.C05Jj.
Local Open Scope N_scope.

(* ------------------------------------------------------------------ small list facts *)

Lemma list_eqb_refl {A} (eqb : A -> A -> bool) (l : list A) :
  (forall x, eqb x x = true) -> list_eqb eqb l l = true.
Proof. intros H. induction l as [|x l IH]; [reflexivity|]. cbn. rewrite H, IH. reflexivity. Qed.

Lemma bytes_eqb_refl (l : bytes) : bytes_eqb l l = true.
Proof. apply list_eqb_refl. apply N.eqb_refl. Qed.

Lemma skipn_app_exact {A} (p s : list A) : skipn (length p) (p ++ s) = s.
Proof. induction p as [|x p IH]; [reflexivity|exact IH]. Qed.

Lemma firstn_app_exact {A} (p s : list A) : firstn (length p) (p ++ s) = p.
Proof. induction p as [|x p IH]; [reflexivity|]. cbn. rewrite IH. reflexivity. Qed.

Lemma slice_mid (p m s : bytes) :
  slice (p ++ m ++ s) (length p) (length p + length m) = m.
Proof.
  unfold slice. rewrite skipn_app_exact.
  replace (length p + length m - length p)%nat with (length m) by lia.
  apply firstn_app_exact.
Qed.

Lemma ends_with_app (x s : bytes) : ends_with (x ++ s) s = true.
Proof.
  unfold ends_with. rewrite app_length.
  replace (length x + length s - length s)%nat with (length x) by lia.
  rewrite skipn_app_exact. apply bytes_eqb_refl.
Qed.

Lemma ends_with_lf_false (l : bytes) : last_opt l <> Some LF -> ends_with l [LF] = false.
Proof.
  intros H. destruct l as [|b l'] eqn:E; [reflexivity|]. rewrite <- E in *.
  destruct (last_opt_snoc_inv l) as [x [c Ex]]; [subst; discriminate|].
  rewrite Ex in *. rewrite last_opt_app_single in H.
  unfold ends_with. rewrite app_length. cbn [length].
  replace (length x + 1 - 1)%nat with (length x) by lia.
  rewrite skipn_app_exact. cbn. destruct (c =? LF) eqn:Ec; [|reflexivity].
  apply N.eqb_eq in Ec. congruence.
Qed.

Lemma ends_with_crlf_false (x : bytes) :
  x <> [] -> last_opt x <> Some CR -> ends_with (x ++ [LF]) [CR; LF] = false.
Proof.
  intros Hne H. destruct (last_opt_snoc_inv x Hne) as [y [c Ex]]. subst x.
  rewrite last_opt_app_single in H. rewrite <- app_assoc. cbn [app].
  unfold ends_with. rewrite app_length. cbn [length].
  replace (length y + 2 - 2)%nat with (length y) by lia.
  rewrite skipn_app_exact. cbn. destruct (c =? CR) eqn:Ec; [|reflexivity].
  apply N.eqb_eq in Ec. congruence.
Qed.

Lemma pop_if_snoc c (t : bytes) : pop_if c (t ++ [c]) = (t, true).
Proof. unfold pop_if. rewrite rev_app_distr. cbn. rewrite N.eqb_refl, rev_involutive. reflexivity. Qed.

Lemma pop_term_lf (t : bytes) : pop_term false (t ++ [LF]) = t.
Proof. unfold pop_term. rewrite pop_if_snoc. reflexivity. Qed.

Lemma pop_term_crlf (t : bytes) : pop_term true (t ++ [CR; LF]) = t.
Proof.
  unfold pop_term. change [CR; LF] with ([CR] ++ [LF]). rewrite app_assoc, pop_if_snoc.
  cbn [andb]. rewrite pop_if_snoc. reflexivity.
Qed.

Lemma last_opt_write_marker k n sfx :
  (1 <= n)%nat -> lab_ok sfx ->
  write_marker k n sfx <> [] /\ last_opt (write_marker k n sfx) <> Some CR
  /\ last_opt (write_marker k n sfx) <> Some LF.
Proof.
  intros Hn [H1 H2]. unfold write_marker. destruct sfx as [|b s].
  - rewrite app_nil_r. destruct n as [|n]; [lia|].
    assert (E : repeat (kind_byte k) (Datatypes.S n) = repeat (kind_byte k) n ++ [kind_byte k]).
    { clear. induction n as [|n IH]; [reflexivity|]. cbn [repeat app] in *. rewrite <- IH. reflexivity. }
    rewrite E, last_opt_app_single. split; [destruct (repeat (kind_byte k) n); discriminate|].
    split; intros H; injection H as H; [exact (kind_byte_not_cr k H)|exact (kind_byte_not_lf k H)].
  - split; [destruct (repeat (kind_byte k) n); discriminate|].
    rewrite last_opt_app by discriminate.
    change (SP :: b :: s) with ([SP] ++ b :: s). rewrite last_opt_app by discriminate.
    split; [exact H2|]. intros H. apply H1.
    destruct (last_opt_snoc_inv (b :: s)) as [y [c E]]; [discriminate|].
    rewrite E in *. rewrite last_opt_app_single in H. injection H as ->.
    apply in_or_app. right. left. reflexivity.
Qed.

(* ------------------------------------------------------------------ the theorem's hypotheses *)

(** Every term of every hunk but the last is empty or LF-terminated. *)
Fixpoint nonlast_lc (hs : list (list (list N))) : Prop :=
  match hs with
  | [] => True
  | [_] => True
  | h :: t => Forall lc h /\ nonlast_lc t
  end.

(** Resolved hunks are non-empty and never adjacent. *)
Fixpoint resolved_ok (prev_resolved : bool) (hs : list (list (list N))) : Prop :=
  match hs with
  | [] => True
  | [c] :: t => prev_resolved = false /\ c <> [] /\ resolved_ok true t
  | _ :: t => resolved_ok false t
  end.

(** What [parse_conflict] computes from the materialized text of any hunk list: resolved
    hunks are coalesced with the pending resolved text [R]; the result is the list of
    emitted hunks and the trailing resolved text. *)
Fixpoint norm (R : bytes) (hs : list (list (list N))) : list (list (list N)) * bytes :=
  match hs with
  | [] => ([], R)
  | [c] :: t => norm (R ++ c) t
  | h :: t => let '(out, R') := norm [] t in
              ((match R with [] => [] | _ => [[R]] end) ++ [h] ++ out, R')
  end.

Definition flush (R : bytes) : list (list (list N)) :=
  match R with [] => [] | _ => [[R]] end.

Lemma norm_wf : forall hs prev R,
  resolved_ok prev hs ->
  (prev = true -> R <> []) -> (prev = false -> R = []) ->
  flush R ++ hs = fst (norm R hs) ++ flush (snd (norm R hs)).
Proof.
  induction hs as [|h t IH]; intros prev R Hr Hp Hn.
  - cbn. rewrite app_nil_r. reflexivity.
  - destruct h as [|c [|c2 r]].
    + cbn [resolved_ok] in Hr. cbn [norm].
      specialize (IH false [] Hr). destruct (norm [] t) as [out R'].
      cbn [fst snd] in *. rewrite <- app_assoc. cbn [app].
      rewrite <- IH by (intros; congruence). reflexivity.
    + cbn [resolved_ok] in Hr. destruct Hr as [-> [Hc Hr]]. cbn [norm].
      rewrite (Hn eq_refl). cbn [app flush].
      rewrite <- (IH true c Hr) by (intros; congruence).
      unfold flush. destruct c; [congruence|reflexivity].
    + cbn [resolved_ok] in Hr. cbn [norm].
      specialize (IH false [] Hr). destruct (norm [] t) as [out R'].
      cbn [fst snd] in *. fold (flush R). rewrite <- app_assoc. cbn [app].
      rewrite <- IH by (intros; congruence). reflexivity.
Qed.

Section Top.
  Variable D : bytes -> bytes -> list dhunk.
  Variable L : nat.
  Hypothesis HL : (2 <= L)%nat.
  Variable eol : bytes.
  Hypothesis Heol : valid_eol eol.
  Hypothesis D_ok : forall a b, lc a -> lc b -> pieces_ok a b (D a b).
  Variable n : nat.
  Variable st_ : style.
  Variable labels : list bytes.
  Hypothesis Hlabels : Forall lab_ok labels.

  Definition pushed (h : list (list N)) : list (list N) :=
    if forallb ends_ok h then h else map (fun t => t ++ eol) h.

  Lemma pushed_term_ok h :
    Forall (dom_all L) h ->
    Forall (fun t => lc t /\ dom_all L t) (pushed h).
  Proof.
    intros Hd. unfold pushed. destruct (forallb ends_ok h) eqn:E.
    - rewrite forallb_forall in E. rewrite Forall_forall in *. intros t Ht.
      split; [exact (E t Ht)|exact (Hd t Ht)].
    - apply Forall_map. eapply Forall_impl; [|exact Hd]. intros t Ht. split.
      + apply lc_app; [apply valid_eol_lc; exact Heol|apply valid_eol_nonempty; exact Heol].
      + apply dom_all_push_eol; assumption.
  Qed.

  (** One conflict hunk: start line, a body the hunk parser inverts, end marker. *)
  Lemma conflict_text_shape info h :
    lab_ok info -> Nat.odd (length h) = true -> Forall (dom_all L) h ->
    let sides0 := build_sides h labels in
    let sides := if forallb ends_ok h then sides0
                 else map (fun t => (fst t ++ eol, snd t)) sides0 in
    exists lab0 body lab1,
      (match st_, sides with
       | StGit, [tl_; tb_; tr_] => git_conflict eol L tl_ tb_ tr_
       | _, _ => jj_conflict D eol L st_ info sides
       end) = mline L eol KStart lab0 ++ body ++ write_marker KEnd L lab1
      /\ lab_ok lab0 /\ lab_ok lab1 /\ lc body /\ Forall (inert L) (lines body)
      /\ parse_conflict_hunk body L = pushed h.
  Proof.
    intros Hinfo Hodd Hdom sides0 sides.
    destruct (build_sides_spec h labels Hlabels) as [Hfst Hsnd]. fold sides0 in Hfst, Hsnd.
    assert (Hfst' : map fst sides = pushed h).
    { subst sides. unfold pushed. destruct (forallb ends_ok h); [exact Hfst|].
      rewrite <- Hfst, !map_map. reflexivity. }
    assert (Hsnd' : Forall (fun t => lab_ok (snd t)) sides).
    { subst sides. destruct (forallb ends_ok h); [exact Hsnd|].
      apply Forall_map. cbn [snd]. exact Hsnd. }
    assert (Hok : Forall (term_ok L) sides).
    { pose proof (pushed_term_ok h Hdom) as Hp. rewrite <- Hfst' in Hp.
      rewrite Forall_map in Hp. rewrite Forall_forall in *. intros t Ht.
      destruct (Hp t Ht) as [H1 H2]. repeat split; auto; apply (Hsnd' t Ht). }
    assert (Hlen : length sides = length h).
    { rewrite <- (map_length fst sides), Hfst'. unfold pushed.
      destruct (forallb ends_ok h); [reflexivity|apply map_length]. }
    assert (Hjj : exists lab0 body lab1,
               jj_conflict D eol L st_ info sides
               = mline L eol KStart lab0 ++ body ++ write_marker KEnd L lab1
               /\ lab_ok lab0 /\ lab_ok lab1 /\ lc body /\ Forall (inert L) (lines body)
               /\ parse_conflict_hunk body L = pushed h).
    { destruct (jj_conflict_shape D L HL eol D_ok st_ info sides) as [secs [E [S1 [S2 S3]]]];
        [rewrite Hlen; exact Hodd|exact Hok|].
      exists info, (print_secs L eol secs), (info ++ LABEL_CONFLICT_ENDS).
      split; [exact E|]. split; [exact Hinfo|]. split.
      { apply lab_ok_app; [exact (proj1 Hinfo)| |discriminate].
        split; vm_compute; [intuition discriminate|discriminate]. }
      split; [apply lc_print_secs; assumption|]. split; [apply inert_secs; assumption|].
      destruct (t_evens_odds_map sides) as [M1 M2].
      destruct secs as [|s0 secs'].
      { exfalso. cbn in S2. pose proof (t_evens_odds_length sides) as Hl2.
        rewrite Hlen in Hl2. specialize (Hl2 Hodd).
        apply (f_equal (@length _)) in S2. rewrite map_length in S2. cbn in S2. lia. }
      assert (Hs0 : sec_ok L s0) by (inversion S1; assumption).
      rewrite (jj_dispatch L HL eol Heol s0 secs' Hs0).
      rewrite parse_jj_secs; [|exact HL|exact Heol|exact S1|].
      - rewrite S2, S3, M1, M2, Hfst'. apply interleave_evens_odds.
      - rewrite S2, S3, !map_length. apply t_evens_odds_length. rewrite Hlen. exact Hodd. }
    clearbody sides. clear Hfst Hsnd. clear sides0.
    destruct st_; try exact Hjj.
    destruct sides as [|ta [|tb [|tc [|td r]]]]; try exact Hjj.
    (* git style with exactly two sides *)
    clear Hjj.
    assert (Ha : term_ok L ta) by (inversion Hok; assumption).
    assert (Hb : term_ok L tb) by (inversion Hok as [|? ? _ H1]; inversion H1; assumption).
    assert (Hc : term_ok L tc)
      by (inversion Hok as [|? ? _ H1]; inversion H1 as [|? ? _ H2]; inversion H2; assumption).
    destruct Ha as [Ha1 [Ha2 Ha3]]. destruct Hb as [Hb1 [Hb2 Hb3]]. destruct Hc as [Hc1 [Hc2 Hc3]].
    exists (snd ta), (git_body L eol (fst ta) (fst tb) (fst tc) (snd tb)), (snd tc).
    split; [unfold git_conflict, git_body, mline; rewrite <- !app_assoc; reflexivity|].
    split; [exact Ha3|]. split; [exact Hc3|].
    split; [apply lc_git_body; [exact Heol|exact (proj1 Hb3)|exact Hc1]|].
    split; [apply inert_git_body; auto; exact (proj1 Hb3)|].
    rewrite git_body_dispatch by (auto; exact (proj1 Hb3)).
    rewrite parse_git_body by (auto; exact (proj1 Hb3)).
    cbn [map fst] in Hfst'. exact Hfst'.
  Qed.

  (* ---------------------------------------------------------------- the outer loop *)

  Definition bump (st : pstate) (k : nat) : pstate :=
    mk_pstate (p_pos st + k) (p_resolved_start st) (p_conflict_start st)
              (p_conflict_start_len st) (p_crlf st) (p_hunks st).

  Lemma pc_step_inert input st l : inert L l -> pc_step input n L st l = bump st (length l).
  Proof.
    intros [H1 H2]. unfold pc_step, bump.
    destruct (parse_marker l L) as [[]|]; try congruence; reflexivity.
  Qed.

  Lemma pc_fold_inert input ls : forall st,
    Forall (inert L) ls ->
    fold_left (pc_step input n L) ls st = bump st (length (concat ls)).
  Proof.
    induction ls as [|l ls IH]; intros st H.
    - cbn. unfold bump. rewrite Nat.add_0_r. destruct st; reflexivity.
    - inversion H as [|? ? Hl Hls]; subst. cbn [fold_left concat].
      rewrite pc_step_inert by exact Hl. rewrite IH by exact Hls.
      unfold bump. cbn. rewrite app_length. f_equal. lia.
  Qed.

  Definition hunk_wf (h : list (list N)) : Prop :=
    Forall (dom_all L) h /\
    (is_resolved h = true \/ (Nat.odd (length h) = true /\ num_sides h = n)).

  Lemma is_resolved_pushed_len h : length (pushed h) = length h.
  Proof. unfold pushed. destruct (forallb ends_ok h); [reflexivity|apply map_length]. Qed.

  (** Processing the text of one conflict hunk. *)
  Lemma pc_conflict_chunk input A R lab0 body lab1 h X' H clen crlf0 :
    lab_ok lab0 -> lab_ok lab1 -> lc body -> Forall (inert L) (lines body) ->
    parse_conflict_hunk body L = pushed h -> num_sides h = n ->
    (forallb ends_ok h = false -> X' = []) ->
    let E := if forallb ends_ok h then eol else [] in
    let chunk := mline L eol KStart lab0 ++ body ++ write_marker KEnd L lab1 ++ E in
    input = A ++ R ++ chunk ++ X' ->
    exists clen' crlf',
      fold_left (pc_step input n L) (lines (chunk ++ X'))
                (mk_pstate (length A + length R) (length A) None clen crlf0 H)
      = fold_left (pc_step input n L) (lines X')
          (mk_pstate (length A + length R + length chunk) (length A + length R + length chunk)
                     None clen' crlf' (H ++ flush R ++ [h])).
  Proof.
    intros Hl0 Hl1 Hbody Hinert Hparse Hsides Hlast E chunk Hinput.
    set (SL := mline L eol KStart lab0). set (EL := write_marker KEnd L lab1 ++ E).
    assert (HSL : is_line SL) by (apply mline_is_line; [exact Heol|exact (proj1 Hl0)]).
    destruct (last_opt_write_marker KEnd L lab1 (HL1 L HL) Hl1) as [Wne [Wcr Wlf]].
    assert (Hno_lf : ~ In LF (write_marker KEnd L lab1))
      by (apply write_marker_no_lf; exact (proj1 Hl1)).
    assert (HEL : lines (EL ++ X') = EL :: lines X').
    { subst EL E. destruct (forallb ends_ok h) eqn:Ea.
      - assert (Hline : is_line (write_marker KEnd L lab1 ++ eol))
          by (apply marker_line_is_line; [exact (proj1 Hl1)|exact Heol]).
        rewrite lines_app by (apply is_line_lc; exact Hline).
        rewrite (lines_is_line _ Hline). reflexivity.
      - rewrite (Hlast eq_refl), !app_nil_r. apply lines_no_lf; assumption. }
    assert (Hlines : lines (chunk ++ X') = SL :: lines body ++ EL :: lines X').
    { subst chunk. fold SL. rewrite <- !app_assoc.
      rewrite lines_app by (apply is_line_lc; exact HSL). rewrite (lines_is_line _ HSL).
      cbn [app]. f_equal. rewrite lines_app by exact Hbody. f_equal.
      rewrite app_assoc. exact HEL. }
    rewrite Hlines. cbn [fold_left].
    (* the start line *)
    assert (E1 : pc_step input n L (mk_pstate (length A + length R) (length A) None clen crlf0 H) SL
                 = mk_pstate (length A + length R + length SL) (length A)
                             (Some (length A + length R)%nat) (length SL)
                             (ends_with SL [CR; LF]) H).
    { unfold pc_step. cbn [p_pos p_resolved_start p_conflict_start p_hunks].
      subst SL. rewrite mline_parse by assumption. reflexivity. }
    rewrite E1. rewrite fold_left_app. rewrite (pc_fold_inert input (lines body)) by exact Hinert.
    rewrite concat_lines. unfold bump.
    cbn [p_pos p_resolved_start p_conflict_start p_conflict_start_len p_crlf p_hunks fold_left].
    (* the end line *)
    set (pos := (length A + length R + length SL + length body)%nat).
    assert (Hend : parse_marker EL L = Some KEnd).
    { subst EL E. apply parse_marker_written; [exact (HL1 L HL)|].
      destruct (forallb ends_ok h); [apply valid_eol_head_ws; exact Heol|exact I]. }
    assert (Hslice_body : slice input (length A + length R + length SL) pos = body).
    { subst pos. rewrite Hinput. subst chunk. fold SL.
      replace (A ++ R ++ (SL ++ body ++ write_marker KEnd L lab1 ++ E) ++ X')
        with ((A ++ R ++ SL) ++ body ++ (write_marker KEnd L lab1 ++ E) ++ X')
        by (rewrite <- !app_assoc; reflexivity).
      replace (length A + length R + length SL)%nat with (length (A ++ R ++ SL))
        by (rewrite !app_length; lia).
      apply slice_mid. }
    assert (Hslice_res : slice input (length A) (length A + length R) = R).
    { rewrite Hinput. apply slice_mid. }
    assert (Hcrlf : ends_with SL [CR; LF] = bytes_eqb eol [CR; LF]).
    { subst SL. unfold mline. destruct Heol as [->| ->].
      - destruct (last_opt_write_marker KStart L lab0 (HL1 L HL) Hl0) as [W1 [W2 _]].
        rewrite ends_with_crlf_false by assumption. reflexivity.
      - rewrite ends_with_app. reflexivity. }
    assert (Hfix : (if ends_with EL [LF] then pushed h
                    else map (pop_term (ends_with SL [CR; LF])) (pushed h)) = h).
    { subst EL E. unfold pushed. destruct (forallb ends_ok h) eqn:Ea.
      - destruct (valid_eol_split eol Heol) as [e [Ee _]]. rewrite Ee at 1.
        rewrite app_assoc, ends_with_app. reflexivity.
      - rewrite app_nil_r, ends_with_lf_false by exact Wlf. rewrite map_map, Hcrlf.
        rewrite <- (map_id h) at 2. apply map_ext. intros t.
        destruct Heol as [->| ->]; cbn [bytes_eqb list_eqb N.eqb Pos.eqb andb];
          [apply pop_term_lf|apply pop_term_crlf]. }
    assert (E2 : pc_step input n L
                   (mk_pstate pos (length A) (Some (length A + length R)%nat) (length SL)
                              (ends_with SL [CR; LF]) H) EL
                 = mk_pstate (pos + length EL) (pos + length EL) None (length SL)
                             (ends_with SL [CR; LF]) (H ++ flush R ++ [h])).
    { unfold pc_step.
      cbn [p_pos p_resolved_start p_conflict_start p_conflict_start_len p_crlf p_hunks].
      rewrite Hend, Hslice_body, Hparse.
      assert (Hns : Nat.eqb (num_sides (pushed h)) n = true).
      { unfold num_sides. rewrite is_resolved_pushed_len. apply Nat.eqb_eq. exact Hsides. }
      rewrite Hns, Hslice_res, Hfix. reflexivity. }
    fold pos. rewrite E2.
    exists (length SL), (ends_with SL [CR; LF]).
    replace (pos + length EL)%nat with (length A + length R + length chunk)%nat; [reflexivity|].
    subst pos chunk EL. fold SL. rewrite !app_length. lia.
  Qed.

  Lemma mat_hunks_nil nc idx : mat_hunks D eol L st_ labels nc idx [] = [].
  Proof. reflexivity. Qed.

  (** The main invariant: processing the text of a suffix [hs] of the hunk list. *)
  Lemma pc_main nc : forall hs idx input A R H clen crlf0,
    Forall hunk_wf hs -> nonlast_lc hs ->
    input = A ++ R ++ mat_hunks D eol L st_ labels nc idx hs ->
    exists clen' crlf',
      fold_left (pc_step input n L) (lines (mat_hunks D eol L st_ labels nc idx hs))
                (mk_pstate (length A + length R) (length A) None clen crlf0 H)
      = mk_pstate (length input) (length input - length (snd (norm R hs))) None clen' crlf'
                  (H ++ fst (norm R hs)).
  Proof.
    induction hs as [|h t IH]; intros idx input A R H clen crlf0 Hwf Hnl Hinput.
    - cbn [mat_hunks lines fold_left norm fst snd]. exists clen, crlf0.
      rewrite Hinput. cbn [mat_hunks]. rewrite !app_nil_r, app_length.
      f_equal. lia.
    - assert (Hh : hunk_wf h) by (inversion Hwf; assumption).
      assert (Ht : Forall hunk_wf t) by (inversion Hwf; assumption).
      destruct Hh as [Hdom Hshape].
      assert (Hnl_t : nonlast_lc t).
      { destruct t as [|h2 t']; [exact I|]. destruct Hnl as [_ Hn]. exact Hn. }
      assert (Hlc_h : t <> [] -> Forall lc h).
      { intros Hne. destruct t as [|h2 t']; [congruence|]. destruct Hnl as [Hn _]. exact Hn. }
      assert (Hmat_nil : t = [] -> forall i, mat_hunks D eol L st_ labels nc i t = []).
      { intros -> i. reflexivity. }
      destruct h as [|c [|c2 r]].
      + (* the empty term vector is not a merge *)
        exfalso. destruct Hshape as [Hr|[Ho _]]; discriminate.
      + (* resolved hunk *)
        cbn [mat_hunks norm].
        assert (Hc : dom_all L c) by (inversion Hdom; assumption).
        assert (Hlines : lines (c ++ mat_hunks D eol L st_ labels nc idx t)
                         = lines c ++ lines (mat_hunks D eol L st_ labels nc idx t)).
        { destruct t as [|h2 t'].
          - rewrite mat_hunks_nil, app_nil_r. cbn. rewrite app_nil_r. reflexivity.
          - apply lines_app. assert (Hl : Forall lc [c]) by (apply Hlc_h; discriminate).
            inversion Hl; assumption. }
        rewrite Hlines, fold_left_app.
        rewrite (pc_fold_inert input (lines c)) by (apply inert_content; exact Hc).
        rewrite concat_lines. unfold bump.
        cbn [p_pos p_resolved_start p_conflict_start p_conflict_start_len p_crlf p_hunks].
        replace (length A + length R + length c)%nat with (length A + length (R ++ c))%nat
          by (rewrite app_length; lia).
        apply IH; [exact Ht|exact Hnl_t|].
        rewrite Hinput. cbn [mat_hunks]. rewrite <- !app_assoc. reflexivity.
      + (* conflict hunk *)
        set (h := c :: c2 :: r) in *.
        destruct Hshape as [Hr|[Hodd Hsides]]; [discriminate|].
        cbn [norm]. fold h.
        assert (Hmat : mat_hunks D eol L st_ labels nc idx (h :: t)
                       = (match st_, (if forallb ends_ok h then build_sides h labels
                                      else map (fun t0 => (fst t0 ++ eol, snd t0)) (build_sides h labels)) with
                          | StGit, [tl_; tb_; tr_] => git_conflict eol L tl_ tb_ tr_
                          | _, _ => jj_conflict D eol L st_
                                      (LABEL_CONFLICT_PREFIX ++ dec (Datatypes.S idx)
                                       ++ LABEL_CONFLICT_OF ++ dec nc)
                                      (if forallb ends_ok h then build_sides h labels
                                       else map (fun t0 => (fst t0 ++ eol, snd t0)) (build_sides h labels))
                          end)
                         ++ (if forallb ends_ok h then eol else [])
                         ++ mat_hunks D eol L st_ labels nc (Datatypes.S idx) t) by reflexivity.
        destruct (conflict_text_shape
                    (LABEL_CONFLICT_PREFIX ++ dec (Datatypes.S idx) ++ LABEL_CONFLICT_OF ++ dec nc)
                    h (info_ok _ _) Hodd Hdom)
          as [lab0 [body [lab1 [Etext [Hl0 [Hl1 [Hbody [Hinert Hparse]]]]]]]].
        cbn zeta in Etext. rewrite Etext in Hmat.
        set (X' := mat_hunks D eol L st_ labels nc (Datatypes.S idx) t) in *.
        set (E := if forallb ends_ok h then eol else []) in *.
        assert (Hchunk : mat_hunks D eol L st_ labels nc idx (h :: t)
                         = (mline L eol KStart lab0 ++ body ++ write_marker KEnd L lab1 ++ E) ++ X').
        { rewrite Hmat, <- !app_assoc. reflexivity. }
        assert (Hlast : forallb ends_ok h = false -> X' = []).
        { intros Hf. destruct t as [|h2 t']; [reflexivity|]. exfalso.
          assert (Hl : Forall lc h) by (apply Hlc_h; discriminate).
          assert (forallb ends_ok h = true); [|congruence].
          apply forallb_forall. rewrite Forall_forall in Hl. exact Hl. }
        rewrite Hchunk in Hinput |- *.
        destruct (pc_conflict_chunk input A R lab0 body lab1 h X' H clen crlf0
                    Hl0 Hl1 Hbody Hinert Hparse Hsides Hlast Hinput) as [clen1 [crlf1 Estep]].
        fold E in Estep. rewrite Estep.
        set (chunk := mline L eol KStart lab0 ++ body ++ write_marker KEnd L lab1 ++ E) in *.
        destruct (IH (Datatypes.S idx) input (A ++ R ++ chunk) [] (H ++ flush R ++ [h]) clen1 crlf1
                     Ht Hnl_t) as [clen2 [crlf2 Efin]].
        { rewrite Hinput. fold X'. rewrite <- !app_assoc. reflexivity. }
        exists clen2, crlf2. fold X' in Efin.
        replace (length A + length R + length chunk)%nat with (length (A ++ R ++ chunk) + length (@nil N))%nat
          by (rewrite !app_length; cbn; lia).
        replace (length (A ++ R ++ chunk) + length (@nil N))%nat with (length (A ++ R ++ chunk)) at 2
          by (cbn; lia).
        rewrite Efin. destruct (norm [] t) as [out R'] eqn:En. cbn [fst snd].
        unfold flush. rewrite <- !app_assoc. reflexivity.
  Qed.

  Lemma norm_suffix nc : forall hs idx R,
    exists P, R ++ mat_hunks D eol L st_ labels nc idx hs = P ++ snd (norm R hs).
  Proof.
    induction hs as [|h t IH]; intros idx R.
    - exists []. cbn. rewrite app_nil_r. reflexivity.
    - destruct h as [|c [|c2 r]].
      + cbn [norm]. destruct (IH (Datatypes.S idx) []) as [P EP]. cbn [app] in EP.
        destruct (norm [] t) as [out R'] eqn:En. cbn [snd] in *.
        cbn [mat_hunks]. rewrite EP. eexists. rewrite !app_assoc. reflexivity.
      + cbn [norm mat_hunks]. destruct (IH idx (R ++ c)) as [P EP].
        exists P. rewrite <- EP, <- app_assoc. reflexivity.
      + cbn [norm]. destruct (IH (Datatypes.S idx) []) as [P EP]. cbn [app] in EP.
        destruct (norm [] t) as [out R'] eqn:En. cbn [snd] in *.
        cbn [mat_hunks]. rewrite EP. eexists. rewrite !app_assoc. reflexivity.
  Qed.

  (** [parse_conflict] of the materialized text of any hunk list with at least one
      conflict: the hunks, with adjacent resolved hunks coalesced. *)
  Theorem parse_materialize hs :
    Forall hunk_wf hs -> nonlast_lc hs ->
    (exists h, In h hs /\ is_resolved h = false) ->
    parse_conflict (materialize_conflict_hunks D eol L hs st_ labels) n L
    = Some (fst (norm [] hs) ++ flush (snd (norm [] hs))).
  Proof.
    intros Hwf Hnl Hex. unfold materialize_conflict_hunks.
    set (nc := length (filter (fun h => negb (is_resolved h)) hs)).
    set (X := mat_hunks D eol L st_ labels nc O hs).
    destruct (pc_main nc hs O X [] [] [] O false Hwf Hnl eq_refl) as [clen [crlf E]].
    fold X in E. cbn [length Nat.add app] in E.
    assert (Hout : fst (norm [] hs) <> []).
    { clear -Hex. destruct Hex as [h [Hin Hres]]. revert Hin.
      generalize (@nil N). induction hs as [|h0 t IH]; intros R Hin; [destruct Hin|].
      destruct h0 as [|c [|c2 r]].
      - cbn [norm]. destruct (norm [] t). cbn. destruct R; discriminate.
      - destruct Hin as [<-|Hin]; [discriminate|]. cbn [norm]. apply IH. exact Hin.
      - cbn [norm]. destruct (norm [] t). cbn. destruct R; discriminate. }
    destruct (norm_suffix nc hs O []) as [P EP]. cbn [app] in EP. fold X in EP.
    set (R' := snd (norm [] hs)) in *.
    unfold parse_conflict. destruct X as [|x0 X0] eqn:EX.
    - exfalso. cbn in E. injection E as _ _ E. destruct (fst (norm [] hs)); [congruence|discriminate].
    - rewrite <- EX in *. rewrite E. cbn [p_hunks p_resolved_start app].
      destruct (fst (norm [] hs)) as [|o1 os] eqn:Eo; [congruence|].
      rewrite EP, app_length.
      replace (length P + length R' - length R')%nat with (length P) by lia.
      rewrite skipn_app_exact. unfold flush. destruct R' as [|b R''].
      + cbn [length]. rewrite Nat.add_0_r, Nat.ltb_irrefl, app_nil_r. reflexivity.
      + assert (Hlt : Nat.ltb (length P) (length P + length (b :: R'')) = true)
          by (apply Nat.ltb_lt; cbn [length]; lia).
        rewrite Hlt. reflexivity.
  Qed.

  (** The round trip: a hunk list in which resolved hunks are non-empty and not adjacent
      (as [files::merge_hunks] produces them) is parsed back exactly. *)
  Theorem roundtrip hs :
    Forall hunk_wf hs -> nonlast_lc hs -> resolved_ok false hs ->
    (exists h, In h hs /\ is_resolved h = false) ->
    parse_conflict (materialize_conflict_hunks D eol L hs st_ labels) n L = Some hs.
  Proof.
    intros Hwf Hnl Hres Hex. rewrite parse_materialize by assumption.
    rewrite <- (norm_wf hs false [] Hres) by (intros; congruence). reflexivity.
  Qed.
End Top.
