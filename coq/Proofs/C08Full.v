(** C08 for the tree the rebase finally returns (all rounds of the resolve loop). *)
From Verif Require Import Base.Prelude Model.Merge.
From Verif Require Import Proofs.MergeDen Proofs.C01 Proofs.C02 Proofs.TrivialMap.
From Verif Require Import Model.TreeMerge Model.TreeCase Model.Rebase Model.C08.
From Verif Require Import Proofs.TreeValue Proofs.TreeMerge Proofs.C07 Proofs.C08 Proofs.ResolveLoop.
From Coq Require Import Lia Arith.
Local Open Scope Z_scope.

Section Final.
  Context (accept : bool) (content_merge : list N -> option N).
  Context (nb ob ot : list tree).
  Hypothesis Hnb : Nat.odd (length nb) = true.
  Hypothesis Hob : Nat.odd (length ob) = true.
  Hypothesis Hot : Nat.odd (length ot) = true.

  Lemma final_resolved p l v : p <> [] ->
    clash_above accept (rebase_input nb ob ot) p = false ->
    Nat.odd (length l) = true ->
    (forall u, den oval_eqb (vals p (rebase_input nb ob ot)) u = den oval_eqb l u) ->
    tm accept l = Some v ->
    path_value accept (rebase_tree accept content_merge nb ob ot) p = [v].
  Proof.
    intros Hp Hc Hl Hd Hv. unfold rebase_tree, merged_tree_merge. fold (rebase_input nb ob ot).
    apply resolve_keeps. repeat split; auto.
    - now apply rebase_input_odd.
    - fold (vals p (rebase_input nb ob ot)). rewrite (tm_den_only accept _ l); auto.
      unfold vals. rewrite map_length. now apply rebase_input_odd.
  Qed.

  Theorem unchanged_paths_final p v : p <> [] ->
    clash_above accept (rebase_input nb ob ot) p = false ->
    (forall u, den oval_eqb (vals p ot) u = den oval_eqb (vals p ob) u) ->
    tm accept (vals p nb) = Some v ->
    path_value accept (rebase_tree accept content_merge nb ob ot) p = [v].
  Proof.
    intros Hp Hc Hd Hv. apply (final_resolved p (vals p nb) v); auto.
    - unfold vals. now rewrite map_length.
    - intros u. rewrite rebase_input_den, Hd by assumption. lia.
  Qed.

  Theorem agreeing_parents_final p v : p <> [] ->
    clash_above accept (rebase_input nb ob ot) p = false ->
    (forall u, den oval_eqb (vals p ob) u = den oval_eqb (vals p nb) u) ->
    tm accept (vals p ot) = Some v ->
    path_value accept (rebase_tree accept content_merge nb ob ot) p = [v].
  Proof.
    intros Hp Hc Hd Hv. apply (final_resolved p (vals p ot) v); auto.
    - unfold vals. now rewrite map_length.
    - intros u. rewrite rebase_input_den, Hd by assumption. lia.
  Qed.
End Final.
