(** C04: the file content merge returns the surviving side exactly when the terms cancel
    pairwise (or, with same-change accepted, when all adds agree and all removes agree). *)
From Coq Require Import Lia Arith ZArith Sorted.
From Verif Require Import Base.Prelude Model.Merge Model.Diff Model.Files Model.C04
     Proofs.MergeDen Proofs.C01 Proofs.C02 Proofs.FilesDen
     Proofs.DiffBase Proofs.DiffA Proofs.DiffA2 Proofs.DiffA3 Proofs.DiffA4 Proofs.DiffEq Proofs.DiffThm.

(** * The term vector and its diff inputs *)
Lemma interleave_evens_odds {A} : forall (n : nat) (t : list A),
  length t <= n -> Nat.even (length t) = true -> interleave_ra (evens t) (odds t) = t.
Proof.
  induction n as [|n IH]; intros t Hl He.
  - destruct t; [reflexivity|cbn in Hl; lia].
  - destruct t as [|r [|a t]]; [reflexivity|discriminate He|].
    change (evens (r :: a :: t)) with (r :: evens t). change (odds (r :: a :: t)) with (a :: odds t).
    cbn [interleave_ra]. rewrite IH; [reflexivity|cbn in Hl; lia|exact He].
Qed.

Lemma from_removes_adds_terms {A} (t : list A) :
  Nat.odd (length t) = true -> from_removes_adds (odds t) (evens t) = t.
Proof.
  destruct t as [|a t]; [discriminate|]. intros H.
  change (evens (a :: t)) with (a :: odds t). change (odds (a :: t)) with (evens t).
  cbn [from_removes_adds]. f_equal. apply (interleave_evens_odds (length t)); [lia|].
  cbn [length] in H. now rewrite Nat.odd_succ in H.
Qed.

Lemma interleave_ra_map {A B} (g : A -> B) : forall r a,
  interleave_ra (map g r) (map g a) = map g (interleave_ra r a).
Proof. induction r as [|x r IH]; intros [|y a]; cbn; auto. now rewrite IH. Qed.

Lemma from_removes_adds_map {A B} (g : A -> B) r a :
  from_removes_adds (map g r) (map g a) = map g (from_removes_adds r a).
Proof. destruct a as [|y a]; cbn; [reflexivity|]. now rewrite interleave_ra_map. Qed.

Lemma in_evens_odds {A} (x : A) : forall (n : nat) (t : list A),
  length t <= n -> (In x t <-> In x (odds t) \/ In x (evens t)).
Proof.
  induction n as [|n IH]; intros t Hl.
  - destruct t; [cbn; tauto|cbn in Hl; lia].
  - destruct t as [|a t]; [cbn; tauto|].
    change (evens (a :: t)) with (a :: odds t). change (odds (a :: t)) with (evens t).
    cbn [In]. rewrite (IH t) by (cbn in Hl; lia). tauto.
Qed.

Lemma in_diff_inputs x terms : In x terms <-> In x (diff_inputs terms).
Proof. unfold diff_inputs. rewrite in_app_iff. apply (in_evens_odds x (length terms)). lia. Qed.

Lemma diff_inputs_length terms : length (diff_inputs terms) = length terms.
Proof.
  unfold diff_inputs. rewrite app_length.
  assert (G : forall (n : nat) (t : list bytes), length t <= n ->
                length (odds t) + length (evens t) = length t).
  { induction n as [|n IH]; intros t Hl; [destruct t; [reflexivity|cbn in Hl; lia]|].
    destruct t as [|a t]; [reflexivity|].
    change (evens (a :: t)) with (a :: odds t). change (odds (a :: t)) with (evens t).
    cbn [length]. rewrite <- (IH t) by (cbn in Hl; lia). lia. }
  now apply (G (length terms)).
Qed.

(** * Choosing the slice of a value *)
Fixpoint idx (v : bytes) (l : list bytes) : nat :=
  match l with [] => 0 | x :: t => if bytes_eqb x v then 0 else S (idx v t) end.

Lemma idx_spec v l : In v l -> idx v l < length l /\ nth (idx v l) l [] = v.
Proof.
  induction l as [|x t IH]; intros H; [destruct H|]. cbn [idx].
  destruct (bytes_eqb x v) eqn:E.
  - apply bytes_eqb_spec in E. subst. cbn. split; [lia|reflexivity].
  - destruct H as [->|H]; [rewrite (proj2 (bytes_eqb_spec v v) eq_refl) in E; discriminate|].
    destruct (IH H) as (A & B). cbn [length nth]. split; [lia|exact B].
Qed.

(** If equal inputs have equal slices, the slices are the image of the inputs under a function. *)
Lemma slices_are_image (ins cs : list bytes) :
  length cs = length ins ->
  (forall i j, i < length ins -> j < length ins -> nth i ins [] = nth j ins [] ->
               nth i cs [] = nth j cs []) ->
  cs = map (fun v => nth (idx v ins) cs []) ins.
Proof.
  intros L E. apply (nth_ext _ _ [] []); [now rewrite map_length|].
  intros p Hp0. assert (Hp : p < length ins) by (unfold bytes in *; lia).
  symmetry. etransitivity;
    [apply (nth_map_default (fun v : bytes => nth (idx v ins) cs []) ins p [] [] Hp)|].
  assert (Hin : In (nth p ins []) ins) by now apply nth_In.
  destruct (idx_spec _ _ Hin) as (A & B). apply E; auto.
Qed.

(** * Collecting streams of resolved hunks *)
Lemma collect_merged_resolved (f : hunk -> bytes) hs : forall acc,
  fold_left merged_step (map (fun h => [f h]) hs) [acc] = [acc ++ concat (map f hs)].
Proof.
  induction hs as [|h t IH]; intros acc; cbn [map fold_left concat].
  - now rewrite app_nil_r.
  - cbn [merged_step map]. rewrite IH. now rewrite app_assoc.
Qed.

Lemma collect_resolved_resolved (f : hunk -> bytes) hs :
  collect_resolved (map (fun h => [f h]) hs) = Some (concat (map f hs)).
Proof. induction hs as [|h t IH]; cbn [map collect_resolved concat]; [reflexivity|]. now rewrite IH. Qed.

Lemma collect_hunks_go_resolved (f : hunk -> bytes) hs : forall buf,
  collect_hunks_go (map (fun h => [f h]) hs) buf [] = (buf ++ concat (map f hs), []).
Proof.
  induction hs as [|h t IH]; intros buf; cbn [map collect_hunks_go concat].
  - now rewrite app_nil_r.
  - rewrite IH. now rewrite app_assoc.
Qed.

Lemma merge_hunk_by_word_resolved M accept (f : hunk -> bytes) hs :
  map (merge_hunk_by_word M accept) (map (fun h => [f h]) hs) = map (fun h => [f h]) hs.
Proof. induction hs as [|h t IH]; cbn [map]; [reflexivity|]. now rewrite IH. Qed.

Lemma steps_exact_line : Forall (fun tc : tokenizer * comparator => snd tc = CmpExact) line_steps.
Proof. repeat constructor. Qed.

Section Laws.
  Variable M : list bytes -> list bytes -> list (nat * nat).
  Hypothesis M_valid : forall a b, valid_matching (length a) (length b) (M a b).
  Hypothesis M_eq : forall a b, eq_matching a b (M a b).
  Hypothesis M_self : forall a, M a a = identity_matching (length a).

  (** Every hunk of the diff of the terms resolves to the slice of [X]. *)
  Lemma stream_resolved accept terms X :
    Nat.odd (length terms) = true -> In X terms ->
    resolves_under_maps bytes_eqb accept terms X ->
    exists pX, pX < length (diff_inputs terms) /\ nth pX (diff_inputs terms) [] = X
      /\ resolve_diff_hunks M accept line_steps terms
         = map (fun h => [nth pX (contents (diff_inputs terms) (snd h)) []])
               (hunks (run_steps M line_steps (diff_inputs terms))).
  Proof.
    intros Ho HX Hr. set (ins := diff_inputs terms).
    assert (HXi : In X ins) by (apply (proj1 (in_diff_inputs X terms)); exact HX).
    destruct (idx_spec X ins HXi) as (Hp & HpX). exists (idx X ins). split; [assumption|]. split; [assumption|].
    assert (Hne : ins <> []) by (intros E; rewrite E in HXi; destruct HXi).
    unfold resolve_diff_hunks. fold ins. apply map_ext_in. intros h Hh.
    destruct (hunks_equal_slices M M_valid M_self line_steps ins Hne h Hh) as (Lh & Eh).
    set (cs := contents ins (snd h)) in *.
    assert (Lcs : length cs = length ins).
    { unfold cs, contents. rewrite map2_length. unfold bytes in *. lia. }
    unfold resolve_hunk. fold cs. destruct (fst h) eqn:K.
    - (* Matching: all slices are equal *)
      f_equal.
      assert (Hs : line_steps <> []) by discriminate.
      pose proof (matching_eq_thm M M_valid M_eq CmpExact line_steps ins Hne Hs steps_exact_line h Hh K) as ME.
      fold cs in ME. cbn [norm] in ME.
      assert (L0 : 0 < length cs) by (rewrite Lcs; lia).
      destruct cs as [|c0 ct] eqn:Ecs; [cbn in L0; lia|]. cbn [hd].
      apply ME; [now left|]. rewrite <- Ecs. apply nth_In. rewrite Ecs, Lcs. exact Hp.
    - (* Different: the hunk's merge is the image of the terms *)
      pose proof (slices_are_image ins cs Lcs Eh) as Img.
      set (g := fun v : bytes => nth (idx v ins) cs []) in *.
      assert (Hm : from_removes_adds (firstn (length (odds terms)) cs) (skipn (length (odds terms)) cs)
                   = map g terms).
      { rewrite Img. unfold ins, diff_inputs. rewrite map_app.
        rewrite firstn_app, firstn_all2, skipn_app, skipn_all2 by (rewrite map_length; lia).
        rewrite map_length, Nat.sub_diag. cbn [firstn skipn]. rewrite app_nil_r. cbn [app].
        rewrite from_removes_adds_map. now rewrite from_removes_adds_terms. }
      rewrite Hm, (Hr g). reflexivity.
  Qed.

  Theorem merge_resolves accept word terms X :
    Nat.odd (length terms) = true -> In X terms ->
    resolves_under_maps bytes_eqb accept terms X ->
    merge M accept word terms = [X]
    /\ merge_hunks M accept word terms = Resolved X
    /\ try_merge M accept word terms = Some X.
  Proof.
    intros Ho HX Hr. destruct (stream_resolved accept terms X Ho HX Hr) as (pX & Hp & HpX & St).
    set (ins := diff_inputs terms) in *.
    set (f := fun h : hunk => nth pX (contents ins (snd h)) []) in *.
    set (hs := hunks (run_steps M line_steps ins)) in *.
    assert (Hne : ins <> []) by (intros E; rewrite E in Hp; cbn in Hp; lia).
    assert (Cat : concat (map f hs) = X).
    { destruct (partition_thm M M_valid line_steps ins Hne) as (A & B); [discriminate|].
      rewrite <- HpX. rewrite <- (B pX Hp). symmetry. now apply side_concat_contents. }
    assert (Stream : merge_stream M accept word terms = map (fun h => [f h]) hs).
    { unfold merge_stream. rewrite St. destruct word; [apply merge_hunk_by_word_resolved|reflexivity]. }
    unfold merge, merge_hunks, try_merge. rewrite Stream. repeat split.
    - unfold collect_merged. now rewrite collect_merged_resolved, Cat.
    - unfold collect_hunks. now rewrite collect_hunks_go_resolved, Cat.
    - now rewrite collect_resolved_resolved, Cat.
  Qed.

  (** C04_cancel_law *)
  Theorem cancel_law accept word terms X :
    Nat.odd (length terms) = true ->
    (forall v, den bytes_eqb terms v = if bytes_eqb X v then 1%Z else 0%Z) ->
    merge M accept word terms = [X]
    /\ merge_hunks M accept word terms = Resolved X
    /\ try_merge M accept word terms = Some X.
  Proof.
    intros Ho Hd. apply merge_resolves; auto.
    - apply (den_in_nonzero bytes_eqb bytes_eqb_spec). rewrite Hd.
      now rewrite (proj2 (bytes_eqb_spec X X) eq_refl).
    - apply (rum_delta bytes_eqb bytes_eqb_spec); auto.
  Qed.

  (** C04_same_sides *)
  Theorem same_sides_law word terms S Bv :
    Nat.odd (length terms) = true ->
    Forall (fun a => a = S) (evens terms) -> Forall (fun r => r = Bv) (odds terms) ->
    merge M true word terms = [S]
    /\ merge_hunks M true word terms = Resolved S
    /\ try_merge M true word terms = Some S.
  Proof.
    intros Ho HS HB. apply merge_resolves; auto.
    - destruct terms as [|a t]; [discriminate|]. change (evens (a :: t)) with (a :: odds t) in HS.
      inversion HS; subst. now left.
    - apply (rum_same_sides bytes_eqb bytes_eqb_spec terms S Bv); auto. now split.
  Qed.
End Laws.

(** * Meaning of the law part of the checker [C04.laws_okb] *)
Definition Delta (terms : list bytes) (x : bytes) : Prop :=
  forall v, den bytes_eqb terms v = if bytes_eqb x v then 1%Z else 0%Z.

Lemma bytes_eqb_sym a b : bytes_eqb a b = bytes_eqb b a.
Proof.
  destruct (bytes_eqb a b) eqn:E1, (bytes_eqb b a) eqn:E2; try reflexivity.
  - apply bytes_eqb_spec in E1. subst. now rewrite (proj2 (bytes_eqb_spec b b) eq_refl) in E2.
  - apply bytes_eqb_spec in E2. subst. now rewrite (proj2 (bytes_eqb_spec a a) eq_refl) in E1.
Qed.

Lemma is_delta_spec terms x : is_delta terms x = true /\ In x terms <-> Delta terms x.
Proof.
  unfold is_delta, Delta. rewrite forallb_forall. split.
  - intros (H & Hx) v. destruct (in_dec (C02.eq_dec bytes_eqb bytes_eqb_spec) v terms) as [I|I].
    + specialize (H v I). apply Z.eqb_eq in H. now rewrite bytes_eqb_sym.
    + rewrite (C02.den_notin bytes_eqb bytes_eqb_spec) by assumption.
      destruct (bytes_eqb x v) eqn:E; [|reflexivity]. apply bytes_eqb_spec in E. subst. contradiction.
  - intros H. split.
    + intros v _. apply Z.eqb_eq. now rewrite bytes_eqb_sym.
    + apply (den_in_nonzero bytes_eqb bytes_eqb_spec). rewrite H.
      now rewrite (proj2 (bytes_eqb_spec x x) eq_refl).
Qed.

Lemma Delta_unique terms x y : Delta terms x -> Delta terms y -> x = y.
Proof.
  intros Hx Hy. specialize (Hx x). specialize (Hy x).
  rewrite (proj2 (bytes_eqb_spec x x) eq_refl) in Hx. rewrite Hx in Hy.
  destruct (bytes_eqb y x) eqn:E; [|discriminate]. apply bytes_eqb_spec in E. congruence.
Qed.

Lemma surviving_side_spec terms x : surviving_side terms = Some x <-> Delta terms x.
Proof.
  unfold surviving_side. split.
  - intros H. apply find_some in H. apply is_delta_spec. tauto.
  - intros H. pose proof (proj2 (is_delta_spec terms x) H) as (D & I).
    destruct (find (is_delta terms) terms) as [y|] eqn:F.
    + apply find_some in F. f_equal. apply (Delta_unique terms); [apply is_delta_spec; tauto|assumption].
    + exfalso. pose proof (find_none _ _ F x I). congruence.
Qed.

Lemma forallb_eqb_spec s l : forallb (bytes_eqb s) l = true <-> Forall (fun a => a = s) l.
Proof.
  rewrite forallb_forall, Forall_forall. split; intros H a Ha; specialize (H a Ha).
  - apply bytes_eqb_spec in H. congruence.
  - apply bytes_eqb_spec. congruence.
Qed.

Lemma same_sides_spec terms s :
  same_sides terms = Some s <->
  exists rest, terms = s :: rest /\ Forall (fun a => a = s) (evens terms)
               /\ Forall (fun r => r = hd s rest) (odds terms).
Proof.
  unfold same_sides. destruct terms as [|a rest].
  - split; [discriminate|intros (r & E & _); discriminate].
  - destruct (forallb (bytes_eqb a) (evens (a :: rest)) && forallb (bytes_eqb (hd a rest)) (odds (a :: rest))) eqn:E.
    + apply Bool.andb_true_iff in E. rewrite !forallb_eqb_spec in E. split.
      * intros H. injection H as <-. exists rest. tauto.
      * intros (r & Er & _). congruence.
    + split; [discriminate|]. intros (r & Er & H1 & H2). injection Er as <- <-.
      rewrite <- !forallb_eqb_spec in *. rewrite H1, H2 in E. discriminate.
Qed.

Lemma terms_eqb_spec (a b : list bytes) : terms_eqb a b = true <-> a = b.
Proof.
  unfold terms_eqb. revert b; induction a as [|x a IH]; intros [|y b]; cbn; try (split; congruence).
  rewrite Bool.andb_true_iff, bytes_eqb_spec, IH. split; [intros (-> & ->); reflexivity|intros E; injection E; auto].
Qed.

(** The checker accepts [r] iff [r] is what the two laws demand. *)
Lemma laws_okb_spec terms accept r :
  laws_okb terms accept r = true <->
  (forall x, Delta terms x -> r = [x])
  /\ (accept = true ->
      forall s rest, terms = s :: rest -> Forall (fun a => a = s) (evens terms) ->
                     Forall (fun b => b = hd s rest) (odds terms) -> r = [s]).
Proof.
  unfold laws_okb. rewrite Bool.andb_true_iff. split.
  - intros (A & B). split.
    + intros x Hx. apply surviving_side_spec in Hx. rewrite Hx in A. now apply terms_eqb_spec.
    + intros -> s rest E H1 H2.
      assert (Q : same_sides terms = Some s) by (apply same_sides_spec; eauto).
      rewrite Q in B. cbn in B. now apply terms_eqb_spec.
  - intros (A & B). split.
    + destruct (surviving_side terms) as [x|] eqn:E; [|reflexivity].
      apply terms_eqb_spec. apply A. now apply surviving_side_spec.
    + destruct (same_sides terms) as [s|] eqn:E; [|reflexivity].
      destruct accept; [|reflexivity]. cbn. apply terms_eqb_spec.
      apply same_sides_spec in E. destruct E as (rest & E & H1 & H2). eapply B; eauto.
Qed.

(** The model passes the law part of the checker. *)
Lemma model_laws_ok M :
  (forall a b, valid_matching (length a) (length b) (M a b)) ->
  (forall a b, eq_matching a b (M a b)) ->
  (forall a, M a a = identity_matching (length a)) ->
  forall accept word terms, Nat.odd (length terms) = true ->
  laws_okb terms accept (merge M accept word terms) = true.
Proof.
  intros V E S accept word terms Ho. apply laws_okb_spec. split.
  - intros x Hx. now apply (cancel_law M V E S accept word terms x Ho Hx).
  - intros -> s rest Et H1 H2. now apply (same_sides_law M V E S word terms s (hd s rest) Ho H1 H2).
Qed.

(** * Shape of the results *)
Definition allres (st : list (list bytes)) : bool := forallb is_resolved st.

Lemma is_resolved_iff (h : list bytes) : is_resolved h = true <-> length h = 1.
Proof. destruct h as [|a [|b t]]; cbn; split; intros; try discriminate; reflexivity || lia. Qed.

Lemma collect_resolved_spec st :
  collect_resolved st = if allres st then Some (concat (map (hd []) st)) else None.
Proof.
  induction st as [|h t IH]; [reflexivity|]. cbn [collect_resolved allres forallb map concat].
  destruct h as [|a [|b r]]; cbn [is_resolved andb hd]; try reflexivity.
  fold (allres t). rewrite IH. now destruct (allres t).
Qed.

Lemma collect_hunks_go_allres st : forall buf acc,
  allres st = true -> collect_hunks_go st buf acc = (buf ++ concat (map (hd []) st), acc).
Proof.
  induction st as [|h t IH]; intros buf acc H; cbn [collect_hunks_go map concat].
  - now rewrite app_nil_r.
  - cbn [allres forallb] in H. apply Bool.andb_true_iff in H. destruct H as (H1 & H2).
    destruct h as [|a [|b r]]; try discriminate H1. cbn [hd]. rewrite IH by exact H2. now rewrite app_assoc.
Qed.

Lemma collect_hunks_go_acc st : forall buf acc,
  allres st = false -> snd (collect_hunks_go st buf acc) <> [].
Proof.
  induction st as [|h t IH]; intros buf acc H; [discriminate|].
  cbn [allres forallb] in H. cbn [collect_hunks_go].
  assert (Mono : forall st b a, a <> [] -> snd (collect_hunks_go st b a) <> []).
  { clear. induction st as [|h t IH]; intros b a Ha; cbn [collect_hunks_go]; [exact Ha|].
    destruct h as [|x [|y r]]; apply IH; try assumption; destruct (is_nil b); destruct a; cbn; discriminate. }
  destruct h as [|a [|b r]].
  - apply Mono. destruct (is_nil buf); destruct acc; cbn; discriminate.
  - cbn [is_resolved andb] in H. now apply IH.
  - apply Mono. destruct (is_nil buf); destruct acc; cbn; discriminate.
Qed.

Lemma collect_hunks_spec st :
  match collect_hunks st with
  | Resolved c => allres st = true /\ c = concat (map (hd []) st)
  | Conflict _ => allres st = false
  end.
Proof.
  unfold collect_hunks. destruct (allres st) eqn:E.
  - rewrite collect_hunks_go_allres by assumption. cbn [app]. split; reflexivity.
  - pose proof (collect_hunks_go_acc st [] [] E) as H.
    destruct (collect_hunks_go st [] []) as [buf acc]. cbn [snd] in H.
    destruct acc; [congruence|reflexivity].
Qed.

Lemma merged_step_length_eq st h :
  length (merged_step st h) =
  match h with
  | [_] => length st
  | _ => Nat.min (match st with [_] => length h | _ => length st end) (length h)
  end.
Proof.
  unfold merged_step. destruct h as [|a [|b r]].
  - rewrite map2_length. destruct st as [|x [|y z]]; cbn [length repeat]; reflexivity.
  - apply map_length.
  - rewrite map2_length. destruct st as [|x [|y z]]; try reflexivity. now rewrite repeat_length.
Qed.

Lemma merged_step_length n st h :
  (length h = 1 \/ length h = n) -> (length st = 1 \/ length st = n) ->
  (length (merged_step st h) = 1 \/ length (merged_step st h) = n)
  /\ (length (merged_step st h) = 1 <-> (length st = 1 /\ length h = 1) \/ n = 1).
Proof.
  intros Hh Hs. rewrite merged_step_length_eq.
  destruct h as [|a [|b r]]; destruct st as [|x [|y z]]; cbn [length] in *; lia.
Qed.

Lemma collect_merged_length n st : 1 <= n ->
  Forall (fun h => length h = 1 \/ length h = n) st ->
  forall state, (length state = 1 \/ length state = n) ->
  let r := fold_left merged_step st state in
  (length r = 1 \/ length r = n)
  /\ (length r = 1 <-> (length state = 1 /\ allres st = true) \/ n = 1).
Proof.
  intros Hn. induction 1 as [|h t Hh Ht IH]; intros state Hs; cbn [fold_left allres forallb]; cbv zeta.
  - split; [assumption|]. split; [intros H; left; auto|]. intros [(A & _)|A]; [assumption|]. subst n. destruct Hs; assumption.
  - destruct (merged_step_length n state h Hh Hs) as (A & B).
    destruct (IH (merged_step state h) A) as (C & D). cbv zeta in C, D. split; [assumption|].
    rewrite D, B. fold (allres t). rewrite Bool.andb_true_iff, is_resolved_iff. tauto.
Qed.

Lemma trivial_merge_in accept (l : list bytes) v :
  Nat.odd (length l) = true -> trivial_merge bytes_eqb accept l = Some v -> In v l.
Proof.
  intros Ho H. apply (trivial_merge_spec bytes_eqb bytes_eqb_spec) in H; [|assumption].
  destruct H as (H & _). apply (den_in_nonzero bytes_eqb bytes_eqb_spec). unfold den in *. lia.
Qed.

Lemma from_removes_adds_length {A} (r a : list A) :
  length a = S (length r) -> length (from_removes_adds r a) = length r + length a.
Proof.
  destruct a as [|a0 a]; [discriminate|]. cbn [from_removes_adds length]. intros H. injection H as H.
  f_equal. revert a H. induction r as [|x r IH]; intros [|y a] H; cbn in *; try discriminate; [reflexivity|].
  rewrite IH by lia. lia.
Qed.

Lemma from_removes_adds_in {A} (r a : list A) x :
  In x (from_removes_adds r a) -> In x r \/ In x a.
Proof.
  destruct a as [|a0 a]; [intros []|]. cbn [from_removes_adds]. intros [->|H]; [right; now left|].
  revert a H. induction r as [|y r IH]; intros [|z a] H; cbn in H; try destruct H.
  - subst. left; now left.
  - destruct H as [->|H]; [right; right; now left|]. destruct (IH a H) as [Q|[Q|Q]].
    + left; now right.
    + right; now left.
    + right; right; now right.
Qed.

Section Shape.
  Variable M : list bytes -> list bytes -> list (nat * nat).
  Hypothesis M_valid : forall a b, valid_matching (length a) (length b) (M a b).

  (** Every hunk of the stream is one slice of one input, chosen by [trivial_merge], or the
      full vector of slices in term order. *)
  Lemma resolve_hunk_shape accept terms h :
    Nat.odd (length terms) = true ->
    In h (hunks (run_steps M line_steps (diff_inputs terms))) ->
    let ins := diff_inputs terms in
    let cs := contents ins (snd h) in
    let r := resolve_hunk accept (length (odds terms)) ins h in
    (exists c, r = [c] /\ In c cs)
    \/ (r = from_removes_adds (firstn (length (odds terms)) cs) (skipn (length (odds terms)) cs)
        /\ length r = length terms /\ 1 < length terms).
  Proof.
    intros Ho Hh ins cs r.
    assert (Hne : ins <> []).
    { unfold ins. intros E. pose proof (diff_inputs_length terms) as L. rewrite E in L. cbn in L.
      destruct terms; [discriminate Ho|discriminate L]. }
    destruct (partition_thm M M_valid line_steps ins Hne) as (PL & _); [discriminate|].
    assert (Lcs : length cs = length terms).
    { unfold cs, contents. rewrite map2_length, (PL h Hh). unfold ins. rewrite !diff_inputs_length. apply Nat.min_id. }
    pose proof (evens_odds_length terms Ho) as EO.
    assert (Lt : length terms = length (odds terms) + length (evens terms)).
    { rewrite <- (diff_inputs_length terms). unfold diff_inputs. now rewrite app_length. }
    unfold r, resolve_hunk. fold cs. destruct (fst h).
    - left. exists (hd [] cs). split; [reflexivity|]. destruct cs; [cbn in Lcs; lia|now left].
    - set (k := length (odds terms)) in *.
      assert (Lf : length (firstn k cs) = k) by (rewrite firstn_length; lia).
      assert (Ls : length (skipn k cs) = S k) by (rewrite skipn_length; lia).
      assert (Lm : length (from_removes_adds (firstn k cs) (skipn k cs)) = length terms).
      { rewrite from_removes_adds_length by lia. lia. }
      destruct (trivial_merge bytes_eqb accept _) as [c|] eqn:E.
      + left. exists c. split; [reflexivity|].
        apply trivial_merge_in in E; [|now rewrite Lm].
        apply from_removes_adds_in in E. rewrite <- (firstn_skipn k cs).
        apply in_or_app. tauto.
      + right. split; [reflexivity|]. split; [assumption|].
        destruct (Nat.eq_dec (length terms) 1) as [E1|]; [|lia]. exfalso.
        assert (k = 0) by lia.
        destruct (from_removes_adds (firstn k cs) (skipn k cs)) as [|a [|b t]] eqn:Q; cbn in Lm; try lia.
        cbn in E. discriminate.
  Qed.

  Lemma stream_lengths accept word terms :
    Nat.odd (length terms) = true ->
    Forall (fun h => length h = 1 \/ length h = length terms) (merge_stream M accept word terms).
  Proof.
    intros Ho.
    assert (Line : Forall (fun h => length h = 1 \/ length h = length terms)
                          (resolve_diff_hunks M accept line_steps terms)).
    { unfold resolve_diff_hunks. apply Forall_map. apply Forall_forall. intros h Hh.
      destruct (resolve_hunk_shape accept terms h Ho Hh) as [(c & -> & _)|(_ & L & _)]; [now left|now right]. }
    unfold merge_stream. destruct word; [|exact Line].
    apply Forall_map. eapply Forall_impl; [|exact Line]. intros m Hm. unfold merge_hunk_by_word.
    destruct (is_resolved m); [assumption|]. destruct (collect_resolved _); [now left|assumption].
  Qed.

  (** C04_shape *)
  Theorem shape_thm accept word terms :
    Nat.odd (length terms) = true ->
    let r := merge M accept word terms in
    (length r = 1 \/ length r = length terms)
    /\ (forall c, try_merge M accept word terms = Some c <-> merge_hunks M accept word terms = Resolved c)
    /\ (forall c, try_merge M accept word terms = Some c -> r = [c])
    /\ (1 < length terms -> (length r = 1 <-> exists c, try_merge M accept word terms = Some c)).
  Proof.
    intros Ho. cbv zeta. unfold merge, merge_hunks, try_merge.
    set (st := merge_stream M accept word terms).
    pose proof (stream_lengths accept word terms Ho) as SL. fold st in SL.
    assert (Hn : 1 <= length terms) by (destruct terms; [discriminate Ho|cbn; lia]).
    destruct (collect_merged_length (length terms) st Hn SL [[]]) as (A & B); [now left|]. cbv zeta in A, B.
    fold (collect_merged st) in A, B. pose proof (collect_hunks_spec st) as CH.
    rewrite collect_resolved_spec. repeat split.
    - exact A.
    - intros H. destruct (allres st) eqn:E; [|discriminate]. injection H as <-.
      destruct (collect_hunks st) as [c'|hs]; [destruct CH as (_ & ->); reflexivity|congruence].
    - intros H. rewrite H in CH. destruct CH as (-> & ->). reflexivity.
    - intros c H. destruct (allres st) eqn:E; [|discriminate]. injection H as <-.
      assert (Q : forall acc, fold_left merged_step st [acc] = [acc ++ concat (map (hd []) st)]).
      { clear - E. induction st as [|h t IH]; intros acc; cbn [fold_left map concat]; [now rewrite app_nil_r|].
        cbn [allres forallb] in E. apply Bool.andb_true_iff in E. destruct E as (E1 & E2).
        destruct h as [|a [|b r]]; try discriminate E1. cbn [merged_step map hd]. rewrite IH by exact E2.
        now rewrite app_assoc. }
      unfold collect_merged. now rewrite Q.
    - intros H1. destruct (proj1 B H1) as [(_ & H')|H']; [|lia]. rewrite H'. eauto.
    - intros (c & H1). apply (proj2 B). left. split; [reflexivity|]. destruct (allres st); [reflexivity|discriminate].
  Qed.
End Shape.

(** * The hunks of [merge_hunks] against the terms of [merge] *)
Lemma nth_repeat_lt {A} (a d : A) : forall n t, t < n -> nth t (repeat a n) d = a.
Proof. induction n as [|n IH]; intros t H; [lia|]. destruct t as [|t]; cbn; [reflexivity|]. apply IH. lia. Qed.

Definition hunk_okP (n : nat) (h : list bytes) : Prop :=
  match h with [c] => True | _ => length h = n /\ 1 < n end.

Lemma hunk_term_merged_step n t state h :
  t < n -> hunk_okP n state -> hunk_okP n h ->
  hunk_okP n (merged_step state h)
  /\ hunk_term t (merged_step state h) = hunk_term t state ++ hunk_term t h.
Proof.
  intros Ht Hs Hh. unfold merged_step. unfold bytes in *.
  destruct h as [|c [|c2 hr]].
  - cbn in Hh. lia.
  - (* resolved hunk *)
    destruct state as [|b [|b2 sr]]; cbn [map hunk_term hunk_okP] in *.
    + cbn in Hs. lia.
    + split; [exact I|reflexivity].
    + destruct Hs as (Ls & Hn). split.
      * split; [|assumption]. cbn [length] in *. now rewrite map_length.
      * change ((b ++ c) :: (b2 ++ c) :: map (fun buf : bytes => buf ++ c) sr)
          with (map (fun buf : bytes => buf ++ c) (b :: b2 :: sr)).
        apply (nth_map_default (fun buf : bytes => buf ++ c) (b :: b2 :: sr) t [] []). lia.
  - destruct Hh as (Lh & Hn). unfold bytes in *. set (h := c :: c2 :: hr) in *.
    assert (Q : forall st', length st' = n -> hunk_okP n (map2 (@app N) st' h)
                /\ hunk_term t (map2 (@app N) st' h) = nth t st' [] ++ nth t h []).
    { intros st' L. assert (Lm : length (map2 (@app N) st' h) = n) by (rewrite map2_length; lia).
      split.
      - destruct (map2 (@app N) st' h) as [|x [|y z]]; cbn [length] in Lm; try lia. split; [assumption|lia].
      - assert (E : hunk_term t (map2 (@app N) st' h) = nth t (map2 (@app N) st' h) []).
        { destruct (map2 (@app N) st' h) as [|x [|y z]]; cbn [length] in Lm; try lia. reflexivity. }
        rewrite E. apply (map2_nth (@app N) st' h t [] [] []); lia. }
    destruct state as [|b [|b2 sr]].
    + cbn in Hs. lia.
    + destruct (Q (repeat b (length h))) as (A & B); [rewrite repeat_length; exact Lh|].
      split; [exact A|]. rewrite B. cbn [hunk_term]. f_equal. apply nth_repeat_lt. lia.
    + destruct Hs as (Ls & _). destruct (Q (b :: b2 :: sr) Ls) as (A & B). split; [exact A|]. rewrite B. reflexivity.
Qed.

Lemma collect_merged_terms n t st : t < n -> Forall (hunk_okP n) st ->
  forall state, hunk_okP n state ->
  hunk_okP n (fold_left merged_step st state)
  /\ hunk_term t (fold_left merged_step st state) = hunk_term t state ++ concat (map (hunk_term t) st).
Proof.
  intros Ht. induction 1 as [|h rest Hh Hr IH]; intros state Hs; cbn [fold_left map concat].
  - split; [assumption|now rewrite app_nil_r].
  - destruct (hunk_term_merged_step n t state h Ht Hs Hh) as (A & B).
    destruct (IH _ A) as (C & D). split; [assumption|]. now rewrite D, B, app_assoc.
Qed.

(** [collect_hunks]: resolved texts are non-empty and never adjacent; term-wise the hunks
    concatenate to what [collect_merged] returns. *)
Definition chunk_ok (n : nat) (h : list bytes) : Prop :=
  match h with [c] => c <> [] | _ => length h = n /\ 1 < n end.
Definition ends_unresolved (acc : list (list bytes)) : Prop :=
  acc = [] \/ is_resolved (last acc []) = false.

Lemma no_adjacent_snoc acc x :
  no_adjacent_resolved acc = true -> (ends_unresolved acc \/ is_resolved x = false) ->
  no_adjacent_resolved (acc ++ [x]) = true.
Proof.
  induction acc as [|a acc IH]; intros H E; [reflexivity|].
  destruct acc as [|b acc'].
  - cbn [app no_adjacent_resolved]. rewrite Bool.andb_true_r. apply Bool.negb_true_iff.
    destruct E as [[E|E]|E]; [discriminate|cbn in E; now rewrite E|rewrite E; apply Bool.andb_false_r].
  - cbn [app] in *. change (no_adjacent_resolved (a :: b :: acc' ++ [x]))
      with (negb (is_resolved a && is_resolved b) && no_adjacent_resolved (b :: acc' ++ [x])).
    change (no_adjacent_resolved (a :: b :: acc')) with
        (negb (is_resolved a && is_resolved b) && no_adjacent_resolved (b :: acc')) in H.
    apply Bool.andb_true_iff in H. destruct H as (H1 & H2). rewrite H1. cbn [andb].
    apply IH; [assumption|]. destruct E as [[E|E]|E]; [discriminate| |right; assumption].
    left. right. rewrite last_cons_last in E. rewrite last_cons_last.
    change (last (b :: acc') a) with (last (b :: acc') a) in E. now rewrite last_cons_last in E.
Qed.

Lemma collect_hunks_go_spec n t st : Forall (hunk_okP n) st -> forall buf acc,
  Forall (chunk_ok n) acc -> no_adjacent_resolved acc = true -> ends_unresolved acc ->
  let '(buf', acc') := collect_hunks_go st buf acc in
  let hs := if is_nil buf' then acc' else acc' ++ [[buf']] in
  Forall (chunk_ok n) hs /\ no_adjacent_resolved hs = true
  /\ concat (map (hunk_term t) hs)
     = concat (map (hunk_term t) acc) ++ buf ++ concat (map (hunk_term t) st).
Proof.
  induction 1 as [|h rest Hh Hr IH]; intros buf acc Ha Hn He; cbn [collect_hunks_go map concat].
  - rewrite app_nil_r. destruct buf as [|b0 bt] eqn:Eb; cbn [is_nil].
    + repeat split; auto. now rewrite app_nil_r.
    + repeat split.
      * apply Forall_app. split; [assumption|]. constructor; [cbn; discriminate|constructor].
      * apply no_adjacent_snoc; auto.
      * rewrite map_app, concat_app. cbn [map concat hunk_term]. now rewrite app_nil_r.
  - destruct h as [|c [|c2 hr]].
    + cbn in Hh. lia.
    + (* resolved *) specialize (IH (buf ++ c) acc Ha Hn He).
      destruct (collect_hunks_go rest (buf ++ c) acc) as [buf' acc']. cbv zeta in *.
      destruct IH as (A & B & C). repeat split; auto. rewrite C. cbn [hunk_term]. now rewrite <- !app_assoc.
    + (* unresolved: flush the buffer *)
      set (h := c :: c2 :: hr) in *.
      set (acc1 := (if is_nil buf then acc else acc ++ [[buf]]) ++ [h]).
      assert (A1 : Forall (chunk_ok n) acc1).
      { unfold acc1. apply Forall_app. split; [|constructor; [exact Hh|constructor]].
        destruct buf; cbn [is_nil]; [assumption|]. apply Forall_app. split; [assumption|].
        constructor; [cbn; discriminate|constructor]. }
      assert (N1 : no_adjacent_resolved acc1 = true).
      { unfold acc1. apply no_adjacent_snoc; [|right; reflexivity].
        destruct buf; cbn [is_nil]; [assumption|]. apply no_adjacent_snoc; auto. }
      assert (E1 : ends_unresolved acc1).
      { right. unfold acc1. rewrite last_last. reflexivity. }
      specialize (IH [] acc1 A1 N1 E1).
      destruct (collect_hunks_go rest [] acc1) as [buf' acc']. cbv zeta in *.
      destruct IH as (A & B & C). repeat split; auto. rewrite C. unfold acc1.
      rewrite map_app, concat_app. cbn [map concat app]. rewrite app_nil_r.
      destruct buf as [|b0 bt]; cbn [is_nil].
      * cbn [app]. now rewrite <- !app_assoc.
      * rewrite map_app, concat_app. cbn [map concat hunk_term]. rewrite app_nil_r. now rewrite <- !app_assoc.
Qed.

Section Shape2.
  Variable M : list bytes -> list bytes -> list (nat * nat).
  Hypothesis M_valid : forall a b, valid_matching (length a) (length b) (M a b).

  Theorem conflict_shape accept word terms hs :
    Nat.odd (length terms) = true ->
    merge_hunks M accept word terms = Conflict hs ->
    Forall (chunk_ok (length terms)) hs
    /\ no_adjacent_resolved hs = true
    /\ forall t, t < length terms ->
         concat (map (hunk_term t) hs) = nth t (merge M accept word terms) [].
  Proof.
    intros Ho Hc. unfold merge_hunks, merge in *. set (st := merge_stream M accept word terms) in *.
    set (n := length terms) in *.
    assert (Hn : 1 <= n) by (unfold n; destruct terms; [discriminate Ho|cbn; lia]).
    assert (SL : Forall (hunk_okP n) st).
    { pose proof (stream_lengths M M_valid accept word terms Ho) as SL. fold st in SL. fold n in SL.
      eapply Forall_impl; [|exact SL]. intros h [H|H]; destruct h as [|a [|b r]]; cbn [hunk_okP length] in *; auto; lia. }
    pose proof (collect_hunks_spec st) as CH. rewrite Hc in CH.
    unfold collect_hunks in Hc.
    assert (Sp : forall t, let '(buf', acc') := collect_hunks_go st [] [] in
                 let hs0 := if is_nil buf' then acc' else acc' ++ [[buf']] in
                 Forall (chunk_ok n) hs0 /\ no_adjacent_resolved hs0 = true
                 /\ concat (map (hunk_term t) hs0) = concat (map (hunk_term t) st)).
    { intros t. pose proof (collect_hunks_go_spec n t st SL [] []) as Q.
      destruct (collect_hunks_go st [] []) as [buf' acc']. apply Q; [constructor|reflexivity|now left]. }
    destruct (collect_hunks_go st [] []) as [buf' acc'] eqn:Eg.
    destruct acc' as [|a0 at0]; [discriminate Hc|]. injection Hc as <-.
    pose proof (Sp 0) as S0. cbv zeta in S0. destruct S0 as (S1 & S2 & _).
    split; [exact S1|]. split; [exact S2|].
    intros t Ht. pose proof (Sp t) as St. cbv zeta in St. destruct St as (_ & _ & St).
    etransitivity; [exact St|].
    destruct (collect_merged_terms n t st Ht SL [[]] I) as (A & B). cbn [hunk_term app] in B.
    fold (collect_merged st) in A, B. rewrite <- B.
    (* the merged result is not a singleton, since some hunk is unresolved *)
    destruct (collect_merged_length n st Hn (stream_lengths M M_valid accept word terms Ho) [[]]) as (_ & D);
      [now left|]. cbv zeta in D. fold (collect_merged st) in D.
    destruct (collect_merged st) as [|x [|y z]] eqn:Em; cbn [hunk_term]; [reflexivity| |reflexivity].
    - exfalso. destruct (proj1 D eq_refl) as [(_ & Q)|Q]; [congruence|].
      (* n = 1: every hunk is a singleton, so all are resolved *)
      assert (allres st = true); [|congruence].
      apply forallb_forall. intros h Hh. rewrite Forall_forall in SL. specialize (SL h Hh).
      destruct h as [|a [|b r]]; cbn [hunk_okP] in SL; try reflexivity; lia.
  Qed.
End Shape2.

(** * Under same-change = keep, identical adds resolve only if all terms are identical *)
Lemma forallb_false_ex {A} (f : A -> bool) l : forallb f l = false -> exists x, In x l /\ f x = false.
Proof.
  induction l as [|x t IH]; [discriminate|]. cbn [forallb]. destruct (f x) eqn:E.
  - cbn. intros H. destruct (IH H) as (y & Hy & Fy). exists y. split; [now right|assumption].
  - intros _. exists x. split; [now left|assumption].
Qed.

Section KeepLaw.
  Variable M : list bytes -> list bytes -> list (nat * nat).
  Hypothesis M_valid : forall a b, valid_matching (length a) (length b) (M a b).
  Hypothesis M_eq : forall a b, eq_matching a b (M a b).
  Hypothesis M_self : forall a, M a a = identity_matching (length a).

  (** The slices of a hunk are the image of the diff inputs under a function, and the hunk's
      merge is the image of the terms. *)
  Lemma hunk_image s terms h :
    Nat.odd (length terms) = true ->
    In h (hunks (run_steps M s (diff_inputs terms))) ->
    let ins := diff_inputs terms in
    let cs := contents ins (snd h) in
    exists g : bytes -> bytes,
      cs = map g ins
      /\ from_removes_adds (firstn (length (odds terms)) cs) (skipn (length (odds terms)) cs) = map g terms.
  Proof.
    intros Ho Hh ins cs.
    assert (Hne : ins <> []).
    { unfold ins. intros E. pose proof (diff_inputs_length terms) as L. rewrite E in L. cbn in L.
      destruct terms; [discriminate Ho|discriminate L]. }
    destruct (hunks_equal_slices M M_valid M_self s ins Hne h Hh) as (Lh & Eh). fold cs in Eh.
    assert (Lcs : length cs = length ins).
    { unfold cs, contents. rewrite map2_length. unfold bytes in *. lia. }
    pose proof (slices_are_image ins cs Lcs Eh) as Img.
    exists (fun v : bytes => nth (idx v ins) cs []). split; [exact Img|].
    set (g := fun v : bytes => nth (idx v ins) cs []) in *.
    rewrite Img. unfold ins, diff_inputs. rewrite map_app.
    rewrite firstn_app, firstn_all2, skipn_app, skipn_all2 by (rewrite map_length; lia).
    rewrite map_length, Nat.sub_diag. cbn [firstn skipn]. rewrite app_nil_r. cbn [app].
    rewrite from_removes_adds_map. now rewrite from_removes_adds_terms.
  Qed.

  Lemma keep_stream_unresolved s terms S :
    s <> [] -> Forall (fun tc : tokenizer * comparator => snd tc = CmpExact) s ->
    Nat.odd (length terms) = true -> 3 <= length terms ->
    Forall (fun a => a = S) (evens terms) -> ~ Forall (fun r => r = S) (odds terms) ->
    exists m, In m (resolve_diff_hunks M false s terms) /\ is_resolved m = false
              /\ length m = length terms
              /\ exists a, Forall (fun x => x = a) (evens m) /\ ~ Forall (fun r => r = a) (odds m).
  Proof.
    intros Hs Hex Ho H3 HS HB. set (ins := diff_inputs terms).
    set (k := length (odds terms)).
    assert (Hne : ins <> []).
    { unfold ins. intros E. pose proof (diff_inputs_length terms) as L. rewrite E in L. cbn in L.
      destruct terms; [discriminate Ho|discriminate L]. }
    destruct (allres (resolve_diff_hunks M false s terms)) eqn:AR.
    - (* every hunk resolved: then every remove equals S *)
      exfalso. apply HB. apply Forall_forall. intros r0 Hr0.
      assert (HSin : In S ins).
      { apply (proj1 (in_diff_inputs S terms)). destruct terms as [|a t]; [discriminate Ho|].
        change (evens (a :: t)) with (a :: odds t) in HS. inversion HS; subst. now left. }
      assert (Hrin : In r0 ins).
      { apply (proj1 (in_diff_inputs r0 terms)). apply (in_evens_odds r0 (length terms) terms); [lia|now left]. }
      destruct (idx_spec S ins HSin) as (HpS & EpS). destruct (idx_spec r0 ins Hrin) as (Hpr & Epr).
      destruct (partition_thm M M_valid s ins Hne Hs) as (PL & PC).
      rewrite <- Epr, <- EpS. rewrite <- (PC _ Hpr), <- (PC _ HpS).
      rewrite !side_concat_contents by assumption. f_equal. apply map_ext_in. intros h Hh.
      set (cs := contents ins (snd h)).
      unfold allres in AR. rewrite forallb_forall in AR.
      specialize (AR (resolve_hunk false k ins h)).
      assert (Hres : is_resolved (resolve_hunk false k ins h) = true).
      { apply AR. unfold resolve_diff_hunks. apply in_map. exact Hh. }
      unfold resolve_hunk in Hres. fold cs in Hres. destruct (fst h) eqn:K.
      + (* Matching: all slices equal *)
        pose proof (matching_eq_thm M M_valid M_eq CmpExact s ins Hne Hs Hex h Hh K) as ME.
        fold cs in ME. cbn [norm] in ME.
        assert (Lcs : length cs = length ins).
        { unfold cs, contents. rewrite map2_length, (PL h Hh). unfold bytes in *. lia. }
        apply ME; apply nth_In; rewrite Lcs; assumption.
      + destruct (hunk_image s terms h Ho Hh) as (g & Img & Hm). fold ins in Img, Hm. fold cs in Img, Hm. fold k in Hm.
        rewrite Hm in Hres.
        destruct (trivial_merge bytes_eqb false (map g terms)) as [c|] eqn:TM.
        * assert (Ho' : Nat.odd (length (map g terms)) = true) by now rewrite map_length.
          assert (He' : Forall (fun x => x = g S) (evens (map g terms))).
          { rewrite map_evens. apply Forall_map. eapply Forall_impl; [|exact HS]. cbn. now intros a ->. }
          pose proof (keep_resolves_all_equal bytes_eqb bytes_eqb_spec _ (g S) c Ho' He' TM) as Hod.
          rewrite map_odds in Hod. rewrite Forall_forall in Hod.
          assert (Q : g r0 = g S) by (apply Hod; now apply in_map).
          rewrite Img, !(nth_map_default g ins _ [] []) by assumption. congruence.
        * (* unresolved hunk of arity >= 3 is not a singleton *)
          exfalso. apply is_resolved_iff in Hres. rewrite map_length in Hres. lia.
    - apply forallb_false_ex in AR. destruct AR as (m & Hm & Hr). exists m. split; [assumption|]. split; [assumption|].
      unfold resolve_diff_hunks in Hm. apply in_map_iff in Hm. destruct Hm as (h & <- & Hh).
      fold ins k in Hr |- *. unfold resolve_hunk in *. set (cs := contents ins (snd h)) in *.
      destruct (fst h); [discriminate Hr|].
      destruct (hunk_image s terms h Ho Hh) as (g & Img & Hmm). fold ins in Img, Hmm. fold cs in Img, Hmm. fold k in Hmm.
      rewrite Hmm in *. destruct (trivial_merge bytes_eqb false (map g terms)) as [c|] eqn:TM; [discriminate Hr|].
      split; [apply map_length|]. exists (g S). split.
      + rewrite map_evens. apply Forall_map. eapply Forall_impl; [|exact HS]. cbn. now intros a ->.
      + intros Hall.
        (* then all terms of the hunk are equal, and it would resolve *)
        assert (He' : Forall (fun x => x = g S) (evens (map g terms))).
        { rewrite map_evens. apply Forall_map. eapply Forall_impl; [|exact HS]. cbn. now intros a ->. }
        assert (Ho' : Nat.odd (length (map g terms)) = true) by now rewrite map_length.
        assert (R : resolves_under_maps bytes_eqb false (map g terms) (g S)).
        { apply (rum_delta bytes_eqb bytes_eqb_spec); [assumption|]. intros v.
          pose proof (den_sides bytes_eqb (map g terms) (g S) (g S) true He' Hall v) as D.
          unfold den. rewrite D. rewrite (evens_odds_length (map g terms) Ho').
          rewrite Nat2Z.inj_succ. unfold Z.succ. ring. }
        specialize (R (fun x => x)). rewrite map_id in R. congruence.
  Qed.

  (** C04_keep_law *)
  Theorem keep_law word terms S :
    Nat.odd (length terms) = true -> 3 <= length terms ->
    Forall (fun a => a = S) (evens terms) -> ~ Forall (fun r => r = S) (odds terms) ->
    try_merge M false word terms = None.
  Proof.
    intros Ho H3 HS HB.
    destruct (keep_stream_unresolved line_steps terms S) as (m & Hm & Hr & Lm & a & Ha & Hb); auto;
      [discriminate|apply steps_exact_line|].
    unfold try_merge, merge_stream. rewrite collect_resolved_spec.
    destruct word.
    - assert (Q : allres (map (merge_hunk_by_word M false) (resolve_diff_hunks M false line_steps terms)) = false).
      { destruct (allres _) eqn:E; [|reflexivity]. exfalso. unfold allres in E. rewrite forallb_forall in E.
        specialize (E (merge_hunk_by_word M false m) (in_map _ _ _ Hm)).
        unfold merge_hunk_by_word in E. rewrite Hr in E.
        destruct (keep_stream_unresolved word_steps m a) as (m2 & Hm2 & Hr2 & _); auto.
        - discriminate.
        - repeat constructor.
        - rewrite Lm. exact Ho.
        - lia.
        - rewrite collect_resolved_spec in E.
          assert (allres (resolve_diff_hunks M false word_steps m) = false).
          { destruct (allres _) eqn:E2; [|reflexivity]. unfold allres in E2. rewrite forallb_forall in E2.
            rewrite (E2 m2 Hm2) in Hr2. discriminate. }
          rewrite H in E. rewrite Hr in E. discriminate. }
      now rewrite Q.
    - assert (Q : allres (resolve_diff_hunks M false line_steps terms) = false).
      { destruct (allres _) eqn:E; [|reflexivity]. unfold allres in E. rewrite forallb_forall in E.
        rewrite (E m Hm) in Hr. discriminate. }
      now rewrite Q.
  Qed.
End KeepLaw.

(** * Meaning of [C04.keep_okb], and the model passes it *)
Lemma keep_okb_spec terms accept r :
  keep_okb terms accept r = true <->
  (accept = false -> 3 <= length terms ->
   forall S, Forall (fun a => a = S) (evens terms) -> ~ Forall (fun b => b = S) (odds terms) ->
             length r <> 1).
Proof.
  unfold keep_okb. destruct terms as [|s [|t1 [|t2 rest]]].
  - split; [cbn; intros; lia|reflexivity].
  - split; [cbn; intros; lia|reflexivity].
  - split; [cbn; intros; lia|reflexivity].
  - set (terms := s :: t1 :: t2 :: rest).
    destruct (negb accept && forallb (bytes_eqb s) (evens terms) && negb (forallb (bytes_eqb s) (odds terms))) eqn:E.
    + apply Bool.andb_true_iff in E. destruct E as (E & E3). apply Bool.andb_true_iff in E. destruct E as (E1 & E2).
      apply Bool.negb_true_iff in E1, E3. apply forallb_eqb_spec in E2.
      rewrite Bool.negb_true_iff, Nat.eqb_neq. split.
      * intros H _ _ S _ _. exact H.
      * intros H. apply (H E1 ltac:(cbn; lia) s E2). intros Q. apply forallb_eqb_spec in Q. congruence.
    + split; [|reflexivity]. intros _ Ha _ S HS HB. exfalso.
      assert (S = s). { unfold terms in HS. change (evens (s :: t1 :: t2 :: rest)) with (s :: evens (t2 :: rest)) in HS. now inversion HS. }
      subst S. rewrite Ha in E. apply (proj2 (forallb_eqb_spec s _)) in HS. rewrite HS in E. cbn [negb andb] in E.
      apply Bool.negb_false_iff in E. apply forallb_eqb_spec in E. contradiction.
Qed.

Lemma model_keep_ok M :
  (forall a b, valid_matching (length a) (length b) (M a b)) ->
  (forall a b, eq_matching a b (M a b)) ->
  (forall a, M a a = identity_matching (length a)) ->
  forall word terms, Nat.odd (length terms) = true ->
  keep_okb terms false (merge M false word terms) = true.
Proof.
  intros V E S word terms Ho. apply keep_okb_spec. intros _ H3 S0 HS HB.
  pose proof (keep_law M V E S word terms S0 Ho H3 HS HB) as K.
  destruct (shape_thm M V false word terms Ho) as (_ & _ & _ & Q). cbv zeta in Q.
  intros L1. apply (proj1 (Q ltac:(lia))) in L1. destruct L1 as (c & Hc). congruence.
Qed.
