(** C11: local bookmarks and working copies follow the rewrites (model level). *)
From Verif Require Import Base.Prelude Base.DagV Model.Merge Model.RepoV Model.C11
  Proofs.C10 Proofs.C11 Proofs.C11Loop Proofs.C11Refs Proofs.C11View.
From Coq Require Import Lia Arith.

(** * Association lists keyed by [N] *)
Section NAssoc.
  Context {V : Type}.
  Lemma naget_aset_same k (v : V) l : aget N.eqb k (aset N.eqb N.ltb k v l) = Some v.
  Proof.
    induction l as [|[k' v'] t IH]; cbn [aset aget]; [now rewrite N.eqb_refl|].
    destruct (N.eqb k k') eqn:E; cbn [aget]; [now rewrite N.eqb_refl|].
    destruct (N.ltb k k'); cbn [aget]; [now rewrite N.eqb_refl|]. now rewrite E.
  Qed.
  Lemma naget_aset_other k k2 (v : V) l : k2 <> k ->
    aget N.eqb k2 (aset N.eqb N.ltb k v l) = aget N.eqb k2 l.
  Proof.
    intros N. induction l as [|[k' v'] t IH]; cbn [aset aget].
    - apply N.eqb_neq in N. now rewrite N.
    - destruct (N.eqb k k') eqn:E.
      + apply N.eqb_eq in E. subst k'. cbn [aget]. apply N.eqb_neq in N. now rewrite N.
      + destruct (N.ltb k k'); cbn [aget].
        * apply N.eqb_neq in N. now rewrite N.
        * destruct (N.eqb k2 k'); [reflexivity|assumption].
  Qed.
  Lemma naget_adel_same k (l : list (N * V)) : aget N.eqb k (adel N.eqb k l) = None.
  Proof.
    induction l as [|[k' v'] t IH]; cbn [adel aget]; [reflexivity|].
    destruct (N.eqb k k') eqn:E; [assumption|]. cbn [aget]. now rewrite E.
  Qed.
  Lemma naget_adel_other k k2 (l : list (N * V)) : k2 <> k ->
    aget N.eqb k2 (adel N.eqb k l) = aget N.eqb k2 l.
  Proof.
    intros N. induction l as [|[k' v'] t IH]; cbn [adel aget]; [reflexivity|].
    destruct (N.eqb k k') eqn:E.
    - apply N.eqb_eq in E. subst k'. rewrite IH. apply N.eqb_neq in N. now rewrite N.
    - cbn [aget]. destruct (N.eqb k2 k'); [reflexivity|assumption].
  Qed.
End NAssoc.

Lemma fold_add_head_bms hs : forall v, v_bms (fold_left view_add_head hs v) = v_bms v.
Proof. intros v. apply (fold_add_head_fields hs v). Qed.

(** The bookmark [name] after set_local_bookmark_target. *)
Lemma bm_get_set_same st name t :
  bm_get (s_v (set_local_bookmark_target st name t)) name = t.
Proof.
  unfold set_local_bookmark_target, bm_get. cbn [set_view s_v v_bms].
  rewrite fold_add_head_bms. destruct (is_absent t) eqn:E.
  - rewrite naget_adel_same. destruct t as [|[x|] [|? ?]]; try discriminate. reflexivity.
  - now rewrite naget_aset_same.
Qed.
Lemma bm_get_set_other st name nm t : name <> nm ->
  bm_get (s_v (set_local_bookmark_target st nm t)) name = bm_get (s_v st) name.
Proof.
  intros N. unfold set_local_bookmark_target, bm_get. cbn [set_view s_v v_bms].
  rewrite fold_add_head_bms. destruct (is_absent t).
  - now rewrite naget_adel_other.
  - now rewrite naget_aset_other.
Qed.

Lemma target_eqb_refl t : target_eqb t t = true.
Proof. now apply target_eqb_spec. Qed.

(** Merging [other] into a bookmark that sits exactly at the base gives [other]. *)
Lemma merge_ref_targets_at_base g k other : merge_ref_targets g [Some k] [Some k] other = other.
Proof.
  unfold merge_ref_targets. cbn [trivial_merge].
  destruct (target_eqb [Some k] other) eqn:E; cbn [andb].
  - apply target_eqb_spec in E. now subst.
  - now rewrite target_eqb_refl.
Qed.

Lemma fold_res_app {A B} (f : res A -> B -> res A) l1 l2 a c :
  (forall b, f Err b = Err) -> (forall b, f Panic b = Panic) -> (forall b, f Fuel b = Fuel) ->
  fold_left f (l1 ++ l2) (Ok a) = Ok c ->
  exists b, fold_left f l1 (Ok a) = Ok b /\ fold_left f l2 (Ok b) = Ok c.
Proof.
  intros E P F H. rewrite fold_left_app in H.
  destruct (fold_left f l1 (Ok a)) as [b| | |] eqn:E1.
  - exists b. auto.
  - exfalso. eapply (fold_res_stuck f l2 Err); [| | | |exact H]; auto; discriminate.
  - exfalso. eapply (fold_res_stuck f l2 Panic); [| | | |exact H]; auto; discriminate.
  - exfalso. eapply (fold_res_stuck f l2 Fuel); [| | | |exact H]; auto; discriminate.
Qed.

(** ** update_local_bookmarks on one bookmark *)
Definition ulb_step (del : bool) (acc : res state) (ch : N * nat * list nat) : res state :=
  do s1 <- acc;
  let '(name, old, nids) := ch in
  let should_delete := del && is_abandoned (pm_get (s_pm s1) old) in
  if should_delete then Ok (merge_local_bookmark s1 name [Some old] absent_target)
  else match nids with
       | [] => Panic
       | _ => Ok (merge_local_bookmark s1 name [Some old] (intersperse (map Some nids) (Some old)))
       end.

Lemma ulb_other del name l : forall st st',
  (forall nm old nids, In (nm, old, nids) l -> nm <> name) ->
  fold_left (ulb_step del) l (Ok st) = Ok st' ->
  bm_get (s_v st') name = bm_get (s_v st) name /\ s_pm st' = s_pm st.
Proof.
  induction l as [|[[nm old] nids] t IH]; intros st st' Hn H; cbn [fold_left] in H.
  - apply Ok_inj in H. now subst.
  - assert (Nn : nm <> name) by (eapply Hn; now left).
    unfold ulb_step at 2 in H. cbn [bind] in H.
    assert (St : forall other, bm_get (s_v (merge_local_bookmark st nm [Some old] other)) name = bm_get (s_v st) name
                 /\ s_pm (merge_local_bookmark st nm [Some old] other) = s_pm st).
    { intros other. unfold merge_local_bookmark. split; [apply bm_get_set_other; congruence|reflexivity]. }
    destruct (del && is_abandoned (pm_get (s_pm st) old)).
    + destruct (IH _ _ (fun a b c Hi => Hn a b c (or_intror Hi)) H) as [A B].
      destruct (St absent_target) as [C D]. rewrite A, B, C, D. auto.
    + destruct nids as [|n ns].
      * exfalso. eapply (fold_res_stuck (ulb_step del) t Panic); [| | | |exact H]; try reflexivity; discriminate.
      * destruct (IH _ _ (fun a b c Hi => Hn a b c (or_intror Hi)) H) as [A B].
        destruct (St (intersperse (map Some (n :: ns)) (Some old))) as [C D]. rewrite A, B, C, D. auto.
Qed.

Definition expected_bm (del : bool) pm (k : nat) (nids : list nat) : target :=
  if del && is_abandoned (pm_get pm k) then absent_target
  else intersperse (map Some nids) (Some k).

Theorem update_local_bookmarks_follow st mapping del st' name k nids :
  NoDup (map fst (v_bms (s_v st))) ->
  aget N.eqb name (v_bms (s_v st)) = Some [Some k] ->
  aget Nat.eqb k mapping = Some nids ->
  update_local_bookmarks st mapping del = Ok st' ->
  bm_get (s_v st') name = expected_bm del (s_pm st) k nids.
Proof.
  intros ND Hb Hk H. unfold update_local_bookmarks in H.
  change (fold_left _ ?l (Ok st) = Ok st') with (fold_left (ulb_step del) l (Ok st) = Ok st') in H.
  set (F := fun p : N * target =>
      flat_map (fun id => match aget Nat.eqb id mapping with
                          | Some nids => [(fst p, id, nids)]
                          | None => []
                          end) (added_ids (snd p))) in *.
  apply (aget_In N.eqb Neqb_spec) in Hb.
  destruct (in_split _ _ Hb) as [l1 [l2 E]].
  rewrite E in H, ND. rewrite flat_map_app in H.
  change (flat_map F ((name, [Some k]) :: l2)) with (F (name, [Some k]) ++ flat_map F l2) in H.
  assert (FN : F (name, [Some k]) = [(name, k, nids)]).
  { unfold F. cbn [fst snd added_ids evens somes flat_map]. rewrite Hk. reflexivity. }
  rewrite FN in H. rewrite map_app in ND. cbn [map fst] in ND.
  assert (N1 : forall nm old ns, In (nm, old, ns) (flat_map F l1) -> nm <> name).
  { intros nm old ns Hin. apply in_flat_map in Hin. destruct Hin as [[nm' t] [Hin1 Hin2]].
    unfold F in Hin2. apply in_flat_map in Hin2. destruct Hin2 as [id [_ Hin2]]. cbn [fst] in Hin2.
    destruct (aget Nat.eqb id mapping); [|contradiction]. destruct Hin2 as [Hin2|[]]. injection Hin2 as <- _ _.
    intros ->. apply NoDup_remove_2 in ND. apply ND. apply in_or_app. left.
    apply in_map_iff. exists (name, t). auto. }
  assert (N2 : forall nm old ns, In (nm, old, ns) (flat_map F l2) -> nm <> name).
  { intros nm old ns Hin. apply in_flat_map in Hin. destruct Hin as [[nm' t] [Hin1 Hin2]].
    unfold F in Hin2. apply in_flat_map in Hin2. destruct Hin2 as [id [_ Hin2]]. cbn [fst] in Hin2.
    destruct (aget Nat.eqb id mapping); [|contradiction]. destruct Hin2 as [Hin2|[]]. injection Hin2 as <- _ _.
    intros ->. apply NoDup_remove_2 in ND. apply ND. apply in_or_app. right.
    apply in_map_iff. exists (name, t). auto. }
  destruct (fold_res_app (ulb_step del) _ _ _ _ (fun _ => eq_refl) (fun _ => eq_refl) (fun _ => eq_refl) H) as [sa [H1 H2]].
  destruct (fold_res_app (ulb_step del) _ _ _ _ (fun _ => eq_refl) (fun _ => eq_refl) (fun _ => eq_refl) H2) as [sb [H3 H4]].
  destruct (ulb_other del name _ _ _ N1 H1) as [A1 B1].
  destruct (ulb_other del name _ _ _ N2 H4) as [A2 _].
  rewrite A2. cbn [fold_left] in H3. unfold ulb_step in H3. cbn [bind] in H3.
  assert (Ga : bm_get (s_v sa) name = [Some k]).
  { rewrite A1. unfold bm_get. rewrite E.
    assert (Hget : aget N.eqb name (l1 ++ (name, [Some k]) :: l2) = Some [Some k]).
    { clear -ND. induction l1 as [|[a b] t IH]; cbn [app aget].
      - now rewrite N.eqb_refl.
      - cbn [app map fst] in ND. inversion ND as [|? ? Hn Hd]; subst.
        destruct (N.eqb name a) eqn:E.
        + apply N.eqb_eq in E. subst a. exfalso. apply Hn. apply in_or_app. right. now left.
        + now apply IH. }
    match goal with |- match ?X with Some _ => _ | None => _ end = _ =>
      assert (EX : X = Some [Some k]) by exact Hget; now rewrite EX end. }
  unfold expected_bm. rewrite <- B1.
  assert (Mg : forall other, bm_get (s_v (merge_local_bookmark sa name [Some k] other)) name = other).
  { intros other. unfold merge_local_bookmark. rewrite bm_get_set_same, Ga. apply merge_ref_targets_at_base. }
  destruct (del && is_abandoned (pm_get (s_pm sa) k)).
  - apply Ok_inj in H3. subst sb. apply Mg.
  - destruct nids as [|n ns]; [discriminate|]. apply Ok_inj in H3. subst sb. apply Mg.
Qed.

(** ** The other phases leave the bookmarks alone *)
Lemma write_commit_bms s c src : v_bms (s_v (fst (write_commit s c src))) = v_bms (s_v s).
Proof. apply write_commit_view. Qed.

Lemma rebase_one_bms st o x st' : rebase_one st o x = Ok st' -> v_bms (s_v st') = v_bms (s_v st).
Proof.
  unfold rebase_one. destruct (new_parents _ _) as [np| | |]; cbn [bind]; try discriminate.
  destruct (list_nat_eqb _ _); [intros H; apply Ok_inj in H; now subst|].
  match goal with |- (if ?c then _ else _) = _ -> _ => destruct c end; intros H; apply Ok_inj in H; subst st'.
  - reflexivity.
  - apply write_commit_bms.
Qed.

Lemma rebase_fold_bms o order : forall st st', rebase_fold o order st = Ok st' -> v_bms (s_v st') = v_bms (s_v st).
Proof.
  unfold rebase_fold. intros st st' H.
  refine (fold_res_inv (fun s x => rebase_one s o x) (fun s => v_bms (s_v s) = v_bms (s_v st)) order _ st st' eq_refl H).
  intros a b a' Pa _ Hf. rewrite <- Pa. eapply rebase_one_bms; eassumption.
Qed.

Lemma maybe_abandon_bms s ws : v_bms (s_v (maybe_abandon_wc_commit s ws)) = v_bms (s_v s).
Proof.
  unfold maybe_abandon_wc_commit. destruct (wc_get (s_v s) ws); [|reflexivity].
  destruct (normalize_fields s) as [_ [_ [B _]]]. destruct (_ && _ && _); cbn [set_pm s_v]; assumption.
Qed.

Lemma edit_bms s ws c s' : edit s ws c = Some s' -> v_bms (s_v s') = v_bms (s_v s).
Proof.
  unfold edit. destruct (c =? 0); [discriminate|]. intros H.
  assert (E : forall (a b : state), Some a = Some b -> a = b) by (intros a b E0; congruence).
  apply E in H. subst s'. cbn [set_view s_v v_bms].
  destruct (add_heads_fields (maybe_abandon_wc_commit s ws) [c]) as [_ [_ [B _]]].
  rewrite B. apply maybe_abandon_bms.
Qed.

Lemma update_wc_commits_bms st mapping st' :
  update_wc_commits st mapping = Ok st' -> v_bms (s_v st') = v_bms (s_v st).
Proof.
  unfold update_wc_commits. intros H.
  match type of H with (do r <- fold_left _ ?l _; _) = _ => set (changed := l) in * end.
  destruct (fold_left _ changed (Ok (st, []))) as [[sf rec]| | |] eqn:F; cbn [bind] in H; try discriminate.
  apply Ok_inj in H. cbn [fst] in H. subst st'.
  refine (fold_res_inv (fun (sr : state * list (nat * nat)) (ch : N * nat * list nat) => _)
            (fun sr => v_bms (s_v (fst sr)) = v_bms (s_v st)) changed _ (st, []) (sf, rec) eq_refl F).
  intros [a recr] [[ws oldc] nids] a' Pa _ Hf. cbn [fst snd] in *. cbv beta iota in Hf.
  match type of Hf with (do sw <- ?X; _) = _ => destruct X as [[[s2 rec2] new_wc]| | |] eqn:EX end;
    cbn [bind] in Hf; try discriminate.
  assert (B2 : v_bms (s_v s2) = v_bms (s_v a)).
  { destruct (negb (is_abandoned (pm_get (s_pm a) oldc))).
    - destruct nids; [discriminate|]. apply Ok_inj in EX. now injection EX as <- _ _.
    - destruct (aget Nat.eqb oldc recr).
      + apply Ok_inj in EX. now injection EX as <- _ _.
      + destruct nids as [|n ns] eqn:En; [discriminate|].
        destruct (write_commit a (fresh_commit (s_g a) (n :: ns) 0 true) None) as [sw nw] eqn:EW.
        apply Ok_inj in EX. injection EX as <- _ _.
        change sw with (fst (sw, nw)). rewrite <- EW. apply write_commit_bms. }
  destruct (edit s2 ws new_wc) as [s3|] eqn:EE; [|discriminate]. apply Ok_inj in Hf. subst a'. cbn [fst].
  rewrite (edit_bms _ _ _ _ EE), B2. exact Pa.
Qed.

Lemma update_heads_bms st : v_bms (s_v (update_heads st)) = v_bms (s_v st).
Proof.
  unfold update_heads.
  match goal with |- v_bms (s_v (normalize ?X)) = _ => destruct (normalize_fields X) as [_ [_ [B _]]]; rewrite B end.
  reflexivity.
Qed.

(** * Bookmarks follow: an unconflicted bookmark at a commit with a rewrite record ends at the full
    resolution of that record (a conflict of all of them with the old commit as base when there
    are several; deleted for an abandoned commit when requested); an unconflicted bookmark at a
    commit without record stays. For any ordering function. *)
Theorem bookmarks_follow_model s0 o ord s' :
  NoDup (map fst (v_bms (s_v s0))) ->
  rebase_descendants_with ord s0 o = Ok s' ->
  exists s1 mapping, rebase_loop_with ord s0 o = Ok s1 /\
    resolve_rewrite_mapping (s_pm s1) (fun _ => true) = Ok mapping /\
    forall name k, aget N.eqb name (v_bms (s_v s0)) = Some [Some k] ->
      match aget Nat.eqb k mapping with
      | Some nids =>
          rewritten_ids_with (s_pm s1) (fun _ => true) [k] = Ok nids /\
          bm_get (s_v s') name = expected_bm (o_delete_abandoned o) (s_pm s1) k nids
      | None => bm_get (s_v s') name = [Some k]
      end.
Proof.
  intros ND H. unfold rebase_descendants_with in H.
  destruct (rebase_loop_with ord s0 o) as [s1| | |] eqn:EL; cbn [bind] in H; try discriminate.
  destruct (update_rewritten_references s1 (o_delete_abandoned o)) as [s2| | |] eqn:EU; cbn [bind] in H; try discriminate.
  apply Ok_inj in H. subst s'. cbn [set_pm s_v].
  unfold update_rewritten_references in EU.
  destruct (resolve_rewrite_mapping (s_pm s1) (fun _ => true)) as [mapping| | |] eqn:EM; cbn [bind] in EU; try discriminate.
  destruct (update_local_bookmarks s1 mapping (o_delete_abandoned o)) as [sA| | |] eqn:EA; cbn [bind] in EU; try discriminate.
  destruct (update_wc_commits sA mapping) as [sB| | |] eqn:EB; cbn [bind] in EU; try discriminate.
  apply Ok_inj in EU. subst s2.
  exists s1, mapping. split; [reflexivity|]. split; [exact EM|].
  assert (B1 : v_bms (s_v s1) = v_bms (s_v s0)).
  { unfold rebase_loop_with in EL. destruct (ord _ _ _) as [order| | |]; cbn [bind] in EL; try discriminate.
    eapply rebase_fold_bms; eassumption. }
  intros name k Hb.
  assert (Bf : bm_get (s_v (update_heads sB)) name = bm_get (s_v sA) name).
  { unfold bm_get. now rewrite update_heads_bms, (update_wc_commits_bms _ _ _ EB). }
  rewrite Bf. rewrite <- B1 in Hb, ND.
  destruct (aget Nat.eqb k mapping) as [nids|] eqn:Ek.
  - split; [apply (resolve_mapping_spec _ _ _ EM k nids Ek)|].
    eapply update_local_bookmarks_follow; eassumption.
  - (* no item mentions this bookmark *)
    unfold update_local_bookmarks in EA.
    change (fold_left _ ?l (Ok s1) = Ok sA) with (fold_left (ulb_step (o_delete_abandoned o)) l (Ok s1) = Ok sA) in EA.
    match type of EA with fold_left _ ?l _ = _ => set (changed := l) in * end.
    assert (Nn : forall nm old nids, In (nm, old, nids) changed -> nm <> name).
    { intros nm old nids Hin. unfold changed in Hin. apply in_flat_map in Hin.
      destruct Hin as [[nm' t] [Hin1 Hin2]]. apply in_flat_map in Hin2. destruct Hin2 as [id [Hid Hin2]].
      cbn [fst snd] in *. destruct (aget Nat.eqb id mapping) eqn:Eid; [|contradiction].
      destruct Hin2 as [Hin2|[]]. injection Hin2 as <- <- _. intros ->.
      apply (aget_In N.eqb Neqb_spec) in Hb.
      assert (t = [Some k]).
      { clear -ND Hb Hin1. induction (v_bms (s_v s1)) as [|[a b] l IH]; [contradiction|].
        cbn [map fst] in ND. inversion ND as [|? ? Hn Hd]; subst.
        destruct Hb as [Hb|Hb]; destruct Hin1 as [Hi|Hi].
        - congruence.
        - injection Hb as -> ->. exfalso. apply Hn. apply in_map_iff. exists (name, t). auto.
        - injection Hi as -> ->. exfalso. apply Hn. apply in_map_iff. exists (name, [Some k]). auto.
        - auto. }
      subst t. cbn [added_ids evens somes] in Hid. destruct Hid as [<-|[]]. congruence. }
    destruct (ulb_other _ name changed s1 sA Nn EA) as [A _]. rewrite A.
    unfold bm_get. now rewrite Hb.
Qed.

(** * Working copies follow *)

Lemma maybe_abandon_wcs s ws : v_wcs (s_v (maybe_abandon_wc_commit s ws)) = v_wcs (s_v s).
Proof.
  unfold maybe_abandon_wc_commit. destruct (wc_get (s_v s) ws); [|reflexivity].
  destruct (normalize_fields s) as [_ [_ [_ B]]]. destruct (_ && _ && _); cbn [set_pm s_v]; assumption.
Qed.

Lemma maybe_abandon_pm s ws k2 :
  pm_get (s_pm (maybe_abandon_wc_commit s ws)) k2 = pm_get (s_pm s) k2 \/
  (wc_get (s_v s) ws = Some k2 /\
   (forall ws2 k', In (ws2, k') (v_wcs (s_v s)) -> ws2 <> ws -> k' <> k2) /\
   is_abandoned (pm_get (s_pm (maybe_abandon_wc_commit s ws)) k2) = true).
Proof.
  unfold maybe_abandon_wc_commit. destruct (wc_get (s_v s) ws) as [w|] eqn:E; [|now left].
  destruct (normalize_fields s) as [_ [Pm [_ Wc]]].
  destruct (_ && _ && _) eqn:C; [|left; now rewrite Pm].
  cbn [set_pm s_pm]. destruct (Nat.eq_dec k2 w) as [->|N].
  - right. split; [reflexivity|]. split.
    + apply andb_true_iff in C. destruct C as [C _]. apply andb_true_iff in C. destruct C as [_ C].
      apply negb_true_iff in C. unfold wc_referenced in C. apply orb_false_iff in C. destruct C as [C _].
      rewrite Wc in C. intros ws2 k' Hin Nw ->.
      assert (existsb (fun p : N * nat => negb (N.eqb (fst p) ws) && Nat.eqb (snd p) w) (v_wcs (s_v s)) = true); [|congruence].
      apply existsb_exists. exists (ws2, w). split; [assumption|]. cbn [fst snd].
      rewrite Nat.eqb_refl, andb_true_r. apply negb_true_iff. now apply N.eqb_neq.
    + now rewrite pm_get_set_same.
  - left. rewrite pm_get_set_other by assumption. now rewrite Pm.
Qed.

Lemma edit_facts s ws c s' : edit s ws c = Some s' ->
  wc_get (s_v s') ws = Some c /\
  (forall ws2, ws2 <> ws -> wc_get (s_v s') ws2 = wc_get (s_v s) ws2) /\
  (forall ws2 k', In (ws2, k') (v_wcs (s_v s')) -> ws2 <> ws -> In (ws2, k') (v_wcs (s_v s))) /\
  s_g s' = s_g s /\
  forall k2, pm_get (s_pm s') k2 = pm_get (s_pm s) k2 \/
    (wc_get (s_v s) ws = Some k2 /\
     (forall ws2 k', In (ws2, k') (v_wcs (s_v s)) -> ws2 <> ws -> k' <> k2) /\
     is_abandoned (pm_get (s_pm s') k2) = true).
Proof.
  intros H. pose proof (edit_graph _ _ _ _ H) as G.
  unfold edit in H. destruct (c =? 0); [discriminate|].
  assert (E : forall (a b : state), Some a = Some b -> a = b) by (intros a b E0; congruence).
  apply E in H. subst s'.
  destruct (add_heads_fields (maybe_abandon_wc_commit s ws) [c]) as [_ [Pm [_ Wc]]].
  cbn [set_view s_v s_pm v_wcs] in *. unfold wc_get. cbn [v_wcs].
  rewrite Wc, maybe_abandon_wcs. split; [apply naget_aset_same|]. split; [|split; [|split; [exact G|]]].
  - intros ws2 N. now apply naget_aset_other.
  - intros ws2 k' Hin N. apply (aset_In N.eqb N.ltb) in Hin. destruct Hin as [Ei|Hin]; [injection Ei as -> _; congruence|assumption].
  - intros k2. rewrite Pm. apply maybe_abandon_pm.
Qed.

Definition uwc_step (acc : res (state * list (nat * nat))) (ch : N * nat * list nat)
  : res (state * list (nat * nat)) :=
  do sr <- acc;
  let '(s1, recreated) := sr in
  let '(ws, old, nids) := ch in
  do sw <-
    (if negb (is_abandoned (pm_get (s_pm s1) old)) then
       match nids with [] => Panic | n :: _ => Ok (s1, recreated, n) end
     else match aget Nat.eqb old recreated with
          | Some c => Ok (s1, recreated, c)
          | None =>
              match nids with
              | [] => Panic
              | _ =>
                  let '(s2, n) := write_commit s1 (fresh_commit (s_g s1) nids 0 true) None in
                  Ok (s2, aset Nat.eqb Nat.ltb old n recreated, n)
              end
          end);
  let '(s2, recreated2, new_wc) := sw in
  match edit s2 ws new_wc with
  | Some s3 => Ok (s3, recreated2)
  | None => Panic
  end.

Lemma update_wc_commits_eq s mapping :
  update_wc_commits s mapping =
  do r <- fold_left uwc_step
            (flat_map (fun p : N * nat => match aget Nat.eqb (snd p) mapping with
                                          | Some nids => [(fst p, snd p, nids)]
                                          | None => []
                                          end) (v_wcs (s_v s))) (Ok (s, []));
  Ok (fst r).
Proof. reflexivity. Qed.

(** What one item does. [Rec] describes the cache of re-created commits. *)
Definition RecOK (mapping : list (nat * list nat)) (base : nat) (st : state) (rec : list (nat * nat)) : Prop :=
  forall k c, aget Nat.eqb k rec = Some c ->
    base <= c < length (s_g st) /\ exists nids, aget Nat.eqb k mapping = Some nids /\
      c_parents (getc (s_g st) c) = nids /\ c_preds (getc (s_g st) c) = [].

Lemma uwc_item mapping base st rec ws k nids st' rec' :
  aget Nat.eqb k mapping = Some nids -> RecOK mapping base st rec -> base <= length (s_g st) ->
  uwc_step (Ok (st, rec)) (ws, k, nids) = Ok (st', rec') ->
  RecOK mapping base st' rec' /\
  length (s_g st) <= length (s_g st') /\
  (forall i, i < length (s_g st) -> getc (s_g st') i = getc (s_g st) i) /\
  (forall ws2, ws2 <> ws -> wc_get (s_v st') ws2 = wc_get (s_v st) ws2) /\
  (forall ws2 k', In (ws2, k') (v_wcs (s_v st')) -> ws2 <> ws -> In (ws2, k') (v_wcs (s_v st))) /\
  (forall k2, pm_get (s_pm st') k2 = pm_get (s_pm st) k2 \/
     (wc_get (s_v st) ws = Some k2 /\
      (forall ws2 k', In (ws2, k') (v_wcs (s_v st)) -> ws2 <> ws -> k' <> k2) /\
      is_abandoned (pm_get (s_pm st') k2) = true)) /\
  (forall k0 c, aget Nat.eqb k0 rec = Some c -> aget Nat.eqb k0 rec' = Some c) /\
  exists new_wc, wc_get (s_v st') ws = Some new_wc /\
    if is_abandoned (pm_get (s_pm st) k)
    then aget Nat.eqb k rec' = Some new_wc
    else new_wc = hd 0 nids.
Proof.
  intros Hk HR Hbase H. unfold uwc_step in H. cbn [bind] in H.
  destruct (negb (is_abandoned (pm_get (s_pm st) k))) eqn:Ab.
  - (* not abandoned: first of the resolution *)
    apply negb_true_iff in Ab. rewrite Ab.
    destruct nids as [|n ns]; [discriminate|]. cbn [bind] in H.
    destruct (edit st ws n) as [s3|] eqn:EE; [|discriminate]. apply Ok_inj in H. injection H as <- <-.
    destruct (edit_facts _ _ _ _ EE) as [A [B [B2 [G C]]]].
    split; [|split; [rewrite G; lia|split; [intros i _; now rewrite G|split; [exact B|split; [exact B2|split; [exact C|split; [auto|]]]]]]].
    + intros k0 c Hc. destruct (HR k0 c Hc) as [L R]. rewrite G. auto.
    + exists n. split; [exact A|reflexivity].
  - apply negb_false_iff in Ab. rewrite Ab.
    destruct (aget Nat.eqb k rec) as [c|] eqn:ER.
    + cbn [bind] in H. destruct (edit st ws c) as [s3|] eqn:EE; [|discriminate]. apply Ok_inj in H. injection H as <- <-.
      destruct (edit_facts _ _ _ _ EE) as [A [B [B2 [G C]]]].
      split; [|split; [rewrite G; lia|split; [intros i _; now rewrite G|split; [exact B|split; [exact B2|split; [exact C|split; [auto|]]]]]]].
      * intros k0 c0 Hc. destruct (HR k0 c0 Hc) as [L R]. rewrite G. auto.
      * exists c. split; [exact A|exact ER].
    + destruct nids as [|n ns]; [discriminate|]. set (nids := n :: ns) in *.
      destruct (write_commit_fields st (fresh_commit (s_g st) nids 0 true) None) as [Gw Pw].
      destruct (write_commit_view st (fresh_commit (s_g st) nids 0 true) None) as [_ [Ww _]].
      assert (Nw : snd (write_commit st (fresh_commit (s_g st) nids 0 true) None) = length (s_g st)) by reflexivity.
      destruct (write_commit st (fresh_commit (s_g st) nids 0 true) None) as [sw nw] eqn:EW.
      cbn [fst snd] in *. subst nw. cbn [bind] in H.
      destruct (edit sw ws (length (s_g st))) as [s3|] eqn:EE; [|discriminate]. apply Ok_inj in H. injection H as <- <-.
      destruct (edit_facts _ _ _ _ EE) as [A [B [B2 [G C]]]].
      assert (Lw : length (s_g sw) = S (length (s_g st))) by (rewrite Gw, app_length; cbn; lia).
      split; [|split; [rewrite G; lia|split; [|split; [|split; [|split; [|split]]]]]].
      * intros k0 c0 Hc. rewrite G. destruct (Nat.eq_dec k0 k) as [->|Nk].
        -- rewrite aget_aset_same in Hc. injection Hc as <-. split; [lia|].
           exists nids. split; [assumption|]. rewrite Gw, getc_app_new. cbn. auto.
        -- rewrite aget_aset_other in Hc by assumption. destruct (HR k0 c0 Hc) as [L [ns' [M [P1 P2]]]].
           split; [lia|]. exists ns'. split; [assumption|]. rewrite Gw, getc_app_old by lia. auto.
      * intros i Hi. rewrite G, Gw. now apply getc_app_old.
      * intros ws2 N. rewrite (B ws2 N). unfold wc_get. now rewrite Ww.
      * intros ws2 k' Hin N. rewrite <- Ww. now apply B2.
      * intros k2. destruct (C k2) as [C1|[C1 [C2 C3]]].
        -- left. now rewrite C1, Pw.
        -- right. unfold wc_get in C1. rewrite Ww in C1. split; [exact C1|]. split; [|exact C3].
           intros ws2 k' Hin. apply C2. now rewrite Ww.
      * intros k0 c0 Hc. destruct (Nat.eq_dec k0 k) as [->|Nk]; [congruence|].
        now rewrite aget_aset_other.
      * exists (length (s_g st)). split; [exact A|]. apply aget_aset_same.
Qed.

Lemma uwc_step_stuck l : forall r, (forall a, r <> Ok a) -> forall a, fold_left uwc_step l r <> Ok a.
Proof.
  intros r N a. apply fold_res_stuck; try reflexivity. exact N.
Qed.

Lemma uwc_fold mapping base l : forall st rec st' rec',
  (forall ws k nids, In (ws, k, nids) l -> aget Nat.eqb k mapping = Some nids) ->
  NoDup (map (fun x : N * nat * list nat => fst (fst x)) l) ->
  RecOK mapping base st rec -> base <= length (s_g st) ->
  (forall ws k nids, In (ws, k, nids) l -> wc_get (s_v st) ws = Some k) ->
  fold_left uwc_step l (Ok (st, rec)) = Ok (st', rec') ->
  RecOK mapping base st' rec' /\
  length (s_g st) <= length (s_g st') /\
  (forall i, i < length (s_g st) -> getc (s_g st') i = getc (s_g st) i) /\
  (forall ws2, ~ In ws2 (map (fun x : N * nat * list nat => fst (fst x)) l) ->
     wc_get (s_v st') ws2 = wc_get (s_v st) ws2) /\
  (forall k0 c, aget Nat.eqb k0 rec = Some c -> aget Nat.eqb k0 rec' = Some c) /\
  (forall k2, pm_get (s_pm st') k2 = pm_get (s_pm st) k2 \/ exists ws nids, In (ws, k2, nids) l) /\
  forall ws k nids, In (ws, k, nids) l ->
    exists c, wc_get (s_v st') ws = Some c /\
      if is_abandoned (pm_get (s_pm st) k) then aget Nat.eqb k rec' = Some c else c = hd 0 nids.
Proof.
  induction l as [|[[ws k] nids] t IH]; intros st rec st' rec' HM ND HR Hbase HP H; cbn [fold_left] in H.
  - apply Ok_inj in H. injection H as <- <-.
    split; [assumption|]. split; [lia|]. split; [auto|]. split; [auto|]. split; [auto|]. split; [auto|]. intros ? ? ? [].
  - destruct (uwc_step (Ok (st, rec)) (ws, k, nids)) as [[st1 rec1]| | |] eqn:E1.
    2,3,4: exfalso; eapply (uwc_step_stuck t); [|exact H]; discriminate.
    cbn [map fst] in ND. inversion ND as [|? ? Hn Hd]; subst.
    destruct (uwc_item mapping base st rec ws k nids st1 rec1 (HM _ _ _ (or_introl eq_refl)) HR Hbase E1)
      as [HR1 [L1 [O1 [W1 [W2 [P1 [R1 [c1 [C1 C2]]]]]]]]].
    assert (HP1 : forall ws2 k2 n2, In (ws2, k2, n2) t -> wc_get (s_v st1) ws2 = Some k2).
    { intros ws2 k2 n2 Hin. rewrite W1; [apply (HP ws2 k2 n2); now right|].
      intros ->. apply Hn. apply in_map_iff. exists (ws, k2, n2). auto. }
    destruct (IH st1 rec1 st' rec' (fun a b c Hi => HM a b c (or_intror Hi)) Hd HR1 ltac:(lia) HP1 H)
      as [HR' [L' [O' [W' [R' [PM' F']]]]]].
    split; [exact HR'|]. split; [lia|]. split; [intros i Hi; rewrite O' by lia; now apply O1|].
    split; [|split; [auto|split]].
    + intros ws2 Hn2. cbn [map fst In] in Hn2. rewrite W' by tauto. apply W1. intros ->. apply Hn2. now left.
    + intros k2. destruct (PM' k2) as [Q|[w2 [n2 Q]]]; [|right; exists w2, n2; now right].
      rewrite Q. destruct (P1 k2) as [Q1|[Q1 _]]; [now left|right].
      rewrite (HP ws k nids (or_introl eq_refl)) in Q1. injection Q1 as <-. exists ws, nids. now left.
    + intros ws2 k2 n2 [E|Hin].
      * injection E as <- <- <-. exists c1. split.
        -- rewrite W' by assumption. exact C1.
        -- destruct (is_abandoned (pm_get (s_pm st) k)); [now apply R'|assumption].
      * destruct (F' ws2 k2 n2 Hin) as [c [A B]]. exists c. split; [assumption|].
        assert (Nw : ws2 <> ws).
        { intros ->. apply Hn. apply in_map_iff. exists (ws, k2, n2). auto. }
        assert (Ek : pm_get (s_pm st1) k2 = pm_get (s_pm st) k2).
        { destruct (P1 k2) as [Q|[Q1 [Q2 _]]]; [assumption|]. exfalso.
          apply (Q2 ws2 k2); [|assumption|reflexivity].
          apply (aget_In N.eqb Neqb_spec). apply (HP ws2 k2 n2). now right. }
        now rewrite <- Ek.
Qed.

Lemma rebase_one_wcs st o x st' : rebase_one st o x = Ok st' -> v_wcs (s_v st') = v_wcs (s_v st).
Proof.
  unfold rebase_one. destruct (new_parents _ _) as [np| | |]; cbn [bind]; try discriminate.
  destruct (list_nat_eqb _ _); [intros H; apply Ok_inj in H; now subst|].
  match goal with |- (if ?c then _ else _) = _ -> _ => destruct c end; intros H; apply Ok_inj in H; subst st'.
  - reflexivity.
  - apply write_commit_view.
Qed.

Lemma rebase_fold_wcs o order : forall st st', rebase_fold o order st = Ok st' -> v_wcs (s_v st') = v_wcs (s_v st).
Proof.
  unfold rebase_fold. intros st st' H.
  refine (fold_res_inv (fun s x => rebase_one s o x) (fun s => v_wcs (s_v s) = v_wcs (s_v st)) order _ st st' eq_refl H).
  intros a b a' Pa _ Hf. rewrite <- Pa. eapply rebase_one_wcs; eassumption.
Qed.

Lemma set_local_bookmark_fields s name t :
  v_wcs (s_v (set_local_bookmark_target s name t)) = v_wcs (s_v s) /\
  s_pm (set_local_bookmark_target s name t) = s_pm s /\
  s_g (set_local_bookmark_target s name t) = s_g s.
Proof.
  unfold set_local_bookmark_target. cbn [set_view s_v s_pm s_g v_wcs].
  destruct (fold_add_head_fields (added_ids t) (s_v s)) as [_ [B _]]. auto.
Qed.

Lemma update_local_bookmarks_fields st mapping del st' :
  update_local_bookmarks st mapping del = Ok st' ->
  v_wcs (s_v st') = v_wcs (s_v st) /\ s_pm st' = s_pm st /\ s_g st' = s_g st.
Proof.
  unfold update_local_bookmarks. intros H.
  refine (fold_res_inv (fun (s1 : state) (ch : N * nat * list nat) => _)
            (fun s => v_wcs (s_v s) = v_wcs (s_v st) /\ s_pm s = s_pm st /\ s_g s = s_g st) _ _ st st' (conj eq_refl (conj eq_refl eq_refl)) H).
  intros a [[name old] nids] a' [A [B C]] _ Hf. cbv beta iota in Hf.
  assert (M : forall other, let a2 := merge_local_bookmark a name [Some old] other in
               v_wcs (s_v a2) = v_wcs (s_v st) /\ s_pm a2 = s_pm st /\ s_g a2 = s_g st).
  { intros other. unfold merge_local_bookmark. cbv zeta.
    destruct (set_local_bookmark_fields a name (merge_ref_targets (pg (s_g a)) (bm_get (s_v a) name) [Some old] other)) as [X [Y Z]].
    rewrite X, Y, Z. auto. }
  destruct (del && is_abandoned (pm_get (s_pm a) old)).
  - apply Ok_inj in Hf. subst a'. apply M.
  - destruct nids; [discriminate|]. apply Ok_inj in Hf. subst a'. apply M.
Qed.

Lemma update_heads_wcs st : v_wcs (s_v (update_heads st)) = v_wcs (s_v st).
Proof.
  unfold update_heads.
  match goal with |- v_wcs (s_v (normalize ?X)) = _ => destruct (normalize_fields X) as [_ [_ [_ B]]]; rewrite B end.
  reflexivity.
Qed.

(** Working copies follow (any ordering function, any records; workspace names are distinct):
    a workspace whose working-copy commit [k] has no rewrite record keeps it; with a record
    that is not "abandoned" it moves to the first commit of the full resolution of [k]; with an
    abandoned record it moves to a new commit without predecessor whose parents are the full
    resolution of [k]. *)
Theorem wc_follows_model s0 o ord s' :
  NoDup (map fst (v_wcs (s_v s0))) ->
  rebase_descendants_with ord s0 o = Ok s' ->
  exists s1 mapping, rebase_loop_with ord s0 o = Ok s1 /\
    resolve_rewrite_mapping (s_pm s1) (fun _ => true) = Ok mapping /\
    forall ws k, aget N.eqb ws (v_wcs (s_v s0)) = Some k ->
      match aget Nat.eqb k mapping with
      | Some nids =>
          rewritten_ids_with (s_pm s1) (fun _ => true) [k] = Ok nids /\
          exists c, wc_get (s_v s') ws = Some c /\
            if is_abandoned (pm_get (s_pm s1) k)
            then length (s_g s1) <= c /\ c_parents (getc (s_g s') c) = nids /\ c_preds (getc (s_g s') c) = []
            else c = hd 0 nids
      | None => wc_get (s_v s') ws = Some k
      end.
Proof.
  intros ND H. unfold rebase_descendants_with in H.
  destruct (rebase_loop_with ord s0 o) as [s1| | |] eqn:EL; cbn [bind] in H; try discriminate.
  destruct (update_rewritten_references s1 (o_delete_abandoned o)) as [s2| | |] eqn:EU; cbn [bind] in H; try discriminate.
  apply Ok_inj in H. subst s'. cbn [set_pm s_v s_g].
  unfold update_rewritten_references in EU.
  destruct (resolve_rewrite_mapping (s_pm s1) (fun _ => true)) as [mapping| | |] eqn:EM; cbn [bind] in EU; try discriminate.
  destruct (update_local_bookmarks s1 mapping (o_delete_abandoned o)) as [sA| | |] eqn:EA; cbn [bind] in EU; try discriminate.
  destruct (update_wc_commits sA mapping) as [sB| | |] eqn:EB; cbn [bind] in EU; try discriminate.
  apply Ok_inj in EU. subst s2.
  exists s1, mapping. split; [reflexivity|]. split; [exact EM|].
  assert (W1 : v_wcs (s_v s1) = v_wcs (s_v s0)).
  { unfold rebase_loop_with in EL. destruct (ord _ _ _) as [order| | |]; cbn [bind] in EL; try discriminate.
    eapply rebase_fold_wcs; eassumption. }
  destruct (update_local_bookmarks_fields _ _ _ _ EA) as [WA [PA GA]].
  rewrite update_wc_commits_eq in EB.
  set (F := fun p : N * nat => match aget Nat.eqb (snd p) mapping with
                                | Some nids => [(fst p, snd p, nids)]
                                | None => []
                                end) in *.
  destruct (fold_left uwc_step (flat_map F (v_wcs (s_v sA))) (Ok (sA, []))) as [[sf rec]| | |] eqn:EF;
    cbn [bind] in EB; try discriminate.
  apply Ok_inj in EB. cbn [fst] in EB. subst sB.
  rewrite WA, W1 in EF.
  assert (HMl : forall ws k nids, In (ws, k, nids) (flat_map F (v_wcs (s_v s0))) ->
                  aget Nat.eqb k mapping = Some nids /\ In (ws, k) (v_wcs (s_v s0))).
  { intros ws k nids Hin. apply in_flat_map in Hin. destruct Hin as [[w c] [Hin1 Hin2]]. unfold F in Hin2.
    cbn [fst snd] in Hin2. destruct (aget Nat.eqb c mapping) eqn:E; [|contradiction].
    destruct Hin2 as [Hin2|[]]. injection Hin2 as <- <- <-. auto. }
  assert (Hget : forall ws k, In (ws, k) (v_wcs (s_v s0)) -> aget N.eqb ws (v_wcs (s_v s0)) = Some k).
  { clear -ND. induction (v_wcs (s_v s0)) as [|[a b] l IH]; intros ws k Hin; [contradiction|].
    cbn [map fst] in ND. inversion ND as [|? ? Hn Hd]; subst. cbn [aget].
    destruct Hin as [Hin|Hin].
    - injection Hin as -> ->. now rewrite N.eqb_refl.
    - destruct (N.eqb ws a) eqn:E; [|auto]. apply N.eqb_eq in E. subst a. exfalso. apply Hn.
      apply in_map_iff. exists (ws, k). auto. }
  assert (NDl : NoDup (map (fun x : N * nat * list nat => fst (fst x)) (flat_map F (v_wcs (s_v s0))))).
  { clear -ND. induction (v_wcs (s_v s0)) as [|[a b] l IH]; [constructor|].
    cbn [map fst] in ND. inversion ND as [|? ? Hn Hd]; subst. cbn [flat_map]. unfold F at 1. cbn [fst snd].
    destruct (aget Nat.eqb b mapping); [|now apply IH]. cbn [app map fst]. constructor; [|now apply IH].
    intros Hin. apply in_map_iff in Hin. destruct Hin as [[[w k] n] [E Hin]]. cbn [fst] in E. subst w.
    apply in_flat_map in Hin. destruct Hin as [[w c] [Hin1 Hin2]]. unfold F in Hin2. cbn [fst snd] in Hin2.
    destruct (aget Nat.eqb c mapping); [|contradiction]. destruct Hin2 as [Hin2|[]]. injection Hin2 as -> _ _.
    apply Hn. apply in_map_iff. exists (a, c). auto. }
  assert (HP : forall ws k nids, In (ws, k, nids) (flat_map F (v_wcs (s_v s0))) -> wc_get (s_v sA) ws = Some k).
  { intros ws k nids Hin. unfold wc_get. rewrite WA, W1. apply Hget. apply (HMl _ _ _ Hin). }
  destruct (uwc_fold mapping (length (s_g sA)) _ sA [] sf rec (fun a b c Hi => proj1 (HMl a b c Hi)) NDl
              (fun k c Hc => ltac:(discriminate)) (le_n _) HP EF) as [HR [L [O [Wn [_ [_ Fo]]]]]].
  intros ws k Hb. unfold wc_get. rewrite update_heads_wcs, update_heads_graph. fold (wc_get (s_v sf) ws).
  destruct (aget Nat.eqb k mapping) as [nids|] eqn:Ek.
  - split; [apply (resolve_mapping_spec _ _ _ EM k nids Ek)|].
    assert (Hin : In (ws, k, nids) (flat_map F (v_wcs (s_v s0)))).
    { apply in_flat_map. exists (ws, k). split; [now apply (aget_In N.eqb Neqb_spec)|].
      unfold F. cbn [fst snd]. rewrite Ek. now left. }
    destruct (Fo ws k nids Hin) as [c [A B]]. exists c. split; [exact A|]. rewrite PA in B.
    destruct (is_abandoned (pm_get (s_pm s1) k)); [|exact B].
    destruct (HR k c B) as [Lc [ns [M [P1 P2]]]]. rewrite Ek in M. injection M as <-.
    split; [rewrite <- GA; lia|split; assumption].
  - rewrite Wn.
    + unfold wc_get. rewrite WA, W1. exact Hb.
    + intros Hin. apply in_map_iff in Hin. destruct Hin as [[[w k'] n] [E Hin]]. cbn [fst] in E. subst w.
      destruct (HMl _ _ _ Hin) as [M Hin2]. rewrite (Hget _ _ Hin2) in Hb. injection Hb as ->. congruence.
Qed.
