(** C11: local bookmarks and working copies follow the rewrites (model level). *)
From Verif Require Import Base.Prelude Base.DagV Model.Merge Model.RepoV Model.C11
  Proofs.C10 Proofs.C11 Proofs.C11Loop Proofs.C11Refs Proofs.C11View.
From Coq Require Import Lia Arith.

(** * Association lists keyed by [N] *)
Section NAssoc.
  Context {V : Type}.
  Lemma naget_aset_same k (v : V) l : aget N.eqb k (aset N.eqb N.ltb k v l) = Some v.
  Proof.
    induction l as [|[k' v'] t IH]; cbn [aset aget]; [now rewrite N.eqb_refl|].
    destruct (N.eqb k k') eqn:E; cbn [aget]; [now rewrite N.eqb_refl|].
    destruct (N.ltb k k'); cbn [aget]; [now rewrite N.eqb_refl|]. now rewrite E.
  Qed.
  Lemma naget_aset_other k k2 (v : V) l : k2 <> k ->
    aget N.eqb k2 (aset N.eqb N.ltb k v l) = aget N.eqb k2 l.
  Proof.
    intros N. induction l as [|[k' v'] t IH]; cbn [aset aget].
    - apply N.eqb_neq in N. now rewrite N.
    - destruct (N.eqb k k') eqn:E.
      + apply N.eqb_eq in E. subst k'. cbn [aget]. apply N.eqb_neq in N. now rewrite N.
      + destruct (N.ltb k k'); cbn [aget].
        * apply N.eqb_neq in N. now rewrite N.
        * destruct (N.eqb k2 k'); [reflexivity|assumption].
  Qed.
  Lemma naget_adel_same k (l : list (N * V)) : aget N.eqb k (adel N.eqb k l) = None.
  Proof.
    induction l as [|[k' v'] t IH]; cbn [adel aget]; [reflexivity|].
    destruct (N.eqb k k') eqn:E; [assumption|]. cbn [aget]. now rewrite E.
  Qed.
  Lemma naget_adel_other k k2 (l : list (N * V)) : k2 <> k ->
    aget N.eqb k2 (adel N.eqb k l) = aget N.eqb k2 l.
  Proof.
    intros N. induction l as [|[k' v'] t IH]; cbn [adel aget]; [reflexivity|].
    destruct (N.eqb k k') eqn:E.
    - apply N.eqb_eq in E. subst k'. rewrite IH. apply N.eqb_neq in N. now rewrite N.
    - cbn [aget]. destruct (N.eqb k2 k'); [reflexivity|assumption].
  Qed.
End NAssoc.

Lemma fold_add_head_bms hs : forall v, v_bms (fold_left view_add_head hs v) = v_bms v.
Proof. intros v. apply (fold_add_head_fields hs v). Qed.

(** The bookmark [name] after set_local_bookmark_target. *)
Lemma bm_get_set_same st name t :
  bm_get (s_v (set_local_bookmark_target st name t)) name = t.
Proof.
  unfold set_local_bookmark_target, bm_get. cbn [set_view s_v v_bms].
  rewrite fold_add_head_bms. destruct (is_absent t) eqn:E.
  - rewrite naget_adel_same. destruct t as [|[x|] [|? ?]]; try discriminate. reflexivity.
  - now rewrite naget_aset_same.
Qed.
Lemma bm_get_set_other st name nm t : name <> nm ->
  bm_get (s_v (set_local_bookmark_target st nm t)) name = bm_get (s_v st) name.
Proof.
  intros N. unfold set_local_bookmark_target, bm_get. cbn [set_view s_v v_bms].
  rewrite fold_add_head_bms. destruct (is_absent t).
  - now rewrite naget_adel_other.
  - now rewrite naget_aset_other.
Qed.

Lemma target_eqb_refl t : target_eqb t t = true.
Proof. now apply target_eqb_spec. Qed.

(** Merging [other] into a bookmark that sits exactly at the base gives [other]. *)
Lemma merge_ref_targets_at_base g k other : merge_ref_targets g [Some k] [Some k] other = other.
Proof.
  unfold merge_ref_targets. cbn [trivial_merge].
  destruct (target_eqb [Some k] other) eqn:E; cbn [andb].
  - apply target_eqb_spec in E. now subst.
  - now rewrite target_eqb_refl.
Qed.

Lemma fold_res_app {A B} (f : res A -> B -> res A) l1 l2 a c :
  (forall b, f Err b = Err) -> (forall b, f Panic b = Panic) -> (forall b, f Fuel b = Fuel) ->
  fold_left f (l1 ++ l2) (Ok a) = Ok c ->
  exists b, fold_left f l1 (Ok a) = Ok b /\ fold_left f l2 (Ok b) = Ok c.
Proof.
  intros E P F H. rewrite fold_left_app in H.
  destruct (fold_left f l1 (Ok a)) as [b| | |] eqn:E1.
  - exists b. auto.
  - exfalso. eapply (fold_res_stuck f l2 Err); [| | | |exact H]; auto; discriminate.
  - exfalso. eapply (fold_res_stuck f l2 Panic); [| | | |exact H]; auto; discriminate.
  - exfalso. eapply (fold_res_stuck f l2 Fuel); [| | | |exact H]; auto; discriminate.
Qed.

(** ** update_local_bookmarks on one bookmark *)
Definition ulb_step (del : bool) (acc : res state) (ch : N * nat * list nat) : res state :=
  do s1 <- acc;
  let '(name, old, nids) := ch in
  let should_delete := del && is_abandoned (pm_get (s_pm s1) old) in
  if should_delete then Ok (merge_local_bookmark s1 name [Some old] absent_target)
  else match nids with
       | [] => Panic
       | _ => Ok (merge_local_bookmark s1 name [Some old] (intersperse (map Some nids) (Some old)))
       end.

Lemma ulb_other del name l : forall st st',
  (forall nm old nids, In (nm, old, nids) l -> nm <> name) ->
  fold_left (ulb_step del) l (Ok st) = Ok st' ->
  bm_get (s_v st') name = bm_get (s_v st) name /\ s_pm st' = s_pm st.
Proof.
  induction l as [|[[nm old] nids] t IH]; intros st st' Hn H; cbn [fold_left] in H.
  - apply Ok_inj in H. now subst.
  - assert (Nn : nm <> name) by (eapply Hn; now left).
    unfold ulb_step at 2 in H. cbn [bind] in H.
    assert (St : forall other, bm_get (s_v (merge_local_bookmark st nm [Some old] other)) name = bm_get (s_v st) name
                 /\ s_pm (merge_local_bookmark st nm [Some old] other) = s_pm st).
    { intros other. unfold merge_local_bookmark. split; [apply bm_get_set_other; congruence|reflexivity]. }
    destruct (del && is_abandoned (pm_get (s_pm st) old)).
    + destruct (IH _ _ (fun a b c Hi => Hn a b c (or_intror Hi)) H) as [A B].
      destruct (St absent_target) as [C D]. rewrite A, B, C, D. auto.
    + destruct nids as [|n ns].
      * exfalso. eapply (fold_res_stuck (ulb_step del) t Panic); [| | | |exact H]; try reflexivity; discriminate.
      * destruct (IH _ _ (fun a b c Hi => Hn a b c (or_intror Hi)) H) as [A B].
        destruct (St (intersperse (map Some (n :: ns)) (Some old))) as [C D]. rewrite A, B, C, D. auto.
Qed.

Definition expected_bm (del : bool) pm (k : nat) (nids : list nat) : target :=
  if del && is_abandoned (pm_get pm k) then absent_target
  else intersperse (map Some nids) (Some k).

Theorem update_local_bookmarks_follow st mapping del st' name k nids :
  NoDup (map fst (v_bms (s_v st))) ->
  aget N.eqb name (v_bms (s_v st)) = Some [Some k] ->
  aget Nat.eqb k mapping = Some nids ->
  update_local_bookmarks st mapping del = Ok st' ->
  bm_get (s_v st') name = expected_bm del (s_pm st) k nids.
Proof.
  intros ND Hb Hk H. unfold update_local_bookmarks in H.
  change (fold_left _ ?l (Ok st) = Ok st') with (fold_left (ulb_step del) l (Ok st) = Ok st') in H.
  set (F := fun p : N * target =>
      flat_map (fun id => match aget Nat.eqb id mapping with
                          | Some nids => [(fst p, id, nids)]
                          | None => []
                          end) (added_ids (snd p))) in *.
  apply (aget_In N.eqb Neqb_spec) in Hb.
  destruct (in_split _ _ Hb) as [l1 [l2 E]].
  rewrite E in H, ND. rewrite flat_map_app in H.
  change (flat_map F ((name, [Some k]) :: l2)) with (F (name, [Some k]) ++ flat_map F l2) in H.
  assert (FN : F (name, [Some k]) = [(name, k, nids)]).
  { unfold F. cbn [fst snd added_ids evens somes flat_map]. rewrite Hk. reflexivity. }
  rewrite FN in H. rewrite map_app in ND. cbn [map fst] in ND.
  assert (N1 : forall nm old ns, In (nm, old, ns) (flat_map F l1) -> nm <> name).
  { intros nm old ns Hin. apply in_flat_map in Hin. destruct Hin as [[nm' t] [Hin1 Hin2]].
    unfold F in Hin2. apply in_flat_map in Hin2. destruct Hin2 as [id [_ Hin2]]. cbn [fst] in Hin2.
    destruct (aget Nat.eqb id mapping); [|contradiction]. destruct Hin2 as [Hin2|[]]. injection Hin2 as <- _ _.
    intros ->. apply NoDup_remove_2 in ND. apply ND. apply in_or_app. left.
    apply in_map_iff. exists (name, t). auto. }
  assert (N2 : forall nm old ns, In (nm, old, ns) (flat_map F l2) -> nm <> name).
  { intros nm old ns Hin. apply in_flat_map in Hin. destruct Hin as [[nm' t] [Hin1 Hin2]].
    unfold F in Hin2. apply in_flat_map in Hin2. destruct Hin2 as [id [_ Hin2]]. cbn [fst] in Hin2.
    destruct (aget Nat.eqb id mapping); [|contradiction]. destruct Hin2 as [Hin2|[]]. injection Hin2 as <- _ _.
    intros ->. apply NoDup_remove_2 in ND. apply ND. apply in_or_app. right.
    apply in_map_iff. exists (name, t). auto. }
  destruct (fold_res_app (ulb_step del) _ _ _ _ (fun _ => eq_refl) (fun _ => eq_refl) (fun _ => eq_refl) H) as [sa [H1 H2]].
  destruct (fold_res_app (ulb_step del) _ _ _ _ (fun _ => eq_refl) (fun _ => eq_refl) (fun _ => eq_refl) H2) as [sb [H3 H4]].
  destruct (ulb_other del name _ _ _ N1 H1) as [A1 B1].
  destruct (ulb_other del name _ _ _ N2 H4) as [A2 _].
  rewrite A2. cbn [fold_left] in H3. unfold ulb_step in H3. cbn [bind] in H3.
  assert (Ga : bm_get (s_v sa) name = [Some k]).
  { rewrite A1. unfold bm_get. rewrite E.
    assert (Hget : aget N.eqb name (l1 ++ (name, [Some k]) :: l2) = Some [Some k]).
    { clear -ND. induction l1 as [|[a b] t IH]; cbn [app aget].
      - now rewrite N.eqb_refl.
      - cbn [app map fst] in ND. inversion ND as [|? ? Hn Hd]; subst.
        destruct (N.eqb name a) eqn:E.
        + apply N.eqb_eq in E. subst a. exfalso. apply Hn. apply in_or_app. right. now left.
        + now apply IH. }
    match goal with |- match ?X with Some _ => _ | None => _ end = _ =>
      assert (EX : X = Some [Some k]) by exact Hget; now rewrite EX end. }
  unfold expected_bm. rewrite <- B1.
  assert (Mg : forall other, bm_get (s_v (merge_local_bookmark sa name [Some k] other)) name = other).
  { intros other. unfold merge_local_bookmark. rewrite bm_get_set_same, Ga. apply merge_ref_targets_at_base. }
  destruct (del && is_abandoned (pm_get (s_pm sa) k)).
  - apply Ok_inj in H3. subst sb. apply Mg.
  - destruct nids as [|n ns]; [discriminate|]. apply Ok_inj in H3. subst sb. apply Mg.
Qed.

(** ** The other phases leave the bookmarks alone *)
Lemma write_commit_bms s c src : v_bms (s_v (fst (write_commit s c src))) = v_bms (s_v s).
Proof. apply write_commit_view. Qed.

Lemma rebase_one_bms st o x st' : rebase_one st o x = Ok st' -> v_bms (s_v st') = v_bms (s_v st).
Proof.
  unfold rebase_one. destruct (new_parents _ _) as [np| | |]; cbn [bind]; try discriminate.
  destruct (list_nat_eqb _ _); [intros H; apply Ok_inj in H; now subst|].
  match goal with |- (if ?c then _ else _) = _ -> _ => destruct c end; intros H; apply Ok_inj in H; subst st'.
  - reflexivity.
  - apply write_commit_bms.
Qed.

Lemma rebase_fold_bms o order : forall st st', rebase_fold o order st = Ok st' -> v_bms (s_v st') = v_bms (s_v st).
Proof.
  unfold rebase_fold. intros st st' H.
  refine (fold_res_inv (fun s x => rebase_one s o x) (fun s => v_bms (s_v s) = v_bms (s_v st)) order _ st st' eq_refl H).
  intros a b a' Pa _ Hf. rewrite <- Pa. eapply rebase_one_bms; eassumption.
Qed.

Lemma maybe_abandon_bms s ws : v_bms (s_v (maybe_abandon_wc_commit s ws)) = v_bms (s_v s).
Proof.
  unfold maybe_abandon_wc_commit. destruct (wc_get (s_v s) ws); [|reflexivity].
  destruct (normalize_fields s) as [_ [_ [B _]]]. destruct (_ && _ && _); cbn [set_pm s_v]; assumption.
Qed.

Lemma edit_bms s ws c s' : edit s ws c = Some s' -> v_bms (s_v s') = v_bms (s_v s).
Proof.
  unfold edit. destruct (c =? 0); [discriminate|]. intros H.
  assert (E : forall (a b : state), Some a = Some b -> a = b) by (intros a b E0; congruence).
  apply E in H. subst s'. cbn [set_view s_v v_bms].
  destruct (add_heads_fields (maybe_abandon_wc_commit s ws) [c]) as [_ [_ [B _]]].
  rewrite B. apply maybe_abandon_bms.
Qed.

Lemma update_wc_commits_bms st mapping st' :
  update_wc_commits st mapping = Ok st' -> v_bms (s_v st') = v_bms (s_v st).
Proof.
  unfold update_wc_commits. intros H.
  match type of H with (do r <- fold_left _ ?l _; _) = _ => set (changed := l) in * end.
  destruct (fold_left _ changed (Ok (st, []))) as [[sf rec]| | |] eqn:F; cbn [bind] in H; try discriminate.
  apply Ok_inj in H. cbn [fst] in H. subst st'.
  refine (fold_res_inv (fun (sr : state * list (nat * nat)) (ch : N * nat * list nat) => _)
            (fun sr => v_bms (s_v (fst sr)) = v_bms (s_v st)) changed _ (st, []) (sf, rec) eq_refl F).
  intros [a recr] [[ws oldc] nids] a' Pa _ Hf. cbn [fst snd] in *. cbv beta iota in Hf.
  match type of Hf with (do sw <- ?X; _) = _ => destruct X as [[[s2 rec2] new_wc]| | |] eqn:EX end;
    cbn [bind] in Hf; try discriminate.
  assert (B2 : v_bms (s_v s2) = v_bms (s_v a)).
  { destruct (negb (is_abandoned (pm_get (s_pm a) oldc))).
    - destruct nids; [discriminate|]. apply Ok_inj in EX. now injection EX as <- _ _.
    - destruct (aget Nat.eqb oldc recr).
      + apply Ok_inj in EX. now injection EX as <- _ _.
      + destruct nids as [|n ns] eqn:En; [discriminate|].
        destruct (write_commit a (fresh_commit (s_g a) (n :: ns) 0 true) None) as [sw nw] eqn:EW.
        apply Ok_inj in EX. injection EX as <- _ _.
        change sw with (fst (sw, nw)). rewrite <- EW. apply write_commit_bms. }
  destruct (edit s2 ws new_wc) as [s3|] eqn:EE; [|discriminate]. apply Ok_inj in Hf. subst a'. cbn [fst].
  rewrite (edit_bms _ _ _ _ EE), B2. exact Pa.
Qed.

Lemma update_heads_bms st : v_bms (s_v (update_heads st)) = v_bms (s_v st).
Proof.
  unfold update_heads.
  match goal with |- v_bms (s_v (normalize ?X)) = _ => destruct (normalize_fields X) as [_ [_ [B _]]]; rewrite B end.
  reflexivity.
Qed.

(** * Bookmarks follow: an unconflicted bookmark at a commit with a rewrite record ends at the full
    resolution of that record (a conflict of all of them with the old commit as base when there
    are several; deleted for an abandoned commit when requested); an unconflicted bookmark at a
    commit without record stays. For any ordering function. *)
Theorem bookmarks_follow_model s0 o ord s' :
  NoDup (map fst (v_bms (s_v s0))) ->
  rebase_descendants_with ord s0 o = Ok s' ->
  exists s1 mapping, rebase_loop_with ord s0 o = Ok s1 /\
    resolve_rewrite_mapping (s_pm s1) (fun _ => true) = Ok mapping /\
    forall name k, aget N.eqb name (v_bms (s_v s0)) = Some [Some k] ->
      match aget Nat.eqb k mapping with
      | Some nids =>
          rewritten_ids_with (s_pm s1) (fun _ => true) [k] = Ok nids /\
          bm_get (s_v s') name = expected_bm (o_delete_abandoned o) (s_pm s1) k nids
      | None => bm_get (s_v s') name = [Some k]
      end.
Proof.
  intros ND H. unfold rebase_descendants_with in H.
  destruct (rebase_loop_with ord s0 o) as [s1| | |] eqn:EL; cbn [bind] in H; try discriminate.
  destruct (update_rewritten_references s1 (o_delete_abandoned o)) as [s2| | |] eqn:EU; cbn [bind] in H; try discriminate.
  apply Ok_inj in H. subst s'. cbn [set_pm s_v].
  unfold update_rewritten_references in EU.
  destruct (resolve_rewrite_mapping (s_pm s1) (fun _ => true)) as [mapping| | |] eqn:EM; cbn [bind] in EU; try discriminate.
  destruct (update_local_bookmarks s1 mapping (o_delete_abandoned o)) as [sA| | |] eqn:EA; cbn [bind] in EU; try discriminate.
  destruct (update_wc_commits sA mapping) as [sB| | |] eqn:EB; cbn [bind] in EU; try discriminate.
  apply Ok_inj in EU. subst s2.
  exists s1, mapping. split; [reflexivity|]. split; [exact EM|].
  assert (B1 : v_bms (s_v s1) = v_bms (s_v s0)).
  { unfold rebase_loop_with in EL. destruct (ord _ _ _) as [order| | |]; cbn [bind] in EL; try discriminate.
    eapply rebase_fold_bms; eassumption. }
  intros name k Hb.
  assert (Bf : bm_get (s_v (update_heads sB)) name = bm_get (s_v sA) name).
  { unfold bm_get. now rewrite update_heads_bms, (update_wc_commits_bms _ _ _ EB). }
  rewrite Bf. rewrite <- B1 in Hb, ND.
  destruct (aget Nat.eqb k mapping) as [nids|] eqn:Ek.
  - split; [apply (resolve_mapping_spec _ _ _ EM k nids Ek)|].
    eapply update_local_bookmarks_follow; eassumption.
  - (* no item mentions this bookmark *)
    unfold update_local_bookmarks in EA.
    change (fold_left _ ?l (Ok s1) = Ok sA) with (fold_left (ulb_step (o_delete_abandoned o)) l (Ok s1) = Ok sA) in EA.
    match type of EA with fold_left _ ?l _ = _ => set (changed := l) in * end.
    assert (Nn : forall nm old nids, In (nm, old, nids) changed -> nm <> name).
    { intros nm old nids Hin. unfold changed in Hin. apply in_flat_map in Hin.
      destruct Hin as [[nm' t] [Hin1 Hin2]]. apply in_flat_map in Hin2. destruct Hin2 as [id [Hid Hin2]].
      cbn [fst snd] in *. destruct (aget Nat.eqb id mapping) eqn:Eid; [|contradiction].
      destruct Hin2 as [Hin2|[]]. injection Hin2 as <- <- _. intros ->.
      apply (aget_In N.eqb Neqb_spec) in Hb.
      assert (t = [Some k]).
      { clear -ND Hb Hin1. induction (v_bms (s_v s1)) as [|[a b] l IH]; [contradiction|].
        cbn [map fst] in ND. inversion ND as [|? ? Hn Hd]; subst.
        destruct Hb as [Hb|Hb]; destruct Hin1 as [Hi|Hi].
        - congruence.
        - injection Hb as -> ->. exfalso. apply Hn. apply in_map_iff. exists (name, t). auto.
        - injection Hi as -> ->. exfalso. apply Hn. apply in_map_iff. exists (name, [Some k]). auto.
        - auto. }
      subst t. cbn [added_ids evens somes] in Hid. destruct Hid as [<-|[]]. congruence. }
    destruct (ulb_other _ name changed s1 sA Nn EA) as [A _]. rewrite A.
    unfold bm_get. now rewrite Hb.
Qed.
