(** C20 proofs: shortest unique prefixes computed from neighbours in per-segment sorted tables
    are unique, minimal and resolve back, whatever the segmentation. *)
From Verif Require Import Base.Prelude Base.DagI Model.C20.
From Coq Require Import Lia Arith.
Local Open Scope nat_scope.

(** * the order on ids *)
Lemma id_eqb_spec a : forall b, id_eqb a b = true <-> a = b.
Proof.
  induction a as [|x a IH]; intros [|y b]; simpl; try (split; [discriminate|discriminate]); [tauto|].
  rewrite andb_true_iff, Nat.eqb_eq, IH. split; [intros [-> ->]; reflexivity|].
  intros E. inversion E. tauto.
Qed.

Lemma id_eqb_sym_bool a b : id_eqb a b = id_eqb b a.
Proof.
  destruct (id_eqb a b) eqn:E1, (id_eqb b a) eqn:E2; try reflexivity.
  - apply id_eqb_spec in E1. subst. assert (id_eqb b b = true) by (now apply id_eqb_spec). congruence.
  - apply id_eqb_spec in E2. subst. assert (id_eqb a a = true) by (now apply id_eqb_spec). congruence.
Qed.

Lemma id_eqb_refl a : id_eqb a a = true.
Proof. now apply id_eqb_spec. Qed.

Lemma id_eqb_false a b : id_eqb a b = false <-> a <> b.
Proof. rewrite <- id_eqb_spec. destruct (id_eqb a b); split; congruence. Qed.

Lemma id_ltb_irrefl a : id_ltb a a = false.
Proof.
  induction a as [|x a IH]; simpl; [reflexivity|].
  rewrite Nat.ltb_irrefl, Nat.eqb_refl, IH. reflexivity.
Qed.

Lemma id_ltb_trans a : forall b c, id_ltb a b = true -> id_ltb b c = true -> id_ltb a c = true.
Proof.
  induction a as [|x a IH]; intros [|y b] [|z c]; simpl; try discriminate; try reflexivity.
  rewrite !orb_true_iff, !andb_true_iff, !Nat.ltb_lt, !Nat.eqb_eq.
  intros [L1|[E1 H1]] [L2|[E2 H2]]; subst; try (left; lia).
  right. split; [reflexivity|]. eapply IH; eassumption.
Qed.

Lemma id_trichotomy a : forall b, id_ltb a b = true \/ a = b \/ id_ltb b a = true.
Proof.
  induction a as [|x a IH]; intros [|y b]; simpl; auto.
  destruct (Nat.lt_trichotomy x y) as [L|[->|L]].
  - left. apply orb_true_iff. left. now apply Nat.ltb_lt.
  - destruct (IH b) as [H|[->|H]].
    + left. rewrite Nat.eqb_refl, H. apply orb_true_r.
    + right. now left.
    + right. right. rewrite Nat.eqb_refl, H. apply orb_true_r.
  - right. right. apply orb_true_iff. left. now apply Nat.ltb_lt.
Qed.

Lemma id_ltb_asym a b : id_ltb a b = true -> id_ltb b a = false.
Proof.
  intros H. destruct (id_ltb b a) eqn:E; [|reflexivity].
  pose proof (id_ltb_trans _ _ _ H E) as C. now rewrite id_ltb_irrefl in C.
Qed.

Lemma common_len_sym a : forall b, common_len a b = common_len b a.
Proof.
  induction a as [|x a IH]; intros [|y b]; simpl; try reflexivity.
  rewrite (Nat.eqb_sym y x). destruct (x =? y); [now rewrite IH|reflexivity].
Qed.

Lemma common_len_le a : forall b, common_len a b <= length a.
Proof.
  induction a as [|x a IH]; intros [|y b]; simpl; try lia.
  destruct (x =? y); [specialize (IH b)|]; lia.
Qed.

(** for a < b < c the common prefix of the outer two is no longer than either inner one *)
Lemma sandwich a : forall b c, id_ltb a b = true -> id_ltb b c = true ->
  common_len a c <= common_len b c /\ common_len a c <= common_len a b.
Proof.
  induction a as [|x a IH]; intros [|y b] [|z c]; simpl; try discriminate; try lia.
  rewrite !orb_true_iff, !andb_true_iff, !Nat.ltb_lt, !Nat.eqb_eq.
  intros H1 H2. destruct (Nat.eqb_spec x z) as [->|N]; [|lia].
  destruct H1 as [L1|[-> H1]]; destruct H2 as [L2|[E2 H2]]; try lia.
  subst. rewrite !Nat.eqb_refl. destruct (IH _ _ H1 H2). lia.
Qed.

Lemma matches_common l k : forall x, l <= length k ->
  (matches (firstn l k) x = true <-> l <= common_len k x).
Proof.
  revert k. induction l as [|l IH]; intros k x L; simpl.
  - split; [lia|reflexivity].
  - destruct k as [|d k]; [simpl in L; lia|]. simpl in L. destruct x as [|e x]; simpl.
    + split; [discriminate|lia].
    + rewrite andb_true_iff, Nat.eqb_eq. destruct (Nat.eqb_spec d e) as [->|N].
      * rewrite IH by lia. split; [intros [_ H]; lia|intros H; split; [reflexivity|lia]].
      * split; [intros [C _]; congruence|lia].
Qed.

Lemma matches_prefix_ge pfx : forall x, matches pfx x = true -> id_ltb x pfx = false.
Proof.
  induction pfx as [|d p IH]; intros [|e x]; simpl; try reflexivity; [discriminate|].
  rewrite andb_true_iff, Nat.eqb_eq. intros [-> H]. rewrite Nat.ltb_irrefl, Nat.eqb_refl.
  simpl. now apply IH.
Qed.

Lemma matches_longer_ge pfx : forall x, matches pfx x = true -> length pfx < length x ->
  id_ltb x (pfx ++ [0]) = false.
Proof.
  induction pfx as [|d p IH]; intros [|e x]; simpl; try lia.
  - intros _ _. destruct (e <? 0) eqn:E; [apply Nat.ltb_lt in E; lia|]. simpl.
    destruct (e =? 0); [|reflexivity]. simpl. destruct x; reflexivity.
  - rewrite andb_true_iff, Nat.eqb_eq. intros [-> H] L. rewrite Nat.ltb_irrefl, Nat.eqb_refl.
    simpl. apply IH; [assumption|lia].
Qed.

(** a string that is not below the prefix and does not match it is above every match *)
Lemma above_matches pfx : forall k z,
  id_ltb k pfx = false -> matches pfx k = false -> matches pfx z = true -> id_ltb z k = true.
Proof.
  induction pfx as [|d p IH]; intros k z; simpl.
  - discriminate.
  - destruct k as [|e k]; [discriminate|]. destruct z as [|f z]; [discriminate|]. simpl.
    rewrite andb_true_iff, Nat.eqb_eq. intros Hk Hm [-> Hz].
    apply orb_false_iff in Hk. destruct Hk as [Hk1 Hk2]. apply Nat.ltb_ge in Hk1.
    destruct (Nat.eqb_spec e f) as [->|N].
    + rewrite ?Nat.eqb_refl in Hk2. rewrite Nat.eqb_refl in Hm. simpl in Hk2, Hm.
      rewrite Nat.ltb_irrefl, Nat.eqb_refl. simpl. now apply IH.
    + apply orb_true_iff. left. apply Nat.ltb_lt. lia.
Qed.

Lemma matches_between pfx : forall x y z,
  id_ltb x y = true -> id_ltb y z = true -> matches pfx x = true -> matches pfx z = true ->
  matches pfx y = true.
Proof.
  induction pfx as [|d p IH]; intros x y z; simpl; [reflexivity|].
  destruct x as [|a x]; [discriminate|]. destruct z as [|c z]; [intros; discriminate|].
  destruct y as [|b y]; [simpl; discriminate|]. simpl.
  rewrite !andb_true_iff, !orb_true_iff, !andb_true_iff, !Nat.ltb_lt, !Nat.eqb_eq.
  intros H1 H2 [-> Hx] [-> Hz].
  destruct H1 as [L1|[E1 H1]]; destruct H2 as [L2|[E2 H2]]; subst; try lia.
  split; [reflexivity|]. eapply IH; eassumption.
Qed.

Lemma common_len_self a : common_len a a = length a.
Proof. induction a as [|d t IH]; simpl; [reflexivity|]. now rewrite Nat.eqb_refl, IH. Qed.

Lemma common_len_lt a : forall b, length a = length b -> a <> b -> common_len a b < length a.
Proof.
  induction a as [|x a IH]; intros [|y b]; simpl; try discriminate; [congruence|].
  intros L N. destruct (Nat.eqb_spec x y) as [->|Nx]; [|lia].
  assert (a <> b) by congruence. injection L as L. specialize (IH b L H). lia.
Qed.

(** * one sorted segment *)
Section Seg.
  Context {V : Type}.
  Notation table := (@table V).

  Fixpoint sorted_tb (tb : table) : Prop :=
    match tb with
    | [] => True
    | e :: r => (forall e', In e' r -> id_ltb (fst e) (fst e') = true) /\ sorted_tb r
    end.
  Definition keys (tb : table) : list id := map fst tb.

  Definition is_prev (k : id) (S : list id) (o : option id) : Prop :=
    match o with
    | Some p => In p S /\ id_ltb p k = true /\ forall x, In x S -> id_ltb x k = true -> id_ltb p x = false
    | None => forall x, In x S -> id_ltb x k = false
    end.
  Definition is_next (k : id) (S : list id) (o : option id) : Prop :=
    match o with
    | Some p => In p S /\ id_ltb k p = true /\ forall x, In x S -> id_ltb k x = true -> id_ltb x p = false
    | None => forall x, In x S -> id_ltb k x = false
    end.

  Lemma seg_prev_gen k : forall tb done best, sorted_tb tb ->
    is_prev k done best -> (forall d e, In d done -> In e tb -> id_ltb d (fst e) = true) ->
    is_prev k (done ++ keys tb) (seg_prev k tb best).
  Proof.
    induction tb as [|[k' v] r IH]; intros done best St Hb Hd; simpl.
    - now rewrite app_nil_r.
    - destruct St as [Hk' Sr]. destruct (id_ltb k' k) eqn:E.
      + replace (done ++ k' :: keys r) with ((done ++ [k']) ++ keys r) by (now rewrite <- app_assoc).
        apply IH; [assumption| |].
        * split; [apply in_or_app; right; now left|]. split; [assumption|].
          intros x Hx _. apply in_app_or in Hx. destruct Hx as [Hx|[<-|[]]].
          -- apply id_ltb_asym. apply (Hd x (k', v)); [assumption|now left].
          -- apply id_ltb_irrefl.
        * intros d e Hd' He. apply in_app_or in Hd'. destruct Hd' as [Hd'|[<-|[]]].
          -- apply (Hd d e); [assumption|now right].
          -- now apply Hk'.
      + assert (Hge : forall x, In x (k' :: keys r) -> id_ltb x k = false).
        { intros x [<-|Hx]; [assumption|]. apply in_map_iff in Hx. destruct Hx as (e & <- & He).
          destruct (id_ltb (fst e) k) eqn:C; [|reflexivity].
          pose proof (id_ltb_trans _ _ _ (Hk' e He) C). simpl in H. congruence. }
        destruct best as [p|]; simpl in *.
        * destruct Hb as (H1 & H2 & H3). split; [apply in_or_app; now left|]. split; [assumption|].
          intros x Hx Lx. apply in_app_or in Hx. destruct Hx as [Hx|Hx]; [now apply H3|].
          rewrite (Hge x Hx) in Lx. discriminate.
        * intros x Hx. apply in_app_or in Hx. destruct Hx as [Hx|Hx]; [now apply Hb|now apply Hge].
  Qed.

  Lemma seg_prev_ok k tb : sorted_tb tb -> is_prev k (keys tb) (seg_prev k tb None).
  Proof.
    intros St. apply (seg_prev_gen k tb [] None St); [intros x []|intros d e []].
  Qed.

  Lemma seg_next_ok k tb : sorted_tb tb -> is_next k (keys tb) (seg_next k tb).
  Proof.
    induction tb as [|[k' v] r IH]; intros St; simpl; [intros x []|].
    destruct St as [Hk' Sr]. destruct (id_ltb k k') eqn:E.
    - split; [now left|]. split; [assumption|]. intros x [<-|Hx] _; [apply id_ltb_irrefl|].
      apply in_map_iff in Hx. destruct Hx as (e & <- & He). apply id_ltb_asym. now apply (Hk' e).
    - specialize (IH Sr). destruct (seg_next k r) as [p|]; simpl in *.
      + destruct IH as (H1 & H2 & H3). split; [now right|]. split; [assumption|].
        intros x [<-|Hx] Lx; [congruence|now apply H3].
      + intros x [<-|Hx]; [assumption|now apply IH].
  Qed.

  (** lower bound + take_while = all matching entries *)
  Lemma take_matching_filter pfx m : forall tb, sorted_tb tb ->
    (forall e, In e tb -> id_ltb (fst e) m = false) ->
    (forall x, id_ltb x m = false -> id_ltb x pfx = false) ->
    take_matching pfx tb = filter (fun e => matches pfx (fst e)) tb.
  Proof.
    intros tb St Hm Hmp. induction tb as [|[k v] r IH]; simpl; [reflexivity|].
    destruct St as [Hk Sr]. destruct (matches pfx k) eqn:E.
    - f_equal. apply IH; [assumption|]. intros e He. apply Hm. now right.
    - symmetry. assert (X : forall e, In e r -> matches pfx (fst e) = false).
      { intros e He. destruct (matches pfx (fst e)) eqn:C; [|reflexivity].
        assert (Hkm : id_ltb k pfx = false) by (apply Hmp, (Hm (k, v)); now left).
        pose proof (above_matches pfx k (fst e) Hkm E C) as L.
        pose proof (id_ltb_asym _ _ (Hk e He)) as A. simpl in A. congruence. }
      clear - X. induction r as [|e r IH]; simpl; [reflexivity|].
      rewrite (X e (or_introl eq_refl)). apply IH. intros e' He'. apply X. now right.
  Qed.

  Lemma drop_below_filter pfx m : forall tb, sorted_tb tb ->
    (forall e, In e tb -> matches pfx (fst e) = true -> id_ltb (fst e) m = false) ->
    sorted_tb (drop_below m tb) /\
    (forall e, In e (drop_below m tb) -> id_ltb (fst e) m = false) /\
    filter (fun e => matches pfx (fst e)) (drop_below m tb) = filter (fun e => matches pfx (fst e)) tb.
  Proof.
    induction tb as [|[k v] r IH]; intros St Hm; simpl; [repeat split; tauto|].
    destruct St as [Hk Sr]. destruct (id_ltb k m) eqn:E.
    - destruct (IH Sr) as (H1 & H2 & H3); [intros e He; apply Hm; now right|].
      split; [assumption|]. split; [assumption|]. rewrite H3.
      destruct (matches pfx k) eqn:C; [|reflexivity].
      pose proof (Hm (k, v) (or_introl eq_refl) C). simpl in H. congruence.
    - split; [split; assumption|]. split; [|reflexivity].
      intros e [<-|He]; [assumption|]. simpl. destruct (id_ltb (fst e) m) eqn:C; [|reflexivity].
      pose proof (id_ltb_trans _ _ _ (Hk e He) C). simpl in H. congruence.
  Qed.

  Definition classify {T} (l : list T) : resolution T :=
    match l with [] => NoMatch | [e] => SingleMatch e | _ => AmbiguousMatch end.

  (** keys are whole bytes: an odd-length prefix is always shorter than a key *)
  Definition long_keys (pfx : id) (tb : table) : Prop :=
    Nat.odd (length pfx) = true -> forall e, In e tb -> length pfx < length (fst e).

  Lemma seg_resolve_spec pfx tb : sorted_tb tb -> long_keys pfx tb ->
    seg_resolve pfx tb = classify (filter (fun e => matches pfx (fst e)) tb).
  Proof.
    intros St Hl. unfold seg_resolve.
    destruct (drop_below_filter pfx (min_prefix pfx) tb St) as (H1 & H2 & H3).
    { intros e He Hm. unfold min_prefix. destruct (Nat.odd (length pfx)) eqn:O.
      - apply matches_longer_ge; [assumption|]. now apply Hl.
      - now apply matches_prefix_ge. }
    rewrite (take_matching_filter pfx (min_prefix pfx) _ H1 H2).
    - rewrite H3. unfold classify. destruct (filter _ tb) as [|e [|e' l]]; reflexivity.
    - intros x Hx. unfold min_prefix in Hx. destruct (Nat.odd (length pfx)); [|assumption].
      destruct (id_ltb x pfx) eqn:C; [|reflexivity].
      assert (P : id_ltb pfx (pfx ++ [0]) = true).
      { clear. induction pfx as [|d p IH]; simpl; [reflexivity|].
        rewrite Nat.eqb_refl, IH. apply orb_true_r. }
      pose proof (id_ltb_trans _ _ _ C P). congruence.
  Qed.
End Seg.

(** * the segment stack *)
Section StackProofs.
  Context {V : Type}.
  Notation table := (@table V).
  Definition all_keys (segs : list table) : list id := flat_map keys segs.

  Lemma is_prev_app k S1 S2 o1 o2 :
    is_prev k S1 o1 -> is_prev k S2 o2 -> is_prev k (S1 ++ S2) (opt_max o1 o2).
  Proof.
    destruct o1 as [p1|], o2 as [p2|]; simpl.
    - intros (A1 & A2 & A3) (B1 & B2 & B3). destruct (id_ltb p1 p2) eqn:E.
      + split; [apply in_or_app; now right|]. split; [assumption|].
        intros x Hx Lx. apply in_app_or in Hx. destruct Hx as [Hx|Hx]; [|now apply B3].
        destruct (id_ltb p2 x) eqn:C; [|reflexivity].
        pose proof (id_ltb_trans _ _ _ E C). rewrite (A3 x Hx Lx) in H. discriminate.
      + split; [apply in_or_app; now left|]. split; [assumption|].
        intros x Hx Lx. apply in_app_or in Hx. destruct Hx as [Hx|Hx]; [now apply A3|].
        destruct (id_ltb p1 x) eqn:C; [|reflexivity]. specialize (B3 x Hx Lx).
        destruct (id_trichotomy p1 p2) as [H|[->|H]]; [congruence|congruence|].
        pose proof (id_ltb_trans _ _ _ H C). congruence.
    - intros (A1 & A2 & A3) B. split; [apply in_or_app; now left|]. split; [assumption|].
      intros x Hx Lx. apply in_app_or in Hx. destruct Hx as [Hx|Hx]; [now apply A3|].
      rewrite (B x Hx) in Lx. discriminate.
    - intros A (B1 & B2 & B3). split; [apply in_or_app; now right|]. split; [assumption|].
      intros x Hx Lx. apply in_app_or in Hx. destruct Hx as [Hx|Hx]; [|now apply B3].
      rewrite (A x Hx) in Lx. discriminate.
    - intros A B x Hx. apply in_app_or in Hx. destruct Hx; auto.
  Qed.

  Lemma is_next_app k S1 S2 o1 o2 :
    is_next k S1 o1 -> is_next k S2 o2 -> is_next k (S1 ++ S2) (opt_min o1 o2).
  Proof.
    destruct o1 as [p1|], o2 as [p2|]; simpl.
    - intros (A1 & A2 & A3) (B1 & B2 & B3). destruct (id_ltb p2 p1) eqn:E.
      + split; [apply in_or_app; now right|]. split; [assumption|].
        intros x Hx Lx. apply in_app_or in Hx. destruct Hx as [Hx|Hx]; [|now apply B3].
        destruct (id_ltb x p2) eqn:C; [|reflexivity].
        pose proof (id_ltb_trans _ _ _ C E). rewrite (A3 x Hx Lx) in H. discriminate.
      + split; [apply in_or_app; now left|]. split; [assumption|].
        intros x Hx Lx. apply in_app_or in Hx. destruct Hx as [Hx|Hx]; [now apply A3|].
        destruct (id_ltb x p1) eqn:C; [|reflexivity]. specialize (B3 x Hx Lx).
        destruct (id_trichotomy p2 p1) as [H|[->|H]]; [congruence|congruence|].
        pose proof (id_ltb_trans _ _ _ C H). congruence.
    - intros (A1 & A2 & A3) B. split; [apply in_or_app; now left|]. split; [assumption|].
      intros x Hx Lx. apply in_app_or in Hx. destruct Hx as [Hx|Hx]; [now apply A3|].
      rewrite (B x Hx) in Lx. discriminate.
    - intros A (B1 & B2 & B3). split; [apply in_or_app; now right|]. split; [assumption|].
      intros x Hx Lx. apply in_app_or in Hx. destruct Hx as [Hx|Hx]; [|now apply B3].
      rewrite (A x Hx) in Lx. discriminate.
    - intros A B x Hx. apply in_app_or in Hx. destruct Hx; auto.
  Qed.

  Lemma neighbors_ok k : forall (segs : list table), Forall sorted_tb segs ->
    is_prev k (all_keys segs) (fst (neighbors k segs)) /\
    is_next k (all_keys segs) (snd (neighbors k segs)).
  Proof.
    unfold neighbors.
    assert (G : forall segs done acc, Forall sorted_tb segs ->
      is_prev k done (fst acc) -> is_next k done (snd acc) ->
      let r := fold_left (fun acc tb => (opt_max (fst acc) (seg_prev k tb None),
                                         opt_min (snd acc) (seg_next k tb))) segs acc in
      is_prev k (done ++ all_keys segs) (fst r) /\ is_next k (done ++ all_keys segs) (snd r)).
    { induction segs as [|tb segs IH]; intros done acc Fs Hp Hn; simpl.
      - rewrite app_nil_r. now split.
      - inversion Fs as [|? ? St Fs']; subst.
        unfold all_keys. simpl. rewrite app_assoc. apply IH; [assumption| |]; simpl.
        + apply is_prev_app; [assumption|now apply seg_prev_ok].
        + apply is_next_app; [assumption|now apply seg_next_ok]. }
    intros segs Fs. apply (G segs [] (None, None) Fs); simpl; intros x [].
  Qed.

  (** unique: any other key shares fewer than [shortest_len] digits with [k] *)
  Lemma shortest_len_unique k (segs : list table) : Forall sorted_tb segs ->
    forall x, In x (all_keys segs) -> x <> k -> common_len k x < shortest_len k segs.
  Proof.
    intros Fs x Hx Nx. destruct (neighbors_ok k segs Fs) as [Hp Hn]. unfold shortest_len.
    destruct (neighbors k segs) as [p nx]. simpl in Hp, Hn.
    destruct (id_trichotomy x k) as [L|[E|L]]; [|congruence|].
    - destruct p as [p|]; simpl in Hp; [|rewrite (Hp x Hx) in L; discriminate].
      destruct Hp as (P1 & P2 & P3). specialize (P3 x Hx L).
      destruct (id_trichotomy x p) as [H|[->|H]]; [|lia|congruence].
      destruct (sandwich x p k H P2) as [S1 _]. rewrite (common_len_sym k x), (common_len_sym k p). lia.
    - destruct nx as [q|]; simpl in Hn; [|rewrite (Hn x Hx) in L; discriminate].
      destruct Hn as (N1 & N2 & N3). specialize (N3 x Hx L).
      destruct (id_trichotomy q x) as [H|[->|H]]; [|lia|congruence].
      destruct (sandwich k q x N2 H) as [_ S2]. lia.
  Qed.

  (** minimal: one digit less is shared with some other key *)
  Lemma shortest_len_minimal k (segs : list table) m : Forall sorted_tb segs ->
    shortest_len k segs = S m ->
    exists x, In x (all_keys segs) /\ x <> k /\ m <= common_len k x.
  Proof.
    intros Fs E. destruct (neighbors_ok k segs Fs) as [Hp Hn]. unfold shortest_len in E.
    destruct (neighbors k segs) as [p nx]. simpl in Hp, Hn.
    assert (C : (exists y, p = Some y /\ m <= common_len k y) \/ (exists y, nx = Some y /\ m <= common_len k y)).
    { destruct p as [y|], nx as [z|].
      - destruct (Nat.max_spec (S (common_len k y)) (S (common_len k z))) as [[_ M]|[_ M]];
          rewrite M in E; [right; exists z|left; exists y]; split; try reflexivity; lia.
      - left. exists y. split; [reflexivity|]. rewrite Nat.max_0_r in E. lia.
      - right. exists z. split; [reflexivity|]. rewrite Nat.max_0_l in E. lia.
      - discriminate. }
    destruct C as [(y & -> & Hm)|(y & -> & Hm)].
    - destruct Hp as (P1 & P2 & _). exists y. split; [assumption|]. split; [|assumption].
      intros ->. now rewrite id_ltb_irrefl in P2.
    - destruct Hn as (N1 & N2 & _). exists y. split; [assumption|]. split; [|assumption].
      intros ->. now rewrite id_ltb_irrefl in N2.
  Qed.

  Lemma shortest_len_zero k (segs : list table) : Forall sorted_tb segs ->
    shortest_len k segs = 0 -> forall x, In x (all_keys segs) -> x = k.
  Proof.
    intros Fs E x Hx. destruct (list_eq_dec Nat.eq_dec x k) as [H|H]; [assumption|].
    pose proof (shortest_len_unique k segs Fs x Hx H). lia.
  Qed.
End StackProofs.

(** * resolution of commit id prefixes across the stack *)
Definition matching_keys {V} (pfx : id) (segs : list (@table V)) : list id :=
  flat_map (fun tb => map fst (filter (fun e => matches pfx (fst e)) tb)) segs.

Lemma resolve_commit_flat pfx : forall (segs : list (@table unit)),
  Forall sorted_tb segs -> Forall (long_keys pfx) segs ->
  resolve_commit pfx segs = classify (matching_keys pfx segs).
Proof.
  unfold resolve_commit.
  assert (G : forall (segs : list (@table unit)) l0, Forall sorted_tb segs -> Forall (long_keys pfx) segs ->
    fold_left (fun acc tb =>
                 match acc with
                 | AmbiguousMatch => acc
                 | _ => plus acc (match seg_resolve pfx tb with
                                  | NoMatch => NoMatch
                                  | SingleMatch e => SingleMatch (fst e)
                                  | AmbiguousMatch => AmbiguousMatch
                                  end)
                 end) segs (classify l0) = classify (l0 ++ matching_keys pfx segs)).
  { induction segs as [|tb segs IH]; intros l0 Fs Fl; simpl.
    - now rewrite app_nil_r.
    - inversion Fs as [|? ? St Fs']; subst. inversion Fl as [|? ? Lt Fl']; subst.
      unfold matching_keys. simpl. rewrite app_assoc. rewrite <- IH by assumption. f_equal.
      rewrite (seg_resolve_spec pfx tb St Lt).
      destruct (filter (fun e => matches pfx (fst e)) tb) as [|e [|e' l]];
        destruct l0 as [|a [|b l0]]; simpl; reflexivity. }
  intros segs Fs Fl. exact (G segs [] Fs Fl).
Qed.

Lemma filter_none {A} (f : A -> bool) (l : list A) :
  (forall x, In x l -> f x = false) -> filter f l = [].
Proof.
  induction l as [|y l IH]; intros H; simpl; [reflexivity|].
  rewrite (H y (or_introl eq_refl)). apply IH. intros x Hx. apply H. now right.
Qed.

Lemma filter_single {A} (f : A -> bool) (l : list A) k :
  NoDup l -> In k l -> (forall x, In x l -> (f x = true <-> x = k)) -> filter f l = [k].
Proof.
  induction l as [|y l IH]; intros ND Hk H; [contradiction|].
  inversion ND as [|? ? Hn ND']; subst. simpl. destruct (f y) eqn:E.
  - assert (y = k) by (apply H; [now left|assumption]). subst y. f_equal.
    apply filter_none. intros x Hx. destruct (f x) eqn:Ex; [|reflexivity].
    assert (x = k) by (apply H; [now right|assumption]). subst x. contradiction.
  - destruct Hk as [->|Hk].
    + assert (f k = true) by (apply H; [now left|reflexivity]). congruence.
    + apply IH; [assumption|assumption|]. intros x Hx. apply H. now right.
Qed.

Lemma filter_two {A} (f : A -> bool) (l : list A) a b :
  In a l -> In b l -> a <> b -> f a = true -> f b = true ->
  exists x y r, filter f l = x :: y :: r.
Proof.
  intros Ha Hb N Fa Fb.
  assert (Ia : In a (filter f l)) by (apply filter_In; now split).
  assert (Ib : In b (filter f l)) by (apply filter_In; now split).
  destruct (filter f l) as [|x [|y r]]; [contradiction| |now eauto].
  destruct Ia as [<-|[]]. destruct Ib as [<-|[]]. congruence.
Qed.

Lemma matching_keys_filter {V} pfx (segs : list (@table V)) :
  matching_keys pfx segs = filter (matches pfx) (all_keys segs).
Proof.
  unfold matching_keys, all_keys, keys. induction segs as [|tb segs IH]; simpl; [reflexivity|].
  rewrite filter_app, IH. f_equal. clear. induction tb as [|e tb IH]; simpl; [reflexivity|].
  destruct (matches pfx (fst e)); simpl; now rewrite IH.
Qed.

Section CommitTheorems.
  Variable segs : list (@table unit).
  Hypothesis sorted : Forall sorted_tb segs.
  Variable w : nat.                      (* digits per id: two per byte *)
  Hypothesis even_w : Nat.even w = true.
  Hypothesis same_len : forall x, In x (all_keys segs) -> length x = w.
  Hypothesis distinct : NoDup (all_keys segs).
  Variable k : id.
  Hypothesis k_in : In k (all_keys segs).

  Lemma long_keys_ok pfx : length pfx <= w -> Forall (long_keys pfx) segs.
  Proof.
    intros L. apply Forall_forall. intros tb Htb O e He.
    assert (Hk : In (fst e) (all_keys segs)).
    { unfold all_keys. apply in_flat_map. exists tb. split; [assumption|]. now apply in_map. }
    rewrite (same_len _ Hk).
    destruct (Nat.eq_dec (length pfx) w) as [E|N]; [|lia].
    rewrite E in O. rewrite <- Nat.negb_even, even_w in O. discriminate.
  Qed.

  Lemma shortest_le_w : shortest_len k segs <= w.
  Proof.
    destruct (shortest_len k segs) as [|m] eqn:E; [lia|].
    destruct (shortest_len_minimal k segs m sorted E) as (x & Hx & Nx & Hm).
    pose proof (common_len_lt k x) as C. rewrite (same_len k k_in), (same_len x Hx) in C.
    specialize (C eq_refl (fun H => Nx (eq_sym H))). lia.
  Qed.

  (** the prefix of the shortest length resolves to exactly this commit *)
  Theorem commit_resolves_back :
    resolve_commit (firstn (shortest_len k segs) k) segs = SingleMatch k.
  Proof.
    pose proof shortest_le_w as Lw.
    rewrite resolve_commit_flat; [|assumption|].
    - rewrite matching_keys_filter. rewrite (filter_single _ _ k distinct k_in); [reflexivity|].
      intros x Hx. rewrite matches_common by (rewrite (same_len k k_in); lia). split.
      + intros Hm. destruct (list_eq_dec Nat.eq_dec x k) as [E|N]; [assumption|].
        pose proof (shortest_len_unique k segs sorted x Hx N). lia.
      + intros ->. pose proof (common_len_le k k).
        assert (common_len k k = length k).
        { clear. induction k as [|d l IH]; simpl; [reflexivity|]. now rewrite Nat.eqb_refl, IH. }
        rewrite (same_len k k_in) in *. lia.
    - apply long_keys_ok. rewrite firstn_length. lia.
  Qed.

  (** every shorter prefix is ambiguous *)
  Theorem commit_shorter_ambiguous : forall l, l < shortest_len k segs ->
    resolve_commit (firstn l k) segs = AmbiguousMatch.
  Proof.
    intros l Ll. pose proof shortest_le_w as Lw.
    destruct (shortest_len k segs) as [|m] eqn:E; [lia|].
    destruct (shortest_len_minimal k segs m sorted E) as (x & Hx & Nx & Hm).
    rewrite resolve_commit_flat; [|assumption|].
    - rewrite matching_keys_filter.
      destruct (filter_two (matches (firstn l k)) (all_keys segs) k x k_in Hx (fun H => Nx (eq_sym H)))
        as (a & b & r & ->); [| |reflexivity].
      + apply matches_common; [rewrite (same_len k k_in); lia|].
        assert (common_len k k = length k).
        { clear. induction k as [|d t IH]; simpl; [reflexivity|]. now rewrite Nat.eqb_refl, IH. }
        rewrite (same_len k k_in) in *. lia.
      + apply matches_common; [rewrite (same_len k k_in); lia|lia].
    - apply long_keys_ok. rewrite firstn_length. lia.
  Qed.
End CommitTheorems.

(** * the tables built from a segment's entries are sorted *)
Lemma insert_key_in {V} k (v : V) merge tb e :
  In e (insert_key k v merge tb) -> fst e = k \/ In (fst e) (keys tb).
Proof.
  induction tb as [|[k' v'] r IH]; simpl.
  - intros [<-|[]]. now left.
  - destruct (id_ltb k k'); [intros [<-|[<-|H]]; simpl; auto; right; right; now apply in_map|].
    destruct (id_eqb k k') eqn:E.
    + intros [<-|H]; simpl; [right; now left|right; right; now apply in_map].
    + intros [<-|H]; simpl; [right; now left|]. destruct (IH H); auto.
Qed.

Lemma insert_key_sorted {V} k (v : V) merge tb : sorted_tb tb -> sorted_tb (insert_key k v merge tb).
Proof.
  induction tb as [|[k' v'] r IH]; simpl; intros St.
  - split; [intros e []|exact I].
  - destruct St as [Hk' Sr]. destruct (id_ltb k k') eqn:L.
    + split; [|split; assumption]. intros e [<-|He]; [assumption|].
      simpl. eapply id_ltb_trans; [eassumption|now apply Hk'].
    + destruct (id_eqb k k') eqn:E.
      * split; assumption.
      * split; [|now apply IH]. intros e He. simpl.
        destruct (insert_key_in _ _ _ _ _ He) as [->|Hin].
        -- destruct (id_trichotomy k k') as [H|[H|H]]; [congruence| |assumption].
           apply id_eqb_spec in H. congruence.
        -- apply in_map_iff in Hin. destruct Hin as (e' & <- & He'). now apply Hk'.
Qed.

Lemma commit_table_sorted seg : sorted_tb (commit_table seg).
Proof.
  unfold commit_table. generalize (@nil (id * unit)) (I : sorted_tb (@nil (id * unit))).
  induction (snd seg) as [|e l IH]; intros tb St; simpl; [assumption|].
  apply IH. now apply insert_key_sorted.
Qed.

Lemma change_table_sorted seg : sorted_tb (change_table seg).
Proof.
  unfold change_table. generalize (fst seg) (@nil (id * list nat)) (I : sorted_tb (@nil (id * list nat))).
  induction (snd seg) as [|e l IH]; intros p tb St; simpl; [assumption|].
  apply IH. now apply insert_key_sorted.
Qed.

(** * the two-level index: disambiguation set first *)
Lemma set_resolve_spec pfx (D : list id) : pfx <> [] ->
  set_resolve pfx D = match filter (matches pfx) D with
                      | [] => NoMatch
                      | k :: r => if forallb (id_eqb k) r then SingleMatch k else AmbiguousMatch
                      end.
Proof. destruct pfx; [congruence|reflexivity]. Qed.

Lemma set_shortest_gen k : forall D m, 1 <= m ->
  let r := fold_left (fun m k' => if id_eqb k' k then m else Nat.max m (S (common_len k' k))) D m in
  m <= r /\ (forall x, In x D -> x <> k -> common_len k x < r) /\
  (r = m \/ exists x, In x D /\ x <> k /\ r = S (common_len k x)).
Proof.
  induction D as [|y D IH]; intros m Hm; simpl.
  - split; [lia|]. split; [intros x []|now left].
  - destruct (id_eqb y k) eqn:E.
    + apply id_eqb_spec in E. subst y. destruct (IH m Hm) as (H1 & H2 & H3).
      split; [assumption|]. split.
      * intros x [<-|Hx] N; [congruence|now apply H2].
      * destruct H3 as [H3|(x & Hx & N & H3)]; [now left|right; exists x; tauto].
    + apply id_eqb_false in E.
      destruct (IH (Nat.max m (S (common_len y k)))) as (H1 & H2 & H3); [lia|].
      split; [lia|]. split.
      * intros x [<-|Hx] N; [rewrite (common_len_sym k y); lia|now apply H2].
      * destruct H3 as [H3|(x & Hx & N & H3)].
        -- destruct (Nat.max_spec m (S (common_len y k))) as [[_ M]|[_ M]]; rewrite M in *.
           ++ right. exists y. split; [now left|]. split; [assumption|].
              now rewrite (common_len_sym k y).
           ++ now left.
        -- right. exists x. tauto.
Qed.

Lemma set_shortest_ge1 k D : 1 <= set_shortest k D.
Proof. unfold set_shortest. now destruct (set_shortest_gen k D 1 (le_n 1)) as (H & _). Qed.

Lemma set_shortest_spec k D :
  (forall x, In x D -> x <> k -> common_len k x < set_shortest k D) /\
  (set_shortest k D = 1 \/ exists x, In x D /\ x <> k /\ set_shortest k D = S (common_len k x)).
Proof.
  unfold set_shortest. destruct (set_shortest_gen k D 1 (le_n 1)) as (_ & H2 & H3). now split.
Qed.

Section TwoLevel.
  Variable segs : list (@table unit).
  Hypothesis sorted : Forall sorted_tb segs.
  Variable w : nat.
  Hypothesis even_w : Nat.even w = true.
  Hypothesis wpos : 1 <= w.
  Hypothesis same_len : forall x, In x (all_keys segs) -> length x = w.
  Hypothesis distinct : NoDup (all_keys segs).
  Variable D : list id.                   (* the disambiguation set *)
  Hypothesis D_sub : forall x, In x D -> In x (all_keys segs).
  Variable k : id.
  Hypothesis k_in : In k (all_keys segs).

  Lemma has_id_true x : In x (all_keys segs) ->
    existsb (fun tb => existsb (fun e : id * unit => id_eqb (fst e) x) tb) segs = true.
  Proof.
    intros H. unfold all_keys in H. apply in_flat_map in H. destruct H as (tb & Htb & Hx).
    apply in_map_iff in Hx. destruct Hx as (e & <- & He).
    apply existsb_exists. exists tb. split; [assumption|]. apply existsb_exists.
    exists e. split; [assumption|apply id_eqb_refl].
  Qed.

  Lemma common_self : common_len k k = length k.
  Proof. apply common_len_self. Qed.

  (** a commit of the disambiguation set: its prefix of the set-local shortest length resolves
      to it, a shorter non-empty one is ambiguous *)
  Theorem two_level_inside : In k D ->
    let L := set_shortest k D in
    resolve_commit2 (Some D) (firstn L k) segs = SingleMatch k /\
    forall l, 1 <= l -> l < L -> resolve_commit2 (Some D) (firstn l k) segs = AmbiguousMatch.
  Proof.
    intros HkD L. pose proof (set_shortest_ge1 k D) as L1. fold L in L1.
    destruct (set_shortest_spec k D) as [Hu Hm]. fold L in Hu, Hm.
    assert (Lw : L <= w).
    { destruct Hm as [Hm|(x & Hx & N & Hm)]; [lia|].
      pose proof (common_len_lt k x) as C. rewrite (same_len k k_in), (same_len x (D_sub x Hx)) in C.
      specialize (C eq_refl (fun H => N (eq_sym H))). lia. }
    assert (F : forall l, 1 <= l -> l <= w -> firstn l k <> []).
    { intros l H1 H2 E. apply (f_equal (@length nat)) in E. rewrite firstn_length, (same_len k k_in) in E.
      simpl in E. lia. }
    split.
    - unfold resolve_commit2. rewrite set_resolve_spec by (apply F; lia).
      assert (E : forall x, In x D -> (matches (firstn L k) x = true <-> x = k)).
      { intros x Hx. rewrite matches_common by (rewrite (same_len k k_in); lia). split.
        - intros H. destruct (list_eq_dec Nat.eq_dec x k) as [E|N]; [assumption|].
          pose proof (Hu x Hx N). lia.
        - intros ->. rewrite common_self, (same_len k k_in). lia. }
      assert (Hf : forall x, In x (filter (matches (firstn L k)) D) -> x = k).
      { intros x Hx. apply filter_In in Hx. destruct Hx as [Hx Hm']. now apply E. }
      assert (Hin : In k (filter (matches (firstn L k)) D)).
      { apply filter_In. split; [assumption|]. now apply E. }
      destruct (filter (matches (firstn L k)) D) as [|a r]; [contradiction|].
      assert (a = k) by (apply Hf; now left). subst a.
      assert (forallb (id_eqb k) r = true) as ->.
      { apply forallb_forall. intros x Hx. apply id_eqb_spec. symmetry. apply Hf. now right. }
      now rewrite has_id_true.
    - intros l H1 Hl. unfold resolve_commit2. rewrite set_resolve_spec by (apply F; lia).
      destruct Hm as [Hm|(x & Hx & N & Hm)]; [lia|].
      destruct (filter_two (matches (firstn l k)) D k x HkD Hx (fun H => N (eq_sym H)))
        as (a & b & r & E).
      + apply matches_common; [rewrite (same_len k k_in); lia|].
        rewrite common_self, (same_len k k_in). lia.
      + apply matches_common; [rewrite (same_len k k_in); lia|lia].
      + rewrite E.
        assert (Ha : In a (filter (matches (firstn l k)) D)) by (rewrite E; now left).
        assert (Hb : In b (filter (matches (firstn l k)) D)) by (rewrite E; right; now left).
        destruct (forallb (id_eqb a) (b :: r)) eqn:Fa; [|reflexivity]. exfalso.
        (* all matching entries equal: then k = x *)
        rewrite forallb_forall in Fa.
        assert (Ik : In k (a :: b :: r)) by (rewrite <- E; apply filter_In; split; [assumption|];
          apply matches_common; [rewrite (same_len k k_in); lia|rewrite common_self, (same_len k k_in); lia]).
        assert (Ix : In x (a :: b :: r)) by (rewrite <- E; apply filter_In; split; [assumption|];
          apply matches_common; [rewrite (same_len k k_in); lia|lia]).
        assert (Eq : forall y, In y (a :: b :: r) -> y = a).
        { intros y [<-|Hy]; [reflexivity|]. symmetry. apply id_eqb_spec. now apply Fa. }
        rewrite (Eq k Ik), (Eq x Ix) in N. congruence.
  Qed.

  (** a commit outside the set: the repo-wide shortest prefix still resolves to it *)
  Theorem two_level_outside : ~ In k D -> 1 <= shortest_len k segs ->
    resolve_commit2 (Some D) (firstn (shortest_len k segs) k) segs = SingleMatch k.
  Proof.
    intros HkD L1. pose proof (shortest_le_w segs sorted w same_len k k_in) as Lw.
    unfold resolve_commit2. rewrite set_resolve_spec.
    - rewrite filter_none; [now apply (commit_resolves_back segs sorted w even_w same_len distinct k k_in)|].
      intros x Hx. destruct (matches (firstn (shortest_len k segs) k) x) eqn:E; [|reflexivity].
      apply matches_common in E; [|rewrite (same_len k k_in); lia].
      assert (x <> k) by (intros ->; contradiction).
      pose proof (shortest_len_unique k segs sorted x (D_sub x Hx) H). lia.
    - intros E. apply (f_equal (@length nat)) in E. rewrite firstn_length, (same_len k k_in) in E.
      simpl in E. lia.
  Qed.
End TwoLevel.

(** * meaning of the checker *)
Lemma others_in k l x : In x (others k l) <-> In x l /\ x <> k.
Proof.
  unfold others. rewrite filter_In, negb_true_iff, id_eqb_false. tauto.
Qed.

Definition short_holds (k : id) (len : nat) (l : list id) : Prop :=
  len <= length k /\
  (forall x, In x l -> x <> k -> matches (firstn len k) x = false) /\
  (len = 0 -> forall x, In x l -> x = k) /\
  (forall m, len = S m -> exists x, In x l /\ x <> k /\ matches (firstn m k) x = true).

Lemma short_ok_sound k len l : short_ok k len l = true -> short_holds k len l.
Proof.
  unfold short_ok, short_holds. rewrite !andb_true_iff, Nat.leb_le, forallb_forall.
  intros [[H1 H2] H3]. split; [assumption|]. split; [|split].
  - intros x Hx N. apply negb_true_iff, H2, others_in. now split.
  - intros -> x Hx. destruct (list_eq_dec Nat.eq_dec x k) as [E|N]; [assumption|exfalso].
    assert (Ho : In x (others k l)) by (apply others_in; now split).
    destruct (others k l); [contradiction|discriminate].
  - intros m ->. apply existsb_exists in H3. destruct H3 as (x & Hx & Hm).
    apply others_in in Hx. exists x. tauto.
Qed.

Definition res_holds (pfx : id) (l : list id) (r : res) (positions : id -> list nat) : Prop :=
  match r with
  | RNo => forall x, In x l -> matches pfx x = false
  | ROne k ps => In k l /\ matches pfx k = true /\
                 (forall x, In x l -> matches pfx x = true -> x = k) /\ ps = positions k
  | RAmb => exists x y, In x l /\ In y l /\ x <> y /\ matches pfx x = true /\ matches pfx y = true
  end.

Lemma lnat_eqb_eq l1 l2 : lnat_eqb l1 l2 = true <-> l1 = l2.
Proof.
  unfold lnat_eqb. revert l2. induction l1 as [|x l IH]; intros [|y l2]; simpl;
    try (split; [discriminate|discriminate]); [tauto|].
  rewrite andb_true_iff, Nat.eqb_eq, IH. split; [intros [-> ->]; reflexivity|].
  intros E. inversion E. tauto.
Qed.

Lemma res_spec_sound pfx l r positions : res_spec pfx l r positions = true -> res_holds pfx l r positions.
Proof.
  unfold res_spec, res_holds, count_matching.
  destruct (filter (matches pfx) l) as [|k rest] eqn:F.
  - destruct r; try discriminate. intros _ x Hx. destruct (matches pfx x) eqn:E; [|reflexivity].
    assert (In x (filter (matches pfx) l)) by (apply filter_In; now split). rewrite F in H. contradiction.
  - assert (Hk : In k l /\ matches pfx k = true).
    { apply filter_In. rewrite F. now left. }
    destruct r as [| |k' ps]; try discriminate.
    + rewrite negb_true_iff. intros H.
      assert (E : exists y, In y rest /\ y <> k).
      { clear - H. induction rest as [|y rest IH]; simpl in H; [discriminate|].
        apply andb_false_iff in H. destruct H as [H|H].
        - exists y. split; [now left|]. apply id_eqb_false in H. congruence.
        - destruct (IH H) as (z & Hz & N). exists z. split; [now right|assumption]. }
      destruct E as (y & Hy & N).
      assert (Hy' : In y l /\ matches pfx y = true) by (apply filter_In; rewrite F; now right).
      exists k, y. repeat split; try tauto. congruence.
    + rewrite !andb_true_iff, forallb_forall, id_eqb_spec, lnat_eqb_eq.
      intros [[H1 <-] ->]. split; [tauto|]. split; [tauto|]. split; [|reflexivity].
      intros x Hx Hm. assert (Hin : In x (k :: rest)) by (rewrite <- F; apply filter_In; now split).
      destruct Hin as [<-|Hin]; [reflexivity|]. symmetry. now apply id_eqb_spec, H1.
Qed.

(** * statements as pinned in Props/C20.v *)
Lemma minimal_thm {V} (segs : list (@table V)) : Forall sorted_tb segs -> forall k,
  (forall m, shortest_len k segs = S m ->
     exists x, In x (all_keys segs) /\ x <> k /\ m <= common_len k x) /\
  (shortest_len k segs = 0 -> forall x, In x (all_keys segs) -> x = k).
Proof.
  intros sorted k. split.
  - intros m. exact (shortest_len_minimal k segs m sorted).
  - exact (shortest_len_zero k segs sorted).
Qed.

Section CommitStatements.
  Variable segs : list (@table unit).
  Hypothesis sorted : Forall sorted_tb segs.
  Variable w : nat.
  Hypothesis even_w : Nat.even w = true.
  Hypothesis same_len : forall x, In x (all_keys segs) -> length x = w.
  Hypothesis distinct : NoDup (all_keys segs).

  Lemma resolve_flat_thm : forall pfx, length pfx <= w ->
    resolve_commit pfx segs = classify (filter (matches pfx) (all_keys segs)).
  Proof.
    intros pfx L. rewrite <- matching_keys_filter. apply resolve_commit_flat; [assumption|].
    now apply (long_keys_ok segs w even_w same_len).
  Qed.

  Lemma resolves_back_thm : forall k, In k (all_keys segs) ->
    resolve_commit (firstn (shortest_len k segs) k) segs = SingleMatch k /\
    forall l, l < shortest_len k segs -> resolve_commit (firstn l k) segs = AmbiguousMatch.
  Proof.
    intros k Hk. split.
    - exact (commit_resolves_back segs sorted w even_w same_len distinct k Hk).
    - exact (commit_shorter_ambiguous segs sorted w even_w same_len k Hk).
  Qed.

  Lemma two_level_thm : 1 <= w -> forall D, (forall x, In x D -> In x (all_keys segs)) ->
    forall k, In k (all_keys segs) ->
    (In k D ->
       shortest_commit2 (Some D) k segs = set_shortest k D /\
       resolve_commit2 (Some D) (firstn (set_shortest k D) k) segs = SingleMatch k /\
       forall l, 1 <= l -> l < set_shortest k D ->
         resolve_commit2 (Some D) (firstn l k) segs = AmbiguousMatch) /\
    (~ In k D -> 1 <= shortest_len k segs ->
       shortest_commit2 (Some D) k segs = shortest_len k segs /\
       resolve_commit2 (Some D) (firstn (shortest_len k segs) k) segs = SingleMatch k).
  Proof.
    intros wpos D Dsub k Hk. split.
    - intros HkD.
      assert (Hh : set_has k D = true).
      { apply existsb_exists. exists k. split; [assumption|apply id_eqb_refl]. }
      split; [unfold shortest_commit2; now rewrite Hh|].
      exact (two_level_inside segs w wpos same_len D Dsub k Hk HkD).
    - intros HkD L1.
      assert (Hh : set_has k D = false).
      { destruct (set_has k D) eqn:E; [|reflexivity]. apply existsb_exists in E.
        destruct E as (x & Hx & E). apply id_eqb_spec in E. subst x. contradiction. }
      split; [unfold shortest_commit2; now rewrite Hh|].
      exact (two_level_outside segs sorted w even_w wpos same_len distinct D Dsub k Hk HkD L1).
  Qed.
End CommitStatements.

Lemma tables_sorted_thm seg : sorted_tb (commit_table seg) /\ sorted_tb (change_table seg).
Proof. split; [apply commit_table_sorted|apply change_table_sorted]. Qed.



(** * change ids: the same id may live in several segments; matches of one id are merged *)
Definition matching_entries (pfx : id) (segs : list (@table (list nat))) : list (id * list nat) :=
  flat_map (fun tb => filter (fun e => matches pfx (fst e)) tb) segs.
Definition classify_change (ms : list (id * list nat)) : resolution (id * list nat) :=
  match ms with
  | [] => NoMatch
  | (k, ps) :: r =>
    if forallb (fun e => id_eqb (fst e) k) r
    then SingleMatch (k, rev ps ++ flat_map (fun e => rev (snd e)) r)
    else AmbiguousMatch
  end.

Definition change_step (pfx : id) (acc : resolution (id * list nat)) (tb : @table (list nat)) :=
  match acc with
  | AmbiguousMatch => acc
  | _ =>
    match acc, seg_resolve pfx tb with
    | NoMatch, NoMatch => NoMatch
    | NoMatch, SingleMatch (k, ps) => SingleMatch (k, rev ps)
    | a, NoMatch => a
    | _, AmbiguousMatch => AmbiguousMatch
    | SingleMatch (k1, ps1), SingleMatch (k2, ps2) =>
        if id_eqb k1 k2 then SingleMatch (k1, ps1 ++ rev ps2) else AmbiguousMatch
    | AmbiguousMatch, _ => AmbiguousMatch
    end
  end.

Lemma resolve_change_fold pfx segs :
  resolve_change pfx segs = fold_left (change_step pfx) segs NoMatch.
Proof. reflexivity. Qed.

Lemma sorted_filter_distinct {V} (f : id * V -> bool) (tb : @table V) e1 e2 l :
  sorted_tb tb -> filter f tb = e1 :: e2 :: l -> fst e1 <> fst e2.
Proof.
  induction tb as [|e tb IH]; simpl; intros St; [discriminate|]. destruct St as [Hk Sr].
  destruct (f e).
  - intros H. injection H as <- H.
    assert (He2 : In e2 tb).
    { assert (X : In e2 (filter f tb)) by (rewrite H; now left). now apply filter_In in X. }
    intros E. pose proof (Hk e2 He2) as L. rewrite E, id_ltb_irrefl in L. discriminate.
  - now apply IH.
Qed.

Lemma forallb_app {A} (f : A -> bool) l1 l2 : forallb f (l1 ++ l2) = forallb f l1 && forallb f l2.
Proof. induction l1 as [|x l IH]; simpl; [reflexivity|]. now rewrite IH, andb_assoc. Qed.

Lemma change_step_ok pfx l0 tb : sorted_tb tb -> long_keys pfx tb ->
  change_step pfx (classify_change l0) tb =
  classify_change (l0 ++ filter (fun e => matches pfx (fst e)) tb).
Proof.
  intros St Hl. unfold change_step. rewrite (seg_resolve_spec pfx tb St Hl).
  destruct (filter (fun e => matches pfx (fst e)) tb) as [|[k2 ps2] [|e3 l]] eqn:F; simpl.
  - rewrite app_nil_r. destruct (classify_change l0) as [|[k1 p1]|]; reflexivity.
  - destruct l0 as [|[k1 p1] r]; simpl; [now rewrite app_nil_r|].
    rewrite forallb_app. simpl. rewrite andb_true_r.
    destruct (forallb (fun e => id_eqb (fst e) k1) r) eqn:A; simpl; [|reflexivity].
    rewrite (id_eqb_sym_bool k2 k1). destruct (id_eqb k1 k2); [|reflexivity].
    rewrite flat_map_app. simpl. now rewrite app_nil_r, app_assoc.
  - pose proof (sorted_filter_distinct _ tb _ _ _ St F) as D. simpl in D.
    destruct l0 as [|[k1 p1] r]; simpl.
    + assert (id_eqb (fst e3) k2 = false) as ->.
      { apply id_eqb_false. congruence. }
      reflexivity.
    + rewrite forallb_app. simpl.
      destruct (forallb (fun e => id_eqb (fst e) k1) r) eqn:A; simpl; [|reflexivity].
      destruct (id_eqb k2 k1) eqn:E1; simpl; [|reflexivity].
      apply id_eqb_spec in E1. subst k2.
      assert (id_eqb (fst e3) k1 = false) as ->.
      { apply id_eqb_false. congruence. }
      reflexivity.
Qed.

Lemma resolve_change_flat pfx : forall (segs : list (@table (list nat))),
  Forall sorted_tb segs -> Forall (long_keys pfx) segs ->
  resolve_change pfx segs = classify_change (matching_entries pfx segs).
Proof.
  intros segs Fs Fl. rewrite resolve_change_fold.
  assert (G : forall segs l0, Forall sorted_tb segs -> Forall (long_keys pfx) segs ->
    fold_left (change_step pfx) segs (classify_change l0) =
    classify_change (l0 ++ matching_entries pfx segs)).
  { clear. induction segs as [|tb segs IH]; intros l0 Fs Fl; simpl.
    - now rewrite app_nil_r.
    - inversion Fs as [|? ? St Fs']; subst. inversion Fl as [|? ? Lt Fl']; subst.
      rewrite (change_step_ok pfx l0 tb St Lt). rewrite IH by assumption.
      unfold matching_entries. simpl. now rewrite app_assoc. }
  exact (G segs [] Fs Fl).
Qed.

Section ChangeTheorems.
  Variable segs : list (@table (list nat)).
  Hypothesis sorted : Forall sorted_tb segs.
  Variable w : nat.
  Hypothesis even_w : Nat.even w = true.
  Hypothesis same_len : forall x, In x (all_keys segs) -> length x = w.
  Variable k : id.
  Hypothesis k_in : In k (all_keys segs).

  Lemma long_keys_change pfx : length pfx <= w -> Forall (long_keys pfx) segs.
  Proof.
    intros L. apply Forall_forall. intros tb Htb O e He.
    assert (Hk : In (fst e) (all_keys segs)).
    { unfold all_keys. apply in_flat_map. exists tb. split; [assumption|]. now apply in_map. }
    rewrite (same_len _ Hk).
    destruct (Nat.eq_dec (length pfx) w) as [E|N]; [|lia].
    rewrite E in O. rewrite <- Nat.negb_even, even_w in O. discriminate.
  Qed.

  Lemma change_shortest_le_w : shortest_len k segs <= w.
  Proof.
    destruct (shortest_len k segs) as [|m] eqn:E; [lia|].
    destruct (shortest_len_minimal k segs m sorted E) as (x & Hx & Nx & Hm).
    pose proof (common_len_lt k x) as C. rewrite (same_len k k_in), (same_len x Hx) in C.
    specialize (C eq_refl (fun H => Nx (eq_sym H))). lia.
  Qed.

  Lemma matching_entries_in pfx e :
    In e (matching_entries pfx segs) <-> (exists tb, In tb segs /\ In e tb) /\ matches pfx (fst e) = true.
  Proof.
    unfold matching_entries. rewrite in_flat_map. split.
    - intros (tb & Htb & He). apply filter_In in He. destruct He as [He Hm]. split; [now exists tb|assumption].
    - intros [(tb & Htb & He) Hm]. exists tb. split; [assumption|]. apply filter_In. now split.
  Qed.

  (** the prefix of the shortest length resolves to this change: all its positions, newest
      segment first *)
  Theorem change_resolves_back :
    let pfx := firstn (shortest_len k segs) k in
    resolve_change pfx segs =
      SingleMatch (k, flat_map (fun e => rev (snd e)) (matching_entries pfx segs)) /\
    forall e, In e (matching_entries pfx segs) <-> (exists tb, In tb segs /\ In e tb) /\ fst e = k.
  Proof.
    intros pfx. pose proof change_shortest_le_w as Lw.
    assert (Hkey : forall e, (exists tb, In tb segs /\ In e tb) ->
                   (matches pfx (fst e) = true <-> fst e = k)).
    { intros e (tb & Htb & He).
      assert (Hk : In (fst e) (all_keys segs)).
      { unfold all_keys. apply in_flat_map. exists tb. split; [assumption|]. now apply in_map. }
      unfold pfx. rewrite matches_common by (rewrite (same_len k k_in); lia). split.
      - intros Hm. destruct (list_eq_dec Nat.eq_dec (fst e) k) as [E|N]; [assumption|].
        pose proof (shortest_len_unique k segs sorted (fst e) Hk N). lia.
      - intros ->. rewrite common_len_self, (same_len k k_in). lia. }
    assert (Hin : forall e, In e (matching_entries pfx segs) <->
                  (exists tb, In tb segs /\ In e tb) /\ fst e = k).
    { intros e. rewrite matching_entries_in. split; intros [H1 H2]; (split; [assumption|]);
        now apply (Hkey e H1). }
    split; [|assumption].
    rewrite resolve_change_flat; [|assumption|apply long_keys_change; unfold pfx; rewrite firstn_length; lia].
    assert (Hne : exists e, In e (matching_entries pfx segs)).
    { unfold all_keys in k_in. apply in_flat_map in k_in. destruct k_in as (tb & Htb & Hk).
      apply in_map_iff in Hk. destruct Hk as (e & E & He). exists e. apply Hin. split; [now exists tb|assumption]. }
    destruct (matching_entries pfx segs) as [|[k1 p1] r] eqn:M; [destruct Hne as (e & [])|].
    simpl. assert (k1 = k) by (apply (Hin (k1, p1)); now left). subst k1.
    assert (forallb (fun e => id_eqb (fst e) k) r = true) as ->.
    { apply forallb_forall. intros e He. apply id_eqb_spec, (Hin e). now right. }
    reflexivity.
  Qed.

  (** every shorter prefix is ambiguous *)
  Theorem change_shorter_ambiguous : forall l, l < shortest_len k segs ->
    resolve_change (firstn l k) segs = AmbiguousMatch.
  Proof.
    intros l Ll. pose proof change_shortest_le_w as Lw.
    destruct (shortest_len k segs) as [|m] eqn:E; [lia|].
    destruct (shortest_len_minimal k segs m sorted E) as (x & Hx & Nx & Hm).
    rewrite resolve_change_flat; [|assumption|apply long_keys_change; rewrite firstn_length; lia].
    assert (Mk : forall y, In y (all_keys segs) -> l <= common_len k y ->
                 exists e, In e (matching_entries (firstn l k) segs) /\ fst e = y).
    { intros y Hy Hc. unfold all_keys in Hy. apply in_flat_map in Hy. destruct Hy as (tb & Htb & Hy).
      apply in_map_iff in Hy. destruct Hy as (e & <- & He). exists e. split; [|reflexivity].
      apply matching_entries_in. split; [now exists tb|].
      apply matches_common; [rewrite (same_len k k_in); lia|assumption]. }
    destruct (Mk k k_in) as (ek & Hek & Ek); [rewrite common_len_self, (same_len k k_in); lia|].
    destruct (Mk x Hx) as (ex & Hex & Ex); [lia|].
    destruct (matching_entries (firstn l k) segs) as [|[k1 p1] r] eqn:M; [contradiction|]. simpl.
    destruct (forallb (fun e => id_eqb (fst e) k1) r) eqn:A; [exfalso|reflexivity].
    rewrite forallb_forall in A.
    assert (Eq : forall e, In e ((k1, p1) :: r) -> fst e = k1).
    { intros e [<-|He]; [reflexivity|]. now apply id_eqb_spec, A. }
    rewrite <- Ek, <- Ex in Nx. rewrite (Eq ek Hek), (Eq ex Hex) in Nx. congruence.
  Qed.
End ChangeTheorems.

Lemma change_resolves_thm (segs : list (@table (list nat))) :
  Forall sorted_tb segs -> forall w, Nat.even w = true ->
  (forall x, In x (all_keys segs) -> length x = w) ->
  forall k, In k (all_keys segs) ->
  (let pfx := firstn (shortest_len k segs) k in
   resolve_change pfx segs =
     SingleMatch (k, flat_map (fun e => rev (snd e)) (matching_entries pfx segs)) /\
   forall e, In e (matching_entries pfx segs) <-> (exists tb, In tb segs /\ In e tb) /\ fst e = k) /\
  (forall l, l < shortest_len k segs -> resolve_change (firstn l k) segs = AmbiguousMatch).
Proof.
  intros sorted w even_w same_len k k_in. split.
  - exact (change_resolves_back segs sorted w even_w same_len k k_in).
  - exact (change_shorter_ambiguous segs sorted w even_w same_len k k_in).
Qed.

(** * disambiguate_prefix_with_refs *)
Lemma refs_len_from_spec k names : forall fuel n, length k - n < fuel ->
  let r := refs_len_from fuel n k names in
  let is_name j := existsb (id_eqb (firstn j k)) names in
  (r = length k \/ (n <= r /\ r < length k /\ is_name r = false)) /\
  (forall j, n <= j -> j < r -> j < length k -> is_name j = true) /\
  (n <= length k -> n <= r).
Proof.
  induction fuel as [|fuel IH]; intros n F; [lia|]. cbn [refs_len_from].
  destruct (Nat.leb_spec (length k) n) as [L|L].
  - split; [now left|]. split; [intros j H1 H2 H3; lia|lia].
  - destruct (existsb (id_eqb (firstn n k)) names) eqn:E.
    + destruct (IH (S n)) as (A & B & C); [lia|]. split; [|split].
      * destruct A as [A|(A1 & A2 & A3)]; [now left|right; repeat split; try lia; assumption].
      * intros j H1 H2 H3. destruct (Nat.eq_dec j n) as [->|N]; [assumption|]. apply B; lia.
      * intros _. specialize (C ltac:(lia)). lia.
    + split; [right; repeat split; try lia; assumption|]. split; [intros j H1 H2 H3; lia|lia].
Qed.

(** the shown length is never a bookmark / tag name (unless it is the whole id), and every
    length skipped on the way is one *)
Lemma refs_shadow_thm k names m :
  let r := disambiguate_with_refs k names m in
  let is_name j := existsb (id_eqb (firstn j k)) names in
  (r = length k \/ (m <= r /\ r < length k /\ is_name r = false)) /\
  (forall j, m <= j -> j < r -> j < length k -> is_name j = true) /\
  (m <= length k -> m <= r).
Proof. unfold disambiguate_with_refs. apply refs_len_from_spec. lia. Qed.

(** meaning of the ref-aware length check *)
Definition refs_short_holds (k : id) (len : nat) (names ids : list id) (lower : nat) : Prop :=
  len <= length k /\ lower <= len /\
  (len = length k \/ ~ In (firstn len k) names) /\
  (forall x, In x ids -> x <> k -> matches (firstn len k) x = false) /\
  (forall l, lower <= l -> l < len ->
     In (firstn l k) names \/ exists x, In x ids /\ x <> k /\ matches (firstn l k) x = true).

Lemma is_name_spec (p : id) names : existsb (id_eqb p) names = true <-> In p names.
Proof.
  rewrite existsb_exists. split.
  - intros (x & Hx & E). apply id_eqb_spec in E. now subst.
  - intros H. exists p. split; [assumption|apply id_eqb_refl].
Qed.

Lemma refs_short_ok_sound k len names ids lower :
  refs_short_ok k len names ids lower = true -> refs_short_holds k len names ids lower.
Proof.
  unfold refs_short_ok, refs_short_holds.
  rewrite !andb_true_iff, !Nat.leb_le, orb_true_iff, Nat.eqb_eq, negb_true_iff, !forallb_forall.
  intros [[[[H1 H2] H3] H4] H5]. split; [assumption|]. split; [assumption|]. split; [|split].
  - destruct H3 as [H3|H3]; [now left|right]. intros C. apply is_name_spec in C. congruence.
  - intros x Hx N. apply negb_true_iff, H4, others_in. now split.
  - intros l L1 L2. assert (Hl : In l (seq lower (len - lower))) by (apply in_seq; lia).
    specialize (H5 l Hl). apply orb_true_iff in H5. destruct H5 as [H5|H5].
    + left. now apply is_name_spec.
    + right. apply existsb_exists in H5. destruct H5 as (x & Hx & Hm). apply others_in in Hx.
      exists x. tauto.
Qed.

Lemma checker_sound_thm :
  (forall k len l, short_ok k len l = true -> short_holds k len l) /\
  (forall pfx l r positions, res_spec pfx l r positions = true -> res_holds pfx l r positions) /\
  (forall k len names ids lower, refs_short_ok k len names ids lower = true ->
     refs_short_holds k len names ids lower).
Proof. split; [exact short_ok_sound|]. split; [exact res_spec_sound|exact refs_short_ok_sound]. Qed.

(** * the two-level index for change ids, and the visibility of targets *)
Section TwoLevelChange.
  Variable segs : list (@table (list nat)).
  Hypothesis sorted : Forall sorted_tb segs.
  Variable w : nat.
  Hypothesis even_w : Nat.even w = true.
  Hypothesis wpos : 1 <= w.
  Hypothesis same_len : forall x, In x (all_keys segs) -> length x = w.
  Variable Dc : list id.                  (* change ids of the disambiguation set, repetitions allowed *)
  Hypothesis D_sub : forall x, In x Dc -> In x (all_keys segs).
  Variable k : id.
  Hypothesis k_in : In k (all_keys segs).

  Definition positions_of (pfx : id) : list nat :=
    flat_map (fun e => rev (snd e)) (matching_entries pfx segs).

  Lemma change_resolve_unique pfx : length pfx <= w ->
    (forall x, In x (all_keys segs) -> (matches pfx x = true <-> x = k)) ->
    resolve_change pfx segs = SingleMatch (k, positions_of pfx).
  Proof.
    intros Lp Hkey.
    assert (Hin : forall e, In e (matching_entries pfx segs) <->
                  (exists tb, In tb segs /\ In e tb) /\ fst e = k).
    { intros e. rewrite (matching_entries_in segs). split; intros [(tb & Htb & He) H2];
        (split; [now exists tb|]);
        (assert (Hk : In (fst e) (all_keys segs))
           by (unfold all_keys; apply in_flat_map; exists tb; split; [assumption|now apply in_map]));
        now apply (Hkey _ Hk). }
    rewrite resolve_change_flat; [|assumption|now apply (long_keys_change segs w even_w same_len)].
    assert (Hne : exists e, In e (matching_entries pfx segs)).
    { pose proof k_in as K. unfold all_keys in K. apply in_flat_map in K. destruct K as (tb & Htb & Hk).
      apply in_map_iff in Hk. destruct Hk as (e & E & He). exists e. apply Hin. split; [now exists tb|assumption]. }
    unfold positions_of.
    destruct (matching_entries pfx segs) as [|[k1 p1] r] eqn:M; [destruct Hne as (e & [])|].
    simpl. assert (k1 = k) by (apply (Hin (k1, p1)); now left). subst k1.
    assert (forallb (fun e => id_eqb (fst e) k) r = true) as ->.
    { apply forallb_forall. intros e He. apply id_eqb_spec, (Hin e). now right. }
    reflexivity.
  Qed.

  Lemma full_id_matches x : In x (all_keys segs) -> (matches k x = true <-> x = k).
  Proof.
    intros Hx. rewrite <- (firstn_all k) at 1. rewrite matches_common by lia. split.
    - intros H. destruct (list_eq_dec Nat.eq_dec x k) as [E|N]; [assumption|exfalso].
      pose proof (common_len_lt k x) as C. rewrite (same_len k k_in), (same_len x Hx) in C.
      specialize (C eq_refl (fun E => N (eq_sym E))). rewrite (same_len k k_in) in H. lia.
    - intros ->. rewrite common_len_self. lia.
  Qed.

  Theorem two_level_change_inside : In k Dc ->
    let L := set_shortest k Dc in
    resolve_change2 (Some Dc) (firstn L k) segs = SingleMatch (k, positions_of k) /\
    forall l, 1 <= l -> l < L -> resolve_change2 (Some Dc) (firstn l k) segs = AmbiguousMatch.
  Proof.
    intros HkD L. pose proof (set_shortest_ge1 k Dc) as L1. fold L in L1.
    destruct (set_shortest_spec k Dc) as [Hu Hm]. fold L in Hu, Hm.
    assert (Lw : L <= w).
    { destruct Hm as [Hm|(x & Hx & N & Hm)]; [lia|].
      pose proof (common_len_lt k x) as C. rewrite (same_len k k_in), (same_len x (D_sub x Hx)) in C.
      specialize (C eq_refl (fun H => N (eq_sym H))). lia. }
    assert (F : forall l, 1 <= l -> l <= w -> firstn l k <> []).
    { intros l H1 H2 E. apply (f_equal (@length nat)) in E. rewrite firstn_length, (same_len k k_in) in E.
      simpl in E. lia. }
    split.
    - unfold resolve_change2. rewrite set_resolve_spec by (apply F; lia).
      assert (E : forall x, In x Dc -> (matches (firstn L k) x = true <-> x = k)).
      { intros x Hx. rewrite matches_common by (rewrite (same_len k k_in); lia). split.
        - intros H. destruct (list_eq_dec Nat.eq_dec x k) as [E|N]; [assumption|].
          pose proof (Hu x Hx N). lia.
        - intros ->. rewrite common_len_self, (same_len k k_in). lia. }
      assert (Hf : forall x, In x (filter (matches (firstn L k)) Dc) -> x = k).
      { intros x Hx. apply filter_In in Hx. destruct Hx as [Hx Hm']. now apply E. }
      assert (Hin : In k (filter (matches (firstn L k)) Dc)).
      { apply filter_In. split; [assumption|]. now apply E. }
      destruct (filter (matches (firstn L k)) Dc) as [|a r]; [contradiction|].
      assert (a = k) by (apply Hf; now left). subst a.
      assert (forallb (id_eqb k) r = true) as ->.
      { apply forallb_forall. intros x Hx. apply id_eqb_spec. symmetry. apply Hf. now right. }
      rewrite (change_resolve_unique k); [reflexivity|rewrite (same_len k k_in); lia|exact full_id_matches].
    - intros l H1 Hl. unfold resolve_change2. rewrite set_resolve_spec by (apply F; lia).
      destruct Hm as [Hm|(x & Hx & N & Hm)]; [lia|].
      destruct (filter_two (matches (firstn l k)) Dc k x HkD Hx (fun H => N (eq_sym H)))
        as (a & b & r & E).
      + apply matches_common; [rewrite (same_len k k_in); lia|].
        rewrite common_len_self, (same_len k k_in). lia.
      + apply matches_common; [rewrite (same_len k k_in); lia|lia].
      + rewrite E. destruct (forallb (id_eqb a) (b :: r)) eqn:Fa; [|reflexivity]. exfalso.
        rewrite forallb_forall in Fa.
        assert (Ik : In k (a :: b :: r)) by (rewrite <- E; apply filter_In; split; [assumption|];
          apply matches_common; [rewrite (same_len k k_in); lia|rewrite common_len_self, (same_len k k_in); lia]).
        assert (Ix : In x (a :: b :: r)) by (rewrite <- E; apply filter_In; split; [assumption|];
          apply matches_common; [rewrite (same_len k k_in); lia|lia]).
        assert (Eq : forall y, In y (a :: b :: r) -> y = a).
        { intros y [<-|Hy]; [reflexivity|]. symmetry. apply id_eqb_spec. now apply Fa. }
        rewrite (Eq k Ik), (Eq x Ix) in N. congruence.
  Qed.

  Theorem two_level_change_outside : ~ In k Dc -> 1 <= shortest_len k segs ->
    resolve_change2 (Some Dc) (firstn (shortest_len k segs) k) segs =
    resolve_change (firstn (shortest_len k segs) k) segs.
  Proof.
    intros HkD L1. pose proof (change_shortest_le_w segs sorted w same_len k k_in) as Lw.
    unfold resolve_change2. rewrite set_resolve_spec.
    - rewrite filter_none; [reflexivity|].
      intros x Hx. destruct (matches (firstn (shortest_len k segs) k) x) eqn:E; [|reflexivity].
      apply matches_common in E; [|rewrite (same_len k k_in); lia].
      assert (x <> k) by (intros ->; contradiction).
      pose proof (shortest_len_unique k segs sorted x (D_sub x Hx) H). lia.
    - intros E. apply (f_equal (@length nat)) in E. rewrite firstn_length, (same_len k k_in) in E.
      simpl in E. lia.
  Qed.
End TwoLevelChange.

Lemma two_level_change_thm (segs : list (@table (list nat))) :
  Forall sorted_tb segs -> forall w, Nat.even w = true -> 1 <= w ->
  (forall x, In x (all_keys segs) -> length x = w) ->
  forall Dc, (forall x, In x Dc -> In x (all_keys segs)) ->
  forall k, In k (all_keys segs) ->
  (In k Dc ->
     shortest_change2 (Some Dc) k segs = set_shortest k Dc /\
     resolve_change2 (Some Dc) (firstn (set_shortest k Dc) k) segs =
       SingleMatch (k, positions_of segs k) /\
     forall l, 1 <= l -> l < set_shortest k Dc ->
       resolve_change2 (Some Dc) (firstn l k) segs = AmbiguousMatch) /\
  (~ In k Dc -> 1 <= shortest_len k segs ->
     shortest_change2 (Some Dc) k segs = shortest_len k segs /\
     resolve_change2 (Some Dc) (firstn (shortest_len k segs) k) segs =
       resolve_change (firstn (shortest_len k segs) k) segs).
Proof.
  intros sorted w even_w wpos same_len Dc Dsub k Hk. split.
  - intros HkD.
    assert (Hh : set_has k Dc = true).
    { apply existsb_exists. exists k. split; [assumption|apply id_eqb_refl]. }
    split; [unfold shortest_change2; now rewrite Hh|].
    eapply two_level_change_inside with (w := w); eassumption.
  - intros HkD L1.
    assert (Hh : set_has k Dc = false).
    { destruct (set_has k Dc) eqn:E; [|reflexivity]. apply existsb_exists in E.
      destruct E as (x & Hx & E). apply id_eqb_spec in E. subst x. contradiction. }
    split; [unfold shortest_change2; now rewrite Hh|].
    eapply two_level_change_outside with (w := w); eassumption.
Qed.

(** a target is reported Visible iff it is an ancestor of one of the view's heads *)
Lemma visible_thm (c : case) : wf (c_graph c) -> forall p,
  visible_at c p = true <-> exists h, In h (c_heads c) /\ anc (c_graph c) p h.
Proof. intros W p. unfold visible_at. now apply anc_any_spec. Qed.

(** * meaning of every clause of [query_ok] *)
Lemma set_has_spec k l : set_has k l = true <-> In k l.
Proof. unfold set_has. apply is_name_spec. Qed.

Definition res2_holds (pfx : id) (keys all : list id) (r : res) (positions : id -> list nat) : Prop :=
  match pfx with
  | [] => r = RAmb
  | _ =>
    (* no id of the set matches: decided by the repo *)
    ((forall x, In x keys -> matches pfx x = false) /\ res_holds pfx all r positions) \/
    (* all matching ids of the set are one id k: k, if the repo has it *)
    (exists k, In k keys /\ matches pfx k = true /\
               (forall x, In x keys -> matches pfx x = true -> x = k) /\
               ((r = ROne k (positions k) /\ In k all) \/ (r = RNo /\ ~ In k all))) \/
    (* two different ids of the set match *)
    ((exists x y, In x keys /\ In y keys /\ x <> y /\ matches pfx x = true /\ matches pfx y = true)
     /\ r = RAmb)
  end.

Lemma res2_spec_sound pfx keys all r positions :
  res2_spec pfx keys all r positions = true -> res2_holds pfx keys all r positions.
Proof.
  unfold res2_spec, res2_holds, count_matching. destruct pfx as [|d p].
  - destruct r; try discriminate. reflexivity.
  - set (pfx := d :: p). destruct (filter (matches pfx) keys) as [|k rest] eqn:F.
    + intros H. left. split; [|now apply res_spec_sound].
      intros x Hx. destruct (matches pfx x) eqn:E; [|reflexivity].
      assert (X : In x (filter (matches pfx) keys)) by (apply filter_In; now split).
      rewrite F in X. contradiction.
    + assert (Hk : In k keys /\ matches pfx k = true) by (apply filter_In; rewrite F; now left).
      destruct (forallb (id_eqb k) rest) eqn:A.
      * intros H. right. left. exists k. split; [apply Hk|]. split; [apply Hk|]. split.
        -- intros x Hx Hm. assert (X : In x (k :: rest)) by (rewrite <- F; apply filter_In; now split).
           destruct X as [<-|X]; [reflexivity|]. rewrite forallb_forall in A. symmetry.
           now apply id_eqb_spec, A.
        -- destruct r as [| |k' ps]; [|discriminate|].
           ++ right. split; [reflexivity|]. apply negb_true_iff in H. intros C.
              apply set_has_spec in C. congruence.
           ++ rewrite !andb_true_iff, id_eqb_spec, lnat_eqb_eq, set_has_spec in H.
              destruct H as [[<- ->] H]. now left.
      * intros H. right. right. split; [|destruct r; try discriminate; reflexivity].
        assert (E : exists y, In y rest /\ y <> k).
        { clear - A. induction rest as [|y rest IH]; simpl in A; [discriminate|].
          apply andb_false_iff in A. destruct A as [A|A].
          - exists y. split; [now left|]. apply id_eqb_false in A. congruence.
          - destruct (IH A) as (z & Hz & N). exists z. split; [now right|assumption]. }
        destruct E as (y & Hy & N).
        assert (Hy' : In y keys /\ matches pfx y = true) by (apply filter_In; rewrite F; now right).
        exists k, y. repeat split; try tauto. congruence.
Qed.

Lemma bools_eqb_spec l1 l2 : list_eqb Bool.eqb l1 l2 = true -> l1 = l2.
Proof.
  revert l2. induction l1 as [|a l IH]; intros [|b l2]; simpl; try discriminate; [reflexivity|].
  rewrite andb_true_iff. intros [E H]. apply eqb_prop in E. subst. f_equal. now apply IH.
Qed.

Section QueryMeaning.
  Variable c : case.
  Notation ac := (all_commits_of c).
  Notation ah := (all_changes_of c).

  Definition query_holds (q : query) : Prop :=
    match q with
    | QShortCommit k len => short_holds k len ac
    | QResCommit pfx r => res_holds pfx ac r (fun _ => [])
    | QShortChange k len => short_holds k len ah
    | QResChange pfx r vis =>
        res_holds pfx ah r (change_positions c) /\
        match r with
        | ROne _ ps => vis = map (visible_at c) ps
        | _ => vis = []
        end
    | QShortCommit2 k len =>
        match c_dis c with
        | Some keys => if set_has k keys then refs_short_holds k len [] keys 1 else short_holds k len ac
        | None => short_holds k len ac
        end
    | QResCommit2 pfx r =>
        match c_dis c with
        | Some keys => res2_holds pfx keys ac r (fun _ => [])
        | None => res_holds pfx ac r (fun _ => [])
        end
    | QShortChange2 k len =>
        match c_dis_changes c with
        | Some keys => if set_has k keys then refs_short_holds k len [] keys 1 else short_holds k len ah
        | None => short_holds k len ah
        end
    | QResChange2 pfx r =>
        match c_dis_changes c with
        | Some keys => res2_holds pfx keys ah r (change_positions c)
        | None => res_holds pfx ah r (change_positions c)
        end
    | QRefsLen k _ len =>
        match c_dis c with
        | Some keys => if set_has k keys then refs_short_holds k len (c_names c) keys 1
                       else refs_short_holds k len (c_names c) ac 0
        | None => refs_short_holds k len (c_names c) ac 0
        end
    | QRefsLenChange k len =>
        match c_dis_changes c with
        | Some keys => if set_has k keys then refs_short_holds k len (c_change_names c) keys 1
                       else refs_short_holds k len (c_change_names c) ah 0
        | None => refs_short_holds k len (c_change_names c) ah 0
        end
    end.

  Lemma query_ok_sound q : query_ok c ac ah q = true -> query_holds q.
  Proof.
    destruct q as [k len|pfx r|k len|pfx r vis|k len|pfx r|k m len|k len|k len|pfx r]; simpl.
    - apply short_ok_sound.
    - apply res_spec_sound.
    - apply short_ok_sound.
    - rewrite andb_true_iff. intros [H1 H2]. split; [now apply res_spec_sound|].
      destruct r; try (destruct vis; [reflexivity|discriminate]). now apply bools_eqb_spec.
    - destruct (c_dis c) as [keys|]; [destruct (set_has k keys)|];
        [apply refs_short_ok_sound|apply short_ok_sound|apply short_ok_sound].
    - destruct (c_dis c) as [keys|]; [apply res2_spec_sound|apply res_spec_sound].
    - destruct (c_dis c) as [keys|]; [destruct (set_has k keys)|]; apply refs_short_ok_sound.
    - destruct (c_dis_changes c) as [keys|]; [destruct (set_has k keys)|]; apply refs_short_ok_sound.
    - destruct (c_dis_changes c) as [keys|]; [destruct (set_has k keys)|];
        [apply refs_short_ok_sound|apply short_ok_sound|apply short_ok_sound].
    - destruct (c_dis_changes c) as [keys|]; [apply res2_spec_sound|apply res_spec_sound].
  Qed.
End QueryMeaning.
