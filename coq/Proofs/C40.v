(** C40 proofs: in every step the protocol model accepts, a disk state is overwritten only
    after an operation has recorded it (or the workspace is absent from the loaded view). *)
From Verif Require Import Base.Prelude Model.C42 Model.C40 Proofs.C42.
From Coq Require Import Arith Lia.
Import ListNotations.

(** * Association lists *)
Lemma lookupN_set_same w (x : wsst) l y :
  lookupN w l = Some y -> lookupN w (set_ws w x l) = Some x.
Proof.
  induction l as [|[k z] t IH]; cbn [lookupN set_ws]; [discriminate|].
  destruct (N.eqb k w) eqn:E; cbn [lookupN]; rewrite E; auto.
Qed.

Lemma lookupN_set_other w w' (x : wsst) l :
  w' <> w -> lookupN w' (set_ws w x l) = lookupN w' l.
Proof.
  intros Hne. induction l as [|[k z] t IH]; cbn [lookupN set_ws]; [reflexivity|].
  destruct (N.eqb k w) eqn:E; cbn [lookupN].
  - apply N.eqb_eq in E. subst k.
    destruct (N.eqb w w') eqn:E'; [apply N.eqb_eq in E'; congruence|reflexivity].
  - destruct (N.eqb k w'); auto.
Qed.

Lemma lookupN_app_some {A} w (l e : list (N * A)) y :
  lookupN w l = Some y -> lookupN w (l ++ e) = Some y.
Proof.
  induction l as [|[k z] t IH]; cbn [lookupN app]; [discriminate|].
  destruct (N.eqb k w); auto.
Qed.

Lemma wsst_eqb_spec a b : wsst_eqb a b = true -> a = b.
Proof.
  unfold wsst_eqb. rewrite !andb_true_iff. intros [[H1 H2] H3].
  apply N.eqb_eq in H1, H2. apply Nat.eqb_eq in H3. destruct a, b; cbn in *. now subst.
Qed.

Lemma wsl_eqb_spec a : forall b, wsl_eqb a b = true -> a = b.
Proof.
  unfold wsl_eqb. induction a as [|[k x] t IH]; intros [|[k' y] t'] H; cbn [list_eqb] in H;
    try discriminate; auto.
  rewrite !andb_true_iff in H. cbn [fst snd] in H. destruct H as [[H1 H2] H3].
  apply N.eqb_eq in H1. apply wsst_eqb_spec in H2. subst. f_equal. auto.
Qed.

Lemma option_eqb_N_spec (a b : option N) : option_eqb N.eqb a b = true -> a = b.
Proof.
  destruct a, b; cbn; intros H; try discriminate; auto. apply N.eqb_eq in H. now subst.
Qed.

(** * Operations are append-only: what an operation records never changes *)
Lemma tree_of_app ops more i w d :
  tree_of ops i w = Some d -> tree_of (ops ++ more) i w = Some d.
Proof.
  unfold tree_of. destruct (nth_error ops i) as [op|] eqn:E; [|discriminate].
  assert (i < length ops) as Hlt by (apply nth_error_Some; congruence).
  rewrite nth_error_app1 by assumption. now rewrite E.
Qed.

Lemma firstn_prefix {A} k (l : list A) : exists r, l = firstn k l ++ r.
Proof. exists (skipn k l). now rewrite firstn_skipn. Qed.

Lemma firstn_1_2 {A} (l : list A) : exists r, firstn 2 l = firstn 1 l ++ r.
Proof. destruct l as [|x [|y t]]; [exists []|exists []|exists [y]]; reflexivity. Qed.

(** [d] is the tree of workspace [w]'s working-copy commit in an operation that exists once
    the snapshot phase of the command is over: an old operation, or the first new one. *)
Definition RecordedEarly (st : state) (ev : event) (w : N) (d : N) : Prop :=
  exists i, tree_of (s_ops st ++ firstn (early_n ev) (e_ops ev)) i w = Some d.

Lemma recorded_early_1 st ev w d i :
  tree_of (s_ops st ++ firstn 1 (e_ops ev)) i w = Some d -> RecordedEarly st ev w d.
Proof.
  intros H. exists i. unfold early_n. destruct (e_kind ev); try exact H;
    (destruct (firstn_1_2 (e_ops ev)) as [r ->]; rewrite app_assoc; now apply tree_of_app).
Qed.

Lemma snapshot_phase_recorded ops L w d news cur body bidx :
  snapshot_phase ops L w d news = Some (cur, body, bidx) ->
  tree_of (ops ++ firstn 1 news) cur w = Some d.
Proof.
  unfold snapshot_phase.
  destruct (option_eqb N.eqb (tree_of ops L w) (Some d)) eqn:E.
  - intros H. inversion H. subst. apply option_eqb_N_spec in E. now apply tree_of_app.
  - destruct news as [|sn body']; [discriminate|].
    destruct (list_eqb Nat.eqb (o_par sn) [L] && option_eqb N.eqb (lookupN w (o_wcs sn)) (Some d)) eqn:C;
      [|discriminate].
    intros H. inversion H. subst. apply andb_true_iff in C. destruct C as [_ C].
    apply option_eqb_N_spec in C. cbn [firstn]. unfold tree_of.
    rewrite nth_error_app2 by lia. rewrite Nat.sub_diag. cbn. exact C.
Qed.

(** * Branch lemmas: what each branch of the model does to the invoking workspace *)
Lemma add_workspace_keep st allops bidx body nw keep hs upd extra :
  add_workspace st allops bidx body nw keep = Some (hs, upd, extra) -> upd = keep.
Proof.
  unfold add_workspace. destruct body as [|a [|b [|c t]]]; try discriminate.
  - intros H. now inversion H.
  - destruct (lookupN nw (s_ws st)); [discriminate|].
    destruct (tree_of allops (bidx + 1) nw); [|discriminate]. intros H. now inversion H.
Qed.

Lemma add_workspace_extra st allops bidx body nw keep hs upd extra :
  add_workspace st allops bidx body nw keep = Some (hs, upd, extra) ->
  forall k y, In (k, y) extra -> lookupN k (s_ws st) = None.
Proof.
  unfold add_workspace. destruct body as [|a [|b [|c t]]]; try discriminate.
  - intros H. inversion H. contradiction.
  - destruct (lookupN nw (s_ws st)) eqn:E; [discriminate|].
    destruct (tree_of allops (bidx + 1) nw); [|discriminate]. intros H. inversion H. subst.
    intros k y [X|[]]. inversion X. now subst.
Qed.

Lemma exp_present_safe st ev h ws hs x extra :
  exp_present st ev h ws = Some (hs, Some x, extra) ->
  RecordedEarly st ev (e_ws ev) (w_disk ws).
Proof.
  unfold exp_present.
  destruct (memn (w_op ws) (s_lost st)).
  { destruct (N.eqb (e_status ev) 1 && is_nil (e_ops ev)); discriminate. }
  destruct (check_stale (s_ops st) ws h (e_ws ev)) eqn:F.
  - (* fresh *)
    destruct (N.eqb (e_status ev) 1); [discriminate|].
    destruct (snapshot_phase (s_ops st) h (e_ws ev) (w_disk ws) (e_ops ev)) as [[[cur body] bidx]|] eqn:S;
      [|discriminate].
    intros _. eapply recorded_early_1. eapply snapshot_phase_recorded; eauto.
  - (* updated *)
    destruct (N.eqb (e_status ev) 1); [discriminate|].
    destruct (snapshot_phase (s_ops st) wc_op (e_ws ev) (w_disk ws) (e_ops ev)) as [[[cur body] bidx]|] eqn:S;
      [|discriminate].
    intros _. eapply recorded_early_1. eapply snapshot_phase_recorded; eauto.
  - destruct (N.eqb (e_status ev) 1 && is_nil (e_ops ev)); discriminate.
  - destruct (N.eqb (e_status ev) 1 && is_nil (e_ops ev)); discriminate.
Qed.

Lemma exp_present_extra st ev h ws hs upd extra :
  exp_present st ev h ws = Some (hs, upd, extra) ->
  forall k y, In (k, y) extra -> lookupN k (s_ws st) = None.
Proof.
  unfold exp_present.
  assert (G : forall L,
    (if N.eqb (e_status ev) 1 then None
     else match snapshot_phase (s_ops st) L (e_ws ev) (w_disk ws) (e_ops ev) with
          | None => None
          | Some (cur, body, bidx) =>
              if negb (chain_from cur bidx body) then None
              else match e_kind ev with
                   | KWorkspaceAdd nw =>
                       match body with
                       | [] => Some (heads_after st ev cur, Some (mk_ws (w_disk ws) (w_disk ws) cur), [])
                       | _ => add_workspace st (s_ops st ++ e_ops ev) bidx body nw
                                (Some (mk_ws (w_disk ws) (w_disk ws) cur))
                       end
                   | _ => Some (heads_after st ev (last_op cur bidx body),
                                Some (after_body (s_ops st ++ e_ops ev) cur bidx body (e_ws ev) (w_disk ws)), [])
                   end
          end) = Some (hs, upd, extra) ->
    forall k y, In (k, y) extra -> lookupN k (s_ws st) = None).
  { intros L. destruct (N.eqb (e_status ev) 1); [discriminate|].
    destruct (snapshot_phase (s_ops st) L (e_ws ev) (w_disk ws) (e_ops ev)) as [[[cur body] bidx]|];
      [|discriminate].
    destruct (negb (chain_from cur bidx body)); [discriminate|].
    destruct (e_kind ev); try (intros H; inversion H; contradiction).
    destruct body as [|b0 bt]; [intros H; inversion H; contradiction|].
    intros H. eapply add_workspace_extra; eauto. }
  destruct (memn (w_op ws) (s_lost st)).
  { destruct (N.eqb (e_status ev) 1 && is_nil (e_ops ev)); [|discriminate].
    intros H. inversion H. contradiction. }
  destruct (check_stale (s_ops st) ws h (e_ws ev)).
  - apply G.
  - apply G.
  - destruct (N.eqb (e_status ev) 1 && is_nil (e_ops ev)); [|discriminate].
    intros H. inversion H. contradiction.
  - destruct (N.eqb (e_status ev) 1 && is_nil (e_ops ev)); [|discriminate].
    intros H. inversion H. contradiction.
Qed.

Lemma exp_recover_recorded st ev h ws wb r :
  e_kind ev = KUpdateStale \/ e_kind ev = KRecoverThen ->
  exp_recover st ev h ws wb = Some r ->
  RecordedEarly st ev (e_ws ev) (w_disk ws).
Proof.
  intros Hk. unfold exp_recover.
  destruct (e_ops ev) as [|R rest] eqn:Eo; [discriminate|].
  destruct (tree_of (s_ops st) h (e_ws ev)) as [th|]; [|discriminate].
  destruct (list_eqb Nat.eqb (o_par R) [h] && option_eqb N.eqb (lookupN (e_ws ev) (o_wcs R)) (Some th)
            && N.eqb (e_status ev) 0); [|discriminate].
  destruct (snapshot_phase (s_ops st ++ [R]) (length (s_ops st)) (e_ws ev) (w_disk ws) rest)
    as [[[cur body] bidx]|] eqn:S; [|discriminate].
  intros _. exists cur. apply snapshot_phase_recorded in S.
  assert (E2 : early_n ev = 2) by (unfold early_n; destruct Hk as [-> | ->]; reflexivity).
  rewrite E2, Eo.
  assert (X : s_ops st ++ firstn 2 (R :: rest) = (s_ops st ++ [R]) ++ firstn 1 rest).
  { rewrite <- app_assoc. reflexivity. }
  now rewrite X.
Qed.

Lemma recover_keeps_disk st ev h ws hs x extra :
  exp_recover st ev h ws false = Some (hs, Some x, extra) ->
  w_disk x = w_disk ws /\ w_tree x = w_disk ws
  /\ tree_of (s_ops st ++ e_ops ev) (w_op x) (e_ws ev) = Some (w_disk ws).
Proof.
  unfold exp_recover.
  destruct (e_ops ev) as [|R rest] eqn:Eo; [discriminate|].
  destruct (tree_of (s_ops st) h (e_ws ev)) as [th|]; [|discriminate].
  destruct (list_eqb Nat.eqb (o_par R) [h] && option_eqb N.eqb (lookupN (e_ws ev) (o_wcs R)) (Some th)
            && N.eqb (e_status ev) 0); [|discriminate].
  destruct (snapshot_phase (s_ops st ++ [R]) (length (s_ops st)) (e_ws ev) (w_disk ws) rest)
    as [[[cur body] bidx]|] eqn:S; [|discriminate].
  destruct (is_nil body) eqn:Nb; [|discriminate].
  intros H. inversion H. subst. cbn [w_disk w_tree w_op]. repeat split.
  pose proof (snapshot_phase_recorded _ _ _ _ _ _ _ _ S) as T.
  destruct (firstn_prefix 1 rest) as [r Hr].
  assert (X : s_ops st ++ R :: rest = ((s_ops st ++ [R]) ++ firstn 1 rest) ++ r).
  { rewrite <- !app_assoc. cbn [app]. now rewrite <- Hr. }
  rewrite X. now apply tree_of_app.
Qed.

Lemma exp_recover_extra st ev h ws wb hs upd extra :
  exp_recover st ev h ws wb = Some (hs, upd, extra) -> extra = [].
Proof.
  unfold exp_recover. intros H.
  repeat match type of H with
         | (match ?c with _ => _ end) = _ => destruct c; try discriminate
         | (if ?c then _ else _) = _ => destruct c; try discriminate
         | (let (_, _) := ?c in _) = _ => destruct c
         end; now inversion H.
Qed.

Lemma exp_update_stale_recorded st ev ws r :
  e_kind ev = KUpdateStale ->
  exp_update_stale st ev ws = Some r -> RecordedEarly st ev (e_ws ev) (w_disk ws).
Proof.
  intros Hk. unfold exp_update_stale.
  destruct (memn (w_op ws) (s_lost st)).
  { destruct (s_heads st) as [|h [|h2 t]]; try discriminate.
    intros H. eapply exp_recover_recorded; eauto. }
  destruct (snapshot_phase (s_ops st) (w_op ws) (e_ws ev) (w_disk ws) (e_ops ev))
    as [[[cur rest] idx]|] eqn:S; [|discriminate].
  intros _. eapply recorded_early_1. eapply snapshot_phase_recorded; eauto.
Qed.

Lemma exp_update_stale_extra st ev ws hs upd extra :
  exp_update_stale st ev ws = Some (hs, upd, extra) -> extra = [].
Proof.
  unfold exp_update_stale.
  destruct (memn (w_op ws) (s_lost st)).
  { destruct (s_heads st) as [|h [|h2 t]]; try discriminate. apply exp_recover_extra. }
  intros H.
  repeat match type of H with
         | (match ?c with _ => _ end) = _ => destruct c; try discriminate
         | (if ?c then _ else _) = _ => destruct c; try discriminate
         | (let (_, _) := ?c in _) = _ => destruct c
         end; now inversion H.
Qed.

Lemma exp_absent_extra st ev h ws hs upd extra :
  exp_absent st ev h ws = Some (hs, upd, extra) ->
  forall k y, In (k, y) extra -> lookupN k (s_ws st) = None.
Proof.
  unfold exp_absent.
  destruct (chain_from h (length (s_ops st)) (e_ops ev) && negb (N.eqb (e_status ev) 1)); [|discriminate].
  destruct (e_kind ev); try (intros H; inversion H; contradiction).
  destruct (e_ops ev) as [|b0 bt]; [intros H; inversion H; contradiction|].
  intros H. eapply add_workspace_extra; eauto.
Qed.

(** * One accepted step *)

(** What can happen to a workspace's disk during a command. *)
Definition StepSafe (st : state) (ev : event) (w : N) (ws ws' : wsst) : Prop :=
  w_disk ws' = w_disk ws
  \/ (w = e_ws ev
      /\ (RecordedEarly st ev w (w_disk ws) \/ absent_from_view st w = true)).

Lemma expected_res_safe st ev hs upd extra :
  expected_res st ev = Some (hs, upd, extra) -> e_kind ev <> KEdit ->
  (forall k y, In (k, y) extra -> lookupN k (s_ws st) = None)
  /\ (forall x ws, upd = Some x -> lookupN (e_ws ev) (s_ws st) = Some ws ->
        w_disk x = w_disk ws
        \/ RecordedEarly st ev (e_ws ev) (w_disk ws) \/ absent_from_view st (e_ws ev) = true).
Proof.
  unfold expected_res. intros H Hk.
  destruct (lookupN (e_ws ev) (s_ws st)) as [ws|] eqn:Hw; [|discriminate].
  assert (Present : forall h, s_heads st = [h] ->
    match tree_of (s_ops st) h (e_ws ev) with
    | Some _ => exp_present st ev h ws
    | None => exp_absent st ev h ws
    end = Some (hs, upd, extra) ->
    (forall k y, In (k, y) extra -> lookupN k (s_ws st) = None)
    /\ (forall x ws0, upd = Some x -> Some ws = Some ws0 ->
          w_disk x = w_disk ws0
          \/ RecordedEarly st ev (e_ws ev) (w_disk ws0) \/ absent_from_view st (e_ws ev) = true)).
  { intros h Hh H0. destruct (tree_of (s_ops st) h (e_ws ev)) eqn:T.
    - split; [eapply exp_present_extra; eauto|].
      intros x ws0 -> E. inversion E. subst ws0. right. left. eapply exp_present_safe; eauto.
    - split; [eapply exp_absent_extra; eauto|].
      intros x ws0 _ _. right. right. unfold absent_from_view. now rewrite Hh, T. }
  destruct (e_kind ev) eqn:K.
  - (* normal *)
    destruct (s_heads st) as [|h [|h2 t]] eqn:Hh; try discriminate. eapply Present; eauto.
  - (* ignore working copy *)
    destruct (s_heads st) as [|h [|h2 t]] eqn:Hh; try discriminate.
    destruct (chain_from h (length (s_ops st)) (e_ops ev)); [|discriminate].
    inversion H. subst. split; [intros k y []|]. intros x ws0 X. discriminate.
  - (* update-stale *)
    split.
    + apply exp_update_stale_extra in H. subst. intros k y [].
    + intros x ws0 _ E. inversion E. subst ws0. right. left.
      eapply exp_update_stale_recorded; eauto.
  - (* workspace add *)
    destruct (s_heads st) as [|h [|h2 t]] eqn:Hh; try discriminate. eapply Present; eauto.
  - (* at-op *)
    destruct ((x <? length (s_ops st)) && chain_from x (length (s_ops st)) (e_ops ev)); [|discriminate].
    inversion H. subst. split; [intros k y []|]. intros x0 ws0 X. discriminate.
  - (* op abandon: the disk is not touched *)
    destruct (s_heads st) as [|h [|h2 t]] eqn:Hh; try discriminate.
    destruct (e_ops ev) as [|H0 [|H1 t1]]; try discriminate.
    + inversion H. subst. split; [intros k y []|]. intros x0 ws0 X. discriminate.
    + match type of H with (if ?c then _ else _) = _ => destruct c; [|discriminate] end.
      inversion H. subst. split; [intros k y []|].
      intros x0 ws0 X E. inversion E. subst ws0. left.
      destruct (Nat.eqb (w_op ws) h); inversion X. reflexivity.
  - (* gc *)
    destruct (s_heads st) as [|h [|h2 t]] eqn:Hh; try discriminate. eapply Present; eauto.
  - (* recovery, then the command *)
    destruct (s_heads st) as [|h [|h2 t]] eqn:Hh; try discriminate.
    destruct (memn (w_op ws) (s_lost st)); [|discriminate].
    split.
    + apply exp_recover_extra in H. subst. intros k y [].
    + intros x0 ws0 _ E. inversion E. subst ws0. right. left.
      eapply exp_recover_recorded; eauto.
  - (* merge of operation heads *)
    destruct (s_heads st) as [|h1 [|h2 t]]; try discriminate.
    destruct (e_ops ev) as [|M [|M2 t2]]; try discriminate.
    destruct (seteqn (o_par M) (h1 :: h2 :: t)); [|discriminate].
    inversion H. subst. split; [intros k y []|]. intros x0 ws0 X. discriminate.
  - contradiction.
Qed.

Lemma accept_inv st ev st' : accept st ev = Some st' ->
  st' = mk_state (s_ops st ++ e_ops ev) (e_heads ev) (e_ws_post ev) (lost_after st ev)
  /\ e_status ev <> 3%N
  /\ (early_error st ev = true
      \/ exists r, expected_res st ev = Some r
                   /\ snd (apply_res st (e_ws ev) r) = e_ws_post ev
                   /\ fst (apply_res st (e_ws ev) r) = e_heads ev).
Proof.
  unfold accept, expected. intros H.
  destruct (N.eqb (e_status ev) 3) eqn:E3; cbn [negb andb] in H; [discriminate|].
  assert (N3 : e_status ev <> 3%N) by (intros X; rewrite X in E3; discriminate).
  destruct (early_error st ev) eqn:E; cbn [orb] in H.
  - inversion H. auto.
  - destruct (expected_res st ev) as [r|]; [|discriminate].
    destruct (apply_res st (e_ws ev) r) as [hs wsl] eqn:A.
    destruct (wf_from (map o_par (e_ops ev)) (length (s_ops st))
              && list_eqb Nat.eqb (e_heads ev) hs && wsl_eqb (e_ws_post ev) wsl) eqn:C; [|discriminate].
    inversion H. split; [reflexivity|]. split; [assumption|]. right. exists r. rewrite A. cbn [fst snd].
    rewrite !andb_true_iff in C. destruct C as [[_ C1] C2].
    apply wsl_eqb_spec in C2. apply list_eqb_nat_spec in C1. auto.
Qed.

Theorem accept_step_safe st ev st' :
  accept st ev = Some st' -> e_kind ev <> KEdit ->
  forall w ws, lookupN w (s_ws st) = Some ws ->
  exists ws', lookupN w (s_ws st') = Some ws' /\ StepSafe st ev w ws ws'.
Proof.
  intros Hacc Hk w ws Hw.
  destruct (accept_inv st ev st' Hacc) as [-> [_ [He|[r [Hr [Hpost _]]]]]]; cbn [s_ws].
  - (* failed before loading the workspace *)
    unfold early_error in He. rewrite !andb_true_iff in He. destruct He as [_ He].
    apply wsl_eqb_spec in He. rewrite He. exists ws. split; [assumption|now left].
  - destruct r as [[hs upd] extra]. cbn [apply_res snd] in Hpost. rewrite <- Hpost.
    destruct (expected_res_safe st ev hs upd extra Hr Hk) as [_ Hsafe].
    destruct upd as [x|].
    + destruct (N.eq_dec w (e_ws ev)) as [->|Hne].
      * exists x. split.
        -- apply lookupN_app_some. eapply lookupN_set_same; eauto.
        -- destruct (Hsafe x ws eq_refl Hw) as [D|R]; [now left|right; split; [reflexivity|exact R]].
      * exists ws. split; [|now left].
        apply lookupN_app_some. now rewrite lookupN_set_other.
    + exists ws. split; [|now left]. now apply lookupN_app_some.
Qed.

(** A stale or sibling working copy aborts the command: no operation, no change. *)
Lemma accept_stale_aborts st ev st' h ws :
  accept st ev = Some st' -> s_heads st = [h] ->
  lookupN (e_ws ev) (s_ws st) = Some ws ->
  (e_kind ev = KNormal \/ exists nw, e_kind ev = KWorkspaceAdd nw) ->
  tree_of (s_ops st) h (e_ws ev) <> None ->
  (check_stale (s_ops st) ws h (e_ws ev) = FStale \/ check_stale (s_ops st) ws h (e_ws ev) = FSibling) ->
  e_ops ev = [] /\ e_ws_post ev = s_ws st.
Proof.
  intros Hacc Hh Hw Hk Ht Hs.
  destruct (accept_inv st ev st' Hacc) as [_ [_ [He|[r [Hr [Hpost _]]]]]].
  - unfold early_error in He. rewrite !andb_true_iff in He.
    destruct He as [[[[_ Hn] _] _] He]. apply wsl_eqb_spec in He.
    destruct (e_ops ev); [auto|discriminate].
  - unfold expected_res in Hr. rewrite Hw in Hr.
    assert (X : exp_present st ev h ws = Some r).
    { destruct Hk as [K|[nw K]]; rewrite K, Hh in Hr;
        (destruct (tree_of (s_ops st) h (e_ws ev)); [assumption|congruence]). }
    unfold exp_present in X.
    assert (Y : (if N.eqb (e_status ev) 1 && is_nil (e_ops ev) then Some ([h], None, []) else None) = Some r).
    { destruct (memn (w_op ws) (s_lost st)); [exact X|].
      destruct Hs as [E|E]; rewrite E in X; exact X. }
    destruct (N.eqb (e_status ev) 1 && is_nil (e_ops ev)) eqn:C; [|discriminate].
    inversion Y. subst r. cbn in Hpost. rewrite app_nil_r in Hpost.
    apply andb_true_iff in C. destruct C as [_ C].
    destruct (e_ops ev); [auto|discriminate].
Qed.

(** * Whole runs *)
Fixpoint run_prop (P : state -> event -> Prop) (st : state) (evs : list event) : Prop :=
  match evs with
  | [] => True
  | ev :: t => P st ev /\ match accept st ev with Some st' => run_prop P st' t | None => True end
  end.

Definition StepSafeAll (st : state) (ev : event) : Prop :=
  e_kind ev <> KEdit ->
  forall w ws, lookupN w (s_ws st) = Some ws ->
  exists ws', lookupN w (e_ws_post ev) = Some ws' /\ StepSafe st ev w ws ws'.

Lemma run_step_safe evs : forall st stf, run st evs = Some stf -> run_prop StepSafeAll st evs.
Proof.
  induction evs as [|ev t IH]; intros st stf Hrun; cbn [run_prop]; [exact I|].
  cbn [run] in Hrun. destruct (accept st ev) as [st1|] eqn:Ha; [|discriminate].
  split; [|eapply IH; eauto].
  intros Hk w ws Hw. destruct (accept_step_safe st ev st1 Ha Hk w ws Hw) as [ws' [H1 H2]].
  destruct (accept_inv st ev st1 Ha) as [-> _]. cbn [s_ws] in H1. eauto.
Qed.

Lemma accept_ops st ev st' : accept st ev = Some st' -> s_ops st' = s_ops st ++ e_ops ev.
Proof. intros H. destruct (accept_inv st ev st' H) as [-> _]. reflexivity. Qed.

Lemma run_ops_prefix evs : forall st stf, run st evs = Some stf ->
  exists more, s_ops stf = s_ops st ++ more.
Proof.
  induction evs as [|ev t IH]; intros st stf Hrun; cbn [run] in Hrun.
  - inversion Hrun. exists []. now rewrite app_nil_r.
  - destruct (accept st ev) as [st1|] eqn:Ha; [|discriminate].
    destruct (IH st1 stf Hrun) as [more Hm]. rewrite (accept_ops _ _ _ Ha) in Hm.
    exists (e_ops ev ++ more). now rewrite app_assoc.
Qed.

(** At the end of an accepted run every disk state that some command overwrote is still the
    tree of a working-copy commit of an operation in the log (or the workspace was absent
    from the view the command loaded). *)
Definition RecoverableAtEnd (stf : state) (st : state) (ev : event) : Prop :=
  e_kind ev <> KEdit ->
  forall w ws ws', lookupN w (s_ws st) = Some ws -> lookupN w (e_ws_post ev) = Some ws' ->
    w_disk ws' <> w_disk ws ->
    (exists i, tree_of (s_ops stf) i w = Some (w_disk ws))
    \/ (w = e_ws ev /\ absent_from_view st w = true).

Lemma run_recoverable evs : forall st stf, run st evs = Some stf ->
  run_prop (RecoverableAtEnd stf) st evs.
Proof.
  induction evs as [|ev t IH]; intros st stf Hrun; cbn [run_prop]; [exact I|].
  cbn [run] in Hrun. destruct (accept st ev) as [st1|] eqn:Ha; [|discriminate].
  split; [|eapply IH; eauto].
  intros Hk w ws ws' Hw Hw' Hd.
  destruct (accept_step_safe st ev st1 Ha Hk w ws Hw) as [ws1 [H1 H2]].
  destruct (accept_inv st ev st1 Ha) as [E _]. rewrite E in H1. cbn [s_ws] in H1.
  rewrite Hw' in H1. inversion H1. subst ws1.
  destruct H2 as [H2|[-> [[i Hi]|Habs]]]; [contradiction| |right; auto].
  left. exists i.
  destruct (run_ops_prefix t st1 stf Hrun) as [more Hm].
  rewrite Hm, (accept_ops _ _ _ Ha).
  destruct (firstn_prefix (early_n ev) (e_ops ev)) as [r Hr].
  rewrite Hr at 1. rewrite <- !app_assoc. rewrite app_assoc. now apply tree_of_app.
Qed.

(** * The observation-level oracle *)
Definition RecordedIn (rec : list (nat * N * N)) (bound : nat) (w : N) (d : N) : Prop :=
  exists i, i < bound /\ In (i, w, d) rec.

Lemma recorded_spec rec bound w d : recorded rec bound w d = true <-> RecordedIn rec bound w d.
Proof.
  unfold recorded, RecordedIn. rewrite existsb_exists. split.
  - intros [[[i w'] d'] [Hin H]]. rewrite !andb_true_iff in H. destruct H as [[H1 H2] H3].
    apply Nat.ltb_lt in H1. apply N.eqb_eq in H2, H3. subst. eauto.
  - intros [i [Hlt Hin]]. exists (i, w, d). split; [assumption|].
    rewrite !andb_true_iff, !N.eqb_refl. repeat split. now apply Nat.ltb_lt.
Qed.

Lemma lookupN_in_keys {A} w (l : list (N * A)) y : lookupN w l = Some y -> In w (map fst l).
Proof.
  induction l as [|[k z] t IH]; cbn [lookupN map fst In]; [discriminate|].
  destruct (N.eqb k w) eqn:E; [apply N.eqb_eq in E; auto|auto].
Qed.

(** What [event_okb] decides, for a command event. *)
Definition EventOk (strict : bool) (rec : list (nat * N * N)) (st : state) (ev : event) : Prop :=
  e_kind ev <> KEdit ->
  e_status ev <> 3%N /\
  forall w ws, lookupN w (s_ws st) = Some ws ->
    let changed := match lookupN w (e_ws_post ev) with
                   | Some ws' => w_disk ws' <> w_disk ws
                   | None => True
                   end in
    let snapshotted := w = e_ws ev /\ e_status ev = 0%N /\ absent_from_view st w = false
                       /\ snap_kind (e_kind ev) = true in
    (changed \/ snapshotted) ->
    RecordedIn rec (length (s_ops st) + length (e_ops ev)) w (w_disk ws)
    \/ (strict = false /\ w = e_ws ev /\ absent_from_view st w = true).

Definition okb_body (strict : bool) (rec : list (nat * N * N)) (st : state) (ev : event) (w : N) : bool :=
  match lookupN w (s_ws st) with
  | None => true
  | Some ws =>
    let d := w_disk ws in
    let changed := match lookupN w (e_ws_post ev) with
                   | Some ws' => negb (N.eqb (w_disk ws') d)
                   | None => true
                   end in
    let snapshotted := N.eqb w (e_ws ev) && N.eqb (e_status ev) 0
                       && negb (absent_from_view st w)
                       && snap_kind (e_kind ev) in
    negb (changed || snapshotted)
    || recorded rec (length (s_ops st) + length (e_ops ev)) w d
    || (negb strict && N.eqb w (e_ws ev) && absent_from_view st w)
  end.

Lemma event_okb_unfold strict rec st ev : e_kind ev <> KEdit ->
  event_okb strict rec st ev
  = forallb (okb_body strict rec st ev) (map fst (s_ws st)) && negb (N.eqb (e_status ev) 3).
Proof. unfold event_okb, okb_body. destruct (e_kind ev); intros H; try reflexivity. contradiction. Qed.

Lemma event_okb_spec strict rec st ev : event_okb strict rec st ev = true -> EventOk strict rec st ev.
Proof.
  unfold EventOk. intros H Hk.
  rewrite (event_okb_unfold _ _ _ _ Hk), andb_true_iff, forallb_forall in H. destruct H as [H H3].
  split. { intros X. rewrite X in H3. discriminate. }
  intros w ws Hw Hneed.
  specialize (H w (lookupN_in_keys _ _ _ Hw)). unfold okb_body in H. rewrite Hw in H.
  rewrite !orb_true_iff in H. destruct H as [[F|F]|F].
  - exfalso. apply negb_true_iff in F. apply orb_false_iff in F. destruct F as [F1 F2].
    destruct Hneed as [Hc|[-> [Hs [Ha Hi]]]].
    + destruct (lookupN w (e_ws_post ev)) as [ws'|]; [|discriminate].
      apply negb_false_iff, N.eqb_eq in F1. contradiction.
    + rewrite N.eqb_refl, Hs, Ha, Hi in F2. discriminate.
  - left. now apply recorded_spec.
  - right. rewrite !andb_true_iff in F. destruct F as [[F1 F2] F3].
    apply negb_true_iff in F1. apply N.eqb_eq in F2. auto.
Qed.

(** * Every trace the model accepts passes the (non-strict) oracle *)

(** A successful snapshotting command in a workspace that is in the loaded view records the
    disk even when it does not overwrite it. *)
Lemma exp_present_recorded st ev h ws r :
  exp_present st ev h ws = Some r -> e_status ev = 0%N ->
  RecordedEarly st ev (e_ws ev) (w_disk ws).
Proof.
  unfold exp_present. intros H Hst. rewrite Hst in H. cbn [N.eqb] in H.
  destruct (memn (w_op ws) (s_lost st)); cbn [andb] in H; [discriminate|].
  destruct (check_stale (s_ops st) ws h (e_ws ev)); cbn [andb] in H; try discriminate.
  - destruct (snapshot_phase (s_ops st) h (e_ws ev) (w_disk ws) (e_ops ev)) as [[[cur body] bidx]|] eqn:S;
      [|discriminate].
    eapply recorded_early_1. eapply snapshot_phase_recorded; eauto.
  - destruct (snapshot_phase (s_ops st) wc_op (e_ws ev) (w_disk ws) (e_ops ev)) as [[[cur body] bidx]|] eqn:S;
      [|discriminate].
    eapply recorded_early_1. eapply snapshot_phase_recorded; eauto.
Qed.

Lemma accept_snapshotted st ev st' ws :
  accept st ev = Some st' -> e_status ev = 0%N ->
  lookupN (e_ws ev) (s_ws st) = Some ws ->
  absent_from_view st (e_ws ev) = false ->
  snap_kind (e_kind ev) = true ->
  RecordedEarly st ev (e_ws ev) (w_disk ws).
Proof.
  intros Hacc Hst Hw Habs Hk.
  destruct (accept_inv st ev st' Hacc) as [_ [_ [He|[r [Hr _]]]]].
  - unfold early_error in He. rewrite Hst in He. discriminate.
  - unfold expected_res in Hr. rewrite Hw in Hr.
    assert (Present : forall h, s_heads st = [h] ->
      match tree_of (s_ops st) h (e_ws ev) with
      | Some _ => exp_present st ev h ws
      | None => exp_absent st ev h ws
      end = Some r -> RecordedEarly st ev (e_ws ev) (w_disk ws)).
    { intros h Hh H0. unfold absent_from_view in Habs. rewrite Hh in Habs.
      destruct (tree_of (s_ops st) h (e_ws ev)) eqn:T; [|discriminate].
      eapply exp_present_recorded; eauto. }
    destruct (e_kind ev) eqn:K; try discriminate.
    + destruct (s_heads st) as [|h [|h2 t]] eqn:Hh; try discriminate. eapply Present; eauto.
    + eapply exp_update_stale_recorded; eauto.
    + destruct (s_heads st) as [|h [|h2 t]] eqn:Hh; try discriminate. eapply Present; eauto.
    + destruct (s_heads st) as [|h [|h2 t]] eqn:Hh; try discriminate. eapply Present; eauto.
    + destruct (s_heads st) as [|h [|h2 t]] eqn:Hh; try discriminate.
      destruct (memn (w_op ws) (s_lost st)); [|discriminate].
      eapply exp_recover_recorded; eauto.
Qed.

Lemma recorded_early_bound st ev w d :
  RecordedEarly st ev w d ->
  exists i, i < length (s_ops st) + length (e_ops ev)
            /\ tree_of (s_ops st ++ e_ops ev) i w = Some d.
Proof.
  intros [i Hi]. exists i.
  assert (i < length (s_ops st ++ firstn (early_n ev) (e_ops ev))) as Hlt.
  { unfold tree_of in Hi.
    destruct (nth_error (s_ops st ++ firstn (early_n ev) (e_ops ev)) i) eqn:E; [|discriminate].
    apply nth_error_Some. congruence. }
  rewrite app_length in Hlt.
  destruct (firstn_prefix (early_n ev) (e_ops ev)) as [r Hr].
  assert (length (firstn (early_n ev) (e_ops ev)) <= length (e_ops ev)).
  { rewrite Hr at 2. rewrite app_length. lia. }
  split; [lia|].
  rewrite Hr at 1. rewrite app_assoc. now apply tree_of_app.
Qed.

Lemma accept_event_okb rec st ev st' :
  accept st ev = Some st' ->
  (forall i w d, tree_of (s_ops st') i w = Some d -> In (i, w, d) rec) ->
  event_okb false rec st ev = true.
Proof.
  intros Hacc Hrec.
  destruct (match e_kind ev with KEdit => true | _ => false end) eqn:KE.
  { unfold event_okb. destruct (e_kind ev); try discriminate. reflexivity. }
  assert (Hk : e_kind ev <> KEdit) by (intros X; rewrite X in KE; discriminate).
  rewrite (event_okb_unfold _ _ _ _ Hk). apply andb_true_iff. split;
    [|destruct (accept_inv st ev st' Hacc) as [_ [N3 _]];
      destruct (N.eqb (e_status ev) 3) eqn:E3; [apply N.eqb_eq in E3; contradiction|reflexivity]].
  apply forallb_forall. intros w _.
  unfold okb_body. destruct (lookupN w (s_ws st)) as [ws|] eqn:Hw; [|reflexivity].
  destruct (accept_step_safe st ev st' Hacc Hk w ws Hw) as [ws' [Hw' Hsafe]].
  destruct (accept_inv st ev st' Hacc) as [E _].
  assert (Hpost : lookupN w (e_ws_post ev) = Some ws') by (rewrite E in Hw'; exact Hw').
  rewrite Hpost.
  assert (Rec : RecordedEarly st ev w (w_disk ws) ->
                recorded rec (length (s_ops st) + length (e_ops ev)) w (w_disk ws) = true).
  { intros R. apply recorded_spec. destruct (recorded_early_bound st ev w _ R) as [i [Hlt Hi]].
    exists i. split; [assumption|]. apply Hrec. rewrite E. exact Hi. }
  cbn [negb andb].
  destruct (negb (N.eqb (w_disk ws') (w_disk ws))) eqn:Ch.
  - (* the disk changed *)
    apply negb_true_iff, N.eqb_neq in Ch.
    destruct Hsafe as [X|[-> [R|A]]]; [contradiction| |].
    + rewrite (Rec R), orb_true_r. reflexivity.
    + rewrite A, N.eqb_refl. cbn [andb]. apply orb_true_r.
  - cbn [orb].
    destruct (N.eqb w (e_ws ev) && N.eqb (e_status ev) 0 && negb (absent_from_view st w)
              && snap_kind (e_kind ev)) eqn:Sn;
      [|reflexivity].
    rewrite !andb_true_iff in Sn. destruct Sn as [[[S1 S2] S3] S4].
    apply N.eqb_eq in S1, S2. apply negb_true_iff in S3. subst w.
    assert (R : RecordedEarly st ev (e_ws ev) (w_disk ws)).
    { eapply accept_snapshotted; eauto. }
    rewrite (Rec R). reflexivity.
Qed.

Lemma run_accept_okb rec evs : forall st stf,
  run st evs = Some stf ->
  (forall i w d, tree_of (s_ops stf) i w = Some d -> In (i, w, d) rec) ->
  run_okb false rec st evs = true.
Proof.
  induction evs as [|ev t IH]; intros st stf Hrun Hrec; cbn [run_okb]; [reflexivity|].
  cbn [run] in Hrun. destruct (accept st ev) as [st1|] eqn:Ha; [|discriminate].
  apply andb_true_iff. split.
  - eapply accept_event_okb; eauto. intros i w d Hi. apply Hrec.
    destruct (run_ops_prefix t st1 stf Hrun) as [more Hm]. rewrite Hm. now apply tree_of_app.
  - destruct (accept_inv st ev st1 Ha) as [E _]. rewrite <- E. eapply IH; eauto.
Qed.
