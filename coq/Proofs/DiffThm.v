(** Theorems about the diff model's hunks, for every valid matching function (Layer A).
    Independent of the generated tables and of the case/checker definitions. *)
From Coq Require Import Lia Arith Sorted.
From Verif Require Import Base.Prelude Model.Diff
     Proofs.DiffBase Proofs.DiffA Proofs.DiffA2 Proofs.DiffA3 Proofs.DiffA4.

(** What the property says about a list of hunks for given inputs. *)
Definition Partition (inputs : list bytes) (hs : list hunk) : Prop :=
  (forall h, In h hs -> length (snd h) = length inputs)
  /\ forall i, i < length inputs -> DiffA.side_concat (nth i inputs []) i hs = nth i inputs [].
Definition NoEmptyHunk (inputs : list bytes) (hs : list hunk) : Prop :=
  forall h, In h hs -> exists x, In x (contents inputs (snd h)) /\ x <> [].
Definition MatchingEq (c : comparator) (inputs : list bytes) (hs : list hunk) : Prop :=
  forall h, In h hs -> fst h = true ->
  forall x y, In x (contents inputs (snd h)) -> In y (contents inputs (snd h)) -> norm c x = norm c y.

Lemma bytes_eqb_spec (a b : bytes) : bytes_eqb a b = true <-> a = b.
Proof.
  unfold bytes_eqb. revert b; induction a as [|x a IH]; intros [|y b]; cbn; try (split; congruence).
  rewrite Bool.andb_true_iff, N.eqb_eq, IH. split; [intros (-> & ->); reflexivity|intros E; injection E; auto].
Qed.

Lemma all_emptyb_false_iff r : all_emptyb r = false <-> exists rg, In rg r /\ fst rg <> snd rg.
Proof.
  unfold all_emptyb. induction r as [|p r IH]; cbn [forallb].
  - split; [discriminate|intros (rg & [] & _)].
  - rewrite Bool.andb_false_iff, Nat.eqb_neq, IH. split.
    + intros [H|(rg & A & B)]; [exists p; split; [now left|assumption]|exists rg; split; [now right|assumption]].
    + intros (rg & [->|A] & B); [now left|right; eauto].
Qed.

(** The meaning of the checker run on the implementation's hunks. *)
Definition Hunks_ok (s : steps) (inputs : list bytes) (hs : list hunk) : Prop :=
  Partition inputs hs /\ NoEmptyHunk inputs hs /\ alternate hs
  /\ forall c, s <> [] -> Forall (fun tc => snd tc = c) s -> MatchingEq c inputs hs.

(** * The theorems on the model, for every valid matching function *)
Section LayerA.
  Variable M : list bytes -> list bytes -> list (nat * nat).
  Hypothesis M_valid : forall a b, valid_matching (length a) (length b) (M a b).

  Definition model_hunks (s : steps) (inputs : list bytes) : list hunk := hunks (run_steps M s inputs).

  Lemma good_lengths inputs l : good inputs l -> Forall (fun r => length r = length inputs) l.
  Proof.
    intros (S & _). apply span_lengths in S. eapply Forall_impl; [|exact S]. cbn.
    intros r ->. unfold zeros_of. apply map_length.
  Qed.

  Lemma hunks_from_lengths n : forall l prev,
    length prev = n -> Forall (fun r => length r = n) l ->
    forall h, In h (hunks_from prev l) -> length (snd h) = n.
  Proof.
    induction l as [|cur t IH]; intros prev Hp Hl h Hh; cbn [hunks_from] in Hh; [destruct Hh|].
    inversion Hl; subst. destruct Hh as [<-|Hh].
    - cbn [snd]. rewrite between_length; congruence.
    - apply in_app_or in Hh. destruct Hh as [Hh|Hh].
      + destruct (all_emptyb cur); [destruct Hh|]. destruct Hh as [<-|[]]. cbn [snd]. congruence.
      + eapply IH; eauto.
  Qed.

  Lemma hunks_lengths n l : Forall (fun r => length r = n) l ->
    forall h, In h (hunks l) -> length (snd h) = n.
  Proof.
    destruct l as [|u0 rest]; intros Hl h Hh; [destruct Hh|]. inversion Hl; subst.
    cbn [hunks] in Hh. apply in_app_or in Hh. destruct Hh as [Hh|Hh].
    - destruct (all_emptyb u0); [destruct Hh|]. destruct Hh as [<-|[]]. cbn [snd]. congruence.
    - eapply hunks_from_lengths; eauto.
  Qed.

  Theorem partition_thm s inputs :
    inputs <> [] -> s <> [] -> Partition inputs (model_hunks s inputs).
  Proof.
    intros Hi Hs. pose proof (run_steps_good M M_valid s inputs Hi Hs) as Hg. split.
    - apply hunks_lengths. now apply good_lengths.
    - intros i Hlt. apply side_concat_hunks; [|assumption]. apply Hg.
  Qed.

  Theorem no_empty_hunk_thm s inputs :
    inputs <> [] -> s <> [] -> NoEmptyHunk inputs (model_hunks s inputs).
  Proof.
    intros Hi Hs. pose proof (run_steps_good M M_valid s inputs Hi Hs) as Hg.
    pose proof (good_lengths _ _ Hg) as HL. destruct Hg as (S & N & _).
    unfold model_hunks. intros h Hh.
    assert (Q : Forall (fun h => all_emptyb (snd h) = false) (hunks (run_steps M s inputs))).
    { apply hunks_nonempty. destruct (run_steps M s inputs) as [|u0 rest]; [exact I|].
      destruct S as (_ & C & _). auto. }
    pose proof (hunks_bounded _ _ _ S) as Bd.
    rewrite Forall_forall in Q, Bd. destruct (Bd h Hh) as (W & B).
    apply contents_nonempty; auto. eapply hunks_lengths; eauto.
  Qed.

  Theorem alternate_thm s inputs :
    inputs <> [] -> s <> [] -> alternate (model_hunks s inputs).
  Proof.
    intros Hi Hs. destruct (run_steps_good M M_valid s inputs Hi Hs) as (_ & _ & Mo).
    now apply hunks_alternate.
  Qed.

  Hypothesis M_eq : forall a b, eq_matching a b (M a b).

  Lemma hunks_from_matching (Q : region -> Prop) : forall l prev,
    Forall Q l -> forall h, In h (hunks_from prev l) -> fst h = true -> Q (snd h).
  Proof.
    induction l as [|cur t IH]; intros prev Hl h Hh Hk; cbn [hunks_from] in Hh; [destruct Hh|].
    inversion Hl; subst. destruct Hh as [<-|Hh]; [discriminate|].
    apply in_app_or in Hh. destruct Hh as [Hh|Hh].
    - destruct (all_emptyb cur); [destruct Hh|]. destruct Hh as [<-|[]]. assumption.
    - eapply IH; eauto.
  Qed.

  Theorem matching_eq_thm c s inputs :
    inputs <> [] -> s <> [] -> Forall (fun tc => snd tc = c) s ->
    MatchingEq c inputs (model_hunks s inputs).
  Proof.
    intros Hi Hs Hc. pose proof (run_steps_P M M_valid M_eq c s inputs Hi Hc) as HP.
    unfold model_hunks. intros h Hh Hk.
    assert (R : req c inputs (snd h)).
    { destruct (run_steps M s inputs) as [|u0 rest]; [destruct Hh|]. inversion HP; subst.
      cbn [hunks] in Hh. apply in_app_or in Hh. destruct Hh as [Hh|Hh].
      - destruct (all_emptyb u0); [destruct Hh|]. destruct Hh as [<-|[]]. apply H1.
      - apply (hunks_from_matching (req c inputs) rest u0); auto.
        eapply Forall_impl; [|exact H2]. intros r (_ & _ & R). exact R. }
    unfold req in R. intros x y Hx Hy. destruct (contents inputs (snd h)) as [|x0 t]; [destruct Hx|].
    rewrite Forall_forall in R.
    assert (Q : forall z, In z (x0 :: t) -> norm c z = norm c x0).
    { intros z [->|Hz]; [reflexivity|now apply R]. }
    now rewrite (Q x Hx), (Q y Hy).
  Qed.

  Theorem hunks_ok_thm s inputs :
    inputs <> [] -> s <> [] -> Hunks_ok s inputs (model_hunks s inputs).
  Proof.
    intros Hi Hs. repeat split.
    - apply partition_thm; auto.
    - apply partition_thm; auto.
    - apply no_empty_hunk_thm; auto.
    - apply alternate_thm; auto.
    - intros c _ Hc. apply matching_eq_thm; auto.
  Qed.
End LayerA.

(** * Restatements used by Props/C03.v *)
Lemma side_concat_contents inputs i hs :
  (forall h, In h hs -> length (snd h) = length inputs) -> i < length inputs ->
  DiffA.side_concat (nth i inputs []) i hs
  = concat (map (fun h => nth i (contents inputs (snd h)) []) hs).
Proof.
  intros HL Hi. induction hs as [|h t IH]; [reflexivity|].
  cbn [DiffA.side_concat map concat]. rewrite IH by (intros; apply HL; now right). f_equal.
  unfold contents. symmetry. apply (map2_nth (fun (x : bytes) (rg : nat * nat) => slice x (fst rg) (snd rg)) inputs (snd h) i [] (0, 0) []); [assumption|].
  rewrite HL; [assumption|now left].
Qed.

Lemma alternate_nth hs :
  alternate hs <->
  forall i h1 h2, nth_error hs i = Some h1 -> nth_error hs (S i) = Some h2 -> fst h1 <> fst h2.
Proof.
  induction hs as [|a t IH]; [split; [intros _ [|i] ? ? H; discriminate H|intros _; exact I]|].
  destruct t as [|b t'].
  - split; [|intros _; exact I]. intros _ [|[|i]] h1 h2 H1 H2; discriminate H2.
  - change (alternate (a :: b :: t')) with (fst a <> fst b /\ alternate (b :: t')). rewrite IH. split.
    + intros (A & B) [|i] h1 h2 H1 H2.
      * cbn in H1, H2. congruence.
      * apply (B i); assumption.
    + intros H. split; [apply (H 0); reflexivity|]. intros i h1 h2 H1 H2. apply (H (S i)); assumption.
Qed.

