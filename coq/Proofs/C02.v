(** C02: [trivial_merge] is exactly the cancellation rule stated on the denotation. *)
From Verif Require Import Base.Prelude Model.Merge Model.C02 Proofs.MergeDen Proofs.C01.
From Coq Require Import Lia Arith.
Local Open Scope Z_scope.

Section C02.
  Context {T : Type} (eqb : T -> T -> bool).
  Hypothesis eqb_spec : forall x y, eqb x y = true <-> x = y.

  Notation ind := (ind eqb).
  Notation den := (den eqb).
  Notation den_s := (den_s eqb).

  Lemma eqb_refl x : eqb x x = true.
  Proof. now apply eqb_spec. Qed.
  Lemma eqb_false x y : x <> y -> eqb x y = false.
  Proof. intros H. destruct (eqb x y) eqn:E; [|reflexivity]. now apply eqb_spec in E. Qed.
  Lemma eq_dec (x y : T) : {x = y} + {x <> y}.
  Proof.
    destruct (eqb x y) eqn:E; [left; now apply eqb_spec|right].
    intros C. apply eqb_spec in C. congruence.
  Qed.
  Lemma ind_same x : ind x x = 1.
  Proof. unfold MergeDen.ind. now rewrite eqb_refl. Qed.
  Lemma ind_diff x y : x <> y -> ind x y = 0.
  Proof. intros H. unfold MergeDen.ind. now rewrite eqb_false. Qed.

  (** The declarative rule. [Resolves accept l v]: after cancellation only [v] is left, or
      (when [accept]) exactly one other value [w] is left and its net count is negative. *)
  Definition Resolves (accept : bool) (l : list T) (v : T) : Prop :=
    0 < den l v /\
    ((forall w, w <> v -> den l w = 0) \/
     (accept = true /\ exists w, w <> v /\ den l w < 0 /\ forall u, u <> v -> u <> w -> den l u = 0)).

  (** * the counting table *)
  Fixpoint lookup (c : list (T * Z)) (v : T) : Z :=
    match c with [] => 0 | (k, n) :: t => n * ind k v + lookup t v end.
  Fixpoint total (c : list (T * Z)) : Z :=
    match c with [] => 0 | (_, n) :: t => n + total t end.

  Lemma bump_keys v n c k : In k (map fst (bump eqb v n c)) <-> k = v \/ In k (map fst c).
  Proof.
    induction c as [|[w m] t IH]; cbn [bump map fst In]; [intuition|].
    destruct (eqb w v) eqn:E; cbn [map fst In].
    - apply eqb_spec in E. subst. intuition.
    - rewrite IH. intuition.
  Qed.

  Lemma bump_nodup v n c : NoDup (map fst c) -> NoDup (map fst (bump eqb v n c)).
  Proof.
    induction c as [|[w m] t IH]; cbn [bump map fst]; intros A; [repeat constructor; auto|].
    inversion A as [|? ? Hn Ht]; subst.
    destruct (eqb w v) eqn:E; cbn [map fst]; [constructor; assumption|].
    constructor; [|auto]. rewrite bump_keys. intros [->|H]; [|contradiction].
    now rewrite eqb_refl in E.
  Qed.

  Lemma bump_lookup v n c k : lookup (bump eqb v n c) k = lookup c k + n * ind v k.
  Proof.
    induction c as [|[w m] t IH]; cbn [bump lookup]; [lia|].
    destruct (eqb w v) eqn:E; cbn [lookup].
    - apply eqb_spec in E. subst. lia.
    - rewrite IH. lia.
  Qed.

  Lemma bump_total v n c : total (bump eqb v n c) = total c + n.
  Proof.
    induction c as [|[w m] t IH]; cbn [bump total]; [lia|].
    destruct (eqb w v); cbn [total]; [lia|rewrite IH; lia].
  Qed.

  Fixpoint alt (s : bool) (l : list T) : Z :=
    match l with [] => 0 | _ :: t => sg s + alt (negb s) t end.

  Lemma counts_s_facts l : forall s c,
    NoDup (map fst c) ->
    NoDup (map fst (counts_s eqb s l c))
    /\ (forall k, lookup (counts_s eqb s l c) k = lookup c k + den_s s l k)
    /\ total (counts_s eqb s l c) = total c + alt s l.
  Proof.
    induction l as [|x t IH]; intros s c Hc; cbn [counts_s alt].
    - repeat split; auto; intros; cbn; lia.
    - destruct (IH (negb s) (bump eqb x (if s then 1 else -1) c) (bump_nodup _ _ _ Hc)) as (A & B & C).
      repeat split; auto.
      + intros k. rewrite B, bump_lookup, den_s_cons. destruct s; cbn [sg]; lia.
      + rewrite C, bump_total. destruct s; cbn [sg]; lia.
  Qed.

  Lemma alt_odd l : forall s, alt s l = if Nat.odd (length l) then sg s else 0.
  Proof.
    induction l as [|x t IH]; intros s; [reflexivity|].
    cbn [alt length]. rewrite IH, Nat.odd_succ, <- Nat.negb_odd.
    destruct (Nat.odd (length t)), s; cbn [sg negb]; lia.
  Qed.

  Lemma lookup_in c : NoDup (map fst c) -> forall k n, In (k, n) c -> lookup c k = n.
  Proof.
    induction c as [|[w m] t IH]; intros A k n H; [contradiction|].
    cbn [map fst] in A. inversion A as [|? ? Hn Ht]; subst. cbn [lookup].
    destruct H as [H|H].
    - injection H as -> ->. rewrite ind_same.
      enough (lookup t k = 0) by lia.
      clear -Hn eqb_spec. induction t as [|[w m] t IH]; [reflexivity|]. cbn [lookup].
      cbn [map fst In] in Hn. rewrite ind_diff by (intros ->; apply Hn; now left).
      rewrite IH; [lia|]. intros C; apply Hn; now right.
    - rewrite (IH Ht _ _ H). rewrite ind_diff; [lia|].
      intros ->. apply Hn. change k with (fst (k, n)). now apply in_map.
  Qed.

  Lemma lookup_nonzero c k : lookup c k <> 0 -> exists n, In (k, n) c.
  Proof.
    induction c as [|[w m] t IH]; cbn [lookup]; intros H; [lia|].
    destruct (eq_dec w k) as [->|Hne].
    - exists m. now left.
    - rewrite ind_diff in H by assumption. destruct IH as [n Hn]; [lia|]. exists n. now right.
  Qed.

  Definition nz (l : list T) := nonzero_counts eqb l.

  Lemma filter_nodup_fst (p : T * Z -> bool) c :
    NoDup (map fst c) -> NoDup (map fst (filter p c)).
  Proof.
    induction c as [|a t IH]; intros A; [constructor|]. cbn [map] in A.
    inversion A as [|? ? Hn Ht]; subst. cbn [filter]. destruct (p a); cbn [map]; auto.
    constructor; auto. intros C. apply Hn. apply in_map_iff in C as (q & Hq & Hin).
    apply filter_In in Hin as [Hin _]. apply in_map_iff. eauto.
  Qed.

  Lemma total_filter c :
    total (filter (fun p => negb (Z.eqb (snd p) 0)) c) = total c.
  Proof.
    induction c as [|[w m] t IH]; [reflexivity|]. cbn [filter snd].
    destruct (Z.eqb_spec m 0); cbn [negb total]; lia.
  Qed.

  Lemma nz_facts l :
    NoDup (map fst (nz l))
    /\ (forall k n, In (k, n) (nz l) <-> n = den l k /\ n <> 0)
    /\ total (nz l) = if Nat.odd (length l) then 1 else 0.
  Proof.
    unfold nz, nonzero_counts.
    destruct (counts_s_facts l true [] (NoDup_nil _)) as (A & B & C).
    repeat split.
    - now apply filter_nodup_fst.
    - apply filter_In in H as [H _]. rewrite <- (lookup_in _ A _ _ H), B. cbn [lookup]. unfold Merge.den. lia.
    - apply filter_In in H as [_ H]. cbn [snd] in H. destruct (Z.eqb_spec n 0); [discriminate|assumption].
    - intros [-> Hne]. apply filter_In. split.
      + assert (Hl : lookup (counts_s eqb true l []) k <> 0).
        { rewrite B. cbn [lookup]. unfold Merge.den in Hne. lia. }
        destruct (lookup_nonzero _ _ Hl) as [n Hn].
        rewrite <- (lookup_in _ A _ _ Hn) in Hn. rewrite B in Hn. cbn [lookup] in Hn.
        unfold Merge.den. now rewrite Z.add_0_l in Hn.
      + cbn [snd]. destruct (Z.eqb_spec (den l k) 0); [contradiction|reflexivity].
    - rewrite total_filter, C, alt_odd. cbn [total sg]. reflexivity.
  Qed.

  (** The general (counting) path of [trivial_merge]. *)
  Definition count_path (accept : bool) (l : list T) : option T :=
    match nonzero_counts eqb l with
    | [(v, _)] => Some v
    | [(v1, c1); (v2, _)] =>
        if accept then (if (0 <? c1)%Z then Some v1 else Some v2) else None
    | _ => None
    end.

  Lemma count_path_spec accept l v :
    Nat.odd (length l) = true -> (count_path accept l = Some v <-> Resolves accept l v).
  Proof.
    intros Hodd. destruct (nz_facts l) as (ND & IN & TOT). rewrite Hodd in TOT.
    unfold count_path. fold (nz l).
    assert (Hres : forall u, den l u <> 0 -> In (u, den l u) (nz l)) by (intros u Hu; now apply IN).
    destruct (nz l) as [|[a n] [|[b m] [|[c q] rest]]] eqn:E.
    - split; [discriminate|]. intros [H _]. destruct (Hres v); lia.
    - cbn [total] in TOT. assert (Ha : n = den l a /\ n <> 0) by (apply IN; now left).
      assert (Hall : forall w, den l w <> 0 -> w = a).
      { intros w Hw. destruct (Hres w Hw) as [H|[]]. now injection H. }
      split.
      + intros H. injection H as <-. split; [lia|left]. intros w Hw.
        destruct (Z.eq_dec (den l w) 0); [assumption|]. now apply Hall in n0.
      + intros [H _]. f_equal. symmetry. apply Hall. lia.
    - cbn [total] in TOT. cbn [map fst] in ND.
      assert (Hab : a <> b).
      { inversion ND as [|? ? Hn _]; subst. intros ->. apply Hn. now left. }
      assert (Ha : n = den l a /\ n <> 0) by (apply IN; now left).
      assert (Hb : m = den l b /\ m <> 0) by (apply IN; right; now left).
      assert (Hall : forall w, den l w <> 0 -> w = a \/ w = b).
      { intros w Hw. destruct (Hres w Hw) as [H|[H|[]]]; injection H; auto. }
      destruct accept.
      + destruct (Z.ltb_spec 0 n) as [Hn|Hn]; split.
        * intros H. injection H as <-. split; [lia|right]. split; [reflexivity|].
          exists b. repeat split; [congruence|lia|]. intros u Hu1 Hu2.
          destruct (Z.eq_dec (den l u) 0) as [|Hne]; [assumption|]. destruct (Hall u Hne); congruence.
        * intros [H _]. f_equal. destruct (Hall v) as [->| ->]; [lia|reflexivity|lia].
        * intros H. injection H as <-. split; [lia|right]. split; [reflexivity|].
          exists a. repeat split; [congruence|lia|]. intros u Hu1 Hu2.
          destruct (Z.eq_dec (den l u) 0) as [|Hne]; [assumption|]. destruct (Hall u Hne); congruence.
        * intros [H _]. f_equal. destruct (Hall v) as [->| ->]; [lia|lia|reflexivity].
      + split; [discriminate|]. intros [H [Hz|[Hf _]]]; [|discriminate].
        destruct (eq_dec a v) as [->|Hav].
        * assert (den l b = 0) by (apply Hz; congruence). lia.
        * specialize (Hz a Hav). lia.
    - cbn [map fst] in ND.
      assert (Ha : n = den l a /\ n <> 0) by (apply IN; now left).
      assert (Hb : m = den l b /\ m <> 0) by (apply IN; right; now left).
      assert (Hc : q = den l c /\ q <> 0) by (apply IN; right; right; now left).
      assert (Hab : a <> b /\ a <> c /\ b <> c).
      { inversion ND as [|? ? Hn1 ND1]; subst. inversion ND1 as [|? ? Hn2 _]; subst.
        cbn [In] in Hn1, Hn2. repeat split; intros ->; intuition. }
      destruct Hab as (Hab & Hac & Hbc).
      assert (None = Some v <-> False) as -> by (split; [discriminate|contradiction]).
      assert (match rest with [] => None | _ :: _ => None end = Some v <-> False) as HH
        by (destruct rest; split; try discriminate; contradiction).
      destruct accept; (split; [try (destruct rest; discriminate); try contradiction|]).
      all: intros [H [Hz|[Hf (w & Hw & Hwn & Hu)]]]; try discriminate.
      all: try (destruct (eq_dec a v) as [->|Hav];
                [assert (den l b = 0) by (apply Hz; congruence); lia|specialize (Hz a Hav); lia]).
      all: destruct (eq_dec a v) as [->|Hav];
        [destruct (eq_dec b w) as [->|Hbw];
         [assert (den l c = 0) by (apply Hu; congruence); lia
         |assert (den l b = 0) by (apply Hu; congruence); lia]
        |destruct (eq_dec a w) as [->|Haw]; [|assert (den l a = 0) by (apply Hu; congruence); lia];
         destruct (eq_dec b v) as [->|Hbv];
         [assert (den l c = 0) by (apply Hu; congruence); lia
         |assert (den l b = 0) by (apply Hu; congruence); lia]].
  Qed.

  (** * the fast paths agree with the counting path *)
  Ltac eqbs :=
    repeat match goal with
           | |- context [eqb ?x ?x] => rewrite (eqb_refl x)
           | |- context [eqb ?x ?y] => rewrite (eqb_false x y) by congruence
           end.

  Lemma fast_path_agrees accept l :
    Nat.odd (length l) = true -> trivial_merge eqb accept l = count_path accept l.
  Proof.
    intros Hodd. destruct l as [|a0 [|r [|a1 [|x rest]]]]; try discriminate; try reflexivity.
    unfold trivial_merge, count_path, nonzero_counts. cbn [counts_s bump negb].
    destruct (eq_dec a0 r) as [->|H1]; destruct (eq_dec r a1) as [->|H2];
      try (destruct (eq_dec a0 a1) as [->|H3]); eqbs; cbn; eqbs; cbn;
      destruct accept; reflexivity.
  Qed.

  Theorem trivial_merge_spec accept l v :
    Nat.odd (length l) = true ->
    (trivial_merge eqb accept l = Some v <-> Resolves accept l v).
  Proof. intros H. rewrite fast_path_agrees by assumption. now apply count_path_spec. Qed.

  Lemma Resolves_ext accept l1 l2 v :
    (forall v, den l1 v = den l2 v) -> Resolves accept l1 v -> Resolves accept l2 v.
  Proof.
    intros E [A [B|[C (w & D & F & G)]]]; (split; [rewrite <- E; exact A|]).
    - left. intros u Hu. rewrite <- E. auto.
    - right. split; [assumption|]. exists w. repeat split; auto.
      + rewrite <- E. assumption.
      + intros u H1 H2. rewrite <- E. auto.
  Qed.

  (** The result depends on the net counts only (hence not on the order of adds among
      themselves, of removes among themselves, nor on cancelling pairs that pad the arity). *)
  Theorem trivial_merge_den_only accept l1 l2 :
    Nat.odd (length l1) = true -> Nat.odd (length l2) = true ->
    (forall v, den l1 v = den l2 v) -> trivial_merge eqb accept l1 = trivial_merge eqb accept l2.
  Proof.
    intros H1 H2 E.
    assert (R : forall v, Resolves accept l1 v <-> Resolves accept l2 v).
    { intros v. split; apply Resolves_ext; auto. }
    destruct (trivial_merge eqb accept l1) as [v|] eqn:E1.
    - symmetry. apply trivial_merge_spec; [assumption|]. apply R. now apply trivial_merge_spec.
    - destruct (trivial_merge eqb accept l2) as [v|] eqn:E2; [|reflexivity].
      apply trivial_merge_spec in E2; [|assumption]. apply R in E2.
      apply trivial_merge_spec in E2; [|assumption]. congruence.
  Qed.

  (** * the boolean checker applied to implementation outputs *)
  Lemma den_notin l v : ~ In v l -> den l v = 0.
  Proof. apply (den_s_notin eqb eqb_spec). Qed.

  Lemma resolves_b_spec accept l v : resolves_b eqb accept l v = true <-> Resolves accept l v.
  Proof.
    unfold resolves_b, Resolves. rewrite Bool.andb_true_iff, Bool.orb_true_iff, Z.ltb_lt.
    apply and_iff_compat_l.
    match goal with |- (?A \/ ?B) <-> (?C \/ ?D) => enough ((A <-> C) /\ (B <-> D)) by tauto end. split.
    - rewrite forallb_forall. split.
      + intros H w Hw. destruct (in_dec eq_dec w l) as [I|I]; [|now apply den_notin].
        apply H in I. apply Bool.orb_true_iff in I as [I|I]; [apply eqb_spec in I; congruence|now apply Z.eqb_eq].
      + intros H w _. destruct (eq_dec w v) as [->|N]; [now rewrite eqb_refl|].
        rewrite (H w N). apply Bool.orb_true_r.
    - rewrite Bool.andb_true_iff. apply and_iff_compat_l. rewrite existsb_exists. split.
      + intros (w & Hin & H). rewrite !Bool.andb_true_iff, Bool.negb_true_iff, Z.ltb_lt, forallb_forall in H.
        destruct H as ((A & B) & C). exists w. repeat split; auto.
        * intros ->. now rewrite eqb_refl in A.
        * intros u H1 H2. destruct (in_dec eq_dec u l) as [I|I]; [|now apply den_notin].
          apply C in I. rewrite !Bool.orb_true_iff, !eqb_spec, Z.eqb_eq in I. intuition.
      + intros (w & A & B & C). exists w. split.
        * destruct (in_dec eq_dec w l) as [I|I]; [assumption|]. rewrite den_notin in B by assumption. lia.
        * rewrite !Bool.andb_true_iff, Bool.negb_true_iff, Z.ltb_lt, forallb_forall. repeat split; auto.
          -- now apply eqb_false.
          -- intros u _. destruct (eq_dec u v) as [->|N1]; [now rewrite eqb_refl|].
             destruct (eq_dec u w) as [->|N2]; [rewrite eqb_refl; now rewrite Bool.orb_true_r|].
             rewrite (C u N1 N2). apply Bool.orb_true_r.
  Qed.

  Lemma result_ok_spec accept l r :
    result_ok eqb accept l r = true <->
    match r with Some v => Resolves accept l v | None => forall v, ~ Resolves accept l v end.
  Proof.
    destruct r as [v|]; cbn [result_ok]; [apply resolves_b_spec|].
    rewrite forallb_forall. split.
    - intros H v R. destruct (in_dec eq_dec v l) as [I|I].
      + apply H in I. apply resolves_b_spec in R. rewrite R in I. discriminate.
      + destruct R as [R _]. rewrite den_notin in R by assumption. lia.
    - intros H v _. destruct (resolves_b eqb accept l v) eqn:E; [|reflexivity].
      apply resolves_b_spec in E. now apply H in E.
  Qed.

  (** So: an implementation output accepted by the checker is the model's output. *)
  Theorem result_ok_complete accept l r :
    Nat.odd (length l) = true ->
    (result_ok eqb accept l r = true <-> r = trivial_merge eqb accept l).
  Proof.
    intros Hodd. rewrite result_ok_spec. destruct r as [v|].
    - rewrite <- trivial_merge_spec by assumption. split; congruence.
    - split.
      + intros H. destruct (trivial_merge eqb accept l) as [v|] eqn:E; [|reflexivity].
        apply trivial_merge_spec in E; [|assumption]. now apply H in E.
      + intros H v R. apply trivial_merge_spec in R; [|assumption]. congruence.
  Qed.
  (** * laws following from the cancellation rule *)

  (** Simplifying first cannot change the outcome: the automatic resolution of a conflict and
      of its simplified form coincide (resolve_trivial after simplify, as the tree merge does). *)
  Lemma simplify_odd m : Nat.odd (length m) = true -> Nat.odd (length (simplify eqb m)) = true.
  Proof.
    intros H. destruct (simplify_arity eqb eqb_spec m) as [E _].
    rewrite <- Nat.negb_even in *. rewrite E. exact H.
  Qed.

  Theorem trivial_merge_simplify accept m :
    Nat.odd (length m) = true ->
    trivial_merge eqb accept (simplify eqb m) = trivial_merge eqb accept m.
  Proof.
    intros H. apply trivial_merge_den_only; [now apply simplify_odd|exact H|].
    intros v. apply (simplify_den eqb eqb_spec).
  Qed.

  (** Accepting same-change conflicts only resolves more: whatever resolves under Reject
      resolves to the same value under Accept. *)
  Theorem trivial_merge_accept_mono l v :
    Nat.odd (length l) = true ->
    trivial_merge eqb false l = Some v -> trivial_merge eqb true l = Some v.
  Proof.
    intros H E. apply trivial_merge_spec in E; [|exact H]. apply trivial_merge_spec; [exact H|].
    destruct E as [A [B|[C _]]]; [|discriminate C]. split; [exact A|left; exact B].
  Qed.

  (** The value a conflict resolves to is one of its terms (it has a positive net count). *)
  Theorem trivial_merge_in l accept v :
    Nat.odd (length l) = true -> trivial_merge eqb accept l = Some v -> In v l.
  Proof.
    intros H E. apply trivial_merge_spec in E; [|exact H]. destruct E as [A _].
    destruct (in_dec eq_dec v l) as [Hin|Hn]; [exact Hin|].
    rewrite (den_notin l v Hn) in A. lia.
  Qed.

End C02.
