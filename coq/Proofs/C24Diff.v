(** C24: the order of [diff_fs] (sorted paths, a file that replaces a directory held back
    until the directory's entries are gone) is valid from the old tree, leads to the new
    tree, writes in sorted order and never both writes and removes a path. *)
From Verif Require Import Base.Prelude Base.FsC Base.WcC Base.C24Chk.
From Verif Require Import Proofs.FsC Proofs.WcCore Proofs.C24Step Proofs.C24Run Proofs.PathOrd.
From Coq Require Import Lia.
Local Open Scope string_scope.
Local Open Scope list_scope.

Lemma leaf_restrict : forall m t p, leaf (restrict m t) p = if m p then leaf t p else None.
Proof.
  unfold restrict. induction t as [|[q v] t IH]; intros p; cbn; [now destruct (m p)|].
  destruct (m q) eqn:Eq; cbn.
  - destruct (path_eqb q p) eqn:E; [apply path_eqb_spec in E; subst; now rewrite Eq | apply IH].
  - rewrite IH. destruct (path_eqb q p) eqn:E; [apply path_eqb_spec in E; subst; now rewrite Eq | reflexivity].
Qed.

Lemma option_tval_eqb_spec : forall a b, option_tval_eqb a b = true <-> a = b.
Proof.
  assert (H : forall x y, tval_eqb x y = true <-> x = y).
  { destruct x as [c x|t], y as [c' x'|t']; cbn; try (split; congruence).
    - rewrite Bool.andb_true_iff, String.eqb_eq, Bool.eqb_true_iff.
      split; [intros [-> ->]; reflexivity | intros E; inversion E; auto].
    - rewrite String.eqb_eq. split; congruence. }
  unfold option_tval_eqb. destruct a, b; cbn; try (split; congruence). rewrite H. split; congruence.
Qed.

Section WithReserved.
Variable rn : list name.
Local Notation has_reserved := (WcC.has_reserved rn).
Local Notation anchor := (WcCore.anchor rn).
Local Notation tok := (C24Step.tok rn).
Local Notation uok := (C24Step.uok rn).
Local Notation valid := (C24Run.valid rn).

(** Untracked entries not in the way of a set of tree paths. *)
Definition uokp (u : fs) (k : list path) : Prop :=
  nonroot u /\ anchor u /\
  forall x e, lookup u x = Some e ->
    (forall p, In p k -> is_prefix p x = false)
    /\ ((exists p, In p k /\ is_strict_prefix x p = true) ->
        e = EDir /\ exists w e', lookup u w = Some e' /\ is_strict_prefix x w = true
                                 /\ forall p, In p k -> is_prefix w p = false).

Lemma uokp_uok : forall u k t,
  uokp u k -> (forall p v, leaf t p = Some v -> In p k) -> uok u t.
Proof.
  intros u k t [H1 [H2 H3]] Hk. split; [exact H1|]. split; [exact H2|].
  intros x e Hx. destruct (H3 x e Hx) as [A B]. split.
  - intros p v Hp. apply A. eauto.
  - intros [p [v [Hp Hxp]]]. destruct B as [-> [w [e' [C [D E]]]]]; [exists p; eauto|].
    split; [reflexivity|]. exists w, e'. repeat split; auto. intros q vq Hq. apply E. eauto.
Qed.

Section Diff.
Variables (m : path -> bool) (t1 t2 : tree) (u : fs).
Local Notation A := (restrict m t1).
Local Notation B := (restrict m t2).
Hypothesis HtA : tok A.
Hypothesis HtB : tok B.
(** In the unrestricted old tree no file has files below it. *)
Hypothesis Ht1 : forall p v, leaf t1 p = Some v -> is_tree_in t1 p = false.
Hypothesis Hu : uokp u (keys A ++ keys B).

Lemma leaf_keys : forall (t : tree) p v, leaf t p = Some v -> In p (keys t).
Proof. intros t p v H. apply leaf_In in H. unfold keys. apply in_map_iff. exists (p, v). auto. Qed.

(** The properties of one raw entry. *)
Definition entry_ok (eb : dentry * bool) : Prop :=
  let e := fst eb in
  d_before e = leaf A (d_path e) /\ d_after e = leaf B (d_path e) /\ d_before e <> d_after e
  /\ snd eb = is_tree_in t1 (d_path e).

Definition rpaths (l : list (dentry * bool)) : list path := map (fun eb => d_path (fst eb)) l.

Definition rawok (l : list (dentry * bool)) : Prop := Forall entry_ok l /\ ssorted (rpaths l).

Lemma raw_diff_ok : rawok (raw_diff m t1 t2).
Proof.
  unfold raw_diff. pose proof (sort_paths_sorted (map fst t1 ++ map fst t2)) as Hs.
  induction (sort_paths (map fst t1 ++ map fst t2)) as [|p l IH]; cbn; [split; constructor|].
  destruct Hs as [Hp Hl]. destruct (IH Hl) as [IH1 IH2].
  assert (Hsub : forall q, In q (rpaths (flat_map
            (fun p0 => if m p0 then if option_tval_eqb (leaf t1 p0) (leaf t2 p0) then []
                                   else [({| d_path := p0; d_before := leaf t1 p0; d_after := leaf t2 p0 |},
                                          is_tree_in t1 p0)] else []) l)) -> In q l).
  { clear. induction l as [|x l IH]; cbn; [auto|]. intros q Hq. unfold rpaths in Hq.
    rewrite map_app in Hq. apply in_app_or in Hq as [Hq|Hq]; [|right; now apply IH].
    destruct (m x); [|contradiction]. destruct (option_tval_eqb (leaf t1 x) (leaf t2 x)); [contradiction|].
    cbn in Hq. destruct Hq as [<-|[]]. now left. }
  destruct (m p) eqn:Em; [|split; auto].
  destruct (option_tval_eqb (leaf t1 p) (leaf t2 p)) eqn:Ee; [split; auto|]. cbn. split.
  - constructor; [|exact IH1]. unfold entry_ok. cbn. rewrite !leaf_restrict, Em. repeat split; auto.
    intros E. apply option_tval_eqb_spec in E. congruence.
  - split; [|exact IH2]. intros q Hq. apply Hp. now apply Hsub.
Qed.

(** Every path at which the two trees differ has a raw entry. *)
Lemma raw_diff_complete : forall q, leaf A q <> leaf B q -> In q (rpaths (raw_diff m t1 t2)).
Proof.
  intros q Hq. rewrite !leaf_restrict in Hq. destruct (m q) eqn:Em; [|congruence].
  assert (Hin : In q (sort_paths (map fst t1 ++ map fst t2))).
  { apply sort_paths_In. apply in_or_app.
    destruct (leaf t1 q) as [v|] eqn:E1; [left; now apply (leaf_keys t1 q v)|].
    destruct (leaf t2 q) as [v|] eqn:E2; [right; now apply (leaf_keys t2 q v) | congruence]. }
  unfold raw_diff. induction (sort_paths (map fst t1 ++ map fst t2)) as [|p l IH]; [contradiction|].
  cbn. unfold rpaths. rewrite map_app. apply in_or_app. destruct Hin as [->|Hin]; [left|right; now apply IH].
  rewrite Em. destruct (option_tval_eqb (leaf t1 q) (leaf t2 q)) eqn:Ee; [|now left].
  apply option_tval_eqb_spec in Ee. congruence.
Qed.

(** ** The held-file order *)

Lemma mem_path_In : forall q l, mem path_eqb q l = true <-> In q l.
Proof.
  intros q l. unfold mem. rewrite existsb_exists. split.
  - intros [x [H1 H2]]. apply path_eqb_spec in H2. now subst.
  - intros H. exists q. split; [exact H | apply path_eqb_refl].
Qed.

Definition hpath (held : option dentry) (q : path) : bool :=
  match held with Some h => path_eqb (d_path h) q | None => false end.

(** Paths whose entry has not been emitted yet. *)
Definition pend (held : option dentry) (l : list (dentry * bool)) (q : path) : bool :=
  mem path_eqb q (rpaths l) || hpath held q.

(** The current tree: old value at pending paths, new value elsewhere. *)
Definition cur_ok (C : tree) (pd : path -> bool) : Prop :=
  forall q, leaf C q = if pd q then leaf A q else leaf B q.

Definition held_ok (h : dentry) (l : list (dentry * bool)) : Prop :=
  d_before h = None /\ leaf A (d_path h) = None /\ d_after h = leaf B (d_path h)
  /\ d_after h <> None /\ lt_all (d_path h) (rpaths l).

Lemma cur_leaves_in_k : forall C pd p v, cur_ok C pd -> leaf C p = Some v -> In p (keys A ++ keys B).
Proof.
  intros C pd p v Hc Hp. rewrite Hc in Hp. apply in_or_app.
  destruct (pd p); [left | right]; eapply leaf_keys; eauto.
Qed.

(** Emitting an entry keeps the tree well-formed when no pending old file lies above or
    below its path. *)
Lemma emit_ok : forall C pd x,
  tok C -> cur_ok C pd -> d_after x = leaf B (d_path x) ->
  (forall r, is_strict_prefix r (d_path x) = true -> pd r = true -> leaf A r = None) ->
  (forall r, is_strict_prefix (d_path x) r = true -> pd r = true -> leaf A r = None) ->
  tok (patch C x) /\ uok u (patch C x).
Proof.
  intros C pd x [Hc1 Hc2] Hcur Ha Habove Hbelow. set (q := d_path x) in *.
  assert (Hleaf : forall r v, leaf (patch C x) r = Some v ->
            (r = q /\ leaf B q = Some v) \/ (r <> q /\ leaf C r = Some v)).
  { intros r v Hr. unfold patch in Hr. rewrite leaf_tree_set in Hr. fold q in Hr.
    destruct (path_eqb q r) eqn:E.
    - apply path_eqb_spec in E. subst r. left. split; auto. now rewrite <- Ha.
    - right. split; auto. intros ->. rewrite path_eqb_refl in E. discriminate. }
  assert (Htok : tok (patch C x)).
  { split.
    - intros r v Hr. destruct (Hleaf r v Hr) as [[-> Hb]|[_ Hc]]; [apply (proj1 HtB _ _ Hb) | apply (Hc1 _ _ Hc)].
    - intros r1 r2 v1 v2 H1 H2. destruct (is_strict_prefix r1 r2) eqn:Esp; [|reflexivity]. exfalso.
      destruct (Hleaf r1 v1 H1) as [[-> Hb1]|[Hn1 Hc1']]; destruct (Hleaf r2 v2 H2) as [[-> Hb2]|[Hn2 Hc2']].
      + rewrite is_strict_prefix_irrefl in Esp. discriminate.
      + (* the new file above an existing leaf *)
        pose proof Hc2' as Hc2''. rewrite Hcur in Hc2''. destruct (pd r2) eqn:Ep.
        * rewrite (Hbelow r2 Esp Ep) in Hc2''. discriminate.
        * rewrite (proj2 HtB q r2 v1 v2 Hb1 Hc2'') in Esp. discriminate.
      + pose proof Hc1' as Hc1''. rewrite Hcur in Hc1''. destruct (pd r1) eqn:Ep.
        * rewrite (Habove r1 Esp Ep) in Hc1''. discriminate.
        * rewrite (proj2 HtB r1 q v1 v2 Hc1'' Hb2) in Esp. discriminate.
      + rewrite (Hc2 r1 r2 v1 v2 Hc1' Hc2') in Esp. discriminate. }
  split; [exact Htok|]. eapply uokp_uok; [exact Hu|].
  intros r v Hr. destruct (Hleaf r v Hr) as [[-> Hb]|[_ Hc]].
  - apply in_or_app. right. eapply leaf_keys; eauto.
  - eapply cur_leaves_in_k; eauto.
Qed.

Lemma ssorted_head_notin : forall p l, ssorted (p :: l) -> ~ In p l.
Proof.
  intros p l [H _] Hin. specialize (H p Hin). rewrite path_ltb_irrefl in H. discriminate.
Qed.

(** The state after emitting the head entry of the list. *)
Lemma cur_after_head : forall C held e bt r,
  cur_ok C (pend held ((e, bt) :: r)) -> d_after e = leaf B (d_path e) ->
  ssorted (rpaths ((e, bt) :: r)) -> hpath held (d_path e) = false ->
  cur_ok (patch C e) (pend held r).
Proof.
  intros C held e bt r Hc Ha Hs Hh q. unfold patch. rewrite leaf_tree_set.
  destruct (path_eqb (d_path e) q) eqn:E.
  - apply path_eqb_spec in E. subst q. unfold pend. rewrite Hh, Bool.orb_false_r.
    destruct (mem path_eqb (d_path e) (rpaths r)) eqn:Em; [|exact Ha].
    apply mem_path_In in Em. exfalso. eapply ssorted_head_notin; eauto.
  - rewrite Hc. unfold pend. cbn [rpaths map fst mem existsb].
    replace (path_eqb q (d_path e)) with false by (rewrite path_eqb_sym; now rewrite E). reflexivity.
Qed.

(** The state after releasing the held entry. *)
Lemma cur_after_held : forall C h l,
  cur_ok C (pend (Some h) l) -> d_after h = leaf B (d_path h) -> lt_all (d_path h) (rpaths l) ->
  cur_ok (patch C h) (pend None l).
Proof.
  intros C h l Hc Ha Hlt q. unfold patch. rewrite leaf_tree_set.
  destruct (path_eqb (d_path h) q) eqn:E.
  - apply path_eqb_spec in E. subst q. unfold pend. cbn. rewrite Bool.orb_false_r.
    destruct (mem path_eqb (d_path h) (rpaths l)) eqn:Em; [|exact Ha].
    apply mem_path_In in Em. specialize (Hlt _ Em). rewrite path_ltb_irrefl in Hlt. discriminate.
  - rewrite Hc. unfold pend. cbn. rewrite E. reflexivity.
Qed.

Lemma old_leaf_in_t1 : forall r v, leaf A r = Some v -> leaf t1 r = Some v.
Proof. intros r v H. rewrite leaf_restrict in H. destruct (m r); [exact H | discriminate]. Qed.

(** A raw entry whose before side is a directory adds a file where the old tree had none. *)
Lemma held_flag_means_add : forall eb, entry_ok eb -> snd eb = true ->
  d_before (fst eb) = None /\ leaf A (d_path (fst eb)) = None /\ d_after (fst eb) <> None.
Proof.
  intros [e bt] [H1 [H2 [H3 H4]]] Hbt. cbn in *.
  assert (Hn : leaf A (d_path e) = None).
  { destruct (leaf A (d_path e)) as [v|] eqn:E; [|reflexivity].
    apply old_leaf_in_t1 in E. rewrite (Ht1 _ _ E) in H4. congruence. }
  rewrite Hn in H1. repeat split; auto. congruence.
Qed.

(** No pending old file above the head of the sorted list. *)
Lemma nothing_above_head : forall held e bt r q,
  ssorted (rpaths ((e, bt) :: r)) ->
  (forall h, held = Some h -> leaf A (d_path h) = None) ->
  is_strict_prefix q (d_path e) = true -> pend held ((e, bt) :: r) q = true -> leaf A q = None.
Proof.
  intros held e bt r q [Hlt _] Hh Hq Hp. unfold pend in Hp. apply Bool.orb_true_iff in Hp as [Hp|Hp].
  - exfalso. apply mem_path_In in Hp. cbn in Hp. pose proof (strict_prefix_lt _ _ Hq) as Hlt'.
    destruct Hp as [Hp|Hp].
    + cbn in Hp. rewrite Hp, path_ltb_irrefl in Hlt'. discriminate.
    + specialize (Hlt q Hp). cbn in Hlt. pose proof (path_ltb_asym _ _ Hlt) as X. congruence.
  - destruct held as [h|]; [|discriminate]. cbn in Hp. apply path_eqb_spec in Hp. subst q. now apply Hh.
Qed.

(** No old file below a path at which the old tree has no directory. *)
Lemma nothing_below_nontree : forall p q, is_tree_in t1 p = false ->
  is_strict_prefix p q = true -> leaf A q = None.
Proof.
  intros p q Ht Hq. destruct (leaf A q) as [v|] eqn:E; [|reflexivity]. exfalso.
  apply old_leaf_in_t1 in E. rewrite (proj1 (is_tree_in_false t1 p) Ht q v E) in Hq. discriminate.
Qed.

Definition good_end (C : tree) (d : list dentry) : Prop :=
  valid u C d /\ forall q, leaf (patch_all C d) q = leaf B q.

Lemma good_end_cons : forall C x d,
  leaf C (d_path x) = d_before x -> d_before x <> d_after x ->
  tok (patch C x) -> uok u (patch C x) -> good_end (patch C x) d -> good_end C (x :: d).
Proof.
  intros C x d H1 H2 H3 H4 [H5 H6]. split; [cbn; auto | exact H6].
Qed.

Lemma pend_shift : forall e bt r q, pend (Some e) r q = pend None ((e, bt) :: r) q.
Proof.
  intros e bt r q. unfold pend, hpath. cbn [rpaths map fst mem existsb].
  rewrite Bool.orb_false_r, (path_eqb_sym q (d_path e)). apply Bool.orb_comm.
Qed.

Lemma cur_ok_ext : forall C pd pd', (forall q, pd q = pd' q) -> cur_ok C pd -> cur_ok C pd'.
Proof. intros C pd pd' H Hc q. rewrite <- H. apply Hc. Qed.

Lemma hold_valid : forall l, rawok l ->
  (forall C, tok C -> cur_ok C (pend None l) -> good_end C (hold_files None l))
  /\ (forall C h, tok C -> held_ok h l -> cur_ok C (pend (Some h) l) -> good_end C (hold_files (Some h) l)).
Proof.
  induction l as [|[e bt] r IH]; intros [Hall Hsorted].
  - split.
    + intros C Ht Hc. split; [exact I|]. intros q. cbn. rewrite Hc. reflexivity.
    + intros C h Ht [Hh1 [Hh2 [Hh3 [Hh4 Hh5]]]] Hc. cbn [hold_files].
      assert (Hemit : tok (patch C h) /\ uok u (patch C h)).
      { eapply emit_ok; eauto.
        - intros q Hq Hp. unfold pend in Hp. cbn in Hp. apply path_eqb_spec in Hp. subst q.
          rewrite is_strict_prefix_irrefl in Hq. discriminate.
        - intros q Hq Hp. unfold pend in Hp. cbn in Hp. apply path_eqb_spec in Hp. subst q.
          rewrite is_strict_prefix_irrefl in Hq. discriminate. }
      apply good_end_cons; try tauto.
      * rewrite Hc. unfold pend. cbn. rewrite path_eqb_refl. congruence.
      * congruence.
      * split; [exact I|]. intros q. cbn. apply (cur_after_held C h [] Hc Hh3 Hh5 q).
  - inversion Hall as [|x y Hent Hrest]; subst. pose proof Hsorted as [Hlt Hsr].
    destruct (IH (conj Hrest Hsr)) as [IHn IHs]. set (p := d_path e) in *.
    destruct Hent as [He1 [He2 [He3 He4]]]. cbn [fst snd] in *. fold p in He1, He2, He4.
    (* without a held entry *)
    assert (PartNone : forall C, tok C -> cur_ok C (pend None ((e, bt) :: r)) ->
                                 good_end C (hold_files None ((e, bt) :: r))).
    { intros C Ht Hc. cbn [hold_files app]. destruct bt.
      - (* a file replacing a directory: held back *)
        destruct (held_flag_means_add (e, true)) as [Ha1 [Ha2 Ha3]]; [repeat split; auto | reflexivity |].
        cbn [fst] in *. apply IHs; auto.
        + repeat split; auto.
        + eapply cur_ok_ext; [|exact Hc]. intros q. symmetry. apply pend_shift.
      - assert (Hemit : tok (patch C e) /\ uok u (patch C e)).
        { eapply emit_ok; eauto.
          - intros q Hq Hp. eapply (nothing_above_head None); eauto. discriminate.
          - intros q Hq Hp. eapply nothing_below_nontree; eauto. }
        apply good_end_cons; try tauto.
        + rewrite Hc. unfold pend. cbn. fold p. rewrite path_eqb_refl. cbn. congruence.
        + apply IHn; [tauto|]. eapply cur_after_head; eauto. }
    split; [exact PartNone|].
    intros C h Ht [Hh1 [Hh2 [Hh3 [Hh4 Hh5]]]] Hc. cbn [hold_files]. fold p.
    assert (Hhp : path_ltb (d_path h) p = true) by (apply Hh5; now left).
    destruct (is_prefix (d_path h) p) eqn:Epre; cbn [negb app].
    + (* the entry lies below the held file: a removal *)
      assert (Hsp : is_strict_prefix (d_path h) p = true).
      { unfold is_strict_prefix. rewrite Epre. cbn. apply Bool.negb_true_iff. apply path_eqb_neq.
        intros E. rewrite E, path_ltb_irrefl in Hhp. discriminate. }
      assert (HBp : leaf B p = None).
      { destruct (leaf B p) as [v|] eqn:E; [|reflexivity]. exfalso.
        destruct (leaf B (d_path h)) as [vh|] eqn:Eh; [|congruence].
        rewrite (proj2 HtB _ _ _ _ Eh E) in Hsp. discriminate. }
      assert (Hbt : bt = false).
      { rewrite He4. destruct (leaf A p) as [v|] eqn:E; [|congruence].
        apply old_leaf_in_t1 in E. now apply (Ht1 _ _ E). }
      destruct bt; [discriminate|]. clear Hbt.
      assert (Hemit : tok (patch C e) /\ uok u (patch C e)).
      { eapply emit_ok; eauto.
        - intros q Hq Hp. eapply (nothing_above_head (Some h)); eauto. intros h' Eh. inversion Eh; subst. exact Hh2.
        - intros q Hq Hp. eapply nothing_below_nontree; eauto. }
      apply good_end_cons; try tauto.
      * rewrite Hc. unfold pend. cbn. fold p. rewrite path_eqb_refl. cbn. congruence.
      * apply IHs; [tauto| |].
        -- repeat split; auto. intros q Hq. apply Hh5. now right.
        -- eapply cur_after_head; eauto. cbn. apply path_eqb_neq. intros E. fold p in E.
           rewrite E, path_ltb_irrefl in Hhp. discriminate.
    + (* the held file is released first *)
      assert (Hemit : tok (patch C h) /\ uok u (patch C h)).
      { eapply emit_ok; eauto.
        - intros q Hq Hp. exfalso. unfold pend in Hp. apply Bool.orb_true_iff in Hp as [Hp|Hp].
          + apply mem_path_In in Hp. specialize (Hh5 q Hp). apply strict_prefix_lt in Hq.
            rewrite (path_ltb_asym _ _ Hh5) in Hq. discriminate.
          + cbn in Hp. apply path_eqb_spec in Hp. subst q. rewrite is_strict_prefix_irrefl in Hq. discriminate.
        - intros q Hq Hp. exfalso. unfold pend in Hp. apply Bool.orb_true_iff in Hp as [Hp|Hp].
          + apply mem_path_In in Hp. cbn in Hp. fold p in Hp. destruct Hp as [Hp|Hp].
            * subst q. apply is_strict_prefix_prefix in Hq. congruence.
            * (* below the held path, but after an entry that is not: impossible in a sorted list *)
              assert (Hpq : path_ltb p q = true) by now apply Hlt.
              assert (is_prefix (d_path h) p = true); [|congruence].
              apply (prefix_interval (d_path h) p q).
              -- now apply is_strict_prefix_prefix.
              -- now apply path_ltb_asym.
              -- now apply path_ltb_asym.
          + cbn in Hp. apply path_eqb_spec in Hp. subst q. rewrite is_strict_prefix_irrefl in Hq. discriminate. }
      change (good_end C (h :: hold_files None ((e, bt) :: r))).
      apply good_end_cons; try tauto.
      * rewrite Hc. unfold pend. cbn. rewrite path_eqb_refl, Bool.orb_true_r. congruence.
      * congruence.
      * apply PartNone; [tauto|]. eapply cur_after_held; eauto.
Qed.

(** ** What gets written, in which order *)

Definition wl (l : list (dentry * bool)) : list path :=
  flat_map (fun eb => match d_after (fst eb) with Some _ => [d_path (fst eb)] | None => [] end) l.

Definition hw (held : option dentry) : list path :=
  match held with Some h => [d_path h] | None => [] end.

Lemma wl_sub : forall l q, In q (wl l) -> In q (rpaths l).
Proof.
  induction l as [|[e bt] r IH]; cbn; [auto|]. intros q Hq. apply in_app_or in Hq as [Hq|Hq]; [|right; now apply IH].
  destruct (d_after e); [|contradiction]. destruct Hq as [<-|[]]. now left.
Qed.

Lemma wl_sorted : forall l, ssorted (rpaths l) -> ssorted (wl l).
Proof.
  induction l as [|[e bt] r IH]; cbn; [auto|]. intros [Hlt Hs]. cbn in Hlt.
  destruct (d_after e); cbn; [|now apply IH]. split; [|now apply IH].
  intros q Hq. apply Hlt. now apply wl_sub.
Qed.

Lemma writes_cons : forall x d,
  map fst (writes (x :: d)) = match d_after x with Some _ => [d_path x] | None => [] end ++ map fst (writes d).
Proof. intros x d. unfold writes. cbn. rewrite map_app. destruct (d_after x); reflexivity. Qed.

Lemma hold_writes : forall l, Forall entry_ok l -> ssorted (rpaths l) ->
  map fst (writes (hold_files None l)) = wl l
  /\ forall h, d_after h = leaf B (d_path h) -> d_after h <> None -> lt_all (d_path h) (rpaths l) ->
       map fst (writes (hold_files (Some h) l)) = d_path h :: wl l.
Proof.
  induction l as [|[e bt] r IH]; intros Hall Hsorted.
  - split; [reflexivity|]. intros h H1 H2 H3. cbn [hold_files]. rewrite writes_cons.
    destruct (d_after h); [reflexivity|congruence].
  - inversion Hall as [|x y Hent Hrest]; subst. pose proof Hsorted as [Hlt Hsr].
    destruct (IH Hrest Hsr) as [IHn IHs]. set (p := d_path e) in *.
    pose proof Hent as [He1 [He2 [He3 He4]]]. cbn [fst snd] in *. fold p in He1, He2, He4.
    assert (PartNone : map fst (writes (hold_files None ((e, bt) :: r))) = wl ((e, bt) :: r)).
    { cbn [hold_files app wl flat_map fst]. destruct bt.
      - destruct (held_flag_means_add (e, true) Hent eq_refl) as [_ [_ Ha3]]. cbn [fst] in Ha3.
        rewrite IHs; auto. fold p. destruct (d_after e); [reflexivity|congruence].
      - rewrite writes_cons, IHn. reflexivity. }
    split; [exact PartNone|]. intros h H1 H2 H3. cbn [hold_files]. fold p.
    assert (Hhp : path_ltb (d_path h) p = true) by (apply H3; now left).
    destruct (is_prefix (d_path h) p) eqn:Epre; cbn [negb app].
    + assert (Hsp : is_strict_prefix (d_path h) p = true).
      { unfold is_strict_prefix. rewrite Epre. cbn. apply Bool.negb_true_iff. apply path_eqb_neq.
        intros E. rewrite E, path_ltb_irrefl in Hhp. discriminate. }
      assert (HBp : leaf B p = None).
      { destruct (leaf B p) as [v|] eqn:E; [|reflexivity]. exfalso.
        destruct (leaf B (d_path h)) as [vh|] eqn:Eh; [|congruence].
        rewrite (proj2 HtB _ _ _ _ Eh E) in Hsp. discriminate. }
      assert (Hbt : bt = false).
      { rewrite He4. destruct (leaf A p) as [v|] eqn:E; [|congruence].
        apply old_leaf_in_t1 in E. now apply (Ht1 _ _ E). }
      destruct bt; [discriminate|]. rewrite writes_cons. rewrite He2, HBp. cbn [app].
      rewrite IHs; auto; [|intros q Hq; apply H3; now right].
      cbn [wl flat_map fst]. rewrite He2, HBp. reflexivity.
    + change (map fst (writes (h :: hold_files None ((e, bt) :: r))) = d_path h :: wl ((e, bt) :: r)).
      rewrite writes_cons, PartNone. destruct (d_after h); [reflexivity|congruence].
Qed.

Lemma hold_files_In : forall l held x, In x (hold_files held l) ->
  held = Some x \/ exists bt, In (x, bt) l.
Proof.
  induction l as [|[e bt] r IH]; intros held x Hx.
  - destruct held as [h|]; cbn in Hx; [destruct Hx as [<-|[]]; now left | contradiction].
  - cbn [hold_files] in Hx. apply in_app_or in Hx as [Hx|Hx].
    + destruct held as [h|]; [|destruct (false); contradiction].
      destruct (negb (is_prefix (d_path h) (d_path e))); [|contradiction].
      destruct Hx as [<-|[]]. now left.
    + destruct bt.
      * apply IH in Hx as [Hx|[bt' Hx]]; [inversion Hx; subst; right; exists true; now left|].
        right. exists bt'. now right.
      * destruct Hx as [<-|Hx]; [right; exists false; now left|].
        apply IH in Hx as [Hx|[bt' Hx]].
        -- left. destruct held as [h|]; [|destruct (false); discriminate].
           destruct (negb (is_prefix (d_path h) (d_path e))); [discriminate | exact Hx].
        -- right. exists bt'. now right.
Qed.

Lemma writes_In : forall d q, In q (map fst (writes d)) -> exists x, In x d /\ d_path x = q /\ d_after x <> None.
Proof.
  induction d as [|x d IH]; intros q Hq; [contradiction|]. rewrite writes_cons in Hq.
  apply in_app_or in Hq as [Hq|Hq].
  - destruct (d_after x) eqn:E; [|contradiction]. destruct Hq as [<-|[]]. exists x. repeat split; auto.
    + now left.
    + congruence.
  - destruct (IH q Hq) as [y [A [B' C]]]. exists y. repeat split; auto. now right.
Qed.

Lemma removes_In : forall d q, In q (removes d) -> exists x, In x d /\ d_path x = q /\ d_after x = None.
Proof.
  induction d as [|x d IH]; intros q Hq; [contradiction|]. unfold removes in Hq. cbn in Hq.
  apply in_app_or in Hq as [Hq|Hq].
  - destruct (d_after x) eqn:E; [contradiction|]. destruct Hq as [<-|[]]. exists x. repeat split; auto. now left.
  - destruct (IH q Hq) as [y [A' [B' C]]]. exists y. repeat split; auto. now right.
Qed.

(** ** The order of [diff_fs] *)

Theorem diff_fs_valid :
  valid u A (diff_fs m t1 t2)
  /\ (forall q, leaf (patch_all A (diff_fs m t1 t2)) q = leaf B q)
  /\ sorted_strict (map fst (writes (diff_fs m t1 t2))) = true
  /\ (forall q, In q (map fst (writes (diff_fs m t1 t2))) -> ~ In q (removes (diff_fs m t1 t2))).
Proof.
  pose proof raw_diff_ok as Hraw. pose proof Hraw as [Hall Hsorted].
  destruct (hold_valid _ Hraw) as [Hn _].
  assert (Hcur : cur_ok A (pend None (raw_diff m t1 t2))).
  { intros q. unfold pend. cbn. rewrite Bool.orb_false_r.
    destruct (mem path_eqb q (rpaths (raw_diff m t1 t2))) eqn:E; [reflexivity|].
    destruct (option_tval_eqb (leaf A q) (leaf B q)) eqn:Ee; [now apply option_tval_eqb_spec in Ee|].
    exfalso. assert (In q (rpaths (raw_diff m t1 t2))).
    { apply raw_diff_complete. intros Hx. rewrite Hx in Ee.
      rewrite (proj2 (option_tval_eqb_spec _ _) eq_refl) in Ee. discriminate. }
    apply mem_path_In in H. congruence. }
  destruct (Hn A HtA Hcur) as [Hv Hfin]. unfold diff_fs.
  split; [exact Hv|]. split; [exact Hfin|].
  destruct (hold_writes _ Hall Hsorted) as [Hw _]. split.
  - rewrite Hw. apply ssorted_sorted_strict. now apply wl_sorted.
  - intros q Hq Hr.
    assert (Hent : forall x, In x (hold_files None (raw_diff m t1 t2)) -> d_after x = leaf B (d_path x)).
    { intros x Hx. apply hold_files_In in Hx as [Hx|[bt Hx]]; [discriminate|].
      rewrite Forall_forall in Hall. destruct (Hall _ Hx) as [_ [H2 _]]. exact H2. }
    apply writes_In in Hq as [x [Hx [Hxq Hxa]]]. apply removes_In in Hr as [y [Hy [Hyq Hya]]].
    rewrite (Hent x Hx), Hxq in Hxa. rewrite (Hent y Hy), Hyq in Hya. congruence.
Qed.

End Diff.
End WithReserved.
