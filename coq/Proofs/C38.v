(** C38 — proofs about the annotation model (Model/C38.v). *)
From Verif Require Import Base.Prelude Base.DagR Model.C38.
From Coq Require Import Lia Arith Sorted Permutation.
Import ListNotations.
Local Open Scope nat_scope.

(* ------------------------------------------------------------------ association lists *)

Lemma lookup_set_key_eq {A} k (v : A) l : lookup k (set_key k v l) = Some v.
Proof. unfold set_key. cbn. now rewrite Nat.eqb_refl. Qed.

Lemma lookup_remove_key_eq {A} k (l : list (nat * A)) : lookup k (remove_key k l) = None.
Proof.
  induction l as [|[k' v] t IH]; cbn; auto. destruct (Nat.eqb_spec k k'); auto.
  cbn. destruct (Nat.eqb_spec k k'); congruence.
Qed.

Lemma lookup_remove_key_neq {A} k k' (l : list (nat * A)) : k' <> k ->
  lookup k' (remove_key k l) = lookup k' l.
Proof.
  intros Hne. induction l as [|[k0 v] t IH]; cbn; auto.
  destruct (Nat.eqb_spec k k0).
  - subst. rewrite IH. destruct (Nat.eqb_spec k' k0); congruence.
  - cbn. destruct (Nat.eqb_spec k' k0); auto.
Qed.

Lemma lookup_set_key_neq {A} k k' (v : A) l : k' <> k ->
  lookup k' (set_key k v l) = lookup k' l.
Proof.
  intros Hne. unfold set_key. cbn. destruct (Nat.eqb_spec k' k); [congruence|].
  now apply lookup_remove_key_neq.
Qed.

(* ------------------------------------------------------------------ sorted line maps *)

Definition le_fst (a b : nat * nat) : Prop := fst a <= fst b.
Definition sorted_fst (m : lmap) : Prop := StronglySorted le_fst m.

Lemma sorted_fst_app a b : sorted_fst a -> sorted_fst b ->
  (forall x y, In x a -> In y b -> fst x <= fst y) -> sorted_fst (a ++ b).
Proof.
  induction a as [|x a IH]; intros Ha Hb H; cbn; auto.
  inversion Ha as [|? ? Ha' Hx]; subst. constructor.
  - apply IH; auto. intros u v Hu Hv. apply H; auto. now right.
  - apply Forall_app. split; auto. apply Forall_forall. intros y Hy. apply H; auto. now left.
Qed.

Lemma sorted_fst_app_inv a b : sorted_fst (a ++ b) ->
  sorted_fst a /\ sorted_fst b /\ (forall x y, In x a -> In y b -> fst x <= fst y).
Proof.
  induction a as [|x a IH]; cbn; intros H.
  - repeat split; auto. constructor. intros ? ? [].
  - inversion H as [|? ? H' Hx]; subst. destruct (IH H') as [Ha [Hb Hab]].
    apply Forall_app in Hx. destruct Hx as [Hxa Hxb]. repeat split; auto.
    + constructor; auto.
    + intros u v [<-|Hu] Hv; auto. rewrite Forall_forall in Hxb. now apply Hxb.
Qed.

Lemma sorted_fst_filter f m : sorted_fst m -> sorted_fst (filter f m).
Proof.
  induction 1 as [|x m Hm IH Hx]; cbn; [constructor|].
  destruct (f x); auto. constructor; auto.
  rewrite Forall_forall in *. intros y Hy. apply filter_In in Hy. apply Hx. tauto.
Qed.

Lemma take_below_spec bound l a b : take_below bound l = (a, b) ->
  l = a ++ b /\ (forall x, In x a -> fst x < bound) /\
  (sorted_fst l -> forall x, In x b -> bound <= fst x).
Proof.
  revert a b. induction l as [|[cur s] t IH]; intros a b H; cbn [take_below] in H.
  - inversion H; subst. split; [reflexivity|]. split; [intros ? []|intros _ ? []].
  - destruct (Nat.ltb cur bound) eqn:E0.
    + apply Nat.ltb_lt in E0.
      destruct (take_below bound t) as [a' b'] eqn:E. inversion H; subst.
      destruct (IH a' b eq_refl) as [Hl [Ha Hb]]. split; [|split].
      * cbn. now f_equal.
      * intros x [<-|Hx]; cbn; auto.
      * intros Hs. apply Hb. now inversion Hs.
    + apply Nat.ltb_ge in E0. inversion H; subst. split; [reflexivity|].
      split; [intros ? []|].
      intros Hs x [<-|Hx]; cbn; auto.
      inversion Hs as [|? ? _ Hall]; subst. rewrite Forall_forall in Hall.
      specialize (Hall x Hx). unfold le_fst in Hall. cbn in Hall. lia.
Qed.

(** Hunk lists ascend without overlap on the current and on the parent side. *)
Fixpoint asc (lc lp : nat) (rs : list range3) : Prop :=
  match rs with
  | [] => True
  | r :: t => lc <= r_cs r /\ lp <= r_ps r /\ asc (r_cs r + r_cnt r) (r_ps r + r_cnt r) t
  end.

Lemma asc_not_in lc lp rs : asc lc lp rs -> forall x, x < lc -> in_ranges x rs = false.
Proof.
  revert lc lp. induction rs as [|r t IH]; intros lc lp H x Hx; cbn; auto.
  cbn in H. destruct H as [H1 [H2 H3]]. apply orb_false_iff. split.
  - apply andb_false_iff. left. apply Nat.leb_gt. lia.
  - apply (IH _ _ H3). lia.
Qed.

(** The parent-side image of a matched line. *)
Fixpoint to_parent (rs : list range3) (x : nat * nat) : nat * nat :=
  match rs with
  | [] => x
  | r :: t =>
      if Nat.leb (r_cs r) (fst x) && Nat.ltb (fst x) (r_cs r + r_cnt r)
      then (r_ps r + (fst x - r_cs r), snd x)
      else to_parent t x
  end.

Lemma filter_ext_in' {A} (f g : A -> bool) l :
  (forall x, In x l -> f x = g x) -> filter f l = filter g l.
Proof.
  induction l as [|a t IH]; intros H; cbn; auto.
  rewrite (H a (or_introl eq_refl)). rewrite IH; auto. intros x Hx. apply H. now right.
Qed.

Lemma filter_all_false {A} (f : A -> bool) l : (forall x, In x l -> f x = false) -> filter f l = [].
Proof.
  induction l as [|a t IH]; intros H; cbn; auto. rewrite (H a (or_introl eq_refl)).
  apply IH. intros x Hx. apply H. now right.
Qed.
Lemma filter_all_true {A} (f : A -> bool) l : (forall x, In x l -> f x = true) -> filter f l = l.
Proof.
  induction l as [|a t IH]; intros H; cbn; auto. rewrite (H a (or_introl eq_refl)).
  f_equal. apply IH. intros x Hx. apply H. now right.
Qed.

Lemma in_ranges_cons x r t :
  in_ranges x (r :: t) = (Nat.leb (r_cs r) x && Nat.ltb x (r_cs r + r_cnt r)) || in_ranges x t.
Proof. reflexivity. Qed.
Lemma to_parent_cons r t x :
  to_parent (r :: t) x =
  if Nat.leb (r_cs r) (fst x) && Nat.ltb (fst x) (r_cs r + r_cnt r)
  then (r_ps r + (fst x - r_cs r), snd x) else to_parent t x.
Proof. reflexivity. Qed.

(** [split_lines] is a partition of the current line map by membership in the hunks. *)
Lemma split_lines_spec rs : forall cur nc np lc lp rest nc' np',
  sorted_fst cur -> asc lc lp rs -> (forall x, In x cur -> lc <= fst x) ->
  split_lines rs cur nc np = (rest, nc', np') ->
  nc' ++ rest = nc ++ filter (fun x => negb (in_ranges (fst x) rs)) cur /\
  np' = np ++ map (to_parent rs) (filter (fun x => in_ranges (fst x) rs) cur).
Proof.
  induction rs as [|r t IH]; intros cur nc np lc lp rest nc' np' Hs Ha Hlc H; cbn in H.
  - inversion H; subst. cbn. split.
    + f_equal. symmetry. apply filter_all_true. auto.
    + rewrite filter_all_false by auto. cbn. now rewrite app_nil_r.
  - destruct (take_below (r_cs r) cur) as [below rest0] eqn:E1.
    destruct (take_below (r_cs r + r_cnt r) rest0) as [inside rest1] eqn:E2.
    destruct (take_below_spec _ _ _ _ E1) as [Hc1 [Hb1 Hr1]].
    destruct (take_below_spec _ _ _ _ E2) as [Hc2 [Hb2 Hr2]].
    cbn in Ha. destruct Ha as [Ha1 [Ha2 Ha3]].
    assert (Hs0 : sorted_fst rest0).
    { rewrite Hc1 in Hs. now apply sorted_fst_app_inv in Hs. }
    assert (Hs1 : sorted_fst rest1).
    { rewrite Hc2 in Hs0. now apply sorted_fst_app_inv in Hs0. }
    specialize (Hr1 Hs). specialize (Hr2 Hs0).
    destruct (IH rest1 (nc ++ below) _ _ _ rest nc' np' Hs1 Ha3 Hr2 H) as [IH1 IH2].
    (* classify the three segments *)
    assert (Fb : forall x, In x below -> in_ranges (fst x) (r :: t) = false).
    { intros x Hx. specialize (Hb1 x Hx). rewrite in_ranges_cons. apply orb_false_iff. split.
      - apply andb_false_iff. left. apply Nat.leb_gt. lia.
      - apply (asc_not_in _ _ _ Ha3). lia. }
    assert (Fi : forall x, In x inside ->
              Nat.leb (r_cs r) (fst x) && Nat.ltb (fst x) (r_cs r + r_cnt r) = true).
    { intros x Hx. apply andb_true_iff. split.
      - apply Nat.leb_le. apply Hr1. rewrite Hc2. apply in_or_app. now left.
      - apply Nat.ltb_lt. now apply Hb2. }
    assert (Fr : forall x, In x rest1 ->
              Nat.leb (r_cs r) (fst x) && Nat.ltb (fst x) (r_cs r + r_cnt r) = false).
    { intros x Hx. apply andb_false_iff. right. apply Nat.ltb_ge. now apply Hr2. }
    rewrite Hc1, Hc2. rewrite !filter_app, !map_app.
    split.
    + rewrite IH1.
      rewrite (filter_all_true _ below) by (intros x Hx; now rewrite (Fb x Hx)).
      rewrite (filter_all_false _ inside)
        by (intros x Hx; now rewrite in_ranges_cons, (Fi x Hx)).
      rewrite (filter_ext_in' (fun x => negb (in_ranges (fst x) (r :: t)))
                              (fun x => negb (in_ranges (fst x) t)) rest1)
        by (intros x Hx; now rewrite in_ranges_cons, (Fr x Hx)).
      cbn [app]. now rewrite <- app_assoc.
    + rewrite IH2.
      rewrite (filter_all_false _ below) by (intros x Hx; now rewrite (Fb x Hx)).
      rewrite (filter_all_true _ inside) by (intros x Hx; now rewrite in_ranges_cons, (Fi x Hx)).
      rewrite (filter_ext_in' (fun x => in_ranges (fst x) (r :: t))
                              (fun x => in_ranges (fst x) t) rest1)
        by (intros x Hx; now rewrite in_ranges_cons, (Fr x Hx)).
      cbn [app map]. rewrite <- app_assoc. f_equal. f_equal.
      * apply map_ext_in. intros x Hx. now rewrite to_parent_cons, (Fi x Hx).
      * apply map_ext_in. intros x Hx. apply filter_In in Hx. destruct Hx as [Hx _].
        now rewrite to_parent_cons, (Fr x Hx).
Qed.

(* ------------------------------------------------------------------ merging *)

Lemma merge_maps_In a : forall b x, In x (merge_maps a b) <-> In x a \/ In x b.
Proof.
  induction a as [|u a IHa]; intros b x.
  - destruct b; cbn; tauto.
  - induction b as [|v b IHb].
    + cbn. tauto.
    + cbn. destruct (pair_leb u v).
      * cbn. rewrite IHa. cbn. tauto.
      * cbn. cbn in IHb. rewrite IHb. tauto.
Qed.

Lemma pair_leb_false u v : pair_leb u v = false -> fst v <= fst u.
Proof.
  unfold pair_leb. intros H. apply orb_false_iff in H. destruct H as [H _].
  apply Nat.ltb_ge in H. exact H.
Qed.
Lemma pair_leb_true u v : pair_leb u v = true -> fst u <= fst v.
Proof.
  unfold pair_leb. intros H. apply orb_true_iff in H. destruct H as [H|H].
  - apply Nat.ltb_lt in H. lia.
  - apply andb_true_iff in H. destruct H as [H _]. apply Nat.eqb_eq in H. lia.
Qed.

Lemma merge_maps_sorted a : forall b, sorted_fst a -> sorted_fst b -> sorted_fst (merge_maps a b).
Proof.
  induction a as [|u a IHa]; intros b Ha Hb.
  - destruct b; cbn; auto.
  - induction b as [|v b IHb].
    + cbn. auto.
    + cbn. inversion Ha as [|? ? Ha' Hu]; subst. inversion Hb as [|? ? Hb' Hv]; subst.
      destruct (pair_leb u v) eqn:E.
      * constructor; [apply IHa; auto|].
        apply Forall_forall. intros x Hx. apply merge_maps_In in Hx.
        rewrite Forall_forall in Hu, Hv. unfold le_fst in *. apply pair_leb_true in E.
        destruct Hx as [Hx|[<-|Hx]]; auto. specialize (Hv x Hx). lia.
      * constructor; [apply IHb; auto|].
        apply Forall_forall. intros x Hx.
        change ((fix inner (b0 : lmap) : lmap :=
                   match b0 with
                   | [] => u :: a
                   | y :: b' => if pair_leb u y then u :: merge_maps a b0 else y :: inner b'
                   end) b) with (merge_maps (u :: a) b) in Hx.
        apply merge_maps_In in Hx.
        rewrite Forall_forall in Hu, Hv. unfold le_fst in *. apply pair_leb_false in E.
        destruct Hx as [[<-|Hx]|Hx]; auto. specialize (Hu x Hx). lia.
Qed.

(* ------------------------------------------------------------------ hunks and lines *)

Lemma line_eqb_eq a b : line_eqb a b = true -> a = b.
Proof.
  unfold line_eqb. revert b. induction a as [|x a IH]; intros [|y b]; cbn; try congruence; auto.
  rewrite andb_true_iff, N.eqb_eq. intros [-> H]. f_equal. auto.
Qed.
Lemma line_eqb_refl a : line_eqb a a = true.
Proof. unfold line_eqb. induction a; cbn; auto. now rewrite N.eqb_refl. Qed.

Lemma ranges_ok_spec tc tp : forall rs lc lp, ranges_ok tc tp lc lp rs = true ->
  asc lc lp rs /\
  forall r, In r rs -> forall i, i < r_cnt r ->
    exists l, nth_error tc (r_cs r + i) = Some l /\ nth_error tp (r_ps r + i) = Some l.
Proof.
  induction rs as [|r t IH]; intros lc lp H; cbn [ranges_ok] in H.
  - split; [exact I|intros ? []].
  - rewrite !andb_true_iff in H. destruct H as [[[H1 H2] H3] H4].
    apply Nat.leb_le in H1. apply Nat.leb_le in H2.
    destruct (IH _ _ H4) as [Ha Hr]. split; [cbn; auto|].
    intros r' [<-|Hin] i Hi; [|now apply Hr].
    rewrite forallb_forall in H3. specialize (H3 i (proj2 (in_seq _ _ _) (conj (Nat.le_0_l _) Hi))).
    unfold nth_line in H3.
    destruct (nth_error tc (r_cs r + i)) as [a|]; [|discriminate].
    destruct (nth_error tp (r_ps r + i)) as [b|]; [|discriminate].
    apply line_eqb_eq in H3. subst. eauto.
Qed.

Lemma in_ranges_true x rs : in_ranges x rs = true ->
  exists r, In r rs /\ r_cs r <= x < r_cs r + r_cnt r.
Proof.
  unfold in_ranges. rewrite existsb_exists. intros [r [Hin H]].
  apply andb_true_iff in H. destruct H as [H1 H2]. apply Nat.leb_le in H1. apply Nat.ltb_lt in H2.
  exists r. auto.
Qed.

Lemma to_parent_in rs x : in_ranges (fst x) rs = true ->
  exists r, In r rs /\ r_cs r <= fst x < r_cs r + r_cnt r /\
            to_parent rs x = (r_ps r + (fst x - r_cs r), snd x).
Proof.
  induction rs as [|r t IH]; [discriminate|]. rewrite in_ranges_cons, to_parent_cons.
  destruct (Nat.leb (r_cs r) (fst x) && Nat.ltb (fst x) (r_cs r + r_cnt r)) eqn:E.
  - intros _. exists r. apply andb_true_iff in E. destruct E as [E1 E2].
    apply Nat.leb_le in E1. apply Nat.ltb_lt in E2. split; [now left|]. auto.
  - cbn [orb]. intros H. destruct (IH H) as [r' [Hin Hr]]. exists r'. split; [now right|exact Hr].
Qed.

Lemma asc_bounds lc lp rs : asc lc lp rs -> forall x, in_ranges (fst x) rs = true ->
  lc <= fst x /\ lp <= fst (to_parent rs x).
Proof.
  revert lc lp. induction rs as [|r t IH]; intros lc lp Ha x; [discriminate|].
  cbn [asc] in Ha. destruct Ha as [H1 [H2 H3]]. rewrite in_ranges_cons, to_parent_cons.
  destruct (Nat.leb (r_cs r) (fst x) && Nat.ltb (fst x) (r_cs r + r_cnt r)) eqn:E.
  - intros _. apply andb_true_iff in E. destruct E as [E1 E2]. apply Nat.leb_le in E1.
    cbn [fst]. lia.
  - cbn [orb]. intros H. destruct (IH _ _ H3 x H). lia.
Qed.

Lemma to_parent_mono lc lp rs : asc lc lp rs -> forall x y,
  in_ranges (fst x) rs = true -> in_ranges (fst y) rs = true -> fst x <= fst y ->
  fst (to_parent rs x) <= fst (to_parent rs y).
Proof.
  revert lc lp. induction rs as [|r t IH]; intros lc lp Ha x y; [discriminate|].
  cbn [asc] in Ha. destruct Ha as [H1 [H2 H3]]. rewrite !in_ranges_cons, !to_parent_cons.
  destruct (Nat.leb (r_cs r) (fst x) && Nat.ltb (fst x) (r_cs r + r_cnt r)) eqn:Ex;
    destruct (Nat.leb (r_cs r) (fst y) && Nat.ltb (fst y) (r_cs r + r_cnt r)) eqn:Ey;
    cbn [orb fst]; intros Hx Hy Hle.
  - lia.
  - destruct (asc_bounds _ _ _ H3 y Hy) as [_ Hb].
    apply andb_true_iff in Ex. destruct Ex as [E1 E2]. apply Nat.leb_le in E1. apply Nat.ltb_lt in E2. lia.
  - destruct (asc_bounds _ _ _ H3 x Hx) as [Hb _].
    apply andb_true_iff in Ey. destruct Ey as [E1 E2]. apply Nat.ltb_lt in E2. lia.
  - eapply IH; eauto.
Qed.

Lemma sorted_fst_map_mono (f : nat * nat -> nat * nat) m :
  sorted_fst m -> (forall x y, In x m -> In y m -> fst x <= fst y -> fst (f x) <= fst (f y)) ->
  sorted_fst (map f m).
Proof.
  induction 1 as [|x m Hm IH Hx]; intros Hf; cbn; [constructor|]. constructor.
  - apply IH. intros u v Hu Hv. apply Hf; now right.
  - apply Forall_forall. intros y Hy. apply in_map_iff in Hy. destruct Hy as [z [<- Hz]].
    rewrite Forall_forall in Hx. apply Hf; [now left|now right|]. now apply Hx.
Qed.

Lemma nth_error_set_nth {A} k (v : A) : forall l s o,
  nth_error (set_nth k v l) s = Some o -> (s = k /\ o = v) \/ nth_error l s = Some o.
Proof.
  induction k; intros [|a l] s o H; cbn in H; auto.
  - destruct s; cbn in *; [left; split; congruence|right; exact H].
  - destruct s; cbn in *; [right; exact H|].
    destruct (IHk l s o H) as [[-> ->]|H']; auto.
Qed.
Lemma set_nth_length {A} k (v : A) : forall l, length (set_nth k v l) = length l.
Proof. induction k; intros [|a l]; cbn; auto. Qed.

Lemma set_origins_spec upd : forall o s v,
  nth_error (set_origins o upd) s = Some v ->
  (exists u, In (s, u) upd /\ v = u) \/ nth_error o s = Some v.
Proof.
  induction upd as [|[k u] t IH]; intros o s v H; cbn in H; auto.
  destruct (IH _ _ _ H) as [[u' [Hin ->]]|H'].
  - left. exists u'. split; [now right|reflexivity].
  - apply nth_error_set_nth in H'. destruct H' as [[-> ->]|H']; auto.
    left. exists u. split; [now left|reflexivity].
Qed.
Lemma set_origins_length upd : forall o, length (set_origins o upd) = length o.
Proof. induction upd as [|[k u] t IH]; intros o; cbn; auto. now rewrite IH, set_nth_length. Qed.

Lemma sorted_fst_diag n : forall k, sorted_fst (map (fun i => (i, i)) (seq k n)).
Proof.
  induction n; intros k; cbn; constructor; [apply IHn|].
  apply Forall_forall. intros y Hy. apply in_map_iff in Hy. destruct Hy as [z [<- Hz]].
  apply in_seq in Hz. unfold le_fst. cbn. lia.
Qed.

Lemma nth_error_map_inv {A B} (f : A -> B) : forall l s o,
  nth_error (map f l) s = Some o -> exists i, nth_error l s = Some i /\ o = f i.
Proof.
  induction l as [|a l IH]; intros [|s] o H; cbn in H; try discriminate.
  - inversion H. exists a. auto.
  - apply IH in H. exact H.
Qed.
Lemma nth_error_seq_inv n : forall k s i, nth_error (seq k n) s = Some i -> i = k + s /\ s < n.
Proof.
  induction n; intros k [|s] i H; cbn in H; try discriminate.
  - inversion H. lia.
  - apply IHn in H. lia.
Qed.

(* ------------------------------------------------------------------ the invariant *)

Section Inv.
  Variable matching : nat -> nat -> list range3.
  Variable old : bool.
  Variable text : nat -> text.
  Variable start : nat.
  Variable nodes : list node.
  Variable anc : nat -> nat -> Prop.
  Hypothesis anc_refl : anc start start.
  Hypothesis anc_trans : forall a b c, anc a b -> anc b c -> anc a c.
  (** every edge of the stream points to an ancestor and its recorded matching is valid *)
  Hypothesis Hedges : forall nd e, In nd nodes -> In e (snd nd) ->
    anc (fst e) (fst nd) /\
    ranges_ok (text (fst nd)) (text (fst e)) 0 0 (matching (fst nd) (fst e)) = true.

  Definition same_line (c x s : nat) : Prop :=
    exists l, nth_error (text c) x = Some l /\ nth_error (text start) s = Some l.

  Definition good_origin (s : nat) (o : origin) : Prop :=
    same_line (o_commit o) (o_line o) s /\ anc (o_commit o) start /\
    (if o_ok o
     then exists nd, In nd nodes /\ fst nd = o_commit o /\
            forall e, In e (snd nd) -> in_ranges (o_line o) (matching (o_commit o) (fst e)) = false
     else o_commit o = start \/
          exists nd e, In nd nodes /\ In e (snd nd) /\ is_missing e = true /\ fst e = o_commit o).

  Definition good_map (c : nat) (m : lmap) : Prop :=
    sorted_fst m /\ forall x s, In (x, s) m -> same_line c x s.

  Definition Inv (st : state) : Prop :=
    (forall c m, lookup c (st_srcs st) = Some m -> anc c start /\ good_map c m) /\
    (forall s o, nth_error (st_olm st) s = Some o -> good_origin s o).

  Lemma good_map_nil c : good_map c [].
  Proof. split; [constructor|intros ? ? []]. Qed.

  Lemma set_origins_good olm upd :
    (forall s o, nth_error olm s = Some o -> good_origin s o) ->
    (forall s u, In (s, u) upd -> good_origin s u) ->
    forall s o, nth_error (set_origins olm upd) s = Some o -> good_origin s o.
  Proof.
    intros H1 H2 s o H. apply set_origins_spec in H. destruct H as [[u [Hin ->]]|H]; auto.
  Qed.

  (** One edge: the invariant, the current map and the "unmatched so far" record. *)
  Lemma process_edge_inv nd e st curmap st' curmap' (done : list edge) :
    In nd nodes -> In e (snd nd) ->
    Inv st -> anc (fst nd) start -> good_map (fst nd) curmap ->
    (forall x s, In (x, s) curmap -> forall e', In e' done ->
        in_ranges x (matching (fst nd) (fst e')) = false) ->
    process_edge matching old (fst nd) (st, curmap) e = (st', curmap') ->
    Inv st' /\ good_map (fst nd) curmap' /\
    (forall x s, In (x, s) curmap' -> forall e', In e' (done ++ [e]) ->
        in_ranges x (matching (fst nd) (fst e')) = false).
  Proof.
    intros Hnd He [Hsrc Holm] Hanc [Hsorted Hlines] Hdone H.
    destruct (Hedges nd e Hnd He) as [Hae Hrk].
    destruct (ranges_ok_spec _ _ _ _ _ Hrk) as [Hasc Hval].
    set (c := fst nd) in *. set (p := fst e) in *.
    unfold process_edge in H. fold p in H.
    destruct (split_lines (matching c p) curmap [] []) as [[rest newcur] newpar] eqn:Es.
    destruct (split_lines_spec _ _ _ _ _ _ _ _ _ Hsorted Hasc
                (fun x _ => Nat.le_0_l _) Es) as [Hcur Hpar].
    cbn [app] in Hcur, Hpar.
    (* the current map keeps exactly the unmatched lines *)
    assert (Gcur : good_map c (newcur ++ rest) /\
                   (forall x s, In (x, s) (newcur ++ rest) -> forall e', In e' (done ++ [e]) ->
                      in_ranges x (matching c (fst e')) = false)).
    { rewrite Hcur. split; [split|].
      - now apply sorted_fst_filter.
      - intros x s Hin. apply filter_In in Hin. apply Hlines. tauto.
      - intros x s Hin e' He'. apply filter_In in Hin. destruct Hin as [Hin Hneg].
        apply in_app_or in He'. destruct He' as [He'|[<-|[]]].
        + eapply Hdone; eauto.
        + cbn [fst] in Hneg. now apply negb_true_iff in Hneg. }
    (* the lines handed to the parent *)
    assert (Gpar : good_map p newpar).
    { rewrite Hpar. split.
      - apply sorted_fst_map_mono; [now apply sorted_fst_filter|].
        intros x y Hx Hy Hle. apply filter_In in Hx. apply filter_In in Hy.
        eapply to_parent_mono; try exact Hasc; tauto.
      - intros x s Hin. apply in_map_iff in Hin. destruct Hin as [[x0 s0] [Heq Hin]].
        apply filter_In in Hin. destruct Hin as [Hin Hr]. cbn [fst] in Hr.
        destruct (to_parent_in _ (x0, s0) Hr) as [r [Hrin [Hb Htp]]]. cbn [fst snd] in Hb, Htp.
        rewrite Htp in Heq. inversion Heq; subst.
        destruct (Hlines x0 s Hin) as [l [Hl1 Hl2]].
        destruct (Hval r Hrin (x0 - r_cs r) ltac:(lia)) as [l' [Hc' Hp']].
        replace (r_cs r + (x0 - r_cs r)) with x0 in Hc' by lia.
        assert (l' = l) by congruence. subst l'. exists l. auto. }
    assert (Hap : anc p start) by (eapply anc_trans; eauto).
    (* the parent's merged map *)
    set (pmap := match lookup p (st_srcs st) with Some m => m | None => [] end) in *.
    assert (Gpm : good_map p pmap).
    { unfold pmap. destruct (lookup p (st_srcs st)) eqn:El; [|apply good_map_nil].
      apply (Hsrc p l El). }
    set (pmap' := match pmap with [] => newpar | _ => merge_maps pmap newpar end) in *.
    assert (Gpm' : good_map p pmap').
    { unfold pmap'. destruct pmap as [|a t] eqn:Ep; [exact Gpar|].
      destruct Gpm as [Gs Gl]. destruct Gpar as [Ps Pl]. split.
      - now apply merge_maps_sorted.
      - intros x s Hin. apply merge_maps_In in Hin. destruct Hin; auto. }
    destruct Gcur as [Gc1 Gc2].
    destruct pmap' as [|a t] eqn:Epm'.
    - (* nothing left for the parent: it is dropped *)
      inversion H; subst. split; [|split; assumption].
      split; cbn [st_srcs st_olm]; [|exact Holm].
      intros c0 m Hl. destruct (Nat.eq_dec c0 p) as [->|Hne].
      + now rewrite lookup_remove_key_eq in Hl.
      + rewrite lookup_remove_key_neq in Hl by assumption. now apply Hsrc.
    - cbv beta iota in H. remember (a :: t) as pm eqn:Epm.
      assert (Hsrcs' : forall c0 m, lookup c0 (set_key p pm (st_srcs st)) = Some m ->
                         anc c0 start /\ good_map c0 m).
      { intros c0 m Hl. destruct (Nat.eq_dec c0 p) as [->|Hne].
        - rewrite lookup_set_key_eq in Hl. inversion Hl; subst m. auto.
        - rewrite lookup_set_key_neq in Hl by assumption. now apply Hsrc. }
      destruct (is_missing e) eqn:Em; inversion H; subst st' curmap'; (split; [|split; assumption]).
      + split; cbn [st_srcs st_olm]; [exact Hsrcs'|].
        apply set_origins_good; [exact Holm|].
        intros s u Hin. apply in_map_iff in Hin. destruct Hin as [[pl s0] [Heq Hin]].
        inversion Heq; subst s u. cbn [fst snd]. split; [|split].
        * cbn [o_commit o_line]. now apply (proj2 Gpm').
        * exact Hap.
        * cbn [o_ok o_commit]. right. exists nd, e. auto.
      + split; cbn [st_srcs st_olm]; [exact Hsrcs'|exact Holm].
  Qed.

  Lemma fold_edges_inv nd : In nd nodes -> anc (fst nd) start ->
    forall es2 done st curmap st' curmap',
    (forall e, In e es2 -> In e (snd nd)) ->
    Inv st -> good_map (fst nd) curmap ->
    (forall x s, In (x, s) curmap -> forall e', In e' done ->
        in_ranges x (matching (fst nd) (fst e')) = false) ->
    fold_left (process_edge matching old (fst nd)) es2 (st, curmap) = (st', curmap') ->
    Inv st' /\ good_map (fst nd) curmap' /\
    (forall x s, In (x, s) curmap' -> forall e', In e' (done ++ es2) ->
        in_ranges x (matching (fst nd) (fst e')) = false).
  Proof.
    intros Hnd Hanc. induction es2 as [|e es2 IH]; intros done st curmap st' curmap' Hsub Hi Hg Hd H.
    - cbn in H. inversion H; subst. rewrite app_nil_r. auto.
    - cbn [fold_left] in H.
      destruct (process_edge matching old (fst nd) (st, curmap) e) as [st1 cm1] eqn:E1.
      destruct (process_edge_inv nd e st curmap st1 cm1 done Hnd (Hsub e (or_introl eq_refl))
                  Hi Hanc Hg Hd E1) as [Hi1 [Hg1 Hd1]].
      destruct (IH (done ++ [e]) st1 cm1 st' curmap'
                  (fun e0 He0 => Hsub e0 (or_intror He0)) Hi1 Hg1 Hd1 H) as [Hi2 [Hg2 Hd2]].
      split; [exact Hi2|]. split; [exact Hg2|].
      intros x s Hin e' He'. apply (Hd2 x s Hin). rewrite <- app_assoc. exact He'.
  Qed.

  Lemma process_commit_inv st nd : In nd nodes -> Inv st -> Inv (process_commit matching old st nd).
  Proof.
    intros Hnd Hi. unfold process_commit.
    destruct (lookup (fst nd) (st_srcs st)) as [curmap|] eqn:El; [|exact Hi].
    destruct Hi as [Hsrc Holm]. destruct (Hsrc _ _ El) as [Hanc Hgm].
    set (st0 := mk_state (st_olm st) (remove_key (fst nd) (st_srcs st)) (st_unres st)).
    assert (Hi0 : Inv st0).
    { split; cbn [st0 st_srcs st_olm]; [|exact Holm].
      intros c m Hl. destruct (Nat.eq_dec c (fst nd)) as [->|Hne].
      - now rewrite lookup_remove_key_eq in Hl.
      - rewrite lookup_remove_key_neq in Hl by assumption. now apply Hsrc. }
    destruct (fold_left (process_edge matching old (fst nd)) (snd nd) (st0, curmap)) as [st1 rest] eqn:Ef.
    destruct (fold_edges_inv nd Hnd Hanc (snd nd) [] st0 curmap st1 rest
                (fun e He => He) Hi0 Hgm (fun _ _ _ _ F => match F with end) Ef)
      as [[Hsrc1 Holm1] [[_ Hg1] Hd1]].
    cbn [app] in Hd1.
    split; cbn [st_srcs st_olm]; [exact Hsrc1|].
    apply set_origins_good; [exact Holm1|].
    intros s u Hin. apply in_map_iff in Hin. destruct Hin as [[x s0] [Heq Hin]].
    inversion Heq; subst. cbn [fst snd]. split; [|split].
    - cbn [o_commit o_line]. now apply Hg1.
    - exact Hanc.
    - cbn [o_ok o_commit o_line]. exists nd. split; [exact Hnd|]. split; [reflexivity|].
      intros e He. exact (Hd1 x s Hin e He).
  Qed.

  Lemma process_nodes_inv : forall ns st, (forall nd, In nd ns -> In nd nodes) ->
    Inv st -> Inv (process_nodes matching old st ns).
  Proof.
    induction ns as [|nd t IH]; intros st Hsub Hi; cbn [process_nodes]; auto.
    assert (Hi' := process_commit_inv st nd (Hsub nd (or_introl eq_refl)) Hi).
    destruct (Nat.eqb _ _); auto. apply IH; auto. intros x Hx. apply Hsub. now right.
  Qed.

  Lemma process_commit_length st nd :
    length (st_olm (process_commit matching old st nd)) = length (st_olm st).
  Proof.
    unfold process_commit. destruct (lookup _ _) as [curmap|]; auto.
    set (st0 := mk_state _ _ _).
    assert (Hf : forall es acc, length (st_olm (fst (fold_left (process_edge matching old (fst nd)) es acc)))
                                = length (st_olm (fst acc))).
    { induction es as [|e es IH]; intros [s0 cm]; cbn [fold_left]; auto.
      rewrite IH. unfold process_edge.
      destruct (split_lines _ _ _ _) as [[r nc] np].
      destruct (match match lookup (fst e) (st_srcs s0) with Some m => m | None => [] end with
                | [] => np | _ => _ end); cbn [fst st_olm]; auto.
      destruct (is_missing e); cbn [fst st_olm]; auto. apply set_origins_length. }
    specialize (Hf (snd nd) (st0, curmap)).
    destruct (fold_left _ _ _) as [st1 rest]. cbn [fst] in Hf. cbn [st_olm].
    rewrite set_origins_length. exact Hf.
  Qed.

  Lemma process_nodes_length : forall ns st,
    length (st_olm (process_nodes matching old st ns)) = length (st_olm st).
  Proof.
    induction ns as [|nd t IH]; intros st; cbn [process_nodes]; auto.
    destruct (Nat.eqb _ _); [apply process_commit_length|].
    rewrite IH. apply process_commit_length.
  Qed.

  Lemma init_inv nlines : nlines = length (text start) -> Inv (init_state start nlines).
  Proof.
    intros Hn. unfold init_state.
    assert (Hline : forall i, i < nlines -> same_line start i i).
    { intros i Hi. rewrite Hn in Hi. destruct (nth_error (text start) i) as [l|] eqn:E.
      - exists l. auto.
      - apply nth_error_None in E. lia. }
    split; cbn [st_srcs st_olm].
    + intros c m Hl. cbn in Hl. destruct (Nat.eqb_spec c start); [|discriminate].
      inversion Hl; subst. split; [exact anc_refl|]. split.
      * apply sorted_fst_diag.
      * intros x s Hin. apply in_map_iff in Hin.
        destruct Hin as [i [Heq Hi]]. inversion Heq; subst. apply in_seq in Hi. apply Hline. lia.
    + intros s o Ho. apply nth_error_map_inv in Ho.
      destruct Ho as [i [Hi ->]]. apply nth_error_seq_inv in Hi. destruct Hi as [-> Hs].
      cbn [Nat.add]. split; [|split]; cbn [o_commit o_line o_ok]; auto.
  Qed.

  Lemma run_phase_inv st ns : (forall nd, In nd ns -> In nd nodes) -> Inv st ->
    Inv (run_phase matching old st ns) /\
    length (st_olm (run_phase matching old st ns)) = length (st_olm st).
  Proof.
    intros Hsub [H1 H2]. unfold run_phase. split.
    - apply process_nodes_inv; auto. split; cbn [st_srcs st_olm]; auto.
    - now rewrite process_nodes_length.
  Qed.

  (** Every state reached by successive [compute] calls satisfies the invariant: one origin
      per starting line, each of them good. *)
  Theorem run_phases_good : forall phases st,
    (forall ns nd, In ns phases -> In nd ns -> In nd nodes) -> Inv st ->
    forall st', In st' (run_phases matching old st phases) ->
      Inv st' /\ length (st_olm st') = length (st_olm st).
  Proof.
    induction phases as [|ns t IH]; intros st Hsub Hi st' Hin; cbn [run_phases] in Hin; [destruct Hin|].
    destruct (run_phase_inv st ns (fun nd H => Hsub ns nd (or_introl eq_refl) H) Hi) as [Hi1 Hl1].
    destruct Hin as [<-|Hin]; [auto|].
    destruct (IH _ (fun ns' nd H1 H2 => Hsub ns' nd (or_intror H1) H2) Hi1 st' Hin) as [Ha Hb].
    split; auto. congruence.
  Qed.
End Inv.
