(** C46 — the histories the transaction layer can produce are well-formed.

    [CommitBuilder::write] (lib/src/commit_builder.rs:398-424) refuses a commit whose id the
    repository already knows ("Newly-created commit ... already exists") and then calls
    [MutableRepo::set_predecessors] (repo.rs:1017), so a commit becomes a key of
    [commit_predecessors] only in the operation whose transaction created it;
    [Transaction::write] (transaction.rs:140-170) stores that map in the new operation, whose
    parents are the operation(s) the transaction was started from ([merge_operations] adds
    the merged heads as further parents, and the map of a reconciling operation holds the
    commits the reconciliation itself creates).  Predecessors are commits the repository
    already has.  This file models exactly that and proves [WF] and acyclicity for every
    order in which [walk_ancestors] can list the operations (descendants before ancestors). *)
From Coq Require Import Lia Relations.
From Verif Require Import Base.Prelude Model.C46 Proofs.C46Scan Proofs.C46Topo Proofs.C46.

Record hop := mk_hop {
  h_parents : list nat;     (* positions (creation order) of the parent operations *)
  h_map : pmap;             (* commit_predecessors, newest recorded commit first *)
}.

Definition hmap (ops : list hop) (i : nat) : pmap :=
  match nth_error ops i with Some o => h_map o | None => [] end.
Definition hparents (ops : list hop) (i : nat) : list nat :=
  match nth_error ops i with Some o => h_parents o | None => [] end.

(** Reflexive ancestry of operations. *)
Inductive anc (ops : list hop) : nat -> nat -> Prop :=
| anc_refl i : anc ops i i
| anc_step i p j : In p (hparents ops i) -> anc ops p j -> anc ops i j.

Section Gen.
  (** Commits that exist without any operation recording them (imported from Git, ...). *)
  Variable E : N -> Prop.

  (** The commits a repository loaded at operations [ps] knows. *)
  Definition known (ops : list hop) (ps : list nat) (c : N) : Prop :=
    E c \/ exists a j, In a ps /\ anc ops a j /\ is_key (hmap ops j) c = true.

  (** One transaction started from operations [ps]: every written commit is new — to this
      repository (checked by the code) and, by the assumption that ids are content hashes,
      to every concurrent operation as well — and its predecessors already exist. *)
  Inductive valid_tx (ops : list hop) (ps : list nat) : pmap -> Prop :=
  | vt_nil : valid_tx ops ps []
  | vt_cons tx c preds :
      valid_tx ops ps tx ->
      ~ E c ->
      (forall i, is_key (hmap ops i) c = false) ->
      is_key tx c = false ->
      (forall p, In p preds -> known ops ps p \/ is_key tx p = true) ->
      valid_tx ops ps ((c, preds) :: tx).

  (** Histories: operations are appended (creation order); parents are earlier operations. *)
  Inductive gen : list hop -> Prop :=
  | gen_nil : gen []
  | gen_snoc ops ps tx :
      gen ops -> (forall p, In p ps -> p < length ops) -> valid_tx ops ps tx ->
      gen (ops ++ [mk_hop ps tx]).

  (** ** Basic facts *)
  Lemma hmap_app_l ops o i : i < length ops -> hmap (ops ++ [o]) i = hmap ops i.
  Proof. intros H. unfold hmap. now rewrite nth_error_app1. Qed.

  Lemma hparents_app_l ops o i : i < length ops -> hparents (ops ++ [o]) i = hparents ops i.
  Proof. intros H. unfold hparents. now rewrite nth_error_app1. Qed.

  Lemma hmap_app_last ops o : hmap (ops ++ [o]) (length ops) = h_map o.
  Proof. unfold hmap. rewrite nth_error_app2 by lia. now rewrite Nat.sub_diag. Qed.

  Lemma hparents_app_last ops o : hparents (ops ++ [o]) (length ops) = h_parents o.
  Proof. unfold hparents. rewrite nth_error_app2 by lia. now rewrite Nat.sub_diag. Qed.

  Lemma hmap_out ops i : length ops <= i -> hmap ops i = [].
  Proof. intros H. unfold hmap. apply nth_error_None in H. now rewrite H. Qed.

  Lemma hparents_out ops i : length ops <= i -> hparents ops i = [].
  Proof. intros H. unfold hparents. apply nth_error_None in H. now rewrite H. Qed.

  Definition scoped (ops : list hop) : Prop :=
    forall i p, In p (hparents ops i) -> p < i.

  Lemma gen_scoped ops : gen ops -> scoped ops.
  Proof.
    induction 1 as [|ops ps tx _ IH Hps _]; intros i p Hp.
    - unfold hparents in Hp. destruct i; cbn in Hp; contradiction.
    - destruct (Nat.lt_ge_cases i (length ops)) as [Hi|Hi].
      + rewrite hparents_app_l in Hp by assumption. eauto.
      + destruct (Nat.eq_dec i (length ops)) as [->|Hne].
        * rewrite hparents_app_last in Hp. cbn in Hp. auto.
        * rewrite hparents_out in Hp; [contradiction|]. rewrite app_length. cbn. lia.
  Qed.

  Lemma anc_le ops i j : scoped ops -> anc ops i j -> j <= i.
  Proof. intros Hs. induction 1 as [|i p j Hp _ IH]; [lia|]. apply Hs in Hp. lia. Qed.

  Lemma anc_app_old ops o i j :
    scoped (ops ++ [o]) -> i < length ops -> (anc (ops ++ [o]) i j <-> anc ops i j).
  Proof.
    intros Hs Hi. split.
    - intros H. induction H as [|i p j Hp _ IH]; [constructor|].
      assert (Hpi := Hs _ _ Hp). rewrite hparents_app_l in Hp by assumption.
      econstructor; [exact Hp|]. apply IH. lia.
    - intros H. induction H as [|i p j Hp H' IH]; [constructor|].
      assert (Hp' : In p (hparents (ops ++ [o]) i)) by (now rewrite hparents_app_l).
      econstructor; [exact Hp'|]. apply IH. apply Hs in Hp'. lia.
  Qed.

  Lemma is_key_cons c preds tx x :
    is_key ((c, preds) :: tx) x = N.eqb c x || is_key tx x.
  Proof. unfold is_key. cbn. destruct (N.eqb c x); reflexivity. Qed.

  (** ** A commit is recorded by one operation only, and never an external one. *)
  Definition keys_unique (ops : list hop) : Prop :=
    (forall i j c, is_key (hmap ops i) c = true -> is_key (hmap ops j) c = true -> i = j)
    /\ (forall i c, is_key (hmap ops i) c = true -> ~ E c).

  Lemma valid_tx_keys ops ps tx : valid_tx ops ps tx ->
    forall c, is_key tx c = true -> ~ E c /\ forall i, is_key (hmap ops i) c = false.
  Proof.
    induction 1 as [|tx c0 preds _ IH HE Hf _ _]; intros c Hc.
    - discriminate.
    - rewrite is_key_cons in Hc. apply orb_true_iff in Hc. destruct Hc as [Hc|Hc].
      + apply N.eqb_eq in Hc. subst. auto.
      + auto.
  Qed.

  Lemma gen_keys_unique ops : gen ops -> keys_unique ops.
  Proof.
    induction 1 as [|ops ps tx _ [IH1 IH2] Hps Htx].
    - split; intros; unfold hmap in *; destruct i; cbn in *; discriminate.
    - assert (Hnew := valid_tx_keys _ _ _ Htx).
      assert (Hcase : forall i c, is_key (hmap (ops ++ [mk_hop ps tx]) i) c = true ->
                (i < length ops /\ is_key (hmap ops i) c = true)
                \/ (i = length ops /\ is_key tx c = true)).
      { intros i c Hc. destruct (Nat.lt_ge_cases i (length ops)) as [Hi|Hi].
        - left. rewrite hmap_app_l in Hc by assumption. auto.
        - destruct (Nat.eq_dec i (length ops)) as [->|Hne].
          + right. rewrite hmap_app_last in Hc. auto.
          + rewrite hmap_out in Hc; [discriminate|]. rewrite app_length. cbn. lia. }
      split.
      + intros i j c Hi Hj.
        destruct (Hcase i c Hi) as [[Hi1 Hi2]|[-> Hi2]], (Hcase j c Hj) as [[Hj1 Hj2]|[-> Hj2]].
        * eauto.
        * destruct (Hnew c Hj2) as [_ Hf]. rewrite Hf in Hi2. discriminate.
        * destruct (Hnew c Hi2) as [_ Hf]. rewrite Hf in Hj2. discriminate.
        * reflexivity.
      + intros i c Hi. destruct (Hcase i c Hi) as [[_ H2]|[_ H2]]; [eauto|]. apply (Hnew c H2).
  Qed.

  (** ** Recorded predecessors existed before: external, or recorded by an ancestor
      operation (possibly the same one). *)
  Definition preds_exist (ops : list hop) : Prop :=
    forall i c p, edge (hmap ops i) c p ->
      E p \/ exists j, anc ops i j /\ is_key (hmap ops j) p = true.

  Lemma edge_cons c0 preds0 tx c p :
    edge ((c0, preds0) :: tx) c p <-> (c0 = c /\ In p preds0) \/ (c0 <> c /\ edge tx c p).
  Proof.
    unfold edge, nbrs. cbn. destruct (N.eqb c0 c) eqn:Ec.
    - apply N.eqb_eq in Ec. subst. split; [auto|]. intros [[_ H]|[H _]]; [assumption|congruence].
    - apply N.eqb_neq in Ec. split; [auto|]. intros [[H _]|[_ H]]; [congruence|assumption].
  Qed.

  Lemma valid_tx_edge ops ps tx : valid_tx ops ps tx ->
    forall c p, edge tx c p -> known ops ps p \/ is_key tx p = true.
  Proof.
    induction 1 as [|tx c0 preds _ IH _ _ _ Hpreds]; intros c p Hcp.
    - unfold edge, nbrs in Hcp. cbn in Hcp. contradiction.
    - apply edge_cons in Hcp. rewrite is_key_cons. destruct Hcp as [[-> Hp]|[_ Hcp]].
      + destruct (Hpreds p Hp) as [H|H]; [now left|right]. rewrite H. apply orb_true_r.
      + destruct (IH c p Hcp) as [H|H]; [now left|right]. rewrite H. apply orb_true_r.
  Qed.

  Lemma gen_preds_exist ops : gen ops -> preds_exist ops.
  Proof.
    intros Hg. assert (Hsc := gen_scoped _ Hg). induction Hg as [|ops ps tx Hg IH Hps Htx].
    - intros i c p H. unfold hmap in H. destruct i; cbn in H; contradiction.
    - intros i c p Hcp.
      set (ops' := ops ++ [mk_hop ps tx]) in *.
      destruct (Nat.lt_ge_cases i (length ops)) as [Hi|Hi].
      + unfold ops' in Hcp. rewrite hmap_app_l in Hcp by assumption.
        destruct (IH (gen_scoped _ Hg) i c p Hcp) as [H|(j & Hj & Hk)]; [now left|right].
        exists j. split; [now apply anc_app_old|].
        assert (j <= i) by (eapply anc_le; [apply (gen_scoped _ Hg)|eassumption]).
        unfold ops'. rewrite hmap_app_l by lia. assumption.
      + destruct (Nat.eq_dec i (length ops)) as [->|Hne].
        * unfold ops' in Hcp. rewrite hmap_app_last in Hcp. cbn in Hcp.
          destruct (valid_tx_edge _ _ _ Htx c p Hcp) as [[H|(a & j & Ha & Haj & Hk)]|H].
          -- now left.
          -- right. exists j. assert (a < length ops) by auto.
             split.
             ++ econstructor; [unfold ops'; rewrite hparents_app_last; exact Ha|].
                now apply anc_app_old.
             ++ assert (j <= a) by (eapply anc_le; [apply (gen_scoped _ Hg)|eassumption]).
                unfold ops'. rewrite hmap_app_l by lia. assumption.
          -- right. exists (length ops). split; [constructor|].
             unfold ops'. now rewrite hmap_app_last.
        * unfold ops' in Hcp. rewrite hmap_out in Hcp.
          -- unfold edge, nbrs in Hcp. cbn in Hcp. contradiction.
          -- rewrite app_length. cbn. lia.
  Qed.

  (** ** Every order [walk_ancestors] can produce: no operation is listed after one of its
      own descendants (and none twice). *)
  Fixpoint walk_ok (ops : list hop) (w : list nat) : Prop :=
    match w with
    | [] => True
    | a :: rest => ~ In a rest /\ (forall b, In b rest -> ~ anc ops b a) /\ walk_ok ops rest
    end.

  Theorem gen_WF ops w : gen ops -> walk_ok ops w -> WF (map (hmap ops) w).
  Proof.
    intros Hg. destruct (gen_keys_unique _ Hg) as [U1 U2]. pose proof (gen_preds_exist _ Hg) as P.
    induction w as [|a rest IH]; intros Hw; [exact I|].
    destruct Hw as (Hnin & Hanc & Hrest). cbn [map WF]. split; [|split; [|auto]].
    - intros c Hc (m & Hm & Hk). apply in_map_iff in Hm. destruct Hm as (b & <- & Hb).
      assert (a = b) by (eapply U1; eauto). subst. contradiction.
    - intros c p (m & Hm & He). apply in_map_iff in Hm. destruct Hm as (b & <- & Hb).
      destruct (is_key (hmap ops a) p) eqn:Hk; [|reflexivity]. exfalso.
      destruct (P b c p He) as [HE|(j & Hj & Hkj)].
      + exact (U2 a p Hk HE).
      + assert (a = j) by (eapply U1; eauto). subst j. exact (Hanc b Hb Hj).
  Qed.

  (** ** No cycles inside an operation's map *)
  Lemma tpath_restrict c0 preds0 tx :
    (forall x, ~ edge ((c0, preds0) :: tx) x c0) ->
    forall a b, tpath ((c0, preds0) :: tx) a b -> a <> c0 -> tpath tx a b.
  Proof.
    intros Hno a b H. induction H as [a y Hay|a y b Hay _ IH]; intros Hne.
    - apply Relation_Operators.t1n_step. apply edge_cons in Hay.
      destruct Hay as [[H _]|[_ H]]; [congruence|assumption].
    - assert (Hy : y <> c0) by (intros ->; exact (Hno a Hay)).
      eapply Relation_Operators.t1n_trans; [|now apply IH].
      apply edge_cons in Hay. destruct Hay as [[H _]|[_ H]]; [congruence|assumption].
  Qed.

  Lemma tpath_last m a b : tpath m a b -> exists x, edge m x b.
  Proof. induction 1 as [a b H|a y b _ _ IH]; eauto. Qed.

  Lemma valid_tx_acyclic ops ps tx : valid_tx ops ps tx -> forall c, ~ tpath tx c c.
  Proof.
    induction 1 as [|tx c0 preds Hv IH HE Hf Hk Hpreds]; intros c Hc.
    - destruct (tpath_last _ _ _ Hc) as (x & Hx). unfold edge, nbrs in Hx. cbn in Hx. contradiction.
    - assert (Hno : forall x, ~ edge ((c0, preds) :: tx) x c0).
      { intros x Hx.
        assert (Hbad : known ops ps c0 \/ is_key tx c0 = true).
        { apply edge_cons in Hx. destruct Hx as [[_ Hp]|[_ Hx]]; [auto|].
          eapply valid_tx_edge; eauto. }
        destruct Hbad as [[H|(a & j & _ & _ & H)]|H]; [contradiction| |congruence].
        rewrite Hf in H. discriminate. }
      destruct (N.eq_dec c c0) as [->|Hne].
      + destruct (tpath_last _ _ _ Hc) as (x & Hx). exact (Hno x Hx).
      + apply (IH c). eapply tpath_restrict; eauto.
  Qed.

  Lemma gen_acyclic ops : gen ops -> forall i c, ~ tpath (hmap ops i) c c.
  Proof.
    induction 1 as [|ops ps tx _ IH Hps Htx]; intros i c Hc.
    - destruct (tpath_last _ _ _ Hc) as (x & Hx). unfold hmap in Hx.
      destruct i; unfold edge, nbrs in Hx; cbn in Hx; contradiction.
    - destruct (Nat.lt_ge_cases i (length ops)) as [Hi|Hi].
      + rewrite hmap_app_l in Hc by assumption. eapply IH; eauto.
      + destruct (Nat.eq_dec i (length ops)) as [->|Hne].
        * rewrite hmap_app_last in Hc. cbn in Hc. eapply valid_tx_acyclic; eauto.
        * rewrite hmap_out in Hc by (rewrite app_length; cbn; lia).
          destruct (tpath_last _ _ _ Hc) as (x & Hx). unfold edge, nbrs in Hx. cbn in Hx. contradiction.
  Qed.

  Lemma some_prefix_map_Some ms : some_prefix (map Some ms) = ms.
  Proof. induction ms as [|m ms IH]; cbn; [reflexivity|]. now rewrite IH. Qed.

  (** The walk over a generated history never reports a cycle. *)
  Theorem gen_done ops w start : gen ops ->
    snd (walk_predecessors (map (fun i => Some (hmap ops i)) w) start) = Done.
  Proof.
    intros Hg.
    destruct (snd (walk_predecessors (map (fun i => Some (hmap ops i)) w) start)) eqn:E0.
    - reflexivity.
    - exfalso. unfold walk_predecessors in E0. apply walk_cycle_sound in E0.
      destruct E0 as (m & Hm & Hp). apply in_map_iff in Hm. destruct Hm as (i & Hi & _).
      inversion Hi; subst m. exact (gen_acyclic _ Hg i c Hp).
    - exfalso. eapply walk_no_fuel. exact E0.
  Qed.
End Gen.
