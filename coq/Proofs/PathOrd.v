(** The order on repository paths (component-wise, components as byte strings) is a strict
    total order; prefixes come first and the paths below a prefix form an interval;
    [sort_paths] sorts. *)
From Verif Require Import Base.Prelude Base.FsC Base.WcC Proofs.FsC.
From Coq Require Import Lia.
Local Open Scope list_scope.

(** ** Characters and strings *)

Lemma ascii_compare_refl : forall a, Ascii.compare a a = Eq.
Proof. intros. unfold Ascii.compare. apply N.compare_refl. Qed.

Lemma ascii_compare_trans : forall a b c,
  Ascii.compare a b = Lt -> Ascii.compare b c = Lt -> Ascii.compare a c = Lt.
Proof.
  unfold Ascii.compare. intros a b c H1 H2. apply N.compare_lt_iff in H1. apply N.compare_lt_iff in H2.
  apply N.compare_lt_iff. eapply N.lt_trans; eauto.
Qed.

Lemma string_compare_refl : forall s, String.compare s s = Eq.
Proof. induction s as [|a s IH]; cbn; [reflexivity|]. now rewrite ascii_compare_refl. Qed.

Lemma string_compare_eq : forall s t, String.compare s t = Eq <-> s = t.
Proof.
  intros s t. split; [apply String.compare_eq_iff | intros ->; apply string_compare_refl].
Qed.

Lemma string_compare_trans : forall s t u,
  String.compare s t = Lt -> String.compare t u = Lt -> String.compare s u = Lt.
Proof.
  induction s as [|a s IH]; intros t u H1 H2.
  - destruct t; [discriminate|]. destruct u; [discriminate|reflexivity].
  - destruct t as [|b t]; [discriminate|]. destruct u as [|c u]; [discriminate|]. cbn in *.
    destruct (Ascii.compare a b) eqn:E1; try discriminate.
    + apply Ascii.compare_eq_iff in E1. subst b.
      destruct (Ascii.compare a c) eqn:E2; try discriminate; auto. eapply IH; eauto.
    + destruct (Ascii.compare b c) eqn:E2; try discriminate.
      * apply Ascii.compare_eq_iff in E2. subst c. now rewrite E1.
      * now rewrite (ascii_compare_trans _ _ _ E1 E2).
Qed.

(** ** Paths *)

Lemma path_compare_refl : forall p, path_compare p p = Eq.
Proof. induction p as [|x p IH]; cbn; [reflexivity|]. now rewrite string_compare_refl. Qed.

Lemma path_compare_eq : forall p q, path_compare p q = Eq <-> p = q.
Proof.
  induction p as [|x p IH]; destruct q as [|y q]; cbn; try (split; congruence).
  destruct (String.compare x y) eqn:E.
  - apply string_compare_eq in E. subst y. rewrite IH. split; congruence.
  - split; [discriminate|]. intros H. inversion H; subst. rewrite string_compare_refl in E. discriminate.
  - split; [discriminate|]. intros H. inversion H; subst. rewrite string_compare_refl in E. discriminate.
Qed.

Lemma path_compare_antisym : forall p q, path_compare p q = CompOpp (path_compare q p).
Proof.
  induction p as [|x p IH]; destruct q as [|y q]; cbn; try reflexivity.
  rewrite (String.compare_antisym x y). destruct (String.compare y x); cbn; auto.
Qed.

Lemma path_compare_trans : forall p q r,
  path_compare p q = Lt -> path_compare q r = Lt -> path_compare p r = Lt.
Proof.
  induction p as [|x p IH]; intros q r H1 H2.
  - destruct q; [discriminate|]. destruct r; [discriminate|reflexivity].
  - destruct q as [|y q]; [discriminate|]. destruct r as [|z r]; [discriminate|]. cbn in *.
    destruct (String.compare x y) eqn:E1; try discriminate.
    + apply string_compare_eq in E1. subst y.
      destruct (String.compare x z) eqn:E2; try discriminate; auto. eapply IH; eauto.
    + destruct (String.compare y z) eqn:E2; try discriminate.
      * apply string_compare_eq in E2. subst z. now rewrite E1.
      * now rewrite (string_compare_trans _ _ _ E1 E2).
Qed.

Lemma path_ltb_lt : forall p q, path_ltb p q = true <-> path_compare p q = Lt.
Proof. intros. unfold path_ltb. destruct (path_compare p q); split; congruence. Qed.

Lemma path_ltb_irrefl : forall p, path_ltb p p = false.
Proof. intros. unfold path_ltb. now rewrite path_compare_refl. Qed.

Lemma path_ltb_trans : forall p q r, path_ltb p q = true -> path_ltb q r = true -> path_ltb p r = true.
Proof. intros p q r. rewrite !path_ltb_lt. apply path_compare_trans. Qed.

Lemma path_compare_gt_lt : forall p q, path_compare p q = Gt <-> path_compare q p = Lt.
Proof.
  intros p q. rewrite (path_compare_antisym p q). destruct (path_compare q p); cbn; split; congruence.
Qed.

Lemma path_ltb_asym : forall p q, path_ltb p q = true -> path_ltb q p = false.
Proof.
  intros p q H. destruct (path_ltb q p) eqn:E; [|reflexivity].
  pose proof (path_ltb_trans _ _ _ H E) as C. rewrite path_ltb_irrefl in C. discriminate.
Qed.

Lemma path_trichotomy : forall p q, path_ltb p q = true \/ p = q \/ path_ltb q p = true.
Proof.
  intros p q. destruct (path_compare p q) eqn:E.
  - right; left. now apply path_compare_eq.
  - left. now apply path_ltb_lt.
  - right; right. apply path_ltb_lt. now apply path_compare_gt_lt.
Qed.

(** A strict prefix is smaller. *)
Lemma strict_prefix_lt : forall p q, is_strict_prefix p q = true -> path_ltb p q = true.
Proof.
  intros p q H. apply is_strict_prefix_spec in H as [x [r ->]]. apply path_ltb_lt.
  induction p as [|y p IH]; cbn; [reflexivity|]. now rewrite string_compare_refl.
Qed.

(** The paths below [q] form an interval that starts at [q]. *)
Lemma prefix_interval : forall q n r,
  is_prefix q r = true -> path_ltb n q = false -> path_ltb r n = false -> is_prefix q n = true.
Proof.
  induction q as [|x q IH]; intros n r Hqr H1 H2; [reflexivity|].
  destruct r as [|z r]; [discriminate|]. cbn in Hqr. apply Bool.andb_true_iff in Hqr as [Hx Hqr].
  apply String.eqb_eq in Hx. subst z.
  destruct n as [|y n]; [discriminate|].
  unfold path_ltb in H1, H2. cbn in *.
  rewrite (String.compare_antisym x y) in H2.
  destruct (String.compare y x) eqn:E; cbn in *; try discriminate.
  apply string_compare_eq in E. subst y. rewrite String.eqb_refl. cbn.
  apply (IH n r); auto.
Qed.

(** ** Sorting *)

(** [p] is smaller than every element. *)
Definition lt_all (p : path) (l : list path) : Prop := forall q, In q l -> path_ltb p q = true.

Fixpoint ssorted (l : list path) : Prop :=
  match l with
  | [] => True
  | p :: r => lt_all p r /\ ssorted r
  end.

Lemma ssorted_sorted_strict : forall l, ssorted l -> sorted_strict l = true.
Proof.
  induction l as [|p [|q r] IH]; cbn; auto. intros [H1 H2]. rewrite (H1 q (or_introl eq_refl)). cbn.
  apply IH. exact H2.
Qed.

Lemma sorted_strict_ssorted : forall l, sorted_strict l = true -> ssorted l.
Proof.
  induction l as [|p [|q r] IH]; cbn; auto.
  - intros _. split; [intros q []|exact I].
  - intros H. apply Bool.andb_true_iff in H as [H1 H2]. specialize (IH H2). split; [|exact IH].
    intros x [<-|Hx]; [exact H1|]. destruct IH as [Hq _]. eapply path_ltb_trans; [exact H1|]. now apply Hq.
Qed.

Lemma insert_path_In : forall p l q, In q (insert_path p l) <-> q = p \/ In q l.
Proof.
  induction l as [|x l IH]; intros q; cbn.
  - split; [intros [H|[]]; auto | intros [H|[]]; auto].
  - destruct (path_compare p x) eqn:E; cbn.
    + apply path_compare_eq in E. subst x. split; [auto | intros [->|H]; auto].
    + split; [intros [H|H]; auto | intros [H|H]; auto].
    + rewrite IH. split; [intros [H|[H|H]]; auto | intros [H|[H|H]]; auto].
Qed.

Lemma insert_path_sorted : forall p l, ssorted l -> ssorted (insert_path p l).
Proof.
  induction l as [|x l IH]; intros Hs; cbn; [split; [intros q []|exact I]|].
  destruct Hs as [Hx Hl]. destruct (path_compare p x) eqn:E; cbn.
  - split; auto.
  - split; [|split; auto]. intros q [<-|Hq]; [now apply path_ltb_lt|].
    eapply path_ltb_trans; [apply path_ltb_lt; exact E | now apply Hx].
  - split; [|now apply IH]. intros q Hq. apply insert_path_In in Hq as [->|Hq]; [|now apply Hx].
    apply path_ltb_lt. now apply path_compare_gt_lt.
Qed.

Lemma sort_paths_In : forall l q, In q (sort_paths l) <-> In q l.
Proof.
  induction l as [|x l IH]; intros q; cbn; [tauto|]. rewrite insert_path_In, IH. intuition.
Qed.

Lemma sort_paths_sorted : forall l, ssorted (sort_paths l).
Proof. induction l as [|x l IH]; cbn; [exact I|]. now apply insert_path_sorted. Qed.
