(** C01, part 5: flattening conflicts nested to any depth ([Merge::flatten] applied
    repeatedly) preserves the signed count of every value. The single-level law is first
    re-proved for an arbitrary integer weight of the terms ([sden]), then iterated. *)
From Verif Require Import Base.Prelude Model.Merge Model.C01 Proofs.MergeDen Proofs.C01.
From Coq Require Import Lia Arith Permutation.
Local Open Scope Z_scope.

Section SDen.
  Context {X : Type} (w : X -> Z).

  Lemma sden_neg l : forall s, sden w (negb s) l = - sden w s l.
  Proof.
    induction l as [|x t IH]; intros s; [reflexivity|]. cbn [sden].
    rewrite (IH (negb s)), (IH s). destruct s; cbn [negb]; lia.
  Qed.

  Lemma sden_app l1 : forall s l2,
    sden w s (l1 ++ l2) = sden w s l1 + (if Nat.even (length l1) then sden w s l2 else - sden w s l2).
  Proof.
    induction l1 as [|x t IH]; intros s l2; [cbn; lia|].
    cbn [app sden length]. rewrite IH, Nat.even_succ, <- Nat.negb_even, !sden_neg.
    destruct (Nat.even (length t)), s; cbn [negb]; lia.
  Qed.

  Lemma sden_zero l : forall s, (forall x, In x l -> w x = 0) -> sden w s l = 0.
  Proof.
    induction l as [|x t IH]; intros s H; [reflexivity|]. cbn [sden].
    rewrite IH by (intros y Hy; apply H; now right). rewrite (H x (or_introl eq_refl)).
    destruct s; lia.
  Qed.

  Lemma sden_swap_pairs n : forall t s,
    length t = (2 * n)%nat -> sden w s (swap_pairs t) = - sden w s t.
  Proof.
    induction n as [|n IH]; intros t s H.
    - destruct t; [reflexivity|discriminate].
    - destruct t as [|a [|b t]]; try (cbn in H; lia).
      cbn [swap_pairs sden]. rewrite Bool.negb_involutive, IH by (cbn in H; lia).
      destruct s; cbn [negb]; lia.
  Qed.

  Lemma sden_neg_inner r :
    Nat.odd (length r) = true ->
    sden w false (neg_inner r) = - sden w true r /\ length (neg_inner r) = length r.
  Proof.
    intros H. destruct r as [|b t]; [discriminate|]. cbn [length] in H. rewrite Nat.odd_succ in H.
    apply Nat.even_spec in H as [n Hn]. unfold neg_inner, rotate_left1.
    destruct (swap_pairs_even (fun _ _ : X => false) n t [b] Hn) as (A & B & _). rewrite A.
    cbn [swap_pairs]. split.
    - rewrite sden_app, B, Hn. replace (Nat.even (2 * n)) with true.
      2:{ symmetry. apply Nat.even_spec. now exists n. }
      rewrite (sden_swap_pairs n t false Hn). cbn [sden negb].
      pose proof (sden_neg t true) as N. cbn [negb] in N. lia.
    - rewrite app_length, B. cbn. lia.
  Qed.
End SDen.

Section Flatten.
  Context {X : Type} (w : X -> Z).
  Notation W := (fun m : list X => sden w true m).

  Lemma sden_flatten_rest k : forall l,
    length l = (2 * k)%nat -> Forall (fun m : list X => Nat.odd (length m) = true) l ->
    sden w false (flatten_rest l) = sden W false l
    /\ Nat.even (length (flatten_rest l)) = true.
  Proof.
    induction k as [|k IH]; intros l Hl Hall.
    - destruct l; [|discriminate]. cbn. auto.
    - destruct l as [|r [|a t]]; try (cbn in Hl; lia).
      assert (Ht : length t = (2 * k)%nat) by (cbn in Hl; lia).
      inversion Hall as [|? ? Hr Hall']; subst. inversion Hall' as [|? ? Ha Hall'']; subst.
      destruct (IH t Ht Hall'') as (E & P). destruct (sden_neg_inner w r Hr) as (C & D).
      cbn [flatten_rest sden negb]. split.
      + rewrite !sden_app, C, D, <- !Nat.negb_odd, Hr, Ha. cbn [negb].
        rewrite E. pose proof (sden_neg w a true) as N1. cbn [negb] in N1. lia.
      + rewrite !app_length, D, !Nat.even_add, P, <- !Nat.negb_odd, Hr, Ha. reflexivity.
  Qed.

  (** One [flatten]: the weight of the flattened conflict is the signed sum of the weights
      of the inner conflicts. *)
  Lemma sden_flatten (mm : list (list X)) :
    Nat.odd (length mm) = true -> Forall (fun m : list X => Nat.odd (length m) = true) mm ->
    sden w true (flatten mm) = sden W true mm /\ Nat.odd (length (flatten mm)) = true.
  Proof.
    intros H Hall. destruct mm as [|f t]; [discriminate|].
    cbn [length] in H. rewrite Nat.odd_succ in H. apply Nat.even_spec in H as [k Hk].
    inversion Hall as [|? ? Hf Hall']; subst.
    destruct (sden_flatten_rest k t Hk Hall') as (E & P).
    cbn [flatten sden negb]. split.
    - rewrite sden_app, <- Nat.negb_odd, Hf. cbn [negb].
      pose proof (sden_neg w (flatten_rest t) true) as N. cbn [negb] in N. lia.
    - rewrite app_length, Nat.odd_add, Hf, <- Nat.negb_even, P. reflexivity.
  Qed.

  Lemma in_flatten_rest (x : X) : forall k l,
    length l = (2 * k)%nat -> In x (flatten_rest l) -> exists m, In m l /\ In x m.
  Proof.
    induction k as [|k IH]; intros l Hl Hin.
    - destruct l; [destruct Hin|discriminate].
    - destruct l as [|r [|a t]]; try (cbn in Hl; lia).
      cbn [flatten_rest] in Hin. apply in_app_or in Hin as [Hin|Hin].
      + exists r. split; [now left|].
        assert (P : Permutation (neg_inner r) r).
        { unfold neg_inner. destruct r as [|b u]; [constructor|]. cbn [rotate_left1].
          apply Permutation_trans with (u ++ [b]); [|symmetry; apply Permutation_cons_append].
          clear. set (v := u ++ [b]). clearbody v.
          assert (G : forall n (l : list X), (length l <= n)%nat -> Permutation (swap_pairs l) l).
          { induction n as [|n IHn]; intros l H.
            - destruct l; [constructor|cbn in H; lia].
            - destruct l as [|p [|q l]]; cbn [swap_pairs]; try reflexivity.
              apply Permutation_trans with (q :: p :: l); [|apply perm_swap].
              do 2 constructor. apply IHn. cbn in H. lia. }
          exact (G _ v (le_n _)). }
        eapply Permutation_in; eauto.
      + apply in_app_or in Hin as [Hin|Hin].
        * exists a. split; [right; now left|exact Hin].
        * destruct (IH t) as (m & Hm & Hx); [cbn in Hl; lia|exact Hin|].
          exists m. split; [right; right; exact Hm|exact Hx].
  Qed.

  Lemma in_flatten (x : X) (mm : list (list X)) :
    Nat.odd (length mm) = true -> In x (flatten mm) -> exists m, In m mm /\ In x m.
  Proof.
    intros H Hin. destruct mm as [|f t]; [discriminate|].
    cbn [length] in H. rewrite Nat.odd_succ in H. apply Nat.even_spec in H as [k Hk].
    cbn [flatten] in Hin. apply in_app_or in Hin as [Hin|Hin].
    - exists f. split; [now left|exact Hin].
    - destruct (in_flatten_rest x k t Hk Hin) as (m & Hm & Hx). exists m. split; [now right|exact Hx].
  Qed.
End Flatten.

Section Deep.
  Context {T : Type} (eqb : T -> T -> bool).

  Lemma sden_ind_den (l : list T) v : forall s,
    sden (wdeep eqb 0 v) s l = den_s eqb s l v.
  Proof.
    induction l as [|x t IH]; intros s; [reflexivity|]. cbn [sden den_s wdeep].
    rewrite IH. destruct (eqb x v), s; lia.
  Qed.

  Lemma wdeep1 (m : list T) v : wdeep eqb 1 v m = den eqb m v.
  Proof. cbn [wdeep]. apply sden_ind_den. Qed.

  (** Flattening a conflict nested [n + 1] levels deep, all the way down. *)
  Theorem flat_deep_den : forall n (x : nested (S n) T) (v : T),
    wf_deep (S n) x -> den eqb (flat_deep n x) v = wdeep eqb (S n) v x.
  Proof.
    induction n as [|n IH]; intros x v Hwf.
    - cbn [flat_deep]. symmetry. apply wdeep1.
    - cbn [flat_deep]. destruct Hwf as [Hodd Hall].
      assert (Hinner : Forall (fun m : list (nested n T) => Nat.odd (length m) = true) x).
      { rewrite Forall_forall in Hall |- *. intros m Hm. exact (proj1 (Hall m Hm)). }
      destruct (sden_flatten (wdeep eqb n v) x Hodd Hinner) as [E P].
      rewrite IH.
      + cbn [wdeep] in E |- *. exact E.
      + split; [exact P|]. rewrite Forall_forall in Hall |- *. intros y Hy.
        destruct (in_flatten y x Hodd Hy) as (m & Hm & Hym).
        destruct (Hall m Hm) as [_ Hm']. rewrite Forall_forall in Hm'. now apply Hm'.
  Qed.
End Deep.
