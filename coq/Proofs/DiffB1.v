(** Layer B, part 1: [find_lcs] returns a chain that is strictly increasing in both
    coordinates and consists of pairs [(input[r], r)]; it is non-empty on non-empty input. *)
From Coq Require Import Lia Arith Sorted.
From Verif Require Import Base.Prelude Model.Diff Proofs.DiffBase Proofs.DiffA2.

Definition e_left (e : chain_entry) : nat := snd (fst e).
Definition e_prev (e : chain_entry) : option nat := snd e.

(** Entry [i] of the (forward) chain points to an earlier entry with a smaller left position. *)
Definition entry_ok (chain : list chain_entry) (i : nat) (e : chain_entry) : Prop :=
  match e_prev e with
  | None => True
  | Some j => j < i /\ exists e', nth_error chain j = Some e' /\ e_left e' < e_left e
  end.
Definition chain_ok (chain : list chain_entry) : Prop :=
  forall i e, nth_error chain i = Some e -> entry_ok chain i e.

Lemma entry_ok_app chain x i e : entry_ok chain i e -> entry_ok (chain ++ x) i e.
Proof.
  unfold entry_ok. destruct (e_prev e) as [j|]; [|auto]. intros (A & e' & B & C).
  split; [assumption|]. exists e'. split; [|assumption].
  rewrite nth_error_app1; [assumption|]. apply nth_error_Some. congruence.
Qed.

Lemma chain_ok_snoc chain e :
  chain_ok chain -> entry_ok chain (length chain) e -> chain_ok (chain ++ [e]).
Proof.
  intros Hc He i x Hx. destruct (Nat.lt_ge_cases i (length chain)) as [L|L].
  - rewrite nth_error_app1 in Hx by assumption. apply entry_ok_app. now apply Hc.
  - rewrite nth_error_app2 in Hx by assumption.
    destruct (i - length chain) as [|k] eqn:E; cbn in Hx; [|destruct k; discriminate].
    injection Hx as <-. replace i with (length chain) by lia. now apply entry_ok_app.
Qed.

(** The [prev] found by the inner loop. *)
Definition Pprev (full : list chain_entry) (lp : nat) (prev : option nat) : Prop :=
  match prev with
  | None => True
  | Some j => j < length full /\ exists e', nth_error (rev full) j = Some e' /\ e_left e' < lp
  end.

Lemma lcs_inner_prev lp rp : forall rc pre full lfh prev gl glr,
  full = pre ++ rc -> Pprev full lp prev ->
  let r := lcs_inner lp rp rc lfh prev gl glr in
  Pprev full lp (snd (fst (fst r))) /\ (snd r = glr \/ snd r = rp).
Proof.
  induction rc as [|[[plen pleft] pp] rc' IH]; intros pre full lfh prev gl glr Hf H;
    cbn [lcs_inner]; cbv zeta.
  - split; [assumption|now left].
  - assert (Here : Pprev full lp (Some (length rc')) \/ ~ pleft < lp).
    { destruct (Nat.lt_ge_cases pleft lp) as [L|L]; [left|right; lia]. subst full.
      split; [rewrite app_length; cbn; lia|]. exists (plen, pleft, pp). split; [|exact L].
      rewrite rev_app_distr. cbn [rev]. rewrite <- app_assoc.
      rewrite nth_error_app2 by (rewrite rev_length; lia). rewrite rev_length, Nat.sub_diag. reflexivity. }
    assert (Eq : full = (pre ++ [(plen, pleft, pp)]) ++ rc')
      by (subst full; now rewrite <- app_assoc).
    destruct (pleft <? lp) eqn:E1.
    + apply Nat.ltb_lt in E1. destruct Here as [Here|Here]; [|contradiction].
      destruct (lfh <? plen + 1) eqn:E2.
      * destruct (gl <? plen + 1) eqn:E3.
        -- split; [exact Here|now right].
        -- apply (IH (pre ++ [(plen, pleft, pp)])); assumption.
      * apply (IH (pre ++ [(plen, pleft, pp)])); assumption.
    + apply (IH (pre ++ [(plen, pleft, pp)])); assumption.
Qed.

(** Invariant of the outer loop on the reversed chain. *)
Definition lefts (chain : list chain_entry) : list nat := map e_left chain.

Lemma lcs_outer_spec : forall input rp rc gl glr,
  rp = length rc -> chain_ok (rev rc) -> glr <= length rc - 1 ->
  let '(rc', glr') := lcs_outer input rp rc gl glr in
  chain_ok (rev rc') /\ lefts (rev rc') = lefts (rev rc) ++ input
  /\ glr' <= length rc' - 1 /\ length rc' = length rc + length input.
Proof.
  induction input as [|lp t IH]; intros rp rc gl glr Hrp Hc Hg; cbn [lcs_outer].
  - rewrite app_nil_r. repeat split; auto; lia.
  - pose proof (lcs_inner_prev lp rp rc [] rc 1 None gl glr eq_refl I) as Hi.
    cbv zeta in Hi. destruct (lcs_inner lp rp rc 1 None gl glr) as [[[lfh prev] gl'] glr'].
    cbn [app fst snd] in Hi. destruct Hi as (Hp & Hgl).
    specialize (IH (S rp) ((lfh, lp, prev) :: rc) gl' glr').
    destruct (lcs_outer t (S rp) ((lfh, lp, prev) :: rc) gl' glr') as [rc' glr''].
    destruct IH as (A & B & C & D).
    + cbn [length]. lia.
    + cbn [rev]. apply chain_ok_snoc; [assumption|].
      unfold entry_ok, e_prev, e_left. cbn [fst snd]. destruct prev as [j|]; [|exact I].
      destruct Hp as (Hj & e' & He' & Hlt). rewrite rev_length. split; [assumption|]. eauto.
    + cbn [length]. destruct Hgl as [->| ->]; lia.
    + repeat split; auto.
      * rewrite B. cbn [rev]. unfold lefts. rewrite map_app. cbn [map]. now rewrite <- app_assoc.
      * cbn [length] in *. unfold chain_entry in *. lia.
Qed.

Lemma lcs_back_nonempty chain : forall fuel rp acc, acc <> [] -> lcs_back fuel chain rp acc <> [].
Proof.
  induction fuel as [|f IH]; intros rp acc H; cbn [lcs_back]; [assumption|].
  destruct (nth_error chain rp) as [[[len l] [p|]]|]; try assumption; [apply IH|]; discriminate.
Qed.

Lemma lcs_back_spec chain : chain_ok chain -> forall fuel rp acc,
  StronglySorted lt2 acc ->
  (forall e, nth_error chain rp = Some e -> Forall (fun q => e_left e < fst q /\ rp < snd q) acc) ->
  (forall q, In q acc -> exists e, nth_error chain (snd q) = Some e /\ e_left e = fst q) ->
  let res := lcs_back fuel chain rp acc in
  StronglySorted lt2 res
  /\ forall q, In q res -> exists e, nth_error chain (snd q) = Some e /\ e_left e = fst q.
Proof.
  intros Hc. induction fuel as [|f IH]; intros rp acc Hs Hb Hm; cbn [lcs_back]; [split; assumption|].
  destruct (nth_error chain rp) as [[[len l] prev]|] eqn:E; [|split; assumption].
  specialize (Hb _ eq_refl). unfold e_left in Hb. cbn [fst snd] in Hb.
  assert (Hs' : StronglySorted lt2 ((l, rp) :: acc)).
  { constructor; [assumption|]. eapply Forall_impl; [|exact Hb]. intros q (A & B). split; cbn; assumption. }
  assert (Hm' : forall q, In q ((l, rp) :: acc) ->
                          exists e, nth_error chain (snd q) = Some e /\ e_left e = fst q).
  { intros q [<-|Hq]; [|now apply Hm]. exists (len, l, prev). split; [exact E|reflexivity]. }
  destruct prev as [p|]; [|split; assumption].
  apply IH; auto.
  pose proof (Hc rp _ E) as He. unfold entry_ok, e_prev, e_left in He. cbn [fst snd] in He.
  destruct He as (Hp & e' & He' & Hlt). intros e Hep. rewrite He' in Hep. injection Hep as <-.
  constructor; [cbn [fst snd]; unfold e_left; split; assumption|].
  eapply Forall_impl; [|exact Hb]. intros q (A & B). unfold e_left. lia.
Qed.

Theorem find_lcs_spec input :
  StronglySorted lt2 (find_lcs input)
  /\ (forall q, In q (find_lcs input) -> nth_error input (snd q) = Some (fst q))
  /\ (input <> [] -> find_lcs input <> []).
Proof.
  unfold find_lcs. destruct input as [|x t]; [repeat split; [constructor|intros q []|congruence]|].
  set (input := x :: t).
  pose proof (lcs_outer_spec input 0 [] 0 0 eq_refl) as H.
  destruct (lcs_outer input 0 [] 0 0) as [rc glr]. destruct H as (Hc & Hl & Hg & Hn).
  - intros i e Hi. destruct i; discriminate.
  - cbn. lia.
  - cbn [rev lefts map app length] in *.
    assert (Hlen : length (rev rc) = length input) by (rewrite rev_length; lia).
    destruct (lcs_back_spec (rev rc) Hc (length (rev rc)) glr []) as (S1 & S2).
    + constructor.
    + intros e _. constructor.
    + intros q [].
    + split; [exact S1|]. split.
      * intros q Hq. destruct (S2 q Hq) as (e & He & Hle).
        assert (Q : nth_error (lefts (rev rc)) (snd q) = Some (e_left e))
          by (unfold lefts; now rewrite nth_error_map, He).
        rewrite Hl in Q. now rewrite <- Hle.
      * intros _. rewrite Hlen. unfold input in *. cbn [length lcs_back] in *.
        assert (Hg' : glr < length (rev rc)) by (rewrite rev_length; unfold chain_entry in *; lia).
        destruct (nth_error (rev rc) glr) as [[[len l] [p|]]|] eqn:E.
        -- apply lcs_back_nonempty. discriminate.
        -- discriminate.
        -- apply nth_error_None in E. lia.
Qed.
