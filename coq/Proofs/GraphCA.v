(** The executable graph specification of Index::common_ancestors used by the C08/C09
    correspondence runs ([graph_common_ancestors], Model/Rebase.v) satisfies the hypothesis
    [ca_below] of C08_merge_commits_terminates: when a set and a commit have several
    greatest common ancestors, all of them lie strictly below that commit. Needs only that
    parents have smaller positions than their children. *)
From Verif Require Import Base.Prelude Model.Merge Proofs.MergeDen.
From Verif Require Import Model.TreeMerge Model.Rebase Proofs.C08.
From Coq Require Import Lia Arith.

Lemma wf_parentsb_sound (parents : list (list nat)) :
  wf_parentsb parents = true -> forall i p, In p (nth i parents []) -> (p < i)%nat.
Proof.
  unfold wf_parentsb. rewrite forallb_forall. intros H i p Hp.
  destruct (Nat.lt_ge_cases i (length parents)) as [Hi|Hi].
  - specialize (H i). rewrite in_seq in H. specialize (H ltac:(lia)). rewrite forallb_forall in H.
    apply Nat.ltb_lt. now apply H.
  - rewrite nth_overflow in Hp by assumption. contradiction.
Qed.

Section GraphCA.
  Context (parents : list (list nat)).
  Notation n := (length parents).
  Definition wf_parents : Prop := forall i p, In p (nth i parents []) -> (p < i)%nat.
  Hypothesis Hwf : wf_parents.

  (** reachability along parent edges *)
  Inductive reach : nat -> nat -> Prop :=
  | reach_refl i : reach i i
  | reach_step i p a : In p (nth i parents []) -> reach p a -> reach i a.

  Lemma reach_le i a : reach i a -> (a <= i)%nat.
  Proof. induction 1 as [|i p a Hp _ IH]; [lia|]. apply Hwf in Hp. lia. Qed.

  Lemma reach_strict i a : reach i a -> a <> i -> exists p, In p (nth i parents []) /\ reach p a.
  Proof. destruct 1 as [|i p a Hp Hr]; [congruence|eauto]. Qed.

  (** * marking *)
  Lemma nth_set_nth_true (l : list bool) i j :
    nth j (set_nth i true l) false = nth j l false || (Nat.eqb j i && Nat.ltb j (length l)).
  Proof.
    revert i j. induction l as [|h t IH]; intros [|i] [|j]; cbn [set_nth nth length]; try reflexivity.
    - now rewrite Bool.andb_false_r.
    - cbn. now rewrite Bool.orb_true_r.
    - cbn. now rewrite Bool.orb_false_r.
    - cbn. now rewrite Bool.orb_false_r.
    - rewrite IH. reflexivity.
  Qed.

  Definition mark_all (ps : list nat) (acc : list bool) : list bool :=
    fold_left (fun a p => set_nth p true a) ps acc.

  Lemma length_mark_all ps : forall acc, length (mark_all ps acc) = length acc.
  Proof.
    induction ps as [|p t IH]; intros acc; [reflexivity|]. cbn [mark_all fold_left].
    fold (mark_all t (set_nth p true acc)). now rewrite IH, length_set_nth.
  Qed.

  Lemma nth_mark_all ps : forall acc j,
    nth j (mark_all ps acc) false = nth j acc false || (existsb (Nat.eqb j) ps && Nat.ltb j (length acc)).
  Proof.
    induction ps as [|p t IH]; intros acc j; cbn [mark_all fold_left existsb].
    - now rewrite Bool.orb_false_r.
    - fold (mark_all t (set_nth p true acc)). rewrite IH, nth_set_nth_true, length_set_nth.
      destruct (nth j acc false), (Nat.eqb j p), (existsb (Nat.eqb j) t), (Nat.ltb j (length acc)); reflexivity.
  Qed.

  Lemma existsb_eqb_in j ps : existsb (Nat.eqb j) ps = true <-> In j ps.
  Proof.
    rewrite existsb_exists. split.
    - intros (x & Hx & E). apply Nat.eqb_eq in E. now subst.
    - intros H. exists j. split; [assumption|apply Nat.eqb_refl].
  Qed.

  Lemma mark_is_mark_all s k : mark s k = mark_all s (repeat false k).
  Proof. reflexivity. Qed.

  Lemma nth_repeat_false k j : nth j (repeat false k) false = false.
  Proof. revert j. induction k as [|k IH]; intros [|j]; cbn; auto. Qed.

  Lemma nth_mark s k j : nth j (mark s k) false = true <-> In j s /\ (j < k)%nat.
  Proof.
    rewrite mark_is_mark_all, nth_mark_all, nth_repeat_false, repeat_length. cbn [orb].
    rewrite Bool.andb_true_iff, existsb_eqb_in, Nat.ltb_lt. tauto.
  Qed.

  (** * the downward closure *)
  Definition cd_step (acc : list bool) (i : nat) : list bool :=
    if nth i acc false then mark_all (nth i parents []) acc else acc.
  Definition cd (k : nat) (acc : list bool) : list bool := fold_left cd_step (rev (seq 0 k)) acc.

  Lemma cd_S k acc : cd (S k) acc = cd k (cd_step acc k).
  Proof.
    unfold cd. rewrite seq_S, rev_app_distr. reflexivity.
  Qed.

  Lemma length_cd_step acc i : length (cd_step acc i) = length acc.
  Proof. unfold cd_step. destruct (nth i acc false); [apply length_mark_all|reflexivity]. Qed.

  Lemma nth_cd_step acc i j : (i < length acc)%nat ->
    nth j (cd_step acc i) false = true <->
    nth j acc false = true \/ (nth i acc false = true /\ In j (nth i parents [])).
  Proof.
    intros Hi. unfold cd_step. destruct (nth i acc false) eqn:E.
    - rewrite nth_mark_all, Bool.orb_true_iff, Bool.andb_true_iff, existsb_eqb_in, Nat.ltb_lt. split.
      + intros [H|[H _]]; auto.
      + intros [H|[_ H]]; auto. right. split; [assumption|]. apply Hwf in H. lia.
    - split; [auto|]. intros [H|[H _]]; [assumption|discriminate].
  Qed.

  (** Closed under parents at all positions [>= k]; processing positions below [k] then
      yields the closure, sound and complete for reachability from the marked positions. *)
  Lemma cd_spec : forall k acc, length acc = n -> (k <= n)%nat ->
    (forall i p, (k <= i)%nat -> nth i acc false = true -> In p (nth i parents []) -> nth p acc false = true) ->
    let r := cd k acc in
    length r = n
    /\ (forall a, nth a acc false = true -> nth a r false = true)
    /\ (forall i p, nth i r false = true -> In p (nth i parents []) -> nth p r false = true)
    /\ (forall a, nth a r false = true -> exists i, nth i acc false = true /\ reach i a).
  Proof.
    induction k as [|k IH]; intros acc Hlen Hk Hcl; cbn zeta.
    - unfold cd. cbn [seq rev fold_left]. repeat split; auto.
      + intros i p Hi Hp. apply (Hcl i p); auto. lia.
      + intros a Ha. exists a. split; [assumption|constructor].
    - rewrite cd_S.
      assert (Hk' : (k < length acc)%nat) by lia.
      destruct (IH (cd_step acc k)) as (L & A & C & S).
      + now rewrite length_cd_step.
      + lia.
      + intros i p Hi Hm Hp. apply nth_cd_step; [assumption|]. apply nth_cd_step in Hm; [|assumption].
        destruct Hm as [Hm|[Hm Hin]].
        * destruct (Nat.eq_dec i k) as [->|Hne]; [right; auto|]. left. apply (Hcl i p); auto. lia.
        * apply Hwf in Hin. lia.
      + repeat split; auto.
        * intros a Ha. apply A. apply nth_cd_step; auto.
        * intros a Ha. destruct (S a Ha) as (i & Hi & Hr). apply nth_cd_step in Hi; [|assumption].
          destruct Hi as [Hi|[Hi Hin]]; [eauto|]. exists k. split; [assumption|]. econstructor; eauto.
  Qed.

  Lemma close_down_is_cd m : close_down parents m = cd (length m) m.
  Proof. reflexivity. Qed.

  (** [ancestors s]: exactly the positions reachable from a member of [s] (within range). *)
  Theorem ancestors_spec s a :
    nth a (ancestors parents s) false = true <-> exists i, In i s /\ (i < n)%nat /\ reach i a.
  Proof.
    unfold ancestors. rewrite close_down_is_cd.
    assert (Lm : length (mark s n) = n) by (rewrite mark_is_mark_all, length_mark_all; apply repeat_length).
    rewrite Lm.
    destruct (cd_spec n (mark s n) Lm (le_n _)) as (L & A & C & S).
    { intros i p Hi Hm. apply nth_mark in Hm. lia. }
    split.
    - intros H. destruct (S a H) as (i & Hi & Hr). apply nth_mark in Hi. exists i. tauto.
    - intros (i & Hi & Hn & Hr).
      assert (Hm : nth i (cd n (mark s n)) false = true) by (apply A, nth_mark; auto).
      clear Hi Hn. induction Hr as [|i p a Hp _ IH]; [assumption|]. apply IH. eapply C; eauto.
  Qed.

  Lemma length_ancestors s : length (ancestors parents s) = n.
  Proof.
    unfold ancestors. rewrite close_down_is_cd.
    assert (Lm : length (mark s n) = n) by (rewrite mark_is_mark_all, length_mark_all; apply repeat_length).
    rewrite Lm. now destruct (cd_spec n (mark s n) Lm (le_n _)) as (L & _);
      [intros i p Hi Hm; apply nth_mark in Hm; lia|].
  Qed.

  (** * members, heads *)
  Lemma in_members m i : In i (members m) <-> (i < length m)%nat /\ nth i m false = true.
  Proof.
    unfold members. rewrite filter_In, <- in_rev, in_seq. split; [intros [H1 H2]|intros [H1 H2]]; split; auto; lia.
  Qed.

  Lemma nodup_members m : NoDup (members m).
  Proof. unfold members. apply NoDup_filter, NoDup_rev, seq_NoDup. Qed.

  Lemma in_heads_of s a :
    In a (heads_of parents s) <->
    In a s /\ (a < n)%nat /\ nth a (strict_ancestors parents s) false = false.
  Proof.
    unfold heads_of. rewrite filter_In, in_members, Bool.negb_true_iff.
    assert (Lm : length (mark s n) = n) by (rewrite mark_is_mark_all, length_mark_all; apply repeat_length).
    rewrite Lm, nth_mark. tauto.
  Qed.

  Lemma strict_ancestors_spec s a :
    nth a (strict_ancestors parents s) false = true <->
    exists d p, In d s /\ In p (nth d parents []) /\ (p < n)%nat /\ reach p a.
  Proof.
    unfold strict_ancestors. rewrite ancestors_spec. split.
    - intros (i & Hi & Hn & Hr). apply in_flat_map in Hi as (d & Hd & Hp). eauto 6.
    - intros (d & p & Hd & Hp & Hn & Hr). exists p. repeat split; auto. apply in_flat_map. eauto.
  Qed.

  Lemma two_distinct (l : list nat) c : NoDup l -> (2 <= length l)%nat -> exists b, In b l /\ b <> c.
  Proof.
    intros ND Hl. destruct l as [|x [|y t]]; cbn [length] in Hl; try lia.
    destruct (Nat.eq_dec x c) as [->|Hx]; [|exists x; split; [now left|assumption]].
    exists y. split; [right; now left|]. inversion ND as [|? ? Hn _]; subst. intros ->. apply Hn. now left.
  Qed.

  Theorem graph_ca_below : ca_below (graph_common_ancestors parents).
  Proof.
    intros seen c Hlen a Ha. unfold graph_common_ancestors in *.
    set (common := filter (fun i => nth i (ancestors parents [c]) false)
                          (members (ancestors parents seen))) in *.
    assert (Hcommon : forall d, In d common -> (d < n)%nat /\ reach c d /\ (c < n)%nat).
    { intros d Hd. apply filter_In in Hd as [Hm Hc]. apply in_members in Hm as [Hdn _].
      rewrite length_ancestors in Hdn. apply ancestors_spec in Hc as (i & [<-|[]] & Hin & Hr). auto. }
    assert (ND : NoDup (heads_of parents common)).
    { unfold heads_of. apply NoDup_filter, nodup_members. }
    apply in_heads_of in Ha as (Hac & Han & _).
    destruct (Hcommon a Hac) as (_ & Hra & Hcn). apply reach_le in Hra.
    destruct (Nat.eq_dec a c) as [->|Hne]; [exfalso|lia].
    destruct (two_distinct _ c ND Hlen) as (b & Hb & Hbc).
    apply in_heads_of in Hb as (Hbcmn & Hbn & Hbs).
    destruct (Hcommon b Hbcmn) as (_ & Hrb & _).
    destruct (reach_strict c b Hrb Hbc) as (p & Hp & Hrp).
    assert (nth b (strict_ancestors parents common) false = true); [|congruence].
    apply strict_ancestors_spec. exists c, p. repeat split; auto. apply Hwf in Hp. lia.
  Qed.
End GraphCA.

(** A case whose table passes the executable domain check lies in the domain of
    graph_ca_below / C08_merge_commits_terminates_graph. *)
Theorem graph_ca_below_checked (parents : list (list nat)) :
  wf_parentsb parents = true -> ca_below (graph_common_ancestors parents).
Proof. intros H. apply graph_ca_below. exact (wf_parentsb_sound parents H). Qed.
