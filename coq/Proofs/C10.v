(** C10: the invariant of committed views, the checker's meaning, and its preservation by
    the view mutations of Model/RepoV.v. *)
From Verif Require Import Base.Prelude Base.DagV Model.Merge Model.RepoV Model.C10.
From Coq Require Import Lia Arith.

(** * The invariant *)
Definition Norm (g : dag) (hs : list nat) : Prop :=
  hs <> [] /\ antichain g hs /\ (In 0 hs -> hs = [0]).
Definition RefsCov (g : dag) (v : view) : Prop :=
  (forall name t c, In (name, t) (v_bms v) -> In c (added_ids t) -> covered g (v_heads v) c) /\
  (forall ws c, In (ws, c) (v_wcs v) -> covered g (v_heads v) c).
Definition Inv (g : dag) (v : view) : Prop := Norm g (v_heads v) /\ RefsCov g v.

(** * The checker means the invariant *)
Lemma list_nat_eqb_eq l1 : forall l2, list_nat_eqb l1 l2 = true <-> l1 = l2.
Proof.
  unfold list_nat_eqb. induction l1 as [|x t IH]; intros [|y u]; cbn [list_eqb]; try (split; congruence).
  rewrite andb_true_iff, Nat.eqb_eq, IH. split; [intros [-> ->]; reflexivity|intros E; injection E; auto].
Qed.

Lemma inv_b_spec g v : wf_dag g -> (inv_b g v = true <-> Inv g v).
Proof.
  intros W. unfold inv_b, Inv, Norm, RefsCov.
  rewrite !andb_true_iff, negb_true_iff, orb_true_iff, negb_true_iff, !forallb_forall.
  split.
  - intros [[[[H1 H2] H3] H4] H5]. repeat split.
    + intros E. rewrite E in H1. discriminate.
    + intros x y Hx Hy Ha. specialize (H2 x Hx). rewrite forallb_forall in H2.
      specialize (H2 y Hy). apply orb_true_iff in H2. destruct H2 as [H2|H2].
      * now apply Nat.eqb_eq.
      * apply negb_true_iff in H2. apply (ancb_spec g x y W) in Ha. congruence.
    + intros H0. destruct H3 as [H3|H3].
      * apply memn_false in H3. contradiction.
      * now apply list_nat_eqb_eq.
    + intros name t c Hb Hc. specialize (H4 _ Hb). cbn [snd] in H4.
      rewrite forallb_forall in H4. specialize (H4 c Hc).
      apply memn_In in H4. now apply covered_ancs.
    + intros ws c Hw. specialize (H5 _ Hw). cbn [snd] in H5.
      apply memn_In in H5. now apply covered_ancs.
  - intros [[H1 [H2 H3]] [H4 H5]]. repeat split.
    + destruct (v_heads v); [congruence|reflexivity].
    + intros x Hx. apply forallb_forall. intros y Hy. apply orb_true_iff.
      destruct (ancb g x y) eqn:E; [left|right; reflexivity].
      apply Nat.eqb_eq. apply H2; [assumption|assumption|now apply ancb_spec].
    + destruct (memn 0 (v_heads v)) eqn:E; [right|left; reflexivity].
      apply list_nat_eqb_eq. apply H3. now apply memn_In.
    + intros [name t] Hb. cbn [snd]. apply forallb_forall. intros c Hc.
      apply memn_In. apply covered_ancs; [assumption|]. eapply H4; eassumption.
    + intros [ws c] Hw. cbn [snd]. apply memn_In. apply covered_ancs; [assumption|].
      eapply H5; eassumption.
Qed.

Theorem okb_spec c :
  okb c = true <->
  wf_dag (pg (k_graph c)) /\ forall v, In v (k_views c) -> Inv (pg (k_graph c)) v.
Proof.
  unfold okb. rewrite andb_true_iff, forallb_forall. split.
  - intros [W H]. apply wf_dagb_spec in W. split; [assumption|].
    intros v Hv. apply inv_b_spec; auto.
  - intros [W H]. split; [now apply wf_dagb_complete|].
    intros v Hv. apply inv_b_spec; auto.
Qed.

(** * Association lists *)
Section AssocFacts.
  Context {K V : Type} (keqb kltb : K -> K -> bool).
  Hypothesis keqb_spec : forall a b, keqb a b = true <-> a = b.

  Lemma aset_In (k : K) (v : V) (l : list (K * V)) p : In p (aset keqb kltb k v l) -> p = (k, v) \/ In p l.
  Proof.
    induction l as [|[k' v'] t IH]; cbn [aset]; intros H.
    - destruct H as [<-|[]]. now left.
    - destruct (keqb k k').
      + destruct H as [<-|H]; [now left|right; now right].
      + destruct (kltb k k').
        * destruct H as [<-|H]; [now left|now right].
        * destruct H as [<-|H]; [right; now left|].
          apply IH in H. destruct H; [now left|right; now right].
  Qed.

  Lemma aset_In_new (k : K) (v : V) (l : list (K * V)) : In (k, v) (aset keqb kltb k v l).
  Proof.
    induction l as [|[k' v'] t IH]; cbn [aset]; [now left|].
    destruct (keqb k k'); [now left|]. destruct (kltb k k'); [now left|now right].
  Qed.

  Lemma adel_In (k : K) (l : list (K * V)) p : In p (adel keqb k l) -> In p l.
  Proof.
    induction l as [|[k' v'] t IH]; cbn [adel]; intros H; [assumption|].
    destruct (keqb k k'); [right; auto|].
    destruct H as [<-|H]; [now left|right; auto].
  Qed.

  Lemma aget_In (k : K) (l : list (K * V)) (v : V) : aget keqb k l = Some v -> In (k, v) l.
  Proof.
    induction l as [|[k' v'] t IH]; cbn [aget]; intros H; [discriminate|].
    destruct (keqb k k') eqn:E.
    - apply keqb_spec in E. subst. injection H as ->. now left.
    - right. auto.
  Qed.
End AssocFacts.

Lemma Neqb_spec a b : N.eqb a b = true <-> a = b.
Proof. apply N.eqb_eq. Qed.
Lemma Nateqb_spec a b : Nat.eqb a b = true <-> a = b.
Proof. apply Nat.eqb_eq. Qed.

(** * Graph facts *)
Lemma pg_length G : length (pg G) = length G.
Proof. apply map_length. Qed.
Lemma pg_app G c : pg (G ++ [c]) = pg G ++ [c_parents c].
Proof. unfold pg. now rewrite map_app. Qed.
Lemma parents_pg G i : parents (pg G) i = c_parents (getc G i).
Proof.
  unfold parents, pg, getc.
  change [] with (c_parents root_commit). apply map_nth.
Qed.

(** Every commit descends from the root when every non-root commit has a parent. *)
Definition has_parents (g : dag) : Prop := forall i, 0 < i < length g -> parents g i <> [].

Lemma root_anc g : wf_dag g -> has_parents g -> forall i, i < length g -> anc g 0 i.
Proof.
  intros W P i. induction i as [i IH] using lt_wf_ind. intros L.
  destruct i as [|i]; [constructor|].
  destruct (parents g (S i)) as [|p ps] eqn:E.
  - exfalso. apply (P (S i)); [lia|assumption].
  - assert (Hp : In p (parents g (S i))) by (rewrite E; now left).
    pose proof (W _ _ Hp).
    eapply anc_step; [eassumption|]. apply IH; lia.
Qed.

Lemma covered_snoc g ps H x : wf_dag (g ++ [ps]) ->
  (forall h, In h H -> h < length g) -> covered g H x -> covered (g ++ [ps]) H x.
Proof.
  intros W R [h [Hh Ha]]. exists h. split; [assumption|].
  apply anc_snoc_old; auto.
Qed.

Lemma antichain_snoc g ps H : wf_dag (g ++ [ps]) ->
  (forall h, In h H -> h < length g) -> antichain g H -> antichain (g ++ [ps]) H.
Proof.
  intros W R A x y Hx Hy Ha. apply A; [assumption|assumption|].
  apply (anc_snoc_old g ps x y W); auto.
Qed.

(** * Sets of heads as sorted lists *)
Lemma remn_sorted x l : sorted l -> sorted (remn x l).
Proof.
  induction l as [|y t IH]; intros S; cbn [remn]; [exact I|].
  destruct S as [S1 S2]. destruct (x =? y); [now apply IH|].
  split; [|now apply IH]. intros z Hz. apply remn_In in Hz. now apply S1.
Qed.

Lemma fold_remn_In rm : forall hs x,
  In x (fold_left (fun hs p => remn p hs) rm hs) <-> In x hs /\ ~ In x rm.
Proof.
  induction rm as [|p t IH]; intros hs x; cbn [fold_left].
  - cbn. intuition.
  - rewrite IH, remn_In. cbn [In]. intuition.
Qed.

Lemma fold_remn_sorted rm : forall hs, sorted hs -> sorted (fold_left (fun hs p => remn p hs) rm hs).
Proof.
  induction rm as [|p t IH]; intros hs S; cbn [fold_left]; [assumption|].
  apply IH. now apply remn_sorted.
Qed.

Lemma fold_ins_In add : forall hs x,
  In x (fold_left (fun hs p => ins p hs) add hs) <-> In x hs \/ In x add.
Proof.
  induction add as [|p t IH]; intros hs x; cbn [fold_left].
  - cbn. intuition.
  - rewrite IH, ins_In. cbn [In]. intuition.
Qed.

Lemma fold_ins_sorted add : forall hs, sorted hs -> sorted (fold_left (fun hs p => ins p hs) add hs).
Proof.
  induction add as [|p t IH]; intros hs S; cbn [fold_left]; [assumption|].
  apply IH. now apply ins_sorted.
Qed.

Lemma sorted_single_root hs : sorted hs -> (forall x, In x hs -> x = 0) -> hs <> [] -> hs = [0].
Proof.
  intros S H N. destruct hs as [|a t]; [congruence|].
  assert (a = 0) by (apply H; now left). subst a.
  destruct t as [|b u]; [reflexivity|].
  exfalso. destruct S as [S1 _]. assert (b = 0) by (apply H; right; now left).
  specialize (S1 b (or_introl eq_refl)). lia.
Qed.

(** * State invariant *)
Record J (s : state) : Prop := mkJ {
  j_wf : wf_dag (pg (s_g s));
  j_np : has_parents (pg (s_g s));
  j_ne : 0 < length (s_g s);
  j_sorted : sorted (v_heads (s_v s));
  j_heads : forall h, In h (v_heads (s_v s)) -> h < length (s_g s);
  j_bms : forall name t c, In (name, t) (v_bms (s_v s)) -> In c (added_ids t) ->
            c < length (s_g s) /\ covered (pg (s_g s)) (v_heads (s_v s)) c;
  j_wcs : forall ws c, In (ws, c) (v_wcs (s_v s)) ->
            c < length (s_g s) /\ covered (pg (s_g s)) (v_heads (s_v s)) c;
  j_pm : forall k r, In (k, r) (s_pm s) ->
            k < length (s_g s) /\ forall t, In t (new_parent_ids r) -> t < length (s_g s);
  j_norm : v_norm (s_v s) = true -> Norm (pg (s_g s)) (v_heads (s_v s));
  j_pm_sorted : sorted (pm_keys (s_pm s));
}.

Lemma aset_keys {V} k (v : V) l k' :
  In k' (map fst (aset Nat.eqb Nat.ltb k v l)) <-> k' = k \/ In k' (map fst l).
Proof.
  induction l as [|[k2 v2] t IH]; cbn [aset map fst In]; [intuition|].
  destruct (k =? k2) eqn:E.
  - apply Nat.eqb_eq in E. subst. cbn [map fst In]. intuition.
  - destruct (k <? k2); cbn [map fst In]; [intuition|]. rewrite IH. intuition.
Qed.

Lemma aset_sorted {V} k (v : V) l : sorted (map fst l) -> sorted (map fst (aset Nat.eqb Nat.ltb k v l)).
Proof.
  induction l as [|[k2 v2] t IH]; cbn [aset map fst]; intros S; [split; [intros y []|exact I]|].
  destruct S as [S1 S2].
  destruct (k =? k2) eqn:E.
  - apply Nat.eqb_eq in E. subst. cbn [map fst]. split; assumption.
  - apply Nat.eqb_neq in E. destruct (k <? k2) eqn:L; cbn [map fst].
    + apply Nat.ltb_lt in L. split; [|split; assumption].
      intros y [<-|Hy]; [assumption|]. specialize (S1 y Hy). lia.
    + apply Nat.ltb_ge in L. split; [|now apply IH].
      intros y Hy. apply aset_keys in Hy. destruct Hy as [->|Hy]; [lia|now apply S1].
Qed.

Lemma sorted_keys_unique {V} (l : list (nat * V)) k r r' :
  sorted (map fst l) -> In (k, r) l -> In (k, r') l -> r = r'.
Proof.
  induction l as [|[k2 v2] t IH]; cbn [map fst]; intros S H1 H2; [contradiction|].
  destruct S as [S1 S2].
  assert (F : forall v, In (k2, v) t -> False).
  { intros v Hv. assert (In k2 (map fst t)) by (apply in_map_iff; exists (k2, v); auto).
    specialize (S1 k2 H). lia. }
  destruct H1 as [H1|H1]; destruct H2 as [H2|H2].
  - congruence.
  - injection H1 as -> ->. exfalso. eauto.
  - injection H2 as -> ->. exfalso. eauto.
  - auto.
Qed.

Lemma J_init : J init_state.
Proof.
  constructor; cbn.
  - intros i p Hp. destruct i as [|[|i]]; cbn in Hp; contradiction.
  - intros i [H1 H2]. cbn in H2. lia.
  - lia.
  - split; [intros y []|exact I].
  - intros h [<-|[]]. lia.
  - intros ? ? ? [].
  - intros ? ? [].
  - intros ? ? [].
  - intros _. split; [discriminate|]. split.
    + intros x y [<-|[]] [<-|[]] _. reflexivity.
    + reflexivity.
  - exact I.
Qed.

(** Changing only the head set, to a superset-covering sorted set. *)
Lemma J_set_heads s hs norm :
  J s -> sorted hs -> (forall h, In h hs -> h < length (s_g s)) ->
  (forall x, covered (pg (s_g s)) (v_heads (s_v s)) x -> covered (pg (s_g s)) hs x) ->
  (norm = true -> Norm (pg (s_g s)) hs) ->
  J (set_view s (set_heads (s_v s) hs norm)).
Proof.
  intros Js S R C N. destruct Js. constructor; cbn; auto.
  - intros name t c Hb Hc. destruct (j_bms0 _ _ _ Hb Hc). auto.
  - intros ws c Hw. destruct (j_wcs0 _ _ Hw). auto.
Qed.

(** ** normalize *)
Lemma Norm_single g h : Norm g [h].
Proof.
  split; [discriminate|]. split.
  - intros x y [<-|[]] [<-|[]] _. reflexivity.
  - intros [<-|[]]. reflexivity.
Qed.

Definition norm_heads (g : dag) (hs : list nat) : list nat :=
  match hs with [] => [0] | [h] => [h] | h :: n :: l => heads_of g (remn 0 (h :: n :: l)) end.
Lemma normalize_view_eq g v :
  normalize_view g v = if v_norm v then v else set_heads v (norm_heads g (v_heads v)) true.
Proof. reflexivity. Qed.

Lemma normalize_heads_facts g hs : wf_dag g -> has_parents g -> sorted hs ->
  (forall h, In h hs -> h < length g) -> 0 < length g ->
  let hs' := norm_heads g hs in
  sorted hs' /\ (forall h, In h hs' -> h < length g) /\
  (forall x, covered g hs x -> covered g hs' x) /\ Norm g hs'.
Proof.
  intros W P S R L.
  destruct hs as [|a [|b t]]; cbn zeta; unfold norm_heads.
  - repeat split.
    + intros y [].
    + intros h [<-|[]]. assumption.
    + intros x [h [[] _]].
    + discriminate.
    + intros x y [<-|[]] [<-|[]] _. reflexivity.
  - split; [assumption|]. split; [assumption|]. split; [auto|apply Norm_single].
  - set (hs := a :: b :: t) in *.
    assert (Hb : In b (remn 0 hs)).
    { apply remn_In. split; [|right; now left].
      destruct S as [S1 _]. specialize (S1 b (or_introl eq_refl)). lia. }
    split; [apply norm_set_sorted|]. split.
    { intros h Hh. apply heads_of_spec in Hh; [|assumption]. destruct Hh as [Hh _].
      apply remn_In in Hh. apply R. apply Hh. }
    split.
    { intros x Hc. apply covered_heads_of; [assumption|].
      destruct Hc as [h [Hh Ha]]. destruct (Nat.eq_dec h 0) as [->|N].
      - exists b. split; [assumption|].
        assert (x = 0) by (pose proof (anc_le g x 0 W Ha); lia). subst x.
        apply root_anc; auto. apply R. right. now left.
      - exists h. split; [|assumption]. apply remn_In. split; assumption. }
    split.
    { destruct (heads_of_cover g (remn 0 hs) b W Hb) as [h [Hh _]].
      intros E. rewrite E in Hh. contradiction. }
    split; [now apply heads_of_antichain|].
    intros H0. apply heads_of_spec in H0; [|assumption]. destruct H0 as [H0 _].
    apply remn_In in H0. destruct H0 as [H0 _]. congruence.
Qed.

Lemma J_normalize s : J s -> J (normalize s) /\ v_norm (s_v (normalize s)) = true.
Proof.
  intros Js. unfold normalize. rewrite normalize_view_eq.
  destruct (v_norm (s_v s)) eqn:E.
  - split; [|assumption]. destruct s as [G v pm]. cbn in *. destruct Js. constructor; auto.
  - pose proof (normalize_heads_facts (pg (s_g s)) (v_heads (s_v s)) (j_wf s Js) (j_np s Js)
                  (j_sorted s Js)) as F.
    rewrite pg_length in F. specialize (F (j_heads s Js) (j_ne s Js)).
    cbn zeta in F. destruct F as [F1 [F2 [F3 F4]]].
    split; [|reflexivity].
    apply J_set_heads; auto.
Qed.

Lemma normalize_fields s :
  s_g (normalize s) = s_g s /\ s_pm (normalize s) = s_pm s /\
  v_bms (s_v (normalize s)) = v_bms (s_v s) /\ v_wcs (s_v (normalize s)) = v_wcs (s_v s).
Proof.
  unfold normalize, normalize_view. destruct (v_norm (s_v s)); cbn; auto.
Qed.

(** ** add_heads *)
Lemma J_view_add_head s h : J s -> h < length (s_g s) -> J (set_view s (view_add_head (s_v s) h)).
Proof.
  intros Js L. unfold view_add_head. apply J_set_heads; auto.
  - apply ins_sorted. apply (j_sorted s Js).
  - intros x Hx. apply ins_In in Hx. destruct Hx as [->|Hx]; [assumption|now apply (j_heads s Js)].
  - intros x. apply covered_mono. intros y Hy. apply ins_In. now right.
  - discriminate.
Qed.

Lemma view_add_head_fields v h :
  v_bms (view_add_head v h) = v_bms v /\ v_wcs (view_add_head v h) = v_wcs v /\
  (forall x, In x (v_heads (view_add_head v h)) <-> x = h \/ In x (v_heads v)).
Proof. unfold view_add_head. cbn. repeat split; intros; apply ins_In; assumption. Qed.

Lemma J_fold_add_head hs : forall s, J s -> (forall h, In h hs -> h < length (s_g s)) ->
  J (set_view s (fold_left view_add_head hs (s_v s))).
Proof.
  induction hs as [|h t IH]; intros s Js R; cbn [fold_left].
  - destruct s. exact Js.
  - specialize (IH (set_view s (view_add_head (s_v s) h))). cbn in IH. apply IH.
    + apply J_view_add_head; [assumption|]. apply R. now left.
    + intros x Hx. apply R. now right.
Qed.

Lemma fold_add_head_fields hs : forall v,
  v_bms (fold_left view_add_head hs v) = v_bms v /\ v_wcs (fold_left view_add_head hs v) = v_wcs v /\
  (forall x, In x (v_heads (fold_left view_add_head hs v)) <-> In x hs \/ In x (v_heads v)).
Proof.
  induction hs as [|h t IH]; intros v; cbn [fold_left].
  - repeat split; auto. cbn. intuition.
  - destruct (IH (view_add_head v h)) as [A [B C]].
    destruct (view_add_head_fields v h) as [A' [B' C']].
    rewrite A, B, A', B'. split; [reflexivity|]. split; [reflexivity|].
    intros x. rewrite C, C'. cbn [In]. intuition.
Qed.

(** The incremental update: when every parent of [h] is a head, inserting [h] and removing its
    parents keeps a normalized head set normalized (MutableRepo::add_heads fast path). *)
Lemma replace_heads_norm g hs h :
  wf_dag g -> parents g h <> [] ->
  (forall p, In p (parents g h) -> In p hs) -> sorted hs -> Norm g hs ->
  let hs' := fold_left (fun hs p => remn p hs) (parents g h) (ins h hs) in
  Norm g hs' /\ forall x, covered g hs x -> covered g hs' x.
Proof.
  intros W NP A S [N1 [N2 N3]] hs'.
  assert (Hh : In h hs').
  { apply fold_remn_In. split; [apply ins_In; now left|].
    intros Hp. apply W in Hp. lia. }
  assert (Hin : forall x, In x hs' <-> (x = h \/ In x hs) /\ ~ In x (parents g h)).
  { intros x. unfold hs'. rewrite fold_remn_In, ins_In. reflexivity. }
  split; [split; [|split]|].
  - intros E. rewrite E in Hh. contradiction.
  - intros x y Hx Hy Ha. apply Hin in Hx. apply Hin in Hy.
    destruct Hx as [[->|Hx] Hx']; destruct Hy as [[->|Hy] Hy']; try reflexivity.
    + (* h below an old head y *)
      destruct (parents g h) as [|p ps] eqn:E; [congruence|].
      assert (Hp : In p (parents g h)) by (rewrite E; now left).
      rewrite <- E in *.
      assert (p = y).
      { apply N2; [now apply A|assumption|].
        apply (anc_trans g p h y); [now apply anc_parent|assumption]. }
      subst y. contradiction.
    + (* an old head x below h *)
      apply anc_inv in Ha. destruct Ha as [->|[p [Hp Ha]]]; [reflexivity|].
      assert (x = p) by (apply N2; auto). subst x. contradiction.
    + apply N2; assumption.
  - intros H0. apply Hin in H0. destruct H0 as [[H0|H0] H0'].
    + subst h. destruct (parents g 0) as [|p ps] eqn:E; [congruence|].
      assert (Hp : In p (parents g 0)) by (rewrite E; now left). apply W in Hp. lia.
    + specialize (N3 H0). exfalso. apply H0'.
      destruct (parents g h) as [|p ps] eqn:E; [congruence|].
      assert (Hp : In p (parents g h)) by (rewrite E; now left). rewrite <- E in *.
      specialize (A p Hp). rewrite N3 in A. destruct A as [<-|[]]. assumption.
  - intros x [y [Hy Ha]].
    destruct (in_dec Nat.eq_dec y (parents g h)) as [I|I].
    + exists h. split; [assumption|]. eapply anc_trans; [eassumption|now apply anc_parent].
    + exists y. split; [|assumption]. apply Hin. split; [now right|assumption].
Qed.

Lemma replace_heads_cover g hs h : wf_dag g ->
  let hs' := fold_left (fun hs p => remn p hs) (parents g h) (ins h hs) in
  forall x, covered g hs x -> covered g hs' x.
Proof.
  intros W hs' x [y [Hy Ha]].
  assert (Hh : In h hs').
  { apply fold_remn_In. split; [apply ins_In; now left|].
    intros Hp. apply W in Hp. lia. }
  destruct (in_dec Nat.eq_dec y (parents g h)) as [I|I].
  - exists h. split; [assumption|]. eapply anc_trans; [eassumption|now apply anc_parent].
  - exists y. split; [|assumption]. apply fold_remn_In. split; [apply ins_In; now right|assumption].
Qed.

Lemma J_add_heads s hs : J s -> (forall h, In h hs -> h < length (s_g s)) ->
  J (add_heads s hs).
Proof.
  intros Js R. unfold add_heads.
  destruct hs as [|h [|h2 t]].
  - assumption.
  - destruct (negb (is_nil (c_parents (getc (s_g s) h))) && forallb _ _) eqn:F.
    + apply andb_true_iff in F. destruct F as [NE F].
      assert (L : h < length (s_g s)) by (apply R; now left).
      rewrite forallb_forall in F.
      assert (A : forall p, In p (parents (pg (s_g s)) h) -> In p (v_heads (s_v s))).
      { intros p Hp. rewrite parents_pg in Hp. apply memn_In. now apply F. }
      assert (NP : parents (pg (s_g s)) h <> []).
      { rewrite parents_pg. destruct (c_parents (getc (s_g s) h)); [discriminate|discriminate]. }
      unfold view_replace_heads. rewrite <- parents_pg.
      apply J_set_heads; auto.
      * apply fold_remn_sorted, ins_sorted, (j_sorted s Js).
      * intros x Hx. apply fold_remn_In in Hx. destruct Hx as [Hx _].
        apply ins_In in Hx. destruct Hx as [->|Hx]; [assumption|now apply (j_heads s Js)].
      * apply replace_heads_cover. apply (j_wf s Js).
      * intros E. apply replace_heads_norm; auto; try apply (j_wf s Js); try apply (j_sorted s Js); try (apply (j_norm s Js); assumption).
    + apply J_view_add_head; [assumption|]. apply R. now left.
  - apply J_fold_add_head; assumption.
Qed.

Lemma add_heads_fields s hs :
  s_g (add_heads s hs) = s_g s /\ s_pm (add_heads s hs) = s_pm s /\
  v_bms (s_v (add_heads s hs)) = v_bms (s_v s) /\ v_wcs (s_v (add_heads s hs)) = v_wcs (s_v s).
Proof.
  unfold add_heads. destruct hs as [|h [|h2 t]]; [auto| |].
  - destruct (_ && _); cbn; auto.
  - cbn [set_view s_g s_pm s_v].
    destruct (fold_add_head_fields (h :: h2 :: t) (s_v s)) as [A [B _]]. auto.
Qed.

Lemma add_heads_single_in s h : wf_dag (pg (s_g s)) -> In h (v_heads (s_v (add_heads s [h]))).
Proof.
  intros W. unfold add_heads. destruct (_ && _); cbn.
  - apply fold_remn_In. split; [apply ins_In; now left|].
    intros Hp. rewrite <- parents_pg in Hp. apply W in Hp. lia.
  - apply ins_In. now left.
Qed.

(** ** write_commit *)
Lemma J_extend s c : J s -> c_parents c <> [] -> (forall p, In p (c_parents c) -> p < length (s_g s)) ->
  J (mk_state (s_g s ++ [c]) (s_v s) (s_pm s)).
Proof.
  intros Js NE R.
  assert (W' : wf_dag (pg (s_g s ++ [c]))).
  { rewrite pg_app. apply wf_dag_snoc; [apply (j_wf s Js)|]. rewrite pg_length. assumption. }
  assert (HR : forall h, In h (v_heads (s_v s)) -> h < length (pg (s_g s))).
  { intros h Hh. rewrite pg_length. now apply (j_heads s Js). }
  constructor; cbn [s_g s_v s_pm]; auto.
  - intros i [L1 L2]. rewrite pg_length, app_length in L2. cbn in L2.
    destruct (Nat.eq_dec i (length (s_g s))) as [->|N].
    + rewrite pg_app. rewrite <- (pg_length (s_g s)). now rewrite parents_snoc_new.
    + rewrite pg_app, parents_app_l by (rewrite pg_length; lia).
      apply (j_np s Js). rewrite pg_length. lia.
  - rewrite app_length. cbn [length]. lia.
  - apply (j_sorted s Js).
  - intros h Hh. rewrite app_length. cbn [length]. pose proof (j_heads s Js h Hh). lia.
  - intros name t x Hb Hx. destruct (j_bms s Js _ _ _ Hb Hx) as [A B].
    split; [rewrite app_length; cbn [length]; lia|]. rewrite pg_app in *. now apply covered_snoc.
  - intros ws x Hw. destruct (j_wcs s Js _ _ Hw) as [A B].
    split; [rewrite app_length; cbn [length]; lia|]. rewrite pg_app in *. now apply covered_snoc.
  - intros k r Hk. destruct (j_pm s Js _ _ Hk) as [A B]. rewrite app_length. cbn [length].
    split; [lia|]. intros t Ht. specialize (B t Ht). lia.
  - intros E. destruct (j_norm s Js E) as [N1 [N2 N3]]. split; [assumption|]. split; [|assumption].
    rewrite pg_app in *. now apply antichain_snoc.
  - apply (j_pm_sorted s Js).
Qed.

Lemma J_pm_set s k r : J s -> k < length (s_g s) ->
  (forall t, In t (new_parent_ids r) -> t < length (s_g s)) ->
  J (set_pm s (pm_set k r (s_pm s))).
Proof.
  intros Js L R. destruct Js. constructor; cbn [set_pm s_g s_v s_pm]; auto.
  - intros k' r' H. apply (aset_In Nat.eqb Nat.ltb) in H.
    destruct H as [E|H]; [injection E as -> ->; auto|eauto].
  - now apply aset_sorted.
Qed.

Lemma J_write_commit s c src : J s -> c_parents c <> [] ->
  (forall p, In p (c_parents c) -> p < length (s_g s)) ->
  (forall o, src = Some o -> o < length (s_g s)) ->
  J (fst (write_commit s c src)) /\
  snd (write_commit s c src) = length (s_g s) /\
  length (s_g (fst (write_commit s c src))) = S (length (s_g s)) /\
  In (length (s_g s)) (v_heads (s_v (fst (write_commit s c src)))).
Proof.
  intros Js NE R RS. unfold write_commit.
  set (s0 := mk_state (s_g s ++ [c]) (s_v s) (s_pm s)).
  assert (J0 : J s0) by now apply J_extend.
  assert (L0 : length (s_g s0) = S (length (s_g s))) by (cbn; rewrite app_length; cbn; lia).
  assert (J1 : J (add_heads s0 [length (s_g s)])).
  { apply J_add_heads; [assumption|]. intros h [<-|[]]. lia. }
  destruct (add_heads_fields s0 [length (s_g s)]) as [G1 [P1 _]].
  assert (H1 : In (length (s_g s)) (v_heads (s_v (add_heads s0 [length (s_g s)])))).
  { apply add_heads_single_in. apply (j_wf _ J0). }
  destruct src as [o|]; cbn [fst snd].
  - split; [|split; [reflexivity|split]].
    + apply J_pm_set; [assumption| |].
      * rewrite G1, L0. specialize (RS o eq_refl). lia.
      * intros t [<-|[]]. rewrite G1, L0. lia.
    + cbn [set_pm s_g]. now rewrite G1.
    + exact H1.
  - split; [assumption|split; [reflexivity|split]]; [now rewrite G1|exact H1].
Qed.


(** ** set_local_bookmark_target *)
Lemma J_set_local_bookmark_target s name t : J s ->
  (forall c, In c (added_ids t) -> c < length (s_g s)) ->
  J (set_local_bookmark_target s name t).
Proof.
  intros Js R. unfold set_local_bookmark_target.
  pose proof (J_fold_add_head (added_ids t) s Js R) as J1.
  destruct (fold_add_head_fields (added_ids t) (s_v s)) as [A [B C]].
  set (v1 := fold_left view_add_head (added_ids t) (s_v s)) in *.
  destruct J1. cbn [set_view s_g s_v s_pm] in *.
  constructor; cbn [set_view s_g s_v s_pm v_heads v_bms v_wcs v_norm]; auto.
  intros name' t' c Hb Hc.
  destruct (is_absent t).
  - apply (adel_In N.eqb) in Hb. eauto.
  - apply (aset_In N.eqb N.ltb) in Hb. destruct Hb as [E|Hb]; [|eauto].
    injection E as -> ->. split; [auto|].
    exists c. split; [apply C; now left|constructor].
Qed.

(** ** maybe_abandon_wc_commit, edit, check_out, remove_workspace *)
Lemma J_maybe_abandon s ws : J s -> J (maybe_abandon_wc_commit s ws).
Proof.
  intros Js. unfold maybe_abandon_wc_commit.
  destruct (wc_get (s_v s) ws) as [w|] eqn:E; [|assumption].
  destruct (J_normalize s Js) as [J1 _].
  destruct (_ && _ && _) eqn:C; [|assumption].
  apply andb_true_iff in C. destruct C as [_ C]. apply memn_In in C.
  pose proof (j_heads _ J1 w C) as L.
  apply J_pm_set; [assumption|assumption|].
  cbn [new_parent_ids]. intros t Ht. rewrite <- parents_pg in Ht.
  apply (j_wf _ J1) in Ht. lia.
Qed.

Lemma maybe_abandon_graph s ws : s_g (maybe_abandon_wc_commit s ws) = s_g s.
Proof.
  unfold maybe_abandon_wc_commit. destruct (wc_get (s_v s) ws); [|reflexivity].
  destruct (normalize_fields s) as [G _]. destruct (_ && _ && _); cbn; assumption.
Qed.

Lemma J_set_wc s ws c : J s -> In c (v_heads (s_v s)) ->
  J (set_view s (mk_view (v_heads (s_v s)) (v_bms (s_v s)) (aset N.eqb N.ltb ws c (v_wcs (s_v s))) (v_norm (s_v s)))).
Proof.
  intros Js Hc. pose proof (j_heads s Js c Hc) as L. destruct Js.
  constructor; cbn [set_view s_g s_v s_pm v_heads v_bms v_wcs v_norm]; auto.
  intros ws' c' Hw. apply (aset_In N.eqb N.ltb) in Hw. destruct Hw as [E|Hw]; [|eauto].
  injection E as -> ->. split; [assumption|]. exists c. split; [assumption|constructor].
Qed.

Lemma J_edit s ws c s' : J s -> c < length (s_g s) -> edit s ws c = Some s' -> J s'.
Proof.
  intros Js L. unfold edit.
  destruct (c =? 0) eqn:E; [discriminate|]. apply Nat.eqb_neq in E.
  intros H. injection H as <-.
  pose proof (J_maybe_abandon s ws Js) as J1.
  set (s1 := maybe_abandon_wc_commit s ws) in *.
  assert (L1 : c < length (s_g s1)) by (unfold s1; now rewrite maybe_abandon_graph).
  assert (J2 : J (add_heads s1 [c])).
  { apply J_add_heads; [assumption|intros h [<-|[]]; assumption]. }
  apply J_set_wc; [assumption|].
  apply add_heads_single_in. apply (j_wf _ J1).
Qed.

Lemma J_check_out s ws c s' : J s -> c < length (s_g s) -> check_out s ws c = Some s' -> J s'.
Proof.
  intros Js L. unfold check_out.
  destruct (J_write_commit s (fresh_commit (s_g s) [c] 0 true) None Js) as [J1 [E1 [L1 _]]];
    [discriminate|intros p [<-|[]]; assumption|discriminate|].
  destruct (write_commit s _ None) as [s1 n]. cbn [fst snd] in *.
  intros H. eapply J_edit; [exact J1| |exact H]. subst n. lia.
Qed.

Lemma J_remove_workspace s ws : J s -> J (remove_workspace s ws).
Proof.
  intros Js. unfold remove_workspace.
  pose proof (J_maybe_abandon s ws Js) as J1. destruct J1.
  constructor; cbn [set_view s_g s_v s_pm v_heads v_bms v_wcs v_norm]; auto.
  intros ws' c Hw. apply (adel_In N.eqb) in Hw. eauto.
Qed.

(** ** commit: the written view satisfies the invariant *)
Lemma J_Inv s : J s -> v_norm (s_v s) = true -> Inv (pg (s_g s)) (s_v s).
Proof.
  intros Js E. split; [now apply (j_norm s Js)|]. split.
  - intros name t c Hb Hc. now apply (j_bms s Js name t c).
  - intros ws c Hw. now apply (j_wcs s Js ws c).
Qed.

Lemma commit_Inv s : J s -> J (normalize s) /\ Inv (pg (s_g (normalize s))) (s_v (normalize s)).
Proof.
  intros Js. destruct (J_normalize s Js) as [J1 E]. split; [assumption|now apply J_Inv].
Qed.

(** * Guards: the ids an operation mentions exist (the implementation would fail to load
    them otherwise). *)
Definition ids_ok (s : state) (l : list nat) : bool := forallb (fun x => x <? length (s_g s)) l.
Definition basic_op_okb (s : state) (o : op) : bool :=
  match o with
  | ONew ps _ _ => ids_ok s ps
  | OAddHeads hs => ids_ok s hs
  | OSetBookmark _ t => ids_ok s (added_ids t)
  | OEdit _ c => ids_ok s [c]
  | OCheckOut _ c => ids_ok s [c]
  | ORemoveWs _ => true
  | OCommit => true
  | _ => false
  end.

Lemma ids_ok_spec s l : ids_ok s l = true <-> forall x, In x l -> x < length (s_g s).
Proof.
  unfold ids_ok. rewrite forallb_forall. split; intros H x Hx; specialize (H x Hx);
    [now apply Nat.ltb_lt|now apply Nat.ltb_lt].
Qed.

Lemma Ok_inj {A} (a b : A) : Ok a = Ok b -> a = b.
Proof. congruence. Qed.

Lemma J_step_basic s o s' : J s -> basic_op_okb s o = true -> step s o = Ok s' -> J s'.
Proof.
  intros Js G H. destruct o; cbn [basic_op_okb] in G; try discriminate; cbn [step] in H.
  - destruct ps as [|p ps]; [discriminate|]. apply Ok_inj in H. subst s'.
    apply J_write_commit; [assumption|discriminate| |discriminate].
    now apply ids_ok_spec.
  - injection H as <-. apply J_add_heads; [assumption|now apply ids_ok_spec].
  - injection H as <-. apply J_set_local_bookmark_target; [assumption|now apply ids_ok_spec].
  - destruct (edit s ws c) as [s1|] eqn:E; [|discriminate]. injection H as <-.
    eapply J_edit; [eassumption| |eassumption].
    apply (proj1 (ids_ok_spec s [c]) G). now left.
  - destruct (check_out s ws c) as [s1|] eqn:E; [|discriminate]. injection H as <-.
    eapply J_check_out; [eassumption| |eassumption].
    apply (proj1 (ids_ok_spec s [c]) G). now left.
  - injection H as <-. now apply J_remove_workspace.
  - destruct (s_pm s); [|discriminate]. injection H as <-. now apply J_normalize.
Qed.

(** States reachable from the empty repository by guarded operations. *)
Inductive reach_basic : state -> Prop :=
| rb_init : reach_basic init_state
| rb_step s o s' : reach_basic s -> basic_op_okb s o = true -> step s o = Ok s' -> reach_basic s'.

Lemma reach_basic_J s : reach_basic s -> J s.
Proof. induction 1; [apply J_init|eapply J_step_basic; eassumption]. Qed.

Theorem commit_inv_basic s s' :
  reach_basic s -> step s OCommit = Ok s' -> Inv (pg (s_g s')) (s_v s').
Proof.
  intros R H. apply reach_basic_J in R. cbn [step] in H.
  destruct (s_pm s); [|discriminate]. injection H as <-. now apply commit_Inv.
Qed.

(** The fast path in isolation (C10_fast_path). *)
Theorem fast_path g hs h :
  wf_dag g -> sorted hs -> Norm g hs -> parents g h <> [] ->
  (forall p, In p (parents g h) -> In p hs) ->
  fold_left (fun hs p => remn p hs) (parents g h) (ins h hs) = heads_of g (remn 0 (ins h hs)).
Proof.
  intros W S N NP A.
  destruct (replace_heads_norm g hs h W NP A S N) as [[N1 [N2 N3]] _].
  set (hs' := fold_left _ _ _) in *.
  apply sorted_ext.
  - apply fold_remn_sorted, ins_sorted, S.
  - apply norm_set_sorted.
  - intros x. rewrite (heads_of_spec g _ x W), remn_In, ins_In.
    unfold hs'. rewrite fold_remn_In, ins_In.
    assert (Hh : In h hs').
    { unfold hs'. apply fold_remn_In. split; [apply ins_In; now left|].
      intros Hp. apply W in Hp. lia. }
    assert (H0 : ~ In 0 hs').
    { intros H0. specialize (N3 H0). rewrite N3 in Hh. destruct Hh as [<-|[]].
      destruct (parents g 0) as [|p ps] eqn:E; [congruence|].
      assert (Hp : In p (parents g 0)) by (rewrite E; now left). apply W in Hp. lia. }
    split.
    + intros [Hx Hx']. split; [split; [|assumption]|].
      * intros ->. apply H0. unfold hs'. apply fold_remn_In. rewrite ins_In. auto.
      * intros [y [Hy [Ny Ha]]]. apply remn_In in Hy. destruct Hy as [_ Hy].
        apply ins_In in Hy.
        assert (Hxs : In x hs') by (unfold hs'; apply fold_remn_In; rewrite ins_In; auto).
        destruct (in_dec Nat.eq_dec y (parents g h)) as [I|I].
        -- assert (x = h).
           { apply (N2 x h Hxs Hh). apply (anc_trans g x y h); [assumption|now apply anc_parent]. }
           subst x. apply (anc_le g _ _ W) in Ha. apply W in I. lia.
        -- apply Ny. symmetry. apply (N2 x y Hxs); [|assumption].
           unfold hs'. apply fold_remn_In. rewrite ins_In. auto.
    + intros [[Nx Hx] Hm]. split; [assumption|].
      intros Hp. apply Hm. exists h. split; [|split].
      * apply remn_In. split; [|apply ins_In; now left].
        intros ->. apply H0. assumption.
      * intros ->. apply W in Hp. lia.
      * now apply anc_parent.
Qed.

(** Executable form of [reach_basic] for examples. *)
Fixpoint run_guarded (s : state) (ops : list op) : option state :=
  match ops with
  | [] => Some s
  | o :: t => if basic_op_okb s o then match step s o with Ok s' => run_guarded s' t | _ => None end else None
  end.
Lemma run_guarded_reach ops : forall s s', reach_basic s -> run_guarded s ops = Some s' -> reach_basic s'.
Proof.
  induction ops as [|o t IH]; intros s s' R H; cbn [run_guarded] in H.
  - injection H as <-. assumption.
  - destruct (basic_op_okb s o) eqn:G; [|discriminate].
    destruct (step s o) as [s1| | |] eqn:E; try discriminate.
    eapply IH; [|eassumption]. eapply rb_step; eassumption.
Qed.
