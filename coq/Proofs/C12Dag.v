(** C12, part 4: the computable ancestry [dag_ancb] used when running the model on a case's
    DAG (parent lists, commits numbered from 1 in creation order) is reachability along
    parent edges, and on a well-formed DAG it is reflexive, transitive and antisymmetric —
    the hypotheses the C12 theorems put on [ancb]. *)
From Verif Require Import Base.Prelude Model.C12.
From Coq Require Import Lia Arith.
Local Open Scope N_scope.

(** Reachability: [a] is [d] or an ancestor of a parent of [d]. *)
Inductive anc (g : dag) (a : N) : N -> Prop :=
| anc_refl : anc g a a
| anc_step d p : In p (parents g d) -> anc g a p -> anc g a d.

Definition wf_dag (g : dag) : Prop := forall c p, In p (parents g c) -> 0 < p /\ p < c.

Lemma wf_from_spec g : forall k,
  wf_from k g = true ->
  forall i ps, nth_error g i = Some ps -> forall p, In p ps -> 0 < p /\ p < k + N.of_nat i.
Proof.
  induction g as [|ps0 t IH]; intros k H i ps Hn p Hp; [now destruct i|].
  cbn [wf_from] in H. apply andb_prop in H as [H0 Ht].
  destruct i as [|i]; cbn [nth_error] in Hn.
  - injection Hn as <-. rewrite forallb_forall in H0. specialize (H0 p Hp).
    apply andb_prop in H0 as [A B]. apply N.ltb_lt in A, B. lia.
  - destruct (IH (N.succ k) Ht i ps Hn p Hp) as [A B]. lia.
Qed.

Lemma wf_dagb_spec g : wf_dagb g = true -> wf_dag g.
Proof.
  intros H c p Hp. unfold parents in Hp. destruct c as [|c']; [destruct Hp|].
  set (c := N.pos c') in *.
  destruct (nth_error g (N.to_nat (N.pred c))) as [ps|] eqn:E.
  - rewrite (nth_error_nth _ _ _ E) in Hp.
    destruct (wf_from_spec g 1 H _ ps E p Hp) as [A B]. split; [exact A|].
    rewrite N2Nat.id in B. unfold c in *. lia.
  - apply nth_error_None in E. rewrite nth_overflow in Hp by exact E. destruct Hp.
Qed.

Lemma anc_fuel_sound g : forall f a d, anc_fuel f g a d = true -> anc g a d.
Proof.
  induction f as [|f IH]; intros a d H; cbn [anc_fuel] in H; apply orb_prop in H as [H|H].
  - apply N.eqb_eq in H. subst. constructor.
  - discriminate.
  - apply N.eqb_eq in H. subst. constructor.
  - apply existsb_exists in H as (p & Hp & Ha). eapply anc_step; eauto.
Qed.

Lemma anc_fuel_complete g : wf_dag g -> forall a d,
  anc g a d -> forall f, (N.to_nat d <= f)%nat -> anc_fuel f g a d = true.
Proof.
  intros Hwf a d H. induction H as [|d p Hp Ha IH]; intros f Hf.
  - destruct f; cbn [anc_fuel]; now rewrite N.eqb_refl.
  - destruct (Hwf d p Hp) as [A B]. destruct f as [|f]; [lia|].
    cbn [anc_fuel]. apply Bool.orb_true_iff. right. apply existsb_exists. exists p.
    split; [exact Hp|]. apply IH. lia.
Qed.

Lemma dag_ancb_spec g : wf_dag g -> forall a d, dag_ancb g a d = true <-> anc g a d.
Proof.
  intros Hwf a d. unfold dag_ancb. split; [apply anc_fuel_sound|].
  intros H. now apply (anc_fuel_complete g Hwf a d H).
Qed.

Lemma anc_trans g a b c : anc g a b -> anc g b c -> anc g a c.
Proof. intros H1 H2. induction H2; [exact H1|]. eapply anc_step; eauto. Qed.

Lemma anc_le g : wf_dag g -> forall a d, anc g a d -> a <= d.
Proof.
  intros Hwf a d H. induction H as [|d p Hp Ha IH]; [lia|]. destruct (Hwf d p Hp). lia.
Qed.

Lemma dag_ancb_refl g a : dag_ancb g a a = true.
Proof. unfold dag_ancb. destruct (N.to_nat a); cbn [anc_fuel]; now rewrite N.eqb_refl. Qed.

Lemma dag_ancb_trans g : wf_dag g -> forall x y z,
  dag_ancb g x y = true -> dag_ancb g y z = true -> dag_ancb g x z = true.
Proof.
  intros Hwf x y z H1 H2. apply (dag_ancb_spec g Hwf) in H1, H2. apply (dag_ancb_spec g Hwf).
  eapply anc_trans; eauto.
Qed.

Lemma dag_ancb_antisym g : wf_dag g -> forall x y,
  dag_ancb g x y = true -> dag_ancb g y x = true -> x = y.
Proof.
  intros Hwf x y H1 H2. apply (dag_ancb_spec g Hwf) in H1, H2.
  apply (anc_le g Hwf) in H1, H2. lia.
Qed.
