(** C11: the DFS of order_commits_for_rebase (dag_walk::topo_order_forward with the [visited]
    side state) yields an order that respects the dependency relation, whenever that relation
    is acyclic. *)
From Verif Require Import Base.Prelude Base.DagV Model.Merge Model.RepoV Model.C11
  Proofs.C10 Proofs.C11 Proofs.C11Loop.
From Coq Require Import Lia Arith.

(** * The worklist of replacements reaches every reachable replacement (and has enough fuel) *)
Lemma repl_walk_complete pm keep fuel : forall stack seen deps_rev pushed p,
  length stack + weight pm seen < fuel ->
  (forall s t, In s seen -> In t (targets_of pm s) -> In t pushed) ->
  (forall t, In t pushed -> In t seen \/ In t stack) ->
  (In p seen \/ In p stack) ->
  (forall t, In t pushed -> keep t = true -> In t deps_rev) ->
  forall q, Reach pm p q -> keep q = true -> In q (repl_walk fuel pm keep stack seen deps_rev).
Proof.
  induction fuel as [|f IH]; intros stack seen deps_rev pushed p L A B C Dp q HR Kq; [lia|].
  cbn [repl_walk]. destruct stack as [|id rest].
  - apply in_rev. rewrite rev_involutive. apply Dp; [|assumption].
    assert (G : forall a b, Reach pm a b -> In a seen -> In b pushed).
    { induction 1 as [a r c Ga Hc|a r c b Ga Hc _ IHr]; intros Ha.
      - apply (A a c Ha). unfold targets_of. now rewrite Ga.
      - apply IHr. destruct (B c) as [S|[]]; [|exact S]. apply (A a c Ha). unfold targets_of. now rewrite Ga. }
    apply (G p q HR). destruct C as [C|[]]. exact C.
  - cbn [length] in L. destruct (memn id seen) eqn:E.
    + apply memn_In in E. apply (IH rest seen deps_rev pushed p); auto; [lia| |].
      * intros t Ht. destruct (B t Ht) as [|[<-|]]; auto.
      * destruct C as [|[<-|]]; auto.
    + destruct (pm_get pm id) as [r|] eqn:G.
      * apply (IH _ _ _ (new_parent_ids r ++ pushed) p); auto.
        -- rewrite app_length, rev_length.
           pose proof (weight_visit pm seen id r G E). lia.
        -- intros s t [<-|Hs] Ht.
           ++ unfold targets_of in Ht. rewrite G in Ht. apply in_or_app. now left.
           ++ apply in_or_app. right. eauto.
        -- intros t Ht. apply in_app_or in Ht. destruct Ht as [Ht|Ht].
           ++ right. apply in_or_app. left. now apply -> in_rev.
           ++ destruct (B t Ht) as [|[<-|]]; [left; now right|left; now left|right; apply in_or_app; now right].
        -- destruct C as [|[<-|]]; [left; now right|left; now left|right; apply in_or_app; now right].
        -- intros t Ht Kt. rewrite rev_append_rev. apply in_or_app. apply in_app_or in Ht. destruct Ht as [Ht|Ht].
           ++ left. apply -> in_rev. apply filter_In. auto.
           ++ right. auto.
      * apply (IH _ _ _ pushed p); auto.
        -- pose proof (weight_mono pm seen id). lia.
        -- intros s t [<-|Hs] Ht; [unfold targets_of in Ht; rewrite G in Ht; contradiction|eauto].
        -- intros t Ht. destruct (B t Ht) as [|[<-|]]; [left; now right|left; now left|now right].
        -- destruct C as [|[<-|]]; [left; now right|left; now left|now right].
Qed.

Lemma oc_deps_complete G pm T x :
  (forall p, In p (c_parents (getc G x)) -> In p T -> In p (oc_deps G pm T [] x)) /\
  (forall p q, In p (c_parents (getc G x)) -> Reach pm p q -> In q T -> In q (oc_deps G pm T [] x)).
Proof.
  unfold oc_deps. split.
  - intros p Hp HT. apply in_flat_map. exists p. split; [assumption|]. apply in_or_app. right.
    apply memn_In in HT. rewrite HT. now left.
  - intros p q Hp HR HT. apply in_flat_map. exists p. split; [assumption|]. apply in_or_app. left.
    apply (repl_walk_complete pm _ (repl_fuel pm) [p] [] [] [] p).
    + cbn [length]. rewrite weight_nil. unfold repl_fuel. lia.
    + intros s t [].
    + intros t [].
    + right. now left.
    + intros t [].
    + exact HR.
    + cbn [memn existsb]. rewrite andb_true_r. now apply memn_In.
Qed.

(** The dependents computed with a [visited] set are among the full ones, and the missing ones
    were visited. *)
Lemma repl_walk_filter pm keep1 keep2 fuel : forall stack seen d1 d2,
  (forall t, keep1 t = true -> keep2 t = true) ->
  (forall t, In t d1 -> In t d2) ->
  forall t, In t (repl_walk fuel pm keep1 stack seen d1) -> In t (repl_walk fuel pm keep2 stack seen d2).
Proof.
  induction fuel as [|f IH]; intros stack seen d1 d2 K S t Ht; cbn [repl_walk] in *.
  - apply -> in_rev. apply S. now apply in_rev.
  - destruct stack as [|id rest]; [apply -> in_rev; apply S; now apply in_rev|].
    destruct (memn id seen); [eapply IH; eauto|].
    destruct (pm_get pm id) as [r|]; [|eapply IH; eauto].
    eapply IH; [exact K| |exact Ht].
    intros u Hu. rewrite rev_append_rev in *. apply in_app_or in Hu. apply in_or_app.
    destruct Hu as [Hu|Hu]; [left|right; auto].
    apply -> in_rev. apply in_rev in Hu. apply filter_In in Hu. apply filter_In. destruct Hu. auto.
Qed.

Lemma repl_walk_missing pm T visited fuel : forall stack seen d1 d2,
  (forall t, In t d2 -> In t d1 \/ In t visited) ->
  forall t, In t (repl_walk fuel pm (fun t => memn t T) stack seen d2) ->
    In t (repl_walk fuel pm (fun t => memn t T && negb (memn t visited)) stack seen d1) \/ In t visited.
Proof.
  induction fuel as [|f IH]; intros stack seen d1 d2 S t Ht; cbn [repl_walk] in *.
  - apply in_rev in Ht. destruct (S t Ht); [left; now apply -> in_rev|now right].
  - destruct stack as [|id rest].
    + apply in_rev in Ht. destruct (S t Ht); [left; now apply -> in_rev|now right].
    + destruct (memn id seen); [eapply IH; eauto|].
      destruct (pm_get pm id) as [r|]; [|eapply IH; eauto].
      eapply IH; [|exact Ht].
      intros u Hu. rewrite rev_append_rev in *. apply in_app_or in Hu.
      destruct Hu as [Hu|Hu].
      * apply in_rev in Hu. apply filter_In in Hu. destruct Hu as [Hu1 Hu2].
        destruct (memn u visited) eqn:Ev; [right; now apply memn_In|].
        left. apply in_or_app. left. apply -> in_rev. apply filter_In. split; [assumption|].
        now rewrite Hu2, Ev.
      * destruct (S u Hu); [left; apply in_or_app; now right|now right].
Qed.

Lemma oc_deps_visited G pm T visited x :
  (forall y, In y (oc_deps G pm T visited x) -> In y (oc_deps G pm T [] x)) /\
  (forall y, In y (oc_deps G pm T [] x) -> In y (oc_deps G pm T visited x) \/ In y visited).
Proof.
  unfold oc_deps. split.
  - intros y Hy. apply in_flat_map in Hy. destruct Hy as [p [Hp Hy]]. apply in_flat_map. exists p.
    split; [assumption|]. apply in_app_or in Hy. apply in_or_app. destruct Hy as [Hy|Hy]; [left|now right].
    eapply repl_walk_filter; [| |exact Hy]; [|auto].
    intros t Kt. apply andb_true_iff in Kt. destruct Kt as [Kt _]. now rewrite Kt.
  - intros y Hy. apply in_flat_map in Hy. destruct Hy as [p [Hp Hy]]. apply in_app_or in Hy.
    destruct Hy as [Hy|Hy].
    + assert (Hy' : In y (repl_walk (repl_fuel pm) pm (fun t => memn t T) [p] [] [])).
      { eapply repl_walk_filter; [| |exact Hy]; [|auto]. intros t Kt. apply andb_true_iff in Kt. apply Kt. }
      destruct (repl_walk_missing pm T visited (repl_fuel pm) [p] [] [] [] (fun t F => match F with end) y Hy') as [A|A];
        [left|now right].
      apply in_flat_map. exists p. split; [assumption|]. apply in_or_app. now left.
    + left. apply in_flat_map. exists p. split; [assumption|]. apply in_or_app. now right.
Qed.

(** * The post-order DFS emits every node after its dependencies *)
Section TopoValid.
  Context {St : Type} (nb : St -> nat -> St * list nat).
  Variable D : nat -> list nat.          (* the full dependency relation *)
  Variable Sees : St -> list nat -> Prop. (* the side state knows which nodes were expanded *)
  Variable rank : nat -> nat.
  Variable Tset : list nat.
  Hypothesis Hnb : forall st V x, Sees st V -> In x Tset ->
    Sees (fst (nb st x)) (x :: V) /\
    (forall y, In y (snd (nb st x)) -> In y (D x)) /\
    (forall y, In y (D x) -> In y (snd (nb st x)) \/ In y (x :: V)).
  Hypothesis HD_T : forall x y, In x Tset -> In y (D x) -> In y Tset.
  Hypothesis Hrank : forall x y, In x Tset -> In y (D x) -> rank y < rank x.

  (** [ab]: the nodes above the current position of the stack. *)
  Fixpoint SOK (E : list nat) (ab : list nat) (stack : list (nat * bool)) : Prop :=
    match stack with
    | [] => True
    | (x, b) :: rest =>
        (if b then (forall y, In y (D x) -> In y E \/ In y ab) /\
                   (forall z, In z ab -> rank z < rank x) /\ ~ In x E
         else True) /\ SOK E (x :: ab) rest
    end.

  Lemma SOK_rank E stack : forall ab x, SOK E ab stack -> In (x, true) stack ->
    (forall z, In z ab -> rank z < rank x) /\ ~ In x E.
  Proof.
    induction stack as [|[x0 b] rest IH]; intros ab x H Hin; [contradiction|].
    cbn [SOK] in H. destruct H as [H1 H2]. destruct Hin as [Hin|Hin].
    - injection Hin as -> ->. destruct H1 as [_ [A B]]. auto.
    - destruct (IH _ _ H2 Hin) as [A B]. split; [|assumption]. intros z Hz. apply A. now right.
  Qed.

  Lemma SOK_weaken E E' stack : forall ab ab',
    SOK E ab stack ->
    (forall z, In z ab -> In z E' \/ In z ab') ->
    (forall z, In z E -> In z E') ->
    (forall z x, In z ab' -> In (x, true) stack -> rank z < rank x) ->
    (forall x, In (x, true) stack -> ~ In x E') ->
    SOK E' ab' stack.
  Proof.
    induction stack as [|[x0 b] rest IH]; intros ab ab' H W S R N; [exact I|].
    cbn [SOK] in *. destruct H as [H1 H2]. split.
    - destruct b; [|exact I]. destruct H1 as [A [B C]]. split; [|split].
      + intros y Hy. destruct (A y Hy) as [Y|Y]; [left; auto|apply W; exact Y].
      + intros z Hz. apply (R z x0 Hz). now left.
      + apply N. now left.
    - apply (IH (x0 :: ab) (x0 :: ab')); auto.
      + intros z [<-|Hz]; [right; now left|]. destruct (W z Hz); [now left|right; now right].
      + intros z x [<-|Hz] Hx.
        * apply (SOK_rank _ _ _ _ H2 Hx). now left.
        * apply (R z x Hz). now right.
      + intros x Hx. apply N. now right.
  Qed.

  Lemma SOK_false_prefix E l : forall ab stack,
    SOK E ab (map (fun n => (n, false)) l ++ stack) <-> SOK E (rev l ++ ab) stack.
  Proof.
    induction l as [|a t IH]; intros ab stack; cbn [map app rev SOK]; [reflexivity|].
    rewrite IH. rewrite <- app_assoc. cbn [app]. tauto.
  Qed.

  Record TInv (st : St) (stack : list (nat * bool)) (visiting emitted result : list nat) : Prop := {
    ti_sees : exists V, Sees st V /\ forall z, In z V <-> In z visiting \/ In z emitted;
    ti_em : forall z, In z emitted <-> In z result;
    ti_nodup : NoDup result;
    ti_ord : forall l1 x l2, result = l1 ++ x :: l2 -> forall y, In y (D x) -> In y l2;
    ti_vis : forall z, In z visiting <-> In (z, true) stack;
    ti_sok : SOK emitted [] stack;
    ti_T : forall z b, In (z, b) stack -> In z Tset;
    ti_resT : forall z, In z result -> In z Tset;
  }.

  Lemma topo_loop_valid fuel : forall st stack visiting emitted result out,
    TInv st stack visiting emitted result ->
    topo_loop nb fuel st stack visiting emitted result = Ok out ->
    exists res', out = rev res' /\ NoDup res' /\
      (forall l1 x l2, res' = l1 ++ x :: l2 -> forall y, In y (D x) -> In y l2) /\
      (forall z, In z res' -> In z Tset) /\
      (forall z, In z result -> In z res') /\
      (forall z b, In (z, b) stack -> In z res').
  Proof.
    induction fuel as [|f IH]; intros st stack visiting emitted result out HI H; [discriminate|].
    cbn [topo_loop] in H. destruct stack as [|[id nv] rest].
    - apply Ok_inj in H. subst out. exists result. split; [reflexivity|].
      split; [apply (ti_nodup _ _ _ _ _ HI)|]. split; [apply (ti_ord _ _ _ _ _ HI)|].
      split; [apply (ti_resT _ _ _ _ _ HI)|]. split; [auto|intros z b []].
    - pose proof (ti_sok _ _ _ _ _ HI) as HS. cbn [SOK] in HS. destruct HS as [HS1 HS2].
      destruct (memn id emitted) eqn:Em.
      + (* already emitted: skip *)
        apply memn_In in Em.
        assert (nv = false).
        { destruct nv; [|reflexivity]. destruct HS1 as [_ [_ N]]. contradiction. }
        subst nv.
        assert (HI' : TInv st rest visiting emitted result).
        { destruct HI. constructor; auto.
          - intros z. rewrite ti_vis0. split; [intros [C|C]; [discriminate|exact C]|now right].
          - apply (SOK_weaken emitted emitted rest [id] []); auto.
            + intros z [<-|[]]. now left.
            + intros z x [].
            + intros x Hx. apply (SOK_rank _ _ _ _ HS2 Hx).
          - intros z b Hz. apply (ti_T0 z b). now right. }
        destruct (IH _ _ _ _ _ _ HI' H) as [res' [A [B [C [Dd [E F]]]]]].
        exists res'. repeat split; auto.
        intros z b [Hz|Hz]; [|eauto]. injection Hz as <- _. apply E. now apply (ti_em _ _ _ _ _ HI).
      + apply memn_false in Em. destruct nv.
        * (* emit *)
          destruct HS1 as [A1 [A2 A3]].
          assert (Nrest : ~ In (id, true) rest).
          { intros Hin. destruct (SOK_rank _ _ _ _ HS2 Hin) as [R _]. specialize (R id (or_introl eq_refl)). lia. }
          assert (HI' : TInv st rest (remn id visiting) (id :: emitted) (id :: result)).
          { destruct HI. constructor.
            - destruct ti_sees0 as [V [SV EV]]. exists V. split; [assumption|]. intros z. rewrite EV, remn_In. cbn [In].
              assert (In id visiting) by (apply ti_vis0; now left).
              destruct (Nat.eq_dec z id) as [->|N]; [tauto|]. split; [intros [X|X]; auto|intros [[_ X]|[X|X]]; auto; congruence].
            - intros z. cbn [In]. rewrite ti_em0. tauto.
            - constructor; [rewrite <- ti_em0; exact Em|assumption].
            - intros l1 x l2 E y Hy. destruct l1 as [|a l1]; cbn [app] in E.
              + injection E as <- <-. destruct (A1 y Hy) as [Y|[]]. now apply ti_em0.
              + injection E as _ E. eapply ti_ord0; eassumption.
            - intros z. rewrite remn_In, ti_vis0. split.
              + intros [N [C|C]]; [injection C as ->; congruence|exact C].
              + intros Hz. split; [intros ->; contradiction|now right].
            - apply (SOK_weaken emitted (id :: emitted) rest [id] []); auto.
              + intros z [<-|[]]. left. now left.
              + intros z Hz. now right.
              + intros z x [].
              + intros x Hx [<-|C]; [contradiction|]. apply (SOK_rank _ _ _ _ HS2 Hx); assumption.
            - intros z b Hz. apply (ti_T0 z b). now right.
            - intros z [<-|Hz]; [apply (ti_T0 id true); now left|auto]. }
          destruct (IH _ _ _ _ _ _ HI' H) as [res' [A [B [C [Dd [E F]]]]]].
          exists res'. repeat split; auto.
          -- intros z Hz. apply E. now right.
          -- intros z b [Hz|Hz]; [|eauto]. injection Hz as <- _. apply E. now left.
        * destruct (memn id visiting) eqn:Ev; [discriminate|]. apply memn_false in Ev.
          (* expand *)
          destruct (nb st id) as [st' ns] eqn:Enb.
          assert (HidT : In id Tset) by (apply (ti_T _ _ _ _ _ HI id false); now left).
          destruct (ti_sees _ _ _ _ _ HI) as [V [SV EV]].
          destruct (Hnb st V id SV HidT) as [S' [N1 N2]]. rewrite Enb in S', N1, N2. cbn [fst snd] in *.
          rewrite rev_append_rev in H. rewrite <- map_rev in H.
          assert (HI' : TInv st' (map (fun n => (n, false)) (rev ns) ++ (id, true) :: rest)
                          (id :: visiting) emitted result).
          { destruct HI. constructor; auto.
            - exists (id :: V). split; [assumption|]. intros z. cbn [In]. rewrite EV. tauto.
            - intros z. cbn [In]. rewrite ti_vis0. rewrite in_app_iff. cbn [In]. split.
              + intros [<-|[C|C]]; [right; now left|discriminate|right; now right].
              + intros [C|[C|C]].
                * apply in_map_iff in C. destruct C as [n [C _]]. discriminate.
                * injection C as ->. now left.
                * right. now right.
            - apply SOK_false_prefix. rewrite rev_involutive, app_nil_r. cbn [SOK]. split; [split; [|split]|].
              + intros y Hy. destruct (N2 y Hy) as [Y|[Y|Y]]; [now right| |].
                * subst y. pose proof (Hrank id id HidT Hy). lia.
                * apply EV in Y. destruct Y as [Y|Y]; [|now left]. exfalso.
                  apply ti_vis0 in Y. destruct Y as [Y|Y]; [discriminate|].
                  destruct (SOK_rank _ _ _ _ HS2 Y) as [R _]. specialize (R id (or_introl eq_refl)).
                  pose proof (Hrank id y HidT Hy). lia.
              + intros z Hz. apply Hrank; [assumption|]. now apply N1.
              + exact Em.
              + apply (SOK_weaken emitted emitted rest [id] (id :: ns)); auto.
                * intros z [<-|[]]. right. now left.
                * intros z x [<-|Hz] Hx.
                  -- apply (SOK_rank _ _ _ _ HS2 Hx). now left.
                  -- destruct (SOK_rank _ _ _ _ HS2 Hx) as [R _]. specialize (R id (or_introl eq_refl)).
                     pose proof (Hrank id z HidT (N1 z Hz)). lia.
                * intros x Hx. apply (SOK_rank _ _ _ _ HS2 Hx).
            - intros z b Hz. apply in_app_or in Hz. destruct Hz as [Hz|[Hz|Hz]].
              + apply in_map_iff in Hz. destruct Hz as [n [E Hn]]. injection E as -> _.
                apply (HD_T id z HidT). apply N1. now apply in_rev.
              + injection Hz as <- _. assumption.
              + apply (ti_T0 z b). now right. }
          destruct (IH _ _ _ _ _ _ HI' H) as [res' [A [B [C [Dd [E F]]]]]].
          exists res'. repeat split; auto.
          intros z b [Hz|Hz].
          -- injection Hz as <- _. apply (F id true). apply in_or_app. right. now left.
          -- apply (F z b). apply in_or_app. right. now right.
  Qed.
End TopoValid.

(** * Instance: order_commits_for_rebase *)
Lemma repl_walk_keep pm keep fuel : forall stack seen d t,
  (forall u, In u d -> keep u = true) ->
  In t (repl_walk fuel pm keep stack seen d) -> keep t = true.
Proof.
  induction fuel as [|f IH]; intros stack seen d t K Ht; cbn [repl_walk] in Ht.
  - apply in_rev in Ht. auto.
  - destruct stack as [|id rest]; [apply in_rev in Ht; auto|].
    destruct (memn id seen); [eapply IH; eauto|].
    destruct (pm_get pm id) as [r|]; [|eapply IH; eauto].
    eapply IH; [|exact Ht]. intros u Hu. rewrite rev_append_rev in Hu. apply in_app_or in Hu.
    destruct Hu as [Hu|Hu]; [|auto]. apply in_rev in Hu. apply filter_In in Hu. apply Hu.
Qed.

Lemma oc_deps_in_T G pm T visited x y : In y (oc_deps G pm T visited x) -> In y T.
Proof.
  unfold oc_deps. intros H. apply in_flat_map in H. destruct H as [p [_ H]]. apply in_app_or in H.
  destruct H as [H|H].
  - apply repl_walk_keep in H; [|intros u []]. apply andb_true_iff in H. apply memn_In. apply H.
  - destruct (memn p T) eqn:E; [|contradiction]. destruct H as [<-|[]]. now apply memn_In.
Qed.

Lemma SOK_all_false (D : nat -> list nat) (rank : nat -> nat) E l : forall ab,
  SOK D rank E ab (map (fun n => (n, false)) l).
Proof. induction l as [|a t IH]; intros ab; cbn [map SOK]; auto. Qed.

Section OrderValid.
  Variable s0 : state.
  Variable o : rebase_opts.
  Let G0 := s_g s0.
  Let pm0 := s_pm s0.
  Let T := find_descendants_for_rebase s0 (o_imm o).
  Variable rank : nat -> nat.
  Hypothesis acyclic : forall x y, In x T -> In y (oc_deps G0 pm0 T [] x) -> rank y < rank x.

  Lemma valid_from_snoc l : forall done x,
    valid_from s0 o done (l ++ [x]) <->
    valid_from s0 o done l /\
    (In x T /\ ~ In x (done ++ l) /\
     (forall p, In p (c_parents (getc G0 x)) -> In p T -> In p (done ++ l)) /\
     (forall p q, In p (c_parents (getc G0 x)) -> Reach pm0 p q -> In q T -> In q (done ++ l))).
  Proof.
    induction l as [|a t IH]; intros done x; cbn [app valid_from].
    - rewrite app_nil_r. fold G0 pm0 T. tauto.
    - rewrite IH. rewrite <- app_assoc. cbn [app]. fold G0 pm0 T. tauto.
  Qed.

  Lemma valid_from_of_postorder res' :
    NoDup res' ->
    (forall l1 x l2, res' = l1 ++ x :: l2 -> forall y, In y (oc_deps G0 pm0 T [] x) -> In y l2) ->
    (forall z, In z res' -> In z T) ->
    valid_from s0 o [] (rev res').
  Proof.
    induction res' as [|x r IH]; intros ND Ord HT; [exact I|].
    cbn [rev]. apply valid_from_snoc. inversion ND as [|? ? Hn Hd]; subst. split.
    - apply IH; [assumption| |intros z Hz; apply HT; now right].
      intros l1 x' l2 E. apply (Ord (x :: l1) x' l2). now rewrite E.
    - cbn [app]. split; [apply HT; now left|]. split; [now rewrite <- in_rev|].
      destruct (oc_deps_complete G0 pm0 T x) as [C1 C2]. split.
      + intros p Hp HpT. apply -> in_rev. apply (Ord [] x r eq_refl). now apply C1.
      + intros p q Hp HR HqT. apply -> in_rev. apply (Ord [] x r eq_refl). eapply C2; eassumption.
  Qed.

  Theorem order_commits_valid order :
    order_commits_for_rebase G0 pm0 T = Ok order ->
    valid_from s0 o [] order /\ forall x, In x T -> In x order.
  Proof.
    unfold order_commits_for_rebase, order_commits_with, topo_order_forward. intros H.
    set (nb := oc_nb_with oc_deps G0 pm0 T) in *.
    set (stack0 := rev (map (fun n => (n, false)) (rev T))) in *.
    destruct (topo_loop nb (oc_fuel G0 pm0 T) [] stack0 [] [] []) as [out| | |] eqn:E; try discriminate.
    apply Ok_inj in H. subst out.
    assert (Hnb : forall (st V : list nat) x, (forall z, In z st <-> In z V) -> In x T ->
              (forall z, In z (fst (nb st x)) <-> In z (x :: V)) /\
              (forall y, In y (snd (nb st x)) -> In y (oc_deps G0 pm0 T [] x)) /\
              (forall y, In y (oc_deps G0 pm0 T [] x) -> In y (snd (nb st x)) \/ In y (x :: V))).
    { intros st V x SV _. unfold nb, oc_nb_with. cbn [fst snd].
      destruct (oc_deps_visited G0 pm0 T (x :: st) x) as [A B]. split; [|split].
      - intros z. cbn [In]. rewrite SV. tauto.
      - exact A.
      - intros y Hy. destruct (B y Hy) as [Y|Y]; [now left|right].
        destruct Y as [<-|Y]; [now left|right; now apply SV]. }
    assert (S0 : stack0 = map (fun n => (n, false)) T).
    { unfold stack0. now rewrite <- map_rev, rev_involutive. }
    assert (HI : TInv (oc_deps G0 pm0 T []) (fun (st V : list nat) => forall z, In z st <-> In z V) rank T [] stack0 [] [] []).
    { constructor.
      - exists []. split; [tauto|]. intros z. cbn. tauto.
      - tauto.
      - constructor.
      - intros l1 x l2 E0. destruct l1; discriminate.
      - intros z. rewrite S0. split; [intros []|]. intros Hin. apply in_map_iff in Hin. destruct Hin as [n [C _]]. discriminate.
      - rewrite S0. apply SOK_all_false.
      - intros z b Hin. rewrite S0 in Hin. apply in_map_iff in Hin. destruct Hin as [n [C Hn]]. injection C as <- _. exact Hn.
      - intros z []. }
    destruct (topo_loop_valid nb (oc_deps G0 pm0 T []) (fun (st V : list nat) => forall z, In z st <-> In z V) rank T
                Hnb (fun x y _ Hy => oc_deps_in_T _ _ _ _ _ _ Hy) acyclic
                _ _ _ _ _ _ order HI E) as [res' [A [B [C [Dd [_ F]]]]]].
    subst order. split.
    - now apply valid_from_of_postorder.
    - intros x Hx. apply -> in_rev. apply (F x false). rewrite S0. apply in_map_iff. exists x. auto.
  Qed.
End OrderValid.

(** * Stateless DFS: a normal return means the relation is acyclic on what was visited *)
Section TopoStateless.
  Variable D : nat -> list nat.
  Let nb (_ : unit) (x : nat) : unit * list nat := (tt, D x).

  Fixpoint SOK2 (E : list nat) (ab : list nat) (stack : list (nat * bool)) : Prop :=
    match stack with
    | [] => True
    | (x, b) :: rest =>
        (if b then (forall y, In y (D x) -> In y E \/ In y ab) /\ ~ In x E else True) /\
        SOK2 E (x :: ab) rest
    end.

  Lemma SOK2_notE E stack : forall ab x, SOK2 E ab stack -> In (x, true) stack -> ~ In x E.
  Proof.
    induction stack as [|[x0 b] rest IH]; intros ab x H Hin; [contradiction|].
    cbn [SOK2] in H. destruct H as [H1 H2]. destruct Hin as [Hin|Hin].
    - injection Hin as -> ->. apply H1.
    - eapply IH; eassumption.
  Qed.

  Lemma SOK2_weaken E E' stack : forall ab ab',
    SOK2 E ab stack ->
    (forall z, In z ab -> In z E' \/ In z ab') ->
    (forall z, In z E -> In z E') ->
    (forall x, In (x, true) stack -> ~ In x E') ->
    SOK2 E' ab' stack.
  Proof.
    induction stack as [|[x0 b] rest IH]; intros ab ab' H W S N; [exact I|].
    cbn [SOK2] in *. destruct H as [H1 H2]. split.
    - destruct b; [|exact I]. destruct H1 as [A C]. split.
      + intros y Hy. destruct (A y Hy) as [Y|Y]; [left; auto|apply W; exact Y].
      + apply N. now left.
    - apply (IH (x0 :: ab) (x0 :: ab')); auto.
      + intros z [<-|Hz]; [right; now left|]. destruct (W z Hz); [now left|right; now right].
      + intros x Hx. apply N. now right.
  Qed.

  Lemma SOK2_false_prefix E l : forall ab stack,
    SOK2 E ab (map (fun n => (n, false)) l ++ stack) <-> SOK2 E (rev l ++ ab) stack.
  Proof.
    induction l as [|a t IH]; intros ab stack; cbn [map app rev SOK2]; [reflexivity|].
    rewrite IH. rewrite <- app_assoc. cbn [app]. tauto.
  Qed.

  Lemma SOK2_all_false E l : forall ab, SOK2 E ab (map (fun n => (n, false)) l).
  Proof. induction l as [|a t IH]; intros ab; cbn [map SOK2]; auto. Qed.

  Definition trues (stack : list (nat * bool)) : list nat := map fst (filter snd stack).

  Lemma trues_In stack z : In z (trues stack) <-> In (z, true) stack.
  Proof.
    unfold trues. rewrite in_map_iff. split.
    - intros [[a b] [E H]]. cbn in E. subst a. apply filter_In in H. destruct H as [H B]. cbn in B. now subst b.
    - intros H. exists (z, true). split; [reflexivity|]. apply filter_In. auto.
  Qed.

  Lemma trues_false_prefix l stack : trues (map (fun n => (n, false)) l ++ stack) = trues stack.
  Proof. induction l as [|a t IH]; cbn [map app]; [reflexivity|]. unfold trues in *. cbn [filter snd]. exact IH. Qed.

  Record TInv2 (stack : list (nat * bool)) (visiting emitted result : list nat) : Prop := {
    t2_em : forall z, In z emitted <-> In z result;
    t2_nodup : NoDup result;
    t2_ord : forall l1 x l2, result = l1 ++ x :: l2 -> forall y, In y (D x) -> In y l2;
    t2_vis : forall z, In z visiting <-> In (z, true) stack;
    t2_sok : SOK2 emitted [] stack;
    t2_uniq : NoDup (trues stack);
  }.

  Lemma topo_loop_stateless fuel : forall stack visiting emitted result out,
    TInv2 stack visiting emitted result ->
    topo_loop nb fuel tt stack visiting emitted result = Ok out ->
    exists res', out = rev res' /\ NoDup res' /\
      (forall l1 x l2, res' = l1 ++ x :: l2 -> forall y, In y (D x) -> In y l2) /\
      (forall z, In z result -> In z res') /\
      (forall z b, In (z, b) stack -> In z res').
  Proof.
    induction fuel as [|f IH]; intros stack visiting emitted result out HI H; [discriminate|].
    cbn [topo_loop] in H. destruct stack as [|[id nv] rest].
    - apply Ok_inj in H. subst out. exists result. split; [reflexivity|].
      split; [apply (t2_nodup _ _ _ _ HI)|]. split; [apply (t2_ord _ _ _ _ HI)|].
      split; [auto|intros z b []].
    - pose proof (t2_sok _ _ _ _ HI) as HS. cbn [SOK2] in HS. destruct HS as [HS1 HS2].
      destruct (memn id emitted) eqn:Em.
      + apply memn_In in Em.
        assert (nv = false).
        { destruct nv; [|reflexivity]. destruct HS1 as [_ N]. contradiction. }
        subst nv.
        assert (HI' : TInv2 rest visiting emitted result).
        { destruct HI. constructor; auto.
          - intros z. rewrite t2_vis0. split; [intros [C|C]; [discriminate|exact C]|now right].
          - apply (SOK2_weaken emitted emitted rest [id] []); auto.
            + intros z [<-|[]]. now left.
            + intros x Hx. apply (SOK2_notE _ _ _ _ HS2 Hx). }
        destruct (IH _ _ _ _ _ HI' H) as [res' [A [B [C [E F]]]]].
        exists res'. repeat split; auto.
        intros z b [Hz|Hz]; [|eauto]. injection Hz as <- _. apply E. now apply (t2_em _ _ _ _ HI).
      + apply memn_false in Em. destruct nv.
        * destruct HS1 as [A1 A3].
          pose proof (t2_uniq _ _ _ _ HI) as U. unfold trues in U. cbn [filter snd map fst] in U.
          inversion U as [|? ? Un Ud]; subst. fold (trues rest) in Un, Ud.
          assert (Nrest : ~ In (id, true) rest) by (intros Hin; apply Un; now apply trues_In).
          assert (HI' : TInv2 rest (remn id visiting) (id :: emitted) (id :: result)).
          { destruct HI. constructor.
            - intros z. cbn [In]. rewrite t2_em0. tauto.
            - constructor; [rewrite <- t2_em0; exact Em|assumption].
            - intros l1 x l2 E y Hy. destruct l1 as [|a l1]; cbn [app] in E.
              + injection E as <- <-. destruct (A1 y Hy) as [Y|[]]. now apply t2_em0.
              + injection E as _ E. eapply t2_ord0; eassumption.
            - intros z. rewrite remn_In, t2_vis0. split.
              + intros [N [C|C]]; [injection C as ->; congruence|exact C].
              + intros Hz. split; [intros ->; contradiction|now right].
            - apply (SOK2_weaken emitted (id :: emitted) rest [id] []); auto.
              + intros z [<-|[]]. left. now left.
              + intros z Hz. now right.
              + intros x Hx [<-|C]; [contradiction|]. apply (SOK2_notE _ _ _ _ HS2 Hx); assumption.
            - exact Ud. }
          destruct (IH _ _ _ _ _ HI' H) as [res' [A [B [C [E F]]]]].
          exists res'. repeat split; auto.
          -- intros z Hz. apply E. now right.
          -- intros z b [Hz|Hz]; [|eauto]. injection Hz as <- _. apply E. now left.
        * destruct (memn id visiting) eqn:Ev; [discriminate|]. apply memn_false in Ev.
          unfold nb in H at 1. rewrite rev_append_rev in H. rewrite <- map_rev in H.
          assert (HI' : TInv2 (map (fun n => (n, false)) (rev (D id)) ++ (id, true) :: rest)
                          (id :: visiting) emitted result).
          { destruct HI. constructor; auto.
            - intros z. cbn [In]. rewrite t2_vis0. rewrite in_app_iff. cbn [In]. split.
              + intros [<-|[C|C]]; [right; now left|discriminate|right; now right].
              + intros [C|[C|C]].
                * apply in_map_iff in C. destruct C as [n [C _]]. discriminate.
                * injection C as ->. now left.
                * right. now right.
            - apply SOK2_false_prefix. rewrite rev_involutive, app_nil_r. cbn [SOK2]. split; [split|].
              + intros y Hy. now right.
              + exact Em.
              + apply (SOK2_weaken emitted emitted rest [id] (id :: D id)); auto.
                * intros z [<-|[]]. right. now left.
                * intros x Hx. apply (SOK2_notE _ _ _ _ HS2 Hx).
            - rewrite trues_false_prefix. unfold trues. cbn [filter snd map fst]. fold (trues rest).
              constructor.
              + intros Hin. apply trues_In in Hin. apply Ev. apply t2_vis0. now right.
              + unfold trues in t2_uniq0. cbn [filter snd] in t2_uniq0. exact t2_uniq0. }
          destruct (IH _ _ _ _ _ HI' H) as [res' [A [B [C [E F]]]]].
          exists res'. repeat split; auto.
          intros z b [Hz|Hz].
          -- injection Hz as <- _. apply (F id true). apply in_or_app. right. now left.
          -- apply (F z b). apply in_or_app. right. now right.
  Qed.

  (** A rank that decreases along every edge out of an emitted node. *)
  Fixpoint after (z : nat) (l : list nat) : nat :=
    match l with [] => 0 | a :: t => if a =? z then length t else after z t end.

  Lemma after_lt z l : In z l -> after z l < length l.
  Proof.
    induction l as [|a t IH]; intros H; [contradiction|]. cbn [after length].
    destruct (a =? z) eqn:E; [lia|]. apply Nat.eqb_neq in E. destruct H as [H|H]; [congruence|].
    specialize (IH H). lia.
  Qed.

  Lemma after_split l1 x l2 : ~ In x l1 -> after x (l1 ++ x :: l2) = length l2.
  Proof.
    induction l1 as [|a t IH]; intros N; cbn [app after]; [now rewrite Nat.eqb_refl|].
    destruct (a =? x) eqn:E; [apply Nat.eqb_eq in E; subst; exfalso; apply N; now left|].
    apply IH. intros H. apply N. now right.
  Qed.

  Theorem topo_stateless_acyclic fuel start out :
    topo_order_forward nb fuel tt start = Ok out ->
    exists rank : nat -> nat,
      (forall x, In x start -> In x out) /\
      forall x y, In x out -> In y (D x) -> In y out /\ rank y < rank x.
  Proof.
    unfold topo_order_forward. intros H.
    assert (S0 : rev (map (fun n => (n, false)) start) = map (fun n => (n, false)) (rev start)) by now rewrite map_rev.
    rewrite S0 in H.
    assert (HI : TInv2 (map (fun n => (n, false)) (rev start)) [] [] []).
    { constructor.
      - tauto.
      - constructor.
      - intros l1 x l2 E0. destruct l1; discriminate.
      - intros z. split; [intros []|]. intros Hin. apply in_map_iff in Hin. destruct Hin as [n [C _]]. discriminate.
      - apply SOK2_all_false.
      - rewrite <- (app_nil_r (map _ _)). rewrite trues_false_prefix. constructor. }
    destruct (topo_loop_stateless _ _ _ _ _ _ HI H) as [res' [A [B [C [_ F]]]]].
    exists (fun z => after z res'). subst out. split.
    - intros x Hx. apply -> in_rev. apply (F x false). apply in_map_iff. exists x. split; [reflexivity|now apply -> in_rev].
    - intros x y Hx Hy. apply in_rev in Hx.
      destruct (in_split _ _ Hx) as [l1 [l2 E]].
      assert (N1 : ~ In x l1).
      { rewrite E in B. apply NoDup_remove_2 in B. intros I. apply B. apply in_or_app. now left. }
      pose proof (C l1 x l2 E y Hy) as Hy2.
      split.
      + apply -> in_rev. rewrite E. apply in_or_app. right. now right.
      + rewrite E at 2. rewrite (after_split l1 x l2 N1).
        destruct (in_split _ _ Hy2) as [m1 [m2 E2]].
        assert (N2 : ~ In y (l1 ++ x :: m1)).
        { rewrite E, E2 in B. replace (l1 ++ x :: m1 ++ y :: m2) with ((l1 ++ x :: m1) ++ y :: m2) in B
            by (rewrite <- app_assoc; reflexivity).
          apply NoDup_remove_2 in B. intros I. apply B. apply in_or_app. now left. }
        rewrite E, E2. replace (l1 ++ x :: m1 ++ y :: m2) with ((l1 ++ x :: m1) ++ y :: m2)
          by (rewrite <- app_assoc; reflexivity).
        rewrite (after_split _ y m2 N2). rewrite app_length. cbn [length]. lia.
  Qed.
End TopoStateless.

(** * Cycles are detected: when resolve_rewrite_mapping returns, the selected records are acyclic *)
Theorem resolve_acyclic pm pred m :
  resolve_rewrite_mapping pm pred = Ok m ->
  exists rank : nat -> nat, forall k r t,
    In k (pm_keys pm) -> pm_filtered pm pred k = Some r -> In t (new_parent_ids r) -> rank t < rank k.
Proof.
  unfold resolve_rewrite_mapping.
  set (D := fun id => match pm_filtered pm pred id with Some r => new_parent_ids r | None => [] end).
  destruct (topo_order_forward _ _ _ _) as [ids| | |] eqn:E; cbn [bind]; try discriminate.
  intros _.
  destruct (topo_stateless_acyclic D _ _ _ E) as [rank [A B]].
  exists rank. intros k r t Hk F Ht.
  apply (B k t); [now apply A|]. unfold D. now rewrite F.
Qed.

(** * In the domain the dependency relation is acyclic, the targets are in scope, the root has no
    record *)
Theorem dom_ok_facts s o : wf_dag (pg (s_g s)) -> dom_ok s o = true ->
  (exists rank : nat -> nat, forall x y,
     In x (find_descendants_for_rebase s (o_imm o)) ->
     In y (oc_deps (s_g s) (s_pm s) (find_descendants_for_rebase s (o_imm o)) [] x) -> rank y < rank x) /\
  (forall k r t, In (k, r) (s_pm s) -> In t (new_parent_ids r) -> In t (scope s (o_imm o))) /\
  pm_get (s_pm s) 0 = None.
Proof.
  intros W H. unfold dom_ok in H. rewrite !andb_true_iff in H. destruct H as [[H1 _] H3].
  rewrite forallb_forall in H1. split; [|split].
  - set (T := find_descendants_for_rebase s (o_imm o)) in *.
    destruct (topo_order_forward _ _ _ _) as [out| | |] eqn:E; try discriminate.
    destruct (topo_stateless_acyclic (deps_full (s_g s) (s_pm s) T) _ _ _ E) as [rank [A B]].
    exists rank. intros x y Hx Hy. apply (B x y); [|exact Hy]. apply A. now apply -> in_rev.
  - intros k r t Hin Ht. specialize (H1 _ Hin). cbn [fst snd] in H1.
    rewrite !andb_true_iff in H1. destruct H1 as [_ H1]. rewrite forallb_forall in H1.
    specialize (H1 t Ht). apply andb_true_iff in H1. destruct H1 as [_ H1]. apply memn_In in H1.
    unfold scope. apply ancs_spec in H1; [|assumption]. apply ancs_spec; [assumption|].
    destruct H1 as [h [Hh Ha]]. exists h. split; [apply in_or_app; now left|assumption].
  - destruct (pm_get (s_pm s) 0) as [r|] eqn:G; [|reflexivity]. exfalso.
    apply pm_get_In in G. specialize (H1 _ G). cbn [fst snd] in H1.
    rewrite !andb_true_iff in H1. destruct H1 as [[[H1 _] _] _]. discriminate.
Qed.
