(** Proofs for C30: every matcher that can be built is sound for directory pruning. *)
From Verif Require Import Base.Prelude Model.C30 Proofs.BytesF.
From Coq Require Import Lia.
Local Open Scope N_scope.

Section Proofs.
  Context {name pid : Type} (neqb : name -> name -> bool).
  Hypothesis neqb_spec : forall x y, neqb x y = true <-> x = y.
  Variable gm : bool -> pid -> list name -> bool.

  Notation path := (list name).
  Notation visit := (@visit name).
  Notation vset := (@vset name).
  Notation tree := (@tree name).
  Notation matcher := (@matcher name pid).
  Notation visit_allows := (visit_allows neqb).
  Notation mem_name := (mem_name neqb).
  Notation vset_mem := (vset_mem neqb).
  Notation assoc := (assoc neqb).
  Notation tget := (tget neqb).
  Notation walk := (walk neqb).

  Lemma neqb_refl x : neqb x x = true.
  Proof. apply neqb_spec; reflexivity. Qed.

  Lemma is_nil_true {A} (l : list A) : is_nil l = true <-> l = [].
  Proof. destruct l; cbn; split; congruence. Qed.

  Lemma mem_name_In c l : mem_name c l = true <-> In c l.
  Proof.
    unfold C30.mem_name. rewrite existsb_exists. split.
    - intros (x & Hx & E). apply neqb_spec in E. subst. exact Hx.
    - intros H. exists c. split; auto. apply neqb_refl.
  Qed.

  Lemma assoc_In {A} c (l : list (name * A)) s : assoc c l = Some s -> In (c, s) l.
  Proof.
    induction l as [|[k v] r IH]; cbn; [discriminate|].
    destruct (neqb c k) eqn:E.
    - apply neqb_spec in E. subst. intros H; inversion H; subst. left; reflexivity.
    - intros H. right. auto.
  Qed.

  Lemma tget_app {V} (t : tree V) d q :
    tget t (d ++ q) = match tget t d with Some s => tget s q | None => None end.
  Proof.
    revert t; induction d as [|c d IH]; intros t; cbn; [reflexivity|].
    destruct (assoc c (children t)); auto.
  Qed.

  (** ** What a visit answer allows *)
  Lemma allows_false_not_all (v : visit) q :
    v <> AllRecursively -> visit_allows v q false = true.
  Proof. destruct q as [|c q']; [reflexivity|]. destruct v; cbn; congruence. Qed.

  Lemma sets_not_all (D F : list name) : sets D F <> AllRecursively.
  Proof. unfold sets. destruct (is_nil D && is_nil F); discriminate. Qed.

  Lemma sets_allows (D F : list name) c q' b :
    (b = true -> (if is_nil q' then mem_name c F else mem_name c D) = true) ->
    visit_allows (sets D F) (c :: q') b = true.
  Proof.
    intros H. destruct b; [|apply allows_false_not_all, sets_not_all].
    specialize (H eq_refl). unfold sets.
    destruct (is_nil D && is_nil F) eqn:E.
    - apply andb_true_iff in E as [E1 E2]. apply is_nil_true in E1, E2. subst.
      destruct (is_nil q'); cbn in H; discriminate.
    - cbn. exact H.
  Qed.

  Lemma some_allows q b : visit_allows (SOME (name:=name)) q b = true.
  Proof.
    destruct q as [|c q']; [reflexivity|]. cbn. destruct (is_nil q'); apply orb_true_r.
  Qed.

  (** ** FilesMatcher: sound for every tree *)
  Lemma files_sound (t : tree files_kind) d q :
    q <> [] -> visit_allows (files_visit neqb t d) q (files_matches neqb t (d ++ q)) = true.
  Proof.
    intros Hq. unfold files_visit, files_matches. rewrite tget_app.
    destruct (tget t d) as [sub|]; [|destruct q; [congruence|reflexivity]].
    destruct q as [|c q']; [congruence|]. unfold files_tree_to_visit_sets.
    apply sets_allows. cbn [C30.tget].
    destruct (assoc c (children sub)) as [s|] eqn:E; [|discriminate].
    apply assoc_In in E. intros Hm.
    destruct q' as [|c2 q'']; cbn [is_nil].
    - cbn in Hm. apply mem_name_In. apply in_map_iff. exists (c, s). split; auto.
      apply filter_In. split; auto.
    - apply mem_name_In. apply in_map_iff. exists (c, s). split; auto.
      apply filter_In. split; auto. cbn [snd]. unfold has_children.
      cbn [C30.tget] in Hm. destruct (children s); [cbn in Hm; discriminate|reflexivity].
  Qed.

  (** ** PrefixMatcher: sound for every tree *)
  Lemma prefix_matches_cons (t : tree prefix_kind) c p :
    prefix_matches neqb t (c :: p) =
    is_prefix_kind (value t)
    || match assoc c (children t) with Some s => prefix_matches neqb s p | None => false end.
  Proof.
    unfold prefix_matches. cbn [C30.walk existsb fst]. destruct (assoc c (children t)); reflexivity.
  Qed.

  Lemma prefix_sound (t : tree prefix_kind) d q :
    q <> [] -> visit_allows (prefix_visit neqb t d) q (prefix_matches neqb t (d ++ q)) = true.
  Proof.
    intros Hq. destruct q as [|c q']; [congruence|]. clear Hq.
    revert t; induction d as [|a d IH]; intros t.
    - cbn [app]. rewrite prefix_matches_cons. unfold prefix_visit. cbn [C30.walk prefix_visit_loop].
      destruct (is_prefix_kind (value t)) eqn:E; [reflexivity|]. cbn [is_nil orb].
      unfold prefix_tree_to_visit_sets. apply sets_allows.
      destruct (assoc c (children t)) as [s|] eqn:A; [|discriminate].
      apply assoc_In in A. intros Hm.
      destruct q' as [|c2 q'']; cbn [is_nil].
      + unfold prefix_matches in Hm. cbn in Hm. rewrite orb_false_r in Hm.
        apply mem_name_In. apply in_map_iff. exists (c, s). split; auto.
        apply filter_In. split; auto.
      + apply mem_name_In. apply in_map_iff. exists (c, s). split; auto.
    - cbn [app]. rewrite prefix_matches_cons. unfold prefix_visit. cbn [C30.walk prefix_visit_loop].
      destruct (is_prefix_kind (value t)) eqn:E; [reflexivity|]. cbn [is_nil orb].
      destruct (assoc a (children t)) as [s|].
      + apply IH.
      + reflexivity.
  Qed.

  (** ** GlobsMatcher: sound for every tree; prefix mode needs the prefix regexes to be
      closed under extension of the path (they end in [(?:/|$)]). *)
  Notation gm_prefix_closed := (gm_prefix_closed gm).

  Definition node_match (pm : bool) (t : tree (option (list pid))) (tail : path) : bool :=
    match value t with Some pats => is_match gm pm pats tail | None => false end.

  Lemma globs_matches_nil pm (t : tree (option (list pid))) : globs_matches neqb gm pm t [] = false.
  Proof. reflexivity. Qed.

  Lemma globs_matches_cons pm (t : tree (option (list pid))) c p :
    globs_matches neqb gm pm t (c :: p) =
    node_match pm t (c :: p)
    || match assoc c (children t) with Some s => globs_matches neqb gm pm s p | None => false end.
  Proof.
    unfold globs_matches, node_match. cbn [C30.walk take_while snd is_nil negb existsb fst].
    destruct (assoc c (children t)); [reflexivity|]. cbn. reflexivity.
  Qed.

  Lemma is_match_closed pats t q :
    gm_prefix_closed -> is_match gm true pats t = true -> is_match gm true pats (t ++ q) = true.
  Proof.
    intros Hc. unfold is_match. rewrite !existsb_exists. intros (pid0 & Hin & H). eauto.
  Qed.

  Lemma globs_matches_node pm (t : tree (option (list pid))) p :
    p <> [] -> node_match pm t p = true -> globs_matches neqb gm pm t p = true.
  Proof.
    destruct p as [|c p]; [congruence|]. intros _ H. rewrite globs_matches_cons, H. reflexivity.
  Qed.

  Lemma globs_loop_some pm (t : tree (option (list pid))) d q :
    (pm = true -> gm_prefix_closed) -> q <> [] ->
    let v := globs_visit_loop gm pm SOME (walk t d) in
    v = SOME \/ (v = AllRecursively /\ globs_matches neqb gm pm t (d ++ q) = true).
  Proof.
    intros Hc Hq. revert t; induction d as [|a d IH]; intros t; cbn [C30.walk globs_visit_loop].
    - destruct (value t) as [pats|] eqn:V.
      + destruct (pm && is_match gm pm pats []) eqn:E.
        * right. split; auto. apply andb_true_iff in E as [-> E].
          apply globs_matches_node; [destruct q; cbn; congruence|].
          unfold node_match. rewrite V. apply (is_match_closed pats [] q); auto.
        * destruct (negb pm); cbn; auto.
      + cbn. auto.
    - destruct (value t) as [pats|] eqn:V.
      + destruct (pm && is_match gm pm pats (a :: d)) eqn:E.
        * right. split; auto. apply andb_true_iff in E as [-> E].
          apply globs_matches_node; [discriminate|].
          unfold node_match. rewrite V. apply (is_match_closed pats (a :: d) q); auto.
        * destruct (negb pm); [left; reflexivity|].
          cbn [app]. rewrite globs_matches_cons.
          destruct (assoc a (children t)) as [s|]; [|left; reflexivity].
          destruct (IH s) as [H|[H1 H2]]; [left; exact H|right]. split; auto.
          rewrite H2. apply orb_true_r.
      + cbn [is_nil andb]. cbn [app]. rewrite globs_matches_cons.
        destruct (assoc a (children t)) as [s|]; [|left; reflexivity].
        destruct (IH s) as [H|[H1 H2]]; [left; exact H|right]. split; auto.
        rewrite H2. apply orb_true_r.
  Qed.

  Lemma globs_sound pm (t : tree (option (list pid))) d q :
    (pm = true -> gm_prefix_closed) -> q <> [] ->
    visit_allows (globs_visit neqb gm pm t d) q (globs_matches neqb gm pm t (d ++ q)) = true.
  Proof.
    intros Hc Hq. unfold globs_visit.
    revert t; induction d as [|a d IH]; intros t; cbn [C30.walk globs_visit_loop].
    - destruct (value t) as [pats|] eqn:V.
      + destruct (pm && is_match gm pm pats []) eqn:E.
        * apply andb_true_iff in E as [-> E].
          assert (M : globs_matches neqb gm true t ([] ++ q) = true).
          { apply globs_matches_node; [destruct q; cbn; congruence|].
            unfold node_match. rewrite V. apply (is_match_closed pats [] q); auto. }
          rewrite M. destruct q; reflexivity.
        * destruct (negb pm); apply some_allows.
      + cbn [is_nil visit_is_nothing andb app].
        destruct q as [|c q']; [congruence|]. apply sets_allows.
        rewrite globs_matches_cons. unfold node_match. rewrite V. cbn [orb].
        destruct (assoc c (children t)) as [s|] eqn:A; [|discriminate].
        apply assoc_In in A. intros Hm.
        destruct q' as [|c2 q'']; cbn [is_nil].
        * rewrite globs_matches_nil in Hm. discriminate.
        * apply mem_name_In. apply in_map_iff. exists (c, s). split; auto.
    - destruct (value t) as [pats|] eqn:V.
      + destruct (pm && is_match gm pm pats (a :: d)) eqn:E.
        * apply andb_true_iff in E as [-> E].
          assert (M : globs_matches neqb gm true t ((a :: d) ++ q) = true).
          { apply globs_matches_node; [discriminate|].
            unfold node_match. rewrite V. apply (is_match_closed pats (a :: d) q); auto. }
          rewrite M. destruct q; reflexivity.
        * destruct (negb pm); [apply some_allows|].
          cbn [app]. rewrite globs_matches_cons.
          destruct (assoc a (children t)) as [s|]; [|apply some_allows].
          destruct (globs_loop_some pm s d q Hc Hq) as [H|[H1 H2]].
          -- rewrite H. apply some_allows.
          -- rewrite H1, H2, orb_true_r. destruct q; reflexivity.
      + cbn [is_nil andb app]. rewrite globs_matches_cons. unfold node_match. rewrite V. cbn [orb].
        destruct (assoc a (children t)) as [s|].
        * apply IH.
        * destruct q; reflexivity.
  Qed.

  (** ** Combinators *)
  Lemma mem_name_app c x y : mem_name c (x ++ y) = mem_name c x || mem_name c y.
  Proof. unfold C30.mem_name. apply existsb_app. Qed.

  Lemma mem_name_filter c x y :
    mem_name c (filter (fun n => mem_name n y) x) = mem_name c x && mem_name c y.
  Proof.
    unfold C30.mem_name.
    induction x as [|a x IH]; cbn [filter existsb]; [reflexivity|].
    destruct (existsb (neqb a) y) eqn:E; cbn [existsb].
    - rewrite IH. destruct (neqb c a) eqn:N; cbn [orb]; [|reflexivity].
      apply neqb_spec in N. subst a. rewrite E. reflexivity.
    - rewrite IH. destruct (neqb c a) eqn:N; cbn [orb]; [|reflexivity].
      apply neqb_spec in N. subst a. rewrite E, andb_false_r. reflexivity.
  Qed.

  Lemma vset_mem_union c a b : vset_mem c (union_vset a b) = vset_mem c a || vset_mem c b.
  Proof.
    destruct a, b; cbn; try reflexivity; try (rewrite orb_true_r; reflexivity).
    apply mem_name_app.
  Qed.

  Lemma vset_mem_inter c a b :
    vset_mem c (inter_vset neqb a b) = vset_mem c a && vset_mem c b.
  Proof.
    destruct a, b; cbn; try reflexivity; try (rewrite andb_true_r; reflexivity).
    apply mem_name_filter.
  Qed.

  Lemma union_sound v1 v2 q b1 b2 :
    visit_allows v1 q b1 = true -> visit_allows v2 q b2 = true ->
    visit_allows (union_visit v1 (fun _ => v2)) q (b1 || b2) = true.
  Proof.
    destruct q as [|c q']; [reflexivity|].
    destruct v1 as [|d1 f1|], v2 as [|d2 f2|], b1, b2; cbn [C30.visit_allows union_visit orb negb];
      try reflexivity; try discriminate; intros H1 H2; try assumption;
      destruct (is_nil q'); rewrite vset_mem_union;
      cbn in *; rewrite ?H1, ?H2, ?orb_true_r; reflexivity.
  Qed.

  Lemma inter_empty_false c a b :
    inter_vset neqb a b = VSet [] -> vset_mem c a && vset_mem c b = false.
  Proof. intros H. rewrite <- vset_mem_inter, H. reflexivity. Qed.

  Lemma intersection_specific_not_all (d1 f1 d2 f2 : vset) :
    intersection_visit neqb (Specific d1 f1) (fun _ => Specific d2 f2) <> AllRecursively.
  Proof.
    cbn. destruct (inter_vset neqb d1 d2), (inter_vset neqb f1 f2); try discriminate.
    destruct (is_nil l && is_nil l0); discriminate.
  Qed.

  Lemma intersection_sound v1 v2 q b1 b2 :
    visit_allows v1 q b1 = true -> visit_allows v2 q b2 = true ->
    visit_allows (intersection_visit neqb v1 (fun _ => v2)) q (b1 && b2) = true.
  Proof.
    destruct q as [|c q']; [reflexivity|].
    destruct v1 as [|d1 f1|], v2 as [|d2 f2|];
      try (destruct b1, b2; cbn [C30.visit_allows intersection_visit andb negb orb];
           try reflexivity; try discriminate; intros H1 H2; assumption).
    destruct (b1 && b2) eqn:B;
      [|intros _ _; apply allows_false_not_all, intersection_specific_not_all].
    apply andb_true_iff in B as [-> ->]. intros H1 H2.
    cbn in H1, H2.
    assert (G : (if is_nil q' then vset_mem c (inter_vset neqb f1 f2)
                 else vset_mem c (inter_vset neqb d1 d2)) = true).
    { destruct (is_nil q'); rewrite vset_mem_inter, H1, H2; reflexivity. }
    cbn [intersection_visit].
    destruct (inter_vset neqb d1 d2) as [|dl] eqn:ED, (inter_vset neqb f1 f2) as [|fl] eqn:EF;
      try (cbn; exact G).
    destruct (is_nil dl && is_nil fl) eqn:Z; [|cbn; exact G].
    apply andb_true_iff in Z as [Z1 Z2]. apply is_nil_true in Z1, Z2. subst.
    destruct (is_nil q'); cbn in G; discriminate.
  Qed.

  Lemma difference_sound vu vw q bu bw :
    visit_allows vu q bu = true -> visit_allows vw q bw = true ->
    visit_allows (difference_visit vu (fun _ => vw)) q (bw && negb bu) = true.
  Proof.
    destruct q as [|c q']; [reflexivity|].
    destruct vu as [|du fu|], vw as [|dw fw|], bu, bw;
      cbn [C30.visit_allows difference_visit andb negb orb];
      try reflexivity; try discriminate; intros H1 H2; try assumption;
      try (destruct (is_nil q'); reflexivity).
  Qed.

  (** ** Every matcher *)
  Definition Sound (m : matcher) : Prop :=
    forall d q, q <> [] ->
      visit_allows (mvisit neqb gm m d) q (matches neqb gm m (d ++ q)) = true.

  Lemma all_sound (m : matcher) :
    (uses_prefix_globs m = true -> gm_prefix_closed) -> Sound m.
  Proof.
    induction m as [| |t|t|pm t|a IHa b IHb|a IHa b IHb|w IHw u IHu]; intros Hc d q Hq;
      cbn [mvisit matches].
    - destruct q; [congruence|reflexivity].
    - destruct q; [congruence|reflexivity].
    - apply files_sound; auto.
    - apply prefix_sound; auto.
    - apply globs_sound; auto.
    - apply union_sound; [apply IHa | apply IHb]; auto;
        intros H; apply Hc; cbn; rewrite H; auto using orb_true_r.
    - apply intersection_sound; [apply IHa | apply IHb]; auto;
        intros H; apply Hc; cbn; rewrite H; auto using orb_true_r.
    - apply difference_sound; [apply IHu | apply IHw]; auto;
        intros H; apply Hc; cbn; rewrite H; auto using orb_true_r.
  Qed.

  (** ** Reading [visit_allows] as the three clauses of the property *)
  Lemma allows_nothing q b : q <> [] -> visit_allows VNothing q b = true -> b = false.
  Proof. destruct q; [congruence|]. cbn. intros _ H. apply negb_true_iff in H. exact H. Qed.

  Lemma allows_all q b : q <> [] -> visit_allows AllRecursively q b = true -> b = true.
  Proof. destruct q; [congruence|]. cbn. auto. Qed.

  Lemma allows_specific D F q :
    visit_allows (Specific D F) q true = true ->
    q = [] \/ (exists f, q = [f] /\ vset_mem f F = true)
    \/ (exists c q', q = c :: q' /\ q' <> [] /\ vset_mem c D = true).
  Proof.
    destruct q as [|c q']; [auto|]. cbn. intros H. right.
    destruct q' as [|c2 q'']; cbn in H; [left; eauto|right].
    exists c, (c2 :: q''). repeat split; auto. discriminate.
  Qed.

  Lemma sound_clauses (m : matcher) d :
    Sound m ->
    (mvisit neqb gm m d = VNothing -> forall q, q <> [] -> matches neqb gm m (d ++ q) = false) /\
    (mvisit neqb gm m d = AllRecursively ->
     forall q, q <> [] -> matches neqb gm m (d ++ q) = true) /\
    (forall D F, mvisit neqb gm m d = Specific D F ->
     forall q, q <> [] -> matches neqb gm m (d ++ q) = true ->
       (exists f, q = [f] /\ vset_mem f F = true)
       \/ (exists c q', q = c :: q' /\ q' <> [] /\ vset_mem c D = true)).
  Proof.
    intros S. repeat split.
    - intros E q Hq. specialize (S d q Hq). rewrite E in S. eapply allows_nothing; eauto.
    - intros E q Hq. specialize (S d q Hq). rewrite E in S. eapply allows_all; eauto.
    - intros D F E q Hq M. specialize (S d q Hq). rewrite E, M in S.
      apply allows_specific in S as [S|S]; [congruence|exact S].
  Qed.

  Lemma strip_prefix_spec d p q :
    C30.strip_prefix neqb d p = Some q <-> p = d ++ q.
  Proof.
    revert p; induction d as [|a d IH]; intros p; cbn.
    - split; congruence.
    - destruct p as [|b p]; [split; discriminate|].
      destruct (neqb a b) eqn:E.
      + apply neqb_spec in E. subst b. rewrite IH. split; congruence.
      + split; [discriminate|]. intros H. inversion H; subst. rewrite neqb_refl in E. discriminate.
  Qed.
End Proofs.

(** ** Meaning of the checker *)
Lemma closed_on_spec tbl univ :
  closed_on tbl univ = true <->
  forall pid t, In (true, pid, t) tbl ->
  forall t' q, In t' univ -> t' = t ++ q -> gm_table tbl true pid t' = true.
Proof.
  unfold closed_on. rewrite forallb_forall. split.
  - intros H pid t Hin t' q Hu E. specialize (H _ Hin). cbn [fst snd negb orb] in H.
    rewrite forallb_forall in H. specialize (H _ Hu).
    apply (strip_prefix_spec N.eqb N.eqb_eq) in E. rewrite E in H. exact H.
  - intros H [[pm pid] t] Hin. cbn [fst snd]. destruct pm; cbn [negb orb]; [|reflexivity].
    apply forallb_forall. intros t' Hu.
    destruct (strip_prefix N.eqb t t') as [q|] eqn:E; [|reflexivity].
    apply (strip_prefix_spec N.eqb N.eqb_eq) in E. eapply H; eauto.
Qed.

Lemma okb_spec (c : case) :
  okb c = true <->
  c_panicked c = false /\
  (forall d v p b q, In (d, v) (c_visits c) -> In (p, b) (c_matches c) -> p = d ++ q ->
                     visit_allows N.eqb v q b = true) /\
  (forall pid t, In (true, pid, t) (c_globs c) ->
   forall t' q, In t' (flat_map (fun pb => subranges (fst pb)) (c_matches c)) -> t' = t ++ q ->
                gm_table (c_globs c) true pid t' = true).
Proof.
  unfold okb. rewrite !andb_true_iff, negb_true_iff, forallb_forall, closed_on_spec. split.
  - intros [[Hp H] Hc]. repeat split; auto. intros d v p b q Hv Hm E.
    specialize (H _ Hv). rewrite forallb_forall in H. specialize (H _ Hm). cbn [fst snd] in H.
    apply (strip_prefix_spec N.eqb N.eqb_eq) in E. rewrite E in H. exact H.
  - intros (Hp & H & Hc). repeat split; auto. intros [d v] Hv. apply forallb_forall. intros [p b] Hm.
    cbn [fst snd]. destruct (strip_prefix N.eqb d p) as [q|] eqn:E; auto.
    apply (strip_prefix_spec N.eqb N.eqb_eq) in E. eapply H; eauto.
Qed.
