(** Lemmas about the directory merge of Model/TreeMerge.v: name enumeration, assembly of the
    result sides, what one level of the merged tree reads as, arity, fuel independence. *)
From Verif Require Import Base.Prelude Model.Merge.
From Verif Require Import Proofs.MergeDen Proofs.C01 Proofs.C02 Proofs.TrivialMap.
From Verif Require Import Model.TreeMerge Proofs.TreeValue.
From Coq Require Import Lia Arith Sorted.

(** * names *)
Lemma ins_in x n l : In x (ins n l) <-> x = n \/ In x l.
Proof.
  induction l as [|m t IH]; cbn [ins In]; [intuition|].
  destruct (N.ltb_spec n m); [cbn [In]; intuition|].
  destruct (N.eqb_spec n m); [subst; cbn [In]; intuition|].
  cbn [In]. rewrite IH. intuition.
Qed.

Lemma ins_sorted n l : StronglySorted N.lt l -> StronglySorted N.lt (ins n l).
Proof.
  induction l as [|m t IH]; intros S; cbn [ins].
  - repeat constructor.
  - inversion S as [|? ? St Hall]; subst.
    destruct (N.ltb_spec n m) as [Hlt|Hge].
    + constructor; [assumption|]. constructor; [assumption|].
      eapply Forall_impl; [|exact Hall]. intros a Ha. cbn in Ha. lia.
    + destruct (N.eqb_spec n m) as [->|Hne]; [assumption|].
      constructor; [now apply IH|]. apply Forall_forall. intros a Ha.
      apply ins_in in Ha as [->|Ha]; [lia|]. rewrite Forall_forall in Hall. now apply Hall.
Qed.

Lemma sorted_nodup l : StronglySorted N.lt l -> NoDup l.
Proof.
  induction l as [|m t IH]; intros S; [constructor|].
  inversion S as [|? ? St Hall]; subst. constructor; [|auto].
  intros Hin. rewrite Forall_forall in Hall. apply Hall in Hin. lia.
Qed.

Lemma names_sorted ts : StronglySorted N.lt (names ts).
Proof.
  unfold names. induction (flat_map (map fst) ts) as [|n l IH]; cbn [fold_right]; [constructor|].
  now apply ins_sorted.
Qed.

Lemma names_nodup ts : NoDup (names ts).
Proof. apply sorted_nodup, names_sorted. Qed.

Lemma names_in n (ts : list tree) : In n (names ts) <-> exists t, In t ts /\ In n (map fst t).
Proof.
  unfold names.
  assert (E : forall l, In n (fold_right ins [] l) <-> In n l).
  { induction l as [|m l IH]; cbn [fold_right]; [tauto|]. rewrite ins_in, IH. cbn [In]. intuition. }
  rewrite E, in_flat_map. tauto.
Qed.

Lemma lookup_some_in n (t : tree) v : lookup n t = Some v -> In n (map fst t).
Proof.
  induction t as [|e r IH]; [discriminate|]. cbn [lookup map In].
  destruct (N.eqb_spec (fst e) n); [now left|]. intros H. right. now apply IH.
Qed.

Lemma lookup_notin_names n (ts : list tree) :
  ~ In n (names ts) -> map (lookup n) ts = repeat None (length ts).
Proof.
  intros H. induction ts as [|t r IH]; [reflexivity|]. cbn [map length repeat].
  rewrite IH.
  - f_equal. destruct (lookup n t) as [v|] eqn:E; [|reflexivity].
    exfalso. apply H, names_in. exists t. split; [now left|]. eapply lookup_some_in; eauto.
  - intros Hin. apply H. apply names_in in Hin as (t' & Ht & Hn). apply names_in. exists t'.
    split; [now right|assumption].
Qed.

(** * trivial merges of tree values *)
Section TM.
  Context (accept : bool).
  Notation tm := (tm accept).

  Lemma tm_single x : tm [x] = Some x.
  Proof. reflexivity. Qed.

  Lemma tm_repeat x n : Nat.odd n = true -> tm (repeat x n) = Some x.
  Proof. apply (trivial_merge_repeat oval_eqb oval_eqb_spec). Qed.

  Lemma tm_in vs r : Nat.odd (length vs) = true -> tm vs = Some r -> In r vs.
  Proof. apply (trivial_merge_in oval_eqb oval_eqb_spec). Qed.

  Lemma tm_map (g : oval -> oval) vs r :
    Nat.odd (length vs) = true -> tm vs = Some r -> tm (map g vs) = Some (g r).
  Proof. apply (trivial_merge_map oval_eqb oval_eqb oval_eqb_spec oval_eqb_spec). Qed.

  Lemma tm_den_only l1 l2 :
    Nat.odd (length l1) = true -> Nat.odd (length l2) = true ->
    (forall v, den oval_eqb l1 v = den oval_eqb l2 v) -> tm l1 = tm l2.
  Proof. apply (trivial_merge_den_only oval_eqb oval_eqb_spec). Qed.
End TM.

(** * assembling the sides *)
Section Assemble.
  Context (accept : bool).
  Notation tm := (tm accept).
  Context (F : N -> list oval) (K : nat).

  Definition es_of (ns : list N) : list (N * list oval) := map (fun n => (n, F n)) ns.

  Lemma lookup_side_tree ns i n :
    lookup n (side_tree (es_of ns) i) = if in_dec N.eq_dec n ns then side_value i (F n) else None.
  Proof.
    induction ns as [|a r IH]; [reflexivity|].
    unfold side_tree, es_of in *. cbn [map flat_map fst snd].
    destruct (N.eq_dec a n) as [->|Hne].
    - destruct (in_dec N.eq_dec n (n :: r)) as [_|C]; [|exfalso; apply C; now left].
      destruct (side_value i (F n)) as [v|] eqn:E.
      + cbn [app lookup fst snd]. now rewrite N.eqb_refl.
      + cbn [app]. rewrite IH. destruct (in_dec N.eq_dec n r); reflexivity.
    - assert (R : lookup n ((match side_value i (F a) with Some v => [(a, v)] | None => [] end)
                            ++ flat_map (fun e : N * list oval =>
                                           match side_value i (snd e) with
                                           | Some v => [(fst e, v)] | None => [] end)
                                 (map (fun n0 : N => (n0, F n0)) r))
                  = lookup n (flat_map (fun e : N * list oval =>
                                          match side_value i (snd e) with
                                          | Some v => [(fst e, v)] | None => [] end)
                                (map (fun n0 : N => (n0, F n0)) r))).
      { destruct (side_value i (F a)); [|reflexivity]. cbn [app lookup fst].
        destruct (N.eqb_spec a n); [contradiction|reflexivity]. }
      rewrite R, IH.
      destruct (in_dec N.eq_dec n r) as [I|I], (in_dec N.eq_dec n (a :: r)) as [J|J];
        try reflexivity; exfalso.
      + apply J. now right.
      + destruct J as [J|J]; [congruence|contradiction].
  Qed.

  Lemma nth_seq_self {A} (l : list A) d : map (fun i => nth i l d) (seq 0 (length l)) = l.
  Proof.
    enough (G : forall k, map (fun i => nth (i - k) l d) (seq k (length l)) = l).
    { rewrite <- (G 0%nat) at 2. apply map_ext. intros i. now rewrite Nat.sub_0_r. }
    induction l as [|x t IH]; intros k; [reflexivity|].
    cbn [length seq map]. rewrite Nat.sub_diag. cbn [nth]. f_equal.
    rewrite <- (IH (S k)) at 2. apply map_ext_in. intros i Hi. apply in_seq in Hi.
    replace (i - k)%nat with (S (i - S k)) by lia. reflexivity.
  Qed.

  Lemma map_const_seq {A} (x : A) k : forall s, map (fun _ : nat => x) (seq s k) = repeat x k.
  Proof. induction k as [|k IH]; intros s; [reflexivity|]. cbn [seq map repeat]. now rewrite IH. Qed.

  Hypothesis Kodd : Nat.odd K = true.

  (** Every entry is resolved, or a conflict of [K] sides that does not resolve trivially. *)
  Definition shaped (ns : list N) : Prop :=
    forall n, In n ns -> (exists r, F n = [r]) \/ (length (F n) = K /\ tm (F n) = None).

  Lemma shaped_single n ns : shaped ns -> In n ns -> is_single (F n) = true -> exists r, F n = [r].
  Proof.
    intros S Hn Hs. destruct (F n) as [|r [|]]; try discriminate. eauto.
  Qed.

  Lemma assemble_length ns : shaped ns ->
    length (assemble (es_of ns)) = 1%nat \/ length (assemble (es_of ns)) = K.
  Proof.
    intros S. unfold assemble.
    destruct (filter (fun e => negb (is_single (snd e))) (es_of ns)) as [|c rest] eqn:E; [now left|].
    right. rewrite map_length, seq_length.
    assert (Hc : In c (filter (fun e => negb (is_single (snd e))) (es_of ns))) by (rewrite E; now left).
    apply filter_In in Hc as [Hin Hns]. apply in_map_iff in Hin as (m & <- & Hm). cbn [snd] in *.
    destruct (S m Hm) as [[r Hr]|[HK _]]; [rewrite Hr in Hns; discriminate|assumption].
  Qed.

  (** What one level of the assembled merge reads as (Merge<Tree>::value). *)
  Lemma mvalue_assemble ns n : shaped ns ->
    mvalue accept (assemble (es_of ns)) n = if in_dec N.eq_dec n ns then F n else [None].
  Proof.
    intros S. unfold mvalue, assemble.
    destruct (filter (fun e => negb (is_single (snd e))) (es_of ns)) as [|c rest] eqn:E.
    - cbn [map]. rewrite tm_single, lookup_side_tree.
      destruct (in_dec N.eq_dec n ns) as [I|I]; [|reflexivity].
      assert (Hs : is_single (F n) = true).
      { destruct (is_single (F n)) eqn:Es; [reflexivity|exfalso].
        assert (Hin : In (n, F n) (filter (fun e => negb (is_single (snd e))) (es_of ns))).
        { apply filter_In. split; [apply in_map_iff; eauto|]. cbn [snd]. now rewrite Es. }
        rewrite E in Hin. contradiction. }
      destruct (shaped_single n ns S I Hs) as [r ->]. reflexivity.
    - assert (Hc : In c (filter (fun e => negb (is_single (snd e))) (es_of ns))) by (rewrite E; now left).
      apply filter_In in Hc as [Hin Hns]. apply in_map_iff in Hin as (m & <- & Hm). cbn [snd] in *.
      assert (HK : length (F m) = K).
      { destruct (S m Hm) as [[r Hr]|[HK _]]; [rewrite Hr in Hns; discriminate|assumption]. }
      rewrite HK, map_map.
      rewrite (map_ext _ (fun i => if in_dec N.eq_dec n ns then side_value i (F n) else None))
        by (intros i; apply lookup_side_tree).
      destruct (in_dec N.eq_dec n ns) as [I|I].
      + destruct (S n I) as [[r Hr]|[HKn Hnone]].
        * rewrite Hr. cbn [side_value].
          rewrite map_const_seq, tm_repeat by assumption. reflexivity.
        * assert (R : map (fun i => side_value i (F n)) (seq 0 K) = F n).
          { rewrite <- HKn at 1. rewrite <- (nth_seq_self (F n) None) at 2.
            apply map_ext. intros i. unfold side_value.
            destruct (F n) as [|x [|y t]] eqn:EF; try reflexivity.
            exfalso. rewrite tm_single in Hnone. discriminate. }
          rewrite R, Hnone. reflexivity.
      + rewrite map_const_seq, tm_repeat by assumption. reflexivity.
  Qed.
End Assemble.

Section Dir.
  Context (accept : bool) (content_merge : list N -> option N).
  Notation tm := (tm accept).
  Notation merge_vals := (merge_vals accept content_merge).
  Notation merge_dir := (merge_dir accept content_merge).
  Notation resolve_file_values := (resolve_file_values accept content_merge).

  Lemma resolve_file_values_shape vs :
    (exists v, resolve_file_values vs = [Some v]) \/ resolve_file_values vs = vs.
  Proof.
    unfold TreeMerge.resolve_file_values.
    destruct (try_resolve_file_conflict accept content_merge (simplify oval_eqb vs)); eauto.
  Qed.

  (** A merged entry is a single value, or a conflict of the input's arity that does not
      resolve trivially. *)
  Lemma merge_vals_shape rec vs :
    (length (rec (map to_tree vs)) = 1%nat \/ length (rec (map to_tree vs)) = length vs) ->
    (exists r, merge_vals rec vs = [r])
    \/ (length (merge_vals rec vs) = length vs /\ tm (merge_vals rec vs) = None).
  Proof.
    intros Hrec. unfold TreeMerge.merge_vals.
    destruct (tm vs) as [r|] eqn:E; [left; eauto|].
    set (c := if is_tree vs then map of_tree (rec (map to_tree vs)) else resolve_file_values vs).
    assert (Hc : length c = 1%nat \/ length c = length vs).
    { unfold c. destruct (is_tree vs).
      - now rewrite map_length.
      - destruct (resolve_file_values_shape vs) as [[v ->]| ->]; auto. }
    destruct (tm c) as [r|] eqn:Ec; [left; eauto|].
    right. split; [|assumption]. destruct Hc as [H1|H]; [|assumption].
    destruct c as [|x [|]]; discriminate.
  Qed.

  Lemma map_to_tree_length (vs : list oval) : length (map to_tree vs) = length vs.
  Proof. apply map_length. Qed.

  Lemma merge_dir_shaped f ts :
    (forall ts', length ts' = length ts ->
                 length (merge_dir f ts') = 1%nat \/ length (merge_dir f ts') = length ts') ->
    shaped accept (fun n => merge_vals (merge_dir f) (map (lookup n) ts)) (length ts) (names ts).
  Proof.
    intros IH n _. cbn beta.
    destruct (merge_vals_shape (merge_dir f) (map (lookup n) ts)) as [H|[H1 H2]].
    - specialize (IH (map to_tree (map (lookup n) ts))). rewrite !map_length in IH.
      rewrite map_length. now apply IH.
    - now left.
    - right. rewrite map_length in H1. auto.
  Qed.

  Lemma merge_dir_S f ts :
    merge_dir (S f) ts
    = assemble (es_of (fun n => merge_vals (merge_dir f) (map (lookup n) ts)) (names ts)).
  Proof. reflexivity. Qed.

  (** merge_trees returns a resolved merge or one with the input's number of sides
      (doc comment at tree_merge.rs:74-75; the assertion at :147 cannot fire). *)
  Lemma merge_dir_length fuel : forall ts, Nat.odd (length ts) = true ->
    length (merge_dir fuel ts) = 1%nat \/ length (merge_dir fuel ts) = length ts.
  Proof.
    induction fuel as [|f IH]; intros ts Hodd; [now right|].
    rewrite merge_dir_S. apply (assemble_length accept).
    apply merge_dir_shaped. intros ts' Hl. apply IH. now rewrite Hl.
  Qed.

  Lemma merge_dir_shaped' f ts : Nat.odd (length ts) = true ->
    shaped accept (fun n => merge_vals (merge_dir f) (map (lookup n) ts)) (length ts) (names ts).
  Proof.
    intros Hodd. apply merge_dir_shaped. intros ts' Hl. apply merge_dir_length. now rewrite Hl.
  Qed.

  (** One level of the merged directory reads as the merge of that entry's values. *)
  Lemma mvalue_merge_dir f ts n : Nat.odd (length ts) = true ->
    mvalue accept (merge_dir (S f) ts) n = merge_vals (merge_dir f) (map (lookup n) ts).
  Proof.
    intros Hodd. rewrite merge_dir_S, (mvalue_assemble accept _ (length ts) Hodd).
    - destruct (in_dec N.eq_dec n (names ts)) as [I|I]; [reflexivity|].
      rewrite (lookup_notin_names n ts I). unfold TreeMerge.merge_vals.
      now rewrite tm_repeat.
    - now apply merge_dir_shaped'.
  Qed.

  (** * fuel independence *)
  Lemma merge_vals_ext rec1 rec2 vs :
    (tm vs = None -> is_tree vs = true -> rec1 (map to_tree vs) = rec2 (map to_tree vs)) ->
    merge_vals rec1 vs = merge_vals rec2 vs.
  Proof.
    intros H. unfold TreeMerge.merge_vals. destruct (tm vs) eqn:E; [reflexivity|].
    destruct (is_tree vs) eqn:Et; [|reflexivity]. now rewrite H.
  Qed.

  Lemma is_tree_all_none_or_dir vs :
    is_tree vs = true -> vs = repeat None (length vs) \/ exists s, In (Some (Tree s)) vs.
  Proof.
    unfold is_tree. rewrite Bool.andb_true_iff. intros [_ H]. rewrite forallb_forall in H.
    induction vs as [|v r IH]; [now left|].
    destruct IH as [IH|[s Hs]]; [intros x Hx; apply H; now right| |right; exists s; now right].
    specialize (H v (or_introl eq_refl)). destruct v as [[| | |s]|]; try discriminate.
    - right. exists s. now left.
    - left. cbn [length repeat]. now rewrite <- IH.
  Qed.

  Lemma nontrivial_tree_has_dir vs :
    Nat.odd (length vs) = true -> tm vs = None -> is_tree vs = true ->
    exists s, In (Some (Tree s)) vs.
  Proof.
    intros Hodd Hn Ht. destruct (is_tree_all_none_or_dir vs Ht) as [E|H]; [|assumption].
    rewrite E, tm_repeat in Hn by assumption. discriminate.
  Qed.

  Lemma max_tdepth_sub n ts f :
    (max_tdepth ts <= S f)%nat -> (max_tdepth (map to_tree (map (lookup n) ts)) <= f)%nat.
  Proof.
    rewrite !max_tdepth_le, map_map, Forall_map. apply Forall_impl. intros t Ht.
    pose proof (tdepth_to_tree_lookup n t). lia.
  Qed.

  Lemma merge_dir_fuel f : forall f' ts,
    Nat.odd (length ts) = true -> (max_tdepth ts <= f)%nat -> (max_tdepth ts <= f')%nat ->
    merge_dir (S f) ts = merge_dir (S f') ts.
  Proof.
    induction f as [|f IH]; intros f' ts Hodd Hf Hf'.
    - (* no sub-directories at all *)
      rewrite !merge_dir_S. f_equal. unfold es_of. apply map_ext. intros n. f_equal.
      apply merge_vals_ext. intros Hn Ht. exfalso.
      destruct (nontrivial_tree_has_dir (map (lookup n) ts)) as [s Hs]; auto; [now rewrite map_length|].
      apply in_map_iff in Hs as (t & Hl & Hin). apply to_tree_lookup_depth in Hl.
      rewrite max_tdepth_le, Forall_forall in Hf. apply Hf in Hin. lia.
    - rewrite !merge_dir_S. f_equal. unfold es_of. apply map_ext. intros n. f_equal.
      apply merge_vals_ext. intros Hn Ht.
      destruct (nontrivial_tree_has_dir (map (lookup n) ts)) as [s Hs]; auto; [now rewrite map_length|].
      apply in_map_iff in Hs as (t & Hl & Hin). apply to_tree_lookup_depth in Hl.
      destruct f' as [|f'].
      + rewrite max_tdepth_le, Forall_forall in Hf'. apply Hf' in Hin. lia.
      + apply IH; [now rewrite !map_length|now apply max_tdepth_sub|now apply max_tdepth_sub].
  Qed.

  Lemma merge_dir_full_fuel f ts :
    Nat.odd (length ts) = true -> (max_tdepth ts <= f)%nat ->
    merge_dir (S f) ts = merge_dir_full accept content_merge ts.
  Proof. intros Hodd Hf. unfold merge_dir_full. apply merge_dir_fuel; auto. Qed.
End Dir.
