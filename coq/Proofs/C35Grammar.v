(** The scraped pest rules equal the text the C35/C36 grammar models were written against. *)
From Verif Require Import Gen.Tables Model.C35Grammar.

Lemma grammar_pinned : scraped_rules = expected_rules.
Proof. reflexivity. Qed.
