(** C12, part 1: list facts for [SmallVec::swap_remove] ([vec_swap_remove]) and for
    [Merge::swap_remove] seen through the adds/removes views of the term vector. *)
From Verif Require Import Base.Prelude Model.Merge Model.C12 Proofs.MergeDen Proofs.C01
  Proofs.C01Simp.
From Coq Require Import Lia Arith Permutation.

Lemma set_nth_snoc {X} (l : list X) : forall i x, set_nth i x (l ++ [x]) = set_nth i x l ++ [x].
Proof.
  induction l as [|h t IH]; intros [|i] x; cbn; try reflexivity.
  - now destruct i.
  - now rewrite IH.
Qed.

Lemma set_nth_app_ne {X} (l : list X) : forall i x y,
  i <> length l -> set_nth i x (l ++ [y]) = set_nth i x l ++ [y].
Proof.
  induction l as [|h t IH]; intros [|i] x y H; cbn in *; try reflexivity; try lia.
  - now destruct i.
  - rewrite IH; [reflexivity|lia].
Qed.

(** [swap_remove] on a vector whose last element is [x]. *)
Lemma vsr_snoc {X} (l : list X) i x : vec_swap_remove i (l ++ [x]) = set_nth i x l.
Proof.
  unfold vec_swap_remove. rewrite rev_unit, set_nth_snoc. apply removelast_last.
Qed.

Lemma set_nth_out {X} (l : list X) : forall i x, length l <= i -> set_nth i x l = l.
Proof.
  induction l as [|h t IH]; intros [|i] x H; cbn in *; try reflexivity; try lia.
  rewrite IH; [reflexivity|lia].
Qed.

Lemma set_nth_split {X} (l : list X) : forall i x y,
  nth_error l i = Some y ->
  exists p1 p2, l = p1 ++ y :: p2 /\ set_nth i x l = p1 ++ x :: p2 /\ length p1 = i.
Proof.
  induction l as [|h t IH]; intros [|i] x y H; cbn in *; try discriminate.
  - injection H as ->. exists [], t. auto.
  - destruct (IH i x y H) as (p1 & p2 & A & B & C). exists (h :: p1), p2.
    cbn. rewrite <- A, B, C. auto.
Qed.

(** Removing slot [i] by [swap_remove] removes exactly one occurrence of the element there. *)
Lemma vsr_perm {X} (l : list X) i y :
  nth_error l i = Some y -> Permutation l (y :: vec_swap_remove i l).
Proof.
  intros H. destruct (exists_last (l := l)) as (l' & x & ->); [intros ->; now destruct i|].
  rewrite vsr_snoc. destruct (Nat.lt_ge_cases i (length l')) as [L|G].
  - rewrite nth_error_app1 in H by exact L.
    destruct (set_nth_split l' i x y H) as (p1 & p2 & A & B & _). rewrite B, A.
    rewrite <- app_assoc. cbn [app].
    apply Permutation_trans with (y :: p1 ++ p2 ++ [x]).
    + symmetry. apply Permutation_middle.
    + constructor. apply Permutation_app_head.
      apply Permutation_trans with (x :: p2); [|reflexivity].
      symmetry. apply Permutation_cons_append.
  - rewrite set_nth_out by exact G.
    assert (i = length l').
    { assert (i < length (l' ++ [x])) by (apply nth_error_Some; congruence).
      rewrite app_length in H0. cbn in H0. lia. }
    subst i. rewrite nth_error_app2, Nat.sub_diag in H by lia. cbn in H. injection H as <-.
    symmetry. apply Permutation_cons_append.
Qed.

Lemma vsr_length {X} (l : list X) i : l <> [] -> length (vec_swap_remove i l) = length l - 1.
Proof.
  intros H. destruct (exists_last H) as (l' & x & ->).
  rewrite vsr_snoc, length_set_nth, app_length. cbn. lia.
Qed.

(** * evens / odds *)
Section EO.
  Context {T : Type}.

  Lemma set_nth_nil i (x : T) : set_nth i x [] = [].
  Proof. now destruct i. Qed.
  Lemma evens_cons (x : T) t : evens (x :: t) = x :: odds t.
  Proof. reflexivity. Qed.
  Lemma odds_cons (x : T) t : odds (x :: t) = evens t.
  Proof. reflexivity. Qed.

  Lemma evens_odds_set_nth (l : list T) : forall i x,
    evens (set_nth (2 * i) x l) = set_nth i x (evens l)
    /\ odds (set_nth (2 * i) x l) = odds l
    /\ evens (set_nth (2 * i + 1) x l) = evens l
    /\ odds (set_nth (2 * i + 1) x l) = set_nth i x (odds l).
  Proof.
    intros i. revert l. induction i as [|i IH]; intros l x.
    - destruct l as [|h [|h2 t]]; cbn; auto.
    - replace (2 * S i) with (S (S (2 * i))) by lia.
      replace (S (S (2 * i)) + 1) with (S (S (2 * i + 1))) by lia.
      destruct l as [|h [|h2 t]].
      + cbn. auto.
      + cbn. rewrite set_nth_nil. auto.
      + cbn [set_nth]. rewrite !evens_cons, !odds_cons, !evens_cons.
        destruct (IH t x) as (A & B & C & D). rewrite A, B, C, D. auto.
  Qed.

  Lemma evens_odds_snoc2 (l : list T) : forall r a,
    Nat.odd (length l) = true ->
    evens (l ++ [r; a]) = evens l ++ [a] /\ odds (l ++ [r; a]) = odds l ++ [r].
  Proof.
    intros r a H. destruct (odd_length_split l H) as (b & t & n & -> & Ht). clear H.
    revert b t Ht. induction n as [|n IH]; intros b t Ht.
    - destruct t; [|discriminate]. cbn. auto.
    - destruct t as [|x [|y t]]; try (cbn in Ht; lia).
      assert (Ht' : length t = 2 * n) by (cbn in Ht; lia).
      destruct (IH y t Ht') as [A B]. cbn [app]. cbn [app] in A, B.
      rewrite (evens_cons b (x :: y :: t ++ [r; a])), (odds_cons x (y :: t ++ [r; a])), A.
      rewrite (odds_cons b (x :: y :: t ++ [r; a])), (evens_cons x (y :: t ++ [r; a])), B.
      split; reflexivity.
  Qed.

  Lemma nth_error_evens_odds (l : list T) : forall k,
    nth_error (evens l) k = nth_error l (2 * k) /\ nth_error (odds l) k = nth_error l (2 * k + 1).
  Proof.
    intros k. revert l. induction k as [|k IH]; intros l.
    - destruct l as [|h [|h2 t]]; cbn; auto.
    - replace (2 * S k) with (S (S (2 * k))) by lia.
      replace (S (S (2 * k)) + 1) with (S (S (2 * k + 1))) by lia.
      destruct l as [|h [|h2 t]].
      + cbn. auto.
      + cbn. destruct k; cbn; auto.
      + rewrite (evens_cons h), (odds_cons h2), (odds_cons h), (evens_cons h2).
        cbn [nth_error]. apply IH.
  Qed.

  Lemma length_evens_odds (l : list T) :
    length (evens l) + length (odds l) = length l
    /\ (Nat.odd (length l) = true -> length (evens l) = S (length (odds l)))
    /\ (Nat.even (length l) = true -> length (evens l) = length (odds l)).
  Proof.
    induction l as [|h t (A & B & C)]; [cbn; repeat split; auto; discriminate|].
    rewrite evens_cons, odds_cons. cbn [length]. rewrite Nat.odd_succ, Nat.even_succ.
    repeat split.
    - lia.
    - intros He. rewrite (C He). reflexivity.
    - intros Ho. rewrite (B Ho). reflexivity.
  Qed.

  Lemma in_evens_or_odds (l : list T) x : In x l <-> In x (evens l) \/ In x (odds l).
  Proof.
    induction l as [|h t IH]; cbn [evens odds In]; [tauto|]. rewrite IH. tauto.
  Qed.
End EO.

(** * [Merge::swap_remove] on the adds / removes views *)
Lemma odd_snoc2 {T} (c : list T) :
  Nat.odd (length c) = true -> 3 <= length c ->
  exists c0 r a, c = c0 ++ [r; a] /\ Nat.odd (length c0) = true.
Proof.
  intros Hodd Hlen.
  destruct (exists_last (l := c)) as (c1 & a & ->); [intros ->; cbn in Hlen; lia|].
  destruct (exists_last (l := c1)) as (c0 & r & ->).
  { intros ->. cbn in Hlen. lia. }
  exists c0, r, a. rewrite <- app_assoc. split; [reflexivity|].
  rewrite !app_length in Hodd. cbn [length] in Hodd.
  replace (length c0 + 1 + 1) with (S (S (length c0))) in Hodd by lia.
  now rewrite Nat.odd_succ_succ in Hodd.
Qed.

Lemma msr_snoc2 {A} (c0 : list (option A)) r a ri ai :
  Nat.odd (length c0) = true ->
  merge_swap_remove ri ai (c0 ++ [r; a]) = set_nth (2 * ri + 1) r (set_nth (2 * ai) a c0).
Proof.
  intros Hodd. unfold merge_swap_remove.
  replace (c0 ++ [r; a]) with ((c0 ++ [r]) ++ [a]) by now rewrite <- app_assoc.
  rewrite vsr_snoc, set_nth_app_ne, vsr_snoc; [reflexivity|].
  intros E. assert (H : Nat.odd (2 * ai) = true) by (rewrite E; exact Hodd).
  rewrite Nat.odd_mul in H. discriminate.
Qed.

Lemma msr_adds_removes {A} (c : list (option A)) ri ai :
  Nat.odd (length c) = true -> 3 <= length c ->
  adds (merge_swap_remove ri ai c) = vec_swap_remove ai (adds c)
  /\ removes (merge_swap_remove ri ai c) = vec_swap_remove ri (removes c)
  /\ length (merge_swap_remove ri ai c) = length c - 2.
Proof.
  intros Hodd Hlen. destruct (odd_snoc2 c Hodd Hlen) as (c0 & r & a & -> & H0).
  rewrite (msr_snoc2 c0 r a ri ai H0). unfold adds, removes.
  destruct (evens_odds_snoc2 c0 r a H0) as [E O]. rewrite E, O, !vsr_snoc.
  destruct (evens_odds_set_nth (set_nth (2 * ai) a c0) ri r) as (_ & _ & C & D).
  destruct (evens_odds_set_nth c0 ai a) as (A' & B' & _ & _).
  split; [exact (eq_trans C A')|split; [exact (eq_trans D (f_equal (set_nth ri r) B'))|]].
  rewrite !length_set_nth, app_length. cbn. unfold term. lia.
Qed.
