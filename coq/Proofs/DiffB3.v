(** Layer B, part 3: [lcs_positions], the leading/trailing fallback and the recursion of
    [collect_unchanged_words] return valid, token-equal matchings. *)
From Coq Require Import Lia Arith Sorted Permutation.
From Verif Require Import Base.Prelude Model.Diff Proofs.DiffBase Proofs.DiffA2 Proofs.DiffB1 Proofs.DiffB2.

Lemma nth_error_firstn_lt {A} : forall n (l : list A) k, k < n -> nth_error (firstn n l) k = nth_error l k.
Proof.
  induction n as [|n IH]; intros l k H; [lia|]. destruct l as [|x l]; [now destruct k|].
  destruct k as [|k]; cbn; [reflexivity|]. apply IH. lia.
Qed.
Lemma nth_error_skipn_add {A} : forall s (l : list A) k, nth_error (skipn s l) k = nth_error l (s + k).
Proof.
  induction s as [|s IH]; intros l k; [reflexivity|]. destruct l as [|x l]; [now destruct k|]. cbn. apply IH.
Qed.

Lemma nth_error_slice {A} (l : list A) s e k :
  nth_error (slice l s e) k = if k <? e - s then nth_error l (s + k) else None.
Proof.
  unfold slice. destruct (k <? e - s) eqn:E.
  - apply Nat.ltb_lt in E. rewrite nth_error_firstn_lt by assumption. apply nth_error_skipn_add.
  - apply Nat.ltb_ge in E. apply nth_error_None. rewrite firstn_length. lia.
Qed.

Lemma StronglySorted_app_lt2 (l1 l2 : list (nat * nat)) :
  StronglySorted lt2 l1 -> StronglySorted lt2 l2 ->
  (forall a b, In a l1 -> In b l2 -> lt2 a b) -> StronglySorted lt2 (l1 ++ l2).
Proof.
  intros S1 S2 H. induction S1 as [|a l1 S1 IH Fa]; cbn [app]; [assumption|].
  constructor.
  - apply IH. intros a' b Ha' Hb. apply H; [now right|assumption].
  - apply Forall_app. split; [assumption|]. apply Forall_forall. intros b Hb. apply H; [now left|assumption].
Qed.

Lemma StronglySorted_seq a n : StronglySorted lt (seq a n).
Proof.
  revert a; induction n as [|n IH]; intros a; cbn [seq]; constructor; [apply IH|].
  apply Forall_forall. intros x Hx. apply in_seq in Hx. lia.
Qed.

Section LayerB.
  Context {T : Type} (eqb : T -> T -> bool).
  Hypothesis eqb_spec : forall x y, eqb x y = true <-> x = y.
  Variable order : list (T * list nat) -> list (T * list nat).
  Hypothesis order_perm : forall h, Permutation (order h) h.
  Variable max_occ : nat.

  (** Token equality of a pair of local positions. *)
  Definition tok_eq (left right : list T) (q : nat * nat) : Prop :=
    exists k, nth_error left (fst q) = Some k /\ nth_error right (snd q) = Some k.

  (** * The LCS over a set of position pairs with distinct coordinates *)
  Lemma lcs_core pairs :
    NoDup (map fst pairs) -> NoDup (map snd pairs) ->
    let E := enumerate 0 pairs in
    let LP := sort_by_pos (map (fun sp => (fst (snd sp), fst sp)) E) in
    let RP := sort_by_pos (map (fun sp => (snd (snd sp), fst sp)) E) in
    let libri := map (fun ps => index_of (snd ps) (map snd LP)) RP in
    let R := map (fun lr => (fst (nth (fst lr) LP (0, 0)), fst (nth (snd lr) RP (0, 0)))) (find_lcs libri) in
    StronglySorted lt2 R /\ incl R pairs.
  Proof.
    intros Nf Ns E LP RP libri R.
    set (L0 := map (fun sp : nat * (nat * nat) => (fst (snd sp), fst sp)) E) in *.
    set (R0 := map (fun sp : nat * (nat * nat) => (snd (snd sp), fst sp)) E) in *.
    assert (PL : Permutation LP L0) by apply sort_by_pos_perm.
    assert (PR : Permutation RP R0) by apply sort_by_pos_perm.
    assert (L0f : map fst L0 = map fst pairs).
    { unfold L0. rewrite map_map. cbn [fst]. rewrite <- (map_map snd fst E). unfold E. now rewrite enumerate_snd. }
    assert (R0f : map fst R0 = map snd pairs).
    { unfold R0. rewrite map_map. cbn [fst]. rewrite <- (map_map snd snd E). unfold E. now rewrite enumerate_snd. }
    assert (L0s : map snd L0 = seq 0 (length pairs)).
    { unfold L0. rewrite map_map. cbn [snd]. apply enumerate_fst. }
    assert (R0s : map snd R0 = seq 0 (length pairs)).
    { unfold R0. rewrite map_map. cbn [snd]. apply enumerate_fst. }
    assert (SL : StronglySorted lt_fst LP).
    { apply sorted_le_lt; [apply sort_by_pos_sorted|].
      eapply Permutation_NoDup; [apply Permutation_map; symmetry; exact PL|]. now rewrite L0f. }
    assert (SR : StronglySorted lt_fst RP).
    { apply sorted_le_lt; [apply sort_by_pos_sorted|].
      eapply Permutation_NoDup; [apply Permutation_map; symmetry; exact PR|]. now rewrite R0f. }
    assert (InL : forall lpos s, In (lpos, s) LP -> exists r, nth_error pairs s = Some (lpos, r)).
    { intros lpos s H. apply (Permutation_in _ PL) in H. unfold L0 in H. apply in_map_iff in H.
      destruct H as ([s' [l r]] & Eq & Hin). cbn [fst snd] in Eq. injection Eq as <- <-.
      apply enumerate_in in Hin. rewrite Nat.sub_0_r in Hin. exists r. tauto. }
    assert (InR : forall rpos s, In (rpos, s) RP -> exists l, nth_error pairs s = Some (l, rpos)).
    { intros rpos s H. apply (Permutation_in _ PR) in H. unfold R0 in H. apply in_map_iff in H.
      destruct H as ([s' [l r]] & Eq & Hin). cbn [fst snd] in Eq. injection Eq as <- <-.
      apply enumerate_in in Hin. rewrite Nat.sub_0_r in Hin. exists l. tauto. }
    assert (SerL : forall s, s < length pairs -> In s (map snd LP)).
    { intros s Hs. apply (Permutation_in _ (Permutation_map snd (Permutation_sym PL))).
      rewrite L0s. apply in_seq. lia. }
    destruct (find_lcs_spec libri) as (Ss & Sn & _).
    (* each LCS element denotes one of the pairs *)
    assert (Den : forall q, In q (find_lcs libri) ->
                exists lpos rpos s, nth_error LP (fst q) = Some (lpos, s)
                                    /\ nth_error RP (snd q) = Some (rpos, s)
                                    /\ nth_error pairs s = Some (lpos, rpos)).
    { intros [li ri] Hq. specialize (Sn _ Hq). cbn [fst snd] in *.
      unfold libri in Sn. rewrite nth_error_map in Sn.
      destruct (nth_error RP ri) as [[rpos s]|] eqn:ER; [|discriminate]. cbn in Sn. injection Sn as Sn.
      destruct (InR rpos s (nth_error_In _ _ ER)) as (l0 & Hp).
      assert (Hs : s < length pairs) by (apply nth_error_Some; congruence).
      destruct (index_of_spec s (map snd LP) (SerL s Hs)) as (Hlt & Hnth). cbn [snd] in Sn. rewrite Sn in *.
      rewrite nth_error_map in Hnth. destruct (nth_error LP li) as [[lpos s']|] eqn:EL; [|discriminate].
      cbn in Hnth. injection Hnth as ->.
      destruct (InL lpos s (nth_error_In _ _ EL)) as (r0 & Hp'). rewrite Hp in Hp'. injection Hp' as -> ->.
      exists lpos, r0, s. auto. }
    split.
    - unfold R. apply (StronglySorted_map lt2 lt2 _ _ Ss).
      intros a b Ha Hb (A1 & A2).
      destruct (Den a Ha) as (la & ra & sa & LA & RA & _). destruct (Den b Hb) as (lb & rb & sb & LB & RB & _).
      rewrite (nth_error_nth _ _ _ LA), (nth_error_nth _ _ _ RA), (nth_error_nth _ _ _ LB), (nth_error_nth _ _ _ RB).
      cbn [fst snd]. split.
      + apply (StronglySorted_nth lt_fst LP _ _ _ _ SL A1 LA LB).
      + apply (StronglySorted_nth lt_fst RP _ _ _ _ SR A2 RA RB).
    - unfold R. intros q Hq. apply in_map_iff in Hq. destruct Hq as (a & <- & Ha).
      destruct (Den a Ha) as (la & ra & sa & LA & RA & Hp).
      rewrite (nth_error_nth _ _ _ LA), (nth_error_nth _ _ _ RA). cbn [fst]. eapply nth_error_In; eauto.
  Qed.

  Lemma lcs_positions_spec left right :
    let R := lcs_positions eqb order max_occ left right in
    StronglySorted lt2 R /\ Forall (tok_eq left right) R.
  Proof.
    cbv zeta. unfold lcs_positions.
    destruct (max_occ <? _); [split; constructor|].
    set (both := uncommon_shared eqb order _ _).
    assert (K : keyed left right both).
    { unfold both, uncommon_shared. apply keyed_filter. now apply shared_candidates_keyed. }
    destruct both as [|b0 bt] eqn:Eb; [split; constructor|]. rewrite <- Eb in *. clear Eb b0 bt.
    destruct (pairs_facts left right both K) as (P1 & P2 & P3).
    destruct (lcs_core _ P2 P3) as (S & I). cbv zeta in S, I.
    split; [exact S|]. apply Forall_forall. intros q Hq. apply I in Hq. now apply P1.
  Qed.

  (** * Leading / trailing fallback *)
  Lemma common_prefix_len_spec : forall (l r : list T) k,
    k < common_prefix_len eqb l r -> exists a, nth_error l k = Some a /\ nth_error r k = Some a.
  Proof.
    induction l as [|a l IH]; intros [|b r] k H; cbn [common_prefix_len] in H; try lia.
    destruct (eqb a b) eqn:E; [|lia]. apply eqb_spec in E. subst b.
    destruct k as [|k]; [exists a; split; reflexivity|]. cbn [nth_error]. apply IH. lia.
  Qed.
  Lemma common_prefix_len_le (l r : list T) :
    common_prefix_len eqb l r <= length l /\ common_prefix_len eqb l r <= length r.
  Proof.
    revert r; induction l as [|a l IH]; intros [|b r]; cbn [common_prefix_len length]; try lia.
    destruct (eqb a b); [|lia]. destruct (IH r). lia.
  Qed.

  Lemma nth_error_rev {A} (l : list A) k : k < length l -> nth_error (rev l) k = nth_error l (length l - 1 - k).
  Proof.
    intros H. destruct (nth_error l (length l - 1 - k)) as [x|] eqn:E.
    - rewrite (nth_error_nth' (rev l) x) by (rewrite rev_length; lia).
      rewrite rev_nth by assumption. replace (length l - S k) with (length l - 1 - k) by lia.
      f_equal. now apply nth_error_nth.
    - apply nth_error_None in E. lia.
  Qed.

  Lemma lead_trail_spec left right loff roff :
    let R := lead_trail eqb left right loff roff in
    StronglySorted lt2 R
    /\ Forall (fun q => loff <= fst q /\ roff <= snd q /\ tok_eq left right (fst q - loff, snd q - roff)) R.
  Proof.
    cbv zeta. unfold lead_trail.
    set (lead := common_prefix_len eqb left right).
    set (trail := common_prefix_len eqb (rev (skipn lead left)) (rev (skipn lead right))).
    destruct (common_prefix_len_le left right) as (L1 & L2). fold lead in L1, L2.
    destruct (common_prefix_len_le (rev (skipn lead left)) (rev (skipn lead right))) as (T1 & T2).
    fold trail in T1, T2. rewrite rev_length, skipn_length in T1, T2.
    split.
    - apply StronglySorted_app_lt2.
      + apply (StronglySorted_map lt lt2 _ _ (StronglySorted_seq 0 lead)). intros a b _ _ H. split; cbn; lia.
      + apply (StronglySorted_map lt lt2 _ _ (StronglySorted_seq 0 trail)). intros a b _ _ H. split; cbn; lia.
      + intros a b Ha Hb. apply in_map_iff in Ha, Hb. destruct Ha as (i & <- & Hi). destruct Hb as (j & <- & Hj).
        apply in_seq in Hi, Hj. split; cbn; lia.
    - apply Forall_app. split; apply Forall_map; apply Forall_forall; intros i Hi; apply in_seq in Hi; cbn [fst snd].
      + split; [lia|]. split; [lia|]. replace (loff + i - loff) with i by lia. replace (roff + i - roff) with i by lia.
        apply (common_prefix_len_spec left right i). fold lead. lia.
      + split; [lia|]. split; [lia|].
        replace (loff + (length left - trail + i) - loff) with (length left - trail + i) by lia.
        replace (roff + (length right - trail + i) - roff) with (length right - trail + i) by lia.
        destruct (common_prefix_len_spec (rev (skipn lead left)) (rev (skipn lead right)) (trail - 1 - i)) as (a & A & B);
          [fold trail; lia|].
        rewrite nth_error_rev in A by (rewrite skipn_length; lia).
        rewrite nth_error_rev in B by (rewrite skipn_length; lia).
        rewrite skipn_length, nth_error_skipn_add in A, B.
        exists a. cbn [fst snd]. split.
        * rewrite <- A. f_equal. lia.
        * rewrite <- B. f_equal. lia.
  Qed.

  (** * The recursion *)
  Definition in_window (left right : list T) (loff roff : nat) (q : nat * nat) : Prop :=
    loff <= fst q /\ roff <= snd q /\ tok_eq left right (fst q - loff, snd q - roff).

  Lemma tok_eq_slice left right pl el pr er q :
    tok_eq (slice left pl el) (slice right pr er) q ->
    fst q < el - pl /\ snd q < er - pr /\ tok_eq left right (pl + fst q, pr + snd q).
  Proof.
    intros (k & A & B). rewrite nth_error_slice in A, B.
    destruct (fst q <? el - pl) eqn:E1; [|discriminate]. destruct (snd q <? er - pr) eqn:E2; [|discriminate].
    apply Nat.ltb_lt in E1, E2. repeat split; try assumption. exists k. split; assumption.
  Qed.

  Theorem cuw_spec : forall fuel left right loff roff,
    let R := cuw eqb order max_occ fuel left right loff roff in
    StronglySorted lt2 R /\ Forall (in_window left right loff roff) R.
  Proof.
    induction fuel as [|f IH]; intros left right loff roff; cbn [cuw]; cbv zeta; [split; constructor|].
    destruct (is_nil left || is_nil right); [split; constructor|].
    destruct (lcs_positions_spec left right) as (Ls & Le). cbv zeta in Ls, Le.
    set (lcs := lcs_positions eqb order max_occ left right) in *.
    set (go := fix go (prevl prevr : nat) (lcs : list (nat * nat)) : list (nat * nat) :=
                 match lcs with
                 | [] => cuw eqb order max_occ f (slice left prevl (length left)) (slice right prevr (length right))
                             (loff + prevl) (roff + prevr)
                 | (lp, rp) :: t =>
                     cuw eqb order max_occ f (slice left prevl lp) (slice right prevr rp)
                         (loff + prevl) (roff + prevr)
                     ++ (loff + lp, roff + rp) :: go (S lp) (S rp) t
                 end).
    assert (G : forall l prevl prevr,
               StronglySorted lt2 l -> Forall (tok_eq left right) l ->
               Forall (fun q => prevl <= fst q /\ prevr <= snd q) l ->
               StronglySorted lt2 (go prevl prevr l)
               /\ Forall (fun q => in_window left right loff roff q
                                   /\ loff + prevl <= fst q /\ roff + prevr <= snd q) (go prevl prevr l)).
    { induction l as [|[lp rp] t IHl]; intros prevl prevr Hs He Hb; cbn [go].
      - destruct (IH (slice left prevl (length left)) (slice right prevr (length right))
                     (loff + prevl) (roff + prevr)) as (S1 & W1).
        split; [assumption|]. eapply Forall_impl; [|exact W1]. intros q (A & B & C).
        apply tok_eq_slice in C. cbn [fst snd] in C. destruct C as (C1 & C2 & C3).
        split; [|split; assumption]. split; [lia|]. split; [lia|].
        replace (fst q - loff) with (prevl + (fst q - (loff + prevl))) by lia.
        replace (snd q - roff) with (prevr + (snd q - (roff + prevr))) by lia. exact C3.
      - inversion Hs as [|? ? Hs' Hf]; subst. inversion He as [|? ? He1 He']; subst.
        inversion Hb as [|? ? (Hb1 & Hb2) Hb']; subst. cbn [fst snd] in *.
        destruct (IH (slice left prevl lp) (slice right prevr rp) (loff + prevl) (roff + prevr)) as (S1 & W1).
        destruct (IHl (S lp) (S rp) Hs' He') as (S2 & W2).
        { eapply Forall_impl; [|exact Hf]. intros q (A & B). cbn in A, B. lia. }
        assert (W1' : Forall (fun q => (in_window left right loff roff q
                                        /\ loff + prevl <= fst q /\ roff + prevr <= snd q)
                                       /\ fst q < loff + lp /\ snd q < roff + rp)
                             (cuw eqb order max_occ f (slice left prevl lp) (slice right prevr rp)
                                  (loff + prevl) (roff + prevr))).
        { eapply Forall_impl; [|exact W1]. intros q (A & B & C).
          apply tok_eq_slice in C. cbn [fst snd] in C. destruct C as (C1 & C2 & C3).
          split; [|lia]. split; [|split; assumption]. split; [lia|]. split; [lia|].
          replace (fst q - loff) with (prevl + (fst q - (loff + prevl))) by lia.
          replace (snd q - roff) with (prevr + (snd q - (roff + prevr))) by lia. exact C3. }
        split.
        + apply sorted_app_mid; auto.
          * eapply Forall_impl; [|exact W1']. intros q (_ & A & B). split; cbn; lia.
          * eapply Forall_impl; [|exact W2]. intros q (_ & A & B). split; cbn; lia.
          * intros a b Ha Hb0. rewrite Forall_forall in W1', W2.
            destruct (W1' a Ha) as (_ & A1 & A2). destruct (W2 b Hb0) as (_ & B1 & B2). split; lia.
        + apply Forall_app. split.
          * eapply Forall_impl; [|exact W1']. cbn. tauto.
          * constructor.
            -- cbn [fst snd]. split; [|lia]. unfold in_window. cbn [fst snd].
               split; [lia|]. split; [lia|].
               replace (loff + lp - loff) with lp by lia. replace (roff + rp - roff) with rp by lia. exact He1.
            -- eapply Forall_impl; [|exact W2]. cbn. intros q (A & B & C). split; [assumption|lia]. }
    assert (Found : StronglySorted lt2 (match lcs with [] => [] | _ :: _ => go 0 0 lcs end)
                    /\ Forall (in_window left right loff roff) (match lcs with [] => [] | _ :: _ => go 0 0 lcs end)).
    { destruct lcs as [|q0 t] eqn:El; [split; constructor|]. rewrite <- El in *.
      destruct (G lcs 0 0 Ls Le) as (A & B).
      - apply Forall_forall. intros; lia.
      - split; [assumption|]. eapply Forall_impl; [|exact B]. cbn. tauto. }
    fold go. destruct (match lcs with [] => [] | _ :: _ => go 0 0 lcs end) as [|x xs] eqn:Ef.
    - destruct (lead_trail_spec left right loff roff) as (A & B). cbv zeta in A, B. split; assumption.
    - exact Found.
  Qed.
End LayerB.
