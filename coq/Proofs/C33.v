(** Proofs for C33: the graphs of [parse_git_ref] and [to_git_ref_name] are characterised
    exactly; round trips, injectivity and the meaning of the checker follow. *)
From Verif Require Import Base.Prelude Gen.Tables Model.C33.
From Coq Require Import Lia.
Local Open Scope N_scope.

(** ** Equality tests *)
Lemma list_eqb_eq {A} (eqb : A -> A -> bool) :
  (forall x y, eqb x y = true <-> x = y) ->
  forall l1 l2, list_eqb eqb l1 l2 = true <-> l1 = l2.
Proof.
  intros H l1; induction l1 as [|x xs IH]; intros [|y ys]; cbn; try (split; congruence).
  rewrite andb_true_iff, H, IH. split; [intros [-> ->]; reflexivity | intros E; inversion E; auto].
Qed.

Lemma bytes_eqb_eq a b : bytes_eqb a b = true <-> a = b.
Proof. apply list_eqb_eq. intros; apply N.eqb_eq. Qed.
Lemma bytes_eqb_refl a : bytes_eqb a a = true.
Proof. apply bytes_eqb_eq; reflexivity. Qed.
Lemma bytes_eqb_neq a b : bytes_eqb a b = false <-> a <> b.
Proof.
  split.
  - intros H E. apply bytes_eqb_eq in E. congruence.
  - intros H. destruct (bytes_eqb a b) eqn:E; auto. apply bytes_eqb_eq in E. contradiction.
Qed.

Lemma kind_eqb_eq a b : kind_eqb a b = true <-> a = b.
Proof. destruct a, b; cbn; split; congruence. Qed.
Lemma symbol_eqb_eq a b : symbol_eqb a b = true <-> a = b.
Proof.
  destruct a as [a1 a2], b as [b1 b2]; unfold symbol_eqb; cbn [fst snd].
  rewrite andb_true_iff, !bytes_eqb_eq. split; [intros [-> ->]; reflexivity | intros E; inversion E; auto].
Qed.
Lemma ksym_eqb_eq a b : ksym_eqb a b = true <-> a = b.
Proof.
  destruct a as [a1 a2], b as [b1 b2]; unfold ksym_eqb; cbn [fst snd].
  rewrite andb_true_iff, kind_eqb_eq, symbol_eqb_eq.
  split; [intros [-> ->]; reflexivity | intros E; inversion E; auto].
Qed.
Lemma option_eqb_eq {A} (eqb : A -> A -> bool) :
  (forall x y, eqb x y = true <-> x = y) ->
  forall o1 o2, option_eqb eqb o1 o2 = true <-> o1 = o2.
Proof.
  intros H [x|] [y|]; cbn; try (split; congruence).
  rewrite H. split; congruence.
Qed.
Lemma rv_eqb_eq a b : rv_eqb a b = true <-> a = b.
Proof. destruct a, b; cbn; split; congruence. Qed.

(** ** [strip_prefix], [split_once], [contains] *)
Lemma strip_prefix_app p s : strip_prefix p (p ++ s) = Some s.
Proof. induction p as [|a p IH]; cbn; auto. rewrite N.eqb_refl. exact IH. Qed.

Lemma strip_prefix_Some p s t : strip_prefix p s = Some t -> s = p ++ t.
Proof.
  revert s; induction p as [|a p IH]; intros s H; cbn in *.
  - congruence.
  - destruct s as [|b s]; [discriminate|].
    destruct (N.eqb a b) eqn:E; [|discriminate].
    apply N.eqb_eq in E; subst b. f_equal. auto.
Qed.

Lemma strip_prefix_iff p s t : strip_prefix p s = Some t <-> s = p ++ t.
Proof. split; [apply strip_prefix_Some | intros ->; apply strip_prefix_app]. Qed.

Lemma contains_app c a b : contains c (a ++ b) = contains c a || contains c b.
Proof. unfold contains. apply existsb_app. Qed.

Lemma split_once_app c l r :
  contains c l = false -> split_once c (l ++ c :: r) = Some (l, r).
Proof.
  induction l as [|b l IH]; cbn; intros H.
  - rewrite N.eqb_refl. reflexivity.
  - apply orb_false_iff in H as [H1 H2]. rewrite N.eqb_sym, H1, IH; auto.
Qed.

Lemma split_once_Some c s l r :
  split_once c s = Some (l, r) -> s = l ++ c :: r /\ contains c l = false.
Proof.
  revert l r; induction s as [|b s IH]; cbn; intros l r H; [discriminate|].
  destruct (N.eqb b c) eqn:E.
  - apply N.eqb_eq in E. inversion H; subst. auto.
  - destruct (split_once c s) as [[l' r']|]; [|discriminate].
    inversion H; subst. destruct (IH _ _ eq_refl) as [-> Hc].
    split; auto. cbn. rewrite N.eqb_sym, E. exact Hc.
Qed.

Lemma split_once_iff c s l r :
  split_once c s = Some (l, r) <-> s = l ++ c :: r /\ contains c l = false.
Proof. split; [apply split_once_Some | intros [-> H]; apply split_once_app, H]. Qed.

(** A name with a separator splits at its FIRST separator. *)
Lemma contains_split c s :
  contains c s = true -> exists l r, s = l ++ c :: r /\ contains c l = false.
Proof.
  induction s as [|b s IH]; cbn; [discriminate|].
  destruct (N.eqb c b) eqn:E; cbn.
  - intros _. apply N.eqb_eq in E; subst. exists [], s. auto.
  - intros H. destruct (IH H) as (l & r & -> & Hl). exists (b :: l), r. cbn. rewrite E. auto.
Qed.

(** ** The scraped literals: the facts about them that the theorems rest on. Each is
    checked by computation on the values in Gen/Tables.v, so editing a literal in the
    source so that one of these fails breaks the proofs (not merely a test). *)
Notation HEADS := C33_PARSE_HEADS_NS.
Notation TAGS := C33_PARSE_TAGS_NS.
Notation HEAD := C33_PARSE_LOCAL_HEAD.

Lemma lit_split_char : char_of C33_SPLIT_CHAR = SLASH. Proof. reflexivity. Qed.
Lemma lit_split2_char : char_of C33_SPLIT2_CHAR = SLASH. Proof. reflexivity. Qed.
Lemma lit_validate_char : char_of C33_VALIDATE_SLASH = SLASH. Proof. reflexivity. Qed.
Lemma lit_export_sep : C33_EXPORT_SEP = [SLASH]. Proof. reflexivity. Qed.
Lemma lit_export2_sep : C33_EXPORT2_SEP = [SLASH]. Proof. reflexivity. Qed.
Lemma lit_export_heads : C33_EXPORT_HEADS_NS = HEADS. Proof. reflexivity. Qed.
Lemma lit_export_tags : C33_EXPORT_TAGS_NS = TAGS. Proof. reflexivity. Qed.
Lemma lit_export2_tags : C33_EXPORT2_TAGS_NS = TAGS. Proof. reflexivity. Qed.
Lemma lit_remote_head : C33_PARSE_REMOTE_HEAD = HEAD. Proof. reflexivity. Qed.
Lemma lit_export_head : C33_EXPORT_HEAD = HEAD. Proof. reflexivity. Qed.
Lemma lit_local_no_slash : no_slash LOCAL = true. Proof. reflexivity. Qed.
Lemma lit_local_nonempty : LOCAL <> []. Proof. discriminate. Qed.
Lemma lit_head_nonempty : HEAD <> []. Proof. discriminate. Qed.

(** The namespaces are pairwise prefix-free (no name lies in two of them). *)
Lemma ns_heads_remotes x : strip_prefix HEADS (REMOTES ++ x) = None. Proof. reflexivity. Qed.
Lemma ns_heads_tags x : strip_prefix HEADS (TAGS ++ x) = None. Proof. reflexivity. Qed.
Lemma ns_remotes_tags x : strip_prefix REMOTES (TAGS ++ x) = None. Proof. reflexivity. Qed.
Lemma ns_heads_rtags x : strip_prefix HEADS (RTAGS ++ x) = None. Proof. reflexivity. Qed.
Lemma ns_remotes_rtags x : strip_prefix REMOTES (RTAGS ++ x) = None. Proof. reflexivity. Qed.
Lemma ns_tags_rtags x : strip_prefix TAGS (RTAGS ++ x) = None. Proof. reflexivity. Qed.
Lemma ns_rtags_heads x : strip_prefix RTAGS (HEADS ++ x) = None. Proof. reflexivity. Qed.
Lemma ns_rtags_remotes x : strip_prefix RTAGS (REMOTES ++ x) = None. Proof. reflexivity. Qed.
Lemma ns_rtags_tags x : strip_prefix RTAGS (TAGS ++ x) = None. Proof. reflexivity. Qed.
(** Every namespace ends with the separator. *)
Lemma ns_heads_last : exists p, HEADS = p ++ [SLASH]. Proof. eexists (removelast HEADS). reflexivity. Qed.
Lemma ns_tags_last : exists p, TAGS = p ++ [SLASH]. Proof. eexists (removelast TAGS). reflexivity. Qed.
Lemma ns_remotes_last : exists p, REMOTES = p ++ [SLASH]. Proof. eexists (removelast REMOTES). reflexivity. Qed.

Lemma no_slash_iff s : no_slash s = true <-> contains SLASH s = false.
Proof. unfold no_slash. apply negb_true_iff. Qed.

(** ** Exact graph of [parse_git_ref] *)
Definition parse_graph (r : bytes) (k : kind) (n rm : bytes) : Prop :=
  (k = Bookmark /\ rm = LOCAL /\ r = HEADS ++ n /\ n <> HEAD)
  \/ (k = Bookmark /\ rm <> LOCAL /\ no_slash rm = true /\ n <> HEAD
      /\ r = REMOTES ++ rm ++ [SLASH] ++ n)
  \/ (k = Tag /\ rm = LOCAL /\ r = TAGS ++ n).

Lemma parse_git_ref_graph r k n rm :
  parse_git_ref r = Some (k, (n, rm)) <-> parse_graph r k n rm.
Proof.
  unfold parse_git_ref, parse_graph. rewrite lit_split_char, lit_remote_head. split.
  - destruct (strip_prefix HEADS r) as [name|] eqn:E1.
    { apply strip_prefix_Some in E1. destruct (bytes_eqb name HEAD) eqn:E2; [discriminate|].
      apply bytes_eqb_neq in E2. intros H; inversion H; subst. left; auto. }
    destruct (strip_prefix REMOTES r) as [rn|] eqn:E2.
    { apply strip_prefix_Some in E2.
      destruct (split_once SLASH rn) as [[remote name]|] eqn:E3; [|discriminate].
      apply split_once_Some in E3 as [-> Hc].
      destruct (bytes_eqb remote LOCAL) eqn:E4; [discriminate|].
      destruct (bytes_eqb name HEAD) eqn:E5; [discriminate|]. cbn [orb].
      apply bytes_eqb_neq in E4, E5. intros H; inversion H; subst.
      right; left. repeat split; auto. apply no_slash_iff; auto. }
    destruct (strip_prefix TAGS r) as [name|] eqn:E3; [|discriminate].
    apply strip_prefix_Some in E3. intros H; inversion H; subst. right; right; auto.
  - intros [(-> & -> & -> & Hn) | [(-> & Hrm & Hs & Hn & ->) | (-> & -> & ->)]].
    + rewrite strip_prefix_app. apply bytes_eqb_neq in Hn. rewrite Hn. reflexivity.
    + rewrite ns_heads_remotes, strip_prefix_app.
      cbn [app]. rewrite split_once_app by (apply no_slash_iff; auto).
      apply bytes_eqb_neq in Hrm, Hn. rewrite Hrm, Hn. reflexivity.
    + rewrite ns_heads_tags, ns_remotes_tags, strip_prefix_app. reflexivity.
Qed.

(** ** Exact graph of [to_git_ref_name] *)
Definition export_graph (k : kind) (n rm : bytes) (r : bytes) : Prop :=
  n <> [] /\ rm <> [] /\
  ((k = Bookmark /\ n <> HEAD /\ rm = LOCAL /\ r = HEADS ++ n)
   \/ (k = Bookmark /\ n <> HEAD /\ rm <> LOCAL /\ r = REMOTES ++ rm ++ [SLASH] ++ n)
   \/ (k = Tag /\ rm = LOCAL /\ r = TAGS ++ n)).

Lemma is_empty_false s : is_empty s = false <-> s <> [].
Proof. destruct s; cbn; split; congruence. Qed.

Lemma to_git_ref_name_graph k n rm r :
  to_git_ref_name k (n, rm) = Some r <-> export_graph k n rm r.
Proof.
  unfold to_git_ref_name, export_graph, sym_name, sym_remote; cbn [fst snd].
  rewrite lit_export_head, lit_export_heads, lit_export_tags, lit_export_sep. split.
  - destruct (is_empty n) eqn:En; [discriminate|].
    destruct (is_empty rm) eqn:Er; [discriminate|]. cbn [orb].
    apply is_empty_false in En, Er. destruct k.
    + destruct (bytes_eqb n HEAD) eqn:E1; [discriminate|]. apply bytes_eqb_neq in E1.
      destruct (bytes_eqb rm LOCAL) eqn:E2.
      * apply bytes_eqb_eq in E2. intros H; inversion H; subst. repeat split; auto.
      * apply bytes_eqb_neq in E2. intros H; inversion H; subst.
        repeat split; auto. right; left; auto.
    + destruct (bytes_eqb rm LOCAL) eqn:E2; [|discriminate].
      apply bytes_eqb_eq in E2. intros H; inversion H; subst. repeat split; auto.
  - intros (Hn & Hr & H). apply is_empty_false in Hn, Hr. rewrite Hn, Hr. cbn [orb].
    destruct H as [(-> & Hh & -> & ->) | [(-> & Hh & Hl & ->) | (-> & -> & ->)]].
    + apply bytes_eqb_neq in Hh. rewrite Hh, bytes_eqb_refl. reflexivity.
    + apply bytes_eqb_neq in Hh, Hl. rewrite Hh, Hl. reflexivity.
    + rewrite bytes_eqb_refl. reflexivity.
Qed.

(** ** Round trips *)

(** Exported then parsed: the same kind and symbol come back exactly when the remote name
    has no '/' (what [validate_remote_name] enforces; the reserved remote has none). *)
Lemma export_import k n rm r :
  to_git_ref_name k (n, rm) = Some r ->
  (parse_git_ref r = Some (k, (n, rm)) <-> no_slash rm = true).
Proof.
  intros H. apply to_git_ref_name_graph in H as (Hn & Hr & H).
  rewrite parse_git_ref_graph. unfold parse_graph.
  destruct H as [(-> & Hh & -> & ->) | [(-> & Hh & Hl & ->) | (-> & -> & ->)]].
  - split; [intros _; apply lit_local_no_slash | intros _; left; auto].
  - split.
    + intros [(_ & E & _) | [(_ & _ & Hs & _) | (E & _)]]; congruence.
    + intros Hs. right; left; auto.
  - split; [intros _; apply lit_local_no_slash | intros _; right; right; auto].
Qed.

Lemma export_import_valid k n rm r :
  to_git_ref_name k (n, rm) = Some r -> no_slash rm = true ->
  parse_git_ref r = Some (k, (n, rm)).
Proof. intros H Hs. apply (export_import _ _ _ _ H), Hs. Qed.

(** With a '/' in the remote name the exported ref is imported as a DIFFERENT symbol:
    the remote is cut at its first '/'. *)
Lemma export_import_slash_remote n a b r :
  to_git_ref_name Bookmark (n, a ++ SLASH :: b) = Some r -> no_slash a = true ->
  a <> LOCAL ->
  parse_git_ref r = Some (Bookmark, (b ++ SLASH :: n, a)).
Proof.
  intros H Ha Hl. apply to_git_ref_name_graph in H as (Hn & Hr & H).
  apply parse_git_ref_graph. right; left.
  destruct H as [(_ & Hh & E & ->) | [(_ & Hh & _ & ->) | (E & _)]]; [| |discriminate].
  - exfalso. assert (Hc : no_slash (a ++ SLASH :: b) = true) by (rewrite E; reflexivity).
    apply no_slash_iff in Hc. rewrite contains_app in Hc. cbn in Hc.
    rewrite orb_true_r in Hc. discriminate.
  - repeat split; auto.
    + intros E. assert (Hlen : length (b ++ SLASH :: n) = length HEAD) by (rewrite E; reflexivity).
      assert (Hc : contains SLASH (b ++ SLASH :: n) = contains SLASH HEAD) by (rewrite E; reflexivity).
      rewrite contains_app in Hc. cbn in Hc. rewrite orb_true_r in Hc. discriminate.
    + rewrite <- !app_assoc. reflexivity.
Qed.

(** Parsed then exported: the same ref comes back exactly when neither part is empty. *)
Lemma import_export r k n rm :
  parse_git_ref r = Some (k, (n, rm)) ->
  (to_git_ref_name k (n, rm) = Some r <-> n <> [] /\ rm <> []).
Proof.
  intros H. apply parse_git_ref_graph in H.
  rewrite to_git_ref_name_graph. unfold export_graph.
  destruct H as [(-> & -> & -> & Hn) | [(-> & Hrm & Hs & Hn & ->) | (-> & -> & ->)]].
  - split; [intros (A & B & _); auto | intros (A & B); repeat split; auto].
  - split; [intros (A & B & _); auto | intros (A & B); repeat split; auto].
    right; left; auto.
  - split; [intros (A & B & _); auto | intros (A & B); repeat split; auto].
Qed.

(** A ref without empty path components (every ref Git accepts) has non-empty parts. *)
Lemma wf_from_app_sep b p s :
  wf_from b (p ++ SLASH :: s) = true -> wf_from true s = true.
Proof.
  revert b; induction p as [|c p IH]; intros b; cbn.
  - intros H. apply andb_true_iff in H as [_ H]. exact H.
  - destruct (N.eqb c SLASH).
    + intros H. apply andb_true_iff in H as [_ H]. eauto.
    + eauto.
Qed.

Lemma wf_true_nonempty s : wf_from true s = true -> s <> [].
Proof. destruct s; cbn; congruence. Qed.

Lemma parse_parts_nonempty r k n rm :
  no_empty_component r = true -> parse_git_ref r = Some (k, (n, rm)) -> n <> [] /\ rm <> [].
Proof.
  unfold no_empty_component. intros W H. apply parse_git_ref_graph in H.
  destruct H as [(-> & -> & -> & Hn) | [(-> & Hrm & Hs & Hn & ->) | (-> & -> & ->)]].
  - destruct ns_heads_last as [p E]. rewrite E, <- app_assoc in W. cbn in W.
    apply wf_from_app_sep, wf_true_nonempty in W. split; [exact W | apply lit_local_nonempty].
  - destruct ns_remotes_last as [p E]. rewrite E, <- app_assoc in W. cbn [app] in W.
    apply wf_from_app_sep in W. split.
    + apply wf_from_app_sep, wf_true_nonempty in W. exact W.
    + intros ->. cbn in W. discriminate.
  - destruct ns_tags_last as [p E]. rewrite E, <- app_assoc in W. cbn in W.
    apply wf_from_app_sep, wf_true_nonempty in W. split; [exact W | apply lit_local_nonempty].
Qed.

Lemma import_export_valid r k n rm :
  no_empty_component r = true -> parse_git_ref r = Some (k, (n, rm)) ->
  to_git_ref_name k (n, rm) = Some r.
Proof.
  intros W H. apply (import_export _ _ _ _ H). eapply parse_parts_nonempty; eauto.
Qed.

(** A parsed remote name never contains '/' (so it satisfies the export hypothesis). *)
Lemma parse_remote_no_slash r k n rm :
  parse_git_ref r = Some (k, (n, rm)) -> no_slash rm = true.
Proof.
  intros H. apply parse_git_ref_graph in H.
  destruct H as [(_ & -> & _) | [(_ & _ & Hs & _) | (_ & -> & _)]];
    auto using lit_local_no_slash.
Qed.

(** ** Injectivity *)
Lemma export_injective k n rm k' n' rm' r :
  to_git_ref_name k (n, rm) = Some r -> to_git_ref_name k' (n', rm') = Some r ->
  no_slash rm = true -> no_slash rm' = true ->
  (k, (n, rm)) = (k', (n', rm')).
Proof.
  intros H1 H2 S1 S2.
  pose proof (export_import_valid _ _ _ _ H1 S1) as P1.
  pose proof (export_import_valid _ _ _ _ H2 S2) as P2.
  congruence.
Qed.

Lemma parse_injective r r' x :
  parse_git_ref r = Some x -> parse_git_ref r' = Some x -> r = r'.
Proof.
  destruct x as [k [n rm]]. intros H1 H2.
  apply parse_git_ref_graph in H1, H2. unfold parse_graph in *.
  destruct H1 as [(-> & -> & -> & Hn) | [(-> & Hrm & Hs & Hn & ->) | (-> & -> & ->)]];
  destruct H2 as [(E1 & E2 & -> & _) | [(E1 & E2 & _ & _ & ->) | (E1 & E2 & ->)]];
    try reflexivity; try congruence; try discriminate.
Qed.

(** Distinct kinds never share a ref (needs no hypothesis on the remote names). *)
Lemma app_ns_neq P Q (H : forall x, strip_prefix P (Q ++ x) = None) a b :
  P ++ a = Q ++ b -> False.
Proof. intros E. pose proof (strip_prefix_app P a) as S. rewrite E, H in S. discriminate. Qed.

Lemma export_kind_determined k n rm k' n' rm' r :
  to_git_ref_name k (n, rm) = Some r -> to_git_ref_name k' (n', rm') = Some r -> k = k'.
Proof.
  intros H1 H2. apply to_git_ref_name_graph in H1 as (_ & _ & H1), H2 as (_ & _ & H2).
  destruct H1 as [(-> & _ & _ & ->) | [(-> & _ & _ & ->) | (-> & _ & ->)]];
  destruct H2 as [(-> & _ & _ & E) | [(-> & _ & _ & E) | (-> & _ & E)]]; try reflexivity; exfalso;
    first [ exact (app_ns_neq _ _ ns_heads_tags _ _ E)
          | exact (app_ns_neq _ _ ns_remotes_tags _ _ E)
          | exact (app_ns_neq _ _ ns_heads_tags _ _ (eq_sym E))
          | exact (app_ns_neq _ _ ns_remotes_tags _ _ (eq_sym E)) ].
Qed.

(** ** The HEAD and reserved-remote exclusions, exactly *)
Lemma parse_none_iff r :
  parse_git_ref r = None <->
  (forall n, r = HEADS ++ n -> n = HEAD) /\
  (forall rm n, r = REMOTES ++ rm ++ [SLASH] ++ n -> no_slash rm = true -> rm = LOCAL \/ n = HEAD) /\
  (forall n, r <> TAGS ++ n).
Proof.
  split.
  - intros H. repeat split.
    + intros n ->. destruct (bytes_eqb n HEAD) eqn:E; [apply bytes_eqb_eq; auto|].
      apply bytes_eqb_neq in E.
      assert (P : parse_git_ref (HEADS ++ n) = Some (Bookmark, (n, LOCAL)))
        by (apply parse_git_ref_graph; left; auto). congruence.
    + intros rm n -> Hs.
      destruct (bytes_eqb rm LOCAL) eqn:E1; [left; apply bytes_eqb_eq; auto|].
      destruct (bytes_eqb n HEAD) eqn:E2; [right; apply bytes_eqb_eq; auto|].
      apply bytes_eqb_neq in E1, E2.
      assert (P : parse_git_ref (REMOTES ++ rm ++ [SLASH] ++ n) = Some (Bookmark, (n, rm)))
        by (apply parse_git_ref_graph; right; left; auto). congruence.
    + intros n ->.
      assert (P : parse_git_ref (TAGS ++ n) = Some (Tag, (n, LOCAL)))
        by (apply parse_git_ref_graph; right; right; auto). congruence.
  - intros (A & B & C). destruct (parse_git_ref r) as [[k [n rm]]|] eqn:E; auto.
    apply parse_git_ref_graph in E.
    destruct E as [(_ & _ & -> & Hn) | [(_ & Hrm & Hs & Hn & ->) | (_ & _ & ->)]].
    + specialize (A _ eq_refl). contradiction.
    + destruct (B _ _ eq_refl Hs); contradiction.
    + exfalso. apply (C n). reflexivity.
Qed.

Lemma export_none_iff k n rm :
  to_git_ref_name k (n, rm) = None <->
  n = [] \/ rm = [] \/ (k = Bookmark /\ n = HEAD) \/ (k = Tag /\ rm <> LOCAL).
Proof.
  split.
  - intros H.
    destruct (is_empty n) eqn:En. { left. destruct n; [reflexivity|discriminate]. }
    destruct (is_empty rm) eqn:Er. { right; left. destruct rm; [reflexivity|discriminate]. }
    apply is_empty_false in En, Er.
    right; right.
    destruct k.
    + left. split; auto. destruct (bytes_eqb n HEAD) eqn:E; [apply bytes_eqb_eq; auto|].
      apply bytes_eqb_neq in E. exfalso.
      destruct (bytes_eqb rm LOCAL) eqn:E2.
      * apply bytes_eqb_eq in E2.
        assert (P : to_git_ref_name Bookmark (n, rm) = Some (HEADS ++ n)).
        { apply to_git_ref_name_graph. repeat split; auto. }
        congruence.
      * apply bytes_eqb_neq in E2.
        assert (P : to_git_ref_name Bookmark (n, rm) = Some (REMOTES ++ rm ++ [SLASH] ++ n)).
        { apply to_git_ref_name_graph. repeat split; auto. right; left; auto. }
        congruence.
    + right. split; auto. intros E.
      assert (P : to_git_ref_name Tag (n, rm) = Some (TAGS ++ n)).
      { apply to_git_ref_name_graph. repeat split; auto. }
      congruence.
  - intros H. destruct (to_git_ref_name k (n, rm)) as [r|] eqn:E; auto. exfalso.
    apply to_git_ref_name_graph in E as (Hn & Hr & E).
    destruct H as [-> | [-> | [(-> & ->) | (-> & Hl)]]]; try contradiction.
    + destruct E as [(_ & Hh & _) | [(_ & Hh & _) | (E & _)]]; try contradiction; discriminate.
    + destruct E as [(E & _) | [(E & _) | (_ & E & _)]]; try discriminate; contradiction.
Qed.

(** ** [validate_remote_name] *)
Lemma validate_ok_iff g rm :
  validate_remote_name g rm = RvOk <-> g = true /\ rm <> LOCAL /\ no_slash rm = true.
Proof.
  unfold validate_remote_name. rewrite lit_validate_char. unfold no_slash.
  destruct g; cbn [negb].
  - destruct (bytes_eqb rm LOCAL) eqn:E.
    + apply bytes_eqb_eq in E. split; [discriminate | intros (_ & H & _); contradiction].
    + apply bytes_eqb_neq in E. destruct (contains SLASH rm); cbn; split; auto; try discriminate.
      intros (_ & _ & H); discriminate.
  - split; [discriminate | intros (H & _); discriminate].
Qed.

(** An accepted remote name yields refs that come back, for every exportable name. *)
Lemma valid_remote_roundtrip g rm k n r :
  validate_remote_name g rm = RvOk -> to_git_ref_name k (n, rm) = Some r ->
  parse_git_ref r = Some (k, (n, rm)).
Proof.
  intros V H. apply validate_ok_iff in V as (_ & _ & S). eapply export_import_valid; eauto.
Qed.

(** ** Remote-tag refs (refs/jj/remote-tags/) *)
Lemma rtag_export_parse n rm :
  no_slash rm = true -> rm <> LOCAL ->
  parse_remote_tag_ref (to_git_or_remote_tag_ref_name (n, rm)) = Some (Tag, (n, rm)).
Proof.
  intros Hs Hl. unfold to_git_or_remote_tag_ref_name, parse_remote_tag_ref, sym_name, sym_remote.
  cbn [fst snd]. apply bytes_eqb_neq in Hl. rewrite Hl, lit_export2_sep, lit_split2_char.
  rewrite strip_prefix_app. cbn [app]. rewrite split_once_app by (apply no_slash_iff; auto).
  rewrite Hl. reflexivity.
Qed.

Lemma rtag_not_imported_as_git_ref n rm :
  rm <> LOCAL -> parse_git_ref (to_git_or_remote_tag_ref_name (n, rm)) = None.
Proof.
  intros Hl. unfold to_git_or_remote_tag_ref_name, parse_git_ref, sym_name, sym_remote.
  cbn [fst snd]. apply bytes_eqb_neq in Hl. rewrite Hl.
  rewrite ns_heads_rtags, ns_remotes_rtags, ns_tags_rtags. reflexivity.
Qed.

Lemma rtag_local_is_git_tag n :
  to_git_or_remote_tag_ref_name (n, LOCAL) = TAGS ++ n /\
  (n <> [] -> to_git_ref_name Tag (n, LOCAL) = Some (to_git_or_remote_tag_ref_name (n, LOCAL))).
Proof.
  unfold to_git_or_remote_tag_ref_name, sym_name, sym_remote. cbn [fst snd].
  rewrite bytes_eqb_refl, lit_export2_tags. split; auto.
  intros Hn. apply to_git_ref_name_graph. repeat split; auto using lit_local_nonempty.
Qed.

Lemma rtag_parse_export r n rm :
  parse_remote_tag_ref r = Some (Tag, (n, rm)) ->
  to_git_or_remote_tag_ref_name (n, rm) = r /\ no_slash rm = true /\ rm <> LOCAL.
Proof.
  unfold parse_remote_tag_ref, to_git_or_remote_tag_ref_name, sym_name, sym_remote.
  rewrite lit_split2_char, lit_export2_sep. cbn [fst snd].
  destruct (strip_prefix RTAGS r) as [rn|] eqn:E1; [|discriminate].
  apply strip_prefix_Some in E1.
  destruct (split_once SLASH rn) as [[remote name]|] eqn:E2; [|discriminate].
  apply split_once_Some in E2 as [-> Hc].
  destruct (bytes_eqb remote LOCAL) eqn:E3; [discriminate|].
  intros H; inversion H; subst. rewrite E3. apply bytes_eqb_neq in E3.
  repeat split; auto. apply no_slash_iff; auto.
Qed.

(** ** Meaning of the checker run on the implementation's answers *)
Definition obs_prop (all : list obs) (o : obs) : Prop :=
  match o with
  | OExport k s (Some r) =>
      no_slash (sym_remote s) = true ->
      lookup_parse all r = Some (Some (k, s)) /\
      (forall k' s' r', In (OExport k' s' (Some r')) all ->
                        no_slash (sym_remote s') = true -> r = r' -> (k, s) = (k', s'))
  | OParse r (Some ks) =>
      (no_empty_component r = true -> lookup_export all (fst ks) (snd ks) = Some (Some r)) /\
      (forall r', In (OParse r' (Some ks)) all -> r = r')
  | OValidate rm _ RvOk => no_slash rm = true /\ rm <> LOCAL
  | ORtagExport s r =>
      no_slash (sym_remote s) = true -> sym_remote s <> LOCAL ->
      lookup_rtag_parse all r = Some (Some (Tag, s)) /\ lookup_parse all r = Some None
  | OGitValid r => no_empty_component r = true
  | _ => True
  end.

Lemma oo_eqb_eq {A} (eqb : A -> A -> bool) :
  (forall x y, eqb x y = true <-> x = y) ->
  forall o1 o2, option_eqb (option_eqb eqb) o1 o2 = true <-> o1 = o2.
Proof. intros H. apply option_eqb_eq, option_eqb_eq, H. Qed.

Lemma obs_okb_spec all o : obs_okb all o = true <-> obs_prop all o.
Proof.
  destruct o as [k s [r|] | r [ks|] | rm g res | s r | r res | r]; cbn [obs_okb obs_prop];
    try (split; auto; fail).
  - rewrite orb_true_iff, negb_true_iff, andb_true_iff, (oo_eqb_eq _ ksym_eqb_eq), forallb_forall.
    split.
    + intros [H | [H1 H2]] Hs; [congruence|]. split; auto.
      intros k' s' r' Hin Hs' ->. specialize (H2 _ Hin). cbn in H2.
      rewrite Hs', bytes_eqb_refl in H2. cbn in H2. apply ksym_eqb_eq; auto.
    + intros H. destruct (no_slash (sym_remote s)) eqn:Hs; [right|left; auto].
      destruct (H eq_refl) as [H1 H2]. split; auto.
      intros o' Hin. destruct o' as [k' s' [r'|] | | | | |]; auto.
      destruct (no_slash (sym_remote s')) eqn:Hs'; auto. cbn [negb orb].
      destruct (bytes_eqb r r') eqn:Er; auto. cbn [negb orb].
      apply bytes_eqb_eq in Er. apply ksym_eqb_eq. eapply H2; eauto.
  - rewrite andb_true_iff, orb_true_iff, negb_true_iff, (oo_eqb_eq _ bytes_eqb_eq), forallb_forall.
    split.
    + intros [H1 H2]. split.
      * intros W. destruct H1; congruence.
      * intros r' Hin. specialize (H2 _ Hin). cbn in H2.
        assert (E : ksym_eqb ks ks = true) by (apply ksym_eqb_eq; reflexivity).
        rewrite E in H2. cbn in H2. apply bytes_eqb_eq; auto.
    + intros [H1 H2]. split.
      * destruct (no_empty_component r); auto.
      * intros o' Hin. destruct o' as [ | r' [ks'|] | | | |]; auto.
        destruct (ksym_eqb ks ks') eqn:E; auto. cbn [negb orb].
        apply ksym_eqb_eq in E; subst ks'. apply bytes_eqb_eq. auto.
  - destruct res; try (split; auto; fail).
    rewrite andb_true_iff, negb_true_iff, bytes_eqb_neq. tauto.
  - rewrite !orb_true_iff, negb_true_iff, andb_true_iff,
      !(oo_eqb_eq _ ksym_eqb_eq), bytes_eqb_eq.
    split.
    + intros [[H | H] | H] Hs Hl; try congruence; auto.
    + intros H. destruct (no_slash (sym_remote s)) eqn:Hs; [|left; left; auto].
      destruct (bytes_eqb (sym_remote s) LOCAL) eqn:El.
      * apply bytes_eqb_eq in El. left; right; auto.
      * apply bytes_eqb_neq in El. right. auto.
Qed.

Definition case_prop (c : case) : Prop :=
  c_panicked c = false /\ forall o, In o (c_obs c) -> obs_prop (c_obs c) o.

Lemma okb_spec c : okb c = true <-> case_prop c.
Proof.
  unfold okb, case_prop. rewrite andb_true_iff, negb_true_iff, forallb_forall.
  split; intros [A B]; split; auto; intros o Hin; apply obs_okb_spec; auto.
Qed.

(** If every observation agrees with the model, the checker necessarily accepts whenever the
    follow-up observations are present: the property on real outputs is implied by
    correspondence + the theorems. (Sanity link between the two halves of the verdict.) *)
Lemma corr_export_parse all k s r :
  forallb obs_corr all = true ->
  In (OExport k s (Some r)) all -> no_slash (sym_remote s) = true ->
  forall res, lookup_parse all r = Some res -> res = Some (k, s).
Proof.
  intros Hc Hin Hs res Hl. rewrite forallb_forall in Hc.
  assert (Hm : to_git_ref_name k s = Some r).
  { specialize (Hc _ Hin). cbn in Hc. apply (option_eqb_eq _ bytes_eqb_eq) in Hc. exact Hc. }
  destruct s as [n rm]. cbn in Hs.
  pose proof (export_import_valid _ _ _ _ Hm Hs) as P.
  assert (G : forall l, (forall o, In o l -> obs_corr o = true) ->
                        lookup_parse l r = Some res -> parse_git_ref r = res).
  { induction l as [|o l IH]; cbn; [discriminate|]. intros Hall.
    destruct o as [ | r' res' | | | |]; try (apply IH; intros; apply Hall; auto).
    destruct (bytes_eqb r r') eqn:E.
    - apply bytes_eqb_eq in E; subst r'. intros H; inversion H; subst.
      specialize (Hall _ (or_introl eq_refl)). cbn in Hall.
      apply (option_eqb_eq _ ksym_eqb_eq) in Hall. exact Hall.
    - apply IH; intros; apply Hall; auto. }
  rewrite <- (G _ Hc Hl). exact P.
Qed.

(** ** The reserved namespace refs/remotes/git/ *)
Lemma lit_reserved_ns : C33_RESERVED_NS = REMOTES ++ LOCAL ++ [SLASH]. Proof. reflexivity. Qed.

Lemma reserved_ns_not_imported x : parse_git_ref (C33_RESERVED_NS ++ x) = None.
Proof.
  apply parse_none_iff. rewrite lit_reserved_ns. repeat split.
  - intros n E. exfalso. rewrite <- !app_assoc in E. symmetry in E.
    exact (app_ns_neq _ _ ns_heads_remotes _ _ E).
  - intros rm n E Hs. left.
    rewrite <- !app_assoc in E. apply app_inv_head in E.
    assert (S1 : split_once SLASH (LOCAL ++ SLASH :: x) = Some (LOCAL, x))
      by (apply split_once_app; reflexivity).
    assert (S2 : split_once SLASH (rm ++ SLASH :: n) = Some (rm, n))
      by (apply split_once_app, no_slash_iff; auto).
    cbn [app] in E. rewrite E in S1. congruence.
  - intros n E. rewrite <- !app_assoc in E. symmetry in E.
    exact (app_ns_neq _ _ ns_remotes_tags _ _ (eq_sym E)).
Qed.
