(** Proofs for C36: alias expansion terminates within the stated fuel, its result does not depend
    on extra fuel, and an Ok result contains no alias reference any more. *)
From Verif Require Import Base.Prelude Model.C36.
From Coq Require Import Lia PeanoNat.
Local Open Scope N_scope.

(* ------------------------------------------------------------------ small facts *)

Lemma aid_eqb_refl : forall a, aid_eqb a a = true.
Proof.
  assert (Hl : forall l : list N, list_eqb N.eqb l l = true).
  { induction l as [|x l IH]; [reflexivity|]. cbn [list_eqb]. rewrite N.eqb_refl, IH. reflexivity. }
  intros [n|n p|n ps|n]; cbn [aid_eqb]; rewrite ?N.eqb_refl, ?Hl; reflexivity.
Qed.

Lemma assoc_in : forall {B} n (l : list (N * B)) v, assoc n l = Some v -> In (n, v) l.
Proof.
  intros B n l v. induction l as [|[k w] l IH]; cbn [assoc]; [discriminate|].
  destruct (N.eqb_spec k n) as [->|_].
  - intros H. injection H as ->. left. reflexivity.
  - intros H. right. apply IH. exact H.
Qed.

Lemma find_by_arity_in : forall ovs k ps d,
  find_by_arity ovs k = Some (ps, d) -> In (ps, d) ovs.
Proof.
  induction ovs as [|[qs e] ovs IH]; intros k ps d; cbn [find_by_arity]; [discriminate|].
  destruct (Nat.eqb (length qs) k).
  - intros H. injection H as -> ->. left. reflexivity.
  - intros H. right. eapply IH. exact H.
Qed.

Lemma list_max_in : forall x l, In x l -> (x <= list_max l)%nat.
Proof.
  intros x l. induction l as [|y l IH]; [intros []|]. cbn [list_max In].
  intros [->|H]; [lia|]. specialize (IH H). lia.
Qed.

Lemma bind_not_oof : forall {A B} (r : res A) (f : A -> res B),
  r <> OutOfFuel -> (forall a, r = Ok a -> f a <> OutOfFuel) -> bind r f <> OutOfFuel.
Proof. intros A B [a|e|] f H1 H2; cbn [bind]; [apply H2; reflexivity | discriminate | contradiction]. Qed.

(** [r <> OutOfFuel] from [H : bind r f <> OutOfFuel] (or nested binds). *)
Ltac from_bind H :=
  let E := fresh "E" in intro E; rewrite E in H; cbn [bind] in H; apply H; reflexivity.

Lemma map_res_not_oof : forall {A B} (f : A -> res B) l,
  (forall x, In x l -> f x <> OutOfFuel) -> map_res f l <> OutOfFuel.
Proof.
  intros A B f l. induction l as [|x l IH]; intros H; cbn [map_res]; [discriminate|].
  apply bind_not_oof; [apply H; left; reflexivity|]. intros y _.
  apply bind_not_oof; [apply IH; intros z Hz; apply H; right; exact Hz|]. discriminate.
Qed.

(* ------------------------------------------------------------------ ids and depths of a map *)

Section Map.
  Context (am : aliases) (outer : locals).
  Notation K := (length (all_ids am)).
  Notation D := (max_defn_depth am).

  Lemma symbol_facts : forall n d, assoc n (am_symbols am) = Some d ->
    In (ASymbol n) (all_ids am) /\ (defn_depth d <= D)%nat.
  Proof.
    intros n d H. apply assoc_in in H. split.
    - unfold all_ids. apply in_or_app. left.
      apply (in_map (fun p => ASymbol (fst p))) in H. exact H.
    - unfold max_defn_depth. apply list_max_in. apply in_or_app. left.
      apply (in_map (fun p => defn_depth (snd p))) in H. exact H.
  Qed.

  Lemma pattern_facts : forall n p d, assoc n (am_patterns am) = Some (p, d) ->
    In (APattern n p) (all_ids am) /\ (defn_depth d <= D)%nat.
  Proof.
    intros n p d H. apply assoc_in in H. split.
    - unfold all_ids. apply in_or_app. right. apply in_or_app. left.
      apply (in_map (fun q => APattern (fst q) (fst (snd q)))) in H. exact H.
    - unfold max_defn_depth. apply list_max_in. apply in_or_app. right. apply in_or_app. left.
      apply (in_map (fun q => defn_depth (snd (snd q)))) in H. exact H.
  Qed.

  Lemma function_facts : forall n ovs k ps d,
    assoc n (am_functions am) = Some ovs -> find_by_arity ovs k = Some (ps, d) ->
    In (AFunction n ps) (all_ids am) /\ (defn_depth d <= D)%nat.
  Proof.
    intros n ovs k ps d H Hf. apply assoc_in in H. apply find_by_arity_in in Hf. split.
    - unfold all_ids. apply in_or_app. right. apply in_or_app. right.
      apply in_flat_map. exists (n, ovs). split; [exact H|]. cbn [fst snd].
      apply (in_map (fun o => AFunction n (fst o))) in Hf. exact Hf.
    - unfold max_defn_depth. apply list_max_in. apply in_or_app. right. apply in_or_app. right.
      apply in_flat_map. exists (n, ovs). split; [exact H|]. cbn [snd].
      apply (in_map (fun o => defn_depth (snd o))) in Hf. exact Hf.
  Qed.

  (** The states stack holds pairwise different alias ids of the map (expand_defn's check). *)
  Definition stack_ok (st : stack) : Prop :=
    NoDup (map fst st) /\ incl (map fst st) (all_ids am).

  Lemma not_on_stack : forall (st : stack) id,
    existsb (fun s => aid_eqb (fst s) id) st = false -> ~ In id (map fst st).
  Proof.
    intros st id H Hin. apply in_map_iff in Hin. destruct Hin as (s & <- & Hs).
    assert (existsb (fun s0 => aid_eqb (fst s0) (fst s)) st = true) as E.
    { apply existsb_exists. exists s. split; [exact Hs | apply aid_eqb_refl]. }
    congruence.
  Qed.

  Lemma push_ok : forall (st : stack) id l,
    stack_ok st -> In id (all_ids am) -> ~ In id (map fst st) ->
    stack_ok ((id, l) :: st) /\ (length st < K)%nat.
  Proof.
    intros st id l [Hnd Hincl] Hid Hnot.
    assert (Hok : stack_ok ((id, l) :: st)).
    { split; cbn [map fst].
      - constructor; assumption.
      - intros x [<-|Hx]; [exact Hid | apply Hincl; exact Hx]. }
    split; [exact Hok|]. destruct Hok as [Hnd' Hincl'].
    pose proof (NoDup_incl_length Hnd' Hincl') as Hlen. cbn [map length] in Hlen.
    rewrite map_length in Hlen. lia.
  Qed.

  (* ---------------------------------------------------------------- the fuel suffices *)

  Lemma depth_pos : forall e, (1 <= depth e)%nat.
  Proof. intros []; cbn [depth]; lia. Qed.

  Lemma depth_arg : forall x args, In x args -> (depth x <= list_max (map depth args))%nat.
  Proof. intros x args H. apply list_max_in. apply in_map. exact H. Qed.

  Lemma expand_defn_not_oof : forall (rec : stack -> expr -> res expr) st id d l,
    (existsb (fun s => aid_eqb (fst s) id) st = false ->
     forall body, d = Some body -> rec ((id, l) :: st) body <> OutOfFuel) ->
    expand_defn rec st id d l <> OutOfFuel.
  Proof.
    intros rec st id d l H. unfold expand_defn.
    destruct (existsb (fun s => aid_eqb (fst s) id) st) eqn:E; [discriminate|].
    destruct d as [body|]; [|discriminate].
    apply bind_not_oof; [apply H; reflexivity|]. discriminate.
  Qed.

  Lemma expand_not_oof : forall fuel st e,
    stack_ok st ->
    (depth e + (K - length st) * S D <= fuel)%nat ->
    expand am outer fuel st e <> OutOfFuel.
  Proof.
    induction fuel as [|f IH]; intros st e Hst Hfuel.
    - pose proof (depth_pos e). remember ((K - length st) * S D)%nat as X. lia.
    - (* what a body needs after pushing one more state *)
      assert (Hbody : forall id l d body,
                In id (all_ids am) -> (defn_depth d <= D)%nat -> d = Some body ->
                existsb (fun s => aid_eqb (fst s) id) st = false ->
                expand am outer f ((id, l) :: st) body <> OutOfFuel).
      { intros id l d body Hid Hd -> Hex.
        destruct (push_ok st id l Hst Hid (not_on_stack _ _ Hex)) as [Hok Hlt].
        apply IH; [exact Hok|]. cbn [length defn_depth] in *.
        pose proof (depth_pos e).
        replace (K - length st)%nat with (S (K - S (length st))) in Hfuel by lia.
        rewrite Nat.mul_succ_l in Hfuel. lia. }
      assert (Hsub : forall x, (depth x < depth e)%nat -> expand am outer f st x <> OutOfFuel).
      { intros x Hx. apply IH; [exact Hst | lia]. }
      destruct e as [n| |args|n v|n args kw|id b]; cbn [expand]; unfold expand_step.
      + destruct (lookup_local n (current_locals outer st)); [discriminate|].
        destruct (assoc n (am_symbols am)) as [d|] eqn:Hs; [|discriminate].
        destruct (symbol_facts _ _ Hs) as [Hid Hd].
        apply expand_defn_not_oof. intros Hex body Hb. eapply Hbody; eassumption.
      + discriminate.
      + apply bind_not_oof; [|discriminate]. apply map_res_not_oof. intros x Hx.
        apply Hsub. cbn [depth]. pose proof (depth_arg _ _ Hx). lia.
      + assert (Hv : expand am outer f st v <> OutOfFuel) by (apply Hsub; cbn [depth]; lia).
        destruct (assoc n (am_patterns am)) as [[p d]|] eqn:Hp.
        * destruct (pattern_facts _ _ _ Hp) as [Hid Hd].
          apply bind_not_oof; [exact Hv|]. intros arg _.
          apply expand_defn_not_oof. intros Hex body Hb. eapply Hbody; eassumption.
        * apply bind_not_oof; [exact Hv|]. discriminate.
      + assert (Hargs : map_res (expand am outer f st) args <> OutOfFuel).
        { apply map_res_not_oof. intros x Hx. apply Hsub. cbn [depth].
          pose proof (depth_arg _ _ Hx). lia. }
        destruct (assoc n (am_functions am)) as [ovs|] eqn:Hf.
        * destruct kw; [|discriminate].
          destruct (find_by_arity ovs (length args)) as [[ps d]|] eqn:Ha; [|discriminate].
          destruct (function_facts _ _ _ _ _ Hf Ha) as [Hid Hd].
          apply bind_not_oof; [exact Hargs|]. intros a _.
          apply expand_defn_not_oof. intros Hex body Hb. eapply Hbody; eassumption.
        * apply bind_not_oof; [exact Hargs|]. intros a _.
          apply bind_not_oof; [|discriminate]. apply map_res_not_oof. intros [k x] Hx.
          apply bind_not_oof; [|discriminate]. apply Hsub. cbn [depth snd].
          assert (depth x <= list_max (map (fun p => depth (snd p)) kw))%nat.
          { apply list_max_in. apply (in_map (fun p => depth (snd p))) in Hx. exact Hx. }
          lia.
      + apply bind_not_oof; [|discriminate]. apply Hsub. cbn [depth]. lia.
  Qed.

  Lemma stack_ok_nil : stack_ok [].
  Proof. split; [constructor | intros x []]. Qed.

  Lemma expand_aliases_terminates : forall e,
    expand_aliases am outer e <> OutOfFuel.
  Proof.
    intros e. unfold expand_aliases, fuel_bound. apply expand_not_oof; [exact stack_ok_nil|].
    cbn [length]. rewrite Nat.sub_0_r. lia.
  Qed.

  (* ---------------------------------------------------------------- more fuel, same result *)

  Lemma map_res_ext : forall {A B} (f g : A -> res B) l,
    (forall x, In x l -> f x <> OutOfFuel -> g x = f x) ->
    map_res f l <> OutOfFuel -> map_res g l = map_res f l.
  Proof.
    intros A B f g l. induction l as [|x l IH]; intros H Hn; [reflexivity|].
    cbn [map_res] in *.
    destruct (f x) as [y|e|] eqn:Hx.
    - rewrite (H x (or_introl eq_refl)) by (rewrite Hx; discriminate). rewrite Hx. cbn [bind] in *.
      rewrite IH; [reflexivity | intros z Hz; apply H; right; exact Hz |].
      destruct (map_res f l); [discriminate | discriminate | exact Hn].
    - rewrite (H x (or_introl eq_refl)) by (rewrite Hx; discriminate). rewrite Hx. reflexivity.
    - cbn [bind] in Hn. contradiction.
  Qed.

  Lemma bind_ext : forall {A B} (r r' : res A) (f g : A -> res B),
    r' = r -> (forall a, r = Ok a -> f a <> OutOfFuel -> g a = f a) ->
    bind r f <> OutOfFuel -> bind r' g = bind r f.
  Proof.
    intros A B r r' f g -> H Hn. destruct r as [a|e|]; cbn [bind] in *;
      [apply H; [reflexivity | exact Hn] | reflexivity | reflexivity].
  Qed.

  Lemma expand_step_ext : forall (rec rec' : stack -> expr -> res expr) st e,
    (forall st x, rec st x <> OutOfFuel -> rec' st x = rec st x) ->
    expand_step am outer rec st e <> OutOfFuel ->
    expand_step am outer rec' st e = expand_step am outer rec st e.
  Proof.
    intros rec rec' st e IH Hn.
    assert (Hdefn : forall st id d l,
      expand_defn rec st id d l <> OutOfFuel ->
      expand_defn rec' st id d l = expand_defn rec st id d l).
    { intros st0 id d l. unfold expand_defn.
      destruct (existsb (fun s => aid_eqb (fst s) id) st0); [reflexivity|].
      destruct d as [body|]; [|reflexivity]. intros H.
      apply bind_ext; [|reflexivity|exact H]. apply IH.
      from_bind H. }
    assert (Hmap : forall st l,
      map_res (rec st) l <> OutOfFuel -> map_res (rec' st) l = map_res (rec st) l).
    { intros st0 l H. apply map_res_ext; [|exact H]. intros x _ Hx. apply IH. exact Hx. }
    destruct e as [n| |args|n v|n args kw|id b]; unfold expand_step in *.
    + destruct (lookup_local n (current_locals outer st)); [reflexivity|].
      destruct (assoc n (am_symbols am)); [|reflexivity]. apply Hdefn. exact Hn.
    + reflexivity.
    + apply bind_ext; [|reflexivity|exact Hn]. apply Hmap.
      from_bind Hn.
    + assert (Hv : rec st v <> OutOfFuel).
      { destruct (assoc n (am_patterns am)) as [[p d]|]; from_bind Hn. }
      destruct (assoc n (am_patterns am)) as [[p d]|].
      * apply bind_ext; [apply IH; exact Hv | | exact Hn]. intros arg _ H. apply Hdefn. exact H.
      * apply bind_ext; [apply IH; exact Hv | reflexivity | exact Hn].
    + destruct (assoc n (am_functions am)) as [ovs|].
      * destruct kw; [|reflexivity].
        destruct (find_by_arity ovs (length args)) as [[ps d]|]; [|reflexivity].
        assert (Ha : map_res (rec st) args <> OutOfFuel).
        { from_bind Hn. }
        apply bind_ext; [apply Hmap; exact Ha | | exact Hn]. intros a _ H. apply Hdefn. exact H.
      * assert (Ha : map_res (rec st) args <> OutOfFuel).
        { from_bind Hn. }
        apply bind_ext; [apply Hmap; exact Ha | | exact Hn]. intros a _ H.
        apply bind_ext; [|reflexivity|exact H].
        apply map_res_ext.
        -- intros [k x] _ Hx. cbn [snd fst] in *.
           apply bind_ext; [|reflexivity|exact Hx]. apply IH.
           from_bind Hx.
        -- from_bind H.
    + apply bind_ext; [|reflexivity|exact Hn]. apply IH.
      from_bind Hn.
  Qed.

  Lemma expand_mono : forall fuel st e,
    expand am outer fuel st e <> OutOfFuel ->
    expand am outer (S fuel) st e = expand am outer fuel st e.
  Proof.
    induction fuel as [|f IH]; intros st e Hn; [cbn [expand] in Hn; contradiction|].
    change (expand_step am outer (expand am outer (S f)) st e
            = expand_step am outer (expand am outer f) st e).
    apply expand_step_ext; [exact IH | exact Hn].
  Qed.

  Lemma expand_more_fuel : forall extra fuel st e,
    expand am outer fuel st e <> OutOfFuel ->
    expand am outer (extra + fuel) st e = expand am outer fuel st e.
  Proof.
    induction extra as [|k IH]; intros fuel st e H; [reflexivity|].
    cbn [Nat.add]. rewrite expand_mono; [apply IH; exact H|]. rewrite IH; exact H.
  Qed.

  (* ---------------------------------------------------------------- Ok results are expanded *)

  Definition values_expanded (l : locals) : Prop :=
    forall k v, In (k, v) l -> expanded_b am v = true.

  Definition stack_expanded (st : stack) : Prop :=
    forall id l, In (id, l) st -> values_expanded l.

  Lemma map_res_ok : forall {A B} (f : A -> res B) l ys,
    map_res f l = Ok ys -> Forall2 (fun x y => f x = Ok y) l ys.
  Proof.
    intros A B f l. induction l as [|x l IH]; intros ys H; cbn [map_res] in H.
    - injection H as <-. constructor.
    - destruct (f x) as [y|e|] eqn:Hx; cbn [bind] in H; try discriminate.
      destruct (map_res f l) as [zs|e|] eqn:Hl; cbn [bind] in H; try discriminate.
      injection H as <-. constructor; [exact Hx | apply IH; reflexivity].
  Qed.

  Lemma expand_defn_ok : forall (rec : stack -> expr -> res expr) st id d l r,
    expand_defn rec st id d l = Ok r ->
    exists body b, d = Some body /\ rec ((id, l) :: st) body = Ok b /\ r = EExpanded id b.
  Proof.
    intros rec st id d l r H. unfold expand_defn in H.
    destruct (existsb (fun s => aid_eqb (fst s) id) st); [discriminate|].
    destruct d as [body|]; [|discriminate].
    destruct (rec ((id, l) :: st) body) as [b|e|] eqn:Hb; cbn [bind] in H; try discriminate.
    injection H as <-. eauto.
  Qed.

  Lemma expand_expanded : forall fuel st e r,
    values_expanded outer -> stack_expanded st ->
    expand am outer fuel st e = Ok r -> expanded_b am r = true.
  Proof.
    induction fuel as [|f IH]; intros st e r Hout Hst H; [discriminate|].
    assert (Hdefn : forall id d l r0,
              values_expanded l ->
              expand_defn (expand am outer f) st id d l = Ok r0 -> expanded_b am r0 = true).
    { intros id d l r0 Hl H0. apply expand_defn_ok in H0.
      destruct H0 as (body & b & _ & Hb & ->). cbn [expanded_b].
      eapply IH; [exact Hout | | exact Hb].
      intros id' l' [E|Hin]; [injection E as <- <-; exact Hl | eapply Hst; exact Hin]. }
    assert (Hmap : forall l ys, map_res (expand am outer f st) l = Ok ys ->
                                forallb (expanded_b am) ys = true).
    { intros l ys Hm. apply map_res_ok in Hm. apply forallb_forall.
      induction Hm as [|x y l' ys' Hxy _ IHm]; intros z Hz; [destruct Hz|].
      destruct Hz as [<-|Hz]; [eapply IH; eassumption | apply IHm; exact Hz]. }
    destruct e as [n| |args|n v|n args kw|id b]; cbn [expand] in H; unfold expand_step in H.
    + destruct (lookup_local n (current_locals outer st)) as [subst|] eqn:Hl.
      * injection H as <-. cbn [expanded_b].
        unfold lookup_local in Hl. apply assoc_in in Hl. apply in_rev in Hl.
        destruct st as [|[id0 l0] st']; cbn [current_locals] in Hl.
        -- eapply Hout. exact Hl.
        -- eapply (Hst id0 l0); [left; reflexivity | exact Hl].
      * destruct (assoc n (am_symbols am)) as [d|] eqn:Hs.
        -- eapply Hdefn; [|exact H]. intros k v [].
        -- injection H as <-. cbn [expanded_b]. rewrite Hs. reflexivity.
    + injection H as <-. reflexivity.
    + destruct (map_res (expand am outer f st) args) as [a|e|] eqn:Ha; cbn [bind] in H;
        try discriminate.
      injection H as <-. cbn [expanded_b]. eapply Hmap. exact Ha.
    + destruct (assoc n (am_patterns am)) as [[p d]|] eqn:Hp.
      * destruct (expand am outer f st v) as [arg|e|] eqn:Hv; cbn [bind] in H; try discriminate.
        eapply Hdefn; [|exact H]. intros k w [E|[]]. injection E as <- <-.
        eapply IH; eassumption.
      * destruct (expand am outer f st v) as [v'|e|] eqn:Hv; cbn [bind] in H; try discriminate.
        injection H as <-. cbn [expanded_b]. rewrite Hp. eapply IH; eassumption.
    + destruct (assoc n (am_functions am)) as [ovs|] eqn:Hf.
      * destruct kw; [|discriminate].
        destruct (find_by_arity ovs (length args)) as [[ps d]|]; [|discriminate].
        destruct (map_res (expand am outer f st) args) as [a|e|] eqn:Ha; cbn [bind] in H;
          try discriminate.
        eapply Hdefn; [|exact H]. intros k w Hin. apply in_combine_r in Hin.
        pose proof (Hmap _ _ Ha) as Hall. rewrite forallb_forall in Hall. apply Hall. exact Hin.
      * destruct (map_res (expand am outer f st) args) as [a|e|] eqn:Ha; cbn [bind] in H;
          try discriminate.
        destruct (map_res (fun p => bind (expand am outer f st (snd p)) (fun v => Ok (fst p, v))) kw)
          as [k|e|] eqn:Hk; cbn [bind] in H; try discriminate.
        injection H as <-. cbn [expanded_b]. rewrite Hf, (Hmap _ _ Ha). cbn [andb].
        apply map_res_ok in Hk. apply forallb_forall.
        induction Hk as [|x y l' ys' Hxy _ IHk]; intros z Hz; [destruct Hz|].
        destruct Hz as [<-|Hz]; [|apply IHk; exact Hz].
        destruct (expand am outer f st (snd x)) as [w|e|] eqn:Hw; cbn [bind] in Hxy;
          try discriminate.
        injection Hxy as <-. cbn [snd]. eapply IH; eassumption.
    + destruct (expand am outer f st b) as [b'|e|] eqn:Hb; cbn [bind] in H; try discriminate.
      injection H as <-. cbn [expanded_b]. eapply IH; eassumption.
  Qed.

  (** Either an alias-free tree or an error; never out of fuel. *)
  Lemma expand_aliases_result : forall e,
    values_expanded outer ->
    (exists r, expand_aliases am outer e = Ok r /\ expanded_b am r = true)
    \/ (exists er, expand_aliases am outer e = Err er).
  Proof.
    intros e Hout. pose proof (expand_aliases_terminates e) as Ht.
    destruct (expand_aliases am outer e) as [r|er|] eqn:H; [left | right; eauto | contradiction].
    exists r. split; [reflexivity|]. unfold expand_aliases in H.
    eapply expand_expanded; [exact Hout | | exact H]. intros id l [].
  Qed.
End Map.

(** Direct self-reference and the states-stack check (the simplest recursion). *)
Lemma self_reference_is_an_error : forall am n,
  assoc n (am_symbols am) = Some (Some (EIdent n)) ->
  expand_aliases am [] (EIdent n) = Err (ErrRecursive (ASymbol n)).
Proof.
  intros am n H. unfold expand_aliases, fuel_bound.
  assert (Hk : (2 <= depth (EIdent n) + length (all_ids am) * S (max_defn_depth am))%nat).
  { destruct (symbol_facts am _ _ H) as [Hin _]. cbn [depth].
    destruct (all_ids am) as [|a l]; [destruct Hin|]. cbn [length]. lia. }
  destruct (depth (EIdent n) + length (all_ids am) * S (max_defn_depth am))%nat as [|[|f]]; try lia.
  cbn [expand]. unfold expand_step at 1. cbn [lookup_local current_locals rev assoc]. rewrite H.
  unfold expand_defn at 1. cbn [existsb bind].
  unfold expand_step. cbn [lookup_local current_locals rev assoc app]. rewrite H.
  unfold expand_defn. cbn [existsb fst aid_eqb]. rewrite N.eqb_refl. reflexivity.
Qed.

(* ------------------------------------------------------------------ recursion errors name aliases of the map *)

Section RecursionSound.
  Context (am : aliases) (outer : locals).

  Lemma map_res_err : forall {A B} (f : A -> res B) l er,
    map_res f l = Err er -> exists x, In x l /\ f x = Err er.
  Proof.
    intros A B f l er. induction l as [|x l IH]; cbn [map_res]; [discriminate|].
    destruct (f x) as [y|e|] eqn:Hx; cbn [bind]; try discriminate.
    - destruct (map_res f l) as [ys|e|] eqn:Hl; cbn [bind]; try discriminate.
      intros H. injection H as ->. destruct (IH eq_refl) as (z & Hz & Hfz).
      exists z. split; [right; exact Hz | exact Hfz].
    - intros H. injection H as ->. exists x. split; [left; reflexivity | exact Hx].
  Qed.

  (** A reported recursion always names an alias that exists in the map. *)
  Lemma recursive_error_names_alias : forall fuel st e id,
    expand am outer fuel st e = Err (ErrRecursive id) -> In id (all_ids am).
  Proof.
    induction fuel as [|f IH]; intros st e id H; [discriminate|].
    assert (Hdefn : forall id0 d l,
              In id0 (all_ids am) ->
              expand_defn (expand am outer f) st id0 d l = Err (ErrRecursive id) ->
              In id (all_ids am)).
    { intros id0 d l Hid0 H0. unfold expand_defn in H0.
      destruct (existsb (fun s => aid_eqb (fst s) id0) st).
      - injection H0 as <-. exact Hid0.
      - destruct d as [body|]; [|discriminate].
        destruct (expand am outer f ((id0, l) :: st) body) as [b|er|] eqn:Hb; cbn [bind] in H0;
          try discriminate.
        injection H0 as ->. eapply IH. exact Hb. }
    assert (Hmap : forall l, map_res (expand am outer f st) l = Err (ErrRecursive id) ->
                             In id (all_ids am)).
    { intros l Hm. apply map_res_err in Hm. destruct Hm as (x & _ & Hx). eapply IH. exact Hx. }
    cbn [expand] in H. destruct e as [n| |args|n v|n args kw|id1 b]; unfold expand_step in H.
    - destruct (lookup_local n (current_locals outer st)); [discriminate|].
      destruct (assoc n (am_symbols am)) as [d|] eqn:Hs; [|discriminate].
      eapply Hdefn; [exact (proj1 (symbol_facts am _ _ Hs)) | exact H].
    - discriminate.
    - destruct (map_res (expand am outer f st) args) as [a|er|] eqn:Ha; cbn [bind] in H;
        try discriminate.
      injection H as ->. apply (Hmap args). exact Ha.
    - destruct (assoc n (am_patterns am)) as [[p d]|] eqn:Hp.
      + destruct (expand am outer f st v) as [arg|er|] eqn:Hv; cbn [bind] in H; try discriminate.
        * eapply Hdefn; [exact (proj1 (pattern_facts am _ _ _ Hp)) | exact H].
        * injection H as ->. eapply IH. exact Hv.
      + destruct (expand am outer f st v) as [arg|er|] eqn:Hv; cbn [bind] in H; try discriminate.
        injection H as ->. eapply IH. exact Hv.
    - destruct (assoc n (am_functions am)) as [ovs|] eqn:Hf.
      + destruct kw; [|discriminate].
        destruct (find_by_arity ovs (length args)) as [[ps d]|] eqn:Hfa; [|discriminate].
        destruct (map_res (expand am outer f st) args) as [a|er|] eqn:Ha; cbn [bind] in H;
          try discriminate.
        * eapply Hdefn; [exact (proj1 (function_facts am _ _ _ _ _ Hf Hfa)) | exact H].
        * injection H as ->. apply (Hmap args). exact Ha.
      + destruct (map_res (expand am outer f st) args) as [a|er|] eqn:Ha; cbn [bind] in H;
          try discriminate.
        * destruct (map_res (fun p => bind (expand am outer f st (snd p)) (fun v => Ok (fst p, v))) kw)
            as [k|er|] eqn:Hk; cbn [bind] in H; try discriminate.
          injection H as ->. apply map_res_err in Hk. destruct Hk as ([kn x] & _ & Hx).
          cbn [snd fst] in Hx.
          destruct (expand am outer f st x) as [w|er|] eqn:Hw; cbn [bind] in Hx; try discriminate.
          injection Hx as ->. eapply IH. exact Hw.
        * injection H as ->. apply (Hmap args). exact Ha.
    - destruct (expand am outer f st b) as [b'|er|] eqn:Hb; cbn [bind] in H; try discriminate.
      injection H as ->. eapply IH. exact Hb.
  Qed.
End RecursionSound.
