(** C15 — proofs: every prefix of an accepted effect sequence is a safe place to die. *)
From Verif Require Import Base.Prelude Base.SchedS Proofs.SchedS Model.C14 Proofs.C14 Model.C15.
From Coq Require Import Arith Lia.

Lemma newest_in : forall H, H <> [] -> In (newest H) H.
Proof.
  induction H as [|h t IH]; intros Hne; [congruence|]. simpl.
  destruct t as [|h2 t2]; [left; simpl; lia|].
  destruct (Nat.max_spec h (newest (h2 :: t2))) as [[_ E]|[_ E]]; unfold newest in *; simpl in *; rewrite E.
  - right. apply IH. discriminate.
  - left. reflexivity.
Qed.

Lemma newest_ge : forall H h, In h H -> h <= newest H.
Proof.
  induction H as [|a t IH]; intros h Hin; [destruct Hin|]. simpl. destruct Hin as [->|Hin].
  - apply Nat.le_max_l.
  - specialize (IH _ Hin). unfold newest in *. lia.
Qed.

(** Invariant of accepted runs. *)
Definition Good (g : dag) (d : disk) : Prop :=
  d_heads d <> []
  /\ (forall h, In h (d_heads d) -> In h (d_ops d))
  /\ (forall n p, In n (d_ops d) -> In p (parents g n) -> In p (d_ops d))
  /\ (forall h, In h (d_heads d) -> anc g h (newest (d_heads d)))
  /\ In (d_checkout d) (d_ops d)
  /\ Cov g (d_heads d) (d_checkout d)
  /\ wc_consistent d.

Lemma closed_anc : forall g ops, (forall n p, In n ops -> In p (parents g n) -> In p ops) ->
  forall x h, anc g x h -> In h ops -> In x ops.
Proof.
  intros g ops Hc x h Ha. induction Ha as [x|x p y Hp _ IH]; intros Hin; [exact Hin|].
  apply IH. eapply Hc; eassumption.
Qed.

Lemma Good_loadable : forall g d, Good g d -> loadable g d.
Proof.
  intros g d (Hne & Hsub & Hcl & _). split; [exact Hne|].
  intros h x Hh Ha. eapply closed_anc; eauto.
Qed.

Lemma apply_allowed_Good : forall g chg d e, wf_dag g -> Good g d -> allowed g d e = true ->
  Good g (apply_effect chg d e)
  /\ (forall x, Cov g (d_heads d) x -> Cov g (d_heads (apply_effect chg d e)) x).
Proof.
  intros g chg d e Hwf (Hne & Hsub & Hcl & Hlin & Hco & Hcc & Hwc) Hal.
  assert (Hcle : d_checkout d <= newest (d_heads d)).
  { destruct Hcc as [h [Hh Ha]]. pose proof (anc_le g Hwf _ _ Ha). pose proof (newest_ge _ _ Hh). lia. }
  assert (Hsame : forall x, Cov g (d_heads d) x -> Cov g (d_heads d) x) by auto.
  unfold wc_consistent, current in *.
  destruct e as [|n|n|n|n| | |p|p| | |]; simpl in *;
    try (split; [unfold Good; simpl; repeat split; assumption|exact Hsame]).
  - (* EOp *)
    apply Bool.andb_true_iff in Hal. destruct Hal as [Hal Hps]. rewrite forallb_forall in Hps.
    split; [|exact Hsame]. unfold Good; simpl. repeat split; auto.
    intros m p [<-|Hm] Hp; [right; apply memn_spec; apply Hps; exact Hp|right; eapply Hcl; eassumption].
  - (* EHeadAdd *)
    apply Bool.andb_true_iff in Hal. destruct Hal as [Hn Hdesc].
    apply memn_spec in Hn. rewrite forallb_forall in Hdesc.
    assert (Hge : forall h, In h (d_heads d) -> h <= n).
    { intros h Hh. eapply anc_le; [exact Hwf|]. apply ancb_spec; [exact Hwf|]. apply Hdesc. exact Hh. }
    assert (Hnew : newest (add_head n (d_heads d)) = n).
    { apply Nat.le_antisymm.
      - assert (Hin : In (newest (add_head n (d_heads d))) (add_head n (d_heads d))).
        { apply newest_in. intros E. assert (In n (add_head n (d_heads d))) by (apply In_add_head; auto).
          rewrite E in H. destruct H. }
        apply In_add_head in Hin. destruct Hin as [->|Hin]; [lia|apply Hge; exact Hin].
      - apply newest_ge. apply In_add_head. left. reflexivity. }
    split.
    + unfold Good; simpl. repeat split; auto.
      * intros E. assert (In n (add_head n (d_heads d))) by (apply In_add_head; auto).
        rewrite E in H. destruct H.
      * intros h Hh. apply In_add_head in Hh. destruct Hh as [->|Hh]; auto.
      * intros h Hh. rewrite Hnew. apply In_add_head in Hh. destruct Hh as [->|Hh]; [apply anc_refl|].
        apply ancb_spec; [exact Hwf|]. apply Hdesc. exact Hh.
      * eapply Cov_heads_mono; [|exact Hcc]. intros h Hh. apply In_add_head. right. exact Hh.
      * unfold wc_consistent, current; simpl. rewrite Hnew. destruct (Nat.eq_dec n (newest (d_heads d))) as [En|En].
        -- destruct Hwc as [Hwc|Hwc]; [left; congruence|]. right. rewrite Hwc, <- En, Nat.eqb_refl.
           destruct (negb (memn n chg)); simpl; congruence.
        -- left. assert (newest (d_heads d) <= n) by (apply Hge; apply newest_in; exact Hne). lia.
    + intros x Hx. eapply Cov_heads_mono; [|exact Hx]. intros h Hh. apply In_add_head. right. exact Hh.
  - (* EHeadRemove *)
    apply existsb_exists in Hal. destruct Hal as [h [Hh Hs]]. apply sancb_spec in Hs; [|exact Hwf].
    assert (Hcov : forall y, Cov g (d_heads d) y -> Cov g (remove_id n (d_heads d)) y).
    { intros y Hy. eapply Cov_remove; [exact Hwf|exact Hs|apply Cov_head; exact Hh|exact Hy]. }
    assert (Hnn : n <> newest (d_heads d)).
    { intros ->. pose proof (sanc_lt g Hwf _ _ Hs). pose proof (newest_ge _ _ Hh). lia. }
    assert (Hkeep : In (newest (d_heads d)) (remove_id n (d_heads d))).
    { apply In_remove_id. split; [apply newest_in; exact Hne|auto]. }
    assert (Hnew : newest (remove_id n (d_heads d)) = newest (d_heads d)).
    { apply Nat.le_antisymm.
      - assert (Hin : In (newest (remove_id n (d_heads d))) (remove_id n (d_heads d))).
        { apply newest_in. intros E. rewrite E in Hkeep. destruct Hkeep. }
        apply In_remove_id in Hin. apply newest_ge. tauto.
      - apply newest_ge. exact Hkeep. }
    split; [|exact Hcov].
    unfold Good; simpl. repeat split; auto.
    + intros E. rewrite E in Hkeep. destruct Hkeep.
    + intros h' Hh'. apply In_remove_id in Hh'. apply Hsub. tauto.
    + intros h' Hh'. rewrite Hnew. apply In_remove_id in Hh'. apply Hlin. tauto.
    + unfold wc_consistent, current; simpl. rewrite Hnew. exact Hwc.
  - (* ETreeState *)
    split; [|exact Hsame]. unfold Good; simpl. repeat split; auto.
    unfold wc_consistent, current; simpl. right. reflexivity.
  - (* ECheckout *)
    rewrite !Bool.andb_true_iff in Hal. destruct Hal as [[_ Hts] _]. apply Nat.eqb_eq in Hts.
    split; [|exact Hsame]. unfold Good; simpl. repeat split; auto.
    + apply Hsub. apply newest_in. exact Hne.
    + apply Cov_head. apply newest_in. exact Hne.
    + unfold wc_consistent, current; simpl. right. exact Hts.
Qed.

Lemma accept_prefix_Good : forall g chg l d d', wf_dag g -> Good g d -> accept g chg d l = Some d' ->
  forall k, Good g (crash_state chg d l k)
    /\ (forall x, Cov g (d_heads d) x -> Cov g (d_heads (crash_state chg d l k)) x).
Proof.
  intros g chg l. induction l as [|e r IH]; intros d d' Hwf HG Hacc k; unfold crash_state.
  - rewrite firstn_nil. simpl. auto.
  - destruct k as [|k]; [simpl; auto|]. simpl firstn. rewrite run_cons.
    simpl in Hacc. destruct (allowed g d e) eqn:Hal; [|discriminate].
    destruct (apply_allowed_Good g chg d e Hwf HG Hal) as [HG' Hc'].
    destruct (IH _ _ Hwf HG' Hacc k) as [HG'' Hc'']. unfold crash_state in *. split; [exact HG''|].
    intros x Hx. apply Hc''. apply Hc'. exact Hx.
Qed.

(** Heads after a prefix are initial heads or heads the command itself recorded. *)
Lemma heads_origin : forall chg l d k h,
  In h (d_heads (crash_state chg d l k)) -> In h (d_heads d) \/ In (EHeadAdd h) (firstn k l).
Proof.
  intros chg. induction l as [|e r IH]; intros d k h Hin; unfold crash_state in *.
  - rewrite firstn_nil in Hin. simpl in Hin. auto.
  - destruct k as [|k]; [simpl in Hin; auto|]. simpl firstn in *. rewrite run_cons in Hin.
    destruct (IH _ _ _ Hin) as [H|H]; [|right; right; exact H].
    destruct e; simpl in H; auto.
    + apply In_add_head in H. destruct H as [->|H]; [right; left; reflexivity|auto].
    + apply In_remove_id in H. tauto.
Qed.

(** An operation object is bound after a prefix only if it was bound before or its own
    rename is in the prefix: names are never bound in any other way (no torn object). *)
Lemma ops_origin : forall chg l d k n,
  In n (d_ops (crash_state chg d l k)) -> In n (d_ops d) \/ In (EOp n) (firstn k l).
Proof.
  intros chg. induction l as [|e r IH]; intros d k n Hin; unfold crash_state in *.
  - rewrite firstn_nil in Hin. simpl in Hin. auto.
  - destruct k as [|k]; [simpl in Hin; auto|]. simpl firstn in *. rewrite run_cons in Hin.
    destruct (IH _ _ _ Hin) as [H|H]; [|right; right; exact H].
    destruct e; simpl in H; auto. destruct H as [<-|H]; [right; left; reflexivity|auto].
Qed.

(** The documented recovery (`jj workspace update-stale`): snapshot what is on disk, check
    out the current operation's working-copy commit, save tree_state and checkout. *)
Definition recover (d : disk) : disk :=
  mk_disk (d_ops d) (d_heads d) (current d) [] (d_nobj d) (current d).

Lemma recover_synced : forall d, wc_synced (recover d) = true.
Proof. intros d. unfold wc_synced, recover, current; simpl. rewrite Nat.eqb_refl. reflexivity. Qed.

Lemma loadableb_sound : forall g d, wf_dag g -> loadableb g d = true -> loadable g d.
Proof.
  intros g d Hwf H. unfold loadableb in H. apply Bool.andb_true_iff in H. destruct H as [H1 H2].
  split; [destruct (d_heads d); [discriminate|discriminate]|].
  intros h x Hh Ha. rewrite forallb_forall in H2. specialize (H2 h Hh). rewrite forallb_forall in H2.
  pose proof (anc_le g Hwf _ _ Ha) as Hle.
  assert (Hx : In x (seq 0 (S h))) by (apply in_seq; lia).
  specialize (H2 x Hx). apply Bool.orb_true_iff in H2. destruct H2 as [H2|H2].
  - apply Bool.negb_true_iff in H2. apply (ancb_spec g Hwf) in Ha. congruence.
  - apply memn_spec. exact H2.
Qed.

Lemma disk_before_Good : forall c, init_okb c = true -> Good (c_dag c) (disk_before c).
Proof.
  intros c H. unfold init_okb in H. rewrite !Bool.andb_true_iff in H.
  destruct H as [[[Hwf Hh] Hc] Ha]. apply wf_dagb_sound in Hwf.
  apply Nat.ltb_lt in Hh. apply Nat.ltb_lt in Hc. apply (ancb_spec _ Hwf) in Ha.
  unfold Good, disk_before; simpl. repeat split.
  - discriminate.
  - intros h [<-|[]]. apply in_seq. lia.
  - intros n p Hn Hp. apply in_seq in Hn. apply in_seq. specialize (Hwf _ _ Hp). lia.
  - intros h [<-|[]]. rewrite Nat.max_0_r. apply anc_refl.
  - apply in_seq. lia.
  - exists (c_head_before c). split; [left; reflexivity|exact Ha].
  - unfold wc_consistent, current; simpl. rewrite Nat.max_0_r.
    destruct (Nat.eq_dec (c_checkout_before c) (c_head_before c)); [right; assumption|left; assumption].
Qed.
