(** Lemmas about Base/C16Lib.v: the byte-string order is a strict total order, sorted
    association lists are canonical, little-endian integers and the codec combinators are
    prefix-decodable (hence injective). *)
From Verif Require Import Base.Prelude Base.C16Lib.
From Coq Require Import Lia Permutation.
Local Open Scope N_scope.

(** * Boolean equalities reflect equality. *)
Lemma list_eqb_spec {A} (eqb : A -> A -> bool) :
  (forall x y, eqb x y = true <-> x = y) ->
  forall l1 l2, list_eqb eqb l1 l2 = true <-> l1 = l2.
Proof.
  intros H l1; induction l1 as [|x xs IH]; intros [|y ys]; cbn; split; intro E;
    try discriminate; try reflexivity.
  - apply andb_true_iff in E as [E1 E2]. apply H in E1. apply IH in E2. congruence.
  - inversion E; subst. apply andb_true_iff; split; [apply H | apply IH]; reflexivity.
Qed.

Lemma option_eqb_spec {A} (eqb : A -> A -> bool) :
  (forall x y, eqb x y = true <-> x = y) ->
  forall o1 o2, option_eqb eqb o1 o2 = true <-> o1 = o2.
Proof.
  intros H [x|] [y|]; cbn; split; intro E; try discriminate; try reflexivity.
  - apply H in E; congruence.
  - inversion E; subst; apply H; reflexivity.
Qed.

Lemma pair_eqb_spec {A B} (ea : A -> A -> bool) (eb : B -> B -> bool) :
  (forall x y, ea x y = true <-> x = y) -> (forall x y, eb x y = true <-> x = y) ->
  forall p q, pair_eqb ea eb p q = true <-> p = q.
Proof.
  intros Ha Hb [a b] [c d]; unfold pair_eqb; cbn; rewrite andb_true_iff, Ha, Hb.
  split; [intros [-> ->]; reflexivity | intros E; inversion E; auto].
Qed.

Lemma bytes_eqb_spec a b : bytes_eqb a b = true <-> a = b.
Proof. apply list_eqb_spec. intros; apply N.eqb_eq. Qed.

Lemma bytes_eqb_refl a : bytes_eqb a a = true.
Proof. apply bytes_eqb_spec; reflexivity. Qed.

Lemma res_eqb_spec {E A} (ee : E -> E -> bool) (ea : A -> A -> bool) :
  (forall x y, ee x y = true <-> x = y) -> (forall x y, ea x y = true <-> x = y) ->
  forall x y, res_eqb ee ea x y = true <-> x = y.
Proof.
  intros He Ha [a|e|] [b|f|]; cbn; split; intro H; try discriminate; try reflexivity.
  - apply Ha in H; congruence.
  - inversion H; subst; apply Ha; reflexivity.
  - apply He in H; congruence.
  - inversion H; subst; apply He; reflexivity.
Qed.

(** * The order. *)
Lemma bytes_ltb_irrefl a : bytes_ltb a a = false.
Proof. induction a as [|x a IH]; cbn; [reflexivity|]. rewrite N.ltb_irrefl. exact IH. Qed.

Lemma bytes_ltb_trans a : forall b c,
  bytes_ltb a b = true -> bytes_ltb b c = true -> bytes_ltb a c = true.
Proof.
  induction a as [|x a IH]; intros [|y b] [|z c]; cbn; try discriminate; auto.
  destruct (N.ltb_spec x y), (N.ltb_spec y x), (N.ltb_spec y z), (N.ltb_spec z y),
    (N.ltb_spec x z), (N.ltb_spec z x); try discriminate; try lia; auto.
  apply IH.
Qed.

Lemma bytes_ltb_total a : forall b,
  bytes_ltb a b = false -> bytes_ltb b a = false -> a = b.
Proof.
  induction a as [|x a IH]; intros [|y b]; cbn; try discriminate; auto.
  destruct (N.ltb_spec x y), (N.ltb_spec y x); try discriminate; try lia.
  intros H1 H2. assert (x = y) by lia. subst. f_equal. apply IH; assumption.
Qed.

Lemma bytes_ltb_asym a b : bytes_ltb a b = true -> bytes_ltb b a = false.
Proof.
  intro H. destruct (bytes_ltb b a) eqn:E; [|reflexivity].
  pose proof (bytes_ltb_trans _ _ _ H E) as T. rewrite bytes_ltb_irrefl in T. discriminate.
Qed.

Lemma bytes_ltb_neq a b : bytes_ltb a b = true -> a <> b.
Proof. intros H ->. rewrite bytes_ltb_irrefl in H. discriminate. Qed.

(** * Sorted lists. *)
Definition lt_all (k : bytes) (l : list bytes) : Prop := forall x, In x l -> bytes_ltb k x = true.

Lemma strict_sorted_cons k l :
  strict_sortedb (k :: l) = true <-> lt_all k l /\ strict_sortedb l = true.
Proof.
  revert k; induction l as [|y l IH]; intro k.
  - cbn. split; [intros _; split; [intros x []|reflexivity] | reflexivity].
  - change (strict_sortedb (k :: y :: l)) with (bytes_ltb k y && strict_sortedb (y :: l)).
    rewrite andb_true_iff. split.
    + intros [H1 H2]. split; [|exact H2]. intros x [<-|Hx]; [exact H1|].
      apply IH in H2 as [H2 _]. eapply bytes_ltb_trans; [exact H1 | apply H2, Hx].
    + intros [H1 H2]. split; [apply H1; left; reflexivity | exact H2].
Qed.

Lemma strict_sorted_NoDup l : strict_sortedb l = true -> NoDup l.
Proof.
  induction l as [|k l IH]; intro H; [constructor|].
  apply strict_sorted_cons in H as [H1 H2]. constructor; [|apply IH, H2].
  intro Hin. apply H1 in Hin. rewrite bytes_ltb_irrefl in Hin. discriminate.
Qed.

(** Two strictly sorted lists with the same elements are equal. *)
Lemma strict_sorted_unique l1 : forall l2,
  strict_sortedb l1 = true -> strict_sortedb l2 = true ->
  (forall x, In x l1 <-> In x l2) -> l1 = l2.
Proof.
  induction l1 as [|a l1 IH]; intros [|b l2] S1 S2 H.
  - reflexivity.
  - exfalso. apply (H b). left; reflexivity.
  - exfalso. apply (H a). left; reflexivity.
  - apply strict_sorted_cons in S1 as [A1 S1]. apply strict_sorted_cons in S2 as [A2 S2].
    assert (a = b) as ->.
    { destruct (proj1 (H a) (or_introl eq_refl)) as [E|Hin]; [congruence|].
      destruct (proj2 (H b) (or_introl eq_refl)) as [E|Hin']; [congruence|].
      apply A2 in Hin. apply A1 in Hin'. apply bytes_ltb_asym in Hin. congruence. }
    f_equal. apply IH; auto. intro x; split; intro Hx.
    + destruct (proj1 (H x) (or_intror Hx)) as [E|?]; [|assumption].
      subst. apply A1 in Hx. rewrite bytes_ltb_irrefl in Hx. discriminate.
    + destruct (proj2 (H x) (or_intror Hx)) as [E|?]; [|assumption].
      subst. apply A2 in Hx. rewrite bytes_ltb_irrefl in Hx. discriminate.
Qed.

(** * Maps. *)
Section Maps.
  Context {V : Type}.
  Implicit Types m : list (bytes * V).

  Lemma map_insert_keys k v m x :
    In x (map fst (map_insert k v m)) <-> x = k \/ In x (map fst m).
  Proof.
    induction m as [|[k' v'] m IH]; cbn.
    - intuition.
    - destruct (bytes_ltb k k') eqn:E1; [cbn; intuition|].
      destruct (bytes_ltb k' k) eqn:E2; cbn.
      + rewrite IH. intuition.
      + assert (k = k') by (apply bytes_ltb_total; assumption). subst. intuition.
  Qed.

  Lemma map_insert_sorted k v m :
    keys_sortedb m = true -> keys_sortedb (map_insert k v m) = true.
  Proof.
    unfold keys_sortedb. induction m as [|[k' v'] m IH]; intro S; [reflexivity|].
    cbn [map_insert]. destruct (bytes_ltb k k') eqn:E1.
    - cbn [map fst]. apply strict_sorted_cons. split; [|exact S].
      cbn [map fst] in S. apply strict_sorted_cons in S as [A _].
      intros x [<-|Hx]; [exact E1|]. eapply bytes_ltb_trans; [exact E1 | apply A, Hx].
    - destruct (bytes_ltb k' k) eqn:E2.
      + cbn [map fst] in *. apply strict_sorted_cons in S as [A S]. apply strict_sorted_cons.
        split; [|apply IH, S]. intros x Hx. apply map_insert_keys in Hx as [->|Hx]; auto.
      + assert (k = k') by (apply bytes_ltb_total; assumption). subst. exact S.
  Qed.

  Lemma map_insert_In k v m k0 v0 :
    keys_sortedb m = true ->
    (In (k0, v0) (map_insert k v m) <->
     (k0 = k /\ v0 = v) \/ (k0 <> k /\ In (k0, v0) m)).
  Proof.
    unfold keys_sortedb. induction m as [|[k' v'] m IH]; intro S.
    - cbn. split.
      + intros [E|[]]; inversion E; auto.
      + intros [[-> ->]|[_ []]]; auto.
    - cbn [map fst] in S. apply strict_sorted_cons in S as [A S].
      cbn [map_insert]. destruct (bytes_ltb k k') eqn:E1.
      + cbn [In]. split.
        * intros [E|[E|H]].
          -- inversion E; auto.
          -- inversion E; subst. right. split; [|auto]. intros ->.
             rewrite bytes_ltb_irrefl in E1; discriminate.
          -- right. split; [|auto]. intros ->.
             assert (Hin : In k (map fst m)) by (apply (in_map fst _ _ H)).
             apply A in Hin. apply bytes_ltb_asym in Hin. congruence.
        * intros [[-> ->]|[_ H]]; auto.
      + destruct (bytes_ltb k' k) eqn:E2.
        * cbn [In]. rewrite (IH S). split.
          -- intros [E|[H|[N H]]]; auto.
             inversion E; subst. right. split; [|auto]. intros ->.
             rewrite bytes_ltb_irrefl in E2; discriminate.
          -- intros [H|[N [E|H]]]; auto.
        * assert (k = k') by (apply bytes_ltb_total; assumption). subst k'.
          cbn [In]. split.
          -- intros [E|H]; [inversion E; auto|]. right. split; [|auto]. intros ->.
             assert (Hin : In k (map fst m)) by (apply (in_map fst _ _ H)).
             apply A in Hin. rewrite bytes_ltb_irrefl in Hin. discriminate.
          -- intros [[-> ->]|[N [E|H]]]; auto. inversion E; congruence.
  Qed.

  Lemma fold_insert_sorted (l : list (bytes * V)) : forall m,
    keys_sortedb m = true ->
    keys_sortedb (fold_left (fun m kv => map_insert (fst kv) (snd kv) m) l m) = true.
  Proof.
    induction l as [|[k v] l IH]; intros m S; [exact S|]. cbn. apply IH, map_insert_sorted, S.
  Qed.

  Lemma map_of_list_sorted (l : list (bytes * V)) : keys_sortedb (map_of_list l) = true.
  Proof. apply fold_insert_sorted. reflexivity. Qed.

  (** With pairwise distinct keys, collecting keeps exactly the given entries. *)
  Lemma fold_insert_In (l : list (bytes * V)) : forall m,
    keys_sortedb m = true -> NoDup (map fst l) ->
    (forall k, In k (map fst l) -> ~ In k (map fst m)) ->
    forall x, In x (fold_left (fun m kv => map_insert (fst kv) (snd kv) m) l m)
              <-> In x m \/ In x l.
  Proof.
    induction l as [|[k v] l IH]; intros m S ND Dis x; cbn [fold_left].
    - cbn; intuition.
    - cbn [map fst] in ND. inversion ND as [|? ? Hk ND']; subst.
      rewrite IH; [| apply map_insert_sorted, S | exact ND' |].
      + destruct x as [k0 v0]. cbn [fst snd]. rewrite (map_insert_In _ _ _ _ _ S). cbn [In].
        split.
        * intros [[[-> ->]|[_ H]]|H]; auto.
        * intros [H|[E|H]]; auto.
          -- left. right. split; [|exact H]. intros ->.
             apply (Dis k); [left; reflexivity | apply (in_map fst _ _ H)].
          -- inversion E; auto.
      + intros k1 H1 H2. cbn [fst snd] in H2. apply map_insert_keys in H2 as [->|H2].
        * exact (Hk H1).
        * apply (Dis k1); [right; exact H1 | exact H2].
  Qed.

  Lemma map_of_list_In (l : list (bytes * V)) :
    NoDup (map fst l) -> forall x, In x (map_of_list l) <-> In x l.
  Proof.
    intros ND x. unfold map_of_list. rewrite fold_insert_In; [cbn; intuition | reflexivity | exact ND |].
    intros k _ [].
  Qed.

  (** Sorted association lists with the same entries are equal. *)
  Lemma keys_sorted_unique m1 : forall m2,
    keys_sortedb m1 = true -> keys_sortedb m2 = true ->
    (forall x, In x m1 <-> In x m2) -> m1 = m2.
  Proof.
    unfold keys_sortedb.
    induction m1 as [|[k1 v1] m1 IH]; intros [|[k2 v2] m2] S1 S2 H.
    - reflexivity.
    - exfalso. apply (H (k2, v2)). left; reflexivity.
    - exfalso. apply (H (k1, v1)). left; reflexivity.
    - cbn [map fst] in *. apply strict_sorted_cons in S1 as [A1 S1].
      apply strict_sorted_cons in S2 as [A2 S2].
      assert ((k1, v1) = (k2, v2)) as E.
      { destruct (proj1 (H (k1, v1)) (or_introl eq_refl)) as [E|Hin]; [congruence|].
        destruct (proj2 (H (k2, v2)) (or_introl eq_refl)) as [E|Hin']; [congruence|].
        apply (in_map fst) in Hin. apply (in_map fst) in Hin'. cbn in Hin, Hin'.
        apply A2 in Hin. apply A1 in Hin'. apply bytes_ltb_asym in Hin. congruence. }
      inversion E; subst. f_equal. apply IH; auto. intros [k v]; split; intro Hx.
      + destruct (proj1 (H (k, v)) (or_intror Hx)) as [E'|?]; [|assumption].
        inversion E'; subst. apply (in_map fst) in Hx. apply A1 in Hx.
        rewrite bytes_ltb_irrefl in Hx. discriminate.
      + destruct (proj2 (H (k, v)) (or_intror Hx)) as [E'|?]; [|assumption].
        inversion E'; subst. apply (in_map fst) in Hx. apply A2 in Hx.
        rewrite bytes_ltb_irrefl in Hx. discriminate.
  Qed.

  (** Collecting any permutation of a sorted map's entries (a [HashMap]'s iteration order,
      or the map's own order) gives the map back. *)
  Theorem map_of_list_perm (l m : list (bytes * V)) :
    keys_sortedb m = true -> Permutation l m -> map_of_list l = m.
  Proof.
    intros S P. apply keys_sorted_unique; [apply map_of_list_sorted | exact S |].
    assert (ND : NoDup (map fst l)).
    { eapply Permutation_NoDup; [apply Permutation_sym, Permutation_map, P|].
      apply strict_sorted_NoDup, S. }
    intro x. rewrite (map_of_list_In _ ND). split; apply Permutation_in; auto using Permutation_sym.
  Qed.

  Corollary map_of_list_id (m : list (bytes * V)) : keys_sortedb m = true -> map_of_list m = m.
  Proof. intro S. apply map_of_list_perm; auto. Qed.

  Lemma map_lookup_In k v m : keys_sortedb m = true -> (map_lookup k m = Some v <-> In (k, v) m).
  Proof.
    unfold keys_sortedb. induction m as [|[k' v'] m IH]; intro S; cbn [map_lookup In].
    - split; [discriminate | intros []].
    - cbn [map fst] in S. apply strict_sorted_cons in S as [A S].
      destruct (bytes_eqb k k') eqn:E.
      + apply bytes_eqb_spec in E; subst. split; [intros [=->]; auto|].
        intros [[=->]|H]; [reflexivity|]. apply (in_map fst) in H. apply A in H.
        cbn in H. rewrite bytes_ltb_irrefl in H. discriminate.
      + rewrite (IH S). split; [auto|]. intros [[=<- <-]|H]; [|exact H].
        rewrite bytes_eqb_refl in E. discriminate.
  Qed.
End Maps.

Theorem set_of_list_perm (l s : list bytes) :
  strict_sortedb s = true -> Permutation l s -> set_of_list l = s.
Proof.
  intros S P. unfold set_of_list.
  rewrite (map_of_list_perm _ (map (fun k => (k, tt)) s)).
  - rewrite map_map. cbn. apply map_id.
  - unfold keys_sortedb. rewrite map_map. cbn. rewrite map_id. exact S.
  - apply Permutation_map, P.
Qed.

(** * Little-endian integers. *)
Lemma le_bytes_length n : forall x, length (le_bytes n x) = n.
Proof. induction n; intro x; cbn; [reflexivity | f_equal; apply IHn]. Qed.

Lemma le_value_bytes n : forall x, x < 256 ^ N.of_nat n -> le_value (le_bytes n x) = x.
Proof.
  induction n as [|n IH]; intros x H.
  - cbn in *. lia.
  - cbn [le_bytes le_value]. rewrite IH.
    + pose proof (N.div_mod x 256 ltac:(lia)). lia.
    + rewrite Nat2N.inj_succ, N.pow_succ_r' in H. apply N.div_lt_upper_bound; lia.
Qed.

Lemma le_bytes_byte n : forall x, Forall (fun b => b < 256) (le_bytes n x).
Proof.
  induction n; intro x; cbn; constructor; [apply N.mod_lt; lia | apply IHn].
Qed.

Lemma take_app (a r : bytes) : take (length a) (a ++ r) = Some (a, r).
Proof.
  unfold take. rewrite app_length.
  replace (length a <=? length a + length r)%nat with true by (symmetry; apply Nat.leb_le; lia).
  rewrite firstn_app, Nat.sub_diag, firstn_all, skipn_app, Nat.sub_diag, skipn_all. cbn.
  rewrite app_nil_r. reflexivity.
Qed.

Lemma take_le (n : nat) (x : N) r : take n (le_bytes n x ++ r) = Some (le_bytes n x, r).
Proof. rewrite <- (le_bytes_length n x) at 1. apply take_app. Qed.

Lemma signed_roundtrip n z : (0 < n)%nat ->
  (- 2 ^ (8 * Z.of_nat n - 1) <= z < 2 ^ (8 * Z.of_nat n - 1))%Z ->
  signed_value n (le_signed n z) = z.
Proof.
  intros Hn Hz. unfold signed_value, le_signed.
  set (W := (8 * Z.of_nat n)%Z) in *.
  assert (HW : (2 ^ W = 2 * 2 ^ (W - 1))%Z).
  { replace W with (Z.succ (W - 1)) at 1 by lia. apply Z.pow_succ_r. lia. }
  assert (Hp : (0 < 2 ^ (W - 1))%Z) by (apply Z.pow_pos_nonneg; lia).
  assert (Hm : (0 <= z mod 2 ^ W < 2 ^ W)%Z) by (apply Z.mod_pos_bound; lia).
  rewrite le_value_bytes.
  - rewrite Z2N.id by lia.
    destruct (Z_lt_dec z 0) as [Neg|Pos].
    + replace (z mod 2 ^ W)%Z with (z + 2 ^ W)%Z.
      * destruct (Z.ltb_spec (z + 2 ^ W) (2 ^ (W - 1))); lia.
      * apply Z.mod_unique with (q := (-1)%Z); lia.
    + rewrite Z.mod_small by lia. destruct (Z.ltb_spec z (2 ^ (W - 1))); lia.
  - replace (256 ^ N.of_nat n) with (Z.to_N (2 ^ W)).
    + apply Z2N.inj_lt; lia.
    + unfold W. rewrite Z.pow_mul_r by lia. change (2 ^ 8)%Z with 256%Z.
      rewrite <- nat_N_Z. rewrite <- N2Z.inj_pow with (n := 256). apply N2Z.id.
Qed.

(** * Codecs. *)
Definition codec_ok {A} (c : codec A) : Prop :=
  forall x r, cwf c x -> dec c (enc c x ++ r) = Some (x, r).

(** A prefix-decodable encoding is injective, and even prefix-free. *)
Lemma codec_inj {A} (c : codec A) : codec_ok c ->
  forall x y, cwf c x -> cwf c y -> enc c x = enc c y -> x = y.
Proof.
  intros H x y Hx Hy E. pose proof (H x [] Hx) as Dx. pose proof (H y [] Hy) as Dy.
  rewrite E in Dx. rewrite Dx in Dy. congruence.
Qed.

Lemma codec_prefix_free {A} (c : codec A) : codec_ok c ->
  forall x y r s, cwf c x -> cwf c y -> enc c x ++ r = enc c y ++ s -> x = y /\ r = s.
Proof.
  intros H x y r s Hx Hy E. pose proof (H x r Hx) as Dx. pose proof (H y s Hy) as Dy.
  rewrite E in Dx. rewrite Dx in Dy. inversion Dy; auto.
Qed.

Lemma c_unsigned_ok n : codec_ok (c_unsigned n).
Proof.
  intros x r H. unfold c_unsigned in *. cbn [enc dec cwf] in *.
  rewrite take_le, le_value_bytes by exact H. reflexivity.
Qed.

Lemma c_signed_ok n : (0 < n)%nat -> codec_ok (c_signed n).
Proof.
  intros Hn z r H. unfold c_signed in *. cbn [enc dec cwf] in *. unfold le_signed at 1.
  rewrite take_le. fold (le_signed n z). rewrite signed_roundtrip by assumption. reflexivity.
Qed.

Lemma c_bool_ok : codec_ok c_bool.
Proof. intros [|] r _; reflexivity. Qed.

Lemma c_bytes_ok : codec_ok c_bytes.
Proof.
  intros b r [_ H]. unfold c_bytes. cbn [enc dec cwf].
  rewrite <- app_assoc, take_le, le_value_bytes by exact H.
  rewrite Nat2N.id. apply take_app.
Qed.

Lemma c_pair_ok {A B} (ca : codec A) (cb : codec B) :
  codec_ok ca -> codec_ok cb -> codec_ok (c_pair ca cb).
Proof.
  intros Ha Hb [a b] r [H1 H2]. unfold c_pair. cbn [enc dec cwf fst snd] in *.
  rewrite <- app_assoc, Ha, Hb by assumption. reflexivity.
Qed.

Lemma dec_n_ok {A} (c : codec A) : codec_ok c ->
  forall l r, Forall (cwf c) l -> dec_n c (length l) (flat_map (enc c) l ++ r) = Some (l, r).
Proof.
  intros H l; induction l as [|x l IH]; intros r F; [reflexivity|].
  inversion F; subst. cbn [length flat_map dec_n].
  rewrite <- app_assoc, H, IH by assumption. reflexivity.
Qed.

Lemma c_list_ok {A} (c : codec A) : codec_ok c -> codec_ok (c_list c).
Proof.
  intros H l r [F L]. unfold c_list. cbn [enc dec cwf].
  rewrite <- app_assoc, take_le, le_value_bytes by exact L.
  rewrite Nat2N.id. apply dec_n_ok; assumption.
Qed.

Lemma c_option_ok {A} (c : codec A) : codec_ok c -> codec_ok (c_option c).
Proof.
  intros H [x|] r W; unfold c_option; cbn [enc dec cwf] in *.
  - rewrite <- app_assoc, take_le. change (le_value (le_bytes 4 1)) with 1. cbn [N.eqb Pos.eqb].
    rewrite H by exact W. reflexivity.
  - rewrite take_le. reflexivity.
Qed.

Lemma c_iso_ok {A B} (f : A -> B) (g : B -> A) (c : codec B) :
  (forall a, g (f a) = a) -> codec_ok c -> codec_ok (c_iso f g c).
Proof.
  intros Hg H a r W. unfold c_iso in *. cbn [enc dec cwf] in *.
  rewrite H by exact W. rewrite Hg. reflexivity.
Qed.
