(** C46 — [visit_op] and the whole walk: termination, completeness, uniqueness, order. *)
From Coq Require Import Lia Relations.
From Verif Require Import Base.Prelude Model.C46 Proofs.C46Scan Proofs.C46Topo.

(** * One operation *)
Record visit_post (m : pmap) (T em T' : list N) : Prop := {
  vp_nodup : NoDup em;
  vp_em : forall x, In x em <-> (is_key m x = true /\ reach_from m T x);
  vp_order : forall l1 c l2, em = l1 ++ c :: l2 ->
             forall p, edge m c p -> is_key m p = true -> In p l2;
  vp_rest : forall x, In x T' <-> (is_key m x = false /\ reach_from m T x);
}.

Lemma filter_split {A} (f : A -> bool) l : forall l1 c l2,
  filter f l = l1 ++ c :: l2 ->
  exists r1 r2, l = r1 ++ c :: r2 /\ l2 = filter f r2.
Proof.
  induction l as [|a l IH]; intros l1 c l2 H; cbn in H.
  - destruct l1; discriminate.
  - destruct (f a) eqn:Ef.
    + destruct l1 as [|b l1]; cbn in H; inversion H; subst.
      * exists [], l. split; reflexivity.
      * destruct (IH _ _ _ H2) as (r1 & r2 & -> & ->).
        exists (b :: r1), r2. split; reflexivity.
    + destruct (IH _ _ _ H) as (r1 & r2 & -> & ->).
      exists (a :: r1), r2. split; reflexivity.
Qed.

Lemma NoDup_filter {A} (f : A -> bool) l : NoDup l -> NoDup (filter f l).
Proof.
  induction 1 as [|a l Ha Hl IH]; cbn; [constructor|].
  destruct (f a); [|assumption]. constructor; [|assumption].
  intros H. apply filter_In in H. tauto.
Qed.

Lemma reach_from_trans m T E x :
  (forall e, In e E -> reach_from m T e) -> reach_from m E x -> reach_from m T x.
Proof.
  intros HE (e & He & Hr). destruct (HE e He) as (t & Ht & Hte).
  exists t. split; [assumption|]. eapply mreach_trans; eauto.
Qed.

Lemma visit_general_spec m T E dup T' em T'' :
  scan_post m T (E, dup, T') -> visit_general m E T' = VOk em T'' -> visit_post m T em T''.
Proof.
  intros [Hnd Hem Hrest Hself]. cbn in *. unfold visit_general.
  destruct (topo_reverse m E) as [[c|res]|] eqn:Et; try discriminate.
  intros H; inversion H; subst em T''; clear H.
  apply topo_spec in Et. destruct Et as (Rnd & Rin & Rord).
  constructor.
  - now apply NoDup_filter.
  - intros x. rewrite filter_In, Rin. split.
    + intros [Hr Hk]. split; [assumption|].
      eapply reach_from_trans; [|exact Hr]. intros e He. now apply Hem in He.
    + intros [Hk Hr]. split; [|assumption].
      exists x. split; [|apply mreach_refl]. apply Hem. auto.
  - intros l1 c l2 E' p Hp Hkp.
    destruct (filter_split _ _ _ _ _ E') as (r1 & r2 & -> & ->).
    apply filter_In. split; [|assumption]. eapply Rord; eauto.
  - assumption.
Qed.

Lemma visit_op_spec m T em T' : visit_op m T = VOk em T' -> visit_post m T em T'.
Proof.
  unfold visit_op. destruct (scan m T) as [[[E dup] T1]|] eqn:Es; [|discriminate].
  pose proof (scan_spec m T _ Es) as Hpost.
  destruct E as [|c [|c' E]].
  - intros H; inversion H; subst. destruct Hpost as [Hnd Hem Hrest Hself]. cbn in *.
    constructor; [constructor| | |assumption].
    + intros x. split; [intros []|]. intros H0. now apply Hem in H0.
    + intros l1 c l2 H0. destruct l1; discriminate.
  - destruct dup; cbn [negb].
    + now apply visit_general_spec with (dup := true).
    + intros H; inversion H; subst. destruct Hpost as [Hnd Hem Hrest Hself]. cbn in *.
      constructor; [assumption|assumption| |assumption].
      intros l1 c0 l2 E' p Hp Hkp.
      destruct l1 as [|a l1]; [|destruct l1; discriminate]. cbn in E'. inversion E'; subst c0 l2.
      exfalso.
      assert (In p [c]) as Hin.
      { apply Hem. split; [assumption|].
        assert (reach_from m T c) as (t & Ht & Hr) by (apply Hem; now left).
        exists t. split; [assumption|]. eapply mreach_trans; [exact Hr|].
        eapply mreach_step; [exact Hp|apply mreach_refl]. }
      destruct Hin as [<-|[]].
      specialize (Hself c (or_introl eq_refl) Hp). discriminate.
  - now apply visit_general_spec with (dup := dup).
Qed.

Lemma visit_op_no_fuel m T : visit_op m T <> VFuel.
Proof.
  unfold visit_op. destruct (scan m T) as [[[E dup] T1]|] eqn:Es.
  2:{ now apply scan_terminates in Es. }
  assert (Hg : visit_general m E T1 <> VFuel).
  { unfold visit_general. destruct (topo_reverse m E) as [[c|res]|] eqn:Et; try discriminate.
    now apply topo_terminates in Et. }
  destruct E as [|c [|c' E]]; [discriminate| |assumption].
  destruct dup; cbn [negb]; [assumption|discriminate].
Qed.

Lemma visit_op_ranked m T (rank : N -> nat) :
  (forall c p, edge m c p -> rank p < rank c) -> exists em T', visit_op m T = VOk em T'.
Proof.
  intros Hr. unfold visit_op. destruct (scan m T) as [[[E dup] T1]|] eqn:Es.
  2:{ now apply scan_terminates in Es. }
  assert (Hg : exists em T', visit_general m E T1 = VOk em T').
  { unfold visit_general. destruct (topo_ranked_ok m E rank Hr) as (res & ->). eauto. }
  destruct E as [|c [|c' E]]; [eauto| |assumption].
  destruct dup; cbn [negb]; eauto.
Qed.

(** A reported cycle is a real cycle of recorded predecessor edges of that operation. *)
Lemma visit_op_cycle m T c : visit_op m T = VCycle c -> tpath m c c /\ reach_from m T c.
Proof.
  unfold visit_op. destruct (scan m T) as [[[E dup] T1]|] eqn:Es; [|discriminate].
  pose proof (scan_spec m T _ Es) as [Hnd Hem Hrest Hself]. cbn in *.
  assert (Hg : visit_general m E T1 = VCycle c -> tpath m c c /\ reach_from m T c).
  { unfold visit_general. destruct (topo_reverse m E) as [[c'|res]|] eqn:Et; try discriminate.
    intros H; inversion H; subst c'. apply topo_spec in Et. destruct Et as [Hc Hr].
    split; [assumption|]. eapply reach_from_trans; [|exact Hr].
    intros e He. now apply Hem in He. }
  destruct E as [|c0 [|c1 E]]; [discriminate| |assumption].
  destruct dup; cbn [negb]; [assumption|discriminate].
Qed.

(** * The whole history *)
Definition key_any (ms : list pmap) (c : N) : Prop := exists m, In m ms /\ is_key m c = true.
Definition edge_any (ms : list pmap) (c p : N) : Prop := exists m, In m ms /\ edge m c p.
Definition greach (ms : list pmap) : N -> N -> Prop := clos_refl_trans_1n N (edge_any ms).
Definition greach_from (ms : list pmap) (T : list N) (x : N) : Prop :=
  exists t, In t T /\ greach ms t x.

(** Well-formedness of a list of operations in walk order (newest first):
    a commit is recorded (is a key) by at most one operation, and a predecessor recorded by
    an operation is never a commit recorded by a newer operation. *)
Fixpoint WF (ms : list pmap) : Prop :=
  match ms with
  | [] => True
  | m :: rest =>
      (forall c, is_key m c = true -> ~ key_any rest c)
      /\ (forall c p, edge_any rest c p -> is_key m p = false)
      /\ WF rest
  end.

(** Acyclicity, witnessed by a rank that every recorded rewrite increases. *)
Definition Ranked (rank : N -> nat) (ms : list pmap) : Prop :=
  forall m, In m ms -> forall c p, edge m c p -> rank p < rank c.

(** Every commit reachable from the start commits is recorded by some operation. *)
Definition Closed (ms : list pmap) (T : list N) : Prop :=
  forall x, greach_from ms T x -> key_any ms x.

Lemma greach_refl ms x : greach ms x x.
Proof. constructor. Qed.

Lemma greach_trans ms x y z : greach ms x y -> greach ms y z -> greach ms x z.
Proof.
  intros H. revert z. induction H as [|a b c He _ IH]; intros z Hz; [assumption|].
  econstructor; [exact He|]. now apply IH.
Qed.

Lemma greach_mono ms ms' x y :
  (forall m, In m ms -> In m ms') -> greach ms x y -> greach ms' x y.
Proof.
  intros Hinc. induction 1 as [|x y z (m & Hm & He) _ IH]; [constructor|].
  econstructor; [|exact IH]. exists m. auto.
Qed.

Lemma mreach_greach m ms x y : In m ms -> mreach m x y -> greach ms x y.
Proof.
  intros Hm. induction 1 as [|x y z He _ IH]; [constructor|].
  econstructor; [|exact IH]. exists m. auto.
Qed.

Lemma edge_any_key ms c p : edge_any ms c p -> key_any ms c.
Proof. intros (m & Hm & He). exists m. split; [assumption|]. eapply nbrs_key; eauto. Qed.

(** Below a commit that the newest operation does not record, that operation plays no role. *)
Lemma greach_drop_head m rest y x :
  WF (m :: rest) -> is_key m y = false -> greach (m :: rest) y x ->
  greach rest y x /\ is_key m x = false.
Proof.
  intros (W1 & W2 & _) Hy H. induction H as [|y y1 x (m' & Hm' & He) _ IH]; [split; [constructor|assumption]|].
  destruct Hm' as [<-|Hm'].
  - apply nbrs_key in He. congruence.
  - assert (Hy1 : is_key m y1 = false) by (apply (W2 y y1); exists m'; auto).
    destruct (IH Hy1) as [IH1 IH2]. split; [|assumption].
    econstructor; [|exact IH1]. exists m'. auto.
Qed.

Lemma greach_split m rest t x :
  WF (m :: rest) -> greach (m :: rest) t x ->
  exists y, mreach m t y /\ (y = x \/ (is_key m y = false /\ greach rest y x)).
Proof.
  intros W H. induction H as [|t t1 x He Hr IH].
  - exists x. split; [apply mreach_refl|now left].
  - destruct (is_key m t) eqn:Hk.
    + destruct He as (m' & [<-|Hm'] & He).
      * destruct IH as (y & Hy & Hyx). exists y. split; [|assumption].
        eapply mreach_step; eauto.
      * exfalso. destruct W as (W1 & _). apply (W1 t Hk). exists m'. split; [assumption|].
        eapply nbrs_key; eauto.
    + exists t. split; [apply mreach_refl|]. right. split; [assumption|].
      apply (greach_drop_head m rest t x W Hk). econstructor; eauto.
Qed.

Definition tagged_with (k : N) (em : list N) : list entry := map (fun c => (c, Some k)) em.

Lemma walk_cons k m rest T :
  T <> [] ->
  walk k (Some m :: rest) T =
  match visit_op m T with
  | VOk em tv => (tagged_with k em ++ fst (walk (k + 1) rest tv), snd (walk (k + 1) rest tv))
  | VCycle c => ([], Cycle c)
  | VFuel => ([], OutOfFuel)
  end.
Proof. destruct T; [congruence|reflexivity]. Qed.

Lemma walk_nil_ops k T : walk k [] T = (flush T, Done).
Proof. destruct T; reflexivity. Qed.

Lemma walk_nil_T k ops : walk k ops [] = ([], Done).
Proof. destruct ops; reflexivity. Qed.

(** Operations behind one that stores no predecessor records are never looked at. *)
Lemma walk_some_prefix ops : forall k T, walk k ops T = walk k (map Some (some_prefix ops)) T.
Proof.
  induction ops as [|[m|] rest IH]; intros k T.
  - reflexivity.
  - destruct T as [|t T]; [reflexivity|]. cbn [some_prefix map].
    rewrite !walk_cons by discriminate.
    destruct (visit_op m (t :: T)); try reflexivity. now rewrite IH.
  - destruct T; reflexivity.
Qed.

Theorem walk_no_fuel ops : forall k T, snd (walk k ops T) <> OutOfFuel.
Proof.
  induction ops as [|[m|] rest IH]; intros k T.
  - rewrite walk_nil_ops. discriminate.
  - destruct T as [|t T]; [cbn; discriminate|]. rewrite walk_cons by discriminate.
    destruct (visit_op m (t :: T)) eqn:Ev; cbn; try discriminate.
    + apply IH.
    + now apply visit_op_no_fuel in Ev.
  - destruct T; cbn; discriminate.
Qed.

Theorem walk_cycle_sound ops : forall k T c,
  snd (walk k ops T) = Cycle c -> exists m, In (Some m) ops /\ tpath m c c.
Proof.
  induction ops as [|[m|] rest IH]; intros k T c.
  - rewrite walk_nil_ops. discriminate.
  - destruct T as [|t T]; [cbn; discriminate|]. rewrite walk_cons by discriminate.
    destruct (visit_op m (t :: T)) eqn:Ev; cbn.
    + intros H. destruct (IH _ _ _ H) as (m' & Hm' & Hp). exists m'. split; [now right|assumption].
    + intros H; inversion H; subst. exists m. split; [now left|].
      now apply visit_op_cycle in Ev.
    + discriminate.
  - destruct T; cbn; discriminate.
Qed.

Theorem walk_ranked_done rank ms : Ranked rank ms ->
  forall k T, snd (walk k (map Some ms) T) = Done.
Proof.
  induction ms as [|m rest IH]; intros Hr k T.
  - now rewrite walk_nil_ops.
  - destruct T as [|t T]; [reflexivity|]. cbn [map]. rewrite walk_cons by discriminate.
    destruct (visit_op_ranked m (t :: T) rank) as (em & T' & ->).
    { apply Hr. now left. }
    cbn. apply IH. intros m' Hm'. apply Hr. now right.
Qed.

Lemma app_split_mid {A} (l r : list A) : forall l1 x l2,
  l ++ r = l1 ++ x :: l2 ->
  (exists l', l = l1 ++ x :: l' /\ l2 = l' ++ r) \/ (exists l', r = l' ++ x :: l2 /\ l1 = l ++ l').
Proof.
  induction l as [|a l IH]; intros l1 x l2 H; cbn in H.
  - right. exists l1. auto.
  - destruct l1 as [|b l1]; cbn in H; inversion H; subst.
    + left. exists l. auto.
    + destruct (IH _ _ _ H2) as [(l' & -> & ->)|(l' & -> & ->)].
      * left. exists l'. auto.
      * right. exists l'. auto.
Qed.

Lemma NoDup_app_disj {A} (l1 l2 : list A) x : NoDup (l1 ++ l2) -> In x l1 -> In x l2 -> False.
Proof.
  induction l1 as [|a l1 IH]; cbn; [intros _ []|].
  intros Hnd Hx H2. inversion Hnd as [|? ? Hna Hnd']; subst. destruct Hx as [->|H1].
  - apply Hna. apply in_or_app. now right.
  - now apply IH.
Qed.

Lemma tagged_with_fst k em : map fst (tagged_with k em) = em.
Proof. unfold tagged_with. rewrite map_map. cbn. apply map_id. Qed.

Lemma tagged_with_filter k em : filter tagged (tagged_with k em) = tagged_with k em.
Proof. unfold tagged_with. induction em; cbn; [reflexivity|]. now rewrite IHem. Qed.

Lemma tagged_with_In k em c tag : In (c, tag) (tagged_with k em) <-> tag = Some k /\ In c em.
Proof.
  unfold tagged_with. rewrite in_map_iff. split.
  - intros (x & E & Hx). inversion E; subst. auto.
  - intros [-> H]. exists c. auto.
Qed.

Lemma tagged_with_split k em l1 e l2 :
  tagged_with k em = l1 ++ e :: l2 ->
  exists e1 c e2, em = e1 ++ c :: e2 /\ l1 = tagged_with k e1 /\ e = (c, Some k) /\ l2 = tagged_with k e2.
Proof.
  revert l1. induction em as [|a em IH]; intros l1 H; cbn in H.
  - destruct l1; discriminate.
  - destruct l1 as [|b l1]; cbn in H; inversion H; subst.
    + exists [], a, em. auto.
    + destruct (IH _ H2) as (e1 & c & e2 & -> & -> & -> & ->).
      exists (a :: e1), c, e2. auto.
Qed.

(** What the walk guarantees on a well-formed history. *)
Record walk_post (k : N) (ms : list pmap) (T : list N) (out : list entry) : Prop := {
  wp_sound : forall c tag, In (c, tag) out -> greach_from ms T c;
  wp_complete : forall x, greach_from ms T x -> In x (map fst out);
  wp_tag : forall c j, In (c, Some j) out ->
           exists i m', j = (k + N.of_nat i)%N /\ nth_error ms i = Some m' /\ is_key m' c = true;
  wp_untagged : forall c, In (c, None) out -> ~ key_any ms c;
  wp_nodup : NoDup (map fst (filter tagged out));
  wp_nodup_all : NoDup (map fst out);
  wp_order : forall l1 c j l2, out = l1 ++ (c, Some j) :: l2 ->
             forall i m', j = (k + N.of_nat i)%N -> nth_error ms i = Some m' ->
             forall p, edge m' c p -> In p (map fst l2) /\ ~ In p (map fst l1);
}.

Lemma unique_from_In seen l x : In x (unique_from seen l) <-> (In x l /\ ~ In x seen).
Proof.
  revert seen. induction l as [|a l IH]; intros seen; cbn.
  - tauto.
  - destruct (memN a seen) eqn:E.
    + apply memN_In in E. rewrite IH. split.
      * intros [H1 H2]. auto.
      * intros [[<-|H1] H2]; [contradiction|auto].
    + apply memN_false in E. cbn. rewrite IH. cbn. split.
      * intros [<-|[H1 H2]]; [auto|]. split; [auto|]. intros H. apply H2. now right.
      * intros [[<-|H1] H2]; [now left|].
        destruct (N.eq_dec a x) as [->|Hne]; [now left|]. right. split; [assumption|].
        intros [H|H]; [congruence|contradiction].
Qed.

Lemma unique_from_NoDup seen l : NoDup (unique_from seen l).
Proof.
  revert seen. induction l as [|a l IH]; intros seen; cbn; [constructor|].
  destruct (memN a seen); [apply IH|]. constructor; [|apply IH].
  rewrite unique_from_In. intros [_ H]. apply H. now left.
Qed.

Lemma unique_In l x : In x (unique l) <-> In x l.
Proof. unfold unique. rewrite unique_from_In. cbn. tauto. Qed.

Lemma unique_NoDup l : NoDup (unique l).
Proof. apply unique_from_NoDup. Qed.

Lemma flush_In c tag T : In (c, tag) (flush T) <-> tag = None /\ In c T.
Proof.
  unfold flush. rewrite in_map_iff. split.
  - intros (x & E & Hx). inversion E; subst. rewrite unique_In in Hx. auto.
  - intros [-> H]. exists c. split; [reflexivity|]. now rewrite unique_In.
Qed.

Lemma flush_fst T : map fst (flush T) = unique T.
Proof. unfold flush. rewrite map_map. cbn. apply map_id. Qed.

Lemma walk_spec ms : forall k T out,
  WF ms -> walk k (map Some ms) T = (out, Done) -> walk_post k ms T out.
Proof.
  induction ms as [|m rest IH]; intros k T out W H.
  - cbn [map] in H. rewrite walk_nil_ops in H. inversion H; subst out; clear H.
    constructor.
    + intros c tag Hc. apply flush_In in Hc. exists c. split; [tauto|apply greach_refl].
    + intros x (t & Ht & Hr). inversion Hr; subst.
      * rewrite flush_fst. now rewrite unique_In.
      * destruct H as (m & [] & _).
    + intros c j Hc. apply flush_In in Hc. destruct Hc; discriminate.
    + intros c _ (m & [] & _).
    + assert (filter tagged (flush T) = []) as ->; [|constructor].
      unfold flush. induction (unique T); cbn; auto.
    + rewrite flush_fst. apply unique_NoDup.
    + intros l1 c j l2 E. exfalso.
      assert (In (c, Some j) (flush T)) as Hin by (rewrite E; apply in_or_app; right; now left).
      apply flush_In in Hin. destruct Hin; discriminate.
  - destruct T as [|t0 T0].
    { (* nothing to visit *)
      rewrite walk_nil_T in H. inversion H; subst out. constructor; cbn.
      - intros c tag [].
      - intros x (t & [] & _).
      - intros c j [].
      - intros c [].
      - constructor.
      - constructor.
      - intros l1 c j l2 E. destruct l1; discriminate. }
    set (T := t0 :: T0) in *.
    cbn [map] in H. rewrite walk_cons in H by discriminate.
    destruct (visit_op m T) as [em T'| |] eqn:Ev; try discriminate.
    destruct (walk (k + 1) (map Some rest) T') as [out' st] eqn:Ew. cbn in H.
    inversion H; subst out st; clear H.
    pose proof (visit_op_spec m T em T' Ev) as [Vnd Vem Vord Vrest].
    assert (W' := W). destruct W' as (W1 & W2 & Wr).
    specialize (IH (k + 1)%N T' out' Wr Ew). destruct IH as [Isnd Icmp Itag Iunt Ind Inda Iord].
    assert (HT' : forall x, greach_from rest T' x -> greach_from (m :: rest) T x /\ is_key m x = false).
    { intros x (t' & Ht' & Hr). apply Vrest in Ht'. destruct Ht' as [Hk' (t & Ht & Htt')].
      split.
      - exists t. split; [assumption|]. eapply greach_trans.
        + eapply mreach_greach; [now left|exact Htt'].
        + eapply greach_mono; [|exact Hr]. intros; now right.
      - apply (greach_drop_head m rest t' x W Hk').
        eapply greach_mono; [|exact Hr]. intros; now right. }
    assert (Hout'_nonkey : forall c tag, In (c, tag) out' -> is_key m c = false).
    { intros c tag Hc. apply (HT' c). eapply Isnd; eauto. }
    assert (Hcomplete : forall x, greach_from (m :: rest) T x -> In x em \/ In x (map fst out')).
    { intros x (t & Ht & Hr). destruct (greach_split m rest t x W Hr) as (y & Hty & Hy).
      assert (Hry : reach_from m T y) by (exists t; auto).
      destruct (is_key m y) eqn:Hky.
      - destruct Hy as [->|[Hf _]]; [|congruence]. left. apply Vem. auto.
      - right. apply Icmp. exists y. split; [apply Vrest; auto|].
        destruct Hy as [->|[_ Hg]]; [apply greach_refl|assumption]. }
    constructor.
    + intros c tag Hc. apply in_app_or in Hc. destruct Hc as [Hc|Hc].
      * apply tagged_with_In in Hc. destruct Hc as [_ Hc]. apply Vem in Hc.
        destruct Hc as [_ (t & Ht & Hr)]. exists t. split; [assumption|].
        eapply mreach_greach; [now left|exact Hr].
      * apply (HT' c). eapply Isnd; eauto.
    + intros x Hx. rewrite map_app, tagged_with_fst. apply in_or_app. auto.
    + intros c j Hc. apply in_app_or in Hc. destruct Hc as [Hc|Hc].
      * apply tagged_with_In in Hc. destruct Hc as [E Hc]. inversion E; subst j.
        exists O, m. split; [cbn; lia|]. split; [reflexivity|]. now apply Vem in Hc.
      * destruct (Itag c j Hc) as (i & m' & -> & Hn & Hk). exists (S i), m'.
        split; [lia|]. auto.
    + intros c Hc. apply in_app_or in Hc. destruct Hc as [Hc|Hc].
      * apply tagged_with_In in Hc. destruct Hc; discriminate.
      * intros (m' & [<-|Hm'] & Hk).
        -- rewrite (Hout'_nonkey c None Hc) in Hk. discriminate.
        -- apply (Iunt c Hc). exists m'. auto.
    + rewrite filter_app, map_app, tagged_with_filter, tagged_with_fst.
      assert (Hdisj : forall x, In x em -> ~ In x (map fst (filter tagged out'))).
      { intros x Hx Hx'. apply in_map_iff in Hx'. destruct Hx' as ([c tag] & <- & Hc).
        apply filter_In in Hc. destruct Hc as [Hc _]. cbn in Hx.
        apply Vem in Hx. rewrite (Hout'_nonkey c tag Hc) in Hx. destruct Hx; discriminate. }
      clear - Vnd Ind Hdisj. induction Vnd as [|a em Ha Hem IHem]; cbn; [assumption|].
      constructor.
      * rewrite in_app_iff. intros [H|H]; [contradiction|]. apply (Hdisj a); [now left|assumption].
      * apply IHem. intros x Hx. apply Hdisj. now right.
    + rewrite map_app, tagged_with_fst.
      assert (Hdisj : forall x, In x em -> ~ In x (map fst out')).
      { intros x Hx Hx'. apply in_map_iff in Hx'. destruct Hx' as ([c tag] & <- & Hc). cbn in Hx.
        apply Vem in Hx. rewrite (Hout'_nonkey c tag Hc) in Hx. destruct Hx; discriminate. }
      clear - Vnd Inda Hdisj. induction Vnd as [|a em Ha Hem IHem]; cbn; [assumption|].
      constructor.
      * rewrite in_app_iff. intros [H|H]; [contradiction|]. apply (Hdisj a); [now left|assumption].
      * apply IHem. intros x Hx. apply Hdisj. now right.
    + intros l1 c j l2 E i m' Ej Hn p Hp.
      destruct (app_split_mid _ _ _ _ _ E) as [(l' & E1 & ->)|(l' & E1 & ->)].
      * (* the entry was emitted for the newest operation *)
        destruct (tagged_with_split _ _ _ _ _ E1) as (e1 & c0 & e2 & -> & -> & Ec & ->).
        inversion Ec; subst c0 j.
        assert (i = O) by lia. subst i. cbn in Hn. inversion Hn; subst m'.
        rewrite map_app, !tagged_with_fst.
        assert (Hc : In c (e1 ++ c :: e2)) by (apply in_or_app; right; now left).
        apply Vem in Hc. destruct Hc as [Hkc (t & Ht & Hr)].
        destruct (is_key m p) eqn:Hkp.
        -- split.
           ++ apply in_or_app. left. eapply Vord; eauto.
           ++ intros Hin. apply (NoDup_app_disj e1 (c :: e2) p Vnd Hin).
              right. eapply Vord; eauto.
        -- split.
           ++ apply in_or_app. right. apply Icmp. exists p. split; [|apply greach_refl].
              apply Vrest. split; [assumption|]. exists t. split; [assumption|].
              eapply mreach_trans; [exact Hr|]. eapply mreach_step; [exact Hp|apply mreach_refl].
           ++ intros Hin.
              assert (In p (e1 ++ c :: e2)) as Hin' by (apply in_or_app; now left).
              apply Vem in Hin'. destruct Hin'; congruence.
      * (* the entry belongs to an older operation *)
        assert (Hin : In (c, Some j) out') by (rewrite E1; apply in_or_app; right; now left).
        destruct (Itag c j Hin) as (i' & m'' & Ej' & Hn' & Hk').
        assert (i = S i') by lia. subst i. cbn in Hn.
        destruct (Iord l' c j l2 E1 i' m' Ej' Hn p Hp) as [H1 H2].
        split; [assumption|].
        rewrite map_app, tagged_with_fst, in_app_iff. intros [H|H]; [|contradiction].
        apply Vem in H. destruct H as [Hkp _].
        assert (is_key m p = false); [|congruence].
        apply (W2 c p). exists m'. split; [|assumption]. eapply nth_error_In; eauto.
Qed.

(** * The boolean checkers *)
Lemma key_anyb_spec ms c : key_anyb ms c = true <-> key_any ms c.
Proof.
  unfold key_anyb, key_any. rewrite existsb_exists. tauto.
Qed.

Lemma key_anyb_false ms c : key_anyb ms c = false <-> ~ key_any ms c.
Proof. rewrite <- key_anyb_spec. destruct (key_anyb ms c); split; congruence. Qed.

Lemma edge_In m c p : edge m c p -> exists v, In (c, v) m /\ In p v.
Proof.
  unfold edge, nbrs. destruct (lookup m c) as [v|] eqn:E; [|intros []].
  intros H. exists v. split; [now apply lookup_In|assumption].
Qed.

Lemma wfb_sound ms : wfb ms = true -> WF ms /\ Ranked N.to_nat ms.
Proof.
  induction ms as [|m rest IH]; cbn [wfb].
  - intros _. split; [exact I|]. intros m [].
  - rewrite !andb_true_iff, !forallb_forall. intros [[[H1 H2] H3] H4].
    destruct (IH H4) as [W R]. split.
    + cbn. split; [|split; [|assumption]].
      * intros c Hc. apply is_key_true in Hc. destruct Hc as (v & Hv). apply lookup_In in Hv.
        specialize (H1 _ Hv). cbn in H1. apply negb_true_iff in H1. now apply key_anyb_false.
      * intros c p (m' & Hm' & He). specialize (H2 m' Hm'). rewrite forallb_forall in H2.
        apply negb_true_iff. apply H2. unfold all_preds. eapply nbrs_in_all_preds; eauto.
    + intros m' [<-|Hm'] c p He; [|eapply R; eauto].
      destruct (edge_In _ _ _ He) as (v & Hv & Hp). specialize (H3 _ Hv). cbn in H3.
      rewrite forallb_forall in H3. specialize (H3 p Hp). apply N.ltb_lt in H3. lia.
Qed.

Lemma closedb_sound ms T : closedb ms T = true -> Closed ms T.
Proof.
  unfold closedb. rewrite andb_true_iff, !forallb_forall. intros [H1 H2] x (t & Ht & Hr).
  assert (Ht' : key_any ms t) by (apply key_anyb_spec; auto). clear Ht.
  induction Hr as [|a b c (m & Hm & He) _ IH]; [assumption|]. apply IH.
  apply key_anyb_spec. specialize (H2 m Hm). rewrite forallb_forall in H2. apply H2.
  eapply nbrs_in_all_preds; eauto.
Qed.

Lemma nodupb_spec l : nodupb l = true <-> NoDup l.
Proof.
  induction l as [|a l IH]; cbn.
  - split; [constructor|reflexivity].
  - rewrite andb_true_iff, negb_true_iff, memN_false, IH. split.
    + intros [H1 H2]. now constructor.
    + intros H. inversion H. auto.
Qed.

Lemma nth_map_error ms : forall i, (i < length ms)%nat -> nth_error ms i = Some (nth_map ms i).
Proof.
  induction ms as [|m ms IH]; intros i Hi; cbn in Hi; [lia|].
  destruct i; [reflexivity|]. cbn. apply IH. lia.
Qed.

(** Declarative reading of [entries_okb]. *)
Definition Entry_ok (ms : list pmap) (c : N) (tag : option N) (later : list entry) : Prop :=
  match tag with
  | Some j => exists m', nth_error ms (N.to_nat j) = Some m' /\ is_key m' c = true
                         /\ forall p, edge m' c p -> In p (map fst later)
  | None => ~ key_any ms c
  end.

Definition Entries_ok (ms : list pmap) (out : list entry) : Prop :=
  forall l1 c tag l2, out = l1 ++ (c, tag) :: l2 -> Entry_ok ms c tag l2.

Definition Out_ok (ms : list pmap) (start : list N) (out : list entry) : Prop :=
  NoDup (map fst (filter tagged out))
  /\ (forall s, In s start -> In s (map fst out))
  /\ Entries_ok ms out.

Lemma entry_okb_spec ms c tag t :
  (match tag with
   | Some k => is_key (nth_map ms (N.to_nat k)) c && (N.to_nat k <? length ms)%nat
               && forallb (fun p => memN p (map fst t)) (nbrs (nth_map ms (N.to_nat k)) c)
   | None => negb (key_anyb ms c)
   end) = true <-> Entry_ok ms c tag t.
Proof.
  destruct tag as [k|]; cbn [Entry_ok].
  - rewrite !andb_true_iff, forallb_forall, Nat.ltb_lt. split.
    + intros [[Hk Hl] Hp]. exists (nth_map ms (N.to_nat k)).
      split; [now apply nth_map_error|]. split; [assumption|].
      intros p He. apply memN_In. now apply Hp.
    + intros (m' & Hn & Hk & Hp).
      assert (Hl : (N.to_nat k < length ms)%nat) by (apply nth_error_Some; congruence).
      rewrite (nth_map_error ms _ Hl) in Hn. inversion Hn; subst m'.
      split; [split; assumption|]. intros p Hin. apply memN_In. now apply Hp.
  - rewrite negb_true_iff. apply key_anyb_false.
Qed.

Lemma entries_okb_spec ms out : entries_okb ms out = true <-> Entries_ok ms out.
Proof.
  induction out as [|[c tag] t IH].
  - cbn. split; [|reflexivity]. intros _ l1 c tag l2 H. destruct l1; discriminate.
  - assert (Hhead : entries_okb ms ((c, tag) :: t) = true <->
                    (Entry_ok ms c tag t /\ entries_okb ms t = true)).
    { rewrite <- entry_okb_spec. destruct tag; cbn [entries_okb]; rewrite andb_true_iff; reflexivity. }
    rewrite Hhead, IH. split.
    + intros [H1 H2] l1 c0 tag0 l2 E. destruct l1 as [|e l1]; cbn in E; inversion E; subst.
      * assumption.
      * eapply H2; eauto.
    + intros H. split.
      * apply (H [] c tag t). reflexivity.
      * intros l1 c0 tag0 l2 E. apply (H ((c, tag) :: l1)). cbn. now rewrite E.
Qed.

Lemma out_okb_spec ms start out : out_okb ms start out = true <-> Out_ok ms start out.
Proof.
  unfold out_okb, Out_ok. rewrite !andb_true_iff, nodupb_spec, forallb_forall, entries_okb_spec.
  split; intros [[H1 H2] H3] || intros (H1 & H2 & H3); repeat split; auto;
    intros s Hs; apply memN_In; auto.
Qed.

Lemma WF_key_unique ms : WF ms -> forall i j a b c,
  nth_error ms i = Some a -> nth_error ms j = Some b ->
  is_key a c = true -> is_key b c = true -> i = j.
Proof.
  induction ms as [|m rest IH]; intros W i j a b c Hi Hj Ha Hb.
  - destruct i; discriminate.
  - destruct W as (W1 & _ & Wr). destruct i as [|i], j as [|j]; cbn in Hi, Hj.
    + reflexivity.
    + inversion Hi; subst a. exfalso. apply (W1 c Ha). exists b. split; [|assumption].
      eapply nth_error_In; eauto.
    + inversion Hj; subst b. exfalso. apply (W1 c Hb). exists a. split; [|assumption].
      eapply nth_error_In; eauto.
    + f_equal. eapply IH; eauto.
Qed.

(** What an accepted output satisfies (used on the implementation's real output). *)
Lemma out_ok_complete ms start out :
  WF ms -> Out_ok ms start out -> forall x, greach_from ms start x -> In x (map fst out).
Proof.
  intros W (_ & Hs & He) x (t & Ht & Hr). specialize (Hs t Ht). clear Ht.
  induction Hr as [|a b c (m & Hm & Hab) _ IH]; [assumption|]. apply IH.
  apply in_map_iff in Hs. destruct Hs as ([a' tag] & E & Hin). cbn in E. subst a'.
  apply in_split in Hin. destruct Hin as (l1 & l2 & ->).
  specialize (He l1 a tag l2 eq_refl). destruct tag as [j|]; cbn in He.
  - destruct He as (m' & Hn & Hk & Hp).
    apply In_nth_error in Hm. destruct Hm as (i & Hi).
    assert (i = N.to_nat j).
    { eapply (WF_key_unique ms W); eauto. eapply nbrs_key; eauto. }
    subst i. rewrite Hi in Hn. inversion Hn; subst m'.
    rewrite map_app. apply in_or_app. right. right. now apply Hp.
  - exfalso. apply He. exists m. split; [assumption|]. eapply nbrs_key; eauto.
Qed.

Lemma out_ok_order ms start out :
  Out_ok ms start out ->
  forall l1 c j l2 m', out = l1 ++ (c, Some j) :: l2 -> nth_error ms (N.to_nat j) = Some m' ->
  forall p, edge m' c p -> In p (map fst l2).
Proof.
  intros (_ & _ & He) l1 c j l2 m' E Hn p Hp.
  destruct (He l1 c (Some j) l2 E) as (m'' & Hn' & _ & H). rewrite Hn in Hn'. inversion Hn'; subst.
  auto.
Qed.

(** * The model's output is accepted *)
Lemma walk_out_ok ms T out :
  WF ms -> walk 0 (map Some ms) T = (out, Done) -> Out_ok ms T out.
Proof.
  intros W H. destruct (walk_spec ms 0 T out W H) as [Hsnd Hcmp Htag Hunt Hnd Hnda Hord].
  split; [assumption|]. split.
  - intros s Hs. apply Hcmp. exists s. split; [assumption|apply greach_refl].
  - intros l1 c tag l2 E. destruct tag as [j|]; cbn.
    + assert (Hin : In (c, Some j) out) by (rewrite E; apply in_or_app; right; now left).
      destruct (Htag c j Hin) as (i & m' & Ej & Hn & Hk).
      assert (N.to_nat j = i) by lia. exists m'. rewrite H0. split; [assumption|]. split; [assumption|].
      intros p Hp. eapply Hord; eauto.
    + apply Hunt. rewrite E. apply in_or_app. right. now left.
Qed.

Lemma walk_closed_all_tagged ms T out :
  WF ms -> Closed ms T -> walk 0 (map Some ms) T = (out, Done) -> forallb tagged out = true.
Proof.
  intros W C H. destruct (walk_spec ms 0 T out W H) as [Hsnd Hcmp Htag Hunt Hnd Hnda Hord].
  apply forallb_forall. intros [c [j|]] Hin; [reflexivity|]. exfalso.
  apply (Hunt c Hin). apply C. eapply Hsnd; eauto.
Qed.

Lemma all_tagged_filter (out : list entry) : forallb tagged out = true -> filter tagged out = out.
Proof.
  induction out as [|e t IH]; cbn; [reflexivity|].
  rewrite andb_true_iff. intros [-> H]. now rewrite IH.
Qed.
