(** Structural facts about the tree values of Model/TreeMerge.v: induction principle for the
    nested type, correctness of the equality tests, depth bounds. *)
From Verif Require Import Base.Prelude Model.Merge Model.TreeMerge.
From Coq Require Import Lia Arith.

Section value_ind_nested.
  Variable P : value -> Prop.
  Hypothesis HF : forall i e c, P (File i e c).
  Hypothesis HL : forall i, P (Symlink i).
  Hypothesis HM : forall i, P (Submodule i).
  Hypothesis HT : forall es, Forall (fun e => P (snd e)) es -> P (Tree es).

  Fixpoint value_ind_nested (v : value) : P v :=
    match v with
    | File i e c => HF i e c
    | Symlink i => HL i
    | Submodule i => HM i
    | Tree es =>
        HT es ((fix go (l : list (N * value)) : Forall (fun e => P (snd e)) l :=
                  match l with
                  | [] => Forall_nil _
                  | e :: t => Forall_cons e (value_ind_nested (snd e)) (go t)
                  end) es)
    end.
End value_ind_nested.

Fixpoint entries_eqb (l l' : list (N * value)) : bool :=
  match l, l' with
  | [], [] => true
  | e :: t, e' :: t' => N.eqb (fst e) (fst e') && value_eqb (snd e) (snd e') && entries_eqb t t'
  | _, _ => false
  end.

Lemma value_eqb_tree es es' : value_eqb (Tree es) (Tree es') = entries_eqb es es'.
Proof.
  revert es'. induction es as [|e t IH]; intros [|e' t']; reflexivity.
Qed.

Lemma value_eqb_spec : forall a b, value_eqb a b = true <-> a = b.
Proof.
  induction a as [i e c|i|i|es IH] using value_ind_nested; intros b.
  - destruct b as [i' e' c'| | |]; cbn [value_eqb]; try (split; [discriminate|congruence]).
    rewrite !Bool.andb_true_iff, !N.eqb_eq, Bool.eqb_true_iff. split.
    + intros [[-> ->] ->]. reflexivity.
    + intros H. injection H as -> -> ->. auto.
  - destruct b; cbn [value_eqb]; try (split; [discriminate|congruence]).
    rewrite N.eqb_eq. split; congruence.
  - destruct b; cbn [value_eqb]; try (split; [discriminate|congruence]).
    rewrite N.eqb_eq. split; congruence.
  - destruct b as [| | |es']; try (cbn [value_eqb]; split; [discriminate|congruence]).
    rewrite value_eqb_tree.
    enough (entries_eqb es es' = true <-> es = es') as -> by (split; congruence).
    revert es'. induction es as [|e t IHt]; intros [|e' t']; cbn [entries_eqb];
      try (split; [discriminate|congruence]); [tauto|].
    inversion IH as [|? ? He Ht]; subst.
    rewrite !Bool.andb_true_iff, N.eqb_eq, He, (IHt Ht). destruct e, e'; cbn [fst snd].
    split; [intros [[-> ->] ->]; reflexivity|intros H; injection H as -> -> ->; auto].
Qed.

Lemma tree_eqb_spec (t t' : tree) : tree_eqb t t' = true <-> t = t'.
Proof. unfold tree_eqb. rewrite value_eqb_spec. split; congruence. Qed.

Lemma oval_eqb_spec (a b : oval) : oval_eqb a b = true <-> a = b.
Proof.
  destruct a as [a|], b as [b|]; cbn; try (split; [discriminate|congruence]); [|tauto].
  rewrite value_eqb_spec. split; congruence.
Qed.

Lemma N_eqb_spec' (a b : N) : N.eqb a b = true <-> a = b.
Proof. apply N.eqb_eq. Qed.
Lemma bool_eqb_spec' (a b : bool) : Bool.eqb a b = true <-> a = b.
Proof. apply Bool.eqb_true_iff. Qed.

Lemma oval_eq_dec (a b : oval) : {a = b} + {a <> b}.
Proof.
  destruct (oval_eqb a b) eqn:E; [left; now apply oval_eqb_spec|right].
  intros H. apply oval_eqb_spec in H. congruence.
Qed.

(** * depth *)
Lemma depth_tree es : depth (Tree es) = S (tdepth es).
Proof.
  reflexivity.
Qed.

Lemma lookup_depth n t v : lookup n t = Some v -> (depth v <= tdepth t)%nat.
Proof.
  induction t as [|e r IH]; [discriminate|]. cbn [lookup tdepth].
  destruct (N.eqb (fst e) n).
  - intros H. injection H as <-. lia.
  - intros H. apply IH in H. lia.
Qed.

Lemma to_tree_lookup_depth n t s :
  lookup n t = Some (Tree s) -> (S (tdepth s) <= tdepth t)%nat.
Proof. intros H. apply lookup_depth in H. now rewrite depth_tree in H. Qed.

Lemma tdepth_to_tree_lookup n t : (tdepth (to_tree (lookup n t)) <= Nat.pred (tdepth t))%nat.
Proof.
  destruct (lookup n t) as [[| | |s]|] eqn:E; cbn [to_tree tdepth]; try lia.
  apply to_tree_lookup_depth in E. lia.
Qed.

Lemma max_tdepth_le ts f :
  (max_tdepth ts <= f)%nat <-> Forall (fun t => (tdepth t <= f)%nat) ts.
Proof.
  induction ts as [|t r IH]; cbn [max_tdepth fold_right].
  - split; [constructor|lia].
  - fold (max_tdepth r). rewrite Forall_cons_iff, <- IH. lia.
Qed.

Lemma to_tree_of_tree t : to_tree (of_tree t) = t.
Proof. destruct t; reflexivity. Qed.
