(** Equality-test lemmas over the Prelude helpers, shared by the C30-C32 proofs. *)
From Verif Require Import Base.Prelude.
Local Open Scope N_scope.

Lemma list_eqb_eq {A} (eqb : A -> A -> bool) :
  (forall x y, eqb x y = true <-> x = y) ->
  forall l1 l2, list_eqb eqb l1 l2 = true <-> l1 = l2.
Proof.
  intros H l1; induction l1 as [|x xs IH]; intros [|y ys]; cbn; try (split; congruence).
  rewrite andb_true_iff, H, IH. split; [intros [-> ->]; reflexivity | intros E; inversion E; auto].
Qed.

Lemma bytes_eqb_eq a b : bytes_eqb a b = true <-> a = b.
Proof. apply list_eqb_eq. intros; apply N.eqb_eq. Qed.
Lemma bytes_eqb_refl a : bytes_eqb a a = true.
Proof. apply bytes_eqb_eq; reflexivity. Qed.
Lemma bytes_eqb_neq a b : bytes_eqb a b = false <-> a <> b.
Proof.
  split.
  - intros H E. apply bytes_eqb_eq in E. congruence.
  - intros H. destruct (bytes_eqb a b) eqn:E; auto. apply bytes_eqb_eq in E. contradiction.
Qed.
Lemma bytes_eq_dec (a b : bytes) : {a = b} + {a <> b}.
Proof.
  destruct (bytes_eqb a b) eqn:E; [left; apply bytes_eqb_eq; auto | right; apply bytes_eqb_neq; auto].
Qed.

Lemma option_eqb_eq {A} (eqb : A -> A -> bool) :
  (forall x y, eqb x y = true <-> x = y) ->
  forall o1 o2, option_eqb eqb o1 o2 = true <-> o1 = o2.
Proof.
  intros H [x|] [y|]; cbn; try (split; congruence).
  rewrite H. split; congruence.
Qed.

Lemma pair_eqb_eq {A B} (ea : A -> A -> bool) (eb : B -> B -> bool) :
  (forall x y, ea x y = true <-> x = y) -> (forall x y, eb x y = true <-> x = y) ->
  forall p q, pair_eqb ea eb p q = true <-> p = q.
Proof.
  intros HA HB [a b] [c d]. unfold pair_eqb; cbn [fst snd].
  rewrite andb_true_iff, HA, HB. split; [intros [-> ->]; reflexivity | intros E; inversion E; auto].
Qed.
